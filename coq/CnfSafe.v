(* CnfSafe.v — safety, failing-source behaviour and error locations of the DIMACS-family parsers
   and of the solver log parser, for every admissible run (Hoare.v is the framework). *)
From Flussab Require Import Base Reader ListN Writer Parsed Prog Text TextSpec ProgProofs ScanProofs DigitsProofs.
From Flussab Require Import ReaderProofs Simulation Consts Cnf CnfProofs ErrProofs Hoare.
Ltac Zify.zify_post_hook ::= Z.to_euclidean_division_equations.

(* ---------- LF-free spans of the stream ---------- *)
Definition span (S : bytes) (a n : N) : Prop :=
  exists p r, nskipn a S = p ++ r /\ nlen p = n /\ Forall (fun x => x <> 10) p.

Lemma span_nolf S a n : span S a n -> nolf S a (a + n).
Proof. intros (p & r & E & <- & Hp). eapply nolf_span; eassumption. Qed.

Lemma span_le S a n : span S a n -> a <= nlen S -> a + n <= nlen S.
Proof. intros (p & r & E & <- & Hp). eapply span_len; eassumption. Qed.

Lemma span_zero S a : span S a 0.
Proof. exists [], (nskipn a S). split; [reflexivity|]. split; [reflexivity|constructor]. Qed.

Lemma span_app S a n1 n2 : span S a n1 -> span S (a + n1) n2 -> span S a (n1 + n2).
Proof.
  intros (p1 & r1 & E1 & <- & Hp1) (p2 & r2 & E2 & <- & Hp2).
  rewrite (nskipn_span S a p1 r1 E1) in E2. subst r1.
  exists (p1 ++ p2), r2. split; [rewrite <- app_assoc; exact E1|]. split; [apply nlen_app|].
  apply Forall_app. split; assumption.
Qed.

Lemma span_eq S a n a' n' : span S a n -> a = a' -> n = n' -> span S a' n'.
Proof. intros H -> ->. exact H. Qed.

Lemma span_app' S a n1 b n2 : span S a n1 -> span S b n2 -> b = a + n1 -> span S a (n1 + n2).
Proof. intros H1 H2 ->. apply span_app; assumption. Qed.

Lemma nnth_nskipn_cons {A} (S : list A) a x : nnth S a = Some x -> exists r, nskipn a S = x :: r.
Proof.
  intros H. unfold nnth in H. apply nth_error_split in H. destruct H as (l1 & l2 & -> & Hl).
  exists l2. unfold nskipn. apply skipn_app_exact. exact Hl.
Qed.

Lemma span_one (S : bytes) a x : nnth S a = Some x -> x <> 10 -> span S a 1.
Proof.
  intros H Hx. destruct (nnth_nskipn_cons S a x H) as [r Er]. exists [x], r.
  split; [exact Er|]. split; [reflexivity|]. constructor; [exact Hx|constructor].
Qed.

Lemma span_blank v off : span (vS v) (vcur v + off) (nlen (blank_prefix (rest_at v off))).
Proof.
  destruct (blank_prefix_split (rest_at v off)) as [r Er]. exists (blank_prefix (rest_at v off)), r.
  split; [exact Er|]. split; [reflexivity|apply blank_prefix_nolf].
Qed.

Lemma span_digits v off : span (vS v) (vcur v + off) (nlen (digit_prefix (rest_at v off))).
Proof.
  destruct (digit_prefix_split (rest_at v off)) as [r Er]. exists (digit_prefix (rest_at v off)), r.
  split; [exact Er|]. split; [reflexivity|apply digit_prefix_nolf].
Qed.

Lemma span_pat (pat : bytes) v off :
  pat <> [] -> ~ In 10 pat -> common_prefix pat (rest_at v off) = nlen pat -> span (vS v) (vcur v + off) (nlen pat).
Proof.
  intros Hne H10 Hc. destruct (common_prefix_full pat (rest_at v off) Hne Hc) as [r Er]. exists pat, r.
  split; [exact Er|]. split; [reflexivity|]. apply Forall_forall. intros x Hx Hx10. subst x. exact (H10 Hx).
Qed.

Lemma signed_spec_split t l :
  exists p r, l = p ++ r /\ nlen p = snd (signed_spec t l) /\ Forall (fun x => x <> 10) p.
Proof.
  assert (Hu : exists p r, l = p ++ r /\ nlen p = snd (unsigned_spec t l) /\ Forall (fun x => x <> 10) p).
  { destruct (digit_prefix_split l) as [r Er]. exists (digit_prefix l), r.
    split; [exact Er|]. split; [reflexivity|apply digit_prefix_nolf]. }
  destruct l as [|b l]; [exact Hu|]. cbn [signed_spec]. destruct (b =? 45) eqn:Eb; [|exact Hu].
  apply N.eqb_eq in Eb. subst b.
  destruct (digit_prefix l) as [|d ds] eqn:Ed.
  - exists [], (45 :: l). split; [reflexivity|]. split; [reflexivity|constructor].
  - destruct (digit_prefix_split l) as [r Er]. rewrite Ed in Er. exists (45 :: d :: ds), r.
    split; [cbn [app]; f_equal; exact Er|]. split; [unfold nlen; cbn [snd length]; lia|].
    constructor; [lia|]. rewrite <- Ed. apply digit_prefix_nolf.
Qed.

Lemma span_signed t v off : span (vS v) (vcur v + off) (snd (signed_spec t (rest_at v off))).
Proof. destruct (signed_spec_split t (rest_at v off)) as (p & r & E & Hl & Hp). exists p, r. split; [exact E|]. split; assumption. Qed.

Lemma span_unsigned t v off : span (vS v) (vcur v + off) (snd (unsigned_spec t (rest_at v off))).
Proof. apply span_digits. Qed.

(* where a line ends, seen from offset k: at the LF at p, or at the end of the input p *)
Lemma break_facts v k :
  vcur v + k <= nlen (vS v) ->
  let bn := before_newline (rest_at v k) in
  let tnn := to_next_newline (rest_at v k) in
  let p := vcur v + k + bn in
  nolf (vS v) (vcur v + k) p /\ p <= nlen (vS v) /\
  (nnth (vS v) p = Some 10 /\ tnn = bn + 1 \/ p = nlen (vS v) /\ tnn = bn).
Proof.
  intros Hk bn tnn p.
  destruct (to_next_newline_split (rest_at v k)) as (q & r & E & Hlen & Hq & Hr).
  unfold rest_at in E. fold bn in Hlen. subst p.
  split; [rewrite <- Hlen; eapply nolf_span; eassumption|]. split; [rewrite <- Hlen; eapply span_len; eassumption|].
  destruct Hr as [[-> Ht]|(r' & -> & Ht)].
  - right. split; [|unfold tnn, bn; exact Ht].
    assert (Hn : nlen (nskipn (vcur v + k) (vS v)) = nlen q + 0) by (rewrite E; apply nlen_app).
    rewrite nlen_nskipn in Hn. lia.
  - left. split; [|unfold tnn, bn; exact Ht]. rewrite <- Hlen. rewrite <- (N.add_0_r (vcur v + k + nlen q)).
    rewrite (nnth_span_r _ _ _ _ 0 E). reflexivity.
Qed.

Section Safe.
Variable fuel : nat.

Local Notation K := (K fuel).
Local Notation VOK := (VOK fuel).
Local Notation TokPost := (TokPost fuel).
Local Notation Gk := (Gk fuel).
Local Notation Gs := (Gs fuel).

(* consuming an LF-free span after the peeks that established it *)
Lemma K_consume lr v v1 v2 m n :
  K lr v -> quiet v v1 -> peeked_to v1 v2 m -> vcur v + n <= m -> span (vS v) (vcur v) n ->
  vcur v2 + n <= vhwm v2 /\ K lr (v_advance v2 n) /\ frame v (v_advance v2 n) /\ vmark (v_advance v2 n) = vmark v /\
  vcur (v_advance v2 n) = vcur v + n.
Proof.
  intros HK Hq1 Hpk Hm Hsp.
  pose proof (K_quiet _ _ _ _ HK Hq1) as HK1.
  pose proof (peeked_quiet _ _ _ (VOK_WFV _ _ (K_VOK _ _ _ HK1)) Hpk) as Hq2.
  pose proof (quiet_trans _ _ _ Hq1 Hq2) as Hq.
  pose proof (K_quiet _ _ _ _ HK Hq) as HK2.
  pose proof Hq as (a1 & a2 & a3 & a4 & a5 & a6 & a7).
  pose proof Hq1 as (b1 & b2 & b3 & _).
  pose proof (span_le _ _ _ Hsp (VOK_cur_le _ _ (K_VOK _ _ _ HK))) as Hle.
  assert (Hh : vcur v2 + n <= vhwm v2).
  { rewrite a3. eapply peeked_hwm; [exact Hpk|lia|rewrite b1; exact Hle]. }
  split; [exact Hh|]. split.
  - apply K_advance; [exact HK2|exact Hh|]. rewrite a1, a3. apply span_nolf. exact Hsp.
  - split; [|split; [exact a4|cbn [v_advance vcur]; lia]].
    unfold frame. cbn [v_advance vS vfail vcur]. split; [exact a1|]. split; [exact a2|lia].
Qed.

Lemma fuel_of lr v : K lr v -> (length (vS v) < fuel)%nat.
Proof. intros H. exact (VOK_fuel _ _ (K_VOK _ _ _ H)). Qed.

Lemma wf_of lr v : K lr v -> WFV v.
Proof. intros H. exact (VOK_WFV _ _ (K_VOK _ _ _ H)). Qed.

(* ---------- skip_whitespace ---------- *)
Lemma skip_whitespace_ok lr v : K lr v ->
  prt (skip_whitespace fuel) lr v (fun _ lr' v' => lr' = lr /\ K lr v' /\ frame v v').
Proof.
  intros HK. unfold skip_whitespace. apply prt_pbnd, prt_tabs; [eapply fuel_of; exact HK|]. intros v1 Hpk.
  destruct (K_consume lr v v v1 _ (0 + nlen (blank_prefix (rest_at v 0))) HK (quiet_refl v (wf_of _ _ HK)) Hpk)
    as (h1 & h2 & h3 & _); [lia| |].
  - eapply span_eq; [apply (span_blank v 0)|lia|lia].
  - apply prt_padvance; [exact h1|]. split; [reflexivity|]. split; [exact h2|exact h3].
Qed.

(* ---------- token::word, token::fixed ---------- *)
Lemma nlen_pos {A} (l : list A) : l <> [] -> 0 < nlen l.
Proof. destruct l; [congruence|]. intros _. unfold nlen; cbn [length]; lia. Qed.

Lemma word_ok (pat : bytes) lr v : pat <> [] -> ~ In 10 pat -> K lr v -> prt (word fuel pat) lr v (TokPost (Gs v) v).
Proof.
  intros Hne H10 HK. pose proof (wf_of _ _ HK) as Hw.
  unfold word, tok_ft, tok_ok. apply prt_pbnd, prt_fixed; [exact Hne|]. intros v1 Hpk1.
  pose proof (peeked_quiet _ _ _ Hw Hpk1) as Hq1.
  pose proof (K_quiet _ _ _ _ HK Hq1) as HK1.
  destruct (common_prefix pat (rest_at v 0) =? nlen pat) eqn:Ec.
  - apply N.eqb_eq in Ec. pose proof (nlen_pos pat Hne) as Hpl.
    cbv iota. assert ((0 + nlen pat =? 0) = false) as -> by (apply N.eqb_neq; lia).
    apply prt_pbnd, prt_ppeek.
    pose proof (peeked_after_peek v1 (0 + nlen pat)) as Hpk2.
    pose proof (peeked_quiet _ _ _ (wf_of _ _ HK1) Hpk2) as Hq2.
    pose proof (quiet_trans _ _ _ Hq1 Hq2) as Hq12.
    pose proof (K_quiet _ _ _ _ HK Hq12) as HK2.
    destruct (is_eow_byte (vpeek v1 (0 + nlen pat))).
    + apply prt_pbnd, prt_tabs; [eapply fuel_of; exact HK2|]. intros v3 Hpk3.
      rewrite (rest_at_quiet _ _ _ Hq12) in *.
      destruct (K_consume lr v _ v3 _ (0 + nlen pat + nlen (blank_prefix (rest_at v (0 + nlen pat)))) HK Hq12 Hpk3)
        as (h1 & h2 & h3 & _ & h5).
      * destruct Hq12 as (_ & _ & a3 & _). rewrite a3. lia.
      * eapply span_eq; [eapply span_app'; [apply (span_pat pat v 0 Hne H10 Ec)|apply (span_blank v (0 + nlen pat))|lia]|lia|lia].
      * apply prt_pbnd, prt_padvance; [exact h1|]. apply prt_pret.
        split; [exact h3|]. split; [exact h2|lia].
    + apply prt_pret. split; [apply quiet_frame; exact Hq12|exact HK2].
  - change (0 =? 0) with true. cbv iota. apply prt_pret. split; [apply quiet_frame; exact Hq1|exact HK1].
Qed.

Lemma tfixed_ok (pat : bytes) lr v : pat <> [] -> ~ In 10 pat -> K lr v -> prt (tfixed pat) lr v (TokPost (Gs v) v).
Proof.
  intros Hne H10 HK. pose proof (wf_of _ _ HK) as Hw.
  unfold tfixed, tok_ft, tok_ok. apply prt_pbnd, prt_fixed; [exact Hne|]. intros v1 Hpk1.
  pose proof (peeked_quiet _ _ _ Hw Hpk1) as Hq1.
  pose proof (K_quiet _ _ _ _ HK Hq1) as HK1.
  destruct (common_prefix pat (rest_at v 0) =? nlen pat) eqn:Ec.
  - apply N.eqb_eq in Ec. pose proof (nlen_pos pat Hne) as Hpl.
    cbv iota. assert ((0 + nlen pat =? 0) = false) as -> by (apply N.eqb_neq; lia).
    destruct (K_consume lr v v v1 _ (0 + nlen pat) HK (quiet_refl v Hw) Hpk1) as (h1 & h2 & h3 & _ & h5).
    + rewrite Ec. lia.
    + eapply span_eq; [apply (span_pat pat v 0 Hne H10 Ec)|lia|lia].
    + apply prt_pbnd, prt_padvance; [exact h1|]. apply prt_pret.
      split; [exact h3|]. split; [exact h2|lia].
  - change (0 =? 0) with true. cbv iota. apply prt_pret. split; [apply quiet_frame; exact Hq1|exact HK1].
Qed.

(* ---------- token::uint / token::int / token::braced_uint ---------- *)
(* the number tokens do not touch the line bookkeeping nor the mark, and consume only on success *)
Definition NumPost (lr : lrs) (v : view) (a : parsed Z unit) (lr' : lrs) (v' : view) : Prop :=
  lr' = lr /\ K lr v' /\ frame v v' /\ vmark v' = vmark v /\
  match a with Res (Ok _) => vcur v < vcur v' | _ => vcur v' = vcur v end.

Lemma NumPost_quiet lr v v2 (a : parsed Z unit) :
  K lr v -> quiet v v2 -> match a with Res (Ok _) => False | _ => True end -> NumPost lr v a lr v2.
Proof.
  intros HK Hq Ha. split; [reflexivity|]. split; [eapply K_quiet; eassumption|]. split; [apply quiet_frame; exact Hq|].
  destruct Hq as (_ & _ & a3 & a4 & _). split; [exact a4|]. destruct a as [[z|e]|]; [contradiction|exact a3|exact a3].
Qed.

(* ... and a successful number token returns a value satisfying P *)
Definition NumPostV (P : Z -> Prop) (lr : lrs) (v : view) (a : parsed Z unit) (lr' : lrs) (v' : view) : Prop :=
  NumPost lr v a lr' v' /\ forall z, a = Res (Ok z) -> P z.

Lemma NumPostV_quiet P lr v v2 (a : parsed Z unit) :
  K lr v -> quiet v v2 -> match a with Res (Ok _) => False | _ => True end -> NumPostV P lr v a lr v2.
Proof.
  intros HK Hq Ha. split; [apply NumPost_quiet; assumption|]. intros z E. subst a. contradiction.
Qed.

Lemma number_tail lr v v1 (value : option Z) offset :
  K lr v -> quiet v v1 -> span (vS v) (vcur v) offset ->
  prt (if offset =? 0 then pret Fallthrough else
       let* o := ppeek offset in
       if is_eow_byte o then
         match value with
         | Some z => let* offset2 := lift (tabs_or_spaces fuel offset) in padvance offset2 ;;;; pret (Res (Ok z))
         | None => pret (Res (Err tt))
         end
       else pret Fallthrough) lr v1 (NumPostV (fun z => value = Some z) lr v).
Proof.
  intros HK Hq1 Hsp. pose proof (K_quiet _ _ _ _ HK Hq1) as HK1.
  destruct (offset =? 0) eqn:E0.
  - apply prt_pret. apply NumPostV_quiet; [exact HK|exact Hq1|exact I].
  - apply N.eqb_neq in E0. apply prt_pbnd, prt_ppeek.
    pose proof (peeked_after_peek v1 offset) as Hpk2.
    pose proof (peeked_quiet _ _ _ (wf_of _ _ HK1) Hpk2) as Hq2.
    pose proof (quiet_trans _ _ _ Hq1 Hq2) as Hq12.
    pose proof (K_quiet _ _ _ _ HK Hq12) as HK2.
    destruct (is_eow_byte (vpeek v1 offset)).
    + destruct value as [z|].
      * apply prt_pbnd, prt_tabs; [eapply fuel_of; exact HK2|]. intros v3 Hpk3.
        rewrite (rest_at_quiet _ _ _ Hq12) in *.
        destruct (K_consume lr v _ v3 _ (offset + nlen (blank_prefix (rest_at v offset))) HK Hq12 Hpk3)
          as (h1 & h2 & h3 & h4 & h5).
        -- destruct Hq12 as (_ & _ & a3 & _). rewrite a3. lia.
        -- eapply span_app'; [exact Hsp|apply (span_blank v offset)|reflexivity].
        -- apply prt_pbnd, prt_padvance; [exact h1|]. apply prt_pret.
           split; [|intros z' E; inversion E; reflexivity].
           split; [reflexivity|]. split; [exact h2|]. split; [exact h3|]. split; [exact h4|]. lia.
      * apply prt_pret. apply NumPostV_quiet; [exact HK|exact Hq12|exact I].
    + apply prt_pret. apply NumPostV_quiet; [exact HK|exact Hq12|exact I].
Qed.

(* the value of the numeral at the head of l (T4) *)
Definition signed_value (l : bytes) : Z :=
  match l with
  | b :: r => if b =? 45 then (- Z.of_N (dec_val (digit_prefix r)))%Z else Z.of_N (dec_val (digit_prefix l))
  | [] => Z.of_N (dec_val (digit_prefix l))
  end.
Definition num_value (sg : bool) (l : bytes) : Z := if sg then signed_value l else Z.of_N (dec_val (digit_prefix l)).

Lemma from_prim_some t x z : from_prim t x = Some z -> in_range t z = true /\ z = x.
Proof. unfold from_prim. destruct (in_range t x) eqn:E; [|discriminate]. intros H. inversion H; subst. split; [exact E|reflexivity]. Qed.

Lemma unsigned_spec_value t l z :
  fst (unsigned_spec t l) = Some z -> in_range t z = true /\ z = Z.of_N (dec_val (digit_prefix l)).
Proof. unfold unsigned_spec. cbn [fst]. apply from_prim_some. Qed.

Lemma signed_spec_value t l z : fst (signed_spec t l) = Some z -> in_range t z = true /\ z = signed_value l.
Proof.
  destruct l as [|b r]; [apply unsigned_spec_value|]. cbn [signed_spec signed_value].
  destruct (b =? 45); [|apply unsigned_spec_value].
  destruct (digit_prefix r) as [|d ds]; cbn [fst].
  - intros H. inversion H; subst. split; [apply in_range_0|reflexivity].
  - apply from_prim_some.
Qed.

(* T4 for token::uint / token::int: a returned value is the value of the numeral at the cursor, and fits the type *)
Lemma number_val sg t lr v : (sg = true -> ity_signed t = true) -> K lr v ->
  prt (number fuel sg t) lr v (NumPostV (fun z => in_range t z = true /\ z = num_value sg (rest_at v 0)) lr v).
Proof.
  intros Hs HK. unfold number. apply prt_pbnd. destruct sg.
  - apply prt_sdigits; [auto|exact (K_VOK _ _ _ HK)|]. intros v1 Hq1. cbv beta iota.
    eapply prt_conseq; [apply number_tail; [exact HK|exact Hq1|]|].
    + eapply span_eq; [apply (span_signed t v 0)|lia|lia].
    + intros a lr' v' [Hn Hv]. split; [exact Hn|]. intros z E. apply signed_spec_value. exact (Hv z E).
  - apply prt_digits; [exact (K_VOK _ _ _ HK)|]. intros v1 Hq1. cbv beta iota.
    eapply prt_conseq; [apply number_tail; [exact HK|exact Hq1|]|].
    + eapply span_eq; [apply (span_unsigned t v 0)|lia|lia].
    + intros a lr' v' [Hn Hv]. split; [exact Hn|]. intros z E. apply unsigned_spec_value. exact (Hv z E).
Qed.

Lemma number_ok sg t lr v : (sg = true -> ity_signed t = true) -> K lr v -> prt (number fuel sg t) lr v (NumPost lr v).
Proof. intros Hs HK. eapply prt_conseq; [apply number_val; assumption|]. intros a lr' v' [H _]. exact H. Qed.

Lemma braced_uint_val t lr v : K lr v ->
  prt (braced_uint fuel t) lr v
      (NumPostV (fun z => in_range t z = true /\ z = Z.of_N (dec_val (digit_prefix (rest_at v 1)))) lr v).
Proof.
  intros HK. unfold braced_uint. apply prt_pbnd, prt_ppeek.
  pose proof (peeked_after_peek v 0) as Hpk0.
  pose proof (peeked_quiet _ _ _ (wf_of _ _ HK) Hpk0) as Hq0.
  pose proof (K_quiet _ _ _ _ HK Hq0) as HK0.
  destruct (vpeek v 0) as [b|] eqn:Ep; [destruct (b =? 123) eqn:Eb|];
    [|apply prt_pret; apply NumPostV_quiet; [exact HK|exact Hq0|exact I]..].
  apply N.eqb_eq in Eb. subst b.
  apply prt_pbnd, prt_digits; [exact (K_VOK _ _ _ HK0)|]. intros v1 Hq1. cbv beta iota.
  rewrite (rest_at_quiet _ _ _ Hq0).
  pose proof (quiet_trans _ _ _ Hq0 Hq1) as Hq01.
  pose proof (K_quiet _ _ _ _ HK Hq01) as HK1.
  set (n := snd (unsigned_spec t (rest_at v 1))).
  destruct (1 + n =? 1) eqn:E1; [apply prt_pret; apply NumPostV_quiet; [exact HK|exact Hq01|exact I]|].
  apply prt_pbnd, prt_ppeek.
  pose proof (peeked_after_peek v1 (1 + n)) as Hpk2.
  pose proof (peeked_quiet _ _ _ (wf_of _ _ HK1) Hpk2) as Hq2.
  pose proof (quiet_trans _ _ _ Hq01 Hq2) as Hq012.
  pose proof (K_quiet _ _ _ _ HK Hq012) as HK2.
  rewrite (vpeek_quiet _ _ _ Hq01).
  destruct (vpeek v (1 + n)) as [b2|] eqn:Ep2; [destruct (b2 =? 125) eqn:Eb2|];
    [|apply prt_pret; apply NumPostV_quiet; [exact HK|exact Hq012|exact I]..].
  apply N.eqb_eq in Eb2. subst b2.
  destruct (fst (unsigned_spec t (rest_at v 1))) as [z|] eqn:Ev;
    [|apply prt_pret; apply NumPostV_quiet; [exact HK|exact Hq012|exact I]].
  apply prt_pbnd, prt_tabs; [eapply fuel_of; exact HK2|]. intros v3 Hpk3.
  rewrite (rest_at_quiet _ _ _ Hq012) in *.
  destruct (K_consume lr v _ v3 _ (1 + n + 1 + nlen (blank_prefix (rest_at v (1 + n + 1)))) HK Hq012 Hpk3)
    as (h1 & h2 & h3 & h4 & h5).
  - destruct Hq012 as (_ & _ & a3 & _). rewrite a3. lia.
  - unfold vpeek in Ep, Ep2.
    eapply span_app'; [eapply span_app'; [eapply span_app'|..]|..].
    + apply (span_one (vS v) (vcur v) 123); [rewrite <- Ep; f_equal; lia|lia].
    + apply (span_unsigned t v 1).
    + reflexivity.
    + apply (span_one (vS v) (vcur v + (1 + n)) 125); [exact Ep2|lia].
    + fold n. lia.
    + apply (span_blank v (1 + n + 1)).
    + fold n. lia.
  - apply prt_pbnd, prt_padvance; [exact h1|]. apply prt_pret.
    split; [|intros z' E; inversion E; subst; apply unsigned_spec_value; exact Ev].
    split; [reflexivity|]. split; [exact h2|]. split; [exact h3|]. split; [exact h4|]. lia.
Qed.

Lemma braced_uint_ok t lr v : K lr v -> prt (braced_uint fuel t) lr v (NumPost lr v).
Proof. intros HK. eapply prt_conseq; [apply braced_uint_val; assumption|]. intros a lr' v' [H _]. exact H. Qed.

(* ---------- tokens that end a line ---------- *)
(* after line_at_offset off: consuming k LF-free bytes, the rest of the line, its break, and nb more LF-free bytes *)
Lemma K_line_skip lr v v2 k nb :
  K lr v -> quiet v v2 -> span (vS v) (vcur v) k ->
  0 < k + to_next_newline (rest_at v k) ->
  span (vS v) (vcur v + (k + to_next_newline (rest_at v k))) nb ->
  vcur v + (k + to_next_newline (rest_at v k) + nb) <= vhwm v2 ->
  K {| l_line := l_line lr + 1; l_start := vcur v + (k + to_next_newline (rest_at v k)) |}
    (v_advance v2 (k + to_next_newline (rest_at v k) + nb)).
Proof.
  intros HK Hq Hk Hpos Hnb Hh.
  pose proof (span_le _ _ _ Hk (VOK_cur_le _ _ (K_VOK _ _ _ HK))) as Hkl.
  destruct (break_facts v k Hkl) as (Hn1 & Hp & Hbr).
  set (bn := before_newline (rest_at v k)) in *. set (tnn := to_next_newline (rest_at v k)) in *.
  apply (K_newline fuel lr v v2 (k + tnn + nb) (vcur v + k + bn) (vcur v + (k + tnn)) HK Hq).
  - lia.
  - eapply nolf_trans; [apply span_nolf; exact Hk|exact Hn1].
  - destruct Hbr as [[Hb Ht]|[Hb Ht]]; [left; split; [exact Hb|lia]|right; split; [exact Hb|split; lia]].
  - lia.
  - eapply nolf_weaken; [apply span_nolf; exact Hnb|lia|lia].
  - exact Hh.
Qed.

Lemma line_skip_le v k :
  vcur v + k <= nlen (vS v) ->
  vcur v + (k + to_next_newline (rest_at v k)) <= nlen (vS v) /\
  vcur v + (k + to_next_newline (rest_at v k)) <= vcur v + k + before_newline (rest_at v k) + 1.
Proof.
  intros Hkl. destruct (break_facts v k Hkl) as (_ & Hp & [[Hb Ht]|[Hb Ht]]).
  - apply nnth_some_lt in Hb. lia.
  - lia.
Qed.

Lemma comment_ok lr v : K lr v -> prt (comment fuel) lr v (TokPost (Gs v) v).
Proof.
  intros HK. unfold comment, tok_ft, tok_ok. apply prt_pbnd, prt_ppeek.
  pose proof (peeked_after_peek v 0) as Hpk0.
  pose proof (peeked_quiet _ _ _ (wf_of _ _ HK) Hpk0) as Hq0.
  pose proof (K_quiet _ _ _ _ HK Hq0) as HK0.
  destruct (vpeek v 0) as [b|] eqn:Ep; [destruct (b =? 99) eqn:Eb|];
    [|apply prt_pret; split; [apply quiet_frame; exact Hq0|exact HK0]..].
  apply N.eqb_eq in Eb. subst b.
  assert (Hc : nnth (vS v) (vcur v) = Some 99) by (unfold vpeek in Ep; replace (vcur v) with (vcur v + 0) by lia; exact Ep).
  assert (Hsp1 : span (vS v) (vcur v) 1) by (eapply span_one; [exact Hc|lia]).
  apply prt_pbnd, prt_next_newline; [eapply fuel_of; exact HK0|]. intros v1 Hpk1.
  rewrite (rest_at_quiet _ _ _ Hq0) in *.
  pose proof (peeked_quiet _ _ _ (wf_of _ _ HK0) Hpk1) as Hq1.
  pose proof (quiet_trans _ _ _ Hq0 Hq1) as Hq01.
  pose proof (K_quiet _ _ _ _ HK Hq01) as HK1.
  apply prt_pbnd, (prt_line_at_offset fuel); [exact (K_VOK _ _ _ HK1)|].
  apply prt_pbnd, prt_tabs; [eapply fuel_of; exact HK1|]. intros v2 Hpk2.
  rewrite (rest_at_quiet _ _ _ Hq01) in *.
  pose proof (peeked_quiet _ _ _ (wf_of _ _ HK1) Hpk2) as Hq2.
  pose proof (quiet_trans _ _ _ Hq01 Hq2) as Hq012.
  pose proof Hq01 as (b1 & _ & b3 & _). rewrite b3 in *.
  pose proof Hq012 as (c1 & c2 & c3 & _).
  pose proof (span_le _ _ _ Hsp1 (VOK_cur_le _ _ (K_VOK _ _ _ HK))) as Hkl.
  destruct (line_skip_le v 1 Hkl) as [Hl1 Hl2].
  set (off := 1 + to_next_newline (rest_at v 1)) in *.
  pose proof (span_blank v off) as Hnb. set (nb := nlen (blank_prefix (rest_at v off))) in *.
  pose proof (span_le _ _ _ Hnb Hl1) as Hl3.
  assert (Hh : vcur v + (off + nb) <= vhwm v2).
  { eapply peeked_hwm; [exact Hpk2|lia|rewrite b1; lia]. }
  apply prt_pbnd, prt_padvance; [rewrite c3; exact Hh|]. apply prt_pret.
  split; [unfold frame; cbn [v_advance vS vfail vcur]; split; [exact c1|split; [exact c2|lia]]|].
  split; [|cbn [v_advance vcur]; lia].
  apply K_line_skip; [exact HK|exact Hq012|exact Hsp1|lia|exact Hnb|exact Hh].
Qed.

Lemma interactive_strict_comment_ok lr v : K lr v -> prt (interactive_strict_comment fuel) lr v (TokPost (Gs v) v).
Proof.
  intros HK. unfold interactive_strict_comment, tok_ft, tok_ok.
  apply prt_pbnd, prt_fixed; [discriminate|]. intros v0 Hpk0.
  pose proof (peeked_quiet _ _ _ (wf_of _ _ HK) Hpk0) as Hq0.
  pose proof (K_quiet _ _ _ _ HK Hq0) as HK0.
  destruct (common_prefix log_comment (rest_at v 0) =? nlen log_comment) eqn:Ec; cbv iota;
    [|change (0 =? 0) with true; cbv iota; apply prt_pret; split; [apply quiet_frame; exact Hq0|exact HK0]].
  apply N.eqb_eq in Ec. change (0 + nlen log_comment =? 0) with false. cbv iota.
  assert (Hsp2 : span (vS v) (vcur v) 2).
  { eapply span_eq; [apply (span_pat log_comment v 0); [discriminate| |exact Ec]|lia|reflexivity].
    cbv [log_comment In]. intros [H|[H|[]]]; discriminate. }
  apply prt_pbnd, prt_next_newline; [eapply fuel_of; exact HK0|]. intros v1 Hpk1.
  rewrite (rest_at_quiet _ _ _ Hq0) in *.
  pose proof (peeked_quiet _ _ _ (wf_of _ _ HK0) Hpk1) as Hq1.
  pose proof (quiet_trans _ _ _ Hq0 Hq1) as Hq01.
  pose proof (K_quiet _ _ _ _ HK Hq01) as HK1.
  apply prt_pbnd, (prt_line_at_offset fuel); [exact (K_VOK _ _ _ HK1)|].
  pose proof Hq0 as (b1 & _ & b3 & _). rewrite b3 in *.
  pose proof Hq01 as (c1 & c2 & c3 & _). rewrite c3.
  pose proof (span_le _ _ _ Hsp2 (VOK_cur_le _ _ (K_VOK _ _ _ HK))) as Hkl.
  destruct (line_skip_le v 2 Hkl) as [Hl1 Hl2].
  set (off := 2 + to_next_newline (rest_at v 2)) in *.
  assert (Hh : vcur v + (off + 0) <= vhwm v1).
  { eapply peeked_hwm; [exact Hpk1|lia|rewrite b1; lia]. }
  apply prt_pbnd, prt_padvance; [rewrite c3; lia|]. apply prt_pret.
  split; [unfold frame; cbn [v_advance vS vfail vcur]; split; [exact c1|split; [exact c2|lia]]|].
  split; [|cbn [v_advance vcur]; lia].
  replace off with (off + 0) at 2 by lia.
  apply K_line_skip; [exact HK|exact Hq01|exact Hsp2|lia|apply span_zero|exact Hh].
Qed.

Lemma interactive_skip_line_ok lr v : K lr v -> prt (interactive_skip_line fuel) lr v (TokPost (Gs v) v).
Proof.
  intros HK. unfold interactive_skip_line, tok_ft, tok_ok.
  apply prt_pbnd, prt_next_newline; [eapply fuel_of; exact HK|]. intros v1 Hpk1.
  pose proof (peeked_quiet _ _ _ (wf_of _ _ HK) Hpk1) as Hq1.
  pose proof (K_quiet _ _ _ _ HK Hq1) as HK1.
  destruct (0 + to_next_newline (rest_at v 0) =? 0) eqn:E0;
    [apply prt_pret; split; [apply quiet_frame; exact Hq1|exact HK1]|].
  apply N.eqb_neq in E0.
  apply prt_pbnd, (prt_line_at_offset fuel); [exact (K_VOK _ _ _ HK1)|].
  pose proof Hq1 as (c1 & c2 & c3 & _). rewrite c3.
  pose proof (VOK_cur_le _ _ (K_VOK _ _ _ HK)) as Hkl. rewrite <- (N.add_0_r (vcur v)) in Hkl.
  destruct (line_skip_le v 0 Hkl) as [Hl1 Hl2].
  set (off := 0 + to_next_newline (rest_at v 0)) in *.
  assert (Hh : vcur v + (off + 0) <= vhwm v1).
  { eapply peeked_hwm; [exact Hpk1|lia|lia]. }
  apply prt_pbnd, prt_padvance; [rewrite c3; lia|]. apply prt_pret.
  split; [unfold frame; cbn [v_advance vS vfail vcur]; split; [exact c1|split; [exact c2|lia]]|].
  split; [|cbn [v_advance vcur]; lia].
  replace off with (off + 0) at 2 by lia.
  apply K_line_skip; [exact HK|exact Hq1|apply span_zero|lia|apply span_zero|exact Hh].
Qed.

(* token::newline: LF or CR LF *)
Lemma K_nl lr v v2 len nb :
  K lr v -> quiet v v2 -> span (vS v) (vcur v) (len - 1) -> 0 < len -> nnth (vS v) (vcur v + (len - 1)) = Some 10 ->
  span (vS v) (vcur v + len) nb -> vcur v + (len + nb) <= vhwm v2 ->
  K {| l_line := l_line lr + 1; l_start := vcur v + len |} (v_advance v2 (len + nb)).
Proof.
  intros HK Hq Hsp Hlen Hlf Hnb Hh.
  apply (K_newline fuel lr v v2 (len + nb) (vcur v + (len - 1)) (vcur v + len) HK Hq).
  - lia.
  - apply span_nolf. exact Hsp.
  - left. split; [exact Hlf|lia].
  - lia.
  - eapply nolf_weaken; [apply span_nolf; exact Hnb|lia|lia].
  - exact Hh.
Qed.

Lemma tnewline_ok interactive lr v : K lr v -> prt (tnewline fuel interactive) lr v (TokPost (Gs v) v).
Proof.
  intros HK. unfold tnewline, tok_ft, tok_ok. apply prt_pbnd, prt_newline. intros v1 Hpk1.
  pose proof (peeked_quiet _ _ _ (wf_of _ _ HK) Hpk1) as Hq1.
  pose proof (K_quiet _ _ _ _ HK Hq1) as HK1.
  pose proof Hq1 as (c1 & c2 & c3 & _).
  assert (Hmain : forall len, 0 < len -> newline_len (rest_at v 0) = len -> newline_look (rest_at v 0) = len ->
            span (vS v) (vcur v) (len - 1) -> nnth (vS v) (vcur v + (len - 1)) = Some 10 ->
            prt (line_at_offset (0 + len) ;;;;
                 (if interactive then padvance (0 + len)
                  else let* offset2 := lift (tabs_or_spaces fuel (0 + len)) in padvance offset2) ;;;;
                 pret (Res (Ok tt))) lr v1 (TokPost (Gs v) v)).
  { intros len Hlen E1 E2 Hsp Hlf. rewrite E2 in Hpk1.
    assert (Hl1 : vcur v + len <= nlen (vS v)) by (apply nnth_some_lt in Hlf; lia).
    apply prt_pbnd, (prt_line_at_offset fuel); [exact (K_VOK _ _ _ HK1)|]. rewrite c3. apply prt_pbnd.
    destruct interactive.
    - assert (Hh : vcur v + (len + 0) <= vhwm v1) by (eapply peeked_hwm; [exact Hpk1|lia|lia]).
      apply prt_padvance; [rewrite c3; lia|]. apply prt_pret.
      split; [unfold frame; cbn [v_advance vS vfail vcur]; split; [exact c1|split; [exact c2|lia]]|].
      split; [|cbn [v_advance vcur]; lia].
      replace (0 + len) with (len + 0) at 2 by lia. replace (vcur v + (0 + len)) with (vcur v + len) by lia.
      apply K_nl; [exact HK|exact Hq1|exact Hsp|exact Hlen|exact Hlf|apply span_zero|exact Hh].
    - apply prt_pbnd, prt_tabs; [eapply fuel_of; exact HK1|]. intros v2 Hpk2.
      rewrite (rest_at_quiet _ _ _ Hq1) in *. rewrite c3 in Hpk2.
      pose proof (peeked_quiet _ _ _ (wf_of _ _ HK1) Hpk2) as Hq2.
      pose proof (quiet_trans _ _ _ Hq1 Hq2) as Hq12.
      pose proof Hq12 as (d1 & d2 & d3 & _).
      pose proof (span_blank v (0 + len)) as Hnb. set (nb := nlen (blank_prefix (rest_at v (0 + len)))) in *.
      assert (Hl3 : vcur v + (0 + len) + nb <= nlen (vS v)) by (apply (span_le _ _ _ Hnb); lia).
      assert (Hh : vcur v + (len + nb) <= vhwm v2) by (eapply peeked_hwm; [exact Hpk2|lia|rewrite c1; lia]).
      apply prt_padvance; [rewrite d3; lia|]. apply prt_pret.
      split; [unfold frame; cbn [v_advance vS vfail vcur]; split; [exact d1|split; [exact d2|lia]]|].
      split; [|cbn [v_advance vcur]; lia].
      replace (0 + len + nb) with (len + nb) by lia. replace (vcur v + (0 + len)) with (vcur v + len) by lia.
      apply K_nl; [exact HK|exact Hq12|exact Hsp|exact Hlen|exact Hlf| |exact Hh].
      eapply span_eq; [exact Hnb|lia|reflexivity]. }
  destruct (newline_len_cases (rest_at v 0)) as [[E [r Er]]|[[E [r Er]]|E]].
  - rewrite E. change (0 + 1 =? 0) with false. cbv iota.
    unfold rest_at in Er. destruct (nskipn_cons_nnth _ _ _ _ Er) as [Hn _].
    apply (Hmain 1); [lia|exact E|unfold rest_at; rewrite Er; reflexivity|apply span_zero|].
    replace (vcur v + (1 - 1)) with (vcur v + 0) by lia. exact Hn.
  - rewrite E. change (0 + 2 =? 0) with false. cbv iota.
    unfold rest_at in Er. destruct (nskipn_cons_nnth _ _ _ _ Er) as [Hn1 Er2].
    destruct (nskipn_cons_nnth _ _ _ _ Er2) as [Hn2 _].
    apply (Hmain 2); [lia|exact E|unfold rest_at; rewrite Er; reflexivity| |].
    + apply (span_one _ _ 13); [replace (vcur v) with (vcur v + 0) by lia; exact Hn1|lia].
    + replace (vcur v + (2 - 1)) with (vcur v + 0 + 1) by lia. exact Hn2.
  - rewrite E. change (0 + 0 =? 0) with true. cbv iota.
    apply prt_pret. split; [apply quiet_frame; exact Hq1|exact HK1].
Qed.

(* ---------- eof, end of line ---------- *)
Lemma TokPost_weaken {A} (G G' : A -> lrs -> view -> Prop) v a lr' v' :
  TokPost G v a lr' v' -> (forall x, G x lr' v' -> G' x lr' v') -> TokPost G' v a lr' v'.
Proof. intros [Hf Ha] HG. split; [exact Hf|]. destruct a as [[x|e]|]; [apply HG; exact Ha|exact Ha|exact Ha]. Qed.

Lemma TokPost_frame {A} (G : A -> lrs -> view -> Prop) v0 v a lr' v' :
  frame v0 v -> TokPost G v a lr' v' -> TokPost G v0 a lr' v'.
Proof. intros Hf0 [Hf Ha]. split; [eapply frame_trans; eassumption|exact Ha]. Qed.

(* token::eof succeeds only at the clean end of the input *)
Lemma teof_ok lr v : K lr v -> prt teof lr v (TokPost (fun _ lr' v' => K lr' v' /\ vfail v' = None) v).
Proof.
  intros HK. unfold teof, tok_ft, tok_ok. apply prt_pbnd, prt_ppeek.
  pose proof (peeked_after_peek v 0) as Hpk0.
  pose proof (peeked_quiet _ _ _ (wf_of _ _ HK) Hpk0) as Hq0.
  pose proof (K_quiet _ _ _ _ HK Hq0) as HK0.
  destruct (vpeek v 0) as [b|] eqn:Ep; [apply prt_pret; split; [apply quiet_frame; exact Hq0|exact HK0]|].
  apply prt_pbnd, prt_errparked.
  destruct (s_parked (after_peek v 0)) eqn:Epk; [apply prt_pret; split; [apply quiet_frame; exact Hq0|exact HK0]|].
  apply prt_pret. split; [apply quiet_frame; exact Hq0|]. split; [exact HK0|].
  unfold s_parked, v_err_now in Epk. cbn [after_peek vknown vtaken vfail] in Epk. rewrite Ep in Epk.
  destruct HK as [(_ & _ & _ & Ht) _]. rewrite Ht in Epk. cbn [andb] in Epk.
  cbn [after_peek vfail]. destruct (vfail v); [discriminate|reflexivity].
Qed.

Lemma interactive_end_of_line_ok lr v : K lr v -> prt (interactive_end_of_line fuel) lr v (TokPost Gk v).
Proof.
  intros HK. unfold interactive_end_of_line. apply prt_pbnd.
  eapply prt_conseq; [apply tnewline_ok; exact HK|]. intros a lr1 v1 Ha.
  destruct a as [[x|e]|].
  - apply prt_pret. eapply TokPost_weaken; [exact Ha|]. intros ? [Hk _]. exact Hk.
  - apply prt_pret. exact Ha.
  - destruct Ha as [Hf HK1]. eapply prt_conseq; [apply teof_ok; exact HK1|]. intros a lr2 v2 Ha2.
    eapply TokPost_frame; [exact Hf|]. eapply TokPost_weaken; [exact Ha2|]. intros ? [Hk _]. exact Hk.
Qed.

(* ---------- unexpected ---------- *)
Lemma unexpected_scan_ok n : forall len lr v, K lr v ->
  prt (unexpected_scan n len) lr v (fun _ lr' v' => lr' = lr /\ quiet v v').
Proof.
  induction n as [|n IH]; intros len lr v HK; cbn [unexpected_scan].
  - apply prt_pret. split; [reflexivity|apply quiet_refl; eapply wf_of; exact HK].
  - apply prt_pbnd, prt_ppeek.
    pose proof (peeked_after_peek v len) as Hpk0.
    pose proof (peeked_quiet _ _ _ (wf_of _ _ HK) Hpk0) as Hq0.
    pose proof (K_quiet _ _ _ _ HK Hq0) as HK0.
    destruct (vpeek v len) as [b|]; [|apply prt_pret; split; [reflexivity|exact Hq0]].
    destruct (((b =? 10) || (b =? 13) || (b =? 9) || (b =? 32)) && negb (len =? 0));
      [apply prt_pret; split; [reflexivity|exact Hq0]|].
    eapply prt_conseq; [apply IH; exact HK0|]. intros _ lr' v' [-> Hq]. split; [reflexivity|].
    eapply quiet_trans; eassumption.
Qed.

Lemma unexpected_ok lr v : K lr v -> prt unexpected lr v (fun e lr' v' => frame v v' /\ ErrPost e v').
Proof.
  intros HK. unfold unexpected. apply prt_pbnd, prt_newline. intros v1 Hpk1.
  pose proof (peeked_quiet _ _ _ (wf_of _ _ HK) Hpk1) as Hq1.
  pose proof (K_quiet _ _ _ _ HK Hq1) as HK1.
  assert (Hgu : forall v2, quiet v v2 -> prt give_up lr v2 (fun e lr' v' => frame v v' /\ ErrPost e v')).
  { intros v2 Hq2. eapply prt_conseq; [apply (prt_give_up fuel); exact (K_quiet _ _ _ _ HK Hq2)|].
    intros e lr' v' [Hf He]. split; [eapply frame_trans; [apply quiet_frame; exact Hq2|exact Hf]|exact He]. }
  destruct (negb (0 + newline_len (rest_at v 0) =? 0)); [apply Hgu; exact Hq1|].
  apply prt_pbnd, prt_isatend. destruct (s_atend v1); [apply Hgu; exact Hq1|].
  apply prt_pbnd. eapply prt_conseq; [apply unexpected_scan_ok; exact HK1|].
  intros _ lr' v2 [-> Hq2]. apply Hgu. eapply quiet_trans; eassumption.
Qed.

(* or_give_up(|| unexpected(..)) *)
Lemma or_unexpected_ok {A} (t : tok A) (G : A -> lrs -> view -> Prop) lr v :
  prt t lr v (TokPost G v) -> prt (or_unexpected t) lr v (ResPost G v).
Proof.
  intros H. unfold or_unexpected. apply prt_pbnd. eapply prt_conseq; [exact H|].
  intros a lr1 v1 [Hf Ha]. destruct a as [[x|e]|].
  - apply prt_pret. split; assumption.
  - apply prt_pret. split; assumption.
  - apply prt_pbnd. eapply prt_conseq; [apply unexpected_ok; exact Ha|]. intros e lr2 v2 [Hf2 He].
    apply prt_pret. split; [eapply frame_trans; eassumption|exact He].
Qed.

(* `.matches()?` *)
Lemma matches_tok_ok {A} (t : tok A) (G : lrs -> view -> Prop) lr v :
  prt t lr v (TokPost (fun _ => G) v) ->
  prt (matches_tok t) lr v (ResPost (fun (b : bool) lr' v' => if b then G lr' v' else K lr' v') v).
Proof.
  intros H. unfold matches_tok. apply prt_pbnd. eapply prt_conseq; [exact H|].
  intros a lr1 v1 [Hf Ha]. destruct a as [[x|e]|]; apply prt_pret; split; assumption.
Qed.

(* ---------- numbers with located errors ---------- *)
Definition MarkOK (lr : lrs) (v : view) : Prop := l_start lr <= vmark v /\ vmark v <= vcur v.

(* success of a located number: as NumPost *)
Definition Gnum (lr : lrs) (v : view) : Z -> lrs -> view -> Prop :=
  fun _ lr' v' => lr' = lr /\ K lr v' /\ vmark v' = vmark v /\ vcur v < vcur v'.

Lemma located_val (P : Z -> Prop) (n : PM (parsed Z unit)) (err : PM perr) lr v :
  prt n lr v (NumPostV P lr v) ->
  (forall v1, K lr v1 -> frame v v1 -> vmark v1 = vmark v -> vcur v1 = vcur v ->
              prt err lr v1 (fun e lr' v' => frame v1 v' /\ ErrPost e v')) ->
  prt (located n err) lr v (TokPost (fun z lr' v' => Gnum lr v z lr' v' /\ P z) v).
Proof.
  intros Hn Herr. unfold located, tok_ok, tok_err, tok_ft. apply prt_pbnd. eapply prt_conseq; [exact Hn|].
  intros a lr1 v1 [(-> & HK1 & Hf & Hm & Ha) HP]. destruct a as [[z|[]]|].
  - apply prt_pret. split; [exact Hf|]. split; [|apply HP; reflexivity].
    split; [reflexivity|]. split; [exact HK1|]. split; assumption.
  - apply prt_pbnd. eapply prt_conseq; [apply Herr; assumption|]. intros e lr2 v2 [Hf2 He].
    apply prt_pret. split; [eapply frame_trans; eassumption|exact He].
  - apply prt_pret. split; [exact Hf|exact HK1].
Qed.

Lemma give_up_at_mark_ok lr v v1 :
  MarkOK lr v -> K lr v1 -> frame v v1 -> vmark v1 = vmark v ->
  prt give_up_at_mark lr v1 (fun e lr' v' => frame v1 v' /\ ErrPost e v').
Proof.
  intros [Hm1 Hm2] HK1 (_ & _ & Hc) Hm. apply (prt_give_up_at_mark fuel); [exact HK1|rewrite Hm; exact Hm1|rewrite Hm; lia].
Qed.

(* a literal: the exact value of the numeral, within isize *)
Definition LitVal (v : view) (z : Z) : Prop := in_range Isize z = true /\ z = num_value true (rest_at v 0).

Lemma lit_tok_val lr v : K lr v -> MarkOK lr v ->
  prt (lit_tok fuel) lr v (TokPost (fun z lr' v' => Gnum lr v z lr' v' /\ LitVal v z) v).
Proof.
  intros HK HM. unfold lit_tok. apply located_val; [apply number_val; [reflexivity|exact HK]|].
  intros v1 HK1 Hf Hm _. eapply give_up_at_mark_ok; eassumption.
Qed.

Lemma lit_tok_ok lr v : K lr v -> MarkOK lr v -> prt (lit_tok fuel) lr v (TokPost (Gnum lr v) v).
Proof.
  intros HK HM. eapply prt_conseq; [apply lit_tok_val; assumption|]. intros a lr' v' Ha.
  eapply TokPost_weaken; [exact Ha|]. intros x [H _]. exact H.
Qed.

Lemma MarkOK_setmark lr v : K lr v -> MarkOK lr (v_setmark v).
Proof. intros [_ (h1 & _)]. unfold MarkOK. cbn [v_setmark vmark vcur]. lia. Qed.

Lemma frame_setmark v : frame v (v_setmark v).
Proof. unfold frame. cbn [v_setmark vS vfail vcur]. split; [reflexivity|]. split; [reflexivity|lia]. Qed.

Lemma Gnum_Gs lr v0 v z lr' v' : frame v0 v -> Gnum lr v z lr' v' -> Gs v0 z lr' v'.
Proof. intros (_ & _ & Hc) (-> & HK & _ & Hlt). split; [exact HK|lia]. Qed.

(* T4 for var_count: the numeral's value, within usize and at most maxd *)
Lemma var_count_val maxd lr v : K lr v ->
  prt (var_count fuel maxd) lr v
      (TokPost (fun z lr' v' => Gs v z lr' v' /\
                  (in_range Usize z = true /\ z = num_value false (rest_at v 0) /\ (z <= maxd)%Z)) v).
Proof.
  intros HK. unfold var_count, tok_ok, tok_err. apply prt_pbnd, prt_pset_mark.
  pose proof (MarkOK_setmark lr v HK) as HM. pose proof (K_setmark fuel lr v HK) as HK0.
  apply prt_pbnd. eapply prt_conseq.
  { apply located_val; [apply number_val; [discriminate|exact HK0]|].
    intros v1 HK1 Hf Hm _. eapply give_up_at_mark_ok; eassumption. }
  intros a lr1 v1 [Hf Ha]. pose proof (frame_trans _ _ _ (frame_setmark v) Hf) as Hf1.
  destruct a as [[count|e]|].
  - pose proof Ha as [(-> & HK1 & Hm & Hlt) [Hr Hv]]. destruct (maxd <? count)%Z eqn:El.
    + apply prt_pbnd. eapply prt_conseq; [apply (give_up_at_mark_ok lr (v_setmark v) v1 HM HK1 Hf Hm)|].
      intros e lr2 v2 [Hf2 He]. apply prt_pret. split; [eapply frame_trans; eassumption|exact He].
    + apply prt_pret. split; [exact Hf1|]. split; [eapply Gnum_Gs; [apply frame_setmark|exact (proj1 Ha)]|].
      split; [exact Hr|]. split; [exact Hv|]. apply Z.ltb_ge. exact El.
  - apply prt_pret. split; assumption.
  - apply prt_pret. split; assumption.
Qed.

Lemma var_count_ok maxd lr v : K lr v -> prt (var_count fuel maxd) lr v (TokPost (Gs v) v).
Proof.
  intros HK. eapply prt_conseq; [apply var_count_val; assumption|]. intros a lr' v' Ha.
  eapply TokPost_weaken; [exact Ha|]. intros x [H _]. exact H.
Qed.

Lemma uint_count_val t lr v : K lr v ->
  prt (uint_count fuel t) lr v
      (TokPost (fun z lr' v' => Gs v z lr' v' /\ (in_range t z = true /\ z = num_value false (rest_at v 0))) v).
Proof.
  intros HK. unfold uint_count. apply prt_pbnd, prt_pset_mark. pose proof (K_setmark fuel lr v HK) as HK0.
  eapply prt_conseq.
  { apply located_val; [apply number_val; [discriminate|exact HK0]|].
    intros v1 HK1 _ _ _. apply (prt_give_up fuel). exact HK1. }
  intros a lr1 v1 Ha. eapply TokPost_frame; [apply frame_setmark|]. eapply TokPost_weaken; [exact Ha|].
  intros x [Hx Hv]. split; [eapply Gnum_Gs; [apply frame_setmark|exact Hx]|exact Hv].
Qed.

Lemma uint_count_ok t lr v : K lr v -> prt (uint_count fuel t) lr v (TokPost (Gs v) v).
Proof.
  intros HK. eapply prt_conseq; [apply uint_count_val; assumption|]. intros a lr' v' Ha.
  eapply TokPost_weaken; [exact Ha|]. intros x [H _]. exact H.
Qed.

(* T4 for clause_group: the value of the numeral between the braces, within usize and at most the limit *)
Lemma clause_group_val limit lr v : K lr v ->
  prt (clause_group fuel limit) lr v
      (TokPost (fun z lr' v' => Gs v z lr' v' /\
                  (in_range Usize z = true /\ z = Z.of_N (dec_val (digit_prefix (rest_at v 1))) /\ (z <= limit)%Z)) v).
Proof.
  intros HK. unfold clause_group, tok_ok, tok_err. apply prt_pbnd, prt_pset_mark.
  pose proof (MarkOK_setmark lr v HK) as HM. pose proof (K_setmark fuel lr v HK) as HK0.
  apply prt_pbnd. eapply prt_conseq.
  { apply located_val; [apply braced_uint_val; exact HK0|].
    intros v1 HK1 _ _ _. apply (prt_give_up fuel). exact HK1. }
  intros a lr1 v1 [Hf Ha]. pose proof (frame_trans _ _ _ (frame_setmark v) Hf) as Hf1.
  destruct a as [[group|e]|].
  - pose proof Ha as [(-> & HK1 & Hm & Hlt) [Hr Hv]]. destruct (limit <? group)%Z eqn:El.
    + apply prt_pbnd. eapply prt_conseq; [apply (give_up_at_mark_ok lr (v_setmark v) v1 HM HK1 Hf Hm)|].
      intros e lr2 v2 [Hf2 He]. apply prt_pret. split; [eapply frame_trans; eassumption|exact He].
    + apply prt_pret. split; [exact Hf1|]. split; [eapply Gnum_Gs; [apply frame_setmark|exact (proj1 Ha)]|].
      split; [exact Hr|]. split; [exact Hv|]. apply Z.ltb_ge. exact El.
  - apply prt_pret. split; assumption.
  - apply prt_pret. split; assumption.
Qed.

Lemma clause_group_ok limit lr v : K lr v -> prt (clause_group fuel limit) lr v (TokPost (Gs v) v).
Proof.
  intros HK. eapply prt_conseq; [apply clause_group_val; assumption|]. intros a lr' v' Ha.
  eapply TokPost_weaken; [exact Ha|]. intros x [H _]. exact H.
Qed.

(* ---------- loops: the fuel is never exhausted ---------- *)
(* the loop counter exceeds the number of bytes left *)
Definition meas (v : view) (n : nat) : Prop := (N.to_nat (nlen (vS v) - vcur v) < n)%nat.

Lemma meas_init lr v : K lr v -> meas v fuel.
Proof. intros HK. pose proof (fuel_of _ _ HK). unfold meas, nlen. lia. Qed.

Lemma meas_step lr' v v' n : meas v (S n) -> frame v v' -> vcur v < vcur v' -> K lr' v' -> meas v' n.
Proof.
  intros Hm (Hs & _ & _) Hlt HK. pose proof (VOK_cur_le _ _ (K_VOK _ _ _ HK)) as Hle.
  unfold meas in *. rewrite Hs in *. lia.
Qed.

Lemma meas_frame v v' n : meas v n -> frame v v' -> meas v' n.
Proof. intros Hm (Hs & _ & Hc). unfold meas in *. rewrite Hs. lia. Qed.

Lemma ResPost_frame {A} (G : A -> lrs -> view -> Prop) v0 v a lr' v' :
  frame v0 v -> ResPost G v a lr' v' -> ResPost G v0 a lr' v'.
Proof. intros Hf0 [Hf Ha]. split; [eapply frame_trans; eassumption|exact Ha]. Qed.

Lemma ResPost_weaken {A} (G G' : A -> lrs -> view -> Prop) v a lr' v' :
  ResPost G v a lr' v' -> (forall x, G x lr' v' -> G' x lr' v') -> ResPost G' v a lr' v'.
Proof. intros [Hf Ha] HG. split; [exact Hf|]. destruct a as [x|e]; [apply HG; exact Ha|exact Ha]. Qed.

Lemma skip_cn_ok n : forall lr v, K lr v -> meas v n -> prt (skip_comments_and_newlines fuel n) lr v (ResPost Gk v).
Proof.
  induction n as [|n IH]; intros lr v HK Hm; [exfalso; unfold meas in Hm; lia|]. cbn [skip_comments_and_newlines].
  assert (Hcont : forall (r' : parsed unit perr) lr2 v2, TokPost (Gs v) v r' lr2 v2 ->
            prt (match r' with
                 | Res (Ok _) => skip_comments_and_newlines fuel n
                 | Res (Err e) => pret (Err e)
                 | Fallthrough => pret (Ok tt)
                 end) lr2 v2 (ResPost Gk v)).
  { intros r' lr2 v2 [Hf2 Hr2]. destruct r' as [[x|e]|].
    - destruct Hr2 as [HK2 Hlt]. eapply prt_conseq; [apply IH; [exact HK2|eapply meas_step; eassumption]|].
      intros a lr3 v3 Ha. eapply ResPost_frame; eassumption.
    - apply prt_pret. split; assumption.
    - apply prt_pret. split; assumption. }
  apply prt_pbnd. eapply prt_conseq; [apply comment_ok; exact HK|]. intros r lr1 v1 Hr.
  apply prt_pbnd. destruct r as [[x|e]|].
  - apply prt_pret. apply (Hcont (Res (Ok x))). exact Hr.
  - apply prt_pret. apply (Hcont (Res (Err e))). exact Hr.
  - destruct Hr as [Hf HK1]. eapply prt_conseq; [apply tnewline_ok; exact HK1|]. intros r' lr2 v2 Hr'.
    apply (Hcont r'). eapply TokPost_frame; [exact Hf|]. eapply TokPost_weaken; [exact Hr'|].
    intros ? [Hk Hlt]. split; [exact Hk|]. destruct Hf as (_ & _ & Hc). lia.
Qed.

Lemma non_terminating_linebreaks_ok lr v : K lr v -> prt (non_terminating_linebreaks fuel) lr v (ResPost Gk v).
Proof.
  intros HK. unfold non_terminating_linebreaks. apply prt_pbnd.
  eapply prt_conseq; [apply (matches_tok_ok _ (fun lr' v' => K lr' v' /\ vcur v < vcur v')); apply tnewline_ok; exact HK|].
  intros r lr1 v1 [Hf Hr]. destruct r as [[|]|e].
  - destruct Hr as [HK1 _]. apply prt_pbnd.
    eapply prt_conseq; [apply skip_cn_ok; [exact HK1|eapply meas_init; exact HK1]|].
    intros r2 lr2 v2 [Hf2 Hr2]. pose proof (frame_trans _ _ _ Hf Hf2) as Hf12.
    destruct r2 as [x|e]; apply prt_pret; split; assumption.
  - apply prt_pret. split; assumption.
  - apply prt_pret. split; assumption.
Qed.

(* T4 for the literals of a clause: every literal returned is within the limit *)
Definition InLim (limit z : Z) : Prop := (- limit <= z <= limit)%Z.

Lemma clause_lits_loop_ok n : forall limit lit acc lr v, K lr v -> MarkOK lr v -> meas v n ->
  Forall (InLim limit) acc ->
  prt (clause_lits_loop fuel n limit lit acc) lr v
      (ResPost (fun ls lr' v' => K lr' v' /\ Forall (InLim limit) ls) v).
Proof.
  induction n as [|n IH]; intros limit lit acc lr v HK HM Hm Hacc; [exfalso; unfold meas in Hm; lia|].
  cbn [clause_lits_loop].
  destruct (lit =? 0)%Z; [apply prt_pret; split; [apply frame_refl|split; [exact HK|apply Forall_rev; exact Hacc]]|].
  destruct ((- limit <=? lit) && (lit <=? limit))%Z eqn:Er.
  2: { apply prt_pbnd. eapply prt_conseq; [apply (give_up_at_mark_ok lr v v HM HK (frame_refl v) eq_refl)|].
       intros e lr1 v1 [Hf He]. apply prt_pret. split; assumption. }
  assert (Hacc' : Forall (InLim limit) (lit :: acc)).
  { constructor; [|exact Hacc]. apply andb_prop in Er. destruct Er as [E1 E2]. apply Z.leb_le in E1, E2. split; assumption. }
  apply prt_pbnd, prt_pset_mark.
  pose proof (MarkOK_setmark lr v HK) as HM0. pose proof (K_setmark fuel lr v HK) as HK0.
  pose proof (frame_setmark v) as Hf0.
  apply prt_pbnd. eapply prt_conseq; [apply lit_tok_ok; [exact HK0|exact HM0]|].
  intros r lr1 v1 [Hf Hr]. pose proof (frame_trans _ _ _ Hf0 Hf) as Hf1.
  destruct r as [[next|e]|].
  - destruct Hr as (-> & HK1 & Hmk & Hlt). cbn [v_setmark vmark vcur] in Hmk, Hlt.
    eapply prt_conseq; [apply IH; [exact HK1| |eapply meas_step; eassumption|exact Hacc']|].
    + destruct HK as [_ (h1 & _)]. unfold MarkOK. rewrite Hmk. lia.
    + intros a lr3 v3 Ha. eapply ResPost_frame; eassumption.
  - apply prt_pret. split; assumption.
  - apply prt_pbnd. eapply prt_conseq; [apply non_terminating_linebreaks_ok; exact Hr|].
    intros lb lr2 v2 [Hf2 Hlb]. pose proof (frame_trans _ _ _ Hf1 Hf2) as Hf12.
    destruct lb as [[|]|e].
    + apply prt_pbnd, prt_pset_mark.
      pose proof (MarkOK_setmark lr2 v2 Hlb) as HM2. pose proof (K_setmark fuel lr2 v2 Hlb) as HK2.
      apply prt_pbnd. eapply prt_conseq; [apply or_unexpected_ok; apply lit_tok_ok; [exact HK2|exact HM2]|].
      intros r2 lr3 v3 [Hf3 Hr2]. pose proof (frame_trans _ _ _ (frame_setmark v2) Hf3) as Hf23.
      pose proof (frame_trans _ _ _ Hf12 Hf23) as Hf13.
      destruct r2 as [next|e].
      * destruct Hr2 as (-> & HK3 & Hmk & Hlt). cbn [v_setmark vmark vcur] in Hmk, Hlt.
        eapply prt_conseq; [apply IH; [exact HK3| |eapply (meas_step lr2 v v3); [exact Hm|exact Hf13| |exact HK3]|exact Hacc']|].
        -- destruct Hlb as [_ (h1 & _)]. unfold MarkOK. rewrite Hmk. lia.
        -- destruct Hf12 as (_ & _ & Hc). lia.
        -- intros a lr4 v4 Ha. eapply ResPost_frame; eassumption.
      * apply prt_pret. split; assumption.
    + apply prt_pbnd. eapply prt_conseq; [apply unexpected_ok; exact Hlb|]. intros e lr3 v3 [Hf3 He].
      apply prt_pret. split; [eapply frame_trans; eassumption|exact He].
    + apply prt_pret. split; assumption.
Qed.

Lemma clause_lits_val limit lr v : K lr v ->
  prt (clause_lits fuel limit) lr v (TokPost (fun ls lr' v' => Gs v ls lr' v' /\ Forall (InLim limit) ls) v).
Proof.
  intros HK. unfold clause_lits, tok_err, tok_ft. apply prt_pbnd, prt_pset_mark.
  pose proof (MarkOK_setmark lr v HK) as HM0. pose proof (K_setmark fuel lr v HK) as HK0.
  pose proof (frame_setmark v) as Hf0.
  apply prt_pbnd. eapply prt_conseq; [apply lit_tok_ok; [exact HK0|exact HM0]|].
  intros r lr1 v1 [Hf Hr]. pose proof (frame_trans _ _ _ Hf0 Hf) as Hf1.
  destruct r as [[lit|e]|].
  - destruct Hr as (-> & HK1 & Hmk & Hlt). cbn [v_setmark vmark vcur] in Hmk, Hlt.
    apply prt_pbnd. eapply prt_conseq; [apply clause_lits_loop_ok; [exact HK1| |eapply meas_init; exact HK1|constructor]|].
    + destruct HK as [_ (h1 & _)]. unfold MarkOK. rewrite Hmk. lia.
    + intros r2 lr2 v2 [Hf2 Hr2]. apply prt_pret. split; [eapply frame_trans; eassumption|].
      destruct r2 as [ls|e]; [|exact Hr2]. destruct Hr2 as [HK2 Hin]. split; [|exact Hin].
      split; [exact HK2|]. destruct Hf2 as (_ & _ & Hc). lia.
  - apply prt_pret. split; assumption.
  - apply prt_pret. split; assumption.
Qed.

Lemma clause_lits_ok limit lr v : K lr v -> prt (clause_lits fuel limit) lr v (TokPost (Gs v) v).
Proof.
  intros HK. eapply prt_conseq; [apply clause_lits_val; assumption|]. intros a lr' v' Ha.
  eapply TokPost_weaken; [exact Ha|]. intros x [H _]. exact H.
Qed.

(* ---------- the header ---------- *)
Lemma header_skip_ok n : forall lr v, K lr v -> meas v n -> prt (header_skip fuel n) lr v (ResPost Gk v).
Proof.
  induction n as [|n IH]; intros lr v HK Hm; [exfalso; unfold meas in Hm; lia|]. cbn [header_skip].
  apply prt_pbnd.
  eapply prt_conseq; [apply (matches_tok_ok _ (fun lr' v' => K lr' v' /\ vcur v < vcur v')); apply comment_ok; exact HK|].
  intros c lr1 v1 [Hf Hc]. destruct c as [[|]|e].
  - destruct Hc as [HK1 Hlt]. eapply prt_conseq; [apply IH; [exact HK1|eapply meas_step; eassumption]|].
    intros a lr3 v3 Ha. eapply ResPost_frame; eassumption.
  - apply prt_pbnd.
    eapply prt_conseq; [apply (matches_tok_ok _ (fun lr' v' => K lr' v' /\ vcur v1 < vcur v')); apply tnewline_ok; exact Hc|].
    intros nl lr2 v2 [Hf2 Hnl]. pose proof (frame_trans _ _ _ Hf Hf2) as Hf12. destruct nl as [[|]|e].
    + destruct Hnl as [HK2 Hlt]. eapply prt_conseq; [apply IH; [exact HK2|eapply (meas_step lr2 v v2); [exact Hm|exact Hf12| |exact HK2]]|].
      * destruct Hf as (_ & _ & Hc1). lia.
      * intros a lr3 v3 Ha. eapply ResPost_frame; eassumption.
    + apply prt_pret. split; assumption.
    + apply prt_pret. split; assumption.
  - apply prt_pret. split; assumption.
Qed.

Lemma kw_ok (k : dkind) : kind_word k <> [] /\ ~ In 10 (kind_word k).
Proof. destruct k; (split; [discriminate|]); cbv; intuition discriminate. Qed.

Lemma kw_p_ok : kw_p <> [] /\ ~ In 10 kw_p.
Proof. split; [discriminate|]. cbv; intuition discriminate. Qed.

Lemma Gs_Gk {A} v (x : A) lr' v' : Gs v x lr' v' -> Gk x lr' v'.
Proof. intros [H _]. exact H. Qed.

Lemma parse_header_ok k maxd lr v : K lr v -> prt (parse_header fuel k maxd) lr v (ResPost Gk v).
Proof.
  intros HK. unfold parse_header.
  apply prt_pbnd. eapply prt_conseq; [apply skip_whitespace_ok; exact HK|]. intros _ lr1 v1 (-> & HK1 & Hf1).
  apply prt_pbnd. eapply prt_conseq; [apply header_skip_ok; [exact HK1|eapply meas_init; exact HK1]|].
  intros r0 lr2 v2 [Hf Hr]. pose proof (frame_trans _ _ _ Hf1 Hf) as Hf2. clear Hf Hf1.
  destruct r0 as [u0|e]; [|apply prt_pret; split; assumption].
  apply prt_pbnd. eapply prt_conseq; [apply word_ok; [apply kw_p_ok|apply kw_p_ok|exact Hr]|].
  intros p lr3 v3 [Hf Hp]. pose proof (frame_trans _ _ _ Hf2 Hf) as Hf3. clear Hf Hf2.
  destruct p as [[u1|e]|]; [|apply prt_pret; split; assumption..].
  destruct Hp as [HK3 _].
  apply prt_pbnd. eapply prt_conseq; [apply or_unexpected_ok; apply word_ok; [apply kw_ok|apply kw_ok|exact HK3]|].
  intros w lr4 v4 [Hf Hw]. pose proof (frame_trans _ _ _ Hf3 Hf) as Hf4. clear Hf Hf3.
  destruct w as [u2|e]; [|apply prt_pret; split; assumption].
  destruct Hw as [HK4 _].
  apply prt_pbnd. eapply prt_conseq; [apply or_unexpected_ok; apply var_count_ok; exact HK4|].
  intros vc lr5 v5 [Hf Hvc]. pose proof (frame_trans _ _ _ Hf4 Hf) as Hf5. clear Hf Hf4.
  destruct vc as [vars|e]; [|apply prt_pret; split; assumption].
  destruct Hvc as [HK5 _].
  apply prt_pbnd. eapply prt_conseq; [apply or_unexpected_ok; apply uint_count_ok; exact HK5|].
  intros cc lr6 v6 [Hf Hcc]. pose proof (frame_trans _ _ _ Hf5 Hf) as Hf6. clear Hf Hf5.
  destruct cc as [clauses|e]; [|apply prt_pret; split; assumption].
  destruct Hcc as [HK6 _].
  apply prt_pbnd.
  apply (prt_conseq _ _ _ (ResPost Gk v6)).
  { destruct k.
    - apply prt_pret. split; [apply frame_refl|exact HK6].
    - eapply prt_conseq; [apply or_unexpected_ok; apply uint_count_ok; exact HK6|].
      intros a lr' v' Ha. eapply ResPost_weaken; [exact Ha|]. intros x. apply Gs_Gk.
    - eapply prt_conseq; [apply or_unexpected_ok; apply uint_count_ok; exact HK6|].
      intros a lr' v' Ha. eapply ResPost_weaken; [exact Ha|]. intros x. apply Gs_Gk. }
  intros ex lr7 v7 [Hf Hex]. pose proof (frame_trans _ _ _ Hf6 Hf) as Hf7. clear Hf Hf6.
  destruct ex as [extra|e]; [|apply prt_pret; split; assumption].
  apply prt_pbnd. eapply prt_conseq; [apply or_unexpected_ok; apply interactive_end_of_line_ok; exact Hex|].
  intros eol lr8 v8 [Hf Heol]. pose proof (frame_trans _ _ _ Hf7 Hf) as Hf8. clear Hf Hf7.
  destruct eol as [u3|e]; apply prt_pret; split; assumption.
Qed.

(* Parser::new *)
Lemma parser_new_ok k maxd ih lr v : K lr v -> prt (parser_new fuel k maxd ih) lr v (ResPost Gk v).
Proof.
  intros HK. unfold parser_new. apply prt_pbnd. eapply prt_conseq; [apply parse_header_ok; exact HK|].
  intros h lr1 v1 [Hf Hh]. destruct h as [[hd|]|e].
  - apply prt_pret. split; assumption.
  - apply prt_pbnd, prt_takeerr. destruct (s_take v1) as [io|] eqn:Est.
    + apply prt_pret. split; [exact Hf|]. cbn [ErrPost v_take vfail].
      destruct Hh as [(_ & _ & _ & Ht) _]. unfold s_take, v_err_now in Est. rewrite Ht in Est.
      destruct (vknown v1); [exact Est|discriminate].
    + apply prt_pret. split; [exact Hf|exact Hh].
  - apply prt_pret. split; assumption.
Qed.

(* ---------- clauses ---------- *)
Lemma clause_tail (pre : Z) (ls : list Z) v lr1 v1 :
  K lr1 v1 -> frame v v1 -> vcur v < vcur v1 ->
  prt (let* e := or_unexpected (interactive_end_of_line fuel) in
       match e with Ok _ => tok_ok (pre, ls) | Err er => tok_err er end) lr1 v1 (TokPost (Gs v) v).
Proof.
  intros HK1 Hf Hlt. apply prt_pbnd.
  eapply prt_conseq; [apply or_unexpected_ok; apply interactive_end_of_line_ok; exact HK1|].
  intros e lr2 v2 [Hf2 He]. pose proof (frame_trans _ _ _ Hf Hf2) as Hf12.
  destruct e as [u4|er]; apply prt_pret; (split; [exact Hf12|]); [|exact He].
  split; [exact He|]. destruct Hf2 as (_ & _ & Hc). lia.
Qed.

Lemma clause_tok_ok k st lr v : K lr v -> prt (clause_tok fuel k st) lr v (TokPost (Gs v) v).
Proof.
  intros HK.
  assert (Hpre : forall (p : tok Z), prt p lr v (TokPost (Gs v) v) ->
    prt (let* p := p in
         match p with
         | Res (Ok pre) =>
             let* lb := non_terminating_linebreaks fuel in
             match lb with
             | Err e => tok_err e
             | Ok _ =>
                 let* ls := or_unexpected (clause_lits fuel (lit_limit st)) in
                 match ls with
                 | Err e => tok_err e
                 | Ok ls =>
                     let* e := or_unexpected (interactive_end_of_line fuel) in
                     match e with Ok _ => tok_ok (pre, ls) | Err er => tok_err er end
                 end
             end
         | Res (Err e) => tok_err e
         | Fallthrough => tok_ft
         end) lr v (TokPost (Gs v) v)).
  { intros p Hp. apply prt_pbnd. eapply prt_conseq; [exact Hp|]. intros r lr1 v1 [Hf Hr].
    destruct r as [[pre|e]|]; [|apply prt_pret; split; assumption..].
    destruct Hr as [HK1 Hlt].
    apply prt_pbnd. eapply prt_conseq; [apply non_terminating_linebreaks_ok; exact HK1|].
    intros lb lr2 v2 [Hf2 Hlb]. pose proof (frame_trans _ _ _ Hf Hf2) as Hf12.
    destruct lb as [b|e]; [|apply prt_pret; split; assumption].
    apply prt_pbnd. eapply prt_conseq; [apply or_unexpected_ok; apply clause_lits_ok; exact Hlb|].
    intros ls lr3 v3 [Hf3 Hls]. pose proof (frame_trans _ _ _ Hf12 Hf3) as Hf13.
    destruct ls as [ls|e]; [|apply prt_pret; split; assumption].
    destruct Hls as [HK3 Hlt3]. apply clause_tail; [exact HK3|exact Hf13|].
    destruct Hf2 as (_ & _ & Hc). lia. }
  unfold clause_tok. destruct k.
  - apply prt_pbnd. eapply prt_conseq; [apply clause_lits_ok; exact HK|]. intros r lr1 v1 [Hf Hr].
    destruct r as [[ls|e]|]; [|apply prt_pret; split; assumption..].
    destruct Hr as [HK1 Hlt]. apply clause_tail; assumption.
  - apply Hpre. apply uint_count_ok. exact HK.
  - apply Hpre. apply clause_group_ok. exact HK.
Qed.

(* Parser::next_clause: an item (progress made), the clean end of the input, or an error *)
Definition NextPost (v : view) (r : result (option (Z * list Z)) perr * pstate) (lr' : lrs) (v' : view) : Prop :=
  frame v v' /\
  match fst r with
  | Ok (Some _) => K lr' v' /\ vcur v < vcur v'
  | Ok None => vfail v' = None
  | Err e => ErrPost e v'
  end.

Lemma NextPost_frame v0 v r lr' v' : frame v0 v -> NextPost v r lr' v' -> NextPost v0 r lr' v'.
Proof.
  intros Hf0 [Hf Hr]. split; [eapply frame_trans; eassumption|].
  destruct (fst r) as [[item|]|e]; [|exact Hr..]. destruct Hr as [HK Hlt]. split; [exact HK|].
  destruct Hf0 as (_ & _ & Hc). lia.
Qed.

Lemma next_clause_loop_ok n : forall k st lr v, K lr v -> meas v n ->
  prt (next_clause_loop fuel n k st) lr v (NextPost v).
Proof.
  induction n as [|n IH]; intros k st lr v HK Hm; [exfalso; unfold meas in Hm; lia|]. cbn [next_clause_loop].
  apply prt_pbnd. apply (prt_conseq _ _ _ (TokPost (Gs v) v)).
  { destruct (negb (clause_count st =? clause_limit st)%Z || negb (clause_limit_active st));
      [apply clause_tok_ok; exact HK|apply prt_pret; split; [apply frame_refl|exact HK]]. }
  intros c lr1 v1 [Hf Hc]. destruct c as [[item|e]|]; [apply prt_pret; split; assumption..|].
  apply prt_pbnd.
  eapply prt_conseq; [apply (matches_tok_ok _ (fun lr' v' => K lr' v' /\ vcur v1 < vcur v')); apply comment_ok; exact Hc|].
  intros cm lr2 v2 [Hf2 Hcm]. pose proof (frame_trans _ _ _ Hf Hf2) as Hf12. destruct cm as [[|]|e].
  - destruct Hcm as [HK2 Hlt].
    eapply prt_conseq; [apply IH; [exact HK2|eapply (meas_step lr2 v v2); [exact Hm|exact Hf12| |exact HK2]]|].
    + destruct Hf as (_ & _ & Hc1). lia.
    + intros a lr3 v3 Ha. eapply NextPost_frame; eassumption.
  - apply prt_pbnd.
    eapply prt_conseq; [apply (matches_tok_ok _ (fun lr' v' => K lr' v' /\ vcur v2 < vcur v')); apply tnewline_ok; exact Hcm|].
    intros nl lr3 v3 [Hf3 Hnl]. pose proof (frame_trans _ _ _ Hf12 Hf3) as Hf13. destruct nl as [[|]|e].
    + destruct Hnl as [HK3 Hlt].
      eapply prt_conseq; [apply IH; [exact HK3|eapply (meas_step lr3 v v3); [exact Hm|exact Hf13| |exact HK3]]|].
      * destruct Hf12 as (_ & _ & Hc1). lia.
      * intros a lr4 v4 Ha. eapply NextPost_frame; eassumption.
    + assert (Hun : prt (let* e := unexpected in pret (Err e, st)) lr3 v3 (NextPost v)).
      { apply prt_pbnd. eapply prt_conseq; [apply unexpected_ok; exact Hnl|]. intros e lr4 v4 [Hf4 He].
        apply prt_pret. split; [eapply frame_trans; eassumption|exact He]. }
      destruct (negb (clause_limit_active st) || (clause_limit st <=? clause_count st)%Z); [|exact Hun].
      apply prt_pbnd.
      eapply prt_conseq; [apply (matches_tok_ok _ (fun lr' v' => K lr' v' /\ vfail v' = None)); apply teof_ok; exact Hnl|].
      intros ef lr4 v4 [Hf4 Hef]. pose proof (frame_trans _ _ _ Hf13 Hf4) as Hf14. destruct ef as [[|]|e].
      * apply prt_pret. split; [exact Hf14|]. destruct Hef as [_ Hfail]. exact Hfail.
      * apply prt_pbnd. eapply prt_conseq; [apply unexpected_ok; exact Hef|]. intros e lr5 v5 [Hf5 He].
        apply prt_pret. split; [eapply frame_trans; eassumption|exact He].
      * apply prt_pret. split; assumption.
    + apply prt_pret. split; assumption.
  - apply prt_pret. split; assumption.
Qed.

Lemma next_clause_ok k st lr v : K lr v -> prt (next_clause fuel k st) lr v (NextPost v).
Proof.
  intros HK. unfold next_clause. apply prt_pbnd. eapply prt_conseq; [apply skip_whitespace_ok; exact HK|].
  intros _ lr1 v1 (-> & HK1 & Hf1).
  eapply prt_conseq; [apply next_clause_loop_ok; [exact HK1|eapply meas_init; exact HK1]|].
  intros a lr2 v2 Ha. eapply NextPost_frame; eassumption.
Qed.

(* the whole parse: the final outcome *)
Definition FinPost (v : view) (fin : final) (v' : view) : Prop :=
  frame v v' /\
  match fin with
  | FOk => vfail v' = None
  | FErr e => ErrPost e v'
  end.

Lemma drive_ok n : forall k st acc lr v, K lr v -> meas v n ->
  prt (drive fuel n k st acc) lr v (fun r _ v' => FinPost v (snd r) v').
Proof.
  induction n as [|n IH]; intros k st acc lr v HK Hm; [exfalso; unfold meas in Hm; lia|]. cbn [drive].
  apply prt_pbnd. eapply prt_conseq; [apply next_clause_ok; exact HK|]. intros [r st'] lr1 v1 [Hf Hr].
  cbn [fst] in Hr. destruct r as [[item|]|e].
  - destruct Hr as [HK1 Hlt]. eapply prt_conseq; [apply IH; [exact HK1|eapply meas_step; eassumption]|].
    intros a lr2 v2 [Hf2 Ha]. split; [eapply frame_trans; eassumption|exact Ha].
  - apply prt_pret. split; assumption.
  - apply prt_pret. split; assumption.
Qed.

Lemma parse_dimacs_ok k maxd ih lr v : K lr v ->
  prt (parse_dimacs fuel k maxd ih) lr v (fun r _ v' => FinPost v (snd r) v').
Proof.
  intros HK. unfold parse_dimacs. apply prt_pbnd. eapply prt_conseq; [apply parser_new_ok; exact HK|].
  intros p lr1 v1 [Hf Hp]. destruct p as [st|e]; [|apply prt_pret; split; assumption].
  apply prt_pbnd. eapply prt_conseq; [apply drive_ok; [exact Hp|eapply meas_init; exact Hp]|].
  intros [items fin] lr2 v2 [Hf2 Hfin]. cbn [snd] in Hfin. apply prt_pret. cbn [snd].
  split; [eapply frame_trans; eassumption|exact Hfin].
Qed.

(* ---------- the solver log parser ---------- *)
Lemma strict_comments_ok n : forall lr v, K lr v -> meas v n -> prt (strict_comments fuel n) lr v (ResPost Gk v).
Proof.
  induction n as [|n IH]; intros lr v HK Hm; [exfalso; unfold meas in Hm; lia|]. cbn [strict_comments].
  apply prt_pbnd.
  eapply prt_conseq; [apply (matches_tok_ok _ (fun lr' v' => K lr' v' /\ vcur v < vcur v')); apply interactive_strict_comment_ok; exact HK|].
  intros c lr1 v1 [Hf Hc]. destruct c as [[|]|e].
  - destruct Hc as [HK1 Hlt]. eapply prt_conseq; [apply IH; [exact HK1|eapply meas_step; eassumption]|].
    intros a lr3 v3 Ha. eapply ResPost_frame; eassumption.
  - apply prt_pret. split; assumption.
  - apply prt_pret. split; assumption.
Qed.

(* the literals of a value line: an invariant I of the accumulator that survives appending an in-range literal
   holds of the result (I := True for safety; I := all within the limit for T4) *)
Lemma value_lits_gen (I : list Z -> Prop) n : forall maxd acc lr v,
  (forall a z, I a -> InLim maxd z -> I (a ++ [z])) ->
  K lr v -> meas v n -> I acc ->
  prt (value_lits fuel n maxd acc) lr v (ResPost (fun r lr' v' => K lr' v' /\ I (fst r)) v).
Proof.
  induction n as [|n IH]; intros maxd acc lr v HI HK Hm Hacc; [exfalso; unfold meas in Hm; lia|]. cbn [value_lits].
  apply prt_pbnd, prt_pset_mark.
  pose proof (MarkOK_setmark lr v HK) as HM0. pose proof (K_setmark fuel lr v HK) as HK0.
  pose proof (frame_setmark v) as Hf0.
  apply prt_pbnd. eapply prt_conseq; [apply lit_tok_ok; [exact HK0|exact HM0]|].
  intros r lr1 v1 [Hf Hr]. pose proof (frame_trans _ _ _ Hf0 Hf) as Hf1.
  destruct r as [[lit|e]|]; [|apply prt_pret; split; assumption|apply prt_pret; split; [assumption|split; assumption]].
  destruct Hr as (-> & HK1 & Hmk & Hlt).
  destruct (lit =? 0)%Z; [apply prt_pret; split; [assumption|split; assumption]|].
  destruct ((- maxd <=? lit) && (lit <=? maxd))%Z eqn:Er.
  - cbn [v_setmark vcur] in Hlt.
    assert (Hin : InLim maxd lit).
    { apply andb_prop in Er. destruct Er as [E1 E2]. apply Z.leb_le in E1, E2. split; assumption. }
    eapply prt_conseq; [apply IH; [exact HI|exact HK1|eapply meas_step; eassumption|apply HI; assumption]|].
    intros a lr3 v3 Ha. eapply ResPost_frame; eassumption.
  - apply prt_pbnd. eapply prt_conseq; [apply (give_up_at_mark_ok lr (v_setmark v) v1 HM0 HK1 Hf Hmk)|].
    intros e lr2 v2 [Hf2 He]. apply prt_pret. split; [eapply frame_trans; eassumption|exact He].
Qed.

Lemma value_lits_ok n maxd acc lr v : K lr v -> meas v n -> prt (value_lits fuel n maxd acc) lr v (ResPost Gk v).
Proof.
  intros HK Hm. eapply prt_conseq; [apply (value_lits_gen (fun _ => True)); auto|].
  intros a lr' v' Ha. eapply ResPost_weaken; [exact Ha|]. intros x [H _]. exact H.
Qed.

(* T4 for the literals of a value line *)
Lemma value_lits_val n maxd acc lr v : K lr v -> meas v n -> Forall (InLim maxd) acc ->
  prt (value_lits fuel n maxd acc) lr v (ResPost (fun r lr' v' => K lr' v' /\ Forall (InLim maxd) (fst r)) v).
Proof.
  intros HK Hm Hacc. apply (value_lits_gen (Forall (InLim maxd))); [|assumption..].
  intros a z Ha Hz. apply Forall_app. split; [exact Ha|]. constructor; [exact Hz|constructor].
Qed.

Lemma log_pat_ok (pat : bytes) : In pat [log_v; log_s; log_sat; log_unsat; log_unknown] -> pat <> [] /\ ~ In 10 pat.
Proof.
  intros H. cbn [In] in H. destruct H as [<-|[<-|[<-|[<-|[<-|[]]]]]]; (split; [discriminate|]); cbv; intuition discriminate.
Qed.

Lemma tfixed_log_ok (pat : bytes) lr v :
  In pat [log_v; log_s; log_sat; log_unsat; log_unknown] -> K lr v -> prt (tfixed pat) lr v (TokPost (Gs v) v).
Proof. intros Hin HK. destruct (log_pat_ok pat Hin) as [H1 H2]. apply tfixed_ok; assumption. Qed.

Lemma status_tok_ok lr v : K lr v -> prt (status_tok fuel) lr v (TokPost (Gs v) v).
Proof.
  intros HK. unfold status_tok, tok_ok, tok_err, tok_ft.
  apply prt_pbnd. eapply prt_conseq; [apply (tfixed_log_ok log_sat); [cbn; tauto|exact HK]|].
  intros s lr1 v1 [Hf1 Hs].
  apply prt_pbnd. apply (prt_conseq _ _ _ (TokPost (Gs v) v)).
  { destruct s as [[u|e]|]; [apply prt_pret; split; [exact Hf1|]; destruct Hs; split; assumption|apply prt_pret; split; assumption|].
    apply prt_pbnd. eapply prt_conseq; [apply (tfixed_log_ok log_unsat); [cbn; tauto|exact Hs]|].
    intros u lr2 v2 [Hf2 Hu]. pose proof (frame_trans _ _ _ Hf1 Hf2) as Hf12.
    destruct u as [[u|e]|]; [apply prt_pret; split; [exact Hf12|]; destruct Hu as [Hk Hlt]; split; [exact Hk|destruct Hf1 as (_ & _ & Hc); lia]|apply prt_pret; split; assumption|].
    apply prt_pbnd. eapply prt_conseq; [apply (tfixed_log_ok log_unknown); [cbn; tauto|exact Hu]|].
    intros w lr3 v3 [Hf3 Hw]. pose proof (frame_trans _ _ _ Hf12 Hf3) as Hf13.
    destruct w as [[u|e]|]; apply prt_pret; (split; [exact Hf13|]); [|exact Hw|exact Hw].
    destruct Hw as [Hk Hlt]. split; [exact Hk|]. destruct Hf12 as (_ & _ & Hc). lia. }
  intros r lr2 v2 [Hf2 Hr]. destruct r as [[b|e]|]; [|apply prt_pret; split; assumption..].
  destruct Hr as [HK2 Hlt].
  apply prt_pbnd. eapply prt_conseq; [apply or_unexpected_ok; apply interactive_end_of_line_ok; exact HK2|].
  intros e lr3 v3 [Hf3 He]. pose proof (frame_trans _ _ _ Hf2 Hf3) as Hf23.
  destruct e as [u|er]; apply prt_pret; (split; [exact Hf23|]); [|exact He].
  split; [exact He|]. destruct Hf3 as (_ & _ & Hc). lia.
Qed.

Lemma log_loop_ok n : forall maxd iu st lr v, K lr v -> meas v n ->
  prt (log_loop fuel n maxd iu st) lr v (ResPost (fun _ _ v' => vfail v' = None) v).
Proof.
  induction n as [|n IH]; intros maxd iu st lr v HK Hm; [exfalso; unfold meas in Hm; lia|]. cbn [log_loop].
  (* continuing with the next iteration after progress *)
  assert (Hloop : forall st' lr' v', K lr' v' -> frame v v' -> vcur v < vcur v' ->
            prt (log_loop fuel n maxd iu st') lr' v' (ResPost (fun _ _ v'' => vfail v'' = None) v)).
  { intros st' lr' v' HK' Hf' Hlt'. eapply prt_conseq; [apply IH; [exact HK'|eapply meas_step; eassumption]|].
    intros a lr3 v3 Ha. eapply ResPost_frame; eassumption. }
  assert (Hun : forall lr' v', K lr' v' -> frame v v' ->
            prt (let* e := unexpected in pret (Err e)) lr' v' (ResPost (fun (_ : option bool * list Z) _ v'' => vfail v'' = None) v)).
  { intros lr' v' HK' Hf'. apply prt_pbnd. eapply prt_conseq; [apply unexpected_ok; exact HK'|]. intros e lr4 v4 [Hf4 He].
    apply prt_pret. split; [eapply frame_trans; eassumption|exact He]. }
  apply prt_pbnd. eapply prt_conseq; [apply strict_comments_ok; [exact HK|eapply meas_init; exact HK]|].
  intros c lr1 v1 [Hf1 Hc]. destruct c as [u|e]; [|apply prt_pret; split; assumption].
  apply prt_pbnd.
  apply (prt_conseq _ _ _ (ResPost (fun (b : bool) lr' v' => if b then K lr' v' /\ vcur v1 < vcur v' else K lr' v') v1)).
  { destruct (finished st); [apply prt_pret; split; [apply frame_refl|exact Hc]|].
    apply matches_tok_ok. apply (tfixed_log_ok log_v); [cbn; tauto|exact Hc]. }
  intros vv lr2 v2 [Hf Hvv]. pose proof (frame_trans _ _ _ Hf1 Hf) as Hf2. destruct vv as [[|]|e];
    [| |apply prt_pret; split; assumption].
  - (* a value line *)
    destruct Hvv as [HK2 Hlt2].
    apply prt_pbnd. eapply prt_conseq; [apply skip_whitespace_ok; exact HK2|]. intros _ lr3 v3 (-> & HK3 & Hf23).
    pose proof (frame_trans _ _ _ Hf2 Hf23) as Hf3.
    apply prt_pbnd. eapply prt_conseq; [apply value_lits_ok; [exact HK3|eapply meas_init; exact HK3]|].
    intros ls lr4 v4 [Hf34 Hls]. pose proof (frame_trans _ _ _ Hf3 Hf34) as Hf4.
    destruct ls as [[a fin]|e]; [|apply prt_pret; split; assumption].
    apply prt_pbnd. eapply prt_conseq; [apply or_unexpected_ok; apply interactive_end_of_line_ok; exact Hls|].
    intros e lr5 v5 [Hf45 He]. pose proof (frame_trans _ _ _ Hf4 Hf45) as Hf5.
    destruct e as [u5|er]; [|apply prt_pret; split; assumption].
    apply Hloop; [exact He|exact Hf5|].
    destruct Hf1 as (_ & _ & c1). destruct Hf23 as (_ & _ & c2). destruct Hf34 as (_ & _ & c3). destruct Hf45 as (_ & _ & c4). lia.
  - apply prt_pbnd.
    apply (prt_conseq _ _ _ (ResPost (fun (b : bool) lr' v' => if b then K lr' v' /\ vcur v2 < vcur v' else K lr' v') v2)).
    { destruct (sat st); [apply prt_pret; split; [apply frame_refl|exact Hvv]|].
      apply matches_tok_ok. apply (tfixed_log_ok log_s); [cbn; tauto|exact Hvv]. }
    intros ss lr3 v3 [Hf23 Hss]. pose proof (frame_trans _ _ _ Hf2 Hf23) as Hf3. destruct ss as [[|]|e];
      [| |apply prt_pret; split; assumption].
    + (* a status line *)
      destruct Hss as [HK3 Hlt3].
      apply prt_pbnd. eapply prt_conseq; [apply or_unexpected_ok; apply status_tok_ok; exact HK3|].
      intros r lr4 v4 [Hf34 Hr]. pose proof (frame_trans _ _ _ Hf3 Hf34) as Hf4.
      destruct r as [sv|e]; [|apply prt_pret; split; assumption].
      destruct Hr as [HK4 Hlt4]. apply Hloop; [exact HK4|exact Hf4|].
      destruct Hf2 as (_ & _ & c1). lia.
    + apply prt_pbnd.
      eapply prt_conseq; [apply (matches_tok_ok _ (fun lr' v' => K lr' v' /\ vfail v' = None)); apply teof_ok; exact Hss|].
      intros ef lr4 v4 [Hf34 Hef]. pose proof (frame_trans _ _ _ Hf3 Hf34) as Hf4. destruct ef as [[|]|e];
        [| |apply prt_pret; split; assumption].
      * destruct Hef as [HK4 Hfail]. destruct (started st && negb (finished st)); [apply Hun; assumption|].
        apply prt_pret. split; assumption.
      * apply prt_pbnd.
        apply (prt_conseq _ _ _ (ResPost (fun (b : bool) lr' v' => if b then K lr' v' /\ vcur v4 < vcur v' else K lr' v') v4)).
        { destruct iu; [|apply prt_pret; split; [apply frame_refl|exact Hef]].
          apply matches_tok_ok. apply interactive_skip_line_ok. exact Hef. }
        intros sk lr5 v5 [Hf45 Hsk]. pose proof (frame_trans _ _ _ Hf4 Hf45) as Hf5. destruct sk as [[|]|e];
          [| |apply prt_pret; split; assumption].
        -- destruct Hsk as [HK5 Hlt5]. apply Hloop; [exact HK5|exact Hf5|]. destruct Hf4 as (_ & _ & c1). lia.
        -- apply Hun; assumption.
Qed.

Lemma parse_log_ok maxd iu lr v : K lr v ->
  prt (parse_log fuel maxd iu) lr v (ResPost (fun _ _ v' => vfail v' = None) v).
Proof. intros HK. unfold parse_log. apply log_loop_ok; [exact HK|eapply meas_init; exact HK]. Qed.

End Safe.

(* ================================================================== *)
(* the theorems for the DIMACS family                                   *)

Lemma K_init fuel S fail :
  Forall (fun b => b < 256) S -> nlen S < 2 ^ 62 -> (length S < fuel)%nat -> K fuel lrs_init (view_init S fail).
Proof.
  intros Hb Hl Hf. change (2 ^ 62) with 4611686018427387904 in Hl.
  split.
  - unfold VOK, SOK, WFV, BytesOK, view_init; cbn [vS vhwm vcur vtaken].
    split; [lia|]. split; [split; [exact Hb|split; [exact Hf|exact Hl]]|]. split; [lia|reflexivity].
  - unfold LI, lrs_init, view_init; cbn [vS vcur l_start l_line]. split; [lia|]. split; [apply nolf_empty; lia|].
    left. split; [left; reflexivity|reflexivity].
Qed.

Lemma parse_dimacs_all fuel k maxd ignore_header S fail r :
  Forall (fun b => b < 256) S -> nlen S < 2 ^ 62 -> (length S < fuel)%nat ->
  aruns (parse_dimacs fuel k maxd ignore_header lrs_init) (view_init S fail) r ->
  exists hdr items fin lr' v',
    r = ADone (hdr, items, fin, lr') v' /\ vS v' = S /\ vfail v' = fail /\
    match fin with FOk => fail = None | FErr e => ErrPost e v' end.
Proof.
  intros Hb Hl Hf Hr. pose proof (K_init fuel S fail Hb Hl Hf) as HK.
  destruct (prt_elim _ _ _ _ _ (parse_dimacs_ok fuel k maxd ignore_header _ _ HK) Hr) as ([[hdr items] fin] & lr' & v' & -> & Hfr & Hfin).
  cbn [snd] in Hfin. destruct Hfr as (Hs & Hfl & _). cbn [view_init vS vfail] in Hs, Hfl.
  exists hdr, items, fin, lr', v'. split; [reflexivity|]. split; [exact Hs|]. split; [exact Hfl|].
  destruct fin; [rewrite <- Hfl; exact Hfin|exact Hfin].
Qed.

(* T1: every admissible run finishes normally: never stuck (no advance beyond what is known to be buffered),
   no panic (in particular no underflow in the column computation), never out of fuel *)
Theorem parse_dimacs_safe fuel k maxd ignore_header S fail r :
  Forall (fun b => b < 256) S -> nlen S < 2 ^ 62 -> (length S < fuel)%nat ->
  aruns (parse_dimacs fuel k maxd ignore_header lrs_init) (view_init S fail) r ->
  exists out lr' v', r = ADone (out, lr') v'.
Proof.
  intros Hb Hl Hf Hr.
  destruct (parse_dimacs_all fuel k maxd ignore_header S fail r Hb Hl Hf Hr) as (hdr & items & fin & lr' & v' & -> & _).
  eauto.
Qed.
Print Assumptions parse_dimacs_safe.

(* T2: a failing source never yields the clean end; the error is the source's I/O error, or a syntax error
   found before the end of the delivered data had been seen.  A source that does not fail never yields an I/O error. *)
Theorem parse_dimacs_failing fuel k maxd ignore_header S fail r :
  Forall (fun b => b < 256) S -> nlen S < 2 ^ 62 -> (length S < fuel)%nat ->
  aruns (parse_dimacs fuel k maxd ignore_header lrs_init) (view_init S fail) r ->
  exists hdr items fin lr' v',
    r = ADone (hdr, items, fin, lr') v' /\
    match fin with
    | FOk => fail = None
    | FErr (EIo e) => fail = Some e
    | FErr (ESyntax _ _) => fail = None \/ vknown v' = false
    end.
Proof.
  intros Hb Hl Hf Hr.
  destruct (parse_dimacs_all fuel k maxd ignore_header S fail r Hb Hl Hf Hr) as (hdr & items & fin & lr' & v' & -> & Hs & Hfl & Hfin).
  exists hdr, items, fin, lr', v'. split; [reflexivity|].
  destruct fin as [|[l c|e]]; [exact Hfin| |].
  - cbn [ErrPost] in Hfin. rewrite Hfl in Hfin. exact (proj1 Hfin).
  - cbn [ErrPost] in Hfin. rewrite Hfl in Hfin. exact Hfin.
Qed.
Print Assumptions parse_dimacs_failing.

(* T3: the location of a syntax error *)
Theorem parse_dimacs_error_location fuel k maxd ignore_header S fail hdr items l c lr' v' :
  Forall (fun b => b < 256) S -> nlen S < 2 ^ 62 -> (length S < fuel)%nat ->
  aruns (parse_dimacs fuel k maxd ignore_header lrs_init) (view_init S fail) (ADone (hdr, items, FErr (ESyntax l c), lr') v') ->
  loc_ok S l c.
Proof.
  intros Hb Hl Hf Hr.
  destruct (parse_dimacs_all fuel k maxd ignore_header S fail _ Hb Hl Hf Hr) as (hdr0 & items0 & fin & lr0 & v0 & E & Hs & Hfl & Hfin).
  inversion E; subst. cbn [ErrPost] in Hfin. exact (proj2 Hfin).
Qed.
Print Assumptions parse_dimacs_error_location.

(* ================================================================== *)
(* the theorems for the solver log parser                               *)

Lemma parse_log_all fuel maxd ignore_unknown S fail r :
  Forall (fun b => b < 256) S -> nlen S < 2 ^ 62 -> (length S < fuel)%nat ->
  aruns (parse_log fuel maxd ignore_unknown lrs_init) (view_init S fail) r ->
  exists res lr' v',
    r = ADone (res, lr') v' /\ vS v' = S /\ vfail v' = fail /\
    match res with Ok _ => fail = None | Err e => ErrPost e v' end.
Proof.
  intros Hb Hl Hf Hr. pose proof (K_init fuel S fail Hb Hl Hf) as HK.
  destruct (prt_elim _ _ _ _ _ (parse_log_ok fuel maxd ignore_unknown _ _ HK) Hr) as (res & lr' & v' & -> & Hfr & Hres).
  destruct Hfr as (Hs & Hfl & _). cbn [view_init vS vfail] in Hs, Hfl.
  exists res, lr', v'. split; [reflexivity|]. split; [exact Hs|]. split; [exact Hfl|].
  destruct res; [rewrite <- Hfl; exact Hres|exact Hres].
Qed.

Theorem parse_log_safe fuel maxd ignore_unknown S fail r :
  Forall (fun b => b < 256) S -> nlen S < 2 ^ 62 -> (length S < fuel)%nat ->
  aruns (parse_log fuel maxd ignore_unknown lrs_init) (view_init S fail) r ->
  exists out lr' v', r = ADone (out, lr') v'.
Proof.
  intros Hb Hl Hf Hr.
  destruct (parse_log_all fuel maxd ignore_unknown S fail r Hb Hl Hf Hr) as (res & lr' & v' & -> & _). eauto.
Qed.
Print Assumptions parse_log_safe.

Theorem parse_log_failing fuel maxd ignore_unknown S fail r :
  Forall (fun b => b < 256) S -> nlen S < 2 ^ 62 -> (length S < fuel)%nat ->
  aruns (parse_log fuel maxd ignore_unknown lrs_init) (view_init S fail) r ->
  exists res lr' v',
    r = ADone (res, lr') v' /\
    match res with
    | Ok _ => fail = None
    | Err (EIo e) => fail = Some e
    | Err (ESyntax _ _) => fail = None \/ vknown v' = false
    end.
Proof.
  intros Hb Hl Hf Hr.
  destruct (parse_log_all fuel maxd ignore_unknown S fail r Hb Hl Hf Hr) as (res & lr' & v' & -> & Hs & Hfl & Hres).
  exists res, lr', v'. split; [reflexivity|].
  destruct res as [x|[l c|e]]; [exact Hres| |].
  - cbn [ErrPost] in Hres. rewrite Hfl in Hres. exact (proj1 Hres).
  - cbn [ErrPost] in Hres. rewrite Hfl in Hres. exact Hres.
Qed.
Print Assumptions parse_log_failing.

Theorem parse_log_error_location fuel maxd ignore_unknown S fail l c lr' v' :
  Forall (fun b => b < 256) S -> nlen S < 2 ^ 62 -> (length S < fuel)%nat ->
  aruns (parse_log fuel maxd ignore_unknown lrs_init) (view_init S fail) (ADone (Err (ESyntax l c), lr') v') ->
  loc_ok S l c.
Proof.
  intros Hb Hl Hf Hr.
  destruct (parse_log_all fuel maxd ignore_unknown S fail _ Hb Hl Hf Hr) as (res & lr0 & v0 & E & Hs & Hfl & Hres).
  inversion E; subst. cbn [ErrPost] in Hres. exact (proj2 Hres).
Qed.
Print Assumptions parse_log_error_location.

(* ================================================================== *)
(* C01 completed: the concrete parse does not depend on how the bytes arrive *)

Lemma any_chunking {A} (p : prog A) fuel (sr : source) (c : N) :
  NoLie (events sr) -> 1 <= c ->
  Forall (fun b => b < 256) (fst (stream_of sr)) -> (length (fst (stream_of sr)) < fuel)%nat ->
  CoreDet fuel p ->
  (forall r, aruns p (view_init (fst (stream_of sr)) (snd (stream_of sr))) r -> exists a v', r = ADone a v') ->
  exists a v' s', srun p (view_init (fst (stream_of sr)) (snd (stream_of sr))) = ADone a v' /\
                  crun p (set_chunk (reader_init sr) c) = CDone a s'.
Proof.
  intros HN Hc Hb Hf Hdet Hsafe.
  set (v := view_init (fst (stream_of sr)) (snd (stream_of sr))) in *.
  assert (Hw : WFV v) by (unfold WFV, v; cbn; lia).
  pose proof (srun_aruns p v Hw) as Hs. destruct (Hsafe _ Hs) as (a & v' & Ea).
  destruct (concrete_value p _ v a (Rel_init sr c HN Hc)) as (s' & Hcr & _).
  - intros r Hr. destruct (Hsafe _ Hr) as (a2 & v2 & ->). exists v2. f_equal.
    pose proof (Hdet v v _ _ eq_refl Hw Hw Hb Hf Hs Hr) as Hag. rewrite Ea in Hag. destruct Hag as [-> _]. reflexivity.
  - exists a, v', s'. split; [exact Ea|exact Hcr].
Qed.

Theorem parse_dimacs_any_chunking fuel k maxd ignore_header (sr : source) (c : N) :
  NoLie (events sr) -> 1 <= c ->
  Forall (fun b => b < 256) (fst (stream_of sr)) -> nlen (fst (stream_of sr)) < 2 ^ 62 ->
  (length (fst (stream_of sr)) < fuel)%nat ->
  let p := parse_dimacs fuel k maxd ignore_header lrs_init in
  exists a v' s', srun p (view_init (fst (stream_of sr)) (snd (stream_of sr))) = ADone a v' /\
                  crun p (set_chunk (reader_init sr) c) = CDone a s'.
Proof.
  intros HN Hc Hb Hl Hf p. apply (any_chunking p fuel sr c HN Hc Hb Hf).
  - exact (PDet_parse_dimacs fuel k maxd ignore_header lrs_init).
  - intros r Hr. destruct (parse_dimacs_safe fuel k maxd ignore_header _ _ r Hb Hl Hf Hr) as (out & lr' & v' & ->). eauto.
Qed.
Print Assumptions parse_dimacs_any_chunking.

Theorem parse_log_any_chunking fuel maxd ignore_unknown (sr : source) (c : N) :
  NoLie (events sr) -> 1 <= c ->
  Forall (fun b => b < 256) (fst (stream_of sr)) -> nlen (fst (stream_of sr)) < 2 ^ 62 ->
  (length (fst (stream_of sr)) < fuel)%nat ->
  let p := parse_log fuel maxd ignore_unknown lrs_init in
  exists a v' s', srun p (view_init (fst (stream_of sr)) (snd (stream_of sr))) = ADone a v' /\
                  crun p (set_chunk (reader_init sr) c) = CDone a s'.
Proof.
  intros HN Hc Hb Hl Hf p. apply (any_chunking p fuel sr c HN Hc Hb Hf).
  - exact (PDet_parse_log fuel maxd ignore_unknown lrs_init).
  - intros r Hr. destruct (parse_log_safe fuel maxd ignore_unknown _ _ r Hb Hl Hf Hr) as (out & lr' & v' & ->). eauto.
Qed.
Print Assumptions parse_log_any_chunking.

(* ================================================================== *)
(* a witness for the exception in line_ok: a last comment line without LF is counted as a line of its own.
   "p cnf 1 2\n1 0\nc x" (three lines, the third unterminated; the header announces two clauses): the missing
   clause is reported at line 4, column 1 although the end of the input is at line 3, column 4. *)
Example unterminated_comment_line_number :
  let S := [112; 32; 99; 110; 102; 32; 49; 32; 50; 10; 49; 32; 48; 10; 99; 32; 120] in
  exists v', srun (parse_dimacs 100 KCnf max_dimacs_i32 false lrs_init) (view_init S None)
             = ADone (Some (Some {| h_vars := 1; h_clauses := 2; h_extra := 0 |}), [(0%Z, [1%Z])],
                      FErr (ESyntax 4 1), {| l_line := 4; l_start := 17 |}) v'.
Proof. eexists. vm_compute. reflexivity. Qed.

(* the same for the solver log: "v 1\nc x" *)
Example unterminated_log_comment_line_number :
  let S := [118; 32; 49; 10; 99; 32; 120] in
  exists v', srun (parse_log 100 max_dimacs_i32 false lrs_init) (view_init S None)
             = ADone (Err (ESyntax 3 1), {| l_line := 3; l_start := 7 |}) v'.
Proof. eexists. vm_compute. reflexivity. Qed.

(* ================================================================== *)
(* T2, continued: a syntax error reported on a failing source is reported, identically, on every continuation
   of the delivered data (it was found before the end of the data had been seen) *)
Corollary parse_dimacs_syntax_error_before_failure fuel k maxd ignore_header S e a v' l c :
  Forall (fun b => b < 256) S -> nlen S < 2 ^ 62 -> (length S < fuel)%nat ->
  srun (parse_dimacs fuel k maxd ignore_header lrs_init) (view_init S (Some e)) = ADone a v' ->
  snd (fst a) = FErr (ESyntax l c) ->
  forall T fail', exists vx', srun (parse_dimacs fuel k maxd ignore_header lrs_init) (view_init (S ++ T) fail') = ADone a vx'.
Proof.
  intros Hb Hl Hf Hs Hfin T fail'.
  assert (Hw : WFV (view_init S (Some e))) by (unfold WFV; cbn; lia).
  pose proof (srun_aruns (parse_dimacs fuel k maxd ignore_header lrs_init) _ Hw) as Hr. rewrite Hs in Hr.
  destruct (parse_dimacs_failing fuel k maxd ignore_header S (Some e) _ Hb Hl Hf Hr) as (hdr & items & fin & lr' & v0 & E & Hfail).
  inversion E; subst. cbn [fst snd] in Hfin. subst fin.
  destruct Hfail as [Hn|Hk]; [discriminate|].
  destruct (unfailed_prefix _ S e _ _ Hs Hk T fail') as (vx' & Hx & _). exists vx'. exact Hx.
Qed.
Print Assumptions parse_dimacs_syntax_error_before_failure.

Corollary parse_log_syntax_error_before_failure fuel maxd ignore_unknown S e lr' v' l c :
  Forall (fun b => b < 256) S -> nlen S < 2 ^ 62 -> (length S < fuel)%nat ->
  srun (parse_log fuel maxd ignore_unknown lrs_init) (view_init S (Some e)) = ADone (Err (ESyntax l c), lr') v' ->
  forall T fail', exists vx', srun (parse_log fuel maxd ignore_unknown lrs_init) (view_init (S ++ T) fail')
                              = ADone (Err (ESyntax l c), lr') vx'.
Proof.
  intros Hb Hl Hf Hs T fail'.
  assert (Hw : WFV (view_init S (Some e))) by (unfold WFV; cbn; lia).
  pose proof (srun_aruns (parse_log fuel maxd ignore_unknown lrs_init) _ Hw) as Hr. rewrite Hs in Hr.
  destruct (parse_log_failing fuel maxd ignore_unknown S (Some e) _ Hb Hl Hf Hr) as (res & lr0 & v0 & E & Hfail).
  inversion E; subst.
  destruct Hfail as [Hn|Hk]; [discriminate|].
  destruct (unfailed_prefix _ S e _ _ Hs Hk T fail') as (vx' & Hx & _). exists vx'. exact Hx.
Qed.
Print Assumptions parse_log_syntax_error_before_failure.

(* T3, as a function of the position: see line_col_of / loc_spec in Hoare.v *)
Corollary parse_dimacs_error_location_spec fuel k maxd ignore_header S fail hdr items l c lr' v' :
  Forall (fun b => b < 256) S -> nlen S < 2 ^ 62 -> (length S < fuel)%nat ->
  aruns (parse_dimacs fuel k maxd ignore_header lrs_init) (view_init S fail) (ADone (hdr, items, FErr (ESyntax l c), lr') v') ->
  loc_spec S l c /\ 1 <= l <= count_lf S + 2 /\ 1 <= c <= nlen S + 1.
Proof.
  intros Hb Hl Hf Hr. pose proof (parse_dimacs_error_location fuel k maxd ignore_header S fail hdr items l c lr' v' Hb Hl Hf Hr) as H.
  split; [apply loc_ok_spec; exact H|]. pose proof (loc_ok_bounds S l c H). unfold bytes, byte in *. lia.
Qed.
Print Assumptions parse_dimacs_error_location_spec.

Corollary parse_log_error_location_spec fuel maxd ignore_unknown S fail l c lr' v' :
  Forall (fun b => b < 256) S -> nlen S < 2 ^ 62 -> (length S < fuel)%nat ->
  aruns (parse_log fuel maxd ignore_unknown lrs_init) (view_init S fail) (ADone (Err (ESyntax l c), lr') v') ->
  loc_spec S l c /\ 1 <= l <= count_lf S + 2 /\ 1 <= c <= nlen S + 1.
Proof.
  intros Hb Hl Hf Hr. pose proof (parse_log_error_location fuel maxd ignore_unknown S fail l c lr' v' Hb Hl Hf Hr) as H.
  split; [apply loc_ok_spec; exact H|]. pose proof (loc_ok_bounds S l c H). unfold bytes, byte in *. lia.
Qed.
Print Assumptions parse_log_error_location_spec.

(* ================================================================== *)
(* T4: the values handed out by the number tokens (C06 at token level), from any state satisfying the invariant *)

(* token::uint / token::int: Ok z only if z is the value of the decimal numeral at the cursor and fits the type *)
Theorem number_value fuel sg t lr v r :
  (sg = true -> ity_signed t = true) -> K fuel lr v -> aruns (number fuel sg t lr) v r ->
  exists a lr' v', r = ADone (a, lr') v' /\
    match a with
    | Res (Ok z) => (ity_min t <= z <= ity_max t)%Z /\ z = num_value sg (rest_at v 0)
    | _ => True
    end.
Proof.
  intros Hs HK Hr. destruct (prt_elim _ _ _ _ _ (number_val fuel sg t lr v Hs HK) Hr) as (a & lr' & v' & -> & _ & Hv).
  exists a, lr', v'. split; [reflexivity|]. destruct a as [[z|u]|]; [|exact I..].
  destruct (Hv z eq_refl) as [Hin Hz]. split; [apply in_range_iff; exact Hin|exact Hz].
Qed.
Print Assumptions number_value.

Theorem var_count_value fuel maxd lr v r :
  K fuel lr v -> aruns (var_count fuel maxd lr) v r ->
  exists a lr' v', r = ADone (a, lr') v' /\
    match a with
    | Res (Ok z) => (0 <= z <= maxd)%Z /\ z = Z.of_N (dec_val (digit_prefix (rest_at v 0)))
    | _ => True
    end.
Proof.
  intros HK Hr. destruct (prt_elim _ _ _ _ _ (var_count_val fuel maxd lr v HK) Hr) as (a & lr' & v' & -> & _ & Hv).
  exists a, lr', v'. split; [reflexivity|]. destruct a as [[z|u]|]; [|exact I..].
  destruct Hv as (_ & Hin & Hz & Hle). unfold num_value in Hz. split; [lia|exact Hz].
Qed.
Print Assumptions var_count_value.

Theorem clause_group_value fuel limit lr v r :
  K fuel lr v -> aruns (clause_group fuel limit lr) v r ->
  exists a lr' v', r = ADone (a, lr') v' /\
    match a with
    | Res (Ok z) => (0 <= z <= limit)%Z /\ z = Z.of_N (dec_val (digit_prefix (rest_at v 1)))
    | _ => True
    end.
Proof.
  intros HK Hr. destruct (prt_elim _ _ _ _ _ (clause_group_val fuel limit lr v HK) Hr) as (a & lr' & v' & -> & _ & Hv).
  exists a, lr', v'. split; [reflexivity|]. destruct a as [[z|u]|]; [|exact I..].
  destruct Hv as (_ & Hin & Hz & Hle). split; [lia|exact Hz].
Qed.
Print Assumptions clause_group_value.

Theorem clause_lits_within_limit fuel limit lr v r :
  K fuel lr v -> aruns (clause_lits fuel limit lr) v r ->
  exists a lr' v', r = ADone (a, lr') v' /\
    match a with
    | Res (Ok ls) => Forall (fun z => (- limit <= z <= limit)%Z) ls
    | _ => True
    end.
Proof.
  intros HK Hr. destruct (prt_elim _ _ _ _ _ (clause_lits_val fuel limit lr v HK) Hr) as (a & lr' & v' & -> & _ & Hv).
  exists a, lr', v'. split; [reflexivity|]. destruct a as [[ls|u]|]; [|exact I..]. exact (proj2 Hv).
Qed.
Print Assumptions clause_lits_within_limit.

Theorem value_lits_within_limit fuel maxd acc lr v r :
  K fuel lr v -> Forall (fun z => (- maxd <= z <= maxd)%Z) acc -> aruns (value_lits fuel fuel maxd acc lr) v r ->
  exists a lr' v', r = ADone (a, lr') v' /\
    match a with
    | Ok (ls, _) => Forall (fun z => (- maxd <= z <= maxd)%Z) ls
    | _ => True
    end.
Proof.
  intros HK Hacc Hr.
  destruct (prt_elim _ _ _ _ _ (value_lits_val fuel fuel maxd acc lr v HK (meas_init fuel lr v HK) Hacc) Hr) as (a & lr' & v' & -> & _ & Hv).
  exists a, lr', v'. split; [reflexivity|]. destruct a as [[ls fin]|u]; [|exact I]. exact (proj2 Hv).
Qed.
Print Assumptions value_lits_within_limit.

(* ================================================================== *)
(* the parser theorems as Hoare triples: from any state satisfying the invariant K, not only the initial one *)
Theorem parse_dimacs_triple fuel k maxd ignore_header v0 :
  ptriple (fun lr v => v = v0 /\ K fuel lr v) (parse_dimacs fuel k maxd ignore_header)
          (fun r _ v' => FinPost v0 (snd r) v').
Proof. apply ptriple_prt. intros lr v [-> HK]. apply parse_dimacs_ok. exact HK. Qed.

Theorem parse_log_triple fuel maxd ignore_unknown v0 :
  ptriple (fun lr v => v = v0 /\ K fuel lr v) (parse_log fuel maxd ignore_unknown)
          (ResPost (fun _ _ v' => vfail v' = None) v0).
Proof. apply ptriple_prt. intros lr v [-> HK]. apply parse_log_ok. exact HK. Qed.

(* two honest sources delivering the same stream, any two chunk sizes: the same parse (C01_dimacs_two_runs_partial
   without the AStuck escape) *)
Corollary parse_dimacs_two_sources fuel k maxd ignore_header (sr1 sr2 : source) (c1 c2 : N) :
  NoLie (events sr1) -> NoLie (events sr2) -> 1 <= c1 -> 1 <= c2 -> stream_of sr1 = stream_of sr2 ->
  Forall (fun b => b < 256) (fst (stream_of sr1)) -> nlen (fst (stream_of sr1)) < 2 ^ 62 ->
  (length (fst (stream_of sr1)) < fuel)%nat ->
  let p := parse_dimacs fuel k maxd ignore_header lrs_init in
  exists a s1 s2, crun p (set_chunk (reader_init sr1) c1) = CDone a s1 /\ crun p (set_chunk (reader_init sr2) c2) = CDone a s2.
Proof.
  intros H1 H2 Hc1 Hc2 Heq Hb Hl Hf p.
  destruct (parse_dimacs_any_chunking fuel k maxd ignore_header sr1 c1 H1 Hc1 Hb Hl Hf) as (a1 & v1 & s1 & E1 & C1).
  rewrite Heq in Hb, Hl, Hf.
  destruct (parse_dimacs_any_chunking fuel k maxd ignore_header sr2 c2 H2 Hc2 Hb Hl Hf) as (a2 & v2 & s2 & E2 & C2).
  rewrite Heq in E1. rewrite E1 in E2. inversion E2; subst. exists a2, s1, s2. split; assumption.
Qed.
Print Assumptions parse_dimacs_two_sources.

Corollary parse_log_two_sources fuel maxd ignore_unknown (sr1 sr2 : source) (c1 c2 : N) :
  NoLie (events sr1) -> NoLie (events sr2) -> 1 <= c1 -> 1 <= c2 -> stream_of sr1 = stream_of sr2 ->
  Forall (fun b => b < 256) (fst (stream_of sr1)) -> nlen (fst (stream_of sr1)) < 2 ^ 62 ->
  (length (fst (stream_of sr1)) < fuel)%nat ->
  let p := parse_log fuel maxd ignore_unknown lrs_init in
  exists a s1 s2, crun p (set_chunk (reader_init sr1) c1) = CDone a s1 /\ crun p (set_chunk (reader_init sr2) c2) = CDone a s2.
Proof.
  intros H1 H2 Hc1 Hc2 Heq Hb Hl Hf p.
  destruct (parse_log_any_chunking fuel maxd ignore_unknown sr1 c1 H1 Hc1 Hb Hl Hf) as (a1 & v1 & s1 & E1 & C1).
  rewrite Heq in Hb, Hl, Hf.
  destruct (parse_log_any_chunking fuel maxd ignore_unknown sr2 c2 H2 Hc2 Hb Hl Hf) as (a2 & v2 & s2 & E2 & C2).
  rewrite Heq in E1. rewrite E1 in E2. inversion E2; subst. exists a2, s1, s2. split; assumption.
Qed.
Print Assumptions parse_log_two_sources.
