(* C10 — Streaming uses memory bounded by chunk size and largest item, not input size.
   The reader's only allocation is its buffer.  Its length depends on the chunk size and on the
   largest window (= look-ahead needed for one item) only — not on how much has been consumed. *)
From Flussab Require Import Base Reader ListN ReaderProofs.

(* one operation: the buffer is at most what it was, or three chunks plus the window *)
Theorem C10_step_bound : forall s o C,
  Inv s -> chunk_size s <= C ->
  let s' := fst (step s o) in
  nlen (buf s') <= N.max (nlen (buf s)) (3 * C + N.max (valid_len s) (valid_len s')).
Proof. exact step_buf_bound. Qed.
Print Assumptions C10_step_bound.

(* whole histories: if the chunk size stays <= C and the window never exceeds W, the buffer never
   exceeds 3C + W, however many bytes are consumed *)
Fixpoint history_ok (C W : N) (s : rstate) (h : list rop) : Prop :=
  match h with
  | [] => True
  | o :: os =>
      (match o with OSetChunk c => c <= C | _ => True end) /\
      valid_len (fst (step s o)) <= W /\ history_ok C W (fst (step s o)) os
  end.

Theorem C10_history_bound : forall (h : list rop) (s : rstate) (C W : N),
  Good s -> chunk_size s <= C -> valid_len s <= W -> nlen (buf s) <= 3 * C + W ->
  history_ok C W s h ->
  nlen (buf (fst (run s h))) <= 3 * C + W.
Proof.
  induction h as [|o os IH]; intros s C W HG HC HW HB Hh; cbn [run]; [exact HB|].
  destruct Hh as (Ho & Hw & Hrest).
  pose proof (step_buf_bound s o C (proj1 HG) HC) as Hb. cbn zeta in Hb.
  pose proof (Good_step s o HG) as HG'.
  assert (HC' : chunk_size (fst (step s o)) <= C).
  { destruct o; cbn [step]; try exact HC.
    - destruct (n <=? valid_len s); [exact HC|].
      pose proof (frame_fill_until (loop_fuel s) n s) as (_ & _ & _ & Hch).
      destruct (fill_until (loop_fuel s) n s); cbn [loop_state fst] in *; lia.
    - unfold peek. destruct (k <? valid_len s); [destruct (nnth _ _); exact HC|].
      pose proof (frame_fill_until (loop_fuel s) (k + 1) s) as (_ & _ & _ & Hch).
      destruct (fill_until (loop_fuel s) (k + 1) s) as [s'|p s'|s']; cbn [loop_state fst] in *; try lia.
      destruct (k <? valid_len s'); [destruct (nnth _ _)|]; cbn [fst]; lia.
    - pose proof (frame_request_more s) as (_ & _ & _ & Hch).
      destruct (request_more s); cbn [rm_state fst] in *; lia.
    - unfold advance. destruct (valid_len s <? n); exact HC.
    - unfold advance. destruct (valid_len s <? n); cbn [fst]; [exact HC|]. destruct (_ <=? _); exact HC.
    - exact Ho. }
  destruct (step s o) as [s1 v]. cbn [fst] in *.
  specialize (IH s1 C W HG' HC' Hw ltac:(lia) Hrest).
  destruct (run s1 os) as [s2 vs]. exact IH.
Qed.
Print Assumptions C10_history_bound.

(* non-vacuity: 40 bytes streamed through a reader with chunk size 2 and look-ahead 3 *)
Example C10_example :
  let ops := [OSetChunk 2] ++ concat (repeat [ORequest 3; OAdvance 3] 13) in
  nlen (buf (fst (run (reader_init {| prebuf := []; data := nrepeat 7 40; events := [] |}) ops))) <= 3 * 2 + 4.
Proof. vm_compute. discriminate. Qed.

(* ------------------------------------------------------------------ *)
(* The window the DIMACS parsers need (LookProofs.v, view level): at every intermediate point vi of a next_clause call
   that returns an item, the look-ahead vreq - vcur is at most what it was at the start or the length of what the call
   consumes (the item's lines) plus one — it depends on the item, not on how much input came before.  PARTIAL: the link
   from this window to valid_len of the concrete reader *during* the call (the W of C10_history_bound) is not a theorem;
   the counting-allocator oracle measures it. *)
From Flussab Require Import Prog ProgProofs Cnf CnfProofs Hoare CnfSafe Look LookProofs.

Theorem C10_clause_window : forall fuel k st lr v vi item st' lr' v',
  K fuel lr v -> aruns_via (next_clause fuel k st lr) v vi (ADone ((Ok (Some item), st'), lr') v') ->
  vreq vi - vcur vi <= N.max (vreq v - vcur v) (vcur v' - vcur v + 1).
Proof. exact next_clause_window. Qed.
Print Assumptions C10_clause_window.

(* ------------------------------------------------------------------ *)
(* The buffer during parser calls (ProgBuf.v, CnfBuf.v).  crun_buf p s m is crun p s together with the largest buffer
   length seen at any reader state of the run — every program node, every iteration of every refill loop, the state
   between realign/shrink and the read — starting from a running maximum m.  If every Peek of the run has offset < W and
   the chunk size is <= C, the buffer never exceeds 4C + W and the final state satisfies the same precondition again, so the
   bound composes over any number of calls and does not depend on the bytes or items processed before.  For the DIMACS
   family the window of a call is the number of bytes it consumes (+ the longest line for a non-item outcome): a whole
   parse of an input whose items span at most n bytes and whose lines are at most L long keeps the buffer <= 4c + n + L + 1. *)
From Flussab Require Import Simulation ProgBuf CnfBuf.

Theorem C10_instrumented_run_is_the_run : forall {A} (p : prog A),
  forall s m, fst (crun_buf p s m) = crun p s.
Proof. exact @crun_buf_fst. Qed.
Print Assumptions C10_instrumented_run_is_the_run.

Theorem C10_peek_window : forall s k C,
  chunk_size s <= C ->
  let s' := fst (peek s k) in
  valid_len s <= valid_len s' /\ valid_len s' <= N.max (valid_len s) (k + C).
Proof. exact peek_window. Qed.
Print Assumptions C10_peek_window.

Theorem C10_buffer_bound_for_bounded_peeks : forall {A} (p : prog A) (C W : N) s m,
  BufOK C W s -> PeekBound W p s ->
  snd (crun_buf p s m) <= N.max m (4 * C + W) /\
  (forall a s', crun p s = CDone a s' -> BufOK C W s') /\
  (forall pk s', crun p s = CPanic pk s' -> BufOK C W s').
Proof. exact @crun_buf_bound. Qed.
Print Assumptions C10_buffer_bound_for_bounded_peeks.

Theorem C10_buffer_bound_from_the_abstract_window : forall {A} (p : prog A) (G : ares A -> Prop) (C W : N) s v m,
  Rel s v -> BufOK C W s ->
  (forall vi r, aruns_via p v vi r -> G r -> r <> AStuck /\ vreq vi - vcur vi <= W) ->
  exists r, aruns p v r /\ refines (crun p s) r /\
    (G r -> snd (crun_buf p s m) <= N.max m (4 * C + W) /\
            (forall a s', crun p s = CDone a s' -> BufOK C W s')).
Proof. exact @crun_buf_window. Qed.
Print Assumptions C10_buffer_bound_from_the_abstract_window.

Theorem C10_dimacs_clause_call_buffer : forall fuel k st lr s v C n item st' lr' s' m,
  Rel s v -> K fuel lr v -> BufOK C (n + 1) s ->
  crun (next_clause fuel k st lr) s = CDone ((Ok (Some item), st'), lr') s' ->
  g_consumed s' - g_consumed s <= n ->
  snd (crun_buf (next_clause fuel k st lr) s m) <= N.max m (4 * C + n + 1) /\
  BufOK C (n + 1) s' /\
  exists v', Rel s' v' /\ K fuel lr' v' /\ vS v' = vS v.
Proof. exact next_clause_buf. Qed.
Print Assumptions C10_dimacs_clause_call_buffer.

Theorem C10_dimacs_whole_parse_buffer : forall fuel k maxd ih (sr : source) (c n L : N),
  NoLie (events sr) -> 1 <= c ->
  Forall (fun b => b < 256) (fst (stream_of sr)) -> nlen (fst (stream_of sr)) < 2 ^ 62 ->
  (length (fst (stream_of sr)) < fuel)%nat ->
  LinesWithin L (fst (stream_of sr)) ->
  ParseSpans fuel n k maxd ih lrs_init (set_chunk (reader_init sr) c) ->
  snd (crun_buf (parse_dimacs fuel k maxd ih lrs_init) (set_chunk (reader_init sr) c) 0) <= 4 * c + (n + L + 1).
Proof. exact parse_dimacs_buf_init. Qed.
Print Assumptions C10_dimacs_whole_parse_buffer.


(* ------------------------------------------------------------------ *)
(* Instances for the other parsers (Buf2.v): BTOR2 next_line and a whole BTOR2 parse, ASCII AIGER entry readers, the binary
   and-gate section (unconditional: 4C + 16 for any number of gates), the solver log.  n = bytes one call consumes (for
   BTOR2 this includes a run of blank lines that skip_whitespace looks over before advancing), L = longest line. *)
From Flussab Require Import Btor2 Btor2Safe Aiger AigerSafe Buf2.

Theorem C10_btor2_line_call_buffer : forall fuel lr s v C n l lr' s' m,
  Rel s v -> KB fuel lr v -> BufOK C (n + 1) s ->
  crun (next_line fuel lr) s = CDone (Ok (Some l), lr') s' ->
  g_consumed s' - g_consumed s <= n ->
  PeekBound (n + 1) (next_line fuel lr) s /\
  snd (crun_buf (next_line fuel lr) s m) <= N.max m (4 * C + n + 1) /\
  BufOK C (n + 1) s' /\
  exists v', Rel s' v' /\ KB fuel lr' v' /\ vS v' = vS v.
Proof. exact btor2_next_line_buf. Qed.
Print Assumptions C10_btor2_line_call_buffer.

Theorem C10_btor2_whole_parse_buffer : forall fuel (sr : source) (c n L : N),
  NoLie (events sr) -> 1 <= c ->
  Forall (fun b => b < 256) (fst (stream_of sr)) -> nlen (fst (stream_of sr)) < 2 ^ 62 ->
  (length (fst (stream_of sr)) < fuel)%nat ->
  LinesWithin L (fst (stream_of sr)) ->
  LineSpans fuel n fuel lrs_init (set_chunk (reader_init sr) c) ->
  snd (crun_buf (parse_btor2 fuel lrs_init) (set_chunk (reader_init sr) c) 0) <= 4 * c + (n + L + 1).
Proof. exact parse_btor2_buf_init. Qed.
Print Assumptions C10_btor2_whole_parse_buffer.

Theorem C10_aig_gate_section_buffer : forall fuel maxc C,
  forall cnt left code acc lr s v m items st' lr' s',
  code < W64 -> Rel s v -> KM fuel (vS v) lr v -> BufOK C 16 s ->
  crun (sloop cnt (aig_and maxc) left code acc lr) s = CDone ((items, st', None), lr') s' ->
  snd (crun_buf (sloop cnt (aig_and maxc) left code acc lr) s m) <= N.max m (4 * C + 16) /\ BufOK C 16 s'.
Proof. exact aig_and_section_buf. Qed.
Print Assumptions C10_aig_gate_section_buffer.

Theorem C10_log_whole_parse_buffer : forall fuel maxd iu (sr : source) (c n L : N),
  NoLie (events sr) -> 1 <= c ->
  Forall (fun b => b < 256) (fst (stream_of sr)) -> nlen (fst (stream_of sr)) < 2 ^ 62 ->
  (length (fst (stream_of sr)) < fuel)%nat ->
  LinesWithin L (fst (stream_of sr)) ->
  LogSpans fuel n maxd iu fuel {| sat := None; assignment := []; started := false; finished := false |} lrs_init
           (set_chunk (reader_init sr) c) ->
  snd (crun_buf (parse_log fuel maxd iu lrs_init) (set_chunk (reader_init sr) c) 0) <= 4 * c + (n + L + 1).
Proof. exact parse_log_buf_init. Qed.
Print Assumptions C10_log_whole_parse_buffer.

