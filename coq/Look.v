(* Look.v — C09 at parser level, part 1: how far the DIMACS-family tokens look ahead.
   The Hoare pass of Hoare.v / CnfSafe.v is redone with one more conjunct in the frame condition:
   [Lk v v'] bounds [vreq v'] (the highest absolute offset (+1) any Peek has ever asked for) by the end of
   the line the new cursor is in.  This file: the definitions ([Lk], [ItemLk], [framer], the strengthened
   postconditions) and the token lemmas.  LookProofs.v: the parsers and the reader-level corollary. *)
From Flussab Require Import Base Reader ListN Writer Parsed Prog Text TextSpec ProgProofs ScanProofs DigitsProofs.
From Flussab Require Import ReaderProofs Simulation Consts Cnf CnfProofs ErrProofs Hoare CnfSafe.
Ltac Zify.zify_post_hook ::= Z.to_euclidean_division_equations.

(* ================================================================== *)
(* 1. the look-ahead conditions                                         *)

(* Whatever the run from v to v' asked for beyond what had been asked for before lies in the line of the
   new cursor: e is (at least) the index of the last byte asked for; no LF between the cursor and e
   (so e is at most the line break itself, or the end of the input: the request that discovers it). *)
Definition Lk (v v' : view) : Prop :=
  exists e, vreq v' <= N.max (vreq v) (e + 1) /\ nolf (vS v) (vcur v') e /\ e <= nlen (vS v).

(* after an item: the cursor is just behind a line break and nothing beyond the cursor has been asked for;
   or the cursor is at the end of the input and the one request beyond it is the one that discovered the end *)
Definition ItemLk (v v' : view) : Prop :=
  (vcur v < vcur v' /\ nnth (vS v) (vcur v' - 1) = Some 10 /\ vreq v' <= N.max (vreq v) (vcur v')) \/
  (vcur v' = nlen (vS v) /\ vreq v' <= N.max (vreq v) (nlen (vS v) + 1)).

Lemma Lk_of v v' m :
  vreq v' <= N.max (vreq v) m -> nolf (vS v) (vcur v') (m - 1) -> m <= nlen (vS v) + 1 -> Lk v v'.
Proof. intros H1 H2 H3. exists (m - 1). split; [lia|]. split; [exact H2|lia]. Qed.

Lemma Lk_noreq v v' : vreq v' <= vreq v -> Lk v v'.
Proof. intros H. exists 0. split; [lia|]. split; [apply nolf_empty; lia|lia]. Qed.

Lemma Lk_refl v : Lk v v.
Proof. apply Lk_noreq. lia. Qed.

Lemma Lk_trans v1 v2 v3 : vS v2 = vS v1 -> vcur v2 <= vcur v3 -> Lk v1 v2 -> Lk v2 v3 -> Lk v1 v3.
Proof.
  intros HS Hc (e1 & a1 & a2 & a3) (e2 & b1 & b2 & b3). rewrite HS in b2, b3.
  exists (N.max e1 e2). split; [lia|]. split; [|lia].
  intros i Hi1 Hi2. destruct (N.lt_ge_cases i e1) as [Hlt|Hge]; [apply a2; lia|apply b2; lia].
Qed.

(* what was asked for before the item's last line break was consumed lies before the new cursor *)
Lemma Lk_ItemLk v0 v v' : vS v = vS v0 -> vcur v0 <= vcur v -> Lk v0 v -> ItemLk v v' -> ItemLk v0 v'.
Proof.
  intros HS Hc (e & a1 & a2 & a3) [(b1 & b2 & b3)|(b1 & b2)]; rewrite HS in *.
  - left. split; [lia|]. split; [exact b2|].
    destruct (N.lt_ge_cases (vcur v' - 1) e) as [Hlt|Hge]; [|lia].
    exfalso. apply (a2 (vcur v' - 1)); [lia|exact Hlt|exact b2].
  - right. split; [exact b1|lia].
Qed.

Lemma ItemLk_trans_r v v1 v' : vS v1 = vS v -> vcur v <= vcur v1 -> vreq v1 <= vreq v -> ItemLk v1 v' -> ItemLk v v'.
Proof. intros HS Hc Hr HI. eapply Lk_ItemLk; [exact HS|exact Hc|apply Lk_noreq; exact Hr|exact HI]. Qed.

(* frame with the look-ahead condition *)
Definition framer (v v' : view) : Prop := vS v' = vS v /\ vfail v' = vfail v /\ vcur v <= vcur v' /\ Lk v v'.

Lemma framer_frame v v' : framer v v' -> frame v v'.
Proof. intros (a1 & a2 & a3 & _). unfold frame. split; [exact a1|]. split; [exact a2|exact a3]. Qed.

Lemma framer_Lk v v' : framer v v' -> Lk v v'.
Proof. intros (_ & _ & _ & a4). exact a4. Qed.

Lemma framer_of v v' : frame v v' -> Lk v v' -> framer v v'.
Proof. intros (a1 & a2 & a3) H. unfold framer. split; [exact a1|]. split; [exact a2|]. split; [exact a3|exact H]. Qed.

Lemma framer_refl v : framer v v.
Proof. apply framer_of; [apply frame_refl|apply Lk_refl]. Qed.

Lemma framer_trans v1 v2 v3 : framer v1 v2 -> framer v2 v3 -> framer v1 v3.
Proof.
  intros H1 H2. apply framer_of; [eapply frame_trans; apply framer_frame; eassumption|].
  destruct H1 as (a1 & a2 & a3 & a4). destruct H2 as (b1 & b2 & b3 & b4).
  eapply Lk_trans; [exact a1|exact b3|exact a4|exact b4].
Qed.

Lemma framer_setmark v : framer v (v_setmark v).
Proof. apply framer_of; [apply frame_setmark|apply Lk_noreq; cbn [v_setmark vreq]; lia]. Qed.

Lemma framer_ItemLk v0 v v' : framer v0 v -> ItemLk v v' -> ItemLk v0 v'.
Proof. intros (a1 & a2 & a3 & a4) H. eapply Lk_ItemLk; eassumption. Qed.

Lemma peeked_req v v' m : peeked_to v v' m -> vreq v' = N.max (vreq v) m.
Proof. intros (_ & _ & _ & _ & _ & a6 & _). exact a6. Qed.

(* ================================================================== *)
(* 2. how far the decimal scanners ask (every admissible run, fast path or not)                            *)

Lemma aruns_tryload_inv {A} off (c : option N -> prog A) v r :
  aruns (TryLoad8 off c) v r -> exists o, tryload_ok v off o /\ aruns (c o) (v_loaded v off o) r.
Proof. intros H. inversion H; subst. eexists. split; eassumption. Qed.

Lemma digits_loop_req fuel t neg value overflow off v r :
  (length (vS v) < fuel)%nat -> aruns (digits_loop fuel t neg value overflow off) v r ->
  exists a v', r = ADone (a, off + nlen (digit_prefix (rest_at v off))) v' /\
               vreq v' = N.max (vreq v) (vcur v + off + nlen (digit_prefix (rest_at v off)) + 1).
Proof.
  intros Hf Hr. rewrite (det_aruns _ _ _ Hr (det_digits_loop _ _ _ _ _ _)).
  destruct (digits_loop_spec fuel t neg value overflow off v) as (v' & Hrun & Hpk); [pose proof (rest_len' v off); lia|].
  eexists _, v'. split; [exact Hrun|apply (peeked_req _ _ _ Hpk)].
Qed.

(* ascii_digits_multi: nothing is asked for beyond the byte behind the digits (the returned offset) *)
Lemma multi_req fuel t off v val o v' :
  (length (vS v) < fuel)%nat -> aruns (ascii_digits_multi fuel t off) v (ADone (val, o) v') ->
  vreq v' <= N.max (vreq v) (vcur v + o + 1).
Proof.
  intros Hf Hr. unfold ascii_digits_multi in Hr. apply aruns_tryload_inv in Hr. destruct Hr as (ow & _ & Hr).
  set (vl := v_loaded v off ow) in *.
  assert (Hvl : vS vl = vS v /\ vcur vl = vcur v /\ vreq vl = vreq v) by (split; [reflexivity|split; reflexivity]).
  destruct Hvl as (e1 & e2 & e3).
  assert (Hloop : forall neg value overflow off1,
            aruns (digits_loop fuel t neg value overflow off1) vl (ADone (val, o) v') -> vreq v' <= N.max (vreq v) (vcur v + o + 1)).
  { intros neg value overflow off1 H. assert (Hfl : (length (vS vl) < fuel)%nat) by (rewrite e1; exact Hf).
    destruct (digits_loop_req fuel t neg value overflow off1 vl _ Hfl H) as (a & v1 & E & Hq).
    inversion E; subst. rewrite Hq, e2, e3. lia. }
  destruct ow as [w|].
  - destruct (swar w) as [value md]. destruct (md =? 8).
    + unfold ascii_digits_cont in Hr. eapply Hloop. exact Hr.
    + apply aruns_ret_inv in Hr. inversion Hr; subst. rewrite e3. lia.
  - unfold ascii_digits in Hr. eapply Hloop. exact Hr.
Qed.

Lemma signed_look_ge t l : snd (signed_spec t l) + 1 <= signed_look l.
Proof.
  destruct l as [|b r]; cbn [signed_spec signed_look unsigned_spec snd digit_prefix]; [change (nlen (@nil byte)) with 0; lia|].
  destruct (b =? 45).
  - destruct (digit_prefix r) as [|d ds]; cbn [snd]; lia.
  - unfold unsigned_spec. cbn [snd digit_prefix]. lia.
Qed.

Lemma smulti_req fuel t off v val o v' :
  ity_signed t = true -> WFV v -> BytesOK v -> (length (vS v) < fuel)%nat ->
  aruns (signed_ascii_digits_multi fuel t off) v (ADone (val, o) v') ->
  vreq v' <= N.max (vreq v) (vcur v + off + signed_look (rest_at v off)).
Proof.
  intros Hs Hw Hb Hf Hr0.
  assert (Hf0 : (length (digit_prefix (rest_at v off)) < fuel)%nat) by (pose proof (rest_len' v off); lia).
  assert (Hf1 : (length (digit_prefix (rest_at v (off + 1))) < fuel)%nat) by (pose proof (rest_len' v (off + 1)); lia).
  destruct (signed_ascii_digits_multi_spec fuel t off v _ Hs Hw Hb Hf0 Hf1 Hr0) as (v1 & E & _).
  inversion E; subst. pose proof (signed_look_ge t (rest_at v off)) as Hge.
  set (o := off + snd (signed_spec t (rest_at v off))) in *.
  pose proof Hr0 as Hr. unfold signed_ascii_digits_multi in Hr. apply aruns_tryload_inv in Hr. destruct Hr as (ow & _ & Hr).
  set (vl := v_loaded v off ow) in *.
  assert (Hvl : vS vl = vS v /\ vcur vl = vcur v /\ vreq vl = vreq v) by (split; [reflexivity|split; reflexivity]).
  destruct Hvl as (e1 & e2 & e3).
  assert (Hloop : forall neg value overflow off1 a,
            aruns (digits_loop fuel t neg value overflow off1) vl (ADone (a, o) v1) -> vreq v1 <= N.max (vreq v) (vcur v + o + 1)).
  { intros neg value overflow off1 a H. assert (Hfl : (length (vS vl) < fuel)%nat) by (rewrite e1; exact Hf).
    destruct (digits_loop_req fuel t neg value overflow off1 vl _ Hfl H) as (a' & v2 & E2 & Hq).
    inversion E2; subst. rewrite Hq, e2, e3. lia. }
  destruct ow as [w|].
  - destruct (N.land w 255 =? 45).
    + destruct (swar (N.shiftr w 8)) as [value md]. destruct (md =? 7).
      * unfold ascii_digits_cont in Hr. pose proof (Hloop _ _ _ _ _ Hr). lia.
      * apply aruns_ret_inv in Hr. inversion Hr; subst. rewrite e3. lia.
    + destruct (swar w) as [value md]. destruct (md =? 8).
      * unfold ascii_digits_cont in Hr. pose proof (Hloop _ _ _ _ _ Hr). lia.
      * apply aruns_ret_inv in Hr. inversion Hr; subst. rewrite e3. lia.
  - (* cold path: the simple signed scanner *)
    assert (Hdet : det (signed_ascii_digits fuel t off)).
    { unfold signed_ascii_digits. cbn [det]. intros ob.
      destruct (match ob with Some b => b =? 45 | None => false end); [|apply det_digits_loop].
      cbn [det]. intros [d|]; [|exact I]. destruct (is_dig d); [|exact I].
      destruct (in_range t (0 - Z.of_N (d - 48))); [apply det_digits_loop|exact I]. }
    pose proof (det_aruns _ _ _ Hr Hdet) as Hsr.
    destruct (signed_ascii_digits_spec fuel t off vl Hs) as (v2 & H1 & H2);
      [pose proof (rest_len' vl off); rewrite e1 in *; lia|pose proof (rest_len' vl (off + 1)); rewrite e1 in *; lia|].
    rewrite H1 in Hsr. inversion Hsr; subst. rewrite (peeked_req _ _ _ H2).
    change (rest_at vl off) with (rest_at v off). change (vcur vl) with (vcur v). change (vreq vl) with (vreq v). lia.
Qed.

(* ================================================================== *)
(* 3. facts about the scanners' specification functions                 *)

Lemma common_prefix_split pat : forall l, ~ In 10 pat ->
  exists p r, l = p ++ r /\ nlen p = common_prefix pat l /\ Forall (fun x => x <> 10) p.
Proof.
  induction pat as [|q qs IH]; intros l H10.
  - exists [], l. split; [reflexivity|]. split; [destruct l; reflexivity|constructor].
  - destruct l as [|x l]; cbn [common_prefix]; [exists [], []; split; [reflexivity|split; [reflexivity|constructor]]|].
    destruct (x =? q) eqn:E; [|exists [], (x :: l); split; [reflexivity|split; [reflexivity|constructor]]].
    apply N.eqb_eq in E. subst x.
    destruct (IH l) as (p & r & -> & Hl & Hp); [intros Hin; apply H10; right; exact Hin|].
    exists (q :: p), r. split; [reflexivity|]. split; [unfold nlen in *; cbn [length]; lia|].
    constructor; [intros ->; apply H10; left; reflexivity|exact Hp].
Qed.

(* the matched part of a pattern without LF *)
Lemma span_cp (pat : bytes) v off : ~ In 10 pat -> span (vS v) (vcur v + off) (common_prefix pat (rest_at v off)).
Proof.
  intros H10. destruct (common_prefix_split pat (rest_at v off) H10) as (p & r & E & Hl & Hp).
  exists p, r. split; [exact E|]. split; assumption.
Qed.

Lemma before_le_to l : before_newline l <= to_next_newline l.
Proof. induction l as [|x l IH]; cbn [before_newline to_next_newline]; [lia|]. destruct (x =? 10); lia. Qed.

(* newline looks at a second byte only behind a CR *)
Lemma newline_look_span v : span (vS v) (vcur v) (newline_look (rest_at v 0) - 1).
Proof.
  destruct (rest_at v 0) as [|x r] eqn:E; cbn [newline_look]; [apply span_zero|].
  destruct (x =? 10); [apply span_zero|]. destruct (x =? 13) eqn:E13; [|apply span_zero].
  apply N.eqb_eq in E13. subst x. unfold rest_at in E. destruct (nskipn_cons_nnth _ _ _ _ E) as [Hn _].
  apply (span_one _ _ 13); [replace (vcur v) with (vcur v + 0) by lia; exact Hn|lia].
Qed.

Lemma newline_look_le l : newline_len l <= newline_look l /\ 1 <= newline_look l /\ newline_look l <= 2.
Proof.
  destruct l as [|x r]; cbn [newline_len newline_look]; [lia|].
  destruct (x =? 10); [lia|]. destruct (x =? 13); [|lia]. destruct r as [|y r]; [lia|]. destruct (y =? 10); lia.
Qed.

(* the '-' and the digits the signed scanner looks at before the byte that ends its scan *)
Lemma span_signed_look v off : span (vS v) (vcur v + off) (signed_look (rest_at v off) - 1).
Proof.
  destruct (rest_at v off) as [|b r] eqn:E; cbn [signed_look]; [apply span_zero|].
  destruct (b =? 45) eqn:Eb.
  - apply N.eqb_eq in Eb. subst b.
    assert (H45 : span (vS v) (vcur v + off) 1).
    { unfold rest_at in E. destruct (nskipn_cons_nnth _ _ _ _ E) as [Hn _]. apply (span_one _ _ 45); [exact Hn|lia]. }
    assert (Er : rest_at v (off + 1) = r) by (eapply rest_at_succ; exact E).
    pose proof (span_digits v (off + 1)) as Hd. rewrite Er in Hd.
    destruct (digit_prefix r) as [|d ds] eqn:Ed; [exact H45|].
    eapply span_eq; [eapply span_app'; [exact H45|exact Hd|lia]|reflexivity|lia].
  - pose proof (span_digits v off) as Hd. rewrite E in Hd. eapply span_eq; [exact Hd|reflexivity|lia].
Qed.

Lemma prt_and {A} (m : PM A) lr v (Q1 Q2 : A -> lrs -> view -> Prop) :
  prt m lr v Q1 -> prt m lr v Q2 -> prt m lr v (fun a lr' v' => Q1 a lr' v' /\ Q2 a lr' v').
Proof.
  intros H1 H2 r Hr. destruct (H1 r Hr) as (x & v' & E & q1). destruct (H2 r Hr) as (x2 & v2 & E2 & q2).
  rewrite E in E2. inversion E2. subst x2 v2. exists x, v'. split; [exact E|]. split; assumption.
Qed.

(* ================================================================== *)
(* 4. the strengthened postconditions and the tokens                    *)

Section LookTok.
Variable fuel : nat.

Local Notation K := (K fuel).
Local Notation VOK := (VOK fuel).
Local Notation Gk := (Gk fuel).
Local Notation Gs := (Gs fuel).
Local Notation K_consume := (K_consume fuel).
Local Notation fuel_of := (fuel_of fuel).
Local Notation wf_of := (wf_of fuel).
Local Notation K_line_skip := (K_line_skip fuel).
Local Notation K_nl := (K_nl fuel).

Definition TokPostR {A} (G : A -> lrs -> view -> Prop) (v : view) (a : parsed A perr) (lr' : lrs) (v' : view) : Prop :=
  framer v v' /\
  match a with
  | Res (Ok x) => G x lr' v'
  | Res (Err e) => ErrPost e v'
  | Fallthrough => K lr' v'
  end.

Definition ResPostR {A} (G : A -> lrs -> view -> Prop) (v : view) (a : result A perr) (lr' : lrs) (v' : view) : Prop :=
  framer v v' /\
  match a with
  | Ok x => G x lr' v'
  | Err e => ErrPost e v'
  end.

(* success of a token that completes an item: invariant, progress, and the look-ahead bound of an item *)
Definition GsI {A} (v : view) : A -> lrs -> view -> Prop :=
  fun _ lr' v' => K lr' v' /\ vcur v < vcur v' /\ ItemLk v v'.

(* nothing consumed: the look-ahead stays in the line if what was looked at is an LF-free stretch plus one byte *)
Lemma ft_framer lr v v2 n :
  K lr v -> quiet v v2 -> span (vS v) (vcur v) n -> vreq v2 <= N.max (vreq v) (vcur v + n + 1) -> framer v v2.
Proof.
  intros HK Hq Hsp Hr. apply framer_of; [apply quiet_frame; exact Hq|].
  pose proof (span_le _ _ _ Hsp (VOK_cur_le _ _ (K_VOK _ _ _ HK))) as Hle.
  destruct Hq as (_ & _ & a3 & _).
  apply (Lk_of v v2 (vcur v + n + 1)); [exact Hr| |lia].
  rewrite a3. replace (vcur v + n + 1 - 1) with (vcur v + n) by lia. apply span_nolf. exact Hsp.
Qed.

(* whatever was asked for lies before the new cursor, or is the one byte at it *)
Lemma Lk_upto v v' : vreq v' <= N.max (vreq v) (vcur v' + 1) -> vcur v' <= nlen (vS v) -> Lk v v'.
Proof. intros H1 H2. apply (Lk_of v v' (vcur v' + 1)); [exact H1|apply nolf_empty; lia|lia]. Qed.

(* consuming an LF-free span after the peeks that established it, the last of them at most one byte beyond it *)
Lemma consume_framer lr v v1 v2 m n :
  K lr v -> quiet v v1 -> peeked_to v1 v2 m -> span (vS v) (vcur v) n ->
  vreq v1 <= N.max (vreq v) (vcur v + n + 1) -> m <= vcur v + n + 1 -> framer v (v_advance v2 n).
Proof.
  intros HK Hq1 Hpk Hsp Hr1 Hm.
  pose proof (K_quiet _ _ _ _ HK Hq1) as HK1.
  pose proof (peeked_quiet _ _ _ (wf_of _ _ HK1) Hpk) as Hq2.
  pose proof (quiet_trans _ _ _ Hq1 Hq2) as Hq. pose proof Hq as (a1 & a2 & a3 & _).
  pose proof (span_le _ _ _ Hsp (VOK_cur_le _ _ (K_VOK _ _ _ HK))) as Hle.
  pose proof (peeked_req _ _ _ Hpk) as Hr2.
  unfold framer. cbn [v_advance vS vfail vcur].
  split; [exact a1|]. split; [exact a2|]. split; [lia|].
  apply Lk_upto; cbn [v_advance vreq vcur]; lia.
Qed.

(* ---------- skip_whitespace ---------- *)
Lemma skip_whitespace_okr lr v : K lr v ->
  prt (skip_whitespace fuel) lr v (fun _ lr' v' => lr' = lr /\ K lr v' /\ framer v v').
Proof.
  intros HK. unfold skip_whitespace. apply prt_pbnd, prt_tabs; [eapply fuel_of; exact HK|]. intros v1 Hpk.
  pose proof (quiet_refl v (wf_of _ _ HK)) as Hq0.
  assert (Hsp : span (vS v) (vcur v) (0 + nlen (blank_prefix (rest_at v 0)))) by (eapply span_eq; [apply (span_blank v 0)|lia|lia]).
  destruct (K_consume lr v v v1 _ (0 + nlen (blank_prefix (rest_at v 0))) HK Hq0 Hpk) as (h1 & h2 & _); [lia|exact Hsp|].
  apply prt_padvance; [exact h1|]. split; [reflexivity|]. split; [exact h2|].
  eapply consume_framer; [exact HK|exact Hq0|exact Hpk|exact Hsp|lia|lia].
Qed.

(* ---------- token::word ---------- *)
Lemma word_okr (pat : bytes) lr v : pat <> [] -> ~ In 10 pat -> K lr v -> prt (word fuel pat) lr v (TokPostR (Gs v) v).
Proof.
  intros Hne H10 HK. pose proof (wf_of _ _ HK) as Hw.
  unfold word, tok_ft, tok_ok. apply prt_pbnd, prt_fixed; [exact Hne|]. intros v1 Hpk1.
  pose proof (peeked_quiet _ _ _ Hw Hpk1) as Hq1.
  pose proof (K_quiet _ _ _ _ HK Hq1) as HK1.
  pose proof (peeked_req _ _ _ Hpk1) as Hr1.
  pose proof (span_cp pat v 0 H10) as Hcp. rewrite N.add_0_r in Hcp.
  pose proof (common_prefix_le pat (rest_at v 0)) as Hcl.
  pose proof Hq1 as (_ & _ & c3 & _).
  destruct (common_prefix pat (rest_at v 0) =? nlen pat) eqn:Ec.
  - apply N.eqb_eq in Ec. pose proof (nlen_pos pat Hne) as Hpl.
    cbv iota. assert ((0 + nlen pat =? 0) = false) as -> by (apply N.eqb_neq; lia).
    apply prt_pbnd, prt_ppeek.
    pose proof (peeked_after_peek v1 (0 + nlen pat)) as Hpk2.
    pose proof (peeked_quiet _ _ _ (wf_of _ _ HK1) Hpk2) as Hq2.
    pose proof (quiet_trans _ _ _ Hq1 Hq2) as Hq12.
    pose proof (K_quiet _ _ _ _ HK Hq12) as HK2.
    pose proof (peeked_req _ _ _ Hpk2) as Hr2.
    assert (Hsp0 : span (vS v) (vcur v) (nlen pat)) by (rewrite <- Ec; exact Hcp).
    destruct (is_eow_byte (vpeek v1 (0 + nlen pat))).
    + apply prt_pbnd, prt_tabs; [eapply fuel_of; exact HK2|]. intros v3 Hpk3.
      rewrite (rest_at_quiet _ _ _ Hq12) in *.
      assert (Hsp : span (vS v) (vcur v) (0 + nlen pat + nlen (blank_prefix (rest_at v (0 + nlen pat))))).
      { eapply span_eq; [eapply span_app'; [exact Hsp0|apply (span_blank v (0 + nlen pat))|lia]|lia|lia]. }
      destruct (K_consume lr v _ v3 _ (0 + nlen pat + nlen (blank_prefix (rest_at v (0 + nlen pat)))) HK Hq12 Hpk3)
        as (h1 & h2 & h3 & _ & h5).
      * destruct Hq12 as (_ & _ & a3 & _). rewrite a3. lia.
      * exact Hsp.
      * apply prt_pbnd, prt_padvance; [exact h1|]. apply prt_pret.
        split; [|split; [exact h2|lia]].
        eapply consume_framer; [exact HK|exact Hq12|exact Hpk3|exact Hsp|lia|].
        destruct Hq12 as (_ & _ & a3 & _). rewrite a3. lia.
    + apply prt_pret. split; [|exact HK2].
      eapply (ft_framer lr v _ (nlen pat)); [exact HK|exact Hq12|exact Hsp0|lia].
  - change (0 =? 0) with true. cbv iota. apply prt_pret. split; [|exact HK1].
    eapply (ft_framer lr v _ _); [exact HK|exact Hq1|exact Hcp|lia].
Qed.

(* ---------- the decimal scanners, with how far they ask ---------- *)
Lemma prt_digitsr t off lr v (Q : option Z * N -> lrs -> view -> Prop) :
  VOK v ->
  (forall v1, quiet v v1 -> vreq v1 <= N.max (vreq v) (vcur v + off + nlen (digit_prefix (rest_at v off)) + 1) ->
              Q (fst (unsigned_spec t (rest_at v off)), off + snd (unsigned_spec t (rest_at v off))) lr v1) ->
  prt (lift (ascii_digits_multi fuel t off)) lr v Q.
Proof.
  intros Hv H. apply prt_lift. intros r Hr.
  pose proof Hv as (Hw & (Hb & Hf & _) & _).
  destruct (ascii_digits_multi_spec fuel t off v r Hw Hb) as (v1 & -> & Hc); [pose proof (rest_len' v off); lia|exact Hr|].
  destruct (aruns_wf _ _ _ Hr Hw _ _ eq_refl) as [Hw1 _].
  destruct (aruns_mono _ _ _ Hr Hw _ _ eq_refl) as (Hh & _).
  pose proof (multi_req fuel t off v _ _ v1 Hf Hr) as Hq.
  eexists _, v1. split; [reflexivity|]. apply H; [eapply core_after_quiet; eassumption|].
  unfold unsigned_spec in Hq. cbn [snd] in Hq. lia.
Qed.

Lemma prt_sdigitsr t off lr v (Q : option Z * N -> lrs -> view -> Prop) :
  ity_signed t = true -> VOK v ->
  (forall v1, quiet v v1 -> vreq v1 <= N.max (vreq v) (vcur v + off + signed_look (rest_at v off)) ->
              Q (fst (signed_spec t (rest_at v off)), off + snd (signed_spec t (rest_at v off))) lr v1) ->
  prt (lift (signed_ascii_digits_multi fuel t off)) lr v Q.
Proof.
  intros Hs Hv H. apply prt_lift. intros r Hr.
  pose proof Hv as (Hw & (Hb & Hf & _) & _).
  destruct (signed_ascii_digits_multi_spec fuel t off v r Hs Hw Hb) as (v1 & -> & Hc);
    [pose proof (rest_len' v off); lia|pose proof (rest_len' v (off + 1)); lia|exact Hr|].
  destruct (aruns_wf _ _ _ Hr Hw _ _ eq_refl) as [Hw1 _].
  destruct (aruns_mono _ _ _ Hr Hw _ _ eq_refl) as (Hh & _).
  pose proof (smulti_req fuel t off v _ _ v1 Hs Hw Hb Hf Hr) as Hq.
  eexists _, v1. split; [reflexivity|]. apply H; [eapply core_after_quiet; eassumption|exact Hq].
Qed.

(* ---------- token::uint / token::int / token::braced_uint ---------- *)
Definition NumPostR (lr : lrs) (v : view) (a : parsed Z unit) (lr' : lrs) (v' : view) : Prop :=
  lr' = lr /\ K lr v' /\ framer v v' /\ vmark v' = vmark v /\
  match a with Res (Ok _) => vcur v < vcur v' | _ => vcur v' = vcur v end.

Lemma NumPostR_quiet lr v v2 (a : parsed Z unit) n :
  K lr v -> quiet v v2 -> span (vS v) (vcur v) n -> vreq v2 <= N.max (vreq v) (vcur v + n + 1) ->
  match a with Res (Ok _) => False | _ => True end -> NumPostR lr v a lr v2.
Proof.
  intros HK Hq Hsp Hr Ha. split; [reflexivity|]. split; [eapply K_quiet; eassumption|].
  split; [eapply ft_framer; eassumption|].
  destruct Hq as (_ & _ & a3 & a4 & _). split; [exact a4|]. destruct a as [[z|e]|]; [contradiction|exact a3|exact a3].
Qed.

Definition NumPostVR (P : Z -> Prop) (lr : lrs) (v : view) (a : parsed Z unit) (lr' : lrs) (v' : view) : Prop :=
  NumPostR lr v a lr' v' /\ forall z, a = Res (Ok z) -> P z.

Lemma NumPostVR_quiet P lr v v2 (a : parsed Z unit) n :
  K lr v -> quiet v v2 -> span (vS v) (vcur v) n -> vreq v2 <= N.max (vreq v) (vcur v + n + 1) ->
  match a with Res (Ok _) => False | _ => True end -> NumPostVR P lr v a lr v2.
Proof.
  intros HK Hq Hsp Hr Ha. split; [eapply NumPostR_quiet; eassumption|]. intros z E. subst a. contradiction.
Qed.

(* L: how many bytes the scanner looked at before the byte that ended its scan *)
Lemma number_tailr lr v v1 (value : option Z) offset L :
  K lr v -> quiet v v1 -> span (vS v) (vcur v) offset -> span (vS v) (vcur v) L ->
  vreq v1 <= N.max (vreq v) (vcur v + L + 1) -> (offset = 0 \/ L = offset) ->
  prt (if offset =? 0 then pret Fallthrough else
       let* o := ppeek offset in
       if is_eow_byte o then
         match value with
         | Some z => let* offset2 := lift (tabs_or_spaces fuel offset) in padvance offset2 ;;;; pret (Res (Ok z))
         | None => pret (Res (Err tt))
         end
       else pret Fallthrough) lr v1 (NumPostVR (fun z => value = Some z) lr v).
Proof.
  intros HK Hq1 Hsp HspL Hr1 HL. pose proof (K_quiet _ _ _ _ HK Hq1) as HK1.
  destruct (offset =? 0) eqn:E0.
  - apply prt_pret. eapply NumPostVR_quiet; [exact HK|exact Hq1|exact HspL|exact Hr1|exact I].
  - apply N.eqb_neq in E0. destruct HL as [HL|HL]; [contradiction|]. subst L.
    apply prt_pbnd, prt_ppeek.
    pose proof (peeked_after_peek v1 offset) as Hpk2.
    pose proof (peeked_quiet _ _ _ (wf_of _ _ HK1) Hpk2) as Hq2.
    pose proof (quiet_trans _ _ _ Hq1 Hq2) as Hq12.
    pose proof (K_quiet _ _ _ _ HK Hq12) as HK2.
    pose proof (peeked_req _ _ _ Hpk2) as Hr2.
    pose proof Hq1 as (_ & _ & c3 & _).
    assert (Hr12 : vreq (after_peek v1 offset) <= N.max (vreq v) (vcur v + offset + 1)) by lia.
    destruct (is_eow_byte (vpeek v1 offset)).
    + destruct value as [z|].
      * apply prt_pbnd, prt_tabs; [eapply fuel_of; exact HK2|]. intros v3 Hpk3.
        rewrite (rest_at_quiet _ _ _ Hq12) in *.
        assert (Hsp3 : span (vS v) (vcur v) (offset + nlen (blank_prefix (rest_at v offset)))).
        { eapply span_app'; [exact Hsp|apply (span_blank v offset)|reflexivity]. }
        destruct (K_consume lr v _ v3 _ (offset + nlen (blank_prefix (rest_at v offset))) HK Hq12 Hpk3)
          as (h1 & h2 & h3 & h4 & h5).
        -- destruct Hq12 as (_ & _ & a3 & _). rewrite a3. lia.
        -- exact Hsp3.
        -- apply prt_pbnd, prt_padvance; [exact h1|]. apply prt_pret.
           split; [|intros z' E; inversion E; reflexivity].
           split; [reflexivity|]. split; [exact h2|]. split; [|split; [exact h4|lia]].
           eapply consume_framer; [exact HK|exact Hq12|exact Hpk3|exact Hsp3|lia|].
           destruct Hq12 as (_ & _ & a3 & _). rewrite a3. lia.
      * apply prt_pret. eapply NumPostVR_quiet; [exact HK|exact Hq12|exact Hsp|exact Hr12|exact I].
    + apply prt_pret. eapply NumPostVR_quiet; [exact HK|exact Hq12|exact Hsp|exact Hr12|exact I].
Qed.

Lemma signed_look_snd t l : snd (signed_spec t l) = 0 \/ signed_look l - 1 = snd (signed_spec t l).
Proof.
  destruct l as [|b r]; cbn [signed_spec signed_look unsigned_spec snd digit_prefix]; [left; reflexivity|].
  destruct (b =? 45).
  - destruct (digit_prefix r) as [|d ds]; cbn [snd]; [left; reflexivity|right; lia].
  - unfold unsigned_spec. cbn [snd digit_prefix]. right. lia.
Qed.

Lemma number_valr sg t lr v : (sg = true -> ity_signed t = true) -> K lr v ->
  prt (number fuel sg t) lr v (NumPostVR (fun z => in_range t z = true /\ z = num_value sg (rest_at v 0)) lr v).
Proof.
  intros Hs HK. unfold number. apply prt_pbnd. destruct sg.
  - apply prt_sdigitsr; [auto|exact (K_VOK _ _ _ HK)|]. intros v1 Hq1 Hr1. cbv beta iota.
    pose proof (signed_look_ge t (rest_at v 0)) as Hge.
    eapply prt_conseq; [apply (number_tailr lr v v1 _ _ (signed_look (rest_at v 0) - 1)); [exact HK|exact Hq1| | | |]|].
    + eapply span_eq; [apply (span_signed t v 0)|lia|lia].
    + eapply span_eq; [apply (span_signed_look v 0)|lia|lia].
    + lia.
    + destruct (signed_look_snd t (rest_at v 0)) as [H0|H1]; [left; lia|right; lia].
    + intros a lr' v' [Hn Hv]. split; [exact Hn|]. intros z E. apply signed_spec_value. exact (Hv z E).
  - apply prt_digitsr; [exact (K_VOK _ _ _ HK)|]. intros v1 Hq1 Hr1. cbv beta iota.
    eapply prt_conseq; [apply (number_tailr lr v v1 _ _ (0 + snd (unsigned_spec t (rest_at v 0)))); [exact HK|exact Hq1| | | |]|].
    + eapply span_eq; [apply (span_unsigned t v 0)|lia|lia].
    + eapply span_eq; [apply (span_unsigned t v 0)|lia|lia].
    + unfold unsigned_spec. cbn [snd]. lia.
    + right. reflexivity.
    + intros a lr' v' [Hn Hv]. split; [exact Hn|]. intros z E. apply unsigned_spec_value. exact (Hv z E).
Qed.

Lemma number_okr sg t lr v : (sg = true -> ity_signed t = true) -> K lr v -> prt (number fuel sg t) lr v (NumPostR lr v).
Proof. intros Hs HK. eapply prt_conseq; [apply number_valr; assumption|]. intros a lr' v' [H _]. exact H. Qed.

Lemma braced_uint_valr t lr v : K lr v ->
  prt (braced_uint fuel t) lr v
      (NumPostVR (fun z => in_range t z = true /\ z = Z.of_N (dec_val (digit_prefix (rest_at v 1)))) lr v).
Proof.
  intros HK. unfold braced_uint. apply prt_pbnd, prt_ppeek.
  pose proof (peeked_after_peek v 0) as Hpk0.
  pose proof (peeked_quiet _ _ _ (wf_of _ _ HK) Hpk0) as Hq0.
  pose proof (K_quiet _ _ _ _ HK Hq0) as HK0.
  pose proof (peeked_req _ _ _ Hpk0) as Hr0.
  destruct (vpeek v 0) as [b|] eqn:Ep; [destruct (b =? 123) eqn:Eb|];
    [|apply prt_pret; apply (NumPostVR_quiet _ lr v _ _ 0); [exact HK|exact Hq0|apply span_zero|lia|exact I]..].
  apply N.eqb_eq in Eb. subst b.
  assert (Hsp1 : span (vS v) (vcur v) 1).
  { unfold vpeek in Ep. apply (span_one (vS v) (vcur v) 123); [rewrite <- Ep; f_equal; lia|lia]. }
  apply prt_pbnd, prt_digitsr; [exact (K_VOK _ _ _ HK0)|]. intros v1 Hq1 Hr1. cbv beta iota.
  rewrite (rest_at_quiet _ _ _ Hq0) in *.
  pose proof (quiet_trans _ _ _ Hq0 Hq1) as Hq01.
  pose proof (K_quiet _ _ _ _ HK Hq01) as HK1.
  change (vcur (after_peek v 0)) with (vcur v) in Hr1.
  set (n := snd (unsigned_spec t (rest_at v 1))) in *.
  assert (En : nlen (digit_prefix (rest_at v 1)) = n) by reflexivity. rewrite En in Hr1.
  assert (Hsp2 : span (vS v) (vcur v) (1 + n)).
  { eapply span_app'; [exact Hsp1|apply (span_unsigned t v 1)|reflexivity]. }
  destruct (1 + n =? 1) eqn:E1;
    [apply prt_pret; apply (NumPostVR_quiet _ lr v _ _ (1 + n)); [exact HK|exact Hq01|exact Hsp2|lia|exact I]|].
  apply prt_pbnd, prt_ppeek.
  pose proof (peeked_after_peek v1 (1 + n)) as Hpk2.
  pose proof (peeked_quiet _ _ _ (wf_of _ _ HK1) Hpk2) as Hq2.
  pose proof (quiet_trans _ _ _ Hq01 Hq2) as Hq012.
  pose proof (K_quiet _ _ _ _ HK Hq012) as HK2.
  pose proof (peeked_req _ _ _ Hpk2) as Hr2.
  pose proof Hq01 as (_ & _ & c3 & _).
  assert (Hr012 : vreq (after_peek v1 (1 + n)) <= N.max (vreq v) (vcur v + (1 + n) + 1)) by lia.
  rewrite (vpeek_quiet _ _ _ Hq01).
  destruct (vpeek v (1 + n)) as [b2|] eqn:Ep2; [destruct (b2 =? 125) eqn:Eb2|];
    [|apply prt_pret; apply (NumPostVR_quiet _ lr v _ _ (1 + n)); [exact HK|exact Hq012|exact Hsp2|exact Hr012|exact I]..].
  apply N.eqb_eq in Eb2. subst b2.
  destruct (fst (unsigned_spec t (rest_at v 1))) as [z|] eqn:Ev;
    [|apply prt_pret; apply (NumPostVR_quiet _ lr v _ _ (1 + n)); [exact HK|exact Hq012|exact Hsp2|exact Hr012|exact I]].
  apply prt_pbnd, prt_tabs; [eapply fuel_of; exact HK2|]. intros v3 Hpk3.
  rewrite (rest_at_quiet _ _ _ Hq012) in *.
  assert (Hsp3 : span (vS v) (vcur v) (1 + n + 1 + nlen (blank_prefix (rest_at v (1 + n + 1))))).
  { unfold vpeek in Ep2.
    eapply span_app'; [eapply span_app'; [exact Hsp2|..]|..].
    + apply (span_one (vS v) (vcur v + (1 + n)) 125); [exact Ep2|lia].
    + reflexivity.
    + apply (span_blank v (1 + n + 1)).
    + lia. }
  destruct (K_consume lr v _ v3 _ (1 + n + 1 + nlen (blank_prefix (rest_at v (1 + n + 1)))) HK Hq012 Hpk3)
    as (h1 & h2 & h3 & h4 & h5).
  - destruct Hq012 as (_ & _ & a3 & _). rewrite a3. lia.
  - exact Hsp3.
  - apply prt_pbnd, prt_padvance; [exact h1|]. apply prt_pret.
    split; [|intros z' E; inversion E; subst; apply unsigned_spec_value; exact Ev].
    split; [reflexivity|]. split; [exact h2|]. split; [|split; [exact h4|lia]].
    eapply consume_framer; [exact HK|exact Hq012|exact Hpk3|exact Hsp3|lia|].
    destruct Hq012 as (_ & _ & a3 & _). rewrite a3. lia.
Qed.

Lemma braced_uint_okr t lr v : K lr v -> prt (braced_uint fuel t) lr v (NumPostR lr v).
Proof. intros HK. eapply prt_conseq; [apply braced_uint_valr; assumption|]. intros a lr' v' [H _]. exact H. Qed.

(* ---------- tokens that end a line ---------- *)
Lemma comment_okr lr v : K lr v -> prt (comment fuel) lr v (TokPostR (Gs v) v).
Proof.
  intros HK. unfold comment, tok_ft, tok_ok. apply prt_pbnd, prt_ppeek.
  pose proof (peeked_after_peek v 0) as Hpk0.
  pose proof (peeked_quiet _ _ _ (wf_of _ _ HK) Hpk0) as Hq0.
  pose proof (K_quiet _ _ _ _ HK Hq0) as HK0.
  pose proof (peeked_req _ _ _ Hpk0) as Hr0.
  destruct (vpeek v 0) as [b|] eqn:Ep; [destruct (b =? 99) eqn:Eb|];
    [|apply prt_pret; (split; [|exact HK0]); apply (ft_framer lr v _ 0); [exact HK|exact Hq0|apply span_zero|lia]..].
  apply N.eqb_eq in Eb. subst b.
  assert (Hc : nnth (vS v) (vcur v) = Some 99) by (unfold vpeek in Ep; replace (vcur v) with (vcur v + 0) by lia; exact Ep).
  assert (Hsp1 : span (vS v) (vcur v) 1) by (eapply span_one; [exact Hc|lia]).
  apply prt_pbnd, prt_next_newline; [eapply fuel_of; exact HK0|]. intros v1 Hpk1.
  pose proof (peeked_req _ _ _ Hpk1) as Hr1. change (vcur (after_peek v 0)) with (vcur v) in Hr1.
  rewrite (rest_at_quiet _ _ _ Hq0) in *.
  pose proof (peeked_quiet _ _ _ (wf_of _ _ HK0) Hpk1) as Hq1.
  pose proof (quiet_trans _ _ _ Hq0 Hq1) as Hq01.
  pose proof (K_quiet _ _ _ _ HK Hq01) as HK1.
  apply prt_pbnd, (prt_line_at_offset fuel); [exact (K_VOK _ _ _ HK1)|].
  apply prt_pbnd, prt_tabs; [eapply fuel_of; exact HK1|]. intros v2 Hpk2.
  pose proof (peeked_req _ _ _ Hpk2) as Hr2.
  rewrite (rest_at_quiet _ _ _ Hq01) in *.
  pose proof (peeked_quiet _ _ _ (wf_of _ _ HK1) Hpk2) as Hq2.
  pose proof (quiet_trans _ _ _ Hq01 Hq2) as Hq012.
  pose proof Hq01 as (b1 & _ & b3 & _). rewrite b3 in *.
  pose proof Hq012 as (c1 & c2 & c3 & _).
  pose proof (span_le _ _ _ Hsp1 (VOK_cur_le _ _ (K_VOK _ _ _ HK))) as Hkl.
  destruct (line_skip_le v 1 Hkl) as [Hl1 Hl2].
  pose proof (before_le_to (rest_at v 1)) as Hbt.
  assert (Hob : 1 + before_newline (rest_at v 1) <= 1 + to_next_newline (rest_at v 1)) by lia.
  set (off := 1 + to_next_newline (rest_at v 1)) in *.
  pose proof (span_blank v off) as Hnb. set (nb := nlen (blank_prefix (rest_at v off))) in *.
  pose proof (span_le _ _ _ Hnb Hl1) as Hl3.
  assert (Hh : vcur v + (off + nb) <= vhwm v2).
  { eapply peeked_hwm; [exact Hpk2|lia|rewrite b1; lia]. }
  apply prt_pbnd, prt_padvance; [rewrite c3; exact Hh|]. apply prt_pret.
  split.
  { unfold framer; cbn [v_advance vS vfail vcur]. split; [exact c1|]. split; [exact c2|]. split; [lia|].
    apply Lk_upto; cbn [v_advance vreq vcur]; lia. }
  split; [|cbn [v_advance vcur]; lia].
  apply K_line_skip; [exact HK|exact Hq012|exact Hsp1|lia|exact Hnb|exact Hh].
Qed.

(* token::newline: LF or CR LF.  The interactive variant asks for nothing beyond the line break. *)
Definition Gnl (interactive : bool) (v : view) : unit -> lrs -> view -> Prop :=
  fun _ lr' v' => K lr' v' /\ vcur v < vcur v' /\ (interactive = true -> ItemLk v v').

Lemma tnewline_okr interactive lr v : K lr v -> prt (tnewline fuel interactive) lr v (TokPostR (Gnl interactive v) v).
Proof.
  intros HK. unfold tnewline, tok_ft, tok_ok. apply prt_pbnd, prt_newline. intros v1 Hpk1.
  pose proof (peeked_quiet _ _ _ (wf_of _ _ HK) Hpk1) as Hq1.
  pose proof (K_quiet _ _ _ _ HK Hq1) as HK1.
  pose proof Hq1 as (c1 & c2 & c3 & _).
  assert (Hmain : forall len, 0 < len -> newline_len (rest_at v 0) = len -> newline_look (rest_at v 0) = len ->
            span (vS v) (vcur v) (len - 1) -> nnth (vS v) (vcur v + (len - 1)) = Some 10 ->
            prt (line_at_offset (0 + len) ;;;;
                 (if interactive then padvance (0 + len)
                  else let* offset2 := lift (tabs_or_spaces fuel (0 + len)) in padvance offset2) ;;;;
                 pret (Res (Ok tt))) lr v1 (TokPostR (Gnl interactive v) v)).
  { intros len Hlen E1 E2 Hsp Hlf. rewrite E2 in Hpk1.
    pose proof (peeked_req _ _ _ Hpk1) as Hr1.
    assert (Hl1 : vcur v + len <= nlen (vS v)) by (apply nnth_some_lt in Hlf; lia).
    apply prt_pbnd, (prt_line_at_offset fuel); [exact (K_VOK _ _ _ HK1)|]. rewrite c3. apply prt_pbnd.
    destruct interactive.
    - assert (Hh : vcur v + (len + 0) <= vhwm v1) by (eapply peeked_hwm; [exact Hpk1|lia|lia]).
      apply prt_padvance; [rewrite c3; lia|]. apply prt_pret.
      split.
      { unfold framer; cbn [v_advance vS vfail vcur]. split; [exact c1|]. split; [exact c2|]. split; [lia|].
        apply Lk_upto; cbn [v_advance vreq vcur]; lia. }
      split; [|split; [cbn [v_advance vcur]; lia|]].
      + replace (0 + len) with (len + 0) at 2 by lia. replace (vcur v + (0 + len)) with (vcur v + len) by lia.
        apply K_nl; [exact HK|exact Hq1|exact Hsp|exact Hlen|exact Hlf|apply span_zero|exact Hh].
      + intros _. left. cbn [v_advance vcur vreq]. split; [lia|]. split; [|lia].
        replace (vcur v1 + (0 + len) - 1) with (vcur v + (len - 1)) by lia. exact Hlf.
    - apply prt_pbnd, prt_tabs; [eapply fuel_of; exact HK1|]. intros v2 Hpk2.
      pose proof (peeked_req _ _ _ Hpk2) as Hr2.
      rewrite (rest_at_quiet _ _ _ Hq1) in *. rewrite c3 in Hpk2, Hr2.
      pose proof (peeked_quiet _ _ _ (wf_of _ _ HK1) Hpk2) as Hq2.
      pose proof (quiet_trans _ _ _ Hq1 Hq2) as Hq12.
      pose proof Hq12 as (d1 & d2 & d3 & _).
      pose proof (span_blank v (0 + len)) as Hnb. set (nb := nlen (blank_prefix (rest_at v (0 + len)))) in *.
      assert (Hl3 : vcur v + (0 + len) + nb <= nlen (vS v)) by (apply (span_le _ _ _ Hnb); lia).
      assert (Hh : vcur v + (len + nb) <= vhwm v2) by (eapply peeked_hwm; [exact Hpk2|lia|rewrite c1; lia]).
      apply prt_padvance; [rewrite d3; lia|]. apply prt_pret.
      split.
      { unfold framer; cbn [v_advance vS vfail vcur]. split; [exact d1|]. split; [exact d2|]. split; [lia|].
        apply Lk_upto; cbn [v_advance vreq vcur]; lia. }
      split; [|split; [cbn [v_advance vcur]; lia|discriminate]].
      replace (0 + len + nb) with (len + nb) by lia. replace (vcur v + (0 + len)) with (vcur v + len) by lia.
      apply K_nl; [exact HK|exact Hq12|exact Hsp|exact Hlen|exact Hlf| |exact Hh].
      eapply span_eq; [exact Hnb|lia|reflexivity]. }
  destruct (newline_len_cases (rest_at v 0)) as [[E [r Er]]|[[E [r Er]]|E]].
  - rewrite E. change (0 + 1 =? 0) with false. cbv iota.
    unfold rest_at in Er. destruct (nskipn_cons_nnth _ _ _ _ Er) as [Hn _].
    apply (Hmain 1); [lia|exact E|unfold rest_at; rewrite Er; reflexivity|apply span_zero|].
    replace (vcur v + (1 - 1)) with (vcur v + 0) by lia. exact Hn.
  - rewrite E. change (0 + 2 =? 0) with false. cbv iota.
    unfold rest_at in Er. destruct (nskipn_cons_nnth _ _ _ _ Er) as [Hn1 Er2].
    destruct (nskipn_cons_nnth _ _ _ _ Er2) as [Hn2 _].
    apply (Hmain 2); [lia|exact E|unfold rest_at; rewrite Er; reflexivity| |].
    + apply (span_one _ _ 13); [replace (vcur v) with (vcur v + 0) by lia; exact Hn1|lia].
    + replace (vcur v + (2 - 1)) with (vcur v + 0 + 1) by lia. exact Hn2.
  - rewrite E. change (0 + 0 =? 0) with true. cbv iota.
    apply prt_pret. split; [|exact HK1].
    pose proof (peeked_req _ _ _ Hpk1) as Hr1. pose proof (newline_look_le (rest_at v 0)) as Hll.
    apply (ft_framer lr v _ (newline_look (rest_at v 0) - 1)); [exact HK|exact Hq1|apply newline_look_span|lia].
Qed.

(* ---------- eof, end of line ---------- *)
Lemma TokPostR_weaken {A} (G G' : A -> lrs -> view -> Prop) v a lr' v' :
  TokPostR G v a lr' v' -> (forall x, G x lr' v' -> G' x lr' v') -> TokPostR G' v a lr' v'.
Proof. intros [Hf Ha] HG. split; [exact Hf|]. destruct a as [[x|e]|]; [apply HG; exact Ha|exact Ha|exact Ha]. Qed.

Lemma TokPostR_frame {A} (G : A -> lrs -> view -> Prop) v0 v a lr' v' :
  framer v0 v -> TokPostR G v a lr' v' -> TokPostR G v0 a lr' v'.
Proof. intros Hf0 [Hf Ha]. split; [eapply framer_trans; eassumption|exact Ha]. Qed.

Lemma tnewline_okr' interactive lr v : K lr v -> prt (tnewline fuel interactive) lr v (TokPostR (Gs v) v).
Proof.
  intros HK. eapply prt_conseq; [apply tnewline_okr; exact HK|]. intros a lr' v' Ha.
  eapply TokPostR_weaken; [exact Ha|]. intros x (h1 & h2 & _). split; assumption.
Qed.

(* token::eof succeeds only at the clean end of the input; the one request beyond it is the one that finds it *)
Lemma teof_okr lr v : K lr v ->
  prt teof lr v (TokPostR (fun _ lr' v' => K lr' v' /\ vfail v' = None /\ ItemLk v v') v).
Proof.
  intros HK. unfold teof, tok_ft, tok_ok. apply prt_pbnd, prt_ppeek.
  pose proof (peeked_after_peek v 0) as Hpk0.
  pose proof (peeked_quiet _ _ _ (wf_of _ _ HK) Hpk0) as Hq0.
  pose proof (K_quiet _ _ _ _ HK Hq0) as HK0.
  pose proof (peeked_req _ _ _ Hpk0) as Hr0.
  assert (Hfr : framer v (after_peek v 0)) by (apply (ft_framer lr v _ 0); [exact HK|exact Hq0|apply span_zero|lia]).
  destruct (vpeek v 0) as [b|] eqn:Ep; [apply prt_pret; split; [exact Hfr|exact HK0]|].
  apply prt_pbnd, prt_errparked.
  destruct (s_parked (after_peek v 0)) eqn:Epk; [apply prt_pret; split; [exact Hfr|exact HK0]|].
  apply prt_pret. split; [exact Hfr|]. split; [exact HK0|]. split.
  - unfold s_parked, v_err_now in Epk. cbn [after_peek vknown vtaken vfail] in Epk. rewrite Ep in Epk.
    destruct HK as [(_ & _ & _ & Ht) _]. rewrite Ht in Epk. cbn [andb] in Epk.
    cbn [after_peek vfail]. destruct (vfail v); [discriminate|reflexivity].
  - right. apply vpeek_none_iff in Ep. pose proof (VOK_cur_le _ _ (K_VOK _ _ _ HK)) as Hle.
    cbn [after_peek vcur]. split; [lia|]. assert (vcur v = nlen (vS v)) as E by lia. rewrite <- E. lia.
Qed.

(* token::interactive_end_of_line: what completes an item *)
Lemma interactive_end_of_line_okr lr v : K lr v ->
  prt (interactive_end_of_line fuel) lr v (TokPostR (fun _ lr' v' => K lr' v' /\ ItemLk v v') v).
Proof.
  intros HK. unfold interactive_end_of_line. apply prt_pbnd.
  eapply prt_conseq; [apply tnewline_okr; exact HK|]. intros a lr1 v1 Ha.
  destruct a as [[x|e]|].
  - apply prt_pret. eapply TokPostR_weaken; [exact Ha|]. intros ? (Hk & _ & Hi). split; [exact Hk|apply Hi; reflexivity].
  - apply prt_pret. exact Ha.
  - destruct Ha as [Hf HK1]. eapply prt_conseq; [apply teof_okr; exact HK1|]. intros a lr2 v2 Ha2.
    eapply TokPostR_frame; [exact Hf|]. eapply TokPostR_weaken; [exact Ha2|]. intros ? (Hk & _ & Hi).
    split; [exact Hk|]. eapply framer_ItemLk; eassumption.
Qed.

(* ---------- give_up*, unexpected ---------- *)
Lemma prt_give_up_atr pos lr v :
  K lr v -> l_start lr <= pos -> pos <= vcur v ->
  prt (give_up_at pos) lr v (fun e lr' v' => framer v v' /\ ErrPost e v').
Proof.
  intros HK Hp1 Hp2.
  assert (Hreq : prt (give_up_at pos) lr v (fun _ _ v' => vreq v' <= vreq v)).
  { (* the same two runs: nothing is asked for *)
    destruct HK as [Hv (h1 & h2 & h3)]. unfold prt.
    destruct (s_take v) as [io|] eqn:Est.
    + assert (Hpk : err_parked v io).
      { unfold err_parked, s_take in *. destruct (vknown v); [split; [reflexivity|exact Est]|discriminate]. }
      eapply rt_det; [apply det_give_up_at|apply srun_give_up_at_parked; exact Hpk|].
      cbn [v_take vreq]. lia.
    + eapply rt_det; [apply det_give_up_at| |].
      * rewrite (srun_give_up_at_clean pos lr v Est).
        assert ((pos <? l_start lr) = false) as -> by (apply N.ltb_ge; exact Hp1). reflexivity.
      * cbn [v_take vreq]. lia. }
  eapply prt_conseq; [apply prt_and; [apply (prt_give_up_at fuel); eassumption|exact Hreq]|].
  intros e lr' v' [[Hf He] Hr]. split; [apply framer_of; [exact Hf|apply Lk_noreq; exact Hr]|exact He].
Qed.

Lemma prt_give_upr lr v : K lr v -> prt give_up lr v (fun e lr' v' => framer v v' /\ ErrPost e v').
Proof.
  intros HK. unfold give_up. apply prt_pbnd, prt_getpos. rewrite (VOK_cur_mod _ v (K_VOK _ _ _ HK)).
  destruct HK as [Hv HL]. pose proof HL as (h1 & _). apply prt_give_up_atr; [split; assumption|exact h1|lia].
Qed.

Lemma prt_give_up_at_markr lr v :
  K lr v -> l_start lr <= vmark v -> vmark v <= vcur v ->
  prt give_up_at_mark lr v (fun e lr' v' => framer v v' /\ ErrPost e v').
Proof.
  intros HK Hm1 Hm2. unfold give_up_at_mark. apply prt_pbnd, prt_getmark.
  assert (vmark v mod W64 = vmark v) as ->.
  { pose proof (VOK_cur_le _ v (K_VOK _ _ _ HK)). pose proof (VOK_small _ v (K_VOK _ _ _ HK)). apply N.mod_small. unfold W64. lia. }
  apply prt_give_up_atr; assumption.
Qed.

(* the scan for the end of the offending token stops at the first blank or line break behind its first byte *)
Lemma unexpected_scan_okr n : forall len lr v, K lr v ->
  (len = 0 -> nnth (vS v) (vcur v) <> Some 10) -> span (vS v) (vcur v) len ->
  prt (unexpected_scan n len) lr v
      (fun _ lr' v' => lr' = lr /\ quiet v v' /\
                       exists n', len <= n' /\ span (vS v) (vcur v) n' /\ vreq v' <= N.max (vreq v) (vcur v + n' + 1)).
Proof.
  induction n as [|n IH]; intros len lr v HK H0 Hsp; cbn [unexpected_scan].
  - apply prt_pret. split; [reflexivity|]. split; [apply quiet_refl; eapply wf_of; exact HK|].
    exists len. split; [lia|]. split; [exact Hsp|lia].
  - apply prt_pbnd, prt_ppeek.
    pose proof (peeked_after_peek v len) as Hpk0.
    pose proof (peeked_quiet _ _ _ (wf_of _ _ HK) Hpk0) as Hq0.
    pose proof (K_quiet _ _ _ _ HK Hq0) as HK0.
    pose proof (peeked_req _ _ _ Hpk0) as Hr0.
    assert (Hstop : lr = lr /\ quiet v (after_peek v len) /\
              exists n', len <= n' /\ span (vS v) (vcur v) n' /\ vreq (after_peek v len) <= N.max (vreq v) (vcur v + n' + 1)).
    { split; [reflexivity|]. split; [exact Hq0|]. exists len. split; [lia|]. split; [exact Hsp|lia]. }
    destruct (vpeek v len) as [b|] eqn:Ep; [|apply prt_pret; exact Hstop].
    destruct (((b =? 10) || (b =? 13) || (b =? 9) || (b =? 32)) && negb (len =? 0)) eqn:Ec;
      [apply prt_pret; exact Hstop|].
    assert (Hb : b <> 10).
    { intros ->. cbn [N.eqb orb andb] in Ec. change (10 =? 10) with true in Ec. cbn [orb andb] in Ec.
      destruct (len =? 0) eqn:El; [|discriminate]. apply N.eqb_eq in El. subst len.
      apply H0; [reflexivity|]. unfold vpeek in Ep. rewrite N.add_0_r in Ep. exact Ep. }
    assert (Hsp' : span (vS v) (vcur v) (len + 1)).
    { eapply span_app'; [exact Hsp|apply (span_one _ _ b); [exact Ep|exact Hb]|reflexivity]. }
    eapply prt_conseq; [apply (IH (len + 1) lr (after_peek v len) HK0); [intros; lia|exact Hsp']|].
    intros _ lr' v' (-> & Hq & n' & Hn1 & Hn2 & Hn3). split; [reflexivity|].
    split; [eapply quiet_trans; eassumption|].
    exists n'. split; [lia|]. split; [exact Hn2|]. change (vcur (after_peek v len)) with (vcur v) in Hn3. lia.
Qed.

Lemma unexpected_okr lr v : K lr v -> prt unexpected lr v (fun e lr' v' => framer v v' /\ ErrPost e v').
Proof.
  intros HK. unfold unexpected. apply prt_pbnd, prt_newline. intros v1 Hpk1.
  pose proof (peeked_quiet _ _ _ (wf_of _ _ HK) Hpk1) as Hq1.
  pose proof (K_quiet _ _ _ _ HK Hq1) as HK1.
  pose proof (peeked_req _ _ _ Hpk1) as Hr1.
  pose proof (newline_look_le (rest_at v 0)) as Hll. pose proof (newline_look_span v) as Hls.
  assert (Hgu : forall v2 n, quiet v v2 -> span (vS v) (vcur v) n -> vreq v2 <= N.max (vreq v) (vcur v + n + 1) ->
            prt give_up lr v2 (fun e lr' v' => framer v v' /\ ErrPost e v')).
  { intros v2 n Hq2 Hsp2 Hr2. eapply prt_conseq; [apply prt_give_upr; exact (K_quiet _ _ _ _ HK Hq2)|].
    intros e lr' v' [Hf He]. split; [eapply framer_trans; [eapply ft_framer; eassumption|exact Hf]|exact He]. }
  assert (Hgu1 : prt give_up lr v1 (fun e lr' v' => framer v v' /\ ErrPost e v')).
  { apply (Hgu v1 (newline_look (rest_at v 0) - 1)); [exact Hq1|exact Hls|lia]. }
  destruct (0 + newline_len (rest_at v 0) =? 0) eqn:E0; cbn [negb]; [|exact Hgu1].
  apply N.eqb_eq in E0.
  apply prt_pbnd, prt_isatend. destruct (s_atend v1); [exact Hgu1|].
  pose proof Hq1 as (c1 & _ & c3 & _).
  apply prt_pbnd. eapply prt_conseq; [apply (unexpected_scan_okr 60 0 lr v1 HK1)|].
  - intros _. rewrite c1, c3. intros Hn. unfold rest_at in E0.
    destruct (nnth_nskipn_cons (vS v) (vcur v) 10 Hn) as [r Er]. rewrite N.add_0_r in E0. rewrite Er in E0.
    cbn [newline_len] in E0. change (10 =? 10) with true in E0. cbv iota in E0. lia.
  - apply span_zero.
  - intros _ lr' v2 (-> & Hq2 & n' & _ & Hn2 & Hn3). rewrite c1, c3 in Hn2. rewrite c3 in Hn3.
    destruct (N.le_ge_cases n' (newline_look (rest_at v 0) - 1)) as [Hle|Hge].
    + apply (Hgu v2 (newline_look (rest_at v 0) - 1)); [eapply quiet_trans; eassumption|exact Hls|lia].
    + apply (Hgu v2 n'); [eapply quiet_trans; eassumption|exact Hn2|lia].
Qed.

(* or_give_up(|| unexpected(..)) *)
Lemma or_unexpected_okr {A} (t : tok A) (G : A -> lrs -> view -> Prop) lr v :
  prt t lr v (TokPostR G v) -> prt (or_unexpected t) lr v (ResPostR G v).
Proof.
  intros H. unfold or_unexpected. apply prt_pbnd. eapply prt_conseq; [exact H|].
  intros a lr1 v1 [Hf Ha]. destruct a as [[x|e]|].
  - apply prt_pret. split; assumption.
  - apply prt_pret. split; assumption.
  - apply prt_pbnd. eapply prt_conseq; [apply unexpected_okr; exact Ha|]. intros e lr2 v2 [Hf2 He].
    apply prt_pret. split; [eapply framer_trans; eassumption|exact He].
Qed.

(* `.matches()?` *)
Lemma matches_tok_okr {A} (t : tok A) (G : lrs -> view -> Prop) lr v :
  prt t lr v (TokPostR (fun _ => G) v) ->
  prt (matches_tok t) lr v (ResPostR (fun (b : bool) lr' v' => if b then G lr' v' else K lr' v') v).
Proof.
  intros H. unfold matches_tok. apply prt_pbnd. eapply prt_conseq; [exact H|].
  intros a lr1 v1 [Hf Ha]. destruct a as [[x|e]|]; apply prt_pret; split; assumption.
Qed.

(* ---------- numbers with located errors (as in CnfSafe.v, with framer) ---------- *)
Local Notation Gnum := (Gnum fuel).
Local Notation MarkOK_setmark := (MarkOK_setmark fuel).
Local Notation meas_init := (meas_init fuel).

Lemma located_valr (P : Z -> Prop) (n : PM (parsed Z unit)) (err : PM perr) lr v :
  prt n lr v (NumPostVR P lr v) ->
  (forall v1, K lr v1 -> framer v v1 -> vmark v1 = vmark v -> vcur v1 = vcur v ->
              prt err lr v1 (fun e lr' v' => framer v1 v' /\ ErrPost e v')) ->
  prt (located n err) lr v (TokPostR (fun z lr' v' => Gnum lr v z lr' v' /\ P z) v).
Proof.
  intros Hn Herr. unfold located, tok_ok, tok_err, tok_ft. apply prt_pbnd. eapply prt_conseq; [exact Hn|].
  intros a lr1 v1 [(-> & HK1 & Hf & Hm & Ha) HP]. destruct a as [[z|[]]|].
  - apply prt_pret. split; [exact Hf|]. split; [|apply HP; reflexivity].
    split; [reflexivity|]. split; [exact HK1|]. split; assumption.
  - apply prt_pbnd. eapply prt_conseq; [apply Herr; assumption|]. intros e lr2 v2 [Hf2 He].
    apply prt_pret. split; [eapply framer_trans; eassumption|exact He].
  - apply prt_pret. split; [exact Hf|exact HK1].
Qed.

Lemma give_up_at_mark_okr lr v v1 :
  MarkOK lr v -> K lr v1 -> framer v v1 -> vmark v1 = vmark v ->
  prt give_up_at_mark lr v1 (fun e lr' v' => framer v1 v' /\ ErrPost e v').
Proof.
  intros [Hm1 Hm2] HK1 (_ & _ & Hc & _) Hm. apply prt_give_up_at_markr; [exact HK1|rewrite Hm; exact Hm1|rewrite Hm; lia].
Qed.

Lemma lit_tok_valr lr v : K lr v -> MarkOK lr v ->
  prt (lit_tok fuel) lr v (TokPostR (fun z lr' v' => Gnum lr v z lr' v' /\ LitVal v z) v).
Proof.
  intros HK HM. unfold lit_tok. apply located_valr; [apply number_valr; [reflexivity|exact HK]|].
  intros v1 HK1 Hf Hm _. eapply give_up_at_mark_okr; eassumption.
Qed.

Lemma lit_tok_okr lr v : K lr v -> MarkOK lr v -> prt (lit_tok fuel) lr v (TokPostR (Gnum lr v) v).
Proof.
  intros HK HM. eapply prt_conseq; [apply lit_tok_valr; assumption|]. intros a lr' v' Ha.
  eapply TokPostR_weaken; [exact Ha|]. intros x [H _]. exact H.
Qed.

Lemma Gnum_Gsr lr v0 v z lr' v' : framer v0 v -> Gnum lr v z lr' v' -> Gs v0 z lr' v'.
Proof. intros (_ & _ & Hc & _) (-> & HK & _ & Hlt). split; [exact HK|lia]. Qed.

(* T4 for var_count: the numeral's value, within usize and at most maxd *)
Lemma var_count_valr maxd lr v : K lr v ->
  prt (var_count fuel maxd) lr v
      (TokPostR (fun z lr' v' => Gs v z lr' v' /\
                  (in_range Usize z = true /\ z = num_value false (rest_at v 0) /\ (z <= maxd)%Z)) v).
Proof.
  intros HK. unfold var_count, tok_ok, tok_err. apply prt_pbnd, prt_pset_mark.
  pose proof (MarkOK_setmark lr v HK) as HM. pose proof (K_setmark fuel lr v HK) as HK0.
  apply prt_pbnd. eapply prt_conseq.
  { apply located_valr; [apply number_valr; [discriminate|exact HK0]|].
    intros v1 HK1 Hf Hm _. eapply give_up_at_mark_okr; eassumption. }
  intros a lr1 v1 [Hf Ha]. pose proof (framer_trans _ _ _ (framer_setmark v) Hf) as Hf1.
  destruct a as [[count|e]|].
  - pose proof Ha as [(-> & HK1 & Hm & Hlt) [Hr Hv]]. destruct (maxd <? count)%Z eqn:El.
    + apply prt_pbnd. eapply prt_conseq; [apply (give_up_at_mark_okr lr (v_setmark v) v1 HM HK1 Hf Hm)|].
      intros e lr2 v2 [Hf2 He]. apply prt_pret. split; [eapply framer_trans; eassumption|exact He].
    + apply prt_pret. split; [exact Hf1|]. split; [eapply Gnum_Gsr; [apply framer_setmark|exact (proj1 Ha)]|].
      split; [exact Hr|]. split; [exact Hv|]. apply Z.ltb_ge. exact El.
  - apply prt_pret. split; assumption.
  - apply prt_pret. split; assumption.
Qed.

Lemma var_count_okr maxd lr v : K lr v -> prt (var_count fuel maxd) lr v (TokPostR (Gs v) v).
Proof.
  intros HK. eapply prt_conseq; [apply var_count_valr; assumption|]. intros a lr' v' Ha.
  eapply TokPostR_weaken; [exact Ha|]. intros x [H _]. exact H.
Qed.

Lemma uint_count_valr t lr v : K lr v ->
  prt (uint_count fuel t) lr v
      (TokPostR (fun z lr' v' => Gs v z lr' v' /\ (in_range t z = true /\ z = num_value false (rest_at v 0))) v).
Proof.
  intros HK. unfold uint_count. apply prt_pbnd, prt_pset_mark. pose proof (K_setmark fuel lr v HK) as HK0.
  eapply prt_conseq.
  { apply located_valr; [apply number_valr; [discriminate|exact HK0]|].
    intros v1 HK1 _ _ _. apply prt_give_upr. exact HK1. }
  intros a lr1 v1 Ha. eapply TokPostR_frame; [apply framer_setmark|]. eapply TokPostR_weaken; [exact Ha|].
  intros x [Hx Hv]. split; [eapply Gnum_Gsr; [apply framer_setmark|exact Hx]|exact Hv].
Qed.

Lemma uint_count_okr t lr v : K lr v -> prt (uint_count fuel t) lr v (TokPostR (Gs v) v).
Proof.
  intros HK. eapply prt_conseq; [apply uint_count_valr; assumption|]. intros a lr' v' Ha.
  eapply TokPostR_weaken; [exact Ha|]. intros x [H _]. exact H.
Qed.

(* T4 for clause_group: the value of the numeral between the braces, within usize and at most the limit *)
Lemma clause_group_valr limit lr v : K lr v ->
  prt (clause_group fuel limit) lr v
      (TokPostR (fun z lr' v' => Gs v z lr' v' /\
                  (in_range Usize z = true /\ z = Z.of_N (dec_val (digit_prefix (rest_at v 1))) /\ (z <= limit)%Z)) v).
Proof.
  intros HK. unfold clause_group, tok_ok, tok_err. apply prt_pbnd, prt_pset_mark.
  pose proof (MarkOK_setmark lr v HK) as HM. pose proof (K_setmark fuel lr v HK) as HK0.
  apply prt_pbnd. eapply prt_conseq.
  { apply located_valr; [apply braced_uint_valr; exact HK0|].
    intros v1 HK1 _ _ _. apply prt_give_upr. exact HK1. }
  intros a lr1 v1 [Hf Ha]. pose proof (framer_trans _ _ _ (framer_setmark v) Hf) as Hf1.
  destruct a as [[group|e]|].
  - pose proof Ha as [(-> & HK1 & Hm & Hlt) [Hr Hv]]. destruct (limit <? group)%Z eqn:El.
    + apply prt_pbnd. eapply prt_conseq; [apply (give_up_at_mark_okr lr (v_setmark v) v1 HM HK1 Hf Hm)|].
      intros e lr2 v2 [Hf2 He]. apply prt_pret. split; [eapply framer_trans; eassumption|exact He].
    + apply prt_pret. split; [exact Hf1|]. split; [eapply Gnum_Gsr; [apply framer_setmark|exact (proj1 Ha)]|].
      split; [exact Hr|]. split; [exact Hv|]. apply Z.ltb_ge. exact El.
  - apply prt_pret. split; assumption.
  - apply prt_pret. split; assumption.
Qed.

Lemma clause_group_okr limit lr v : K lr v -> prt (clause_group fuel limit) lr v (TokPostR (Gs v) v).
Proof.
  intros HK. eapply prt_conseq; [apply clause_group_valr; assumption|]. intros a lr' v' Ha.
  eapply TokPostR_weaken; [exact Ha|]. intros x [H _]. exact H.
Qed.

(* ---------- loops ---------- *)
Lemma meas_stepr lr' v v' n : meas v (S n) -> framer v v' -> vcur v < vcur v' -> K lr' v' -> meas v' n.
Proof. intros Hm Hf. apply (meas_step fuel lr' v v' n Hm (framer_frame _ _ Hf)). Qed.

Lemma ResPostR_frame {A} (G : A -> lrs -> view -> Prop) v0 v a lr' v' :
  framer v0 v -> ResPostR G v a lr' v' -> ResPostR G v0 a lr' v'.
Proof. intros Hf0 [Hf Ha]. split; [eapply framer_trans; eassumption|exact Ha]. Qed.

Lemma ResPostR_weaken {A} (G G' : A -> lrs -> view -> Prop) v a lr' v' :
  ResPostR G v a lr' v' -> (forall x, G x lr' v' -> G' x lr' v') -> ResPostR G' v a lr' v'.
Proof. intros [Hf Ha] HG. split; [exact Hf|]. destruct a as [x|e]; [apply HG; exact Ha|exact Ha]. Qed.

Lemma skip_cn_okr n : forall lr v, K lr v -> meas v n -> prt (skip_comments_and_newlines fuel n) lr v (ResPostR Gk v).
Proof.
  induction n as [|n IH]; intros lr v HK Hm; [exfalso; unfold meas in Hm; lia|]. cbn [skip_comments_and_newlines].
  assert (Hcont : forall (r' : parsed unit perr) lr2 v2, TokPostR (Gs v) v r' lr2 v2 ->
            prt (match r' with
                 | Res (Ok _) => skip_comments_and_newlines fuel n
                 | Res (Err e) => pret (Err e)
                 | Fallthrough => pret (Ok tt)
                 end) lr2 v2 (ResPostR Gk v)).
  { intros r' lr2 v2 [Hf2 Hr2]. destruct r' as [[x|e]|].
    - destruct Hr2 as [HK2 Hlt]. eapply prt_conseq; [apply IH; [exact HK2|eapply meas_stepr; eassumption]|].
      intros a lr3 v3 Ha. eapply ResPostR_frame; eassumption.
    - apply prt_pret. split; assumption.
    - apply prt_pret. split; assumption. }
  apply prt_pbnd. eapply prt_conseq; [apply comment_okr; exact HK|]. intros r lr1 v1 Hr.
  apply prt_pbnd. destruct r as [[x|e]|].
  - apply prt_pret. apply (Hcont (Res (Ok x))). exact Hr.
  - apply prt_pret. apply (Hcont (Res (Err e))). exact Hr.
  - destruct Hr as [Hf HK1]. eapply prt_conseq; [apply tnewline_okr'; exact HK1|]. intros r' lr2 v2 Hr'.
    apply (Hcont r'). eapply TokPostR_frame; [exact Hf|]. eapply TokPostR_weaken; [exact Hr'|].
    intros ? [Hk Hlt]. split; [exact Hk|]. destruct Hf as (_ & _ & Hc & _). lia.
Qed.

Lemma non_terminating_linebreaks_okr lr v : K lr v -> prt (non_terminating_linebreaks fuel) lr v (ResPostR Gk v).
Proof.
  intros HK. unfold non_terminating_linebreaks. apply prt_pbnd.
  eapply prt_conseq; [apply (matches_tok_okr _ (fun lr' v' => K lr' v' /\ vcur v < vcur v')); apply tnewline_okr'; exact HK|].
  intros r lr1 v1 [Hf Hr]. destruct r as [[|]|e].
  - destruct Hr as [HK1 _]. apply prt_pbnd.
    eapply prt_conseq; [apply skip_cn_okr; [exact HK1|eapply meas_init; exact HK1]|].
    intros r2 lr2 v2 [Hf2 Hr2]. pose proof (framer_trans _ _ _ Hf Hf2) as Hf12.
    destruct r2 as [x|e]; apply prt_pret; split; assumption.
  - apply prt_pret. split; assumption.
  - apply prt_pret. split; assumption.
Qed.

Lemma clause_lits_loop_okr n : forall limit lit acc lr v, K lr v -> MarkOK lr v -> meas v n ->
  Forall (InLim limit) acc ->
  prt (clause_lits_loop fuel n limit lit acc) lr v
      (ResPostR (fun ls lr' v' => K lr' v' /\ Forall (InLim limit) ls) v).
Proof.
  induction n as [|n IH]; intros limit lit acc lr v HK HM Hm Hacc; [exfalso; unfold meas in Hm; lia|].
  cbn [clause_lits_loop].
  destruct (lit =? 0)%Z; [apply prt_pret; split; [apply framer_refl|split; [exact HK|apply Forall_rev; exact Hacc]]|].
  destruct ((- limit <=? lit) && (lit <=? limit))%Z eqn:Er.
  2: { apply prt_pbnd. eapply prt_conseq; [apply (give_up_at_mark_okr lr v v HM HK (framer_refl v) eq_refl)|].
       intros e lr1 v1 [Hf He]. apply prt_pret. split; assumption. }
  assert (Hacc' : Forall (InLim limit) (lit :: acc)).
  { constructor; [|exact Hacc]. apply andb_prop in Er. destruct Er as [E1 E2]. apply Z.leb_le in E1, E2. split; assumption. }
  apply prt_pbnd, prt_pset_mark.
  pose proof (MarkOK_setmark lr v HK) as HM0. pose proof (K_setmark fuel lr v HK) as HK0.
  pose proof (framer_setmark v) as Hf0.
  apply prt_pbnd. eapply prt_conseq; [apply lit_tok_okr; [exact HK0|exact HM0]|].
  intros r lr1 v1 [Hf Hr]. pose proof (framer_trans _ _ _ Hf0 Hf) as Hf1.
  destruct r as [[next|e]|].
  - destruct Hr as (-> & HK1 & Hmk & Hlt). cbn [v_setmark vmark vcur] in Hmk, Hlt.
    eapply prt_conseq; [apply IH; [exact HK1| |eapply meas_stepr; eassumption|exact Hacc']|].
    + destruct HK as [_ (h1 & _)]. unfold MarkOK. rewrite Hmk. lia.
    + intros a lr3 v3 Ha. eapply ResPostR_frame; eassumption.
  - apply prt_pret. split; assumption.
  - apply prt_pbnd. eapply prt_conseq; [apply non_terminating_linebreaks_okr; exact Hr|].
    intros lb lr2 v2 [Hf2 Hlb]. pose proof (framer_trans _ _ _ Hf1 Hf2) as Hf12.
    destruct lb as [[|]|e].
    + apply prt_pbnd, prt_pset_mark.
      pose proof (MarkOK_setmark lr2 v2 Hlb) as HM2. pose proof (K_setmark fuel lr2 v2 Hlb) as HK2.
      apply prt_pbnd. eapply prt_conseq; [apply or_unexpected_okr; apply lit_tok_okr; [exact HK2|exact HM2]|].
      intros r2 lr3 v3 [Hf3 Hr2]. pose proof (framer_trans _ _ _ (framer_setmark v2) Hf3) as Hf23.
      pose proof (framer_trans _ _ _ Hf12 Hf23) as Hf13.
      destruct r2 as [next|e].
      * destruct Hr2 as (-> & HK3 & Hmk & Hlt). cbn [v_setmark vmark vcur] in Hmk, Hlt.
        eapply prt_conseq; [apply IH; [exact HK3| |eapply (meas_stepr lr2 v v3); [exact Hm|exact Hf13| |exact HK3]|exact Hacc']|].
        -- destruct Hlb as [_ (h1 & _)]. unfold MarkOK. rewrite Hmk. lia.
        -- destruct Hf12 as (_ & _ & Hc & _). lia.
        -- intros a lr4 v4 Ha. eapply ResPostR_frame; eassumption.
      * apply prt_pret. split; assumption.
    + apply prt_pbnd. eapply prt_conseq; [apply unexpected_okr; exact Hlb|]. intros e lr3 v3 [Hf3 He].
      apply prt_pret. split; [eapply framer_trans; eassumption|exact He].
    + apply prt_pret. split; assumption.
Qed.

Lemma clause_lits_valr limit lr v : K lr v ->
  prt (clause_lits fuel limit) lr v (TokPostR (fun ls lr' v' => Gs v ls lr' v' /\ Forall (InLim limit) ls) v).
Proof.
  intros HK. unfold clause_lits, tok_err, tok_ft. apply prt_pbnd, prt_pset_mark.
  pose proof (MarkOK_setmark lr v HK) as HM0. pose proof (K_setmark fuel lr v HK) as HK0.
  pose proof (framer_setmark v) as Hf0.
  apply prt_pbnd. eapply prt_conseq; [apply lit_tok_okr; [exact HK0|exact HM0]|].
  intros r lr1 v1 [Hf Hr]. pose proof (framer_trans _ _ _ Hf0 Hf) as Hf1.
  destruct r as [[lit|e]|].
  - destruct Hr as (-> & HK1 & Hmk & Hlt). cbn [v_setmark vmark vcur] in Hmk, Hlt.
    apply prt_pbnd. eapply prt_conseq; [apply clause_lits_loop_okr; [exact HK1| |eapply meas_init; exact HK1|constructor]|].
    + destruct HK as [_ (h1 & _)]. unfold MarkOK. rewrite Hmk. lia.
    + intros r2 lr2 v2 [Hf2 Hr2]. apply prt_pret. split; [eapply framer_trans; eassumption|].
      destruct r2 as [ls|e]; [|exact Hr2]. destruct Hr2 as [HK2 Hin]. split; [|exact Hin].
      split; [exact HK2|]. destruct Hf2 as (_ & _ & Hc & _). lia.
  - apply prt_pret. split; assumption.
  - apply prt_pret. split; assumption.
Qed.

Lemma clause_lits_okr limit lr v : K lr v -> prt (clause_lits fuel limit) lr v (TokPostR (Gs v) v).
Proof.
  intros HK. eapply prt_conseq; [apply clause_lits_valr; assumption|]. intros a lr' v' Ha.
  eapply TokPostR_weaken; [exact Ha|]. intros x [H _]. exact H.
Qed.

(* ---------- the tokens of the solver log ---------- *)
Lemma tfixed_okr (pat : bytes) lr v : pat <> [] -> ~ In 10 pat -> K lr v -> prt (tfixed pat) lr v (TokPostR (Gs v) v).
Proof.
  intros Hne H10 HK. pose proof (wf_of _ _ HK) as Hw.
  unfold tfixed, tok_ft, tok_ok. apply prt_pbnd, prt_fixed; [exact Hne|]. intros v1 Hpk1.
  pose proof (peeked_quiet _ _ _ Hw Hpk1) as Hq1.
  pose proof (K_quiet _ _ _ _ HK Hq1) as HK1.
  pose proof (peeked_req _ _ _ Hpk1) as Hr1.
  pose proof (span_cp pat v 0 H10) as Hcp. rewrite N.add_0_r in Hcp.
  pose proof (common_prefix_le pat (rest_at v 0)) as Hcl.
  destruct (common_prefix pat (rest_at v 0) =? nlen pat) eqn:Ec.
  - apply N.eqb_eq in Ec. pose proof (nlen_pos pat Hne) as Hpl.
    cbv iota. assert ((0 + nlen pat =? 0) = false) as -> by (apply N.eqb_neq; lia).
    assert (Hsp : span (vS v) (vcur v) (0 + nlen pat)) by (eapply span_eq; [exact Hcp|reflexivity|lia]).
    destruct (K_consume lr v v v1 _ (0 + nlen pat) HK (quiet_refl v Hw) Hpk1) as (h1 & h2 & h3 & _ & h5).
    + rewrite Ec. lia.
    + exact Hsp.
    + apply prt_pbnd, prt_padvance; [exact h1|]. apply prt_pret.
      split; [|split; [exact h2|lia]].
      eapply consume_framer; [exact HK|apply (quiet_refl v Hw)|exact Hpk1|exact Hsp|lia|rewrite Ec; lia].
  - change (0 =? 0) with true. cbv iota. apply prt_pret. split; [|exact HK1].
    eapply (ft_framer lr v _ _); [exact HK|exact Hq1|exact Hcp|lia].
Qed.

(* the rest of a line from offset k on, consumed up to and including its break, after the peeks of next_newline:
   nothing beyond the break has been asked for *)
Lemma line_end_ItemLk lr v v1 k :
  K lr v -> quiet v v1 -> span (vS v) (vcur v) k -> 0 < k + to_next_newline (rest_at v k) ->
  vreq v1 <= N.max (vreq v) (vcur v + k + before_newline (rest_at v k) + 1) ->
  framer v (v_advance v1 (k + to_next_newline (rest_at v k))) /\ ItemLk v (v_advance v1 (k + to_next_newline (rest_at v k))).
Proof.
  intros HK Hq Hsp Hpos Hr. pose proof Hq as (c1 & c2 & c3 & _).
  pose proof (span_le _ _ _ Hsp (VOK_cur_le _ _ (K_VOK _ _ _ HK))) as Hkl.
  destruct (break_facts v k Hkl) as (Hn1 & Hp & Hbr).
  set (bn := before_newline (rest_at v k)) in *. set (tnn := to_next_newline (rest_at v k)) in *.
  split.
  - unfold framer; cbn [v_advance vS vfail vcur]. split; [exact c1|]. split; [exact c2|]. split; [lia|].
    apply Lk_upto; cbn [v_advance vreq vcur]; [|destruct Hbr as [[Hb Ht]|[Hb Ht]]; [apply nnth_some_lt in Hb|]; lia].
    destruct Hbr as [[Hb Ht]|[Hb Ht]]; lia.
  - destruct Hbr as [[Hb Ht]|[Hb Ht]].
    + left. cbn [v_advance vcur vreq]. split; [lia|]. split; [|lia].
      replace (vcur v1 + (k + tnn) - 1) with (vcur v + k + bn) by lia. exact Hb.
    + right. cbn [v_advance vcur vreq]. split; lia.
Qed.

Lemma interactive_strict_comment_okr lr v : K lr v -> prt (interactive_strict_comment fuel) lr v (TokPostR (GsI v) v).
Proof.
  intros HK. unfold interactive_strict_comment, tok_ft, tok_ok.
  apply prt_pbnd, prt_fixed; [discriminate|]. intros v0 Hpk0.
  pose proof (peeked_quiet _ _ _ (wf_of _ _ HK) Hpk0) as Hq0.
  pose proof (K_quiet _ _ _ _ HK Hq0) as HK0.
  pose proof (peeked_req _ _ _ Hpk0) as Hr0.
  assert (H10 : ~ In 10 log_comment) by (cbv [log_comment In]; intros [H|[H|[]]]; discriminate).
  pose proof (span_cp log_comment v 0 H10) as Hcp. rewrite N.add_0_r in Hcp.
  pose proof (common_prefix_le log_comment (rest_at v 0)) as Hcl.
  destruct (common_prefix log_comment (rest_at v 0) =? nlen log_comment) eqn:Ec; cbv iota;
    [|change (0 =? 0) with true; cbv iota; apply prt_pret; split; [|exact HK0];
      eapply (ft_framer lr v _ _); [exact HK|exact Hq0|exact Hcp|lia]].
  apply N.eqb_eq in Ec. change (0 + nlen log_comment =? 0) with false. cbv iota.
  assert (Hsp2 : span (vS v) (vcur v) 2).
  { eapply span_eq; [apply (span_pat log_comment v 0); [discriminate|exact H10|exact Ec]|lia|reflexivity]. }
  apply prt_pbnd, prt_next_newline; [eapply fuel_of; exact HK0|]. intros v1 Hpk1.
  pose proof (peeked_req _ _ _ Hpk1) as Hr1.
  rewrite (rest_at_quiet _ _ _ Hq0) in *.
  pose proof (peeked_quiet _ _ _ (wf_of _ _ HK0) Hpk1) as Hq1.
  pose proof (quiet_trans _ _ _ Hq0 Hq1) as Hq01.
  pose proof (K_quiet _ _ _ _ HK Hq01) as HK1.
  apply prt_pbnd, (prt_line_at_offset fuel); [exact (K_VOK _ _ _ HK1)|].
  pose proof Hq0 as (b1 & _ & b3 & _). rewrite b3 in *.
  pose proof Hq01 as (c1 & c2 & c3 & _). rewrite c3.
  pose proof (span_le _ _ _ Hsp2 (VOK_cur_le _ _ (K_VOK _ _ _ HK))) as Hkl.
  destruct (line_skip_le v 2 Hkl) as [Hl1 Hl2].
  change (nlen log_comment) with 2 in *.
  destruct (line_end_ItemLk lr v v1 2 HK Hq01 Hsp2) as [Hfr Hil]; [lia|lia|].
  set (off := 2 + to_next_newline (rest_at v 2)) in *.
  assert (Hh : vcur v + (off + 0) <= vhwm v1).
  { eapply peeked_hwm; [exact Hpk1|lia|rewrite b1; lia]. }
  apply prt_pbnd, prt_padvance; [rewrite c3; lia|]. apply prt_pret.
  split; [exact Hfr|]. split; [|split; [cbn [v_advance vcur]; lia|exact Hil]].
  replace off with (off + 0) at 2 by lia.
  apply K_line_skip; [exact HK|exact Hq01|exact Hsp2|lia|apply span_zero|exact Hh].
Qed.

Lemma interactive_skip_line_okr lr v : K lr v -> prt (interactive_skip_line fuel) lr v (TokPostR (GsI v) v).
Proof.
  intros HK. unfold interactive_skip_line, tok_ft, tok_ok.
  apply prt_pbnd, prt_next_newline; [eapply fuel_of; exact HK|]. intros v1 Hpk1.
  pose proof (peeked_quiet _ _ _ (wf_of _ _ HK) Hpk1) as Hq1.
  pose proof (K_quiet _ _ _ _ HK Hq1) as HK1.
  pose proof (peeked_req _ _ _ Hpk1) as Hr1.
  pose proof (before_le_to (rest_at v 0)) as Hbt.
  destruct (0 + to_next_newline (rest_at v 0) =? 0) eqn:E0.
  { apply N.eqb_eq in E0. apply prt_pret. split; [|exact HK1].
    apply (ft_framer lr v _ 0); [exact HK|exact Hq1|apply span_zero|lia]. }
  apply N.eqb_neq in E0.
  apply prt_pbnd, (prt_line_at_offset fuel); [exact (K_VOK _ _ _ HK1)|].
  pose proof Hq1 as (c1 & c2 & c3 & _). rewrite c3.
  pose proof (VOK_cur_le _ _ (K_VOK _ _ _ HK)) as Hkl. rewrite <- (N.add_0_r (vcur v)) in Hkl.
  destruct (line_skip_le v 0 Hkl) as [Hl1 Hl2].
  destruct (line_end_ItemLk lr v v1 0 HK Hq1 (span_zero _ _)) as [Hfr Hil]; [lia|lia|].
  set (off := 0 + to_next_newline (rest_at v 0)) in *.
  assert (Hh : vcur v + (off + 0) <= vhwm v1).
  { eapply peeked_hwm; [exact Hpk1|lia|lia]. }
  apply prt_pbnd, prt_padvance; [rewrite c3; lia|]. apply prt_pret.
  split; [exact Hfr|]. split; [|split; [cbn [v_advance vcur]; lia|exact Hil]].
  replace off with (off + 0) at 2 by lia.
  apply K_line_skip; [exact HK|exact Hq1|apply span_zero|lia|apply span_zero|exact Hh].
Qed.

End LookTok.
