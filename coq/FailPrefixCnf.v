(* FailPrefixCnf.v — C04, last sentence, for the DIMACS family (cnf / wcnf / gcnf). *)
From Flussab Require Import Base Reader ListN Writer Parsed Prog Text ProgProofs Consts Cnf CnfProofs Hoare CnfSafe FailPrefix.
Local Open Scope N_scope.

(* ---------- the scanners of text.rs do not look at the failure ---------- *)
Lemma quietp_digits_loop fuel t : forall neg value overflow offset, quietp (digits_loop fuel t neg value overflow offset).
Proof.
  induction fuel as [|f IH]; intros; cbn [digits_loop quietp]; [exact I|]. intros o.
  destruct o as [d|]; [|exact I]. destruct (is_dig d); [|exact I].
  destruct (ovf t (value * 10)) as [v1 o1]. destruct (ovf t _) as [v2 o2]. apply IH.
Qed.
#[export] Hint Resolve quietp_digits_loop : quietdb.

Lemma quietp_ascii_digits fuel t offset : quietp (ascii_digits fuel t offset).
Proof. unfold ascii_digits. apply quietp_digits_loop. Qed.
Lemma quietp_ascii_digits_cont fuel t neg offset value : quietp (ascii_digits_cont fuel t neg offset value).
Proof. unfold ascii_digits_cont. apply quietp_digits_loop. Qed.
Lemma quietp_signed_ascii_digits fuel t offset : quietp (signed_ascii_digits fuel t offset).
Proof. unfold signed_ascii_digits. qp. Qed.
#[export] Hint Resolve quietp_ascii_digits quietp_ascii_digits_cont quietp_signed_ascii_digits : quietdb.

Lemma quietp_ascii_digits_multi fuel t offset : quietp (ascii_digits_multi fuel t offset).
Proof. unfold ascii_digits_multi. qp. Qed.
Lemma quietp_signed_ascii_digits_multi fuel t offset : quietp (signed_ascii_digits_multi fuel t offset).
Proof. unfold signed_ascii_digits_multi. qp. Qed.
Lemma quietp_tabs_or_spaces fuel : forall offset, quietp (tabs_or_spaces fuel offset).
Proof. induction fuel as [|f IH]; intros; cbn [tabs_or_spaces]; qp. Qed.
Lemma quietp_newline offset : quietp (newline offset).
Proof. unfold newline. qp. Qed.
Lemma quietp_next_newline fuel : forall offset, quietp (next_newline fuel offset).
Proof. induction fuel as [|f IH]; intros; cbn [next_newline]; qp. Qed.
Lemma quietp_fixed_from pat : forall offset i, quietp (fixed_from pat offset i).
Proof. induction pat as [|b r IH]; intros; cbn [fixed_from]; qp. Qed.
Lemma quietp_fixed offset pat : quietp (fixed offset pat).
Proof. unfold fixed. apply quietp_fixed_from. Qed.
#[export] Hint Resolve quietp_ascii_digits_multi quietp_signed_ascii_digits_multi quietp_tabs_or_spaces quietp_newline
  quietp_next_newline quietp_fixed_from quietp_fixed : quietdb.

(* ---------- quiet LineReader programs ---------- *)
Lemma pq_ppeek k : pq (ppeek k). Proof. unfold ppeek. pqw. Qed.
Lemma pq_padvance n : pq (padvance n). Proof. unfold padvance. pqw. Qed.
Lemma pq_pset_mark : pq pset_mark. Proof. unfold pset_mark. pqw. Qed.
Lemma pq_get_lrs : pq get_lrs. Proof. intro; exact I. Qed.
Lemma pq_set_lrs s : pq (set_lrs s). Proof. intro; exact I. Qed.
#[export] Hint Resolve pq_ppeek pq_padvance pq_pset_mark pq_get_lrs pq_set_lrs : quietdb.
Lemma pq_line_at_offset off : pq (line_at_offset off). Proof. unfold line_at_offset. pqw. Qed.
#[export] Hint Resolve pq_line_at_offset : quietdb.

Section F.
Variable fuel : nat.

Lemma pq_word pat : pq (word fuel pat). Proof. unfold word, tok_ok, tok_ft. pqw. Qed.
Lemma pq_tfixed pat : pq (tfixed pat). Proof. unfold tfixed, tok_ok, tok_ft. pqw. Qed.
Lemma pq_number sg t : pq (number fuel sg t). Proof. unfold number. pqw. Qed.
Lemma pq_braced_uint t : pq (braced_uint fuel t). Proof. unfold braced_uint. pqw. Qed.
Lemma pq_comment : pq (comment fuel). Proof. unfold comment, tok_ok, tok_ft. pqw. Qed.
Lemma pq_tnewline i : pq (tnewline fuel i). Proof. unfold tnewline, tok_ok, tok_ft. pqw. Qed.
Lemma pq_skip_whitespace : pq (skip_whitespace fuel). Proof. unfold skip_whitespace. pqw. Qed.
Hint Resolve pq_word pq_tfixed pq_number pq_braced_uint pq_comment pq_tnewline pq_skip_whitespace : quietdb.
Lemma pq_unexpected_scan n : forall len, pq (unexpected_scan n len).
Proof. induction n as [|n IH]; intros; cbn [unexpected_scan]; pqw. Qed.
Lemma pq_skip_cn n : pq (skip_comments_and_newlines fuel n).
Proof. induction n as [|n IH]; cbn [skip_comments_and_newlines]; pqw. Qed.
Hint Resolve pq_unexpected_scan pq_skip_cn : quietdb.
Lemma pq_matches_tok {A} (t : tok A) : pq t -> pq (matches_tok t).
Proof. intros H. unfold matches_tok. pqw. Qed.
Hint Resolve pq_matches_tok : quietdb.
Lemma pq_ntl : pq (non_terminating_linebreaks fuel).
Proof. unfold non_terminating_linebreaks. pqw. Qed.
Lemma pq_header_skip n : pq (header_skip fuel n).
Proof. induction n as [|n IH]; cbn [header_skip]; pqw. Qed.
Hint Resolve pq_ntl pq_header_skip : quietdb.

(* every quiet program, as a fact about the flag *)
Lemma plv_of_pq {A} (m : PM A) d : pq m -> plv (QN d) d m.
Proof. apply pq_plv. Qed.
Hint Extern 5 (plv _ _ _) => (apply plv_of_pq; solve [eauto with quietdb]) : plvdb.
Hint Extern 1 (pq _) => solve [eauto with quietdb] : plvdb.

(* ---------- the programs that can see the failure ---------- *)
Lemma plv_give_up_at d pos : plv QA d (give_up_at pos). Proof. apply plv_any. Qed.
Lemma plv_give_up d : plv QA d give_up. Proof. apply plv_any. Qed.
Lemma plv_give_up_at_mark d : plv QA d give_up_at_mark. Proof. apply plv_any. Qed.
Lemma plv_unexpected d : plv QA d unexpected. Proof. apply plv_any. Qed.
Hint Resolve plv_give_up_at plv_give_up plv_give_up_at_mark plv_unexpected : plvdb.

Lemma plv_teof d : plv (QF d) d teof.
Proof. unfold teof, tok_ok, tok_ft. pw. Qed.
Hint Resolve plv_teof : plvdb.

Lemma plv_ieol d : plv (QF d) d (interactive_end_of_line fuel).
Proof. unfold interactive_end_of_line. pw. Qed.
Hint Resolve plv_ieol : plvdb.

Lemma plv_or_unexpected_N {A} (t : tok A) d : plv (QN d) d t -> plv (QR d) d (or_unexpected t).
Proof. intros H. unfold or_unexpected. pw. Qed.
Lemma plv_or_unexpected_T {A} (t : tok A) d : plv (QT d) d t -> plv (QR d) d (or_unexpected t).
Proof. intros H. unfold or_unexpected. pw. Qed.
Lemma plv_or_unexpected_F {A} (t : tok A) d : plv (QF d) d t -> plv (QR d) d (or_unexpected t).
Proof. intros H. unfold or_unexpected. pw. Qed.
Hint Resolve plv_or_unexpected_N plv_or_unexpected_T plv_or_unexpected_F : plvdb.

Lemma plv_matches_tok_T {A} (t : tok A) d : plv (QT d) d t -> plv (QR d) d (matches_tok t).
Proof. intros H. unfold matches_tok. pw. Qed.
Lemma plv_matches_tok_F {A} (t : tok A) d : plv (QF d) d t -> plv (QM d) d (matches_tok t).
Proof. intros H. unfold matches_tok. pw. Qed.
Hint Resolve plv_matches_tok_T plv_matches_tok_F : plvdb.

Lemma plv_located {A} (n : PM (parsed A unit)) (err : PM perr) d : pq n -> plv (QT d) d (located n err).
Proof.
  intros H. unfold located, tok_ok, tok_err, tok_ft.
  eapply plv_pbnd; [apply plv_of_pq; exact H|]. intros d1 a HB; pw_hyp HB. destruct a as [[v|u]|]; [pw| |pw].
  eapply plv_pbnd; [apply (plv_any d err)|]. intros d1 a HB. pw.
Qed.
Hint Resolve plv_located : plvdb.

Lemma plv_lit_tok d : plv (QT d) d (lit_tok fuel).
Proof. unfold lit_tok. apply plv_located. eauto with quietdb. Qed.
Lemma plv_var_count maxd d : plv (QT d) d (var_count fuel maxd).
Proof. unfold var_count, tok_ok, tok_err. pw. Qed.
Lemma plv_uint_count t d : plv (QT d) d (uint_count fuel t).
Proof. unfold uint_count. pw. Qed.
Lemma plv_clause_group limit d : plv (QT d) d (clause_group fuel limit).
Proof. unfold clause_group, tok_ok, tok_err. pw. Qed.
Hint Resolve plv_lit_tok plv_var_count plv_uint_count plv_clause_group : plvdb.

Lemma plv_clause_lits_loop n : forall limit lit acc d, plv (QR d) d (clause_lits_loop fuel n limit lit acc).
Proof. induction n as [|n IH]; intros; cbn [clause_lits_loop]; pw. Qed.
Hint Resolve plv_clause_lits_loop : plvdb.

Lemma plv_clause_lits limit d : plv (QT d) d (clause_lits fuel limit).
Proof. unfold clause_lits, tok_err, tok_ft. pw. Qed.
Hint Resolve plv_clause_lits : plvdb.

Lemma plv_parse_header k maxd d : plv (QR d) d (parse_header fuel k maxd).
Proof.
  unfold parse_header.
  eapply plv_pbnd; [solve [eauto with plvdb]|]. intros d1 a1 HB; pw_hyp HB.
  eapply plv_pbnd; [solve [eauto with plvdb]|]. intros d1 a2 HB; pw_hyp HB. destruct a2; [|pw].
  eapply plv_pbnd; [solve [eauto with plvdb]|]. intros d1 a3 HB; pw_hyp HB. destruct a3 as [[]|]; [| |pw]; [|pw].
  eapply plv_pbnd; [solve [eauto with plvdb]|]. intros d1 a4 HB; pw_hyp HB; [destruct a4; [|pw]|pw..].
  eapply plv_pbnd; [solve [eauto with plvdb]|]. intros d1 a5 HB; pw_hyp HB; [destruct a5; [|pw]|pw..].
  eapply plv_pbnd; [solve [eauto with plvdb]|]. intros d1 a6 HB; pw_hyp HB; [destruct a6; [|pw]|pw..].
  eapply (plv_pbnd (QR d)); [destruct k; [apply plv_pret; left; reflexivity|solve [eauto with plvdb]..]|].
  intros d1 a7 HB; pw_hyp HB; pw.
Qed.
Hint Resolve plv_parse_header : plvdb.

Lemma plv_parser_new k maxd ih d : plv (QR d) d (parser_new fuel k maxd ih).
Proof. unfold parser_new. pw. Qed.

Lemma plv_clause_tok k st d : plv (QT d) d (clause_tok fuel k st).
Proof.
  unfold clause_tok, tok_ok, tok_err, tok_ft. destruct k; [pw| |].
  - eapply (plv_pbnd (QT d)); [solve [eauto with plvdb]|]. intros d1 a1 HB; pw_hyp HB; pw.
  - eapply (plv_pbnd (QT d)); [solve [eauto with plvdb]|]. intros d1 a1 HB; pw_hyp HB; pw.
Qed.
Hint Resolve plv_clause_tok : plvdb.

Definition QR1 {A C} (d : bool) : bool -> result A perr * C -> Prop := fun d' x => d' = d \/ is_rerr (fst x).

Lemma plv_next_clause_loop n : forall k st d, plv (QR1 d) d (next_clause_loop fuel n k st).
Proof.
  induction n as [|n IH]; intros; cbn [next_clause_loop]; [intro; exact I|].
  eapply (plv_pbnd (QT d)).
  { destruct (_ || _); [solve [eauto with plvdb]|unfold tok_ft; apply plv_pret; left; reflexivity]. }
  intros d1 a1 HB. unfold QR1. pw_hyp HB; pw.
Qed.

Lemma plv_next_clause k st d : plv (QR1 d) d (next_clause fuel k st).
Proof.
  unfold next_clause. eapply plv_pbnd; [solve [eauto with plvdb]|]. intros d1 a HB; pw_hyp HB. apply plv_next_clause_loop.
Qed.

(* ---------- the driving loop ---------- *)
Lemma drive_items n : forall k st acc lr v is f lr' v',
  srun (drive fuel n k st acc lr) v = ADone ((is, f), lr') v' -> exists rest, is = rev acc ++ rest.
Proof.
  induction n as [|n IH]; intros k st acc lr v is f lr' v' H; cbn [drive] in H; [discriminate|].
  unfold pbnd in H. apply srun_bind_inv in H. destruct H as ([[r st'] lr1] & v1 & H1 & H2).
  destruct r as [[item|]|e]; cbv beta iota in H2.
  - destruct (IH _ _ _ _ _ _ _ _ _ H2) as [rest E]. exists (item :: rest). rewrite E. cbn [rev]. rewrite <- app_assoc. reflexivity.
  - unfold pret in H2. cbn [srun] in H2. inversion H2; subst. exists []. symmetry. apply app_nil_r.
  - unfold pret in H2. cbn [srun] in H2. inversion H2; subst. exists []. symmetry. apply app_nil_r.
Qed.

Lemma drive_lockstep n : forall k st acc lr v is1 f1 lr1 v1 is2 f2 lr2 v2,
  srun (drive fuel n k st acc lr) v = ADone ((is1, f1), lr1) v1 ->
  srun (drive fuel n k st acc lr) (nofail v) = ADone ((is2, f2), lr2) v2 ->
  exists rest, is2 = is1 ++ rest.
Proof.
  induction n as [|n IH]; intros k st acc lr v is1 f1 lr1 v1 is2 f2 lr2 v2 H1 H2; [cbn [drive] in H1; discriminate|].
  pose proof H2 as H2full.
  cbn [drive] in H1, H2. unfold pbnd in H1, H2.
  apply srun_bind_inv in H1. destruct H1 as ([[r st'] lra] & va & Ha & Hb).
  apply srun_bind_inv in H2. destruct H2 as ([[r2 st2] lrb] & vb & Hc & Hd).
  destruct (lv_sound _ _ _ _ _ _ (plv_next_clause k st false lr) Ha) as [E|E].
  - rewrite E in Hc. inversion Hc; subst.
    destruct r2 as [[item|]|e]; cbv beta iota in Hb, Hd.
    + exact (IH _ _ _ _ _ _ _ _ _ _ _ _ _ Hb Hd).
    + unfold pret in Hb, Hd. cbn [srun] in Hb, Hd. inversion Hb; inversion Hd; subst. exists []. symmetry. apply app_nil_r.
    + unfold pret in Hb, Hd. cbn [srun] in Hb, Hd. inversion Hb; inversion Hd; subst. exists []. symmetry. apply app_nil_r.
  - cbn [fst] in E. destruct E as [E|E]; [discriminate|]. cbn [fst] in E.
    destruct r as [?|e]; [contradiction|]. cbv beta iota in Hb.
    unfold pret in Hb. cbn [srun] in Hb. inversion Hb; subst.
    exact (drive_items _ _ _ _ _ _ _ _ _ _ H2full).
Qed.

Lemma dimacs_srun_prefix k maxd ih lr v h1 is1 f1 lr1 v1 h2 is2 f2 lr2 v2 :
  srun (parse_dimacs fuel k maxd ih lr) v = ADone ((h1, is1, f1), lr1) v1 ->
  srun (parse_dimacs fuel k maxd ih lr) (nofail v) = ADone ((h2, is2, f2), lr2) v2 ->
  (exists rest, is2 = is1 ++ rest) /\ (forall h, h1 = Some h -> h2 = Some h).
Proof.
  intros H1 H2. unfold parse_dimacs, pbnd in H1, H2.
  apply srun_bind_inv in H1. destruct H1 as ([p lra] & va & Ha & Hb).
  apply srun_bind_inv in H2. destruct H2 as ([p2 lrb] & vb & Hc & Hd).
  destruct (lv_sound _ _ _ _ _ _ (plv_parser_new k maxd ih false lr) Ha) as [E|E].
  - rewrite E in Hc. inversion Hc; subst.
    destruct p2 as [st|e].
    + apply srun_bind_inv in Hb. destruct Hb as ([[i1 g1] lrc] & vc & Hb1 & Hb2).
      apply srun_bind_inv in Hd. destruct Hd as ([[i2 g2] lrd] & vd & Hd1 & Hd2).
      unfold pret in Hb2, Hd2. cbn [srun] in Hb2, Hd2. inversion Hb2; inversion Hd2; subst.
      split; [exact (drive_lockstep _ _ _ _ _ _ _ _ _ _ _ _ _ _ Hb1 Hd1)|]. intros h Hh. exact Hh.
    + unfold pret in Hb, Hd. cbn [srun] in Hb, Hd. inversion Hb; inversion Hd; subst.
      split; [exists []; reflexivity|]. intros h Hh. discriminate.
  - cbn [fst] in E. destruct E as [E|E]; [discriminate|].
    destruct p as [?|e]; [contradiction|].
    unfold pret in Hb. cbn [srun] in Hb. inversion Hb; subst.
    split; [exists is2; reflexivity|]. intros h Hh. discriminate.
Qed.

End F.

(* the hints again, outside the section *)
#[export] Hint Resolve pq_word pq_tfixed pq_number pq_braced_uint pq_comment pq_tnewline pq_skip_whitespace
  pq_unexpected_scan pq_skip_cn pq_matches_tok pq_ntl pq_header_skip : quietdb.
#[export] Hint Extern 5 (plv _ _ _) => (apply plv_of_pq; solve [eauto with quietdb]) : plvdb.
#[export] Hint Extern 1 (pq _) => solve [eauto with quietdb] : plvdb.
#[export] Hint Resolve plv_give_up_at plv_give_up plv_give_up_at_mark plv_unexpected plv_teof plv_ieol
  plv_or_unexpected_N plv_or_unexpected_T plv_or_unexpected_F plv_matches_tok_T plv_matches_tok_F plv_located
  plv_lit_tok plv_var_count plv_uint_count plv_clause_group plv_clause_lits_loop plv_clause_lits plv_parse_header
  plv_clause_tok : plvdb.

(* C04, last sentence, DIMACS family: whatever the fast-path tests answer (any admissible run, hence any chunking of
   the source), the clauses handed out on a source that delivers S and then fails with e are the first clauses
   handed out on the source that delivers S and then ends; and the header, when the failing run got as far as a
   header (or its absence: [Some None]), is the same. *)
Theorem dimacs_items_before_failure fuel k maxd ignore_header S e h1 is1 fin1 lr1 v1 h2 is2 fin2 lr2 v2 :
  Forall (fun b => b < 256) S -> nlen S < 2 ^ 62 -> (length S < fuel)%nat ->
  aruns (parse_dimacs fuel k maxd ignore_header lrs_init) (view_init S (Some e)) (ADone (h1, is1, fin1, lr1) v1) ->
  aruns (parse_dimacs fuel k maxd ignore_header lrs_init) (view_init S None) (ADone (h2, is2, fin2, lr2) v2) ->
  (exists rest, is2 = is1 ++ rest) /\ (forall h, h1 = Some h -> h2 = Some h).
Proof.
  intros Hb Hl Hf R1 R2.
  destruct (srun_of_aruns _ fuel S (Some e) _ _ Hb Hf (PDet_parse_dimacs fuel k maxd ignore_header lrs_init)
              (fun r Hr => match parse_dimacs_safe fuel k maxd ignore_header S (Some e) r Hb Hl Hf Hr with
                           | ex_intro _ out (ex_intro _ lr' (ex_intro _ v' E)) => ex_intro _ (out, lr') (ex_intro _ v' E) end) R1)
    as [w1 S1].
  destruct (srun_of_aruns _ fuel S None _ _ Hb Hf (PDet_parse_dimacs fuel k maxd ignore_header lrs_init)
              (fun r Hr => match parse_dimacs_safe fuel k maxd ignore_header S None r Hb Hl Hf Hr with
                           | ex_intro _ out (ex_intro _ lr' (ex_intro _ v' E)) => ex_intro _ (out, lr') (ex_intro _ v' E) end) R2)
    as [w2 S2].
  rewrite <- (nofail_init S (Some e)) in S2.
  exact (dimacs_srun_prefix fuel k maxd ignore_header _ _ _ _ _ _ _ _ _ _ _ _ S1 S2).
Qed.
Print Assumptions dimacs_items_before_failure.
