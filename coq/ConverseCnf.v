(* ConverseCnf.v — C03, second sentence, for the DIMACS family (cnf / wcnf / gcnf): for every text a parser accepts,
   writing the parsed document and parsing that output again (same configuration) yields the same document.
   CnfLimits.parse_dimacs_limits gives every clause of Layout.doc_ok (the domain of the writer/parser round trip):
     - header fields within their types, vars <= maxd                          (HdrOK)
     - unless the header is ignored, a non-zero clause count is the number of clauses (clause_limit bookkeeping, FOk)
     - literals non-zero and within the limit in force, prefixes within theirs  (lits_within / prefix_within)
   Nothing is missing; LayoutProofs.write_parse_roundtrip_all_runs then applies to the written text. *)
From Flussab Require Import Base Reader ListN Writer Parsed Prog Text TextSpec ProgProofs ScanProofs DigitsProofs.
From Flussab Require Import ReaderProofs Simulation Consts Cnf CnfProofs ErrProofs Hoare CnfSafe CnfLimits.
From Flussab Require Import Layout LayoutTok LayoutClause LayoutProofs.
Ltac Zify.zify_post_hook ::= Z.to_euclidean_division_equations.
Local Open Scope N_scope.

Lemma in_usize_intro z : (0 <= z <= 18446744073709551615)%Z -> in_range Usize z = true.
Proof. intros H. apply in_range_iff. change (ity_min Usize) with 0%Z. change (ity_max Usize) with 18446744073709551615%Z. exact H. Qed.

Lemma in_u64_intro z : (0 <= z <= 18446744073709551615)%Z -> in_range U64 z = true.
Proof. intros H. apply in_range_iff. change (ity_min U64) with 0%Z. change (ity_max U64) with 18446744073709551615%Z. exact H. Qed.

Lemma lit_limit_of_init ih maxd ho : lit_limit (init_state maxd ih ho) = lit_limit_of ih maxd ho.
Proof. destruct ho as [h|]; reflexivity. Qed.

Lemma group_limit_of_init ih maxd ho : group_limit (init_state maxd ih ho) = group_limit_of ih ho.
Proof. destruct ho as [h|]; reflexivity. Qed.

Lemma item_ok_of_limits S k llimit glimit it :
  prefix_within S k glimit (fst it) -> lits_within S llimit (snd it) -> item_ok k llimit glimit it = true.
Proof.
  intros Hp Hl. unfold item_ok. apply andb_true_intro. split.
  - destruct k; cbn [prefix_within prefix_ok] in *.
    + apply Z.eqb_eq. exact Hp.
    + apply in_u64_intro. exact (proj1 Hp).
    + destruct Hp as [[H1 H2] _]. apply andb_true_intro. split; apply Z.leb_le; assumption.
  - apply forallb_forall. intros z Hz. unfold lits_within in Hl. rewrite Forall_forall in Hl.
    destruct (Hl z Hz) as (H0 & Habs & _). unfold lit_ok.
    apply andb_true_intro. split; [apply andb_true_intro; split|].
    + apply negb_true_iff. apply Z.eqb_neq. exact H0.
    + apply Z.leb_le. lia.
    + apply Z.leb_le. lia.
Qed.

(* the value of an accepted text is in the domain of the round trip *)
Theorem dimacs_accepted_doc_ok fuel k maxd ih S ho items lr' v' :
  Forall (fun b => b < 256) S -> nlen S < 2 ^ 62 -> (length S < fuel)%nat -> (maxd <= max_dimacs_isize)%Z ->
  aruns (parse_dimacs fuel k maxd ih lrs_init) (view_init S None) (ADone (Some ho, items, FOk, lr') v') ->
  doc_ok ih k maxd {| d_hdr := ho; d_items := items |} = true.
Proof.
  intros Hb Hl Hf Hm Hr.
  destruct (parse_dimacs_limits fuel k maxd ih S None _ Hb Hl Hf Hr) as (hdr & items0 & fin0 & lr0 & v0 & E & Hlim).
  inversion E; subst hdr items0 fin0 lr0 v0. cbv zeta in Hlim. destruct Hlim as (Hh & Hall & Hc).
  rewrite lit_limit_of_init, group_limit_of_init in Hall.
  unfold doc_ok. cbn [d_hdr d_items]. apply andb_true_intro. split.
  - destruct ho as [h|]; [|reflexivity]. destruct Hh as (Hv & _ & Hcr & _ & Hex).
    apply andb_true_intro. split.
    + unfold header_ok. unfold max_dimacs_isize in Hm.
      apply andb_true_intro. split; [apply andb_true_intro; split; [apply andb_true_intro; split; [apply andb_true_intro; split|]|]|].
      * apply Z.leb_le. lia.
      * apply Z.leb_le. lia.
      * apply in_usize_intro. lia.
      * exact Hcr.
      * destruct k; cbn [extra_ok]; [apply Z.eqb_eq; exact Hex|exact (proj1 Hex)|exact (proj1 Hex)].
    + cbn [init_state clause_limit_active clause_limit] in Hc.
      destruct ih; [reflexivity|]. cbn [negb andb orb] in Hc |- *.
      destruct (h_clauses h =? 0)%Z eqn:E0; [reflexivity|]. cbn [negb orb] in Hc |- *.
      destruct (Hc eq_refl) as [_ Hc2]. apply Z.eqb_eq. symmetry. exact (Hc2 eq_refl).
  - apply forallb_forall. intros it Hit. rewrite Forall_forall in Hall. destruct (Hall it Hit) as [Hp Hli].
    eapply item_ok_of_limits; eassumption.
Qed.
Print Assumptions dimacs_accepted_doc_ok.

(* C03, second sentence, DIMACS family, every admissible run of both parses, every configuration (format k,
   Config::ignore_header ih, variable limit maxd up to isize::MAX -- the limit of the literal type).
   Hypotheses: S consists of bytes, is shorter than 2^62 and than the model's loop fuel; the same two size conditions
   for the written text (a different text: the writer normalizes the layout and drops comments). *)
Theorem dimacs_converse_all_runs fuel k maxd ih S ho items lr' v' r :
  Forall (fun b => b < 256) S -> nlen S < 2 ^ 62 -> (length S < fuel)%nat -> (maxd <= max_dimacs_isize)%Z ->
  let d := {| d_hdr := ho; d_items := items |} in
  (length (write_doc k d) < fuel)%nat -> nlen (write_doc k d) < 2 ^ 62 ->
  aruns (parse_dimacs fuel k maxd ih lrs_init) (view_init S None) (ADone (Some ho, items, FOk, lr') v') ->
  aruns (parse_dimacs fuel k maxd ih lrs_init) (view_init (write_doc k d) None) r ->
  doc_ok ih k maxd d = true /\ exists lr2 v2, r = ADone (Some ho, items, FOk, lr2) v2.
Proof.
  intros Hb Hl Hf Hm d Hfw Hlw Hr Hr2.
  pose proof (dimacs_accepted_doc_ok fuel k maxd ih S ho items lr' v' Hb Hl Hf Hm Hr) as Hd. fold d in Hd.
  split; [exact Hd|]. exact (write_parse_roundtrip_all_runs fuel k maxd ih d r Hm Hd Hfw Hlw Hr2).
Qed.
Print Assumptions dimacs_converse_all_runs.

(* concrete runs of the DeferredReader model: the accepted text and the written text from any honest sources, in any
   pieces, with any chunk sizes *)
Theorem dimacs_converse_concrete fuel k maxd ih (sr1 sr2 : source) (c1 c2 : N) ho items lr1 s1 :
  let S := fst (stream_of sr1) in
  Forall (fun b => b < 256) S -> nlen S < 2 ^ 62 -> (length S < fuel)%nat -> (maxd <= max_dimacs_isize)%Z ->
  let d := {| d_hdr := ho; d_items := items |} in
  (length (write_doc k d) < fuel)%nat -> nlen (write_doc k d) < 2 ^ 62 ->
  NoLie (events sr1) -> 1 <= c1 -> snd (stream_of sr1) = None ->
  crun (parse_dimacs fuel k maxd ih lrs_init) (set_chunk (reader_init sr1) c1) = CDone (Some ho, items, FOk, lr1) s1 ->
  NoLie (events sr2) -> 1 <= c2 -> stream_of sr2 = (write_doc k d, None) ->
  exists lr2 s2, crun (parse_dimacs fuel k maxd ih lrs_init) (set_chunk (reader_init sr2) c2)
                 = CDone (Some ho, items, FOk, lr2) s2.
Proof.
  intros S Hb Hl Hf Hm d Hfw Hlw HN1 Hc1 Hs1 Hrun HN2 Hc2 Hs2.
  destruct (parse_dimacs_any_chunking fuel k maxd ih sr1 c1 HN1 Hc1 Hb Hl Hf) as (x & v' & s' & E & C).
  rewrite Hrun in C. inversion C; subst x s'.
  assert (Har : aruns (parse_dimacs fuel k maxd ih lrs_init) (view_init S None) (ADone (Some ho, items, FOk, lr1) v')).
  { rewrite <- E. rewrite <- Hs1. apply srun_aruns. unfold WFV. cbn. lia. }
  pose proof (dimacs_accepted_doc_ok fuel k maxd ih S ho items lr1 v' Hb Hl Hf Hm Har) as Hd. fold d in Hd.
  exact (write_parse_roundtrip_concrete fuel k maxd ih d sr2 c2 Hm Hd Hfw Hlw HN2 Hc2 Hs2).
Qed.
Print Assumptions dimacs_converse_concrete.

(* non-vacuity: an accepted text that is not in the writer's layout: "c x\np  cnf 3 2\n1 -2\n 3 0\n-1 -0" (a comment,
   two blanks in the header, a clause over two lines, "-0", no final newline) *)
Example dimacs_converse_example :
  let S := [99;32;120;10; 112;32;32;99;110;102;32;51;32;50;10; 49;32;45;50;10; 32;51;32;48;10;45;49;32;45;48] in
  exists ho items lr v',
    srun (parse_dimacs 100 KCnf max_dimacs_i32 false lrs_init) (view_init S None) = ADone (Some ho, items, FOk, lr) v' /\
    let d := {| d_hdr := ho; d_items := items |} in
    write_doc KCnf d <> S /\
    exists lr2 v2, srun (parse_dimacs 100 KCnf max_dimacs_i32 false lrs_init) (view_init (write_doc KCnf d) None)
                   = ADone (Some ho, items, FOk, lr2) v2.
Proof.
  cbv zeta. do 4 eexists. split; [vm_compute; reflexivity|]. split; [vm_compute; discriminate|].
  do 2 eexists. vm_compute. reflexivity.
Qed.
