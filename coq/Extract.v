(* Extract.v — extraction of the executable model for the correspondence
   driver.  ExtrOcamlBasic only: bool/option/list/prod/unit/sumbool map to
   OCaml's own; nat, positive, N, Z stay inductive.  No Extract Constant. *)
Require Extraction.
Require Import ExtrOcamlBasic.
From Flussab Require Import Base Consts Parsed Reader Writer Prog Text Cnf Aiger AigerStream AigerWrite Btor2 Layout.
Extraction "extracted/model.ml"
  Parsed.err_into Parsed.or_give_up Parsed.optional Parsed.matches Parsed.or_parse
  Parsed.or_always_parse Parsed.and_then Parsed.and_also Parsed.and_do Parsed.map
  Parsed.map_err Parsed.from_result Parsed.r_err_into Parsed.r_and_also Parsed.r_and_do
  Reader.reader_init Reader.run Reader.source_of_buf_reader
  Writer.writer_init Writer.wrun Writer.decimal Writer.in_range
  Prog.crun Prog.srun Prog.view_init Reader.step
  Text.ascii_digits Text.signed_ascii_digits Text.ascii_digits_multi Text.signed_ascii_digits_multi
  Text.tabs_or_spaces Text.newline Text.next_newline Text.fixed Text.swar
  Cnf.parse_dimacs Cnf.parse_log Cnf.lrs_init
  Aiger.parse_aag Aiger.parse_aig Aiger.whole_file
  AigerStream.parse_aag_take AigerStream.parse_aig_take
  AigerWrite.write_aag AigerWrite.write_aag_ordered AigerWrite.write_aig_checked
  Layout.write_doc
  Consts.max_code_u8 Consts.max_code_u16 Consts.max_code_u32 Consts.max_code_u64 Consts.max_code_usize
  Btor2.parse_btor2 Btor2.write_line Btor2.unop_variant Btor2.binop_variant Btor2.ternop_variant
  Btor2.binary_const_try_from Btor2.decimal_const_try_from Btor2.hex_const_try_from
  Consts.max_dimacs_i8 Consts.max_dimacs_i16 Consts.max_dimacs_i32 Consts.max_dimacs_i64 Consts.max_dimacs_isize
  Z.add N.add N.mul N.sub N.div_eucl N.eqb N.ltb N.leb N.of_nat N.to_nat.

(* C12: the renumbering model goes into its own OCaml module (std++ brings its own [map], [rev], ...
   and would otherwise shift the names the other streams' drivers use). *)
From Flussab Require Import Aig Renumber.
Extraction "extracted/model_rn.ml"
  Renumber.renumber_aig Aig.aig_of_ordered Aig.lm_get Renumber.r_map.
