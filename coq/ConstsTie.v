(* ConstsTie.v — the hand-written model agrees with the constants regenerated from the source. *)
From Flussab Require Import Base Consts Reader Writer.

Lemma reader_chunk_tie : Reader.DEFAULT_CHUNK_SIZE = Consts.reader_default_chunk_size.
Proof. reflexivity. Qed.

Lemma writer_cap_tie : Writer.DEFAULT_CAP = Consts.writer_default_chunk_size.
Proof. reflexivity. Qed.

(* realign once more than two chunks have been consumed; shrink when four times too large *)
Lemma reader_threshold_tie : Consts.reader_realign_factor = 2 /\ Consts.reader_shrink_factor = 4.
Proof. split; reflexivity. Qed.

(* every literal type's DIMACS limit fits the type: the cast in from_dimacs is lossless *)
Lemma max_dimacs_fit :
  (max_dimacs_i8 <= ity_max I8 /\ max_dimacs_i16 <= ity_max I16 /\ max_dimacs_i32 <= ity_max I32 /\
   max_dimacs_i64 <= ity_max I64 /\ max_dimacs_isize <= ity_max Isize)%Z /\
  (max_dimacs_i8 <= ity_max Isize /\ max_dimacs_i16 <= ity_max Isize /\ max_dimacs_i32 <= ity_max Isize /\
   max_dimacs_i64 <= ity_max Isize)%Z /\
  (0 < max_dimacs_i8 /\ 0 < max_dimacs_i16 /\ 0 < max_dimacs_i32 /\ 0 < max_dimacs_i64 /\ 0 < max_dimacs_isize)%Z.
Proof. vm_compute. repeat split; congruence. Qed.

(* the BTOR2 writer's operator names are exactly the parser's keywords for the same operators *)
Lemma btor2_names_tie : Consts.btor2_names_roundtrip = true.
Proof. reflexivity. Qed.
