(* CnfLimits.v — C06 end to end for the DIMACS family and the solver log: what the parsers hand out respects
   every limit the input declares (number of clauses, variable count, group count) and the limits of the types,
   and every number handed out is the value of a numeral of the text.  Functional postconditions threaded through
   clause_tok, next_clause_loop (the clause_count / clause_limit bookkeeping), drive, parser_new with the logic of
   Hoare.v, on top of the token lemmas of CnfSafe.v. *)
From Flussab Require Import Base Reader ListN Writer Parsed Prog Text TextSpec ProgProofs ScanProofs DigitsProofs.
From Flussab Require Import ReaderProofs Simulation Consts Cnf CnfProofs ErrProofs Hoare CnfSafe.
Ltac Zify.zify_post_hook ::= Z.to_euclidean_division_equations.

(* z is the value of the (signed / unsigned) decimal numeral at some position of the text *)
Definition num_at (S : bytes) (sg : bool) (z : Z) : Prop := exists p, z = num_value sg (nskipn p S).

(* a literal handed out under the limit [limit]: not the terminator, within the limit, an isize, read from the text *)
Definition LitOK (S : bytes) (limit : Z) (z : Z) : Prop :=
  z <> 0%Z /\ (- limit <= z <= limit)%Z /\ in_range Isize z = true /\ num_at S true z.

Lemma num_at_rest v sg off z : z = num_value sg (rest_at v off) -> num_at (vS v) sg z.
Proof. intros H. exists (vcur v + off). exact H. Qed.

(* the prefix of a clause: nothing for cnf, a u64 weight for wcnf, a group index within the group limit for gcnf *)
Definition PreOK (S : bytes) (k : dkind) (glimit : Z) (pre : Z) : Prop :=
  match k with
  | KCnf => pre = 0%Z
  | KWcnf => in_range U64 pre = true /\ num_at S false pre
  | KGcnf => in_range Usize pre = true /\ (pre <= glimit)%Z /\ num_at S false pre
  end.

Definition ItemOK (S : bytes) (k : dkind) (llimit glimit : Z) (it : Z * list Z) : Prop :=
  PreOK S k glimit (fst it) /\ Forall (LitOK S llimit) (snd it).

(* the parser state after handing out a clause *)
Definition bump (st : pstate) : pstate :=
  {| clause_count := clause_count st + 1; clause_limit := clause_limit st;
     clause_limit_active := clause_limit_active st; lit_limit := lit_limit st;
     group_limit := group_limit st; phdr := phdr st |}.

(* a header as accepted by parse_header *)
Definition HdrOK (S : bytes) (k : dkind) (maxd : Z) (h : header) : Prop :=
  (0 <= h_vars h <= maxd)%Z /\ num_at S false (h_vars h) /\
  in_range Usize (h_clauses h) = true /\ num_at S false (h_clauses h) /\
  match k with
  | KCnf => h_extra h = 0%Z
  | KWcnf => in_range U64 (h_extra h) = true /\ num_at S false (h_extra h)
  | KGcnf => in_range Usize (h_extra h) = true /\ num_at S false (h_extra h)
  end.

(* the parser state Parser::new builds from the header (or its absence) *)
Definition init_state (maxd : Z) (ignore_header : bool) (ho : option header) : pstate :=
  match ho with
  | None =>
      {| clause_count := 0; clause_limit := 0; clause_limit_active := false; lit_limit := maxd;
         group_limit := USIZE_MAX; phdr := None |}
  | Some hd =>
      let use := negb ignore_header in
      {| clause_count := 0;
         clause_limit := if use && negb (h_clauses hd =? 0)%Z then h_clauses hd else 0%Z;
         clause_limit_active := use && negb (h_clauses hd =? 0)%Z;
         lit_limit := if use && negb (h_vars hd =? 0)%Z then h_vars hd else maxd;
         group_limit := if use && negb (h_extra hd =? 0)%Z then h_extra hd else USIZE_MAX;
         phdr := Some hd |}
  end.

Section Limits.
Variable fuel : nat.

Local Notation K := (K fuel).
Local Notation TokPost := (TokPost fuel).
Local Notation Gk := (Gk fuel).
Local Notation Gs := (Gs fuel).

(* what is known of a literal just read *)
Definition LitRead (S : bytes) (z : Z) : Prop := in_range Isize z = true /\ num_at S true z.

Lemma lit_tok_lim lr v : K lr v -> MarkOK lr v ->
  prt (lit_tok fuel) lr v (TokPost (fun z lr' v' => Gnum fuel lr v z lr' v' /\ LitRead (vS v) z) v).
Proof.
  intros HK HM. eapply prt_conseq; [apply lit_tok_val; assumption|]. intros a lr' v' Ha.
  eapply TokPost_weaken; [exact Ha|]. intros x [H [Hr Hv]]. split; [exact H|]. split; [exact Hr|].
  eapply num_at_rest. exact Hv.
Qed.

Lemma LitOK_frame v v' limit acc : frame v v' -> Forall (LitOK (vS v) limit) acc -> Forall (LitOK (vS v') limit) acc.
Proof. intros (Hs & _). rewrite Hs. auto. Qed.

Lemma clause_lits_loop_lim n : forall limit lit acc lr v, K lr v -> MarkOK lr v -> meas v n ->
  Forall (LitOK (vS v) limit) acc -> LitRead (vS v) lit ->
  prt (clause_lits_loop fuel n limit lit acc) lr v
      (ResPost (fun ls lr' v' => K lr' v' /\ Forall (LitOK (vS v) limit) ls) v).
Proof.
  induction n as [|n IH]; intros limit lit acc lr v HK HM Hm Hacc Hlit; [exfalso; unfold meas in Hm; lia|].
  cbn [clause_lits_loop].
  destruct (lit =? 0)%Z eqn:E0; [apply prt_pret; split; [apply frame_refl|split; [exact HK|apply Forall_rev; exact Hacc]]|].
  destruct ((- limit <=? lit) && (lit <=? limit))%Z eqn:Er.
  2: { apply prt_pbnd. eapply prt_conseq; [apply (give_up_at_mark_ok fuel lr v v HM HK (frame_refl v) eq_refl)|].
       intros e lr1 v1 [Hf He]. apply prt_pret. split; assumption. }
  assert (Hacc' : Forall (LitOK (vS v) limit) (lit :: acc)).
  { constructor; [|exact Hacc]. apply andb_prop in Er. destruct Er as [E1 E2]. apply Z.leb_le in E1, E2.
    apply Z.eqb_neq in E0. destruct Hlit as [Hr Ha]. split; [exact E0|]. split; [split; assumption|]. split; assumption. }
  (* continuing with the next literal, read in a later state *)
  assert (Hnext : forall next lr' v', K lr' v' -> MarkOK lr' v' -> frame v v' -> vcur v < vcur v' -> LitRead (vS v') next ->
            prt (clause_lits_loop fuel n limit next (lit :: acc)) lr' v'
                (ResPost (fun ls lr'' v'' => K lr'' v'' /\ Forall (LitOK (vS v) limit) ls) v)).
  { intros next lr' v' HK' HM' Hf' Hlt' Hn'. pose proof Hf' as (Hs & _).
    eapply prt_conseq; [apply IH; [exact HK'|exact HM'|eapply (meas_step fuel); eassumption|rewrite Hs; exact Hacc'|exact Hn']|].
    intros a lr3 v3 Ha. rewrite Hs in Ha. eapply ResPost_frame; eassumption. }
  apply prt_pbnd, prt_pset_mark.
  pose proof (MarkOK_setmark fuel lr v HK) as HM0. pose proof (K_setmark fuel lr v HK) as HK0.
  pose proof (frame_setmark v) as Hf0.
  apply prt_pbnd. eapply prt_conseq; [apply lit_tok_lim; [exact HK0|exact HM0]|].
  intros r lr1 v1 [Hf Hr]. pose proof (frame_trans _ _ _ Hf0 Hf) as Hf1.
  destruct r as [[next|e]|].
  - destruct Hr as [(-> & HK1 & Hmk & Hlt) Hrd]. cbn [v_setmark vmark vcur vS] in Hmk, Hlt, Hrd.
    apply Hnext; [exact HK1| |exact Hf1|exact Hlt|].
    + destruct HK as [_ (h1 & _)]. unfold MarkOK. rewrite Hmk. lia.
    + destruct Hf1 as (Hs & _). rewrite Hs. exact Hrd.
  - apply prt_pret. split; assumption.
  - apply prt_pbnd. eapply prt_conseq; [apply non_terminating_linebreaks_ok; exact Hr|].
    intros lb lr2 v2 [Hf2 Hlb]. pose proof (frame_trans _ _ _ Hf1 Hf2) as Hf12.
    destruct lb as [[|]|e].
    + apply prt_pbnd, prt_pset_mark.
      pose proof (MarkOK_setmark fuel lr2 v2 Hlb) as HM2. pose proof (K_setmark fuel lr2 v2 Hlb) as HK2.
      apply prt_pbnd. eapply prt_conseq; [apply (or_unexpected_ok fuel); apply lit_tok_lim; [exact HK2|exact HM2]|].
      intros r2 lr3 v3 [Hf3 Hr2]. pose proof (frame_trans _ _ _ (frame_setmark v2) Hf3) as Hf23.
      pose proof (frame_trans _ _ _ Hf12 Hf23) as Hf13.
      destruct r2 as [next|e].
      * destruct Hr2 as [(-> & HK3 & Hmk & Hlt) Hrd]. cbn [v_setmark vmark vcur vS] in Hmk, Hlt, Hrd.
        apply Hnext; [exact HK3| |exact Hf13| |].
        -- destruct Hlb as [_ (h1 & _)]. unfold MarkOK. rewrite Hmk. lia.
        -- destruct Hf12 as (_ & _ & Hc). lia.
        -- destruct Hf23 as (Hs & _). rewrite Hs. exact Hrd.
      * apply prt_pret. split; assumption.
    + apply prt_pbnd. eapply prt_conseq; [apply (unexpected_ok fuel); exact Hlb|]. intros e lr3 v3 [Hf3 He].
      apply prt_pret. split; [eapply frame_trans; eassumption|exact He].
    + apply prt_pret. split; assumption.
Qed.

Lemma clause_lits_lim limit lr v : K lr v ->
  prt (clause_lits fuel limit) lr v (TokPost (fun ls lr' v' => Gs v ls lr' v' /\ Forall (LitOK (vS v) limit) ls) v).
Proof.
  intros HK. unfold clause_lits, tok_err, tok_ft. apply prt_pbnd, prt_pset_mark.
  pose proof (MarkOK_setmark fuel lr v HK) as HM0. pose proof (K_setmark fuel lr v HK) as HK0.
  pose proof (frame_setmark v) as Hf0.
  apply prt_pbnd. eapply prt_conseq; [apply lit_tok_lim; [exact HK0|exact HM0]|].
  intros r lr1 v1 [Hf Hr]. pose proof (frame_trans _ _ _ Hf0 Hf) as Hf1.
  destruct r as [[lit|e]|].
  - destruct Hr as [(-> & HK1 & Hmk & Hlt) Hrd]. cbn [v_setmark vmark vcur vS] in Hmk, Hlt, Hrd.
    pose proof Hf1 as (Hs & _).
    apply prt_pbnd. eapply prt_conseq; [apply clause_lits_loop_lim; [exact HK1| |eapply (meas_init fuel); exact HK1|constructor|rewrite Hs; exact Hrd]|].
    + destruct HK as [_ (h1 & _)]. unfold MarkOK. rewrite Hmk. lia.
    + intros r2 lr2 v2 [Hf2 Hr2]. apply prt_pret. split; [eapply frame_trans; eassumption|].
      destruct r2 as [ls|e]; [|exact Hr2]. destruct Hr2 as [HK2 Hin]. rewrite Hs in Hin. split; [|exact Hin].
      split; [exact HK2|]. destruct Hf2 as (_ & _ & Hc). lia.
  - apply prt_pret. split; assumption.
  - apply prt_pret. split; assumption.
Qed.

(* ---------- clauses ---------- *)
Lemma clause_tail_lim (pre : Z) (ls : list Z) v lr1 v1 :
  K lr1 v1 -> frame v v1 -> vcur v < vcur v1 ->
  prt (let* e := or_unexpected (interactive_end_of_line fuel) in
       match e with Ok _ => tok_ok (pre, ls) | Err er => tok_err er end) lr1 v1
      (TokPost (fun it lr' v' => Gs v it lr' v' /\ it = (pre, ls)) v).
Proof.
  intros HK1 Hf Hlt. apply prt_pbnd.
  eapply prt_conseq; [apply (or_unexpected_ok fuel); apply interactive_end_of_line_ok; exact HK1|].
  intros e lr2 v2 [Hf2 He]. pose proof (frame_trans _ _ _ Hf Hf2) as Hf12.
  destruct e as [u4|er]; apply prt_pret; (split; [exact Hf12|]); [|exact He].
  split; [|reflexivity]. split; [exact He|]. destruct Hf2 as (_ & _ & Hc). lia.
Qed.

Lemma clause_tok_lim k st lr v : K lr v ->
  prt (clause_tok fuel k st) lr v
      (TokPost (fun it lr' v' => Gs v it lr' v' /\ ItemOK (vS v) k (lit_limit st) (group_limit st) it) v).
Proof.
  intros HK.
  assert (Hpre : forall (p : tok Z), prt p lr v (TokPost (fun z lr' v' => Gs v z lr' v' /\ PreOK (vS v) k (group_limit st) z) v) ->
    prt (let* p := p in
         match p with
         | Res (Ok pre) =>
             let* lb := non_terminating_linebreaks fuel in
             match lb with
             | Err e => tok_err e
             | Ok _ =>
                 let* ls := or_unexpected (clause_lits fuel (lit_limit st)) in
                 match ls with
                 | Err e => tok_err e
                 | Ok ls =>
                     let* e := or_unexpected (interactive_end_of_line fuel) in
                     match e with Ok _ => tok_ok (pre, ls) | Err er => tok_err er end
                 end
             end
         | Res (Err e) => tok_err e
         | Fallthrough => tok_ft
         end) lr v (TokPost (fun it lr' v' => Gs v it lr' v' /\ ItemOK (vS v) k (lit_limit st) (group_limit st) it) v)).
  { intros p Hp. apply prt_pbnd. eapply prt_conseq; [exact Hp|]. intros r lr1 v1 [Hf Hr].
    destruct r as [[pre|e]|]; [|apply prt_pret; split; assumption..].
    destruct Hr as [[HK1 Hlt] HP].
    apply prt_pbnd. eapply prt_conseq; [apply non_terminating_linebreaks_ok; exact HK1|].
    intros lb lr2 v2 [Hf2 Hlb]. pose proof (frame_trans _ _ _ Hf Hf2) as Hf12.
    destruct lb as [b|e]; [|apply prt_pret; split; assumption].
    apply prt_pbnd. eapply prt_conseq; [apply (or_unexpected_ok fuel); apply clause_lits_lim; exact Hlb|].
    intros ls lr3 v3 [Hf3 Hls]. pose proof (frame_trans _ _ _ Hf12 Hf3) as Hf13.
    destruct ls as [ls|e]; [|apply prt_pret; split; assumption].
    destruct Hls as [[HK3 Hlt3] Hlits]. destruct Hf12 as (Hs2 & _ & Hc2). rewrite Hs2 in Hlits.
    eapply prt_conseq; [apply clause_tail_lim; [exact HK3|exact Hf13|lia]|].
    intros a lr4 v4 Ha. eapply TokPost_weaken; [exact Ha|]. intros it [Hg ->]. split; [exact Hg|]. split; assumption. }
  unfold clause_tok. destruct k.
  - apply prt_pbnd. eapply prt_conseq; [apply clause_lits_lim; exact HK|]. intros r lr1 v1 [Hf Hr].
    destruct r as [[ls|e]|]; [|apply prt_pret; split; assumption..].
    destruct Hr as [[HK1 Hlt] Hlits].
    eapply prt_conseq; [apply clause_tail_lim; [exact HK1|exact Hf|exact Hlt]|].
    intros a lr4 v4 Ha. eapply TokPost_weaken; [exact Ha|]. intros it [Hg ->]. split; [exact Hg|]. split; [reflexivity|exact Hlits].
  - apply Hpre. eapply prt_conseq; [apply uint_count_val; exact HK|]. intros a lr' v' Ha.
    eapply TokPost_weaken; [exact Ha|]. intros z [Hg [Hr Hv]]. split; [exact Hg|]. split; [exact Hr|eapply num_at_rest; exact Hv].
  - apply Hpre. eapply prt_conseq; [apply clause_group_val; exact HK|]. intros a lr' v' Ha.
    eapply TokPost_weaken; [exact Ha|]. intros z [Hg (Hr & Hv & Hle)]. split; [exact Hg|]. split; [exact Hr|]. split; [exact Hle|].
    apply (num_at_rest v false 1). exact Hv.
Qed.

(* Parser::next_clause with its bookkeeping: an item is handed out only while the declared number of clauses has
   not been reached; the clean end is accepted only once it has *)
Definition NextLim (k : dkind) (st : pstate) (v : view) (r : result (option (Z * list Z)) perr * pstate)
                   (lr' : lrs) (v' : view) : Prop :=
  NextPost fuel v r lr' v' /\
  match fst r with
  | Ok (Some it) => ItemOK (vS v) k (lit_limit st) (group_limit st) it /\ snd r = bump st /\
                    (clause_limit_active st = true -> clause_count st <> clause_limit st)
  | Ok None => snd r = st /\ (clause_limit_active st = true -> (clause_limit st <= clause_count st)%Z)
  | Err _ => True
  end.

Lemma NextLim_frame k st v0 v r lr' v' : frame v0 v -> NextLim k st v r lr' v' -> NextLim k st v0 r lr' v'.
Proof.
  intros Hf0 [Hn Hr]. split; [eapply NextPost_frame; eassumption|]. destruct Hf0 as (Hs & _). rewrite <- Hs. exact Hr.
Qed.

Lemma next_clause_loop_lim n : forall k st lr v, K lr v -> meas v n ->
  prt (next_clause_loop fuel n k st) lr v (NextLim k st v).
Proof.
  induction n as [|n IH]; intros k st lr v HK Hm; [exfalso; unfold meas in Hm; lia|]. cbn [next_clause_loop].
  apply prt_pbnd.
  apply (prt_conseq _ _ _ (TokPost (fun it lr' v' => Gs v it lr' v' /\ ItemOK (vS v) k (lit_limit st) (group_limit st) it /\
             (clause_limit_active st = true -> clause_count st <> clause_limit st)) v)).
  { destruct (negb (clause_count st =? clause_limit st)%Z || negb (clause_limit_active st)) eqn:Ec;
      [|apply prt_pret; split; [apply frame_refl|exact HK]].
    eapply prt_conseq; [apply clause_tok_lim; exact HK|]. intros a lr' v' Ha.
    eapply TokPost_weaken; [exact Ha|]. intros it [Hg Hi]. split; [exact Hg|]. split; [exact Hi|].
    intros Hact. rewrite Hact in Ec. cbn [negb] in Ec. rewrite orb_false_r in Ec.
    apply negb_true_iff in Ec. apply Z.eqb_neq in Ec. exact Ec. }
  intros c lr1 v1 [Hf Hc]. destruct c as [[item|e]|].
  - destruct Hc as (Hg & Hi & Hne). apply prt_pret. split; [split; [exact Hf|exact Hg]|].
    cbn [fst snd]. split; [exact Hi|]. split; [reflexivity|exact Hne].
  - apply prt_pret. split; [split; assumption|exact I].
  - apply prt_pbnd.
    eapply prt_conseq; [apply (matches_tok_ok fuel _ (fun lr' v' => K lr' v' /\ vcur v1 < vcur v')); apply comment_ok; exact Hc|].
    intros cm lr2 v2 [Hf2 Hcm]. pose proof (frame_trans _ _ _ Hf Hf2) as Hf12. destruct cm as [[|]|e].
    + destruct Hcm as [HK2 Hlt].
      eapply prt_conseq; [apply IH; [exact HK2|eapply (meas_step fuel lr2 v v2); [exact Hm|exact Hf12| |exact HK2]]|].
      * destruct Hf as (_ & _ & Hc1). lia.
      * intros a lr3 v3 Ha. eapply NextLim_frame; eassumption.
    + apply prt_pbnd.
      eapply prt_conseq; [apply (matches_tok_ok fuel _ (fun lr' v' => K lr' v' /\ vcur v2 < vcur v')); apply tnewline_ok; exact Hcm|].
      intros nl lr3 v3 [Hf3 Hnl]. pose proof (frame_trans _ _ _ Hf12 Hf3) as Hf13. destruct nl as [[|]|e].
      * destruct Hnl as [HK3 Hlt].
        eapply prt_conseq; [apply IH; [exact HK3|eapply (meas_step fuel lr3 v v3); [exact Hm|exact Hf13| |exact HK3]]|].
        -- destruct Hf12 as (_ & _ & Hc1). lia.
        -- intros a lr4 v4 Ha. eapply NextLim_frame; eassumption.
      * assert (Hun : prt (let* e := unexpected in pret (Err e, st)) lr3 v3 (NextLim k st v)).
        { apply prt_pbnd. eapply prt_conseq; [apply (unexpected_ok fuel); exact Hnl|]. intros e lr4 v4 [Hf4 He].
          apply prt_pret. split; [split; [eapply frame_trans; eassumption|exact He]|exact I]. }
        destruct (negb (clause_limit_active st) || (clause_limit st <=? clause_count st)%Z) eqn:Ee; [|exact Hun].
        apply prt_pbnd.
        eapply prt_conseq; [apply (matches_tok_ok fuel _ (fun lr' v' => K lr' v' /\ vfail v' = None)); apply teof_ok; exact Hnl|].
        intros ef lr4 v4 [Hf4 Hef]. pose proof (frame_trans _ _ _ Hf13 Hf4) as Hf14. destruct ef as [[|]|e].
        -- apply prt_pret. split; [split; [exact Hf14|destruct Hef as [_ Hfail]; exact Hfail]|].
           cbn [fst snd]. split; [reflexivity|]. intros Hact. rewrite Hact in Ee. cbn [negb orb] in Ee.
           apply Z.leb_le in Ee. exact Ee.
        -- apply prt_pbnd. eapply prt_conseq; [apply (unexpected_ok fuel); exact Hef|]. intros e lr5 v5 [Hf5 He].
           apply prt_pret. split; [split; [eapply frame_trans; eassumption|exact He]|exact I].
        -- apply prt_pret. split; [split; assumption|exact I].
      * apply prt_pret. split; [split; assumption|exact I].
    + apply prt_pret. split; [split; assumption|exact I].
Qed.

Lemma next_clause_lim k st lr v : K lr v -> prt (next_clause fuel k st) lr v (NextLim k st v).
Proof.
  intros HK. unfold next_clause. apply prt_pbnd. eapply prt_conseq; [apply skip_whitespace_ok; exact HK|].
  intros u lr1 v1 (-> & HK1 & Hf1).
  eapply prt_conseq; [apply next_clause_loop_lim; [exact HK1|eapply (meas_init fuel); exact HK1]|].
  intros a lr2 v2 Ha. eapply NextLim_frame; eassumption.
Qed.

(* driving the parser: the items handed out, whatever the final outcome *)
Definition DriveLim (k : dkind) (st : pstate) (acc : list (Z * list Z)) (v : view)
                    (r : list (Z * list Z) * final) (v' : view) : Prop :=
  FinPost v (snd r) v' /\
  exists new, fst r = rev acc ++ new /\
    Forall (ItemOK (vS v) k (lit_limit st) (group_limit st)) new /\
    (clause_limit_active st = true ->
       (clause_count st + Z.of_nat (length new) <= clause_limit st)%Z /\
       (snd r = FOk -> (clause_count st + Z.of_nat (length new) = clause_limit st)%Z)).

Lemma drive_lim n : forall k st acc lr v, K lr v -> meas v n ->
  (clause_limit_active st = true -> (clause_count st <= clause_limit st)%Z) ->
  prt (drive fuel n k st acc) lr v (fun r _ v' => DriveLim k st acc v r v').
Proof.
  induction n as [|n IH]; intros k st acc lr v HK Hm Hcnt; [exfalso; unfold meas in Hm; lia|]. cbn [drive].
  apply prt_pbnd. eapply prt_conseq; [apply next_clause_lim; exact HK|]. intros [r st'] lr1 v1 [[Hf Hr] Hl].
  cbn [fst snd] in Hr, Hl. destruct r as [[item|]|e].
  - destruct Hr as [HK1 Hlt]. destruct Hl as (Hit & -> & Hne).
    eapply prt_conseq; [apply IH; [exact HK1|eapply (meas_step fuel); eassumption|]|].
    + cbn [bump clause_limit_active clause_count clause_limit]. intros Hact. specialize (Hcnt Hact). specialize (Hne Hact). lia.
    + intros a lr2 v2 [[Hf2 Ha] (new & Hnew & Hall & Hc)]. split; [split; [eapply frame_trans; eassumption|exact Ha]|].
      exists (item :: new). cbn [rev] in Hnew. rewrite <- app_assoc in Hnew. split; [exact Hnew|].
      destruct Hf as (Hs & _). rewrite Hs in Hall. cbn [bump lit_limit group_limit clause_limit_active clause_count clause_limit] in Hall, Hc.
      split; [constructor; assumption|]. intros Hact. destruct (Hc Hact) as [Hc1 Hc2]. cbn [length].
      split; [lia|]. intros Hfin. specialize (Hc2 Hfin). lia.
  - destruct Hl as [-> Hle]. apply prt_pret. cbn [fst snd]. split; [split; assumption|].
    exists []. split; [rewrite app_nil_r; reflexivity|]. split; [constructor|].
    intros Hact. cbn [length]. specialize (Hcnt Hact). specialize (Hle Hact). split; [lia|]. intros _. lia.
  - apply prt_pret. cbn [fst snd]. split; [split; assumption|].
    exists []. split; [rewrite app_nil_r; reflexivity|]. split; [constructor|].
    intros Hact. cbn [length]. specialize (Hcnt Hact). split; [lia|]. intros Hfin. discriminate.
Qed.

(* ---------- the header and Parser::new ---------- *)
Lemma in_range_usize z : in_range Usize z = true -> (0 <= z <= USIZE_MAX)%Z.
Proof. intros H. apply in_range_iff in H. exact H. Qed.

Lemma in_range_u64 z : in_range U64 z = true -> (0 <= z <= 18446744073709551615)%Z.
Proof. intros H. apply in_range_iff in H. exact H. Qed.

Lemma num_at_frame v v' sg off z : frame v v' -> z = num_value sg (rest_at v' off) -> num_at (vS v) sg z.
Proof. intros (Hs & _) H. rewrite <- Hs. eapply num_at_rest. exact H. Qed.

Lemma parse_header_lim k maxd lr v : K lr v ->
  prt (parse_header fuel k maxd) lr v
      (ResPost (fun ho lr' v' => K lr' v' /\ match ho with Some h => HdrOK (vS v) k maxd h | None => True end) v).
Proof.
  intros HK. unfold parse_header.
  apply prt_pbnd. eapply prt_conseq; [apply skip_whitespace_ok; exact HK|]. intros u lr1 v1 (-> & HK1 & Hf1).
  apply prt_pbnd. eapply prt_conseq; [apply header_skip_ok; [exact HK1|eapply (meas_init fuel); exact HK1]|].
  intros r0 lr2 v2 [Hf Hr]. pose proof (frame_trans _ _ _ Hf1 Hf) as Hf2. clear Hf Hf1.
  destruct r0 as [u0|e]; [|apply prt_pret; split; assumption].
  apply prt_pbnd. eapply prt_conseq; [apply word_ok; [apply kw_p_ok|apply kw_p_ok|exact Hr]|].
  intros p lr3 v3 [Hf Hp]. pose proof (frame_trans _ _ _ Hf2 Hf) as Hf3. clear Hf Hf2.
  destruct p as [[u1|e]|]; [|apply prt_pret; split; assumption|apply prt_pret; split; [assumption|split; [assumption|exact I]]].
  destruct Hp as [HK3 _].
  apply prt_pbnd. eapply prt_conseq; [apply (or_unexpected_ok fuel); apply word_ok; [apply kw_ok|apply kw_ok|exact HK3]|].
  intros w lr4 v4 [Hf Hw]. pose proof (frame_trans _ _ _ Hf3 Hf) as Hf4. clear Hf Hf3.
  destruct w as [u2|e]; [|apply prt_pret; split; assumption].
  destruct Hw as [HK4 _].
  apply prt_pbnd. eapply prt_conseq; [apply (or_unexpected_ok fuel); apply var_count_val; exact HK4|].
  intros vc lr5 v5 [Hf Hvc]. pose proof (frame_trans _ _ _ Hf4 Hf) as Hf5.
  destruct vc as [vars|e]; [|apply prt_pret; split; assumption].
  destruct Hvc as [[HK5 _] (Hvr & Hvv & Hvle)].
  assert (Hvars : (0 <= vars <= maxd)%Z /\ num_at (vS v) false vars).
  { split; [unfold num_value in Hvv; lia|]. eapply num_at_frame; [exact Hf4|exact Hvv]. }
  clear Hf Hf4 Hvr Hvv Hvle.
  apply prt_pbnd. eapply prt_conseq; [apply (or_unexpected_ok fuel); apply uint_count_val; exact HK5|].
  intros cc lr6 v6 [Hf Hcc]. pose proof (frame_trans _ _ _ Hf5 Hf) as Hf6.
  destruct cc as [clauses|e]; [|apply prt_pret; split; assumption].
  destruct Hcc as [[HK6 _] (Hcr & Hcv)].
  assert (Hcl : num_at (vS v) false clauses) by (eapply num_at_frame; [exact Hf5|exact Hcv]).
  clear Hf Hf5 Hcv.
  apply prt_pbnd.
  apply (prt_conseq _ _ _ (ResPost (fun z lr' v' => K lr' v' /\
           match k with
           | KCnf => z = 0%Z
           | KWcnf => in_range U64 z = true /\ num_at (vS v) false z
           | KGcnf => in_range Usize z = true /\ num_at (vS v) false z
           end) v6)).
  { destruct k.
    - apply prt_pret. split; [apply frame_refl|split; [exact HK6|reflexivity]].
    - eapply prt_conseq; [apply (or_unexpected_ok fuel); apply uint_count_val; exact HK6|].
      intros a lr' v' Ha. eapply ResPost_weaken; [exact Ha|]. intros x [[Hk _] [Hxr Hxv]].
      split; [exact Hk|]. split; [exact Hxr|eapply num_at_frame; [exact Hf6|exact Hxv]].
    - eapply prt_conseq; [apply (or_unexpected_ok fuel); apply uint_count_val; exact HK6|].
      intros a lr' v' Ha. eapply ResPost_weaken; [exact Ha|]. intros x [[Hk _] [Hxr Hxv]].
      split; [exact Hk|]. split; [exact Hxr|eapply num_at_frame; [exact Hf6|exact Hxv]]. }
  intros ex lr7 v7 [Hf Hex]. pose proof (frame_trans _ _ _ Hf6 Hf) as Hf7. clear Hf Hf6.
  destruct ex as [extra|e]; [|apply prt_pret; split; assumption].
  destruct Hex as [HK7 Hext].
  apply prt_pbnd. eapply prt_conseq; [apply (or_unexpected_ok fuel); apply interactive_end_of_line_ok; exact HK7|].
  intros eol lr8 v8 [Hf Heol]. pose proof (frame_trans _ _ _ Hf7 Hf) as Hf8. clear Hf Hf7.
  destruct eol as [u3|e]; apply prt_pret; (split; [exact Hf8|]); [|exact Heol].
  split; [exact Heol|]. unfold HdrOK. cbn [h_vars h_clauses h_extra].
  destruct Hvars as [Hv1 Hv2]. split; [exact Hv1|]. split; [exact Hv2|]. split; [exact Hcr|]. split; [exact Hcl|exact Hext].
Qed.

Lemma parser_new_lim k maxd ih lr v : K lr v ->
  prt (parser_new fuel k maxd ih) lr v
      (ResPost (fun st lr' v' => K lr' v' /\
                  exists ho, st = init_state maxd ih ho /\
                             match ho with Some h => HdrOK (vS v) k maxd h | None => True end) v).
Proof.
  intros HK. unfold parser_new. apply prt_pbnd. eapply prt_conseq; [apply parse_header_lim; exact HK|].
  intros h lr1 v1 [Hf Hh]. destruct h as [[hd|]|e].
  - destruct Hh as [HK1 Hhd]. apply prt_pret. split; [exact Hf|]. split; [exact HK1|].
    exists (Some hd). split; [reflexivity|exact Hhd].
  - destruct Hh as [HK1 _]. apply prt_pbnd, prt_takeerr. destruct (s_take v1) as [io|] eqn:Est.
    + apply prt_pret. split; [exact Hf|]. cbn [ErrPost v_take vfail].
      destruct HK1 as [(_ & _ & _ & Ht) _]. unfold s_take, v_err_now in Est. rewrite Ht in Est.
      destruct (vknown v1); [exact Est|discriminate].
    + apply prt_pret. split; [exact Hf|]. split; [exact HK1|]. exists None. split; [reflexivity|exact I].
  - apply prt_pret. split; assumption.
Qed.

(* the whole parse *)
Definition ParseLim (k : dkind) (maxd : Z) (ih : bool) (v : view)
                    (r : option (option header) * list (Z * list Z) * final) (v' : view) : Prop :=
  FinPost v (snd r) v' /\
  match fst (fst r) with
  | None => snd (fst r) = [] /\ snd r <> FOk
  | Some ho =>
      let st := init_state maxd ih ho in
      match ho with Some h => HdrOK (vS v) k maxd h | None => True end /\
      Forall (ItemOK (vS v) k (lit_limit st) (group_limit st)) (snd (fst r)) /\
      (clause_limit_active st = true ->
         (Z.of_nat (length (snd (fst r))) <= clause_limit st)%Z /\
         (snd r = FOk -> Z.of_nat (length (snd (fst r))) = clause_limit st))
  end.

Lemma parse_dimacs_lim k maxd ih lr v : K lr v ->
  prt (parse_dimacs fuel k maxd ih) lr v (fun r _ v' => ParseLim k maxd ih v r v').
Proof.
  intros HK. unfold parse_dimacs. apply prt_pbnd. eapply prt_conseq; [apply parser_new_lim; exact HK|].
  intros p lr1 v1 [Hf Hp]. destruct p as [st|e].
  2: { apply prt_pret. split; [split; assumption|]. cbn [fst snd]. split; [reflexivity|discriminate]. }
  destruct Hp as [HK1 (ho & -> & Hho)].
  apply prt_pbnd. eapply prt_conseq; [apply drive_lim; [exact HK1|eapply (meas_init fuel); exact HK1|]|].
  - destruct ho as [h|]; cbn [init_state clause_limit_active clause_count clause_limit]; [|discriminate].
    intros Hact. rewrite Hact. destruct Hho as (_ & _ & Hcr & _). apply in_range_usize in Hcr. lia.
  - intros [items fin] lr2 v2 [[Hf2 Hfin] (new & Hnew & Hall & Hc)]. cbn [fst snd rev app] in *. subst items.
    apply prt_pret. split; [split; [eapply frame_trans; eassumption|exact Hfin]|]. cbn [fst snd].
    assert (Hph : phdr (init_state maxd ih ho) = ho) by (destruct ho; reflexivity). rewrite Hph.
    destruct Hf as (Hs & _). rewrite Hs in Hall.
    split; [exact Hho|]. split; [exact Hall|]. intros Hact. destruct (Hc Hact) as [Hc1 Hc2].
    assert (Hz : clause_count (init_state maxd ih ho) = 0%Z) by (destruct ho; reflexivity). rewrite Hz in *.
    split; [lia|]. intros Hfo. specialize (Hc2 Hfo). lia.
Qed.

(* ---------- the solver log ---------- *)
Lemma value_lits_lim n : forall maxd acc lr v, K lr v -> meas v n -> Forall (LitOK (vS v) maxd) acc ->
  prt (value_lits fuel n maxd acc) lr v
      (ResPost (fun r lr' v' => K lr' v' /\ Forall (LitOK (vS v) maxd) (fst r)) v).
Proof.
  induction n as [|n IH]; intros maxd acc lr v HK Hm Hacc; [exfalso; unfold meas in Hm; lia|]. cbn [value_lits].
  apply prt_pbnd, prt_pset_mark.
  pose proof (MarkOK_setmark fuel lr v HK) as HM0. pose proof (K_setmark fuel lr v HK) as HK0.
  pose proof (frame_setmark v) as Hf0.
  apply prt_pbnd. eapply prt_conseq; [apply lit_tok_lim; [exact HK0|exact HM0]|].
  intros r lr1 v1 [Hf Hr]. pose proof (frame_trans _ _ _ Hf0 Hf) as Hf1.
  destruct r as [[lit|e]|]; [|apply prt_pret; split; assumption|apply prt_pret; split; [assumption|split; assumption]].
  destruct Hr as [(-> & HK1 & Hmk & Hlt) [Hrd Hat]]. cbn [v_setmark vS vcur] in Hat, Hlt.
  destruct (lit =? 0)%Z eqn:E0; [apply prt_pret; split; [assumption|split; assumption]|].
  destruct ((- maxd <=? lit) && (lit <=? maxd))%Z eqn:Er.
  - assert (Hin : LitOK (vS v) maxd lit).
    { apply andb_prop in Er. destruct Er as [E1 E2]. apply Z.leb_le in E1, E2. apply Z.eqb_neq in E0.
      split; [exact E0|]. split; [split; assumption|]. split; assumption. }
    pose proof Hf1 as (Hs & _).
    eapply prt_conseq; [apply IH; [exact HK1|eapply (meas_step fuel); eassumption|]|].
    + rewrite Hs. apply Forall_app. split; [exact Hacc|]. constructor; [exact Hin|constructor].
    + intros a lr3 v3 Ha. rewrite Hs in Ha. eapply ResPost_frame; eassumption.
  - apply prt_pbnd. eapply prt_conseq; [apply (give_up_at_mark_ok fuel lr (v_setmark v) v1 HM0 HK1 Hf Hmk)|].
    intros e lr2 v2 [Hf2 He]. apply prt_pret. split; [eapply frame_trans; eassumption|exact He].
Qed.

Definition LogLim (maxd : Z) (v : view) : option bool * list Z -> lrs -> view -> Prop :=
  fun r _ v' => vfail v' = None /\ Forall (LitOK (vS v) maxd) (snd r).

Lemma log_loop_lim n : forall maxd iu st lr v, K lr v -> meas v n -> Forall (LitOK (vS v) maxd) (assignment st) ->
  prt (log_loop fuel n maxd iu st) lr v (ResPost (LogLim maxd v) v).
Proof.
  induction n as [|n IH]; intros maxd iu st lr v HK Hm Hasg; [exfalso; unfold meas in Hm; lia|]. cbn [log_loop].
  assert (Hloop : forall st' lr' v', K lr' v' -> frame v v' -> vcur v < vcur v' -> Forall (LitOK (vS v) maxd) (assignment st') ->
            prt (log_loop fuel n maxd iu st') lr' v' (ResPost (LogLim maxd v) v)).
  { intros st' lr' v' HK' Hf' Hlt' Ha'. pose proof Hf' as (Hs & _).
    eapply prt_conseq; [apply IH; [exact HK'|eapply (meas_step fuel); eassumption|rewrite Hs; exact Ha']|].
    intros a lr3 v3 Ha. unfold LogLim in Ha. rewrite Hs in Ha. eapply ResPost_frame; eassumption. }
  assert (Hun : forall lr' v', K lr' v' -> frame v v' ->
            prt (let* e := unexpected in pret (Err e)) lr' v' (ResPost (LogLim maxd v) v)).
  { intros lr' v' HK' Hf'. apply prt_pbnd. eapply prt_conseq; [apply (unexpected_ok fuel); exact HK'|]. intros e lr4 v4 [Hf4 He].
    apply prt_pret. split; [eapply frame_trans; eassumption|exact He]. }
  apply prt_pbnd. eapply prt_conseq; [apply strict_comments_ok; [exact HK|eapply (meas_init fuel); exact HK]|].
  intros c lr1 v1 [Hf1 Hc]. destruct c as [u|e]; [|apply prt_pret; split; assumption].
  apply prt_pbnd.
  apply (prt_conseq _ _ _ (ResPost (fun (b : bool) lr' v' => if b then K lr' v' /\ vcur v1 < vcur v' else K lr' v') v1)).
  { destruct (finished st); [apply prt_pret; split; [apply frame_refl|exact Hc]|].
    apply matches_tok_ok. apply (tfixed_log_ok fuel log_v); [cbn; tauto|exact Hc]. }
  intros vv lr2 v2 [Hf Hvv]. pose proof (frame_trans _ _ _ Hf1 Hf) as Hf2. destruct vv as [[|]|e];
    [| |apply prt_pret; split; assumption].
  - destruct Hvv as [HK2 Hlt2].
    apply prt_pbnd. eapply prt_conseq; [apply skip_whitespace_ok; exact HK2|]. intros u3 lr3 v3 (-> & HK3 & Hf23).
    pose proof (frame_trans _ _ _ Hf2 Hf23) as Hf3. pose proof Hf3 as (Hs3 & _).
    apply prt_pbnd. eapply prt_conseq; [apply value_lits_lim; [exact HK3|eapply (meas_init fuel); exact HK3|rewrite Hs3; exact Hasg]|].
    intros ls lr4 v4 [Hf34 Hls]. pose proof (frame_trans _ _ _ Hf3 Hf34) as Hf4.
    destruct ls as [[a fin]|e]; [|apply prt_pret; split; assumption].
    destruct Hls as [HK4 Ha]. rewrite Hs3 in Ha. cbn [fst] in Ha.
    apply prt_pbnd. eapply prt_conseq; [apply (or_unexpected_ok fuel); apply interactive_end_of_line_ok; exact HK4|].
    intros e lr5 v5 [Hf45 He]. pose proof (frame_trans _ _ _ Hf4 Hf45) as Hf5.
    destruct e as [u5|er]; [|apply prt_pret; split; assumption].
    apply Hloop; [exact He|exact Hf5| |exact Ha].
    destruct Hf1 as (_ & _ & c1). destruct Hf23 as (_ & _ & c2). destruct Hf34 as (_ & _ & c3). destruct Hf45 as (_ & _ & c4). lia.
  - apply prt_pbnd.
    apply (prt_conseq _ _ _ (ResPost (fun (b : bool) lr' v' => if b then K lr' v' /\ vcur v2 < vcur v' else K lr' v') v2)).
    { destruct (sat st); [apply prt_pret; split; [apply frame_refl|exact Hvv]|].
      apply matches_tok_ok. apply (tfixed_log_ok fuel log_s); [cbn; tauto|exact Hvv]. }
    intros ss lr3 v3 [Hf23 Hss]. pose proof (frame_trans _ _ _ Hf2 Hf23) as Hf3. destruct ss as [[|]|e];
      [| |apply prt_pret; split; assumption].
    + destruct Hss as [HK3 Hlt3].
      apply prt_pbnd. eapply prt_conseq; [apply (or_unexpected_ok fuel); apply status_tok_ok; exact HK3|].
      intros r lr4 v4 [Hf34 Hr]. pose proof (frame_trans _ _ _ Hf3 Hf34) as Hf4.
      destruct r as [sv|e]; [|apply prt_pret; split; assumption].
      destruct Hr as [HK4 Hlt4]. apply Hloop; [exact HK4|exact Hf4| |exact Hasg].
      destruct Hf2 as (_ & _ & c1). lia.
    + apply prt_pbnd.
      eapply prt_conseq; [apply (matches_tok_ok fuel _ (fun lr' v' => K lr' v' /\ vfail v' = None)); apply teof_ok; exact Hss|].
      intros ef lr4 v4 [Hf34 Hef]. pose proof (frame_trans _ _ _ Hf3 Hf34) as Hf4. destruct ef as [[|]|e];
        [| |apply prt_pret; split; assumption].
      * destruct Hef as [HK4 Hfail]. destruct (started st && negb (finished st)); [apply Hun; assumption|].
        apply prt_pret. split; [exact Hf4|]. split; [exact Hfail|exact Hasg].
      * apply prt_pbnd.
        apply (prt_conseq _ _ _ (ResPost (fun (b : bool) lr' v' => if b then K lr' v' /\ vcur v4 < vcur v' else K lr' v') v4)).
        { destruct iu; [|apply prt_pret; split; [apply frame_refl|exact Hef]].
          apply matches_tok_ok. apply interactive_skip_line_ok. exact Hef. }
        intros sk lr5 v5 [Hf45 Hsk]. pose proof (frame_trans _ _ _ Hf4 Hf45) as Hf5. destruct sk as [[|]|e];
          [| |apply prt_pret; split; assumption].
        -- destruct Hsk as [HK5 Hlt5]. apply Hloop; [exact HK5|exact Hf5| |exact Hasg]. destruct Hf4 as (_ & _ & c1). lia.
        -- apply Hun; assumption.
Qed.

Lemma parse_log_lim maxd iu lr v : K lr v -> prt (parse_log fuel maxd iu) lr v (ResPost (LogLim maxd v) v).
Proof. intros HK. unfold parse_log. apply log_loop_lim; [exact HK|eapply (meas_init fuel); exact HK|constructor]. Qed.

End Limits.

(* ================================================================== *)
(* the theorems                                                         *)

(* readable forms of the item conditions *)
Definition lits_within (S : bytes) (limit : Z) (ls : list Z) : Prop :=
  Forall (fun z => z <> 0%Z /\ (Z.abs z <= limit)%Z /\ num_at S true z) ls.

Definition prefix_within (S : bytes) (k : dkind) (glimit : Z) (pre : Z) : Prop :=
  match k with
  | KCnf => pre = 0%Z
  | KWcnf => (0 <= pre <= 18446744073709551615)%Z /\ num_at S false pre       (* a u64 weight *)
  | KGcnf => (0 <= pre <= glimit)%Z /\ num_at S false pre                     (* a group index *)
  end.

Lemma ItemOK_readable S k llimit glimit it :
  ItemOK S k llimit glimit it -> prefix_within S k glimit (fst it) /\ lits_within S llimit (snd it).
Proof.
  intros [Hp Hl]. split.
  - destruct k; cbn [PreOK prefix_within] in *.
    + exact Hp.
    + destruct Hp as [Hr Ha]. apply in_range_u64 in Hr. split; assumption.
    + destruct Hp as (Hr & Hle & Ha). apply in_range_usize in Hr. split; [lia|exact Ha].
  - unfold lits_within. eapply Forall_impl; [|exact Hl]. intros z (Hz & Hin & _ & Ha).
    split; [exact Hz|]. split; [lia|exact Ha].
Qed.

(* C06 for the DIMACS family, every admissible run, every final outcome (clean end or error) and every
   configuration: the header (if any) is within the type limits, every item handed out respects the limits in
   force (those of the state Parser::new builds from the header), and with an active clause limit no more than
   the declared number of clauses is ever handed out, and exactly that number before a clean end. *)
Theorem parse_dimacs_limits fuel k maxd ignore_header S fail r :
  Forall (fun b => b < 256) S -> nlen S < 2 ^ 62 -> (length S < fuel)%nat ->
  aruns (parse_dimacs fuel k maxd ignore_header lrs_init) (view_init S fail) r ->
  exists hdr items fin lr' v',
    r = ADone (hdr, items, fin, lr') v' /\
    match hdr with
    | None => items = [] /\ fin <> FOk                        (* Parser::new failed *)
    | Some ho =>
        let st := init_state maxd ignore_header ho in
        match ho with Some h => HdrOK S k maxd h | None => True end /\
        Forall (fun it => prefix_within S k (group_limit st) (fst it) /\ lits_within S (lit_limit st) (snd it)) items /\
        (clause_limit_active st = true ->
           (Z.of_nat (length items) <= clause_limit st)%Z /\
           (fin = FOk -> Z.of_nat (length items) = clause_limit st))
    end.
Proof.
  intros Hb Hl Hf Hr. pose proof (K_init fuel S fail Hb Hl Hf) as HK.
  destruct (prt_elim _ _ _ _ _ (parse_dimacs_lim fuel k maxd ignore_header _ _ HK) Hr) as ([[hdr items] fin] & lr' & v' & -> & _ & Hlim).
  cbn [fst snd view_init vS] in Hlim. exists hdr, items, fin, lr', v'. split; [reflexivity|].
  destruct hdr as [ho|]; [|exact Hlim]. cbv zeta in Hlim. destruct Hlim as (Hh & Hall & Hc).
  split; [exact Hh|]. split; [|exact Hc]. eapply Forall_impl; [|exact Hall]. intros it Hit. apply ItemOK_readable. exact Hit.
Qed.
Print Assumptions parse_dimacs_limits.

(* with a header that is not ignored: the declared limits *)
Theorem parse_dimacs_limits_header fuel k maxd S fail h items fin lr' v' :
  Forall (fun b => b < 256) S -> nlen S < 2 ^ 62 -> (length S < fuel)%nat ->
  aruns (parse_dimacs fuel k maxd false lrs_init) (view_init S fail) (ADone (Some (Some h), items, fin, lr') v') ->
  (* the header itself *)
  (0 <= h_vars h <= maxd)%Z /\ (0 <= h_clauses h <= USIZE_MAX)%Z /\
  match k with KCnf => h_extra h = 0%Z | KWcnf => (0 <= h_extra h <= 18446744073709551615)%Z | KGcnf => (0 <= h_extra h <= USIZE_MAX)%Z end /\
  (* (a) the declared number of clauses: never exceeded, and reached before the clean end *)
  (h_clauses h <> 0%Z -> (Z.of_nat (length items) <= h_clauses h)%Z /\ (fin = FOk -> Z.of_nat (length items) = h_clauses h)) /\
  (* (b), (c) every item handed out, whatever the final outcome *)
  Forall (fun it =>
            prefix_within S k (if (h_extra h =? 0)%Z then USIZE_MAX else h_extra h) (fst it) /\
            lits_within S (if (h_vars h =? 0)%Z then maxd else h_vars h) (snd it)) items.
Proof.
  intros Hb Hl Hf Hr.
  destruct (parse_dimacs_limits fuel k maxd false S fail _ Hb Hl Hf Hr) as (hdr & items0 & fin0 & lr0 & v0 & E & Hlim).
  inversion E; subst. cbv zeta in Hlim. destruct Hlim as (Hh & Hall & Hc).
  destruct Hh as (Hv & _ & Hcr & _ & Hex). apply in_range_usize in Hcr.
  cbn [init_state negb andb lit_limit group_limit clause_limit clause_limit_active] in Hall, Hc.
  split; [exact Hv|]. split; [exact Hcr|]. split.
  { destruct k; [exact Hex|destruct Hex as [He _]; apply in_range_u64 in He; exact He|destruct Hex as [He _]; apply in_range_usize in He; exact He]. }
  split.
  - intros Hne. assert (Eq : (h_clauses h =? 0)%Z = false) by (apply Z.eqb_neq; exact Hne). rewrite Eq in Hc. cbn [negb] in Hc.
    exact (Hc eq_refl).
  - eapply Forall_impl; [|exact Hall]. intros it [Hp Hli].
    destruct (h_extra h =? 0)%Z; destruct (h_vars h =? 0)%Z; cbn [negb] in Hp, Hli; split; assumption.
Qed.
Print Assumptions parse_dimacs_limits_header.

(* (d) without a header, or with a header that is ignored: only the limits of the types *)
Theorem parse_dimacs_limits_type_only fuel k maxd ignore_header S fail ho items fin lr' v' :
  Forall (fun b => b < 256) S -> nlen S < 2 ^ 62 -> (length S < fuel)%nat ->
  aruns (parse_dimacs fuel k maxd ignore_header lrs_init) (view_init S fail) (ADone (Some ho, items, fin, lr') v') ->
  ho = None \/ ignore_header = true ->
  Forall (fun it => prefix_within S k USIZE_MAX (fst it) /\ lits_within S maxd (snd it)) items.
Proof.
  intros Hb Hl Hf Hr Hcase.
  destruct (parse_dimacs_limits fuel k maxd ignore_header S fail _ Hb Hl Hf Hr) as (hdr & items0 & fin0 & lr0 & v0 & E & Hlim).
  inversion E; subst. cbv zeta in Hlim. destruct Hlim as (_ & Hall & _).
  destruct Hcase as [->| ->]; [exact Hall|]. destruct ho as [h|]; exact Hall.
Qed.
Print Assumptions parse_dimacs_limits_type_only.

(* C06 for the solver log: every literal of the assignment is non-zero, within the type limit, and a numeral of the text *)
Theorem parse_log_limits fuel maxd ignore_unknown S fail sat assignment lr' v' :
  Forall (fun b => b < 256) S -> nlen S < 2 ^ 62 -> (length S < fuel)%nat ->
  aruns (parse_log fuel maxd ignore_unknown lrs_init) (view_init S fail) (ADone (Ok (sat, assignment), lr') v') ->
  lits_within S maxd assignment.
Proof.
  intros Hb Hl Hf Hr. pose proof (K_init fuel S fail Hb Hl Hf) as HK.
  destruct (prt_elim _ _ _ _ _ (parse_log_lim fuel maxd ignore_unknown _ _ HK) Hr) as (res & lr0 & v0 & E & _ & Hres).
  inversion E; subst. destruct Hres as [_ Hall]. cbn [snd view_init vS] in Hall.
  unfold lits_within. eapply Forall_impl; [|exact Hall]. intros z (Hz & Hin & _ & Ha).
  split; [exact Hz|]. split; [lia|exact Ha].
Qed.
Print Assumptions parse_log_limits.

(* non-vacuity: "p cnf 2 1\n1 -2 0\n1 0\n" — a second clause after the declared one is rejected, the first was handed out;
   "p cnf 2 2\n1 -3 0\n" — a literal beyond the declared variable count is rejected *)
Example limits_enforced :
  (exists l c lr v', srun (parse_dimacs 100 KCnf max_dimacs_i32 false lrs_init)
                          (view_init [112;32;99;110;102;32;50;32;49;10;49;32;45;50;32;48;10;49;32;48;10] None)
                     = ADone (Some (Some {| h_vars := 2; h_clauses := 1; h_extra := 0 |}), [(0%Z, [1%Z; (-2)%Z])],
                              FErr (ESyntax l c), lr) v') /\
  (exists l c lr v', srun (parse_dimacs 100 KCnf max_dimacs_i32 false lrs_init)
                          (view_init [112;32;99;110;102;32;50;32;50;10;49;32;45;51;32;48;10] None)
                     = ADone (Some (Some {| h_vars := 2; h_clauses := 2; h_extra := 0 |}), [],
                              FErr (ESyntax l c), lr) v').
Proof. split; do 4 eexists; vm_compute; reflexivity. Qed.
