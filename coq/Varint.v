(* Varint.v — the 7-bit group encoding of binary AIGER deltas: write_binary_uint (binary.rs) and
   binary_uint (token.rs) as list functions, and their round trip. *)
From Flussab Require Import Base.
Ltac Zify.zify_post_hook ::= Z.to_euclidean_division_equations.

(* write_binary_uint: low group first, continuation bit on all but the last byte *)
Fixpoint enc_groups (fuel : nat) (n : N) : bytes :=
  match fuel with
  | O => []
  | S f => if n <? 128 then [n] else (n mod 128 + 128) :: enc_groups f (n / 128)
  end.
Definition varint_encode (n : N) : bytes := enc_groups 10 n.     (* (usize::BITS + 6) / 7 = 10 bytes at most *)

(* binary_uint: at most max bytes, the last one without continuation bit *)
Fixpoint dec_groups (max : nat) (l : bytes) : option (N * bytes) :=
  match max with
  | O => None
  | S m =>
      match l with
      | [] => None
      | b :: r =>
          if b <? 128 then Some (b, r)
          else match dec_groups m r with
               | Some (v, r') => Some ((b - 128) + 128 * v, r')
               | None => None
               end
      end
  end.
Definition varint_decode (l : bytes) : option (N * bytes) := dec_groups 8 l.   (* (usize::BITS + 7) / 8 = 8 *)

Lemma enc_dec k : forall n rest, n < 128 ^ N.of_nat k -> (1 <= k)%nat ->
  dec_groups k (enc_groups k n ++ rest) = Some (n, rest).
Proof.
  induction k as [|k IH]; intros n rest Hn Hk; [lia|].
  cbn [enc_groups]. destruct (n <? 128) eqn:E.
  - cbn [app dec_groups]. rewrite E. reflexivity.
  - apply N.ltb_ge in E. cbn [app dec_groups].
    assert ((n mod 128 + 128 <? 128) = false) as -> by (apply N.ltb_ge; lia).
    assert (Hk1 : (1 <= k)%nat).
    { destruct k; [|lia]. cbn in Hn. change (N.of_nat 1) with 1 in Hn. rewrite N.pow_1_r in Hn. lia. }
    rewrite IH; [|replace (N.of_nat (S k)) with (N.succ (N.of_nat k)) in Hn by lia; rewrite N.pow_succ_r' in Hn; lia|exact Hk1].
    f_equal. f_equal. lia.
Qed.

Lemma enc_fuel_enough k : forall f n, n < 128 ^ N.of_nat k -> (1 <= k <= f)%nat -> enc_groups f n = enc_groups k n.
Proof.
  induction k as [|k IH]; intros f n Hn Hk; [lia|].
  destruct f as [|f]; [lia|]. cbn [enc_groups]. destruct (n <? 128) eqn:E; [reflexivity|]. apply N.ltb_ge in E.
  f_equal. assert (Hk1 : (1 <= k)%nat).
  { destruct k; [|lia]. cbn in Hn. change (N.of_nat 1) with 1 in Hn. rewrite N.pow_1_r in Hn. lia. }
  apply IH; [|lia]. replace (N.of_nat (S k)) with (N.succ (N.of_nat k)) in Hn by lia. rewrite N.pow_succ_r' in Hn. lia.
Qed.

(* every delta below 2^56 written by the binary writer is read back exactly, whatever follows it *)
Theorem varint_roundtrip n rest : n < 2 ^ 56 -> varint_decode (varint_encode n ++ rest) = Some (n, rest).
Proof.
  intros H. unfold varint_decode, varint_encode.
  assert (H8 : n < 128 ^ N.of_nat 8) by (change (128 ^ N.of_nat 8) with (2 ^ 56); exact H).
  rewrite (enc_fuel_enough 8 10 n H8) by lia. apply enc_dec; [exact H8|lia].
Qed.

(* the encoding is the shortest one: no trailing zero group except for 0 itself *)
Lemma enc_groups_nonempty f n : (1 <= f)%nat -> enc_groups f n <> [].
Proof. destruct f; [lia|]. intros _. cbn [enc_groups]. destruct (n <? 128); discriminate. Qed.
