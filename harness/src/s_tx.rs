//! stream "tx": one call of a text.rs scanner on a real DeferredReader.
//! case:  tx <fn> <ty|-> <datahex> <events> <pre> <chunk> <prefill> <offset> <pathex|->
//! trace: <value|none|-> <offset> | pos=<position> buffered=<buf_len> calls=<n>
use crate::common::*;
use crate::s_rd::make_reader;
use flussab::{text, DeferredReader};
use std::panic::{catch_unwind, AssertUnwindSafe};

fn show<T: std::fmt::Display>(r: (Option<T>, usize)) -> String {
    match r.0 {
        None => format!("none {}", r.1),
        Some(v) => format!("{} {}", v, r.1),
    }
}

macro_rules! by_type {
    ($ty:expr, $f:ident, $r:expr, $off:expr) => {
        match $ty {
            "i8" => show(text::$f::<i8>($r, $off)),
            "u8" => show(text::$f::<u8>($r, $off)),
            "i16" => show(text::$f::<i16>($r, $off)),
            "u16" => show(text::$f::<u16>($r, $off)),
            "i32" => show(text::$f::<i32>($r, $off)),
            "u32" => show(text::$f::<u32>($r, $off)),
            "i64" => show(text::$f::<i64>($r, $off)),
            "u64" => show(text::$f::<u64>($r, $off)),
            "i128" => show(text::$f::<i128>($r, $off)),
            "u128" => show(text::$f::<u128>($r, $off)),
            "isize" => show(text::$f::<isize>($r, $off)),
            "usize" => show(text::$f::<usize>($r, $off)),
            _ => panic!("bad type"),
        }
    };
}

pub fn call(r: &mut DeferredReader, f: &str, ty: &str, off: usize, pat: &[u8]) -> String {
    match f {
        "digits" => by_type!(ty, ascii_digits, r, off),
        "sdigits" => by_type!(ty, signed_ascii_digits, r, off),
        "mdigits" => by_type!(ty, ascii_digits_multi, r, off),
        "msdigits" => by_type!(ty, signed_ascii_digits_multi, r, off),
        "blanks" => format!("- {}", text::tabs_or_spaces(r, off)),
        "newline" => format!("- {}", text::newline(r, off)),
        "nextnl" => format!("- {}", text::next_newline(r, off)),
        "fixed" => format!("- {}", text::fixed(r, off, pat)),
        _ => panic!("unknown text fn {f}"),
    }
}

pub fn run(toks: &[&str]) -> String {
    let (f, ty) = (toks[0], toks[1]);
    let data = unhex(toks[2]);
    let events = parse_events(toks[3]);
    let pre: usize = toks[4].parse().unwrap();
    let chunk: usize = toks[5].parse().unwrap();
    let prefill: usize = toks[6].parse().unwrap();
    let off: usize = toks[7].parse().unwrap();
    let pat = unhex(toks[8]);
    let (mut r, stats) = make_reader(data, events, pre);
    r.set_chunk_size(chunk);
    if prefill > 0 {
        r.request(prefill);
    }
    let res = catch_unwind(AssertUnwindSafe(|| call(&mut r, f, ty, off, &pat)));
    match res {
        Ok(s) => format!("{} | pos={} buffered={} calls={}", s, r.position(), r.buf_len(), stats.borrow().calls),
        Err(p) => panic_kind(&*p),
    }
}

// ---------------------------------------------------------------- oracle
fn type_bounds(ty: &str) -> (String, String) {
    // (|min| as decimal, max as decimal)
    match ty {
        "i8" => ((i8::MIN as i128).unsigned_abs().to_string(), i8::MAX.to_string()),
        "u8" => ("0".into(), u8::MAX.to_string()),
        "i16" => ((i16::MIN as i128).unsigned_abs().to_string(), i16::MAX.to_string()),
        "u16" => ("0".into(), u16::MAX.to_string()),
        "i32" => ((i32::MIN as i128).unsigned_abs().to_string(), i32::MAX.to_string()),
        "u32" => ("0".into(), u32::MAX.to_string()),
        "i64" | "isize" => ((i64::MIN as i128).unsigned_abs().to_string(), i64::MAX.to_string()),
        "u64" | "usize" => ("0".into(), u64::MAX.to_string()),
        "i128" => (i128::MIN.unsigned_abs().to_string(), i128::MAX.to_string()),
        "u128" => ("0".into(), u128::MAX.to_string()),
        _ => panic!("bad type"),
    }
}
fn dec_le(a: &str, b: &str) -> bool {
    // a <= b for canonical non-negative decimals
    a.len() < b.len() || (a.len() == b.len() && a <= b)
}
/// canonical decimal of the value if it is representable, else None
fn reference_value(digits: &[u8], neg: bool, ty: &str) -> Option<String> {
    let s: String = digits.iter().map(|&b| b as char).collect();
    let t = s.trim_start_matches('0');
    let mag = if t.is_empty() { "0" } else { t };
    let (absmin, max) = type_bounds(ty);
    if neg {
        if dec_le(mag, &absmin) { Some(if mag == "0" { "0".into() } else { format!("-{mag}") }) } else { None }
    } else if dec_le(mag, &max) {
        Some(mag.to_string())
    } else {
        None
    }
}

fn expected(f: &str, ty: &str, data: &[u8], off: usize, pat: &[u8]) -> (String, usize /* bytes that must be looked at */) {
    let at = |i: usize| data.get(i).copied();
    let run_from = |start: usize| {
        let mut e = start;
        while matches!(at(e), Some(b'0'..=b'9')) { e += 1; }
        e
    };
    let fmt = |v: Option<String>, o: usize| match v { None => format!("none {o}"), Some(s) => format!("{s} {o}") };
    match f {
        "digits" | "mdigits" => {
            let e = run_from(off);
            (fmt(reference_value(&data[off.min(data.len())..e.max(off).min(data.len())], false, ty), e.max(off)), e + 1)
        }
        "sdigits" | "msdigits" => {
            if at(off) == Some(b'-') {
                if matches!(at(off + 1), Some(b'0'..=b'9')) {
                    let e = run_from(off + 1);
                    (fmt(reference_value(&data[off + 1..e], true, ty), e), e + 1)
                } else {
                    ("0 ".to_string() + &off.to_string(), off + 2)
                }
            } else {
                let e = run_from(off);
                (fmt(reference_value(&data[off.min(data.len())..e.max(off).min(data.len())], false, ty), e.max(off)), e + 1)
            }
        }
        "blanks" => {
            let mut e = off;
            while matches!(at(e), Some(b' ') | Some(b'\t')) { e += 1; }
            (format!("- {e}"), e + 1)
        }
        "newline" => match at(off) {
            Some(b'\n') => (format!("- {}", off + 1), off + 1),
            Some(b'\r') => if at(off + 1) == Some(b'\n') { (format!("- {}", off + 2), off + 2) } else { (format!("- {off}"), off + 2) },
            _ => (format!("- {off}"), off + 1),
        },
        "nextnl" => {
            let mut e = off;
            while !matches!(at(e), Some(b'\n') | None) { e += 1; }
            let r = e + at(e).is_some() as usize;
            (format!("- {r}"), e + 1)
        }
        "fixed" => {
            let mut i = 0;
            while i < pat.len() && at(off + i) == Some(pat[i]) { i += 1; }
            if i == pat.len() { (format!("- {}", off + pat.len()), if pat.is_empty() { 0 } else { off + pat.len() }) }
            else { (format!("- {off}"), off + i + 1) }
        }
        _ => panic!("unknown text fn"),
    }
}

/// stream "o_tx": result against an independent big-decimal / scanning reference, cursor untouched,
/// and (one byte per read, nothing pre-buffered) no more input requested than needed.
pub fn oracle(toks: &[&str]) -> String {
    let (f, ty) = (toks[0], toks[1]);
    let data = unhex(toks[2]);
    let events = parse_events(toks[3]);
    let pre: usize = toks[4].parse().unwrap();
    let chunk: usize = toks[5].parse().unwrap();
    let prefill: usize = toks[6].parse().unwrap();
    let off: usize = toks[7].parse().unwrap();
    let pat = unhex(toks[8]);
    // the stream the reader can see: everything up to the first terminal event
    let mut visible = data.len();
    {
        let mut avail = pre.min(data.len());
        let mut term = false;
        for e in &events {
            match e {
                Ev::Deliver(0) | Ev::Eof | Ev::Fail(_) => { term = true; break; }
                Ev::Deliver(n) => { avail = (avail + n).min(data.len()); if avail == data.len() { break; } }
                _ => {}
            }
        }
        if term { visible = avail; }
    }
    let seen = &data[..visible];
    let one_byte_reads = pre == 0 && prefill == 0 && !events.is_empty()
        && events.iter().all(|e| matches!(e, Ev::Deliver(1))) && events.len() >= data.len();
    let (mut r, _stats) = make_reader(data.clone(), events, pre);
    r.set_chunk_size(chunk);
    if prefill > 0 { r.request(prefill); }
    let res = match catch_unwind(AssertUnwindSafe(|| call(&mut r, f, ty, off, &pat))) {
        Ok(s) => s,
        Err(p) => return format!("FAIL panic {}", panic_kind(&*p)),
    };
    let (want, needed) = expected(f, ty, seen, off, &pat);
    let want = want.replace("-0 ", "0 ");
    if res != want {
        return format!("FAIL returned [{res}] expected [{want}]");
    }
    if r.position() != 0 {
        return format!("FAIL the scanner consumed input: position {}", r.position());
    }
    if one_byte_reads && r.buf_len() > needed.min(seen.len()) {
        return format!("FAIL requested {} bytes from a one-byte-per-read source, {} suffice", r.buf_len(), needed.min(seen.len()));
    }
    "PASS".into()
}
