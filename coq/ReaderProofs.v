(* ReaderProofs.v — invariants of the DeferredReader model and their
   consequences (C02, C09 part A, C10, C14 reader half). *)
From Flussab Require Import Base Reader ListN.
Ltac Zify.zify_post_hook ::= Z.to_euclidean_division_equations.

Record Inv (s : rstate) : Prop := mkInv {
  inv_range  : pos_in_buf s + valid_len s <= nlen (buf s);
  inv_window : window (buf s) (pos_in_buf s) (valid_len s) = nskipn (g_consumed s) (g_delivered s);
  inv_count  : g_consumed s + valid_len s = nlen (g_delivered s);
  inv_pos    : position s = g_consumed s mod W64;
  inv_mark   : mark s = g_mark s mod W64;
  inv_compl  : complete s = g_terminal s;
  inv_after  : g_calls_after_terminal s = 0;
  inv_err    : io_error s <> None -> complete s = true
}.

Lemma Inv_init sr : Inv (reader_init sr).
Proof.
  constructor; cbn -[W64 N.modulo]; try reflexivity; try congruence.
Qed.

(* ---------- modular arithmetic of the two wrapping fields ---------- *)
Lemma wadd64_rebase pob pib : wadd64 (wadd64 pob pib) 0 = wadd64 pob pib.
Proof. unfold wadd64, W64. lia. Qed.

Lemma wmark_rebase pob pib mib :
  wadd64 (wadd64 pob pib) (wsub64 mib pib) = wadd64 pob mib.
Proof. unfold wadd64, wsub64, W64. lia. Qed.

Lemma wadd64_mod a b : wadd64 a b = (a + b) mod W64.
Proof. reflexivity. Qed.

(* ---------- phase 1: prep ---------- *)
Lemma prep_fields s :
  src (prep s) = src s /\ valid_len (prep s) = valid_len s /\ complete (prep s) = complete s /\
  io_error (prep s) = io_error s /\ chunk_size (prep s) = chunk_size s /\ g_calls (prep s) = g_calls s /\
  g_delivered (prep s) = g_delivered s /\ g_consumed (prep s) = g_consumed s /\ g_mark (prep s) = g_mark s /\
  g_terminal (prep s) = g_terminal s /\ g_calls_after_terminal (prep s) = g_calls_after_terminal s.
Proof. repeat split. Qed.

Lemma prep_position s : position (prep s) = position s.
Proof.
  unfold prep, position, with_layout; cbn. destruct (realign_needed s); [|reflexivity].
  apply wadd64_rebase.
Qed.

Lemma prep_mark s : mark (prep s) = mark s.
Proof.
  unfold prep, mark, with_layout; cbn. destruct (realign_needed s); [|reflexivity].
  apply wmark_rebase.
Qed.

(* after prep there is room for a whole chunk behind the window, and the
   window is unchanged *)
Lemma prep_room s :
  pos_in_buf s + valid_len s <= nlen (buf s) ->
  pos_in_buf (prep s) + valid_len s + chunk_size s <= nlen (buf (prep s)) /\
  window (buf (prep s)) (pos_in_buf (prep s)) (valid_len s) = window (buf s) (pos_in_buf s) (valid_len s).
Proof.
  intros Hr. unfold prep, with_layout; cbn [buf pos_in_buf].
  destruct (realign_needed s) eqn:Hre; cbn [andb].
  - (* realign *)
    pose proof (nlen_copy_to_front _ _ _ Hr) as Hl.
    pose proof (window_copy_to_front _ _ _ Hr) as Hw.
    set (b1 := copy_to_front (buf s) (pos_in_buf s) (valid_len s)) in *.
    destruct (4 * (0 + valid_len s + chunk_size s) <? nlen b1) eqn:Hsh.
    + (* shrink *)
      apply N.ltb_lt in Hsh.
      assert (Hv : valid_len s <= nlen b1 / 2) by lia.
      pose proof (window_truncate b1 (nlen b1 / 2) (valid_len s) Hv) as Ht.
      set (b2 := nfirstn (nlen b1 / 2) b1) in *.
      assert (Hl2 : nlen b2 = nlen b1 / 2) by (unfold b2; rewrite nlen_nfirstn; lia).
      destruct (nlen b2 <? 0 + valid_len s + chunk_size s) eqn:Hg.
      * apply N.ltb_lt in Hg. split.
        -- rewrite nlen_grow by lia. lia.
        -- rewrite window_grow by lia. congruence.
      * apply N.ltb_ge in Hg. split; [lia | congruence].
    + destruct (nlen b1 <? 0 + valid_len s + chunk_size s) eqn:Hg.
      * apply N.ltb_lt in Hg. split.
        -- rewrite nlen_grow by lia. lia.
        -- rewrite window_grow by lia. exact Hw.
      * apply N.ltb_ge in Hg. split; [lia | exact Hw].
  - destruct (nlen (buf s) <? pos_in_buf s + valid_len s + chunk_size s) eqn:Hg.
    + apply N.ltb_lt in Hg. split.
      * rewrite nlen_grow by lia. lia.
      * rewrite window_grow by lia. reflexivity.
    + apply N.ltb_ge in Hg. split; [lia | reflexivity].
Qed.

Lemma Inv_prep s : Inv s -> Inv (prep s).
Proof.
  intros [Hr Hw Hc Hp Hm Hcm Ha He].
  destruct (prep_room s Hr) as [Hroom Hwin].
  constructor; try assumption.
  - change (valid_len (prep s)) with (valid_len s). lia.
  - change (valid_len (prep s)) with (valid_len s). rewrite Hwin. exact Hw.
  - rewrite prep_position. exact Hp.
  - rewrite prep_mark. exact Hm.
Qed.

(* ---------- the source ---------- *)
Lemma nlen_zero_nil {A} (l : list A) : nlen l = 0 -> l = [].
Proof. destruct l; [reflexivity|]. unfold nlen; cbn [length]; lia. Qed.

Lemma src_read_inner_ok d evs room bs claimed sr :
  src_read_inner d evs room = (ROk bs claimed, sr) ->
  nlen bs <= room /\ (claimed <= room -> claimed = nlen bs).
Proof.
  destruct evs as [|[n| |e| |n] ev]; cbn [src_read_inner]; intros H; inversion H; subst; clear H;
    rewrite ?nlen_nfirstn; try change (nlen (@nil byte)) with 0; lia.
Qed.

Lemma read_retry_inner_ok evs : forall d room calls bs claimed sr calls',
  read_retry_inner evs d room calls = (ROk bs claimed, sr, calls') ->
  nlen bs <= room /\ (claimed <= room -> claimed = nlen bs).
Proof.
  induction evs as [|e ev IH]; intros d room calls bs claimed sr calls' H.
  - cbn in H. inversion H; subst. rewrite nlen_nfirstn. lia.
  - destruct e; cbn [read_retry_inner] in H;
      try (eapply IH; exact H);
      (apply (f_equal fst) in H; cbn [fst] in H; eapply src_read_inner_ok; exact H).
Qed.

Lemma read_retry_ok sr room calls bs claimed sr' calls' :
  read_retry sr room calls = (ROk bs claimed, sr', calls') ->
  nlen bs <= room /\ (claimed <= room -> claimed = nlen bs).
Proof.
  unfold read_retry, src_read. destruct (0 <? nlen (prebuf sr)).
  - intros H; inversion H; subst. rewrite nlen_nfirstn. lia.
  - apply read_retry_inner_ok.
Qed.

(* ---------- phase 2: finish_read ---------- *)
Lemma after_read_position s sr c b vl cm er dl tm :
  position (after_read s sr c b vl cm er dl tm) = position s /\
  mark (after_read s sr c b vl cm er dl tm) = mark s.
Proof. split; reflexivity. Qed.

Definition rm_state (r : rm_result) : rstate :=
  match r with RMDone _ s => s | RMPanic _ s => s end.

Lemma Inv_finish_read s :
  Inv s -> complete s = false ->
  pos_in_buf s + valid_len s + chunk_size s <= nlen (buf s) ->
  Inv (rm_state (finish_read s)).
Proof.
  intros [Hr Hw Hc Hp Hm Hcm Ha He] Hnc Hroom.
  assert (Hterm : g_terminal s = false) by congruence.
  unfold finish_read.
  destruct (read_retry (src s) (chunk_size s) (g_calls s)) as [[r sr] calls] eqn:Hrr.
  destruct r as [bs claimed | e].
  - destruct (read_retry_ok _ _ _ _ _ _ _ Hrr) as [Hlen Hcl].
    assert (Hfit : pos_in_buf s + valid_len s + nlen bs <= nlen (buf s)) by lia.
    destruct (claimed =? 0) eqn:Hz.
    + (* end of input *)
      apply N.eqb_eq in Hz. assert (Hbs : bs = []) by (apply nlen_zero_nil; lia). subst bs.
      cbn [rm_state]. constructor; cbn [after_read buf pos_in_buf valid_len g_consumed g_delivered
        complete g_terminal io_error g_calls_after_terminal]; rewrite ?app_nil_r; rewrite ?Hterm; try assumption;
        try reflexivity.
      * rewrite nlen_splice by (change (nlen (@nil byte)) with 0; lia). exact Hr.
      * rewrite window_splice_keep by exact Hr. exact Hw.
    + destruct (chunk_size s <? claimed) eqn:Hbig.
      * (* contract violation: panic, window untouched *)
        cbn [rm_state]. constructor; cbn [after_read buf pos_in_buf valid_len g_consumed g_delivered
          complete g_terminal io_error g_calls_after_terminal]; rewrite ?Hterm; try assumption.
        -- rewrite nlen_splice by lia. exact Hr.
        -- rewrite window_splice_keep by exact Hr. exact Hw.
      * (* normal delivery *)
        apply N.ltb_ge in Hbig. specialize (Hcl Hbig). subst claimed.
        cbn [rm_state]. constructor; cbn [after_read buf pos_in_buf valid_len g_consumed g_delivered
          complete g_terminal io_error g_calls_after_terminal]; rewrite ?Hterm; try assumption.
        -- rewrite nlen_splice by lia. lia.
        -- rewrite window_splice_ext by lia. rewrite Hw. symmetry. apply nskipn_app_l. lia.
        -- rewrite nlen_app. lia.
  - cbn [rm_state]. constructor; cbn [after_read buf pos_in_buf valid_len g_consumed g_delivered
      complete g_terminal io_error g_calls_after_terminal]; rewrite ?Hterm; try assumption; reflexivity.
Qed.

Lemma Inv_request_more s : Inv s -> Inv (rm_state (request_more s)).
Proof.
  intros HI. unfold request_more.
  destruct (complete s) eqn:Hc; [exact HI|].
  destruct (realign_needed s && negb (pos_in_buf s + valid_len s <=? nlen (buf s))) eqn:Hp; [exact HI|].
  apply Inv_finish_read.
  - apply Inv_prep; exact HI.
  - exact Hc.
  - destruct (prep_room s (inv_range s HI)) as [H _]. exact H.
Qed.

(* the copy_within range check never fires in a state satisfying the invariant *)
Lemma request_more_no_index_panic s :
  Inv s -> forall s', request_more s <> RMPanic PIndex s'.
Proof.
  intros HI s'. unfold request_more.
  destruct (complete s); [discriminate|].
  pose proof (inv_range s HI) as Hr. apply N.leb_le in Hr. rewrite Hr. rewrite andb_false_r.
  unfold finish_read.
  destruct (read_retry _ _ _) as [[[bs cl|e] sr] c]; try discriminate.
  destruct (cl =? 0); [discriminate|]. destruct (_ <? cl); discriminate.
Qed.

(* ---------- advance ---------- *)
Lemma Inv_advance s n : Inv s -> Inv (fst (advance s n)).
Proof.
  intros HI. unfold advance. destruct (valid_len s <? n) eqn:Hlt; [exact HI|].
  apply N.ltb_ge in Hlt. destruct HI as [Hr Hw Hc Hp Hm Hcm Ha He].
  cbn [fst]. constructor; cbn [upd_adv buf pos_in_buf valid_len g_consumed g_delivered complete g_terminal
    io_error g_calls_after_terminal]; try assumption.
  - lia.
  - rewrite window_window_skip by exact Hlt. rewrite Hw. rewrite nskipn_nskipn. f_equal. lia.
  - lia.
  - unfold position in *. cbn [upd_adv pos_of_buf pos_in_buf]. unfold wadd64, W64 in *. lia.
Qed.

Lemma advance_panics_iff s n :
  (snd (advance s n) = Some PAdvance <-> valid_len s < n) /\
  (snd (advance s n) = None \/ snd (advance s n) = Some PAdvance) /\
  (snd (advance s n) <> None -> fst (advance s n) = s).
Proof.
  unfold advance. destruct (valid_len s <? n) eqn:H; cbn [fst snd].
  - apply N.ltb_lt in H. repeat split; auto.
  - apply N.ltb_ge in H. repeat split; try (intros; congruence); auto. intros; lia.
Qed.

(* ---------- termination of the refill loops ---------- *)
Definition nu (sr : source) : nat := (length (events sr) + length (data sr) + length (prebuf sr))%nat.

Lemma length_nskipn {A} k (l : list A) : length (nskipn k l) = (length l - N.to_nat k)%nat.
Proof. unfold nskipn. apply skipn_length. Qed.

Lemma src_read_inner_nu d evs room r sr :
  (forall ev, evs <> Interrupt :: ev) ->
  src_read_inner d evs room = (r, sr) ->
  (nu sr <= length evs + length d)%nat /\
  (forall bs cl, r = ROk bs cl -> cl <> 0 -> (nu sr < length evs + length d)%nat).
Proof.
  intros Hni. destruct evs as [|[n| |e| |n] ev]; cbn [src_read_inner]; intros H.
  2: { (* Deliver: what does not fit stays at the head of the schedule, but data shrinks *)
    set (k := N.min (N.min n room) (nlen d)) in *.
    destruct ((0 <? k) && (k <? n)) eqn:Hc; inversion H; subst; clear H;
      unfold nu; cbn [events data prebuf length]; rewrite ?length_nskipn; split; try lia;
      intros bs cl Hr Hcl; inversion Hr; subst; unfold nlen in *; lia. }
  all: inversion H; subst; clear H;
    unfold nu; cbn [events data prebuf length]; rewrite ?length_nskipn; split; try lia;
    intros bs cl Hr Hcl; inversion Hr; subst; try lia;
    try (unfold nlen in *; lia); try (exfalso; eapply Hni; reflexivity).
Qed.

Lemma read_retry_inner_nu evs : forall d room calls r sr calls',
  read_retry_inner evs d room calls = (r, sr, calls') ->
  (nu sr <= length evs + length d)%nat /\
  (forall bs cl, r = ROk bs cl -> cl <> 0 -> (nu sr < length evs + length d)%nat).
Proof.
  induction evs as [|e ev IH]; intros d room calls r sr calls' H.
  - cbn [read_retry_inner] in H. apply (f_equal fst) in H; cbn [fst] in H.
    eapply src_read_inner_nu; [|exact H]. intros ev; discriminate.
  - destruct e; cbn [read_retry_inner] in H;
      try (apply (f_equal fst) in H; cbn [fst] in H;
           eapply src_read_inner_nu; [intros ev'; discriminate | exact H]).
    destruct (IH _ _ _ _ _ _ H) as [H1 H2]. cbn [length]. split; [lia|].
    intros bs cl Hr Hcl. specialize (H2 bs cl Hr Hcl). lia.
Qed.

Lemma read_retry_nu sr room calls r sr' calls' :
  read_retry sr room calls = (r, sr', calls') ->
  (nu sr' <= nu sr)%nat /\
  (forall bs cl, r = ROk bs cl -> cl <> 0 -> (nu sr' < nu sr)%nat).
Proof.
  unfold read_retry, src_read.
  destruct (0 <? nlen (prebuf sr)) eqn:Hp.
  - apply N.ltb_lt in Hp.
    intros H; inversion H; subst; clear H. unfold nu; cbn [events data prebuf]. rewrite length_nskipn.
    unfold nlen in *. split; [lia|]. intros bs cl Hr Hcl. inversion Hr; subst. lia.
  - intros H. destruct (read_retry_inner_nu _ _ _ _ _ _ _ H) as [H1 H2]. unfold nu in *. split; [lia|].
    intros bs cl Hr Hcl. specialize (H2 bs cl Hr Hcl). lia.
Qed.

Lemma request_more_progress s s' :
  request_more s = RMDone true s' ->
  (nu (src s') <= nu (src s))%nat /\ (complete s' = false -> (nu (src s') < nu (src s))%nat).
Proof.
  unfold request_more. destruct (complete s) eqn:Hc; [discriminate|].
  destruct (realign_needed s && _); [discriminate|].
  unfold finish_read. change (src (prep s)) with (src s). change (chunk_size (prep s)) with (chunk_size s).
  change (g_calls (prep s)) with (g_calls s).
  destruct (read_retry (src s) (chunk_size s) (g_calls s)) as [[r sr] calls] eqn:Hrr.
  destruct (read_retry_nu _ _ _ _ _ _ Hrr) as [H1 H2].
  destruct r as [bs cl|e].
  - destruct (cl =? 0) eqn:Hz.
    + intros H; inversion H; subst; clear H. cbn [after_read src complete]. split; [exact H1|discriminate].
    + destruct (chunk_size s <? cl); [discriminate|].
      intros H; inversion H; subst; clear H. cbn [after_read src complete]. split; [exact H1|].
      intros _. apply (H2 bs cl eq_refl). apply N.eqb_neq. exact Hz.
  - intros H; inversion H; subst; clear H. cbn [after_read src complete]. split; [exact H1|discriminate].
Qed.

Definition loop_state (r : loop_result) : rstate :=
  match r with LDone s => s | LPanic _ s => s | LFuel s => s end.

Lemma fill_until_Inv fuel : forall need s, Inv s -> Inv (loop_state (fill_until fuel need s)).
Proof.
  induction fuel as [|f IH]; intros need s HI; cbn [fill_until].
  - destruct (need <=? valid_len s); exact HI.
  - destruct (need <=? valid_len s); [exact HI|].
    pose proof (Inv_request_more s HI) as HI'.
    destruct (request_more s) as [[|] s'|k s']; cbn [rm_state] in HI'.
    + apply IH. exact HI'.
    + exact HI'.
    + exact HI'.
Qed.

Lemma fill_until_no_fuel fuel : forall need s,
  (nu (src s) + (if complete s then 0 else 1) < fuel)%nat ->
  forall s', fill_until fuel need s <> LFuel s'.
Proof.
  induction fuel as [|f IH]; intros need s Hm s'; [lia|].
  cbn [fill_until]. destruct (need <=? valid_len s); [discriminate|].
  destruct (request_more s) as [[|] s1|k s1] eqn:Hrm; try discriminate.
  destruct (request_more_progress _ _ Hrm) as [H1 H2].
  assert (Hc : complete s = false).
  { unfold request_more in Hrm. destruct (complete s); [discriminate|reflexivity]. }
  rewrite Hc in Hm.
  apply IH. destruct (complete s1) eqn:Hc1.
  - lia.
  - specialize (H2 eq_refl). lia.
Qed.

Lemma loop_fuel_enough s : (nu (src s) + (if complete s then 0 else 1) < loop_fuel s)%nat.
Proof. unfold loop_fuel, nu. destruct (complete s); lia. Qed.

(* what a finished refill loop guarantees: enough bytes, or the source is done *)
Lemma fill_until_done fuel : forall need s s',
  fill_until fuel need s = LDone s' -> need <= valid_len s' \/ complete s' = true.
Proof.
  induction fuel as [|f IH]; intros need s s'; cbn [fill_until].
  - destruct (need <=? valid_len s) eqn:H; [|discriminate]. intros E; inversion E; subst.
    left. apply N.leb_le. exact H.
  - destruct (need <=? valid_len s) eqn:H.
    + intros E; inversion E; subst. left. apply N.leb_le. exact H.
    + destruct (request_more s) as [[|] s1|k s1] eqn:Hrm; try discriminate.
      * apply IH.
      * intros E; inversion E; subst. right.
        unfold request_more in Hrm. destruct (complete s) eqn:Hc.
        -- inversion Hrm; subst. exact Hc.
        -- destruct (realign_needed s && _); [discriminate|].
           unfold finish_read in Hrm. destruct (read_retry _ _ _) as [[[bs cl|e] sr] c]; try discriminate.
           destruct (cl =? 0); [discriminate|]. destruct (_ <? cl); discriminate.
Qed.

(* ---------- every API operation ---------- *)
Lemma Inv_set_mark s : Inv s -> Inv (set_mark_in_buf s (pos_in_buf s) (g_consumed s)).
Proof.
  intros [Hr Hw Hc Hp Hm Hcm Ha He]. constructor; try assumption.
Qed.

Lemma Inv_set_mark_to s p :
  Inv s -> pos_of_buf s < W64 -> Inv (set_mark_in_buf s (wsub64 (p mod W64) (pos_of_buf s)) (p mod W64)).
Proof.
  intros [Hr Hw Hc Hp Hm Hcm Ha He] Hpob. constructor; try assumption.
  unfold mark. cbn [set_mark_in_buf pos_of_buf mark_in_buf g_mark].
  unfold wadd64, wsub64, W64 in *. lia.
Qed.

(* pos_of_buf is a usize *)
Definition PobOk (s : rstate) : Prop := pos_of_buf s < W64.

Lemma PobOk_prep s : PobOk s -> PobOk (prep s).
Proof.
  unfold PobOk, prep, with_layout; cbn [pos_of_buf]. destruct (realign_needed s); [|auto].
  intros _. unfold wadd64, W64. lia.
Qed.

Lemma PobOk_request_more s : PobOk s -> PobOk (rm_state (request_more s)).
Proof.
  intros H. unfold request_more. destruct (complete s); [exact H|].
  destruct (realign_needed s && _); [exact H|].
  apply PobOk_prep in H. unfold finish_read.
  destruct (read_retry _ _ _) as [[[bs cl|e] sr] c]; cbn [rm_state].
  - destruct (cl =? 0); [exact H|]. destruct (_ <? cl); exact H.
  - exact H.
Qed.

Lemma PobOk_fill_until fuel : forall need s, PobOk s -> PobOk (loop_state (fill_until fuel need s)).
Proof.
  induction fuel as [|f IH]; intros need s H; cbn [fill_until].
  - destruct (need <=? valid_len s); exact H.
  - destruct (need <=? valid_len s); [exact H|].
    pose proof (PobOk_request_more s H) as H'.
    destruct (request_more s) as [[|] s'|k s']; cbn [rm_state] in H'; [apply IH|..]; exact H'.
Qed.

Definition Good (s : rstate) : Prop := Inv s /\ PobOk s.

Lemma Good_init sr : Good (reader_init sr).
Proof. split; [apply Inv_init | unfold PobOk, W64; cbn; lia]. Qed.

Lemma Good_step s o : Good s -> Good (fst (step s o)).
Proof.
  intros [HI HP]. destruct o; cbn [step].
  - (* request *)
    destruct (n <=? valid_len s); [split; assumption|].
    pose proof (fill_until_Inv (loop_fuel s) n s HI) as H1.
    pose proof (PobOk_fill_until (loop_fuel s) n s HP) as H2.
    destruct (fill_until (loop_fuel s) n s); cbn [loop_state fst] in *; split; assumption.
  - (* peek *)
    unfold peek. destruct (k <? valid_len s).
    + destruct (nnth _ _); split; assumption.
    + pose proof (fill_until_Inv (loop_fuel s) (k + 1) s HI) as H1.
      pose proof (PobOk_fill_until (loop_fuel s) (k + 1) s HP) as H2.
      destruct (fill_until (loop_fuel s) (k + 1) s) as [s'|p s'|s']; cbn [loop_state fst] in *.
      * destruct (k <? valid_len s'); [destruct (nnth _ _)|]; split; assumption.
      * split; assumption.
      * split; assumption.
  - pose proof (Inv_request_more s HI) as H1. pose proof (PobOk_request_more s HP) as H2.
    destruct (request_more s); cbn [rm_state fst] in *; split; assumption.
  - pose proof (Inv_advance s n HI) as H1.
    assert (H2 : PobOk (fst (advance s n))).
    { unfold advance. destruct (valid_len s <? n); exact HP. }
    destruct (advance s n) as [s' [p|]]; cbn [fst] in *; split; assumption.
  - pose proof (Inv_advance s n HI) as H1.
    assert (H2 : PobOk (fst (advance s n))).
    { unfold advance. destruct (valid_len s <? n); exact HP. }
    destruct (advance s n) as [s' [p|]]; cbn [fst] in *; [split; assumption|].
    destruct (pos_in_buf s' <=? nlen (buf s')); split; assumption.
  - split; [apply Inv_set_mark; exact HI | exact HP].
  - split; [apply Inv_set_mark_to; assumption | exact HP].
  - split; [|exact HP]. destruct HI as [Hr Hw Hc Hp Hm Hcm Ha He]. constructor; assumption.
  - split; assumption.
  - split; assumption.
  - split; assumption.
  - split; assumption.
  - split; assumption.
  - split; assumption.
  - split; assumption.
  - split; [|exact HP]. destruct HI as [Hr Hw Hc Hp Hm Hcm Ha He]. constructor; try assumption.
    cbn [clear_io_error io_error]. intros H; exfalso; apply H; reflexivity.
Qed.

Lemma Good_run ops : forall s, Good s -> Good (fst (run s ops)).
Proof.
  induction ops as [|o os IH]; intros s H; cbn [run]; [exact H|].
  pose proof (Good_step s o H) as H1. destruct (step s o) as [s1 v]. cbn [fst] in H1.
  specialize (IH s1 H1). destruct (run s1 os) as [s2 vs]. exact IH.
Qed.

(* ---------- safety: no unchecked access leaves the buffer (C14, reader) ---------- *)
Definition bad_obs (v : robs) : bool :=
  match v with
  | VUB | VFuel | VPanic PIndex | VPanic POverflow | VPanic PAssert | VPanic PUnwrap | VPanic PCapacity => true
  | _ => false
  end.

Lemma nnth_in_range {A} (l : list A) i : i < nlen l -> exists x, nnth l i = Some x.
Proof.
  intros H. unfold nnth, nlen in *. destruct (nth_error l (N.to_nat i)) eqn:E; [eauto|].
  apply nth_error_None in E. lia.
Qed.

Lemma request_more_panic_kind s p s' : Inv s -> request_more s = RMPanic p s' -> p = PReadContract.
Proof.
  intros HI Hrm. unfold request_more in Hrm. destruct (complete s); [discriminate|].
  pose proof (inv_range s HI) as Hr. apply N.leb_le in Hr. rewrite Hr, andb_false_r in Hrm.
  unfold finish_read in Hrm. destruct (read_retry _ _ _) as [[[bs cl|e] sr] c]; try discriminate.
  destruct (cl =? 0); [discriminate|]. destruct (_ <? cl); [|discriminate].
  inversion Hrm; reflexivity.
Qed.

Lemma fill_until_panic_kind fuel : forall need s p s',
  Inv s -> fill_until fuel need s = LPanic p s' -> p = PReadContract.
Proof.
  induction fuel as [|f IH]; intros need s p s' HI Hf; cbn [fill_until] in Hf.
  - destruct (need <=? valid_len s); discriminate.
  - destruct (need <=? valid_len s); [discriminate|].
    pose proof (Inv_request_more s HI) as HI1.
    destruct (request_more s) as [[|] s1|k s1] eqn:Hrm; cbn [rm_state] in HI1.
    + exact (IH need s1 p s' HI1 Hf).
    + discriminate.
    + inversion Hf; subst. exact (request_more_panic_kind _ _ _ HI Hrm).
Qed.

Lemma step_safe s o : Inv s -> bad_obs (snd (step s o)) = false.
Proof.
  intros HI. destruct o; cbn [step]; try reflexivity.
  - (* request *)
    destruct (n <=? valid_len s).
    + unfold get_buf. pose proof (inv_range s HI) as Hr. apply N.leb_le in Hr. rewrite Hr. reflexivity.
    + pose proof (fill_until_Inv (loop_fuel s) n s HI) as H1.
      pose proof (fill_until_no_fuel (loop_fuel s) n s (loop_fuel_enough s)) as H2.
      destruct (fill_until (loop_fuel s) n s) as [s'|p s'|s'] eqn:Hf; cbn [loop_state snd] in *.
      * unfold get_buf. pose proof (inv_range s' H1) as Hr. apply N.leb_le in Hr. rewrite Hr. reflexivity.
      * (* a panic inside the loop can only be the Read-contract assert *)
        rewrite (fill_until_panic_kind _ _ _ _ _ HI Hf). reflexivity.
      * exfalso. eapply H2. reflexivity.
  - (* peek *)
    unfold peek. destruct (k <? valid_len s) eqn:Hk.
    + apply N.ltb_lt in Hk. pose proof (inv_range s HI) as Hr.
      destruct (nnth_in_range (buf s) (pos_in_buf s + k)) as [x Hx]; [lia|]. rewrite Hx. reflexivity.
    + pose proof (fill_until_Inv (loop_fuel s) (k + 1) s HI) as H1.
      pose proof (fill_until_no_fuel (loop_fuel s) (k + 1) s (loop_fuel_enough s)) as H2.
      destruct (fill_until (loop_fuel s) (k + 1) s) as [s'|p s'|s'] eqn:Hf; cbn [loop_state snd] in *.
      * destruct (k <? valid_len s') eqn:Hk'; [|reflexivity].
        apply N.ltb_lt in Hk'. pose proof (inv_range s' H1) as Hr.
        destruct (nnth_in_range (buf s') (pos_in_buf s' + k)) as [x Hx]; [lia|]. rewrite Hx. reflexivity.
      * rewrite (fill_until_panic_kind _ _ _ _ _ HI Hf). reflexivity.
      * exfalso. eapply H2. reflexivity.
  - (* request_more *)
    destruct (request_more s) as [b s'|p s'] eqn:Hrm; cbn [snd]; [reflexivity|].
    rewrite (request_more_panic_kind _ _ _ HI Hrm). reflexivity.
  - (* advance *)
    unfold advance. destruct (valid_len s <? n); reflexivity.
  - (* advance_with_buf *)
    pose proof (Inv_advance s n HI) as H1.
    unfold advance in *. destruct (valid_len s <? n) eqn:Hn; cbn [fst snd] in *; [reflexivity|].
    pose proof (inv_range _ H1) as Hr. cbn [upd_adv pos_in_buf valid_len buf] in *.
    assert (Hle : (pos_in_buf s + n <=? nlen (buf s)) = true) by (apply N.leb_le; lia).
    rewrite Hle. reflexivity.
  - (* buf *)
    unfold get_buf. pose proof (inv_range s HI) as Hr. apply N.leb_le in Hr. rewrite Hr. reflexivity.
Qed.

(* ---------- what the API shows, in terms of the history (C02) ---------- *)
(* the bytes delivered by the source and not yet advanced over *)
Definition unread (s : rstate) : bytes := nskipn (g_consumed s) (g_delivered s).

Lemma nlen_unread s : Inv s -> nlen (unread s) = valid_len s.
Proof. intros HI. unfold unread. rewrite nlen_nskipn. pose proof (inv_count s HI). lia. Qed.

Lemma get_buf_spec s : Inv s -> get_buf s = VBytes (unread s).
Proof.
  intros HI. unfold get_buf. pose proof (inv_range s HI) as Hr. apply N.leb_le in Hr. rewrite Hr.
  rewrite (inv_window s HI). reflexivity.
Qed.

Lemma nnth_window b pos len k :
  k < len -> pos + len <= nlen b -> nnth (window b pos len) k = nnth b (pos + k).
Proof.
  intros Hk Hr. unfold nnth, window, nfirstn, nskipn, nlen in *.
  rewrite nth_error_firstn by lia. rewrite nth_error_skipn. f_equal. lia.
Qed.

Lemma nnth_beyond {A} (l : list A) k : nlen l <= k -> nnth l k = None.
Proof. intros H. unfold nnth, nlen in *. apply nth_error_None. lia. Qed.

Lemma peek_buffered s k : Inv s -> k < valid_len s -> nnth (buf s) (pos_in_buf s + k) = nnth (unread s) k.
Proof.
  intros HI Hk. unfold unread. rewrite <- (inv_window s HI). symmetry.
  apply nnth_window; [exact Hk | apply (inv_range s HI)].
Qed.

Definition extends (a b : bytes) : Prop := exists x, b = a ++ x.
Lemma extends_refl a : extends a a. Proof. exists []. symmetry; apply app_nil_r. Qed.
Lemma extends_trans a b c : extends a b -> extends b c -> extends a c.
Proof. intros [x ->] [y ->]. exists (x ++ y). symmetry; apply app_assoc. Qed.

(* a refill only appends to the delivered stream and leaves cursor and mark alone *)
Definition frame (s s' : rstate) : Prop :=
  extends (g_delivered s) (g_delivered s') /\ g_consumed s' = g_consumed s /\ g_mark s' = g_mark s /\
  chunk_size s' = chunk_size s.

Lemma frame_refl s : frame s s.
Proof. repeat split. apply extends_refl. Qed.
Lemma frame_trans a b c : frame a b -> frame b c -> frame a c.
Proof.
  intros (H1 & H2 & H3 & H4) (G1 & G2 & G3 & G4). repeat split; try congruence.
  eapply extends_trans; eauto.
Qed.

Lemma frame_request_more s : frame s (rm_state (request_more s)).
Proof.
  unfold request_more. destruct (complete s); [apply frame_refl|].
  destruct (realign_needed s && _); [apply frame_refl|].
  unfold finish_read. destruct (read_retry _ _ _) as [[[bs cl|e] sr] c]; cbn [rm_state].
  - destruct (cl =? 0); [|destruct (_ <? cl)]; repeat split; cbn [after_read g_delivered prep with_layout];
      try apply extends_refl; eexists; reflexivity.
  - repeat split. apply extends_refl.
Qed.

Lemma frame_fill_until fuel : forall need s, frame s (loop_state (fill_until fuel need s)).
Proof.
  induction fuel as [|f IH]; intros need s; cbn [fill_until].
  - destruct (need <=? valid_len s); apply frame_refl.
  - destruct (need <=? valid_len s); [apply frame_refl|].
    pose proof (frame_request_more s) as H.
    destruct (request_more s) as [[|] s'|k s']; cbn [rm_state] in H; cbn [loop_state]; try exact H.
    eapply frame_trans; [exact H | apply IH].
Qed.

(* request(n): the whole unread window; short only if the source ended or failed *)
Lemma request_spec s n :
  Inv s ->
  let '(s', v) := step s (ORequest n) in
  frame s s' /\
  (v = VPanic PReadContract \/
   (v = VBytes (unread s') /\ (nlen (unread s') < n -> g_terminal s' = true))).
Proof.
  intros HI. cbn [step]. destruct (n <=? valid_len s) eqn:Hn.
  - split; [apply frame_refl|]. right. split; [apply get_buf_spec; exact HI|].
    apply N.leb_le in Hn. rewrite nlen_unread by exact HI. lia.
  - pose proof (fill_until_Inv (loop_fuel s) n s HI) as H1.
    pose proof (fill_until_no_fuel (loop_fuel s) n s (loop_fuel_enough s)) as H2.
    pose proof (frame_fill_until (loop_fuel s) n s) as H3.
    destruct (fill_until (loop_fuel s) n s) as [s'|p s'|s'] eqn:Hf; cbn [loop_state] in *.
    + split; [exact H3|]. right. split; [apply get_buf_spec; exact H1|].
      rewrite nlen_unread by exact H1. intros Hlt.
      destruct (fill_until_done _ _ _ _ Hf) as [Hge|Hc]; [lia|].
      rewrite <- (inv_compl s' H1). exact Hc.
    + split; [exact H3|]. left. rewrite (fill_until_panic_kind _ _ _ _ _ HI Hf). reflexivity.
    + exfalso. eapply H2. reflexivity.
Qed.

(* request_byte_at_offset(k): the k-th unread byte; None only if the source ended or failed *)
Lemma peek_spec s k :
  Inv s ->
  let '(s', v) := step s (OPeek k) in
  frame s s' /\
  (v = VPanic PReadContract \/
   (v = VOptByte (nnth (unread s') k) /\ (nnth (unread s') k = None -> g_terminal s' = true))).
Proof.
  intros HI. cbn [step]. unfold peek. destruct (k <? valid_len s) eqn:Hk.
  - apply N.ltb_lt in Hk. rewrite (peek_buffered s k HI Hk).
    destruct (nnth_in_range (unread s) k) as [x Hx]; [rewrite nlen_unread by exact HI; exact Hk|].
    rewrite Hx. split; [apply frame_refl|]. right. rewrite Hx. split; [reflexivity|discriminate].
  - pose proof (fill_until_Inv (loop_fuel s) (k + 1) s HI) as H1.
    pose proof (fill_until_no_fuel (loop_fuel s) (k + 1) s (loop_fuel_enough s)) as H2.
    pose proof (frame_fill_until (loop_fuel s) (k + 1) s) as H3.
    destruct (fill_until (loop_fuel s) (k + 1) s) as [s'|p s'|s'] eqn:Hf; cbn [loop_state] in *.
    + destruct (k <? valid_len s') eqn:Hk'.
      * apply N.ltb_lt in Hk'. rewrite (peek_buffered s' k H1 Hk').
        destruct (nnth_in_range (unread s') k) as [x Hx]; [rewrite nlen_unread by exact H1; exact Hk'|].
        rewrite Hx. split; [exact H3|]. right. rewrite Hx. split; [reflexivity|discriminate].
      * apply N.ltb_ge in Hk'. split; [exact H3|]. right.
        rewrite nnth_beyond by (rewrite nlen_unread by exact H1; exact Hk').
        split; [reflexivity|]. intros _.
        destruct (fill_until_done _ _ _ _ Hf) as [Hge|Hc]; [lia|].
        rewrite <- (inv_compl s' H1). exact Hc.
    + split; [exact H3|]. left. rewrite (fill_until_panic_kind _ _ _ _ _ HI Hf). reflexivity.
    + exfalso. eapply H2. reflexivity.
Qed.

(* advance / advance_with_buf: succeed exactly within the window *)
Lemma advance_spec s n :
  Inv s ->
  let '(s', v) := step s (OAdvance n) in
  if n <=? nlen (unread s)
  then v = VUnit /\ g_consumed s' = g_consumed s + n /\ g_delivered s' = g_delivered s /\ g_mark s' = g_mark s
  else v = VPanic PAdvance /\ s' = s.
Proof.
  intros HI. cbn [step]. unfold advance. rewrite nlen_unread by exact HI.
  destruct (valid_len s <? n) eqn:H.
  - apply N.ltb_lt in H. assert ((n <=? valid_len s) = false) as -> by (apply N.leb_gt; exact H). auto.
  - apply N.ltb_ge in H. assert ((n <=? valid_len s) = true) as -> by (apply N.leb_le; exact H).
    repeat split.
Qed.

Lemma advance_with_buf_spec s n :
  Inv s ->
  let '(s', v) := step s (OAdvanceWithBuf n) in
  if n <=? nlen (unread s)
  then v = VBytes (nfirstn n (unread s)) /\ g_consumed s' = g_consumed s + n /\
       g_delivered s' = g_delivered s /\ g_mark s' = g_mark s
  else v = VPanic PAdvance /\ s' = s.
Proof.
  intros HI. cbn [step]. unfold advance. rewrite nlen_unread by exact HI.
  destruct (valid_len s <? n) eqn:H.
  - apply N.ltb_lt in H. assert ((n <=? valid_len s) = false) as -> by (apply N.leb_gt; exact H). auto.
  - apply N.ltb_ge in H. assert ((n <=? valid_len s) = true) as -> by (apply N.leb_le; exact H).
    cbn [upd_adv pos_in_buf buf g_consumed g_delivered g_mark].
    pose proof (inv_range s HI) as Hr.
    assert ((pos_in_buf s + n <=? nlen (buf s)) = true) as -> by (apply N.leb_le; lia).
    repeat split. f_equal.
    replace (pos_in_buf s + n - n) with (pos_in_buf s) by lia.
    rewrite (window_window_take (buf s) (pos_in_buf s) (valid_len s) n H).
    rewrite (inv_window s HI). reflexivity.
Qed.

(* the observers *)
Lemma observers_spec s :
  Inv s ->
  snd (step s OBuf) = VBytes (unread s) /\
  snd (step s OBufLen) = VNum (nlen (unread s)) /\
  snd (step s OPosition) = VNum (g_consumed s mod W64) /\
  snd (step s OMark) = VNum (g_mark s mod W64) /\
  snd (step s OIsComplete) = VBool (g_terminal s) /\
  snd (step s OIsAtEnd) = VBool (g_terminal s && (nlen (unread s) =? 0)).
Proof.
  intros HI. cbn [step snd]. rewrite (get_buf_spec s HI), (nlen_unread s HI), (inv_pos s HI), (inv_mark s HI).
  unfold is_at_end. rewrite (inv_compl s HI). repeat split.
Qed.

Lemma set_mark_spec s :
  g_mark (fst (step s OSetMark)) = g_consumed s /\
  forall p, g_mark (fst (step s (OSetMarkTo p))) = p mod W64.
Proof. split; reflexivity. Qed.

(* the parked error: set only by a failing read, kept until check_io_error takes it *)
Lemma io_error_kept s o e :
  io_error s = Some e -> o <> OCheckIoError -> Inv s -> io_error (fst (step s o)) = Some e.
Proof.
  intros He Ho HI.
  assert (Hc : complete s = true) by (apply (inv_err s HI); congruence).
  assert (Hrm : request_more s = RMDone false s) by (unfold request_more; rewrite Hc; reflexivity).
  assert (Hfill : forall need, fill_until (loop_fuel s) need s = LDone s).
  { intros need. unfold loop_fuel. cbn [Nat.add fill_until].
    destruct (length (events (src s)) + length (data (src s)) + length (prebuf (src s)) + 2)%nat eqn:E; [lia|].
    cbn [fill_until]. rewrite Hrm. destruct (need <=? valid_len s); reflexivity. }
  destruct o; cbn [step]; try exact He; try congruence.
  - destruct (n <=? valid_len s); [exact He|]. rewrite Hfill. exact He.
  - unfold peek. destruct (k <? valid_len s).
    + destruct (nnth _ _); exact He.
    + rewrite Hfill. destruct (k <? valid_len s); [destruct (nnth _ _)|]; exact He.
  - rewrite Hrm. exact He.
  - unfold advance. destruct (valid_len s <? n); exact He.
  - unfold advance. destruct (valid_len s <? n); cbn [fst]; [exact He|].
    destruct (_ <=? _); exact He.
Qed.

Lemma check_io_error_spec s :
  snd (step s OCheckIoError) = VOptErr (io_error s) /\ io_error (fst (step s OCheckIoError)) = None.
Proof. split; reflexivity. Qed.

(* ---------- whole histories ---------- *)
Lemma run_safe ops : forall s, Good s -> forallb (fun v => negb (bad_obs v)) (snd (run s ops)) = true.
Proof.
  induction ops as [|o os IH]; intros s H; cbn [run]; [reflexivity|].
  pose proof (Good_step s o H) as H1. pose proof (step_safe s o (proj1 H)) as H2.
  destruct (step s o) as [s1 v]. cbn [fst snd] in *.
  specialize (IH s1 H1). destruct (run s1 os) as [s2 vs]. cbn [snd forallb] in *.
  rewrite H2, IH. reflexivity.
Qed.

Lemma run_app ops1 ops2 s :
  run s (ops1 ++ ops2) =
  let '(s1, v1) := run s ops1 in let '(s2, v2) := run s1 ops2 in (s2, v1 ++ v2).
Proof.
  revert s. induction ops1 as [|o os IH]; intros s; cbn [run app].
  - destruct (run s ops2); reflexivity.
  - destruct (step s o) as [s1 v]. rewrite IH. destruct (run s1 os) as [s2 vs].
    destruct (run s2 ops2) as [s3 ws]. reflexivity.
Qed.

(* ---------- conservation w.r.t. an honest source ---------- *)
Fixpoint NoLie (evs : list revent) : Prop :=
  match evs with
  | [] => True
  | Lie _ :: _ => False
  | _ :: ev => NoLie ev
  end.

Definition pending (sr : source) : bytes := prebuf sr ++ data sr.

Lemma nfirstn_nskipn {A} k (l : list A) : nfirstn k l ++ nskipn k l = l.
Proof. apply firstn_skipn. Qed.

Lemma src_read_inner_conserve d evs room r sr :
  NoLie evs -> src_read_inner d evs room = (r, sr) ->
  NoLie (events sr) /\
  match r with ROk bs _ => bs ++ pending sr = d | RErr _ => pending sr = d end.
Proof.
  destruct evs as [|[n| |e| |n] ev]; cbn [src_read_inner NoLie]; intros HN H.
  2: { destruct ((0 <? N.min (N.min n room) (nlen d)) && (N.min (N.min n room) (nlen d) <? n));
       inversion H; subst; clear H; unfold pending; cbn [events prebuf data app NoLie];
       (split; [exact HN | apply nfirstn_nskipn]). }
  all: inversion H; subst; clear H;
    unfold pending; cbn [events prebuf data app NoLie]; try (split; [exact HN|]); try (split; [exact I|]);
    try apply nfirstn_nskipn; try reflexivity; contradiction.
Qed.

Lemma read_retry_inner_conserve evs : forall d room calls r sr calls',
  NoLie evs -> read_retry_inner evs d room calls = (r, sr, calls') ->
  NoLie (events sr) /\
  match r with ROk bs _ => bs ++ pending sr = d | RErr _ => pending sr = d end.
Proof.
  induction evs as [|e ev IH]; intros d room calls r sr calls' HN H.
  - cbn [read_retry_inner] in H. apply (f_equal fst) in H; cbn [fst] in H.
    eapply src_read_inner_conserve; eauto.
  - destruct e; cbn [read_retry_inner] in H;
      try (apply (f_equal fst) in H; cbn [fst] in H; eapply src_read_inner_conserve; eauto; fail).
    eapply IH; eauto.
Qed.

Lemma read_retry_conserve sr room calls r sr' calls' :
  NoLie (events sr) -> read_retry sr room calls = (r, sr', calls') ->
  NoLie (events sr') /\
  match r with ROk bs _ => bs ++ pending sr' = pending sr | RErr _ => pending sr' = pending sr end.
Proof.
  intros HN. unfold read_retry, src_read.
  destruct (0 <? nlen (prebuf sr)) eqn:Hp.
  - intros H; inversion H; subst; clear H. unfold pending; cbn [events prebuf data]. split; [exact HN|].
    rewrite app_assoc. rewrite nfirstn_nskipn. reflexivity.
  - intros H. apply N.ltb_ge in Hp. assert (prebuf sr = []) as E by (apply nlen_zero_nil; lia).
    destruct (read_retry_inner_conserve _ _ _ _ _ _ _ HN H) as [H1 H2]. split; [exact H1|].
    unfold pending at 2 4. rewrite E. exact H2.
Qed.

Definition Conserved (S0 : bytes) (s : rstate) : Prop :=
  NoLie (events (src s)) /\ g_delivered s ++ pending (src s) = S0.

Lemma Conserved_init sr : NoLie (events sr) -> Conserved (pending sr) (reader_init sr).
Proof. intros H. split; [exact H|reflexivity]. Qed.

Lemma Conserved_request_more S0 s : Conserved S0 s -> Conserved S0 (rm_state (request_more s)).
Proof.
  intros [HN HC]. unfold request_more. destruct (complete s); [split; assumption|].
  destruct (realign_needed s && _); [split; assumption|].
  unfold finish_read. change (src (prep s)) with (src s). change (chunk_size (prep s)) with (chunk_size s).
  change (g_calls (prep s)) with (g_calls s).
  destruct (read_retry (src s) (chunk_size s) (g_calls s)) as [[r sr] c] eqn:Hrr.
  destruct (read_retry_conserve _ _ _ _ _ _ HN Hrr) as [H1 H2].
  destruct r as [bs cl|e]; cbn [rm_state].
  - destruct (cl =? 0) eqn:Hz; [|destruct (chunk_size s <? cl) eqn:Hbig].
    + split; [exact H1|]. cbn [rm_state after_read g_delivered src prep with_layout]. rewrite <- app_assoc, H2. exact HC.
    + (* an honest source never claims more than the slice *)
      exfalso. destruct (read_retry_ok _ _ _ _ _ _ _ Hrr) as [Hl _].
      apply N.ltb_lt in Hbig.
      (* claimed = nlen bs for honest events *)
      clear -Hrr HN Hbig Hl.
      unfold read_retry, src_read in Hrr. destruct (0 <? nlen (prebuf (src s))).
      * inversion Hrr; subst. rewrite nlen_nfirstn in Hl. lia.
      * revert Hrr HN. generalize (g_calls s) as calls. generalize (data (src s)) as d.
        induction (events (src s)) as [|e ev IH]; intros d calls Hrr HN.
        -- cbn in Hrr. inversion Hrr; subst. lia.
        -- destruct e; cbn [read_retry_inner src_read_inner NoLie] in *; try (inversion Hrr; subst; lia);
             try contradiction. eapply IH; eauto.
    + split; [exact H1|]. cbn [rm_state after_read g_delivered src prep with_layout]. rewrite <- app_assoc, H2. exact HC.
  - split; [exact H1|]. cbn [rm_state after_read g_delivered src prep with_layout]. rewrite H2. exact HC.
Qed.

Lemma Conserved_fill_until S0 fuel : forall need s,
  Conserved S0 s -> Conserved S0 (loop_state (fill_until fuel need s)).
Proof.
  induction fuel as [|f IH]; intros need s H; cbn [fill_until].
  - destruct (need <=? valid_len s); exact H.
  - destruct (need <=? valid_len s); [exact H|].
    pose proof (Conserved_request_more S0 s H) as H'.
    destruct (request_more s) as [[|] s'|k s']; cbn [rm_state] in H'; [apply IH|..]; exact H'.
Qed.

Lemma Conserved_step S0 s o : Conserved S0 s -> Conserved S0 (fst (step s o)).
Proof.
  intros H. destruct o; cbn [step]; try exact H.
  - destruct (n <=? valid_len s); [exact H|].
    pose proof (Conserved_fill_until S0 (loop_fuel s) n s H) as H1.
    destruct (fill_until (loop_fuel s) n s); exact H1.
  - unfold peek. destruct (k <? valid_len s); [destruct (nnth _ _); exact H|].
    pose proof (Conserved_fill_until S0 (loop_fuel s) (k + 1) s H) as H1.
    destruct (fill_until (loop_fuel s) (k + 1) s) as [s'|p s'|s']; cbn [loop_state fst] in *; try exact H1.
    destruct (k <? valid_len s'); [destruct (nnth _ _)|]; exact H1.
  - pose proof (Conserved_request_more S0 s H) as H1. destruct (request_more s); exact H1.
  - unfold advance. destruct (valid_len s <? n); exact H.
  - unfold advance. destruct (valid_len s <? n); cbn [fst]; [exact H|]. destruct (_ <=? _); exact H.
Qed.

Lemma Conserved_run S0 ops : forall s, Conserved S0 s -> Conserved S0 (fst (run s ops)).
Proof.
  induction ops as [|o os IH]; intros s H; cbn [run]; [exact H|].
  pose proof (Conserved_step S0 s o H) as H1. destruct (step s o) as [s1 v]. cbn [fst] in H1.
  specialize (IH s1 H1). destruct (run s1 os) as [s2 vs]. exact IH.
Qed.

(* hence: what the reader exposes is the piece of the source stream that starts
   at the number of bytes advanced over *)
Lemma unread_is_source_window S0 s :
  Inv s -> Conserved S0 s -> unread s = window S0 (g_consumed s) (valid_len s).
Proof.
  intros HI [_ HC]. unfold unread, window. rewrite <- HC.
  pose proof (inv_count s HI) as Hc.
  rewrite nskipn_app_l by lia.
  unfold nfirstn. symmetry. apply firstn_app_exact.
  rewrite length_nskipn. unfold nlen in Hc. lia.
Qed.

(* ---------- read calls (C09 part A) ---------- *)
Fixpoint interrupts (evs : list revent) : N :=
  match evs with Interrupt :: ev => 1 + interrupts ev | _ => 0 end.

Lemma read_retry_inner_calls evs : forall d room calls r sr calls',
  read_retry_inner evs d room calls = (r, sr, calls') -> calls' = calls + interrupts evs + 1.
Proof.
  induction evs as [|e ev IH]; intros d room calls r sr calls' H.
  - cbn in H. inversion H; subst. cbn [interrupts]. lia.
  - destruct e; cbn [read_retry_inner interrupts] in *; try (inversion H; subst; lia).
    rewrite (IH _ _ _ _ _ _ H). lia.
Qed.

(* one refill = the Interrupted attempts plus exactly one other call on the inner
   reader (none while BufReader leftovers are being handed out); nothing once complete *)
Lemma request_more_calls s :
  Inv s ->
  g_calls (rm_state (request_more s)) =
  if complete s then g_calls s
  else if 0 <? nlen (prebuf (src s)) then g_calls s
  else g_calls s + interrupts (events (src s)) + 1.
Proof.
  intros HI. unfold request_more. destruct (complete s); [reflexivity|].
  pose proof (inv_range s HI) as Hr. apply N.leb_le in Hr. rewrite Hr, andb_false_r.
  unfold finish_read. change (src (prep s)) with (src s). change (chunk_size (prep s)) with (chunk_size s).
  change (g_calls (prep s)) with (g_calls s).
  destruct (read_retry (src s) (chunk_size s) (g_calls s)) as [[r sr] c] eqn:Hrr.
  assert (Hc : c = if 0 <? nlen (prebuf (src s)) then g_calls s else g_calls s + interrupts (events (src s)) + 1).
  { unfold read_retry in Hrr. destruct (0 <? nlen (prebuf (src s))).
    - inversion Hrr; reflexivity.
    - eapply read_retry_inner_calls; eauto. }
  destruct r as [bs cl|e]; cbn [rm_state].
  - destruct (cl =? 0); [|destruct (_ <? cl)]; exact Hc.
  - exact Hc.
Qed.

Lemma terminal_no_more_calls s o :
  Inv s -> g_terminal s = true -> g_calls (fst (step s o)) = g_calls s.
Proof.
  intros HI Ht. assert (Hc : complete s = true) by (rewrite (inv_compl s HI); exact Ht).
  assert (Hrm : request_more s = RMDone false s) by (unfold request_more; rewrite Hc; reflexivity).
  assert (Hfill : forall need, loop_state (fill_until (loop_fuel s) need s) = s).
  { intros need. unfold loop_fuel.
    destruct (length (events (src s)) + length (data (src s)) + length (prebuf (src s)) + 2)%nat eqn:E; [lia|].
    cbn [fill_until]. rewrite Hrm. destruct (need <=? valid_len s); reflexivity. }
  destruct o; cbn [step]; try reflexivity.
  - destruct (n <=? valid_len s); [reflexivity|]. specialize (Hfill n).
    destruct (fill_until (loop_fuel s) n s); cbn [loop_state fst] in *; congruence.
  - unfold peek. destruct (k <? valid_len s); [destruct (nnth _ _); reflexivity|].
    specialize (Hfill (k + 1)).
    destruct (fill_until (loop_fuel s) (k + 1) s) as [s'|p s'|s']; cbn [loop_state fst] in *; subst;
      try reflexivity.
    destruct (k <? valid_len s); [destruct (nnth _ _)|]; reflexivity.
  - rewrite Hrm. reflexivity.
  - unfold advance. destruct (valid_len s <? n); reflexivity.
  - unfold advance. destruct (valid_len s <? n); cbn [fst]; [reflexivity|]. destruct (_ <=? _); reflexivity.
Qed.

(* no read when the buffered data already satisfies the request *)
Lemma satisfied_no_call s :
  (forall n, n <= valid_len s -> fst (step s (ORequest n)) = s) /\
  (forall k, k < valid_len s -> Inv s -> fst (step s (OPeek k)) = s).
Proof.
  split.
  - intros n H. cbn [step]. apply N.leb_le in H. rewrite H. reflexivity.
  - intros k H HI. cbn [step]. unfold peek. pose proof H as H'. apply N.ltb_lt in H'. rewrite H'.
    destruct (nnth _ _); reflexivity.
Qed.

(* ---------- buffer size (C10) ---------- *)
Lemma prep_buf_bound s C :
  Inv s -> chunk_size s <= C ->
  nlen (buf (prep s)) <= N.max (nlen (buf s)) (3 * C + valid_len s).
Proof.
  intros HI HC. pose proof (inv_range s HI) as Hr.
  unfold prep, with_layout; cbn [buf]. unfold realign_needed.
  destruct (2 * chunk_size s <? pos_in_buf s) eqn:Hre; cbn [andb].
  - pose proof (nlen_copy_to_front _ _ _ Hr) as Hl.
    set (b1 := copy_to_front (buf s) (pos_in_buf s) (valid_len s)) in *.
    destruct (4 * (0 + valid_len s + chunk_size s) <? nlen b1) eqn:Hsh.
    + set (b2 := nfirstn (nlen b1 / 2) b1).
      assert (Hl2 : nlen b2 = nlen b1 / 2) by (unfold b2; rewrite nlen_nfirstn; lia).
      destruct (nlen b2 <? 0 + valid_len s + chunk_size s) eqn:Hg.
      * apply N.ltb_lt in Hg. rewrite nlen_grow by lia. lia.
      * lia.
    + destruct (nlen b1 <? 0 + valid_len s + chunk_size s) eqn:Hg.
      * apply N.ltb_lt in Hg. rewrite nlen_grow by lia. lia.
      * lia.
  - apply N.ltb_ge in Hre.
    destruct (nlen (buf s) <? pos_in_buf s + valid_len s + chunk_size s) eqn:Hg.
    + apply N.ltb_lt in Hg. rewrite nlen_grow by lia. lia.
    + lia.
Qed.

Lemma request_more_buf_bound s C :
  Inv s -> chunk_size s <= C ->
  let s' := rm_state (request_more s) in
  nlen (buf s') <= N.max (nlen (buf s)) (3 * C + valid_len s) /\ valid_len s <= valid_len s'.
Proof.
  intros HI HC. cbn zeta. unfold request_more. destruct (complete s); [cbn [rm_state]; split; lia|].
  pose proof (inv_range s HI) as Hr. pose proof Hr as Hr'. apply N.leb_le in Hr'. rewrite Hr', andb_false_r.
  pose proof (prep_buf_bound s C HI HC) as Hb.
  destruct (prep_room s Hr) as [Hroom _].
  unfold finish_read. destruct (read_retry _ _ _) as [[[bs cl|e] sr] c] eqn:Hrr; cbn [rm_state].
  - destruct (read_retry_ok _ _ _ _ _ _ _ Hrr) as [Hl _].
    change (chunk_size (prep s)) with (chunk_size s) in *. change (valid_len (prep s)) with (valid_len s) in *.
    destruct (cl =? 0); [|destruct (_ <? cl)]; cbn [rm_state after_read buf valid_len];
      rewrite nlen_splice by lia; split; lia.
  - cbn [rm_state after_read buf valid_len]. change (valid_len (prep s)) with (valid_len s). split; lia.
Qed.

Lemma fill_until_buf_bound C fuel : forall need s,
  Inv s -> chunk_size s <= C ->
  let s' := loop_state (fill_until fuel need s) in
  nlen (buf s') <= N.max (nlen (buf s)) (3 * C + valid_len s') /\ valid_len s <= valid_len s'.
Proof.
  induction fuel as [|f IH]; intros need s HI HC; cbn zeta; cbn [fill_until].
  - destruct (need <=? valid_len s); cbn [loop_state]; split; lia.
  - destruct (need <=? valid_len s); [cbn [loop_state]; split; lia|].
    pose proof (request_more_buf_bound s C HI HC) as [H1 H2].
    pose proof (Inv_request_more s HI) as HI'.
    pose proof (frame_request_more s) as (_ & _ & _ & Hch).
    destruct (request_more s) as [[|] s1|k s1]; cbn [rm_state loop_state] in *; try (split; lia).
    specialize (IH need s1 HI' ltac:(lia)). cbn zeta in IH. destruct IH as [IH1 IH2]. split; lia.
Qed.

Lemma step_buf_bound s o C :
  Inv s -> chunk_size s <= C ->
  let s' := fst (step s o) in
  nlen (buf s') <= N.max (nlen (buf s)) (3 * C + N.max (valid_len s) (valid_len s')).
Proof.
  intros HI HC. cbn zeta. destruct o; cbn [step]; try (cbn [fst]; lia).
  - destruct (n <=? valid_len s); [cbn [fst]; lia|].
    pose proof (fill_until_buf_bound C (loop_fuel s) n s HI HC) as H. cbn zeta in H.
    destruct (fill_until (loop_fuel s) n s); cbn [loop_state fst] in *; lia.
  - unfold peek. destruct (k <? valid_len s); [destruct (nnth _ _); cbn [fst]; lia|].
    pose proof (fill_until_buf_bound C (loop_fuel s) (k + 1) s HI HC) as H. cbn zeta in H.
    destruct (fill_until (loop_fuel s) (k + 1) s) as [s'|p s'|s']; cbn [loop_state fst] in *; try lia.
    destruct (k <? valid_len s'); [destruct (nnth _ _)|]; cbn [fst]; lia.
  - pose proof (request_more_buf_bound s C HI HC) as H. cbn zeta in H.
    destruct (request_more s); cbn [rm_state fst] in *; lia.
  - unfold advance. destruct (valid_len s <? n); cbn [fst upd_adv buf valid_len]; lia.
  - unfold advance. destruct (valid_len s <? n); cbn [fst]; [lia|].
    destruct (_ <=? _); cbn [fst upd_adv buf valid_len]; lia.
  - cbn [fst set_mark_in_buf buf valid_len]. lia.
  - cbn [fst set_mark_in_buf buf valid_len]. lia.
  - cbn [fst set_chunk buf valid_len]. lia.
  - cbn [fst clear_io_error buf valid_len]. lia.
Qed.
