(* Prealloc.v — the pre-allocations of the AIGER whole-file parsers (`Parser::parse` in ascii.rs / binary.rs).
   The size expressions are REGENERATED from the source on every run (Consts.prealloc_ascii / prealloc_binary, section
   `prealloc` of tools/translate.py, which also insists that no other size-driven allocation site exists in the four
   crates besides the reader's and writer's modelled ones).  Proved here: whatever counts a header declares, the number
   of elements reserved before any item has been read is bounded by a constant, and never exceeds the declared count. *)
From Coq Require Import List NArith Lia.
From Flussab Require Import Base Consts Aiger.
Import ListNotations.
Local Open Scope N_scope.

Definition prealloc_cap : N := 1048576.      (* 2^20 elements per vector: the constant of the bound *)
Definition prealloc_sites : nat := 16.

Definition prealloc_aag (h : aheader) : list N :=
  prealloc_ascii (a_max_var h) (a_inputs h) (a_latches h) (a_outputs h) (a_ands h) (a_bad h) (a_constraints h)
                 (a_justice h) (a_fairness h).
Definition prealloc_aig (h : aheader) : list N :=
  prealloc_binary (a_max_var h) (a_inputs h) (a_latches h) (a_outputs h) (a_ands h) (a_bad h) (a_constraints h)
                  (a_justice h) (a_fairness h).

Definition sumN (l : list N) : N := fold_right N.add 0 l.
Definition declared (h : aheader) : N :=
  a_inputs h + a_latches h + a_outputs h + a_ands h + a_bad h + a_constraints h + a_justice h + a_fairness h.

Lemma sumN_bound : forall l c, Forall (fun n => n <= c) l -> sumN l <= N.of_nat (length l) * c.
Proof.
  induction l as [|x l IH]; intros c H.
  - cbn. lia.
  - inversion H as [|? ? Hx Hl]; subst. specialize (IH c Hl).
    change (sumN (x :: l)) with (x + sumN l). simpl length. rewrite Nat2N.inj_succ. lia.
Qed.

Ltac each_entry := repeat (apply Forall_cons; [ cbv beta; unfold prealloc_cap, declared; lia | ]); apply Forall_nil.

Lemma prealloc_aag_each : forall h, Forall (fun n => n <= prealloc_cap /\ n <= declared h) (prealloc_aag h).
Proof. intros h. unfold prealloc_aag, prealloc_ascii. each_entry. Qed.

Lemma prealloc_aig_each : forall h, Forall (fun n => n <= prealloc_cap /\ n <= declared h) (prealloc_aig h).
Proof. intros h. unfold prealloc_aig, prealloc_binary. each_entry. Qed.

Lemma prealloc_aag_sites : forall h, (length (prealloc_aag h) <= prealloc_sites)%nat.
Proof. intros h. unfold prealloc_aag, prealloc_ascii, prealloc_sites. cbn [length]. lia. Qed.

Lemma prealloc_aig_sites : forall h, (length (prealloc_aig h) <= prealloc_sites)%nat.
Proof. intros h. unfold prealloc_aig, prealloc_binary, prealloc_sites. cbn [length]. lia. Qed.

(* the total number of elements reserved up front is bounded by a constant, whatever the header declares *)
Lemma prealloc_total l h :
  Forall (fun n => n <= prealloc_cap /\ n <= declared h) l -> (length l <= prealloc_sites)%nat ->
  sumN l <= N.of_nat prealloc_sites * prealloc_cap.
Proof.
  intros H Hl.
  assert (H1 : Forall (fun n => n <= prealloc_cap) l) by (eapply Forall_impl; [|exact H]; cbv beta; intros a [Ha _]; exact Ha).
  pose proof (sumN_bound l prealloc_cap H1) as Hs.
  assert (N.of_nat (length l) <= N.of_nat prealloc_sites) by lia.
  unfold prealloc_cap in *. nia.
Qed.

Theorem prealloc_aag_bounded : forall h,
  sumN (prealloc_aag h) <= N.of_nat prealloc_sites * prealloc_cap /\
  Forall (fun n => n <= prealloc_cap /\ n <= declared h) (prealloc_aag h).
Proof. intros h. split; [ eapply prealloc_total; [apply prealloc_aag_each | apply prealloc_aag_sites] | apply prealloc_aag_each ]. Qed.

Theorem prealloc_aig_bounded : forall h,
  sumN (prealloc_aig h) <= N.of_nat prealloc_sites * prealloc_cap /\
  Forall (fun n => n <= prealloc_cap /\ n <= declared h) (prealloc_aig h).
Proof. intros h. split; [ eapply prealloc_total; [apply prealloc_aig_each | apply prealloc_aig_sites] | apply prealloc_aig_each ]. Qed.

(* non-vacuity / reading aid: a hostile header (all counts 2^60) reserves 7 * 65536 resp. 6 * 65536 elements *)
Example prealloc_hostile :
  let h := {| a_max_var := 2^61; a_inputs := 2^60; a_latches := 2^60; a_outputs := 2^60; a_ands := 2^60; a_bad := 2^60;
              a_constraints := 2^60; a_justice := 2^60; a_fairness := 2^60 |} in
  sumN (prealloc_aag h) = 458752 /\ sumN (prealloc_aig h) = 393216.
Proof. vm_compute. split; reflexivity. Qed.
