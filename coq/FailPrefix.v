(* FailPrefix.v — C04, last sentence: the items a parser hands out before the source's I/O error are the items
   it hands out at those indices when the source ends cleanly instead.

   Generic part.  A program sees the terminal event of its source only through the answers of [ErrParked] and
   [TakeErr].  [nofail v] is the view [v] with a clean end instead of the failure.  [lv B d p] is a syntactic
   predicate on a program: every leaf [Ret a] of [p] satisfies [B d' a], where the flag [d'] is [true] iff [d] is
   true or the path to the leaf goes through an [ErrParked] answered "an error is parked" or a [TakeErr] answered
   "this error" -- the only answers a clean end never gives.  [lv_sound]: the simple run of [p] on [v] either
   proceeds exactly like the simple run on [nofail v] (same value, same final view up to [nofail]) or its value
   satisfies [B true].  For the parsers [B true] is "the result is an error", so: an item is handed out only by
   an iteration that ran exactly as on the unfailing source. *)
From Flussab Require Import Base Reader ListN Parsed Prog ProgProofs Cnf.
Local Open Scope N_scope.

Definition nofail (v : view) : view :=
  {| vS := vS v; vfail := None; vcur := vcur v; vmark := vmark v; vtaken := vtaken v; vknown := vknown v;
     vhwm := vhwm v; vreq := vreq v |}.

Fixpoint lv {A} (B : bool -> A -> Prop) (d : bool) (p : prog A) : Prop :=
  match p with
  | Ret a => B d a
  | Peek _ c => forall o, lv B d (c o)
  | Advance _ c => lv B d c
  | TryLoad8 _ c => forall o, lv B d (c o)
  | IsAtEnd c => forall b, lv B d (c b)
  | ErrParked c => lv B d (c false) /\ lv B true (c true)
  | TakeErr c => lv B d (c None) /\ forall e, lv B true (c (Some e))
  | SetMark c => lv B d c
  | GetMark c => forall m, lv B d (c m)
  | GetPos c => forall m, lv B d (c m)
  | Crash _ => True
  | NoFuel => True
  end.

Lemma lv_conseq {A} (B B' : bool -> A -> Prop) (p : prog A) : forall d,
  lv B d p -> (forall d' a, B d' a -> B' d' a) -> lv B' d p.
Proof.
  induction p as [a|k c IH|n c IH|off c IH|c IH|c IH|c IH|c IH|c IH|c IH|k|]; intros d H HB; cbn [lv] in *; auto;
    try (destruct H as [H1 H2]; split; [eapply IH; eauto|try (intros e); eapply IH; eauto]).
Qed.

Lemma lv_bind {A C} (B' : bool -> A -> Prop) (B : bool -> C -> Prop) (p : prog A) (f : A -> prog C) : forall d,
  lv B' d p -> (forall d' a, B' d' a -> lv B d' (f a)) -> lv B d (pbind p f).
Proof.
  induction p as [a|k c IH|n c IH|off c IH|c IH|c IH|c IH|c IH|c IH|c IH|k|]; intros d H HB; cbn [lv pbind] in *; auto;
    try (destruct H as [H1 H2]; split; [eapply IH; eauto|try (intros e); eapply IH; eauto]).
Qed.

(* everything satisfies the trivial condition *)
Lemma lv_triv {A} (B : bool -> A -> Prop) (p : prog A) : (forall d a, B d a) -> forall d, lv B d p.
Proof.
  intros HB. induction p as [a|k c IH|n c IH|off c IH|c IH|c IH|c IH|c IH|c IH|c IH|k|]; intros d; cbn [lv]; auto.
Qed.

(* programs without ErrParked / TakeErr *)
Fixpoint quietp {A} (p : prog A) : Prop :=
  match p with
  | Ret _ | Crash _ | NoFuel => True
  | Peek _ c => forall o, quietp (c o)
  | Advance _ c | SetMark c => quietp c
  | TryLoad8 _ c => forall o, quietp (c o)
  | GetMark c | GetPos c => forall m, quietp (c m)
  | IsAtEnd c => forall b, quietp (c b)
  | ErrParked _ | TakeErr _ => False
  end.

Lemma quietp_bind {A C} (p : prog A) (f : A -> prog C) : quietp p -> (forall a, quietp (f a)) -> quietp (pbind p f).
Proof.
  induction p as [a|k c IH|n c IH|off c IH|c IH|c IH|c IH|c IH|c IH|c IH|k|]; cbn [quietp pbind]; intros Hd Hf; auto;
    contradiction.
Qed.

(* a quiet program leaves the flag alone *)
Lemma quietp_lv {A} (p : prog A) : quietp p -> forall d, lv (fun d' _ => d' = d) d p.
Proof.
  induction p as [a|k c IH|n c IH|off c IH|c IH|c IH|c IH|c IH|c IH|c IH|k|]; cbn [quietp lv]; intros Hq d; auto;
    contradiction.
Qed.

(* ---------- the simple run on the view without the failure ---------- *)
Lemma srun_bind_eq {A C} (p : prog A) (f : A -> prog C) : forall v,
  srun (pbind p f) v =
  match srun p v with
  | ADone a v' => srun (f a) v'
  | APanic k => APanic k
  | AStuck => AStuck
  | AFuel => AFuel
  end.
Proof.
  induction p as [a|k c IH|n c IH|off c IH|c IH|c IH|c IH|c IH|c IH|c IH|k|]; intros v; cbn [pbind srun]; auto.
  destruct (vcur v + n <=? vhwm v); auto.
Qed.

Lemma srun_bind_inv {A C} (p : prog A) (f : A -> prog C) v b v2 :
  srun (pbind p f) v = ADone b v2 -> exists a v1, srun p v = ADone a v1 /\ srun (f a) v1 = ADone b v2.
Proof.
  rewrite srun_bind_eq. destruct (srun p v) as [a v1| | |]; try discriminate. intros H. exists a, v1. auto.
Qed.

Lemma lv_leaves {A} (B : bool -> A -> Prop) (p : prog A) : forall d v a v',
  lv B d p -> srun p v = ADone a v' -> B d a \/ B true a.
Proof.
  induction p as [a|k c IH|n c IH|off c IH|c IH|c IH|c IH|c IH|c IH|c IH|k|]; intros d v a0 v0 H Hs; cbn [lv srun] in *;
    try discriminate.
  - inversion Hs; subst. left. exact H.
  - eapply IH; [apply H|exact Hs].
  - destruct (vcur v + n <=? vhwm v); [|discriminate]. eapply IH; [apply H|exact Hs].
  - eapply IH; [apply H|exact Hs].
  - eapply IH; [apply H|exact Hs].
  - destruct H as [H1 H2]. destruct (s_parked v).
    + right. destruct (IH _ _ _ _ _ H2 Hs); assumption.
    + eapply IH; [exact H1|exact Hs].
  - destruct H as [H1 H2]. destruct (s_take v) as [e|].
    + right. destruct (IH _ _ _ _ _ (H2 e) Hs); assumption.
    + eapply IH; [exact H1|exact Hs].
  - eapply IH; [apply H|exact Hs].
  - eapply IH; [apply H|exact Hs].
  - eapply IH; [apply H|exact Hs].
Qed.

Lemma s_parked_nofail v : s_parked (nofail v) = false.
Proof. unfold s_parked, v_err_now, nofail; cbn [vknown vtaken vfail]. destruct (vknown v), (vtaken v); reflexivity. Qed.

Lemma s_take_nofail v : s_take (nofail v) = None.
Proof. unfold s_take, v_err_now, nofail; cbn [vknown vtaken vfail]. destruct (vknown v), (vtaken v); reflexivity. Qed.

Theorem lv_sound {A} (B : bool -> A -> Prop) (p : prog A) : forall d v a v',
  lv B d p -> srun p v = ADone a v' ->
  srun p (nofail v) = ADone a (nofail v') \/ B true a.
Proof.
  induction p as [a|k c IH|n c IH|off c IH|c IH|c IH|c IH|c IH|c IH|c IH|k|]; intros d v a0 v0 H Hs; cbn [lv srun] in *;
    try discriminate.
  - inversion Hs; subst. left. reflexivity.
  - exact (IH _ d (after_peek v k) a0 v0 (H _) Hs).
  - change (vcur (nofail v) + n <=? vhwm (nofail v)) with (vcur v + n <=? vhwm v).
    destruct (vcur v + n <=? vhwm v); [|discriminate].
    exact (IH d (v_advance v n) a0 v0 H Hs).
  - exact (IH _ d (v_loaded v off (s_tryload v off)) a0 v0 (H _) Hs).
  - exact (IH _ d v a0 v0 (H _) Hs).
  - destruct H as [H1 H2]. rewrite s_parked_nofail. destruct (s_parked v).
    + right. destruct (lv_leaves _ _ _ _ _ _ H2 Hs); assumption.
    + exact (IH _ d v a0 v0 H1 Hs).
  - destruct H as [H1 H2]. rewrite s_take_nofail. destruct (s_take v) as [e|].
    + right. destruct (lv_leaves _ _ _ _ _ _ (H2 e) Hs); assumption.
    + exact (IH _ d (v_take v None) a0 v0 H1 Hs).
  - exact (IH d (v_setmark v) a0 v0 H Hs).
  - exact (IH _ d v a0 v0 (H _) Hs).
  - exact (IH _ d v a0 v0 (H _) Hs).
Qed.

Lemma nofail_init S e : nofail (view_init S e) = view_init S None.
Proof. reflexivity. Qed.

(* ---------- the same for LineReader programs ---------- *)
Definition plv {A} (B : bool -> A -> Prop) (d : bool) (m : PM A) : Prop :=
  forall lr, lv (fun d' x => B d' (fst x)) d (m lr).

Lemma plv_pret {A} (B : bool -> A -> Prop) d (a : A) : B d a -> plv B d (pret a).
Proof. intros H lr. exact H. Qed.

Lemma plv_pbnd {A C} (B' : bool -> A -> Prop) (B : bool -> C -> Prop) d (m : PM A) (f : A -> PM C) :
  plv B' d m -> (forall d' a, B' d' a -> plv B d' (f a)) -> plv B d (pbnd m f).
Proof.
  intros H1 H2 lr. unfold pbnd. eapply lv_bind; [apply H1|]. intros d' [a lr'] HB. cbn [fst] in HB. apply H2. exact HB.
Qed.

Lemma plv_conseq {A} (B B' : bool -> A -> Prop) d (m : PM A) :
  plv B d m -> (forall d' a, B d' a -> B' d' a) -> plv B' d m.
Proof. intros H HB lr. eapply lv_conseq; [apply H|]. intros d' [a lr']. cbn [fst]. apply HB. Qed.

Lemma plv_lift {A} (B : bool -> A -> Prop) d (p : prog A) : lv B d p -> plv B d (lift p).
Proof. intros H lr. unfold lift. eapply lv_bind; [exact H|]. intros d' a HB. exact HB. Qed.

Lemma plv_triv {A} (B : bool -> A -> Prop) (m : PM A) : (forall d a, B d a) -> forall d, plv B d m.
Proof. intros HB d lr. apply lv_triv. intros d' [a lr']. apply HB. Qed.

(* the standard conditions: the flag is unchanged (the program met no failure), or the value is an error *)
Definition QN {A} (d : bool) : bool -> A -> Prop := fun d' _ => d' = d.
Definition is_rerr {A} (r : result A perr) : Prop := match r with Err _ => True | Ok _ => False end.
Definition not_tok_ok {A} (r : parsed A perr) : Prop := match r with Res (Ok _) => False | _ => True end.
Definition is_tok_err {A} (r : parsed A perr) : Prop := match r with Res (Err _) => True | _ => False end.
Definition QR {A} (d : bool) : bool -> result A perr -> Prop := fun d' r => d' = d \/ is_rerr r.
Definition QT {A} (d : bool) : bool -> parsed A perr -> Prop := fun d' r => d' = d \/ is_tok_err r.
Definition QF {A} (d : bool) : bool -> parsed A perr -> Prop := fun d' r => d' = d \/ not_tok_ok r.
Definition QA {A} : bool -> A -> Prop := fun _ _ => True.

Lemma plv_quiet {A} d (m : PM A) : (forall lr, quietp (m lr)) -> plv (QN d) d m.
Proof. intros H lr. eapply lv_conseq; [apply quietp_lv, H|]. intros d' [a lr'] E. exact E. Qed.

Lemma plv_lift_quiet {A} d (p : prog A) : quietp p -> plv (QN d) d (lift p).
Proof. intros H. apply plv_lift. apply quietp_lv. exact H. Qed.

Lemma plv_any {A} d (m : PM A) : plv QA d m.
Proof. apply plv_triv. intros; exact I. Qed.

(* entirely quiet LineReader programs *)
Definition pq {A} (m : PM A) : Prop := forall lr, quietp (m lr).

Lemma pq_pret {A} (a : A) : pq (pret a).
Proof. intros lr. exact I. Qed.
Lemma pq_pbnd {A C} (m : PM A) (f : A -> PM C) : pq m -> (forall a, pq (f a)) -> pq (pbnd m f).
Proof. intros H1 H2 lr. unfold pbnd. apply quietp_bind; [apply H1|]. intros [a lr']. apply H2. Qed.
Lemma pq_lift {A} (p : prog A) : quietp p -> pq (lift p).
Proof. intros H lr. unfold lift. apply quietp_bind; [exact H|]. intros a. exact I. Qed.
Lemma pq_plv {A} d (m : PM A) : pq m -> plv (QN d) d m.
Proof. exact (plv_quiet d m). Qed.

Create HintDb quietdb.
Create HintDb plvdb.

Ltac qp :=
  repeat (cbn [quietp]; intros;
    match goal with
    | |- quietp (match ?x with _ => _ end) => destruct x
    | |- quietp (if ?x then _ else _) => destruct x
    | |- _ /\ _ => split
    | |- True => exact I
    end); try solve [eauto with quietdb].

Ltac pqw :=
  lazymatch goal with
  | |- pq (pbnd _ _) => apply pq_pbnd; [pqw | intros ?; pqw]
  | |- pq (pret _) => apply pq_pret
  | |- pq (lift _) => apply pq_lift; qp
  | |- pq (match ?x with _ => _ end) => destruct x; pqw
  | |- pq (if ?x then _ else _) => destruct x; pqw
  | |- pq (pcrash _) => intro; exact I
  | |- pq pnofuel => intro; exact I
  | |- pq get_lrs => intro; exact I
  | |- pq (set_lrs _) => intro; exact I
  | |- _ => solve [eauto with quietdb]
  end.

(* the conditions after the two nodes that see the failure *)
Definition QTk (d : bool) : bool -> option N -> Prop := fun d' o => (d' = d /\ o = None) \/ exists e, o = Some e.
Definition QPk (d : bool) : bool -> bool -> Prop := fun d' b => (d' = d /\ b = false) \/ b = true.
Definition QM (d : bool) : bool -> result bool perr -> Prop :=
  fun d' r => d' = d \/ match r with Ok true => False | _ => True end.

Lemma plv_takeerr d : plv (QTk d) d (lift (TakeErr Ret)).
Proof. apply plv_lift. cbn [lv]. split; [left; split; reflexivity|]. intros e. right. exists e. reflexivity. Qed.
Lemma plv_parked d : plv (QPk d) d (lift (ErrParked Ret)).
Proof. apply plv_lift. cbn [lv]. split; [left; split; reflexivity|right; reflexivity]. Qed.
#[export] Hint Resolve plv_takeerr plv_parked : plvdb.

Ltac pfin := cbn [is_rerr is_tok_err not_tok_ok fst snd];
  first [exact I | left; reflexivity | right; exact I | reflexivity | left; split; reflexivity ].

Ltac pw_hyp HB :=
  first [ (* QN *) progress (unfold QN in HB); subst
        | (* QA *) progress (unfold QA in HB); clear HB
        | (* QTk *) progress (unfold QTk in HB); destruct HB as [ [-> ->] | [? ->] ]
        | (* QPk *) progress (unfold QPk in HB); destruct HB as [ [-> ->] | -> ]
        | (* QR QT QF QM *) unfold QR, QT, QF, QM in HB; destruct HB as [ -> | HB ];
            [|unfold is_rerr, is_tok_err, not_tok_ok in HB;
              repeat (match type of HB with context [match ?x with _ => _ end] => destruct x end);
              try contradiction] ].

Ltac pw :=
  cbn [is_rerr is_tok_err not_tok_ok fst snd] in *; try contradiction;
  lazymatch goal with
  | |- plv _ _ (pbnd _ _) =>
      eapply plv_pbnd;
      [solve [eauto with plvdb]
      |let d' := fresh "d" in let a := fresh "a" in let HB := fresh "HB" in
       intros d' a HB; pw_hyp HB; pw]
  | |- plv _ _ (pret _) => apply plv_pret; pfin
  | |- plv _ _ (match ?x with _ => _ end) => destruct x; pw
  | |- plv _ _ (if ?x then _ else _) => destruct x; pw
  | |- plv _ _ (pcrash _) => intro; exact I
  | |- plv _ _ pnofuel => intro; exact I
  | |- _ => solve [eauto with plvdb]
  end.

(* ---------- from admissible runs to the simple run ---------- *)
Lemma srun_of_aruns {A} (p : prog A) (fuel : nat) (S : bytes) (fail : option N) (a : A) (v1 : view) :
  Forall (fun b => b < 256) S -> (length S < fuel)%nat ->
  CoreDet fuel p ->
  (forall r, aruns p (view_init S fail) r -> exists a v', r = ADone a v') ->
  aruns p (view_init S fail) (ADone a v1) -> exists v', srun p (view_init S fail) = ADone a v'.
Proof.
  intros Hb Hf Hdet Hsafe Hr.
  set (v := view_init S fail) in *.
  assert (Hw : WFV v) by (unfold WFV, v; cbn; lia).
  pose proof (srun_aruns p v Hw) as Hsr.
  destruct (Hsafe _ Hsr) as (a2 & v2 & E). exists v2. rewrite E in *. f_equal.
  pose proof (Hdet v v _ _ eq_refl Hw Hw Hb Hf Hsr Hr) as Hag. destruct Hag as [-> _]. reflexivity.
Qed.
