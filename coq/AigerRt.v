(* AigerRt.v — C03 for AIGER: parsing what the writers of AigerWrite.v wrote gives the value back.
   The simple run (srun) of parse_aag / parse_aig on a view whose stream is write_aag a / write_aig a,
   delivered by a source that ends cleanly, returns the header, the items of [a] and a clean end, for
   every value in the format's domain (aag_ok / aig_ok below); hence whole_file gives [a] back.
   Vocabulary (runs, at_) and the generic facts about simple runs are those of Btor2Rt.v. *)
From Flussab Require Import Base Reader ListN Writer Parsed Prog Text TextSpec ProgProofs ScanProofs DigitsProofs.
From Flussab Require Import DecimalProofs SwarProofs Consts Cnf CnfProofs Varint Aiger AigerProofs AigerWrite Btor2Rt.
Ltac Zify.zify_post_hook ::= Z.to_euclidean_division_equations.

Local Open Scope N_scope.

(* ------------------------------------------------------------------ *)
(* UTF-8 validity of concatenations                                    *)

Definition utf8_ok (l : bytes) : Prop := utf8_valid_up_to l = None.

Lemma utf8_err_app_gen : forall n l1 l2 pos, (length l1 <= n)%nat ->
  utf8_err l1 pos = None -> utf8_err (l1 ++ l2) pos = utf8_err l2 (pos + nlen l1).
Proof.
  induction n as [|n IH]; intros l1 l2 pos Hlen H.
  - destruct l1; [|cbn [length] in Hlen; lia]. cbn [app]. change (nlen (@nil byte)) with 0. rewrite N.add_0_r. reflexivity.
  - destruct l1 as [|b r]; [cbn [app]; change (nlen (@nil byte)) with 0; rewrite N.add_0_r; reflexivity|].
    cbn [length] in Hlen. cbn [app utf8_err] in *.
    destruct (b <? 128).
    { rewrite (IH r l2 (pos + 1)) by (lia || exact H). f_equal. rewrite nlen_cons. lia. }
    destruct (in_rng 194 223 b).
    { destruct r as [|c1 r1]; [discriminate|]. cbn [app]. destruct (is_cont c1); [|discriminate].
      cbn [length] in Hlen. rewrite (IH r1 l2 (pos + 2)) by (lia || exact H). f_equal. rewrite !nlen_cons. lia. }
    destruct (in_rng 224 239 b).
    { destruct r as [|c1 [|c2 r2]]; try discriminate. cbn [app]. destruct (second3 b c1 && is_cont c2); [|discriminate].
      cbn [length] in Hlen. rewrite (IH r2 l2 (pos + 3)) by (lia || exact H). f_equal. rewrite !nlen_cons. lia. }
    destruct (in_rng 240 244 b); [|discriminate].
    destruct r as [|c1 [|c2 [|c3 r3]]]; try discriminate. cbn [app].
    destruct (second4 b c1 && is_cont c2 && is_cont c3); [|discriminate].
    cbn [length] in Hlen. rewrite (IH r3 l2 (pos + 4)) by (lia || exact H). f_equal. rewrite !nlen_cons. lia.
Qed.

Lemma utf8_ok_app_lf l : utf8_ok l -> utf8_ok (l ++ [10]).
Proof.
  unfold utf8_ok, utf8_valid_up_to. intros H. rewrite (utf8_err_app_gen (length l) l [10] 0 (le_n _) H). reflexivity.
Qed.

Lemma last_byte_app_lf l : last_byte (l ++ [10]) = Some 10.
Proof.
  induction l as [|b r IH]; [reflexivity|]. cbn [app]. destruct (r ++ [10]) as [|x y] eqn:E.
  - destruct r; discriminate.
  - cbn [last_byte]. cbn [last_byte] in IH. exact IH.
Qed.

Lemma W64_pow : W64 = 2 ^ 64. Proof. reflexivity. Qed.

(* the codes the binary writer and parser compute with wrapping arithmetic are the plain ones where they are used *)
Lemma ocode_used h (lats : list (option N * N * option bool)) (ands : list (option N * N * N)) maxc :
  maxc < 2 ^ 64 -> a_max_var h <= (maxc - 1) / 2 -> 1 <= maxc ->
  a_inputs h + nlen lats + nlen ands <= a_max_var h ->
  let c1 := (((a_inputs h + 1) mod W64) * 2) mod W64 in
  c1 < W64 /\
  (lats <> [] -> c1 = (a_inputs h + 1) * 2) /\
  (ands <> [] -> (c1 + 2 * nlen lats) mod W64 = (a_inputs h + 1) * 2 + 2 * nlen lats).
Proof.
  intros Hc64 HM Hc1 Hsum c1. rewrite <- W64_pow in Hc64.
  assert (Hi : (a_inputs h + 1) mod W64 = a_inputs h + 1) by (apply N.mod_small; lia).
  split; [apply N.mod_lt; unfold W64; lia|]. split.
  - intros Hne. assert (1 <= nlen lats) by (destruct lats; [congruence|rewrite nlen_cons; lia]).
    unfold c1. rewrite Hi. apply N.mod_small. lia.
  - intros Hne. assert (1 <= nlen ands) by (destruct ands; [congruence|rewrite nlen_cons; lia]).
    unfold c1. rewrite Hi. rewrite (N.mod_small ((a_inputs h + 1) * 2)) by lia. apply N.mod_small. lia.
Qed.

(* ------------------------------------------------------------------ *)
(* tokens on a fixed text                                              *)

Section ARt.
Variable fuel : nat.
Variable S : bytes.
Hypothesis Sbytes : Forall (fun b => b < 256) S.
Hypothesis Sfuel : (length S < fuel)%nat.

Lemma peek_at c v k x tail : at_ S c v -> nskipn (c + k) S = x :: tail -> vpeek v k = Some x.
Proof. intros Hat Hs. rewrite (at_peek _ _ _ k Hat). exact (nskipn_head _ _ _ _ Hs). Qed.

Lemma peek_at0 c v x tail : at_ S c v -> nskipn c S = x :: tail -> vpeek v 0 = Some x.
Proof. intros Hat Hs. apply (peek_at c v 0 x tail Hat). rewrite N.add_0_r. exact Hs. Qed.

Lemma peek_end c v k : at_ S c v -> nskipn (c + k) S = [] -> vpeek v k = None.
Proof. intros Hat Hs. rewrite (at_peek _ _ _ k Hat). exact (nskipn_nil_nnth _ _ Hs). Qed.

Lemma adv1 v x : vpeek v 0 = Some x -> vcur (after_peek v 0) + 1 <= vhwm (after_peek v 0).
Proof. intros Hp. pose proof (hwm_after_peek_some v 0 x Hp). change (vcur (after_peek v 0)) with (vcur v). lia. Qed.

Lemma nskipn_tail1 c x tail : nskipn c S = x :: tail -> nskipn (c + 1) S = tail.
Proof. intros H. exact (nskipn_app_next _ _ [x] _ H). Qed.

(* ---------- single bytes ---------- *)
Lemma a_space_hit c v s tail :
  at_ S c v -> nskipn c S = 32 :: tail ->
  exists v', runs required_space s v (Ok tt) s v' /\ at_ S (c + 1) v'.
Proof.
  intros Hat Hs. pose proof (peek_at0 _ _ _ _ Hat Hs) as Hp.
  exists (v_advance (after_peek v 0) 1). split; [|apply at_advance, at_after_peek, Hat].
  unfold required_space. apply runs_or_unexpected. unfold space.
  eapply runs_pbnd; [apply runs_ppeek|]. rewrite Hp. cbn [is_byte]. change (32 =? 32) with true. cbv iota.
  eapply runs_pbnd; [apply runs_padvance; exact (adv1 v 32 Hp)|apply runs_pret].
Qed.

Lemma a_newline_hit c v s tail :
  at_ S c v -> nskipn c S = 10 :: tail ->
  exists s' v', runs required_newline s v (Ok tt) s' v' /\ at_ S (c + 1) v'.
Proof.
  intros Hat Hs. pose proof (peek_at0 _ _ _ _ Hat Hs) as Hp.
  eexists. exists (v_advance (after_peek v 0) 1). split; [|apply at_advance, at_after_peek, Hat].
  unfold required_newline. apply runs_or_unexpected. unfold anewline.
  eapply runs_pbnd; [apply runs_ppeek|]. rewrite Hp. cbn [is_byte]. change (10 =? 10) with true. cbv iota.
  eapply runs_pbnd; [apply runs_padvance; exact (adv1 v 10 Hp)|].
  eapply runs_pbnd; [apply runs_line_at_offset|apply runs_pret].
Qed.

Lemma a_nos_space_hit c v s tail :
  at_ S c v -> nskipn c S = 32 :: tail ->
  exists v', runs required_newline_or_space s v (Ok true) s v' /\ at_ S (c + 1) v'.
Proof.
  intros Hat Hs. pose proof (peek_at0 _ _ _ _ Hat Hs) as Hp.
  exists (v_advance (after_peek v 0) 1). split; [|apply at_advance, at_after_peek, Hat].
  unfold required_newline_or_space.
  eapply runs_pbnd; [apply runs_ppeek|]. rewrite Hp. cbn [is_byte]. change (32 =? 10) with false. change (32 =? 32) with true. cbv iota.
  eapply runs_pbnd; [apply runs_padvance; exact (adv1 v 32 Hp)|apply runs_pret].
Qed.

Lemma a_nos_newline_hit c v s tail :
  at_ S c v -> nskipn c S = 10 :: tail ->
  exists s' v', runs required_newline_or_space s v (Ok false) s' v' /\ at_ S (c + 1) v'.
Proof.
  intros Hat Hs. pose proof (peek_at0 _ _ _ _ Hat Hs) as Hp.
  eexists. exists (v_advance (after_peek v 0) 1). split; [|apply at_advance, at_after_peek, Hat].
  unfold required_newline_or_space.
  eapply runs_pbnd; [apply runs_ppeek|]. rewrite Hp. cbn [is_byte]. change (10 =? 10) with true. cbv iota.
  eapply runs_pbnd; [apply runs_padvance; exact (adv1 v 10 Hp)|].
  eapply runs_pbnd; [apply runs_line_at_offset|apply runs_pret].
Qed.

(* ---------- token::fixed on one letter and on the three letters of the magic word ---------- *)
Lemma a_fixed1_hit ch c v s tail :
  at_ S c v -> nskipn c S = ch :: tail ->
  exists v', runs (tfixed [ch]) s v (Res (Ok tt)) s v' /\ at_ S (c + 1) v'.
Proof.
  intros Hat Hs. pose proof (peek_at0 _ _ _ _ Hat Hs) as Hp.
  exists (v_advance (after_peek v 0) 1). split; [|apply at_advance, at_after_peek, Hat].
  unfold tfixed. eapply runs_pbnd.
  - apply runs_lift. unfold fixed. cbn [fixed_from srun]. rewrite !N.add_0_l. rewrite Hp, N.eqb_refl. cbn [srun]. reflexivity.
  - change (0 + 1 =? 0) with false. cbv iota.
    eapply runs_pbnd; [apply runs_padvance; exact (adv1 v ch Hp)|apply runs_pret].
Qed.

Lemma a_fixed1_miss ch c v s :
  at_ S c v -> (match nskipn c S with x :: _ => x <> ch | [] => True end) ->
  exists v', runs (tfixed [ch]) s v Fallthrough s v' /\ at_ S c v'.
Proof.
  intros Hat Hs. exists (after_peek v 0). split; [|apply at_after_peek, Hat].
  unfold tfixed. eapply runs_pbnd.
  - apply runs_lift. unfold fixed. cbn [fixed_from srun]. rewrite !N.add_0_l.
    rewrite (at_peek _ _ _ 0 Hat), N.add_0_r.
    destruct (nskipn c S) as [|x r] eqn:E.
    + rewrite (nskipn_nil_nnth _ _ E). reflexivity.
    + rewrite (nskipn_head _ _ _ _ E). assert ((x =? ch) = false) as -> by (apply N.eqb_neq; exact Hs). reflexivity.
  - change (0 =? 0) with true. cbv iota. apply runs_pret.
Qed.

Lemma a_magic_hit a b d c v s tail :
  at_ S c v -> nskipn c S = a :: b :: d :: tail ->
  exists v', runs (or_unexpected (tfixed [a; b; d])) s v (Ok tt) s v' /\ at_ S (c + 3) v'.
Proof.
  intros Hat Hs.
  pose proof (nskipn_tail1 _ _ _ Hs) as Hs1. pose proof (nskipn_tail1 _ _ _ Hs1) as Hs2.
  pose proof (peek_at0 _ _ _ _ Hat Hs) as Hp0.
  set (v1 := after_peek v 0). assert (Hat1 : at_ S c v1) by (apply at_after_peek, Hat).
  assert (Hp1 : vpeek v1 1 = Some b) by (apply (peek_at c v1 1 b _ Hat1 Hs1)).
  set (v2 := after_peek v1 1). assert (Hat2 : at_ S c v2) by (apply at_after_peek, Hat1).
  assert (Hp2 : vpeek v2 2 = Some d).
  { apply (peek_at c v2 2 d tail Hat2). replace (c + 2) with (c + 1 + 1) by lia. exact Hs2. }
  set (v3 := after_peek v2 2). assert (Hat3 : at_ S c v3) by (apply at_after_peek, Hat2).
  exists (v_advance v3 3). split; [|apply at_advance, Hat3].
  apply runs_or_unexpected. unfold tfixed. eapply runs_pbnd.
  - apply runs_lift. unfold fixed. cbn [fixed_from srun]. rewrite !N.add_0_l.
    rewrite Hp0, N.eqb_refl. cbn [srun]. fold v1. rewrite Hp1, N.eqb_refl. cbn [srun]. fold v2.
    change (1 + 1) with 2. rewrite Hp2, N.eqb_refl. fold v3. cbn [srun]. reflexivity.
  - change (2 + 1 =? 0) with false. cbv iota. change (2 + 1) with 3.
    eapply runs_pbnd; [apply runs_padvance|apply runs_pret].
    pose proof (hwm_after_peek_some v2 2 d Hp2). fold v3 in H. change (vcur v3) with (vcur v2). lia.
Qed.

(* token::fixed_not_eol [ch]: the letter, and no line feed behind it *)
Lemma a_fixed_not_eol_hit ch x c v s tail :
  at_ S c v -> nskipn c S = ch :: x :: tail -> x <> 10 ->
  exists v', runs (fixed_not_eol [ch]) s v (Res (Ok tt)) s v' /\ at_ S (c + 1) v'.
Proof.
  intros Hat Hs Hx. pose proof (peek_at0 _ _ _ _ Hat Hs) as Hp.
  set (v1 := after_peek v 0). assert (Hat1 : at_ S c v1) by (apply at_after_peek, Hat).
  assert (Hp1 : vpeek v1 1 = Some x) by (apply (peek_at c v1 1 x tail Hat1 (nskipn_tail1 _ _ _ Hs))).
  exists (v_advance (after_peek v1 1) 1). split; [|apply at_advance, at_after_peek, Hat1].
  unfold fixed_not_eol. eapply runs_pbnd.
  - apply runs_lift. unfold fixed. cbn [fixed_from srun]. rewrite !N.add_0_l. rewrite Hp, N.eqb_refl. cbn [srun]. reflexivity.
  - change (0 + 1 =? 0) with false. cbv iota. change (0 + 1) with 1.
    eapply runs_pbnd; [apply runs_ppeek|]. fold v1. rewrite Hp1. cbn [is_byte].
    assert ((x =? 10) = false) as -> by (apply N.eqb_neq; exact Hx).
    eapply runs_pbnd; [apply runs_padvance|apply runs_pret].
    pose proof (hwm_after_peek_some v1 1 x Hp1). change (vcur (after_peek v1 1)) with (vcur v1). lia.
Qed.

(* it falls through on another letter, at the end of the input, and on the letter followed by a line feed *)
Lemma a_fixed_not_eol_miss ch c v s :
  at_ S c v ->
  (match nskipn c S with
   | x :: y :: _ => x <> ch \/ y = 10
   | [x] => x <> ch
   | [] => True
   end) ->
  exists v', runs (fixed_not_eol [ch]) s v Fallthrough s v' /\ at_ S c v'.
Proof.
  intros Hat Hs. unfold fixed_not_eol.
  destruct (nskipn c S) as [|x r] eqn:E.
  - exists (after_peek v 0). split; [|apply at_after_peek, Hat].
    eapply runs_pbnd.
    + apply runs_lift. unfold fixed. cbn [fixed_from srun]. rewrite !N.add_0_l.
      rewrite (at_peek _ _ _ 0 Hat), N.add_0_r, (nskipn_nil_nnth _ _ E). reflexivity.
    + change (0 =? 0) with true. cbv iota. apply runs_pret.
  - pose proof (peek_at0 _ _ _ _ Hat E) as Hp.
    destruct (N.eq_dec x ch) as [->|Hne].
    + (* the letter: a line feed must follow *)
      destruct r as [|y r']; [contradiction|]. destruct Hs as [Hs|Hs]; [contradiction|]. subst y.
      set (v1 := after_peek v 0). assert (Hat1 : at_ S c v1) by (apply at_after_peek, Hat).
      assert (Hp1 : vpeek v1 1 = Some 10) by (apply (peek_at c v1 1 10 r' Hat1 (nskipn_tail1 _ _ _ E))).
      exists (after_peek v1 1). split; [|apply at_after_peek, Hat1].
      eapply runs_pbnd.
      * apply runs_lift. unfold fixed. cbn [fixed_from srun]. rewrite !N.add_0_l. rewrite Hp, N.eqb_refl. cbn [srun]. reflexivity.
      * change (0 + 1 =? 0) with false. cbv iota. change (0 + 1) with 1.
        eapply runs_pbnd; [apply runs_ppeek|]. fold v1. rewrite Hp1. cbn [is_byte]. change (10 =? 10) with true. cbv iota.
        apply runs_pret.
    + exists (after_peek v 0). split; [|apply at_after_peek, Hat].
      eapply runs_pbnd.
      * apply runs_lift. unfold fixed. cbn [fixed_from srun]. rewrite !N.add_0_l. rewrite Hp.
        assert ((x =? ch) = false) as -> by (apply N.eqb_neq; exact Hne). reflexivity.
      * change (0 =? 0) with true. cbv iota. apply runs_pret.
Qed.

(* ---------- numbers written by the writer ---------- *)
Lemma a_uint_hit n c v s tail :
  at_ S c v -> nskipn c S = decimal_N n ++ tail -> stops is_dig tail -> n < 2 ^ 64 ->
  exists v', runs (uint fuel) s v (Res (Ok n)) s v' /\ at_ S (c + nlen (decimal_N n)) v'.
Proof.
  intros Hat Hs Ht Hn. pose proof Hat as (HS & Hc & Hwf). pose proof (at_bytes _ Sbytes _ _ Hat) as Hb.
  pose proof (srun_aruns (ascii_digits_multi fuel Usize 0) v Hwf) as Har.
  assert (Hrest : rest_at v 0 = decimal_N n ++ tail) by (rewrite (at_rest _ _ _ 0 Hat), N.add_0_r; exact Hs).
  assert (Hdp : digit_prefix (rest_at v 0) = decimal_N n)
    by (rewrite Hrest; apply digit_prefix_written; [apply decimal_N_digits|exact Ht]).
  assert (Hfu : (length (digit_prefix (rest_at v 0)) < fuel)%nat).
  { pose proof (rest_len v 0) as Hrl. rewrite HS in Hrl. pose proof (digit_prefix_le (rest_at v 0)). lia. }
  destruct (ascii_digits_multi_spec fuel Usize 0 v _ Hwf Hb Hfu Har) as (v1 & Hrun & Hcore).
  unfold unsigned_spec in Hrun. cbn [fst snd] in Hrun. rewrite Hdp, decimal_N_value, N.add_0_l in Hrun.
  assert (Hfp : from_prim Usize (Z.of_N n) = Some (Z.of_N n)).
  { unfold from_prim. assert (in_range Usize (Z.of_N n) = true) as ->; [|reflexivity].
    apply in_range_iff. unfold ity_min, ity_max. cbn. change (2 ^ 64) with 18446744073709551616 in Hn. lia. }
  rewrite Hfp in Hrun. rewrite Hrun in Har.
  pose proof (decimal_N_nonempty n) as Hne.
  assert (Hnl : 0 < nlen (decimal_N n)) by (unfold nlen; destruct (decimal_N n); [congruence|cbn [length]; lia]).
  destruct (multi_hwm fuel Usize 0 v _ _ _ Hwf Hb Har) as [_ Hh]. specialize (Hh Hnl).
  destruct (srun_wf _ _ _ _ Hwf Hrun) as [Hwf1 HS1].
  destruct (core_after_basic _ _ _ Hcore) as [Hc1 _].
  assert (Hat1 : at_ S c v1) by (repeat split; [rewrite HS1; exact HS|rewrite Hc1; exact Hc|exact Hwf1]).
  destruct (decimal_N n) as [|d ds] eqn:Ed; [congruence|].
  assert (Hp0 : vpeek v1 0 = Some d) by (apply (peek_at0 c v1 d (ds ++ tail) Hat1); exact Hs).
  assert (Hcond : negb (is_byte (Some d) 48) || (nlen (d :: ds) =? 1) = true).
  { cbn [is_byte]. destruct (N.eq_dec n 0) as [->|Hn0].
    - destruct (decimal_N_canonical 0) as (_ & _ & Hz & _). rewrite (Hz eq_refl) in Ed. inversion Ed; subst. reflexivity.
    - destruct (decimal_N_canonical n) as (_ & _ & _ & Hnz & _). specialize (Hnz Hn0). rewrite Ed in Hnz. cbn [hd] in Hnz.
      assert ((d =? 48) = false) as -> by (apply N.eqb_neq; exact Hnz). reflexivity. }
  exists (v_advance (after_peek v1 0) (nlen (d :: ds))). split.
  - unfold uint. eapply runs_pbnd; [apply runs_lift; exact Hrun|]. cbv beta iota.
    assert ((nlen (d :: ds) =? 0) = false) as -> by (apply N.eqb_neq; lia).
    eapply runs_pbnd; [apply runs_ppeek|]. rewrite Hp0, Hcond.
    eapply runs_pbnd; [apply runs_padvance|].
    { pose proof (hwm_after_peek_mono v1 0 Hwf1). change (vcur (after_peek v1 0)) with (vcur v1). rewrite Hc1. lia. }
    rewrite N2Z.id. apply runs_pret.
  - apply at_advance, at_after_peek, Hat1.
Qed.

(* no number here *)
Lemma a_uint_miss c v s :
  at_ S c v -> stops is_dig (nskipn c S) ->
  exists v', runs (uint fuel) s v Fallthrough s v' /\ at_ S c v'.
Proof.
  intros Hat Ht. pose proof Hat as (HS & Hc & Hwf). pose proof (at_bytes _ Sbytes _ _ Hat) as Hb.
  pose proof (srun_aruns (ascii_digits_multi fuel Usize 0) v Hwf) as Har.
  assert (Hrest : rest_at v 0 = nskipn c S) by (rewrite (at_rest _ _ _ 0 Hat), N.add_0_r; reflexivity).
  assert (Hdp : digit_prefix (rest_at v 0) = []).
  { rewrite Hrest. destruct (nskipn c S) as [|x r]; [reflexivity|]. cbn [digit_prefix]. cbn [stops] in Ht. rewrite Ht. reflexivity. }
  assert (Hfu : (length (digit_prefix (rest_at v 0)) < fuel)%nat) by (rewrite Hdp; cbn [length]; lia).
  destruct (ascii_digits_multi_spec fuel Usize 0 v _ Hwf Hb Hfu Har) as (v1 & Hrun & Hcore).
  unfold unsigned_spec in Hrun. cbn [fst snd] in Hrun. rewrite Hdp in Hrun. change (nlen (@nil byte)) with 0 in Hrun.
  destruct (srun_wf _ _ _ _ Hwf Hrun) as [Hwf1 HS1].
  destruct (core_after_basic _ _ _ Hcore) as [Hc1 _].
  exists v1. split; [|repeat split; [rewrite HS1; exact HS|rewrite Hc1; exact Hc|exact Hwf1]].
  unfold uint. eapply runs_pbnd; [apply runs_lift; exact Hrun|]. cbv beta iota. change (0 + 0 =? 0) with true. apply runs_pret.
Qed.

(* ---------- header_field / symbol_index / lit as tokens of a line ---------- *)
Lemma a_ptok_bind {A B} (m : PM (result A perr)) (K : A -> PM (result B perr)) text a text2 b :
  ptok S m text a -> seps text2 -> ptok S (K a) text2 b -> ptok S (rbnd m K) (text ++ text2) b.
Proof.
  intros Hm Hs2 HK c v s tail Hat Hs Hsep.
  rewrite <- app_assoc in Hs.
  destruct (Hm c v s (text2 ++ tail) Hat Hs (sep_app _ _ Hs2 Hsep)) as (v1 & R1 & A1).
  destruct (HK _ v1 s tail A1 (nskipn_app_next _ _ _ _ Hs) Hsep) as (v2 & R2 & A2).
  exists v2. split; [eapply runs_rbnd; eassumption|]. rewrite nlen_app, N.add_assoc. exact A2.
Qed.

Lemma a_is_dig_32 : is_dig 32 = false. Proof. reflexivity. Qed.
Lemma a_is_dig_10 : is_dig 10 = false. Proof. reflexivity. Qed.

Lemma ptok_header_field limit n : n < 2 ^ 64 -> n <= limit -> ptok S (header_field fuel limit) (decimal_N n) n.
Proof.
  intros Hn Hl c v s tail Hat Hs Hsep.
  destruct (a_uint_hit n c (v_setmark v) s tail (at_setmark _ _ _ Hat) Hs (sep_stops _ _ a_is_dig_32 a_is_dig_10 Hsep) Hn) as (v' & R & A').
  exists v'. split; [|exact A'].
  unfold header_field. eapply runs_pbnd; [apply runs_pset_mark|].
  eapply runs_pbnd; [apply runs_located; exact R|]. cbv beta iota.
  assert ((limit <? n) = false) as -> by (apply N.ltb_ge; exact Hl). apply runs_pret.
Qed.

Lemma ptok_lit limit assigning n :
  n < 2 ^ 64 -> n <= limit -> (assigning = true -> n <> 0 /\ N.land n 1 = 0) ->
  ptok S (lit fuel limit assigning) (decimal_N n) n.
Proof.
  intros Hn Hl Ha c v s tail Hat Hs Hsep.
  destruct (a_uint_hit n c (v_setmark v) s tail (at_setmark _ _ _ Hat) Hs (sep_stops _ _ a_is_dig_32 a_is_dig_10 Hsep) Hn) as (v' & R & A').
  exists v'. split; [|exact A'].
  unfold lit. eapply runs_pbnd; [apply runs_pset_mark|].
  eapply runs_pbnd; [apply runs_located; exact R|]. cbv beta iota.
  assert ((assigning && ((n =? 0) || negb (N.land n 1 =? 0))) = false) as ->.
  { destruct assigning; [|reflexivity]. destruct (Ha eq_refl) as [H0 H1]. cbn [andb].
    assert ((n =? 0) = false) as -> by (apply N.eqb_neq; exact H0). rewrite H1. reflexivity. }
  assert ((limit <? n) = false) as -> by (apply N.ltb_ge; exact Hl). apply runs_pret.
Qed.

(* ---------- reading a stretch of text, whatever follows it ---------- *)
(* (the cursor is never ahead of what is buffered: an invariant of every run, needed by the varint reader) *)
Definition lrd {A} (m : PM A) (text : bytes) (a : A) : Prop :=
  forall c v s tail, at_ S c v -> vcur v <= vhwm v -> nskipn c S = text ++ tail ->
  exists s' v', runs m s v a s' v' /\ at_ S (c + nlen text) v' /\ vcur v' <= vhwm v'.

Lemma lrd_intro {A} (m : PM A) text (a : A) :
  (forall c v s tail, at_ S c v -> vcur v <= vhwm v -> nskipn c S = text ++ tail ->
     exists s' v', runs m s v a s' v' /\ at_ S (c + nlen text) v') -> lrd m text a.
Proof.
  intros H c v s tail Hat Hle Hs. destruct (H c v s tail Hat Hle Hs) as (s' & v' & R & A').
  exists s', v'. split; [exact R|split; [exact A'|]]. destruct Hat as (_ & _ & Hwf).
  exact (proj1 (runs_wf _ _ _ _ _ _ Hwf R) Hle).
Qed.

Lemma lrd_ret {A} (a : A) : lrd (pret a) [] a.
Proof.
  intros c v s tail Hat Hle _. exists s, v. split; [apply runs_pret|]. change (nlen (@nil byte)) with 0.
  rewrite N.add_0_r. split; assumption.
Qed.

Lemma lrd_ext {A} (m : PM A) text text' (a : A) : lrd m text a -> text = text' -> lrd m text' a.
Proof. intros H <-. exact H. Qed.

Lemma lrd_pbnd {A B} (m : PM A) (K : A -> PM B) t1 a t2 b :
  lrd m t1 a -> lrd (K a) t2 b -> lrd (pbnd m K) (t1 ++ t2) b.
Proof.
  intros Hm HK c v s tail Hat Hle Hs. rewrite <- app_assoc in Hs.
  destruct (Hm c v s _ Hat Hle Hs) as (s1 & v1 & R1 & A1 & L1).
  destruct (HK _ v1 s1 tail A1 L1 (nskipn_app_next _ _ _ _ Hs)) as (s2 & v2 & R2 & A2 & L2).
  exists s2, v2. split; [eapply runs_pbnd; eassumption|]. rewrite nlen_app, N.add_assoc. split; assumption.
Qed.

Lemma lrd_rbnd {A B} (m : PM (result A perr)) (K : A -> PM (result B perr)) t1 a t2 b :
  lrd m t1 (Ok a) -> lrd (K a) t2 b -> lrd (rbnd m K) (t1 ++ t2) b.
Proof. intros Hm HK. unfold rbnd. eapply lrd_pbnd; [exact Hm|exact HK]. Qed.

(* a token that needs a separator behind it, followed by text that starts with one *)
Lemma lrd_ptok {A B} (m : PM (result A perr)) (K : A -> PM (result B perr)) text a text2 b :
  ptok S m text a -> sep text2 -> lrd (K a) text2 b -> lrd (rbnd m K) (text ++ text2) b.
Proof.
  intros Hm Hs2 HK c v s tail Hat Hle Hs. rewrite <- app_assoc in Hs.
  assert (Hsep : sep (text2 ++ tail)) by (destruct text2; [contradiction|exact Hs2]).
  destruct (Hm c v s _ Hat Hs Hsep) as (v1 & R1 & A1).
  assert (L1 : vcur v1 <= vhwm v1) by (destruct Hat as (_ & _ & Hwf); exact (proj1 (runs_wf _ _ _ _ _ _ Hwf R1) Hle)).
  destruct (HK _ v1 s tail A1 L1 (nskipn_app_next _ _ _ _ Hs)) as (s2 & v2 & R2 & A2 & L2).
  exists s2, v2. split; [eapply runs_rbnd; eassumption|]. rewrite nlen_app, N.add_assoc. split; assumption.
Qed.

Lemma lrd_space : lrd required_space [32] (Ok tt).
Proof. apply lrd_intro. intros c v s tail Hat _ Hs. destruct (a_space_hit c v s tail Hat Hs) as (v' & R & A'). exists s, v'. split; assumption. Qed.
Lemma lrd_newline : lrd required_newline [10] (Ok tt).
Proof. apply lrd_intro. intros c v s tail Hat _ Hs. exact (a_newline_hit c v s tail Hat Hs). Qed.
Lemma lrd_nos_space : lrd required_newline_or_space [32] (Ok true).
Proof. apply lrd_intro. intros c v s tail Hat _ Hs. destruct (a_nos_space_hit c v s tail Hat Hs) as (v' & R & A'). exists s, v'. split; assumption. Qed.
Lemma lrd_nos_newline : lrd required_newline_or_space [10] (Ok false).
Proof. apply lrd_intro. intros c v s tail Hat _ Hs. exact (a_nos_newline_hit c v s tail Hat Hs). Qed.

Lemma lrd_space_k {B} (K : unit -> PM (result B perr)) text b :
  lrd (K tt) text b -> lrd (rbnd required_space K) (32 :: text) b.
Proof. intros H. change (32 :: text) with ([32] ++ text). eapply lrd_rbnd; [apply lrd_space|exact H]. Qed.
Lemma lrd_newline_k {B} (K : unit -> PM (result B perr)) text b :
  lrd (K tt) text b -> lrd (rbnd required_newline K) (10 :: text) b.
Proof. intros H. change (10 :: text) with ([10] ++ text). eapply lrd_rbnd; [apply lrd_newline|exact H]. Qed.
Lemma lrd_nos_space_k {B} (K : bool -> PM (result B perr)) text b :
  lrd (K true) text b -> lrd (rbnd required_newline_or_space K) (32 :: text) b.
Proof. intros H. change (32 :: text) with ([32] ++ text). eapply lrd_rbnd; [apply lrd_nos_space|exact H]. Qed.
Lemma lrd_nos_newline_k {B} (K : bool -> PM (result B perr)) text b :
  lrd (K false) text b -> lrd (rbnd required_newline_or_space K) (10 :: text) b.
Proof. intros H. change (10 :: text) with ([10] ++ text). eapply lrd_rbnd; [apply lrd_nos_newline|exact H]. Qed.

Lemma sep_32 r : sep (32 :: r). Proof. left. reflexivity. Qed.
Lemma sep_10 r : sep (10 :: r). Proof. right. reflexivity. Qed.

(* ---------- the entries of the sections ---------- *)
Section Entries.
Variables maxc max_lit : N.
Hypothesis Hml : max_lit <= maxc.
Hypothesis Hmc : maxc < 2 ^ 64.
Hypothesis Hml1 : 1 <= max_lit.      (* max_lit = 2 M + 1 *)

Lemma from_code_id l : l <= max_lit -> from_code maxc l = l.
Proof. intros H. unfold from_code. apply N.mod_small. lia. Qed.

Definition asg_ok (assigning : bool) (l : N) : Prop := assigning = true -> l <> 0 /\ N.land l 1 = 0.

Lemma lit_line_hit {St : Type} assigning mk (st : St) l :
  l <= max_lit -> asg_ok assigning l ->
  lrd (lit_line fuel maxc max_lit assigning mk st) (w_lit l) (Ok (mk l, st)).
Proof.
  intros Hl Ha. unfold lit_line, w_lit.
  eapply lrd_ptok; [apply (ptok_lit max_lit assigning l); [lia|exact Hl|exact Ha]|apply sep_10|].
  rewrite (from_code_id l Hl).
  eapply lrd_ext; [eapply lrd_rbnd; [apply lrd_newline|apply lrd_ret]|reflexivity].
Qed.

Lemma justice_size_hit total n :
  total + n < 2 ^ 64 ->
  lrd (justice_size fuel total) (w_lit n) (Ok (IJusticeSize n, total + n)).
Proof.
  intros Hn. unfold justice_size, w_lit.
  eapply lrd_ptok; [apply (ptok_header_field (USIZE_MAX_N - total) n); [lia|]|apply sep_10|].
  { unfold USIZE_MAX_N. change (2 ^ 64) with 18446744073709551616 in Hn. lia. }
  eapply lrd_ext; [eapply lrd_rbnd; [apply lrd_newline|apply lrd_ret]|reflexivity].
Qed.

Lemma decimal_N_1 : decimal_N 1 = [49]. Proof. reflexivity. Qed.

Lemma latch_init_hit state init :
  state <= max_lit -> (init = None -> 2 <= state) ->
  lrd (latch_init fuel max_lit state) (w_init state init) (Ok init).
Proof.
  intros Hs Hi. unfold latch_init. destruct init as [[|]|]; cbn [w_init].
  - (* " 1" *)
    change [32; 49; 10] with ([32] ++ decimal_N 1 ++ [10]).
    eapply lrd_rbnd; [apply lrd_nos_space|]. cbv iota.
    eapply lrd_ptok; [apply (ptok_lit max_lit false 1); [reflexivity| |discriminate]|apply sep_10|].
    { exact Hml1. }
    change (1 <? 2) with true. cbv iota.
    eapply lrd_ext; [eapply lrd_rbnd; [apply lrd_newline|apply lrd_ret]|reflexivity].
  - change [10] with ([10] ++ []).
    eapply lrd_rbnd; [apply lrd_nos_newline|]. cbv iota. apply lrd_ret.
  - specialize (Hi eq_refl).
    change (32 :: decimal_N state ++ [10]) with ([32] ++ decimal_N state ++ [10]).
    eapply lrd_rbnd; [apply lrd_nos_space|]. cbv iota.
    eapply lrd_ptok; [apply (ptok_lit max_lit false state); [lia|exact Hs|discriminate]|apply sep_10|].
    assert ((state <? 2) = false) as -> by (apply N.ltb_ge; exact Hi). rewrite N.eqb_refl.
    eapply lrd_ext; [eapply lrd_rbnd; [apply lrd_newline|apply lrd_ret]|reflexivity].
Qed.

Lemma def_ge_2 l : l <> 0 -> N.land l 1 = 0 -> 2 <= l.
Proof. intros H0 H1. change 1 with (N.ones 1) in H1. rewrite N.land_ones in H1. change (2 ^ 1) with 2 in H1. lia. Qed.

Lemma sep_w_init state init : sep (w_init state init).
Proof. destruct init as [[|]|]; cbn [w_init sep]; auto. Qed.

(* ascii next_latch *)
Lemma aag_latch_hit st state next init :
  state <= max_lit -> state <> 0 -> N.land state 1 = 0 -> next <= max_lit ->
  lrd (aag_latch fuel maxc max_lit st) (w_latch state next init) (Ok (ILatch state next init, st)).
Proof.
  intros Hs H0 H1 Hn. unfold aag_latch, w_latch.
  eapply lrd_ptok; [apply (ptok_lit max_lit true state); [lia|exact Hs|intros _; split; assumption]|apply sep_32|].
  change (32 :: decimal_N next ++ w_init state init) with ([32] ++ decimal_N next ++ w_init state init).
  eapply lrd_rbnd; [apply lrd_space|].
  eapply lrd_ptok; [apply (ptok_lit max_lit false next); [lia|exact Hn|discriminate]|apply sep_w_init|].
  rewrite (from_code_id state Hs), (from_code_id next Hn).
  eapply lrd_ext; [eapply lrd_rbnd; [apply (latch_init_hit state init Hs); intros _; apply def_ge_2; assumption|apply lrd_ret]|].
  apply app_nil_r.
Qed.

(* ascii next_and_gate *)
Lemma aag_and_hit st o x y :
  o <= max_lit -> o <> 0 -> N.land o 1 = 0 -> x <= max_lit -> y <= max_lit ->
  lrd (aag_and fuel maxc max_lit st) (w_and o x y) (Ok (IAnd o x y, st)).
Proof.
  intros Ho H0 H1 Hx Hy. unfold aag_and, w_and.
  eapply lrd_ptok; [apply (ptok_lit max_lit true o); [lia|exact Ho|intros _; split; assumption]|apply sep_32|].
  change (32 :: decimal_N x ++ 32 :: decimal_N y ++ [10]) with ([32] ++ decimal_N x ++ 32 :: decimal_N y ++ [10]).
  eapply lrd_rbnd; [apply lrd_space|].
  eapply lrd_ptok; [apply (ptok_lit max_lit false x); [lia|exact Hx|discriminate]|apply sep_32|].
  change (32 :: decimal_N y ++ [10]) with ([32] ++ decimal_N y ++ [10]).
  eapply lrd_rbnd; [apply lrd_space|].
  eapply lrd_ptok; [apply (ptok_lit max_lit false y); [lia|exact Hy|discriminate]|apply sep_10|].
  rewrite (from_code_id o Ho), (from_code_id x Hx), (from_code_id y Hy).
  eapply lrd_ext; [eapply lrd_rbnd; [apply lrd_newline|apply lrd_ret]|reflexivity].
Qed.

(* binary next_latch: the state is the running code *)
Lemma aig_latch_hit code next init :
  code <= max_lit -> 2 <= code -> next <= max_lit ->
  lrd (aig_latch fuel maxc max_lit code) (decimal_N next ++ w_init code init) (Ok (IOLatch next init, (code + 2) mod W64)).
Proof.
  intros Hc H2 Hn. unfold aig_latch.
  eapply lrd_ptok; [apply (ptok_lit max_lit false next); [lia|exact Hn|discriminate]|apply sep_w_init|].
  rewrite (from_code_id next Hn).
  eapply lrd_ext; [eapply lrd_rbnd; [apply (latch_init_hit code init Hc); intros _; exact H2|unfold code_plus_2; apply lrd_ret]|].
  apply app_nil_r.
Qed.

(* ---------- binary and gates: two deltas ---------- *)
Lemma binary_uint_hit n :
  n < 2 ^ 56 -> lrd binary_uint (varint_encode n) (Ok (n, is_byte (last_byte (varint_encode n)) 10)).
Proof.
  intros Hn. apply lrd_intro. intros c v s tail Hat Hle Hs. pose proof Hat as (HS & Hc & Hwf).
  pose proof (at_bytes _ Sbytes _ _ Hat) as Hb.
  assert (Hrest : rest_at v 0 = varint_encode n ++ tail) by (rewrite (at_rest _ _ _ 0 Hat), N.add_0_r; exact Hs).
  pose proof (binary_uint_decodes v s Hwf Hb Hle) as H. rewrite Hrest, (varint_roundtrip n tail Hn) in H.
  destruct H as (grp & v' & Hrun & Hg & _ & HS' & Hc' & _ & _).
  apply app_inv_tail in Hg. subst grp.
  destruct (srun_wf _ _ _ _ Hwf Hrun) as [Hwf' _].
  exists s, v'. split; [exact Hrun|]. repeat split; [rewrite HS'; exact HS|rewrite Hc', Hc; reflexivity|exact Hwf'].
Qed.

(* a line feed that ends the code is recorded as a line break (the line bookkeeping lr' of lrd is existential) *)
Lemma lrd_ends_line (b : bool) : lrd (if b then line_at_offset 0 else pret tt) [] tt.
Proof.
  destruct b; [|apply lrd_ret]. apply lrd_intro. intros c v s tail Hat _ _. eexists. exists v.
  split; [apply runs_line_at_offset|]. change (nlen (@nil byte)) with 0. rewrite N.add_0_r. exact Hat.
Qed.

Lemma delta_code_hit code d : d <= code -> d < 2 ^ 56 -> lrd (delta_code code) (varint_encode d) (Ok (code - d)).
Proof.
  intros Hd Hn. unfold delta_code.
  eapply lrd_ext; [eapply (lrd_pbnd pset_mark _ [] tt)|reflexivity].
  - apply lrd_intro. intros c v s tail Hat _ _. exists s, (v_setmark v). split; [apply runs_pset_mark|].
    change (nlen (@nil byte)) with 0. rewrite N.add_0_r. apply at_setmark. exact Hat.
  - eapply lrd_ext; [eapply lrd_rbnd; [apply (binary_uint_hit d Hn)|]|apply app_nil_r].
    cbv beta iota. assert ((code <? d) = false) as -> by (apply N.ltb_ge; exact Hd).
    eapply lrd_ext; [eapply lrd_pbnd; [apply lrd_ends_line|apply lrd_ret]|reflexivity].
Qed.

(* binary next_and_gate on what write_and_gate wrote for inputs in the writer's order *)
Lemma aig_and_hit code x y :
  code <= max_lit -> y <= x -> x <= code -> code - x < 2 ^ 56 -> x - y < 2 ^ 56 ->
  lrd (aig_and maxc code) (w_oand code x y) (Ok (IOAnd x y, (code + 2) mod W64)).
Proof.
  intros Hc Hyx Hxc Hd0 Hd1. unfold aig_and, w_oand.
  assert ((x <? y) = false) as -> by (apply N.ltb_ge; exact Hyx).
  eapply lrd_rbnd; [apply (delta_code_hit code (code - x)); [lia|exact Hd0]|].
  replace (code - (code - x)) with x by lia.
  eapply lrd_ext; [eapply lrd_rbnd; [apply (delta_code_hit x (x - y)); [lia|exact Hd1]|]|apply app_nil_r].
  replace (x - (x - y)) with y by lia. unfold code_plus_2.
  rewrite (from_code_id x ltac:(lia)), (from_code_id y ltac:(lia)). apply lrd_ret.
Qed.

End Entries.

(* ---------- sections: `left` calls of an entry reader ---------- *)
(* st --text/items--> st': the entries of a section one after the other *)
Inductive chain {St : Type} (it : St -> PM (result (item * St) perr)) : St -> bytes -> list item -> St -> Prop :=
| ch_nil st : chain it st [] [] st
| ch_cons st text x st1 text' xs st2 :
    text <> [] -> lrd (it st) text (Ok (x, st1)) -> chain it st1 text' xs st2 ->
    chain it st (text ++ text') (x :: xs) st2.

Lemma chain_len {St : Type} (it : St -> PM (result (item * St) perr)) st text xs st' :
  chain it st text xs st' -> (length xs <= length text)%nat.
Proof.
  induction 1 as [|st text x st1 text' xs st2 Hne _ _ IH]; [cbn; lia|].
  rewrite app_length. cbn [length]. destruct text; [congruence|cbn [length]; lia].
Qed.

Lemma sloop_chain {St : Type} (it : St -> PM (result (item * St) perr)) st text xs st' :
  chain it st text xs st' -> forall n acc, (length xs <= n)%nat ->
  lrd (sloop n it (nlen xs) st acc) text (rev acc ++ xs, st', None).
Proof.
  induction 1 as [st|st text x st1 text' xs st2 Hne Hx _ IH]; intros n acc Hn.
  - rewrite app_nil_r. destruct n; cbn [sloop]; change (nlen (@nil item) =? 0) with true; cbv iota; apply lrd_ret.
  - destruct n as [|n]; [cbn [length] in Hn; lia|]. cbn [sloop]. rewrite nlen_cons.
    assert ((1 + nlen xs =? 0) = false) as -> by (apply N.eqb_neq; lia).
    replace (1 + nlen xs - 1) with (nlen xs) by lia.
    eapply lrd_pbnd; [exact Hx|]. cbv beta iota.
    replace (rev acc ++ x :: xs) with (rev (x :: acc) ++ xs) by (cbn [rev]; rewrite <- app_assoc; reflexivity).
    apply IH. cbn [length] in Hn. lia.
Qed.

(* with the parser's fuel: the text is part of the input *)
Lemma text_len c text tail : nskipn c S = text ++ tail -> (length text <= length S)%nat.
Proof.
  intros H. assert (length (nskipn c S) <= length S)%nat by (unfold nskipn; rewrite skipn_length; lia).
  rewrite H, app_length in H0. lia.
Qed.

Lemma sloop_hit {St : Type} (it : St -> PM (result (item * St) perr)) st text xs st' :
  chain it st text xs st' -> lrd (sloop fuel it (nlen xs) st []) text (xs, st', None).
Proof.
  intros Hch c v s tail Hat Hle Hs.
  apply (sloop_chain it st text xs st' Hch fuel [] ltac:(pose proof (chain_len _ _ _ _ _ Hch); pose proof (text_len _ _ _ Hs); lia) c v s tail Hat Hle Hs).
Qed.

Lemma chain_map {St X : Type} (it : St -> PM (result (item * St) perr)) (st : St) (wr : X -> bytes) (mk : X -> item) xs :
  (forall x, In x xs -> wr x <> [] /\ lrd (it st) (wr x) (Ok (mk x, st))) ->
  chain it st (flat_map wr xs) (List.map mk xs) st.
Proof.
  induction xs as [|x xs IH]; intros H; cbn [flat_map List.map]; [constructor|].
  destruct (H x (or_introl eq_refl)) as [Hne Hx].
  apply ch_cons with (st1 := st); [exact Hne|exact Hx|]. apply IH. intros y Hy. apply H. right. exact Hy.
Qed.

Lemma sect_lrd {St : Type} (m : PM (list item * St * option perr)) (k : St -> PM (list item * final)) t1 items1 st t2 items2 fin :
  lrd m t1 (items1, st, None) -> lrd (k st) t2 (items2, fin) -> lrd (sect m k) (t1 ++ t2) (items1 ++ items2, fin).
Proof.
  intros Hm Hk. unfold sect. eapply lrd_pbnd; [exact Hm|]. cbv beta iota.
  eapply lrd_ext; [eapply lrd_pbnd; [exact Hk|apply lrd_ret]|apply app_nil_r].
Qed.

(* reading all that is left of the input, from a source that ends cleanly *)
Definition lfin {A} (m : PM A) (text : bytes) (a : A) : Prop :=
  forall c v s, at_ S c v -> vcur v <= vhwm v -> vfail v = None -> nskipn c S = text ->
  exists s' v', runs m s v a s' v'.

Lemma lfin_pbnd {A B} (m : PM A) (K : A -> PM B) t1 a t2 b :
  lrd m t1 a -> lfin (K a) t2 b -> lfin (pbnd m K) (t1 ++ t2) b.
Proof.
  intros Hm HK c v s Hat Hle Hf Hs.
  destruct (Hm c v s _ Hat Hle Hs) as (s1 & v1 & R1 & A1 & L1).
  assert (F1 : vfail v1 = None) by (destruct Hat as (_ & _ & Hwf); rewrite (proj2 (runs_wf _ _ _ _ _ _ Hwf R1)); exact Hf).
  destruct (HK _ v1 s1 A1 L1 F1 (nskipn_app_next _ _ _ _ Hs)) as (s2 & v2 & R2).
  exists s2, v2. eapply runs_pbnd; eassumption.
Qed.

Lemma lfin_ret {A} (a : A) t : lfin (pret a) t a.
Proof. intros c v s _ _ _ _. exists s, v. apply runs_pret. Qed.

Lemma sect_lfin {St : Type} (m : PM (list item * St * option perr)) (k : St -> PM (list item * final)) t1 items1 st t2 items2 fin :
  lrd m t1 (items1, st, None) -> lfin (k st) t2 (items2, fin) -> lfin (sect m k) (t1 ++ t2) (items1 ++ items2, fin).
Proof.
  intros Hm Hk. unfold sect. eapply lfin_pbnd; [exact Hm|]. cbv beta iota.
  intros c v s Hat Hle Hf Hs. destruct (Hk c v s Hat Hle Hf Hs) as (s' & v' & R).
  exists s', v'. eapply runs_pbnd; [exact R|]. apply runs_pret.
Qed.

(* ---------- the rest of a line / of the file ---------- *)
Lemma line_scan_hit : forall name n offset acc c v s rest,
  at_ S c v -> nskipn (c + offset) S = name ++ 10 :: rest -> Forall (fun b => b <> 10) name -> (length name < n)%nat ->
  exists v', runs (line_scan n offset acc) s v (rev acc ++ name, offset + nlen name) s v' /\ at_ S c v' /\
             c + offset + nlen name + 1 <= vhwm v'.
Proof.
  induction name as [|x name IH]; intros n offset acc c v s rest Hat Hs Hnl Hn; (destruct n as [|n]; [cbn [length] in Hn; lia|]).
  - cbn [app] in Hs. pose proof (peek_at _ _ _ _ _ Hat Hs) as Hp.
    exists (after_peek v offset). split; [|split; [apply at_after_peek, Hat|]].
    + cbn [line_scan]. eapply runs_pbnd; [apply runs_ppeek|]. rewrite Hp. change (10 =? 10) with true. cbv iota.
      rewrite app_nil_r. change (nlen (@nil byte)) with 0. rewrite N.add_0_r. apply runs_pret.
    + pose proof (hwm_after_peek_some v offset 10 Hp). destruct Hat as (_ & Hc & _). unfold nlen. cbn [length]. lia.
  - cbn [app] in Hs. pose proof (peek_at _ _ _ _ _ Hat Hs) as Hp.
    inversion Hnl as [|? ? Hx Hnl']; subst.
    assert (Hs' : nskipn (c + (offset + 1)) S = name ++ 10 :: rest).
    { rewrite N.add_assoc. exact (nskipn_tail1 _ _ _ Hs). }
    destruct (IH n (offset + 1) (x :: acc) c (after_peek v offset) s rest (at_after_peek _ _ _ _ Hat) Hs' Hnl' ltac:(cbn [length] in Hn; lia))
      as (v' & R & A' & Hh).
    exists v'. split; [|split; [exact A'|rewrite nlen_cons; lia]].
    cbn [line_scan]. eapply runs_pbnd; [apply runs_ppeek|]. rewrite Hp.
    assert ((x =? 10) = false) as -> by (apply N.eqb_neq; exact Hx).
    replace (rev acc ++ x :: name) with (rev (x :: acc) ++ name) by (cbn [rev]; rewrite <- app_assoc; reflexivity).
    replace (offset + nlen (x :: name)) with (offset + 1 + nlen name) by (rewrite nlen_cons; lia). exact R.
Qed.

Lemma remaining_line_content_hit name :
  Forall (fun b => b <> 10) name -> utf8_ok name ->
  lrd (remaining_line_content fuel) (name ++ [10]) (Ok name).
Proof.
  intros Hnl Hu. apply lrd_intro. intros c v s tail Hat _ Hs. rewrite <- app_assoc in Hs. cbn [app] in Hs.
  assert (Hfu : (length name < fuel)%nat).
  { pose proof (text_len _ _ _ Hs). unfold bytes, byte in *. lia. }
  destruct (line_scan_hit name fuel 0 [] c v s tail Hat ltac:(rewrite N.add_0_r; exact Hs) Hnl Hfu) as (v1 & R1 & A1 & Hh).
  cbn [rev app] in R1. rewrite N.add_0_l in R1. rewrite N.add_0_r in Hh.
  assert (Hp : vpeek v1 (nlen name) = Some 10).
  { apply (peek_at c v1 (nlen name) 10 tail A1). exact (nskipn_app_next _ _ _ _ Hs). }
  set (v2 := after_peek v1 (nlen name)).
  assert (A2 : at_ S c v2) by (apply at_after_peek, A1).
  eexists. exists (v_advance v2 (nlen name + 1)). split.
  - unfold remaining_line_content. eapply runs_pbnd; [exact R1|]. cbv beta iota.
    eapply runs_pbnd; [apply runs_ppeek|]. rewrite Hp. fold v2. unfold utf8_ok in Hu. rewrite Hu.
    eapply runs_pbnd; [apply runs_line_at_offset|].
    eapply runs_pbnd; [apply runs_padvance|apply runs_pret].
    destruct A2 as (_ & Hc2 & _). rewrite Hc2.
    pose proof (hwm_after_peek_mono v1 (nlen name) ltac:(destruct A1 as (_ & _ & w); exact w)). fold v2 in H. lia.
  - rewrite nlen_app. change (nlen [10]) with 1. apply at_advance. exact A2.
Qed.

Lemma read_all_hit : forall content n k acc c v s,
  at_ S c v -> nskipn (c + k) S = content -> (length content < n)%nat ->
  exists v', runs (read_all n k acc) s v (rev acc ++ content) s v' /\ at_ S c v' /\
             vknown v' = true /\ vhwm v' = nlen S /\ vfail v' = vfail v.
Proof.
  induction content as [|x content IH]; intros n k acc c v s Hat Hs Hn; (destruct n as [|n]; [cbn [length] in Hn; lia|]).
  - pose proof (peek_end _ _ _ Hat Hs) as Hp.
    exists (after_peek v k). split; [|split; [apply at_after_peek, Hat|]].
    + cbn [read_all]. eapply runs_pbnd; [apply runs_ppeek|]. rewrite Hp. rewrite app_nil_r. apply runs_pret.
    + cbn [after_peek vknown vhwm vfail]. rewrite Hp. destruct Hat as (HS & _ & _). rewrite HS. auto.
  - pose proof (peek_at _ _ _ _ _ Hat Hs) as Hp.
    assert (Hs' : nskipn (c + (k + 1)) S = content) by (rewrite N.add_assoc; exact (nskipn_tail1 _ _ _ Hs)).
    destruct (IH n (k + 1) (x :: acc) c (after_peek v k) s (at_after_peek _ _ _ _ Hat) Hs' ltac:(cbn [length] in Hn; lia))
      as (v' & R & A' & K' & H' & F').
    exists v'. split; [|split; [exact A'|split; [exact K'|split; [exact H'|exact F']]]].
    cbn [read_all]. eapply runs_pbnd; [apply runs_ppeek|]. rewrite Hp.
    replace (rev acc ++ x :: content) with (rev (x :: acc) ++ content) by (cbn [rev]; rewrite <- app_assoc; reflexivity).
    exact R.
Qed.

Lemma take_none v : vfail v = None -> s_take v = None.
Proof. intros H. unfold s_take, v_err_now. rewrite H. destruct (vknown v); destruct (vtaken v); reflexivity. Qed.

Lemma remaining_file_content_hit cm :
  utf8_ok cm -> lfin (remaining_file_content fuel) (cm ++ [10]) (Ok cm).
Proof.
  intros Hu c v s Hat Hle Hf Hs.
  assert (Hfu : (length (cm ++ [10%N]) < fuel)%nat).
  { assert (length (nskipn c S) <= length S)%nat by (unfold nskipn; rewrite skipn_length; lia). rewrite Hs in H. unfold bytes, byte in *. lia. }
  destruct (read_all_hit (cm ++ [10]) fuel 0 [] c v s Hat ltac:(rewrite N.add_0_r; exact Hs) Hfu) as (v1 & R1 & A1 & K1 & H1 & F1).
  cbn [rev app] in R1.
  assert (Ht : s_take v1 = None) by (apply take_none; rewrite F1; exact Hf).
  eexists. eexists.
  unfold remaining_file_content. eapply runs_pbnd; [exact R1|].
  eapply runs_pbnd; [apply runs_lift; cbn [srun]; reflexivity|]. rewrite Ht.
  pose proof (utf8_ok_app_lf cm Hu) as Hu'. unfold utf8_ok in Hu'. rewrite Hu', last_byte_app_lf.
  change (10 =? 10) with true. cbv iota.
  eapply runs_pbnd; [apply runs_padvance|].
  { cbn [v_take vcur vhwm]. rewrite H1. destruct A1 as (HS1 & Hc1 & _). rewrite Hc1.
    assert (Hl : nlen (nskipn c S) = nlen S - c) by apply nlen_nskipn. rewrite Hs in Hl.
    assert (c <= nlen S).
    { destruct (N.le_gt_cases c (nlen S)) as [Hcl|Hcl]; [exact Hcl|]. rewrite nlen_app in Hl. change (nlen [10]) with 1 in Hl. lia. }
    lia. }
  replace (nfirstn (nlen (cm ++ [10]) - 1) (cm ++ [10])) with cm; [apply runs_pret|].
  rewrite nlen_app. change (nlen [10]) with 1. replace (nlen cm + 1 - 1) with (nlen cm) by lia.
  unfold nfirstn, nlen. rewrite Nat2N.id. symmetry. apply firstn_app_exact. reflexivity.
Qed.

(* token::eof at the end of a stream that ended cleanly *)
Lemma a_eof_hit c v s :
  at_ S c v -> vfail v = None -> nskipn c S = [] ->
  exists v', runs (or_unexpected teof) s v (Ok tt) s v'.
Proof.
  intros Hat Hf Hs.
  assert (Hp : vpeek v 0 = None) by (apply (peek_end c v 0 Hat); rewrite N.add_0_r; exact Hs).
  set (v1 := after_peek v 0).
  assert (Hpk : s_parked v1 = false).
  { unfold s_parked, v_err_now, v1. cbn [after_peek vknown vtaken vfail]. rewrite Hf. destruct (vtaken v); apply andb_false_r. }
  eexists. apply runs_or_unexpected. unfold teof. eapply runs_pbnd; [apply runs_ppeek|]. rewrite Hp.
  eapply runs_pbnd; [apply runs_lift; cbn [srun]; reflexivity|]. fold v1. rewrite Hpk. apply runs_pret.
Qed.

(* ---------- symbols ---------- *)
Lemma or_parse_miss {A} (a b : tok A) s v v1 r s' v' :
  runs a s v Fallthrough s v1 -> runs b s v1 r s' v' -> runs (or_parse_tok a b) s v r s' v'.
Proof. intros Ha Hb. unfold or_parse_tok. eapply runs_pbnd; [exact Ha|exact Hb]. Qed.

Lemma or_parse_hit {A} (a b : tok A) s v x s' v' :
  runs a s v (Res x) s' v' -> runs (or_parse_tok a b) s v (Res x) s' v'.
Proof. intros Ha. unfold or_parse_tok. eapply runs_pbnd; [exact Ha|apply runs_pret]. Qed.

(* this letter does not start a symbol line here *)
Definition no_letter (letter : byte) (not_eol : bool) (rest : bytes) : Prop :=
  match rest with
  | [] => True
  | x :: r => x <> letter \/ (not_eol = true /\ match r with y :: _ => y = 10 | [] => False end)
  end.

Lemma sym_try_miss count letter not_eol k c v s :
  at_ S c v -> no_letter letter not_eol (nskipn c S) ->
  exists v1, runs (sym_try fuel count letter not_eol k) s v Fallthrough s v1 /\ at_ S c v1.
Proof.
  intros Hat Hno. unfold sym_try. destruct (0 <? count); [|exists v; split; [apply runs_pret|exact Hat]].
  destruct not_eol.
  - destruct (a_fixed_not_eol_miss letter c v s Hat) as (v1 & R1 & A1).
    { unfold no_letter in Hno. destruct (nskipn c S) as [|x [|y r]]; [exact I| |].
      - destruct Hno as [H|[_ []]]; exact H.
      - destruct Hno as [H|[_ H]]; [left|right]; exact H. }
    exists v1. split; [|exact A1]. eapply runs_pbnd; [exact R1|]. apply runs_pret.
  - destruct (a_fixed1_miss letter c v s Hat) as (v1 & R1 & A1).
    { unfold no_letter in Hno. destruct (nskipn c S) as [|x r]; [exact I|]. destruct Hno as [H|[H _]]; [exact H|discriminate]. }
    exists v1. split; [|exact A1]. eapply runs_pbnd; [exact R1|]. apply runs_pret.
Qed.

Lemma sym_try_hit count letter not_eol k i c v s tail :
  at_ S c v -> nskipn c S = letter :: decimal_N i ++ tail -> sep tail -> i < count -> i < 2 ^ 64 ->
  exists v', runs (sym_try fuel count letter not_eol k) s v (Res (Ok (k, i))) s v' /\ at_ S (c + 1 + nlen (decimal_N i)) v'.
Proof.
  intros Hat Hs Hsep Hi Hi64. unfold sym_try.
  assert ((0 <? count) = true) as -> by (apply N.ltb_lt; lia).
  assert (Hf : exists v1, runs (if not_eol then fixed_not_eol [letter] else tfixed [letter]) s v (Res (Ok tt)) s v1 /\ at_ S (c + 1) v1).
  { destruct not_eol.
    - destruct (decimal_N_head i) as (d & r & Ed & Hd). rewrite Ed in Hs. cbn [app] in Hs.
      apply (a_fixed_not_eol_hit letter d c v s (r ++ tail) Hat Hs).
      unfold is_dig in Hd. apply andb_prop in Hd as [H1 H2]. apply N.leb_le in H1. lia.
    - exact (a_fixed1_hit letter c v s _ Hat Hs). }
  destruct Hf as (v1 & R1 & A1).
  destruct (ptok_header_field (count - 1) i Hi64 ltac:(lia) (c + 1) v1 s tail A1 (nskipn_tail1 _ _ _ Hs) Hsep) as (v2 & R2 & A2).
  exists v2. split; [|exact A2].
  eapply runs_pbnd; [exact R1|]. cbv beta iota. unfold symbol_index.
  eapply runs_pbnd; [exact R2|]. apply runs_pret.
Qed.

Definition kind_count (h : aheader) (k : symkind) : N :=
  match k with
  | SInput => a_inputs h | SOutput => a_outputs h | SLatch => a_latches h | SBad => a_bad h
  | SConstraint => a_constraints h | SJustice => a_justice h | SFairness => a_fairness h
  end.

Lemma no_letter_other letter not_eol x r : x <> letter -> no_letter letter not_eol (x :: r).
Proof. intros H. left. exact H. Qed.

Lemma symbol_target_hit h k i c v s tail :
  at_ S c v -> nskipn c S = sym_letter k :: decimal_N i ++ tail -> sep tail -> i < kind_count h k -> i < 2 ^ 64 ->
  exists v', runs (symbol_target fuel h) s v (Res (Ok (k, i))) s v' /\ at_ S (c + 1 + nlen (decimal_N i)) v'.
Proof.
  intros Hat Hs Hsep Hi Hi64. unfold symbol_target.
  assert (Hm : forall count letter not_eol k' w, at_ S c w -> letter <> sym_letter k ->
            exists w1, runs (sym_try fuel count letter not_eol k') s w Fallthrough s w1 /\ at_ S c w1).
  { intros count letter not_eol k' w Hw Hne. apply sym_try_miss; [exact Hw|]. rewrite Hs. apply no_letter_other. congruence. }
  destruct k; cbn [sym_letter kind_count] in *.
  - destruct (sym_try_hit (a_inputs h) 105 false SInput i c v s tail Hat Hs Hsep Hi Hi64) as (v' & R & A'). exists v'. split; [|exact A'].
    apply or_parse_hit. exact R.
  - destruct (Hm (a_inputs h) 105 false SInput v Hat ltac:(discriminate)) as (v1 & R1 & A1).
    destruct (sym_try_hit (a_outputs h) 111 false SOutput i c v1 s tail A1 Hs Hsep Hi Hi64) as (v' & R & A'). exists v'. split; [|exact A'].
    eapply or_parse_miss; [exact R1|]. apply or_parse_hit. exact R.
  - destruct (Hm (a_inputs h) 105 false SInput v Hat ltac:(discriminate)) as (v1 & R1 & A1).
    destruct (Hm (a_outputs h) 111 false SOutput v1 A1 ltac:(discriminate)) as (v2 & R2 & A2).
    destruct (sym_try_hit (a_latches h) 108 false SLatch i c v2 s tail A2 Hs Hsep Hi Hi64) as (v' & R & A'). exists v'. split; [|exact A'].
    eapply or_parse_miss; [exact R1|]. eapply or_parse_miss; [exact R2|]. apply or_parse_hit. exact R.
  - destruct (Hm (a_inputs h) 105 false SInput v Hat ltac:(discriminate)) as (v1 & R1 & A1).
    destruct (Hm (a_outputs h) 111 false SOutput v1 A1 ltac:(discriminate)) as (v2 & R2 & A2).
    destruct (Hm (a_latches h) 108 false SLatch v2 A2 ltac:(discriminate)) as (v3 & R3 & A3).
    destruct (sym_try_hit (a_bad h) 98 false SBad i c v3 s tail A3 Hs Hsep Hi Hi64) as (v' & R & A'). exists v'. split; [|exact A'].
    eapply or_parse_miss; [exact R1|]. eapply or_parse_miss; [exact R2|]. eapply or_parse_miss; [exact R3|]. apply or_parse_hit. exact R.
  - destruct (Hm (a_inputs h) 105 false SInput v Hat ltac:(discriminate)) as (v1 & R1 & A1).
    destruct (Hm (a_outputs h) 111 false SOutput v1 A1 ltac:(discriminate)) as (v2 & R2 & A2).
    destruct (Hm (a_latches h) 108 false SLatch v2 A2 ltac:(discriminate)) as (v3 & R3 & A3).
    destruct (Hm (a_bad h) 98 false SBad v3 A3 ltac:(discriminate)) as (v4 & R4 & A4).
    destruct (sym_try_hit (a_constraints h) 99 true SConstraint i c v4 s tail A4 Hs Hsep Hi Hi64) as (v' & R & A'). exists v'. split; [|exact A'].
    eapply or_parse_miss; [exact R1|]. eapply or_parse_miss; [exact R2|]. eapply or_parse_miss; [exact R3|].
    eapply or_parse_miss; [exact R4|]. apply or_parse_hit. exact R.
  - destruct (Hm (a_inputs h) 105 false SInput v Hat ltac:(discriminate)) as (v1 & R1 & A1).
    destruct (Hm (a_outputs h) 111 false SOutput v1 A1 ltac:(discriminate)) as (v2 & R2 & A2).
    destruct (Hm (a_latches h) 108 false SLatch v2 A2 ltac:(discriminate)) as (v3 & R3 & A3).
    destruct (Hm (a_bad h) 98 false SBad v3 A3 ltac:(discriminate)) as (v4 & R4 & A4).
    destruct (Hm (a_constraints h) 99 true SConstraint v4 A4 ltac:(discriminate)) as (v5 & R5 & A5).
    destruct (sym_try_hit (a_justice h) 106 false SJustice i c v5 s tail A5 Hs Hsep Hi Hi64) as (v' & R & A'). exists v'. split; [|exact A'].
    eapply or_parse_miss; [exact R1|]. eapply or_parse_miss; [exact R2|]. eapply or_parse_miss; [exact R3|].
    eapply or_parse_miss; [exact R4|]. eapply or_parse_miss; [exact R5|]. apply or_parse_hit. exact R.
  - destruct (Hm (a_inputs h) 105 false SInput v Hat ltac:(discriminate)) as (v1 & R1 & A1).
    destruct (Hm (a_outputs h) 111 false SOutput v1 A1 ltac:(discriminate)) as (v2 & R2 & A2).
    destruct (Hm (a_latches h) 108 false SLatch v2 A2 ltac:(discriminate)) as (v3 & R3 & A3).
    destruct (Hm (a_bad h) 98 false SBad v3 A3 ltac:(discriminate)) as (v4 & R4 & A4).
    destruct (Hm (a_constraints h) 99 true SConstraint v4 A4 ltac:(discriminate)) as (v5 & R5 & A5).
    destruct (Hm (a_justice h) 106 false SJustice v5 A5 ltac:(discriminate)) as (v6 & R6 & A6).
    destruct (sym_try_hit (a_fairness h) 102 false SFairness i c v6 s tail A6 Hs Hsep Hi Hi64) as (v' & R & A'). exists v'. split; [|exact A'].
    eapply or_parse_miss; [exact R1|]. eapply or_parse_miss; [exact R2|]. eapply or_parse_miss; [exact R3|].
    eapply or_parse_miss; [exact R4|]. eapply or_parse_miss; [exact R5|]. eapply or_parse_miss; [exact R6|]. exact R.
Qed.

(* behind the symbols: the comment section or the end of the input *)
Definition end_tail (t : bytes) : Prop := t = [] \/ exists r, t = 99 :: 10 :: r.

Lemma symbol_target_none h c v s :
  at_ S c v -> end_tail (nskipn c S) ->
  exists v', runs (symbol_target fuel h) s v Fallthrough s v' /\ at_ S c v'.
Proof.
  intros Hat He. unfold symbol_target.
  assert (Hm : forall count letter not_eol k' w, at_ S c w -> (letter <> 99 \/ not_eol = true) ->
            exists w1, runs (sym_try fuel count letter not_eol k') s w Fallthrough s w1 /\ at_ S c w1).
  { intros count letter not_eol k' w Hw Hne. apply sym_try_miss; [exact Hw|].
    destruct He as [->|(r & ->)]; [exact I|]. cbn [no_letter]. destruct Hne as [H| ->]; [left; congruence|].
    destruct (N.eq_dec letter 99) as [->|H]; [right; split; reflexivity|left; congruence]. }
  destruct (Hm (a_inputs h) 105 false SInput v Hat ltac:(left; discriminate)) as (v1 & R1 & A1).
  destruct (Hm (a_outputs h) 111 false SOutput v1 A1 ltac:(left; discriminate)) as (v2 & R2 & A2).
  destruct (Hm (a_latches h) 108 false SLatch v2 A2 ltac:(left; discriminate)) as (v3 & R3 & A3).
  destruct (Hm (a_bad h) 98 false SBad v3 A3 ltac:(left; discriminate)) as (v4 & R4 & A4).
  destruct (Hm (a_constraints h) 99 true SConstraint v4 A4 ltac:(right; reflexivity)) as (v5 & R5 & A5).
  destruct (Hm (a_justice h) 106 false SJustice v5 A5 ltac:(left; discriminate)) as (v6 & R6 & A6).
  destruct (Hm (a_fairness h) 102 false SFairness v6 A6 ltac:(left; discriminate)) as (v7 & R7 & A7).
  exists v7. split; [|exact A7].
  eapply or_parse_miss; [exact R1|]. eapply or_parse_miss; [exact R2|]. eapply or_parse_miss; [exact R3|].
  eapply or_parse_miss; [exact R4|]. eapply or_parse_miss; [exact R5|]. eapply or_parse_miss; [exact R6|]. exact R7.
Qed.

Definition sym_ok (h : aheader) (sy : symkind * N * bytes) : Prop :=
  let '(k, i, name) := sy in
  i < kind_count h k /\ i < 2 ^ 64 /\ Forall (fun b => b <> 10) name /\ utf8_ok name.

Definition sym_item (sy : symkind * N * bytes) : item := let '(k, i, name) := sy in ISymbol k i name.

Lemma next_symbol_hit h sy : sym_ok h sy -> lrd (next_symbol fuel h) (w_symbol sy) (Ok (Some (sym_item sy))).
Proof.
  destruct sy as [[k i] name]. cbn [sym_ok w_symbol sym_item]. intros (Hi & Hi64 & Hnl & Hu).
  intros c v s tail Hat Hle Hs.
  assert (Hs0 : nskipn c S = sym_letter k :: decimal_N i ++ (32 :: name ++ [10]) ++ tail).
  { rewrite Hs. repeat (progress (cbn [app]; rewrite <- ?app_assoc)). reflexivity. }
  destruct (symbol_target_hit h k i c v s _ Hat Hs0 (sep_32 _) Hi Hi64) as (v1 & R1 & A1).
  assert (L1 : vcur v1 <= vhwm v1) by (destruct Hat as (_ & _ & Hwf); exact (proj1 (runs_wf _ _ _ _ _ _ Hwf R1) Hle)).
  assert (Hs1 : nskipn (c + 1 + nlen (decimal_N i)) S = ([32] ++ (name ++ [10]) ++ []) ++ tail).
  { rewrite app_nil_r. apply (nskipn_app_next _ _ (decimal_N i)). exact (nskipn_tail1 _ _ _ Hs0). }
  assert (Hk : lrd (rbnd required_space (fun _ => rbnd (remaining_line_content fuel) (fun nm => pret (Ok (Some (ISymbol k i nm))))))
                   ([32] ++ (name ++ [10]) ++ []) (Ok (Some (ISymbol k i name)))).
  { eapply lrd_rbnd; [apply lrd_space|]. eapply lrd_rbnd; [apply (remaining_line_content_hit name Hnl Hu)|apply lrd_ret]. }
  destruct (Hk _ v1 s tail A1 L1 Hs1) as (s2 & v2 & R2 & A2 & L2).
  exists s2, v2. split; [|split; [|exact L2]].
  - unfold next_symbol. eapply runs_pbnd; [exact R1|]. exact R2.
  - replace (c + nlen (sym_letter k :: decimal_N i ++ 32 :: name ++ [10]))
      with (c + 1 + nlen (decimal_N i) + nlen ([32] ++ (name ++ [10]) ++ [])); [exact A2|].
    unfold nlen. cbn [app length]. rewrite !app_length. cbn [length]. rewrite !app_length. cbn [length]. lia.
Qed.

Lemma next_symbol_none h c v s :
  at_ S c v -> end_tail (nskipn c S) ->
  exists v', runs (next_symbol fuel h) s v (Ok None) s v' /\ at_ S c v'.
Proof.
  intros Hat He. destruct (symbol_target_none h c v s Hat He) as (v' & R & A').
  exists v'. split; [|exact A']. unfold next_symbol. eapply runs_pbnd; [exact R|apply runs_pret].
Qed.

Lemma w_symbol_nonempty sy : w_symbol sy <> [].
Proof. destruct sy as [[k i] name]. discriminate. Qed.

Lemma symbols_loop_hit h : forall syms n acc c v s tail,
  Forall (sym_ok h) syms -> (length syms < n)%nat -> at_ S c v -> vcur v <= vhwm v ->
  nskipn c S = flat_map w_symbol syms ++ tail -> end_tail tail ->
  exists s' v', runs (symbols_loop fuel n h acc) s v (rev acc ++ List.map sym_item syms, tt, None) s' v' /\
                at_ S (c + nlen (flat_map w_symbol syms)) v' /\ vcur v' <= vhwm v'.
Proof.
  induction syms as [|sy syms IH]; intros n acc c v s tail Hok Hn Hat Hle Hs He; (destruct n as [|n]; [cbn [length] in Hn; lia|]).
  - cbn [flat_map app] in Hs. destruct (next_symbol_none h c v s Hat ltac:(rewrite Hs; exact He)) as (v' & R & A').
    exists s, v'. cbn [flat_map List.map]. change (nlen (@nil byte)) with 0. rewrite N.add_0_r, app_nil_r.
    split; [|split; [exact A'|]].
    + cbn [symbols_loop]. eapply runs_pbnd; [exact R|apply runs_pret].
    + destruct Hat as (_ & _ & Hwf). exact (proj1 (runs_wf _ _ _ _ _ _ Hwf R) Hle).
  - inversion Hok as [|? ? Hsy Hok']; subst. cbn [flat_map] in Hs. rewrite <- app_assoc in Hs.
    destruct (next_symbol_hit h sy Hsy c v s _ Hat Hle Hs) as (s1 & v1 & R1 & A1 & L1).
    destruct (IH n (sym_item sy :: acc) _ v1 s1 tail Hok' ltac:(cbn [length] in Hn; lia) A1 L1 (nskipn_app_next _ _ _ _ Hs) He)
      as (s2 & v2 & R2 & A2 & L2).
    exists s2, v2. split; [|split; [|exact L2]].
    + cbn [symbols_loop]. eapply runs_pbnd; [exact R1|]. cbv beta iota.
      cbn [List.map]. replace (rev acc ++ sym_item sy :: List.map sym_item syms) with (rev (sym_item sy :: acc) ++ List.map sym_item syms)
        by (cbn [rev]; rewrite <- app_assoc; reflexivity).
      exact R2.
    + cbn [flat_map]. rewrite nlen_app, N.add_assoc. exact A2.
Qed.

(* the symbol section followed by ParseSymbols::comment *)
Definition cmt_text (cm : option bytes) : bytes := match cm with Some c => w_comment c | None => [] end.
Definition cmt_items (cm : option bytes) : list item := match cm with Some c => [IComment c] | None => [] end.
Definition cmt_ok (cm : option bytes) : Prop := match cm with Some c => utf8_ok c | None => True end.

Lemma end_tail_cmt cm : end_tail (cmt_text cm).
Proof. destruct cm as [c|]; [right; exists (c ++ [10]); reflexivity|left; reflexivity]. Qed.

Lemma comment_section_hit h cm : cmt_ok cm -> lfin (comment_section fuel h) (cmt_text cm) (cmt_items cm, FOk).
Proof.
  intros Hok c v s Hat Hle Hf Hs.
  assert (Hfu : (0 < fuel)%nat) by lia.
  destruct (symbols_loop_hit h [] fuel [] c v s (cmt_text cm) (Forall_nil _) Hfu Hat Hle Hs (end_tail_cmt cm))
    as (s1 & v1 & R1 & A1 & L1).
  cbn [flat_map List.map rev app] in R1, A1. change (nlen (@nil byte)) with 0 in A1. rewrite N.add_0_r in A1.
  assert (F1 : vfail v1 = None) by (destruct Hat as (_ & _ & Hwf); rewrite (proj2 (runs_wf _ _ _ _ _ _ Hwf R1)); exact Hf).
  destruct cm as [cm|]; cbn [cmt_text cmt_items cmt_ok] in *.
  - unfold w_comment in Hs.
    destruct (a_fixed1_hit 99 c v1 s1 _ A1 Hs) as (v2 & R2 & A2).
    pose proof A1 as (_ & _ & Hwf1).
    assert (L2 : vcur v2 <= vhwm v2) by exact (proj1 (runs_wf _ _ _ _ _ _ Hwf1 R2) L1).
    assert (F2 : vfail v2 = None) by (rewrite (proj2 (runs_wf _ _ _ _ _ _ Hwf1 R2)); exact F1).
    assert (Hk : lfin (rbnd required_newline (fun _ => remaining_file_content fuel)) ([10] ++ (cm ++ [10])) (Ok cm)).
    { unfold rbnd. eapply lfin_pbnd; [apply lrd_newline|]. cbv iota. apply (remaining_file_content_hit cm Hok). }
    destruct (Hk _ v2 s1 A2 L2 F2 (nskipn_tail1 _ _ _ Hs)) as (s3 & v3 & R3).
    exists s3, v3. unfold comment_section. eapply runs_pbnd; [exact R1|]. cbv beta iota.
    eapply runs_pbnd; [exact R2|]. cbv beta iota. eapply runs_pbnd; [exact R3|]. apply runs_pret.
  - destruct (a_fixed1_miss 99 c v1 s1 A1 ltac:(rewrite Hs; exact I)) as (v2 & R2 & A2).
    pose proof A1 as (_ & _ & Hwf1).
    assert (F2 : vfail v2 = None) by (rewrite (proj2 (runs_wf _ _ _ _ _ _ Hwf1 R2)); exact F1).
    destruct (a_eof_hit c v2 s1 A2 F2 Hs) as (v3 & R3).
    exists s1, v3. unfold comment_section. eapply runs_pbnd; [exact R1|]. cbv beta iota.
    eapply runs_pbnd; [exact R2|]. cbv beta iota. eapply runs_pbnd; [exact R3|]. apply runs_pret.
Qed.

(* `sect (symbols_loop ..) (fun _ => comment_section ..)`: the tail of both parsers *)
Lemma trailer_hit h syms cm :
  Forall (sym_ok h) syms -> cmt_ok cm ->
  lfin (sect (symbols_loop fuel fuel h []) (fun _ => comment_section fuel h))
       (flat_map w_symbol syms ++ cmt_text cm) (List.map sym_item syms ++ cmt_items cm, FOk).
Proof.
  intros Hsy Hcm c v s Hat Hle Hf Hs.
  assert (Hfu : (length syms < fuel)%nat).
  { assert (Hl : (length syms <= length (flat_map w_symbol syms))%nat).
    { clear. induction syms as [|sy r IH]; cbn [flat_map length]; [lia|]. rewrite app_length.
      pose proof (w_symbol_nonempty sy). destruct (w_symbol sy); [congruence|cbn [length]; lia]. }
    assert (length (nskipn c S) <= length S)%nat by (unfold nskipn; rewrite skipn_length; lia).
    rewrite Hs, app_length in H. unfold bytes, byte in *. lia. }
  destruct (symbols_loop_hit h syms fuel [] c v s (cmt_text cm) Hsy Hfu Hat Hle Hs (end_tail_cmt cm)) as (s1 & v1 & R1 & A1 & L1).
  cbn [rev app] in R1.
  assert (F1 : vfail v1 = None) by (destruct Hat as (_ & _ & Hwf); rewrite (proj2 (runs_wf _ _ _ _ _ _ Hwf R1)); exact Hf).
  destruct (comment_section_hit h cm Hcm _ v1 s1 A1 L1 F1 (nskipn_app_next _ _ _ _ Hs)) as (s2 & v2 & R2).
  exists s2, v2. unfold sect. eapply runs_pbnd; [exact R1|]. cbv beta iota.
  eapply runs_pbnd; [exact R2|]. apply runs_pret.
Qed.

(* ---------- the header, with its trailing zero fields dropped ---------- *)
Lemma trim_fields_cases m i l o a b c j f :
  trim_fields 9 [m; i; l; o; a; b; c; j; f] =
  if f =? 0 then if j =? 0 then if c =? 0 then if b =? 0 then [m; i; l; o; a] else [m; i; l; o; a; b]
                                else [m; i; l; o; a; b; c]
                  else [m; i; l; o; a; b; c; j]
  else [m; i; l; o; a; b; c; j; f].
Proof.
  destruct f as [|pf]; [|reflexivity]. destruct j as [|pj]; [|reflexivity]. destruct c as [|pc]; [|reflexivity].
  destruct b as [|pb]; [destruct a; reflexivity|reflexivity].
Qed.

Lemma lrd_magic x y z : lrd (or_unexpected (tfixed [x; y; z])) [x; y; z] (Ok tt).
Proof.
  apply lrd_intro. intros c v s tail Hat _ Hs. destruct (a_magic_hit x y z c v s tail Hat Hs) as (v' & R & A').
  exists s, v'. split; assumption.
Qed.

Lemma usize_le n : n < 2 ^ 64 -> n <= USIZE_MAX_N.
Proof. unfold USIZE_MAX_N. change (2 ^ 64) with 18446744073709551616. lia. Qed.

Ltac hsp := apply lrd_space_k.
Ltac hfd H64 Hlim Hsep := eapply lrd_ptok; [apply ptok_header_field; [exact H64|exact Hlim]|apply Hsep|].

Lemma header_hit x y z maxc m i l o a b c j f :
  m <= (maxc - 1) / 2 -> i <= m -> l <= m - i -> a <= m - i - l ->
  m < 2 ^ 64 -> o < 2 ^ 64 -> b < 2 ^ 64 -> c < 2 ^ 64 -> j < 2 ^ 64 -> f < 2 ^ 64 ->
  lrd (parse_aheader fuel [x; y; z] maxc) (w_header [x; y; z] m i l o a b c j f) (Ok (mk_header m i l o a b c j f)).
Proof.
  intros Hm Hi Hl Ha Hm64 Ho64 Hb64 Hc64 Hj64 Hf64.
  assert (Hi64 : i < 2 ^ 64) by lia. assert (Hl64 : l < 2 ^ 64) by lia. assert (Ha64 : a < 2 ^ 64) by lia.
  pose proof (usize_le o Ho64) as Ho. pose proof (usize_le b Hb64) as Hb. pose proof (usize_le c Hc64) as Hc.
  pose proof (usize_le j Hj64) as Hj. pose proof (usize_le f Hf64) as Hf.
  unfold w_header. rewrite trim_fields_cases.
  destruct (f =? 0) eqn:Ef; [apply N.eqb_eq in Ef; subst f|];
  [destruct (j =? 0) eqn:Ej; [apply N.eqb_eq in Ej; subst j|];
   [destruct (c =? 0) eqn:Ec; [apply N.eqb_eq in Ec; subst c|];
    [destruct (b =? 0) eqn:Eb; [apply N.eqb_eq in Eb; subst b|]|]|]|].
  - eapply lrd_ext.
    + unfold parse_aheader. eapply lrd_rbnd; [apply lrd_magic|].
      hsp. hfd Hm64 Hm sep_32. hsp. hfd Hi64 Hi sep_32. hsp. hfd Hl64 Hl sep_32. hsp. hfd Ho64 Ho sep_32. hsp. hfd Ha64 Ha sep_10.
      apply lrd_nos_newline_k. cbn [negb]. apply lrd_ret.
    + repeat (progress (cbn [w_fields flat_map app]; rewrite <- ?app_assoc)). reflexivity.
  - eapply lrd_ext.
    + unfold parse_aheader. eapply lrd_rbnd; [apply lrd_magic|].
      hsp. hfd Hm64 Hm sep_32. hsp. hfd Hi64 Hi sep_32. hsp. hfd Hl64 Hl sep_32. hsp. hfd Ho64 Ho sep_32. hsp. hfd Ha64 Ha sep_32.
      apply lrd_nos_space_k. cbn [negb]. hfd Hb64 Hb sep_10.
      apply lrd_nos_newline_k. cbn [negb]. apply lrd_ret.
    + repeat (progress (cbn [w_fields flat_map app]; rewrite <- ?app_assoc)). reflexivity.
  - eapply lrd_ext.
    + unfold parse_aheader. eapply lrd_rbnd; [apply lrd_magic|].
      hsp. hfd Hm64 Hm sep_32. hsp. hfd Hi64 Hi sep_32. hsp. hfd Hl64 Hl sep_32. hsp. hfd Ho64 Ho sep_32. hsp. hfd Ha64 Ha sep_32.
      apply lrd_nos_space_k. cbn [negb]. hfd Hb64 Hb sep_32.
      apply lrd_nos_space_k. cbn [negb]. hfd Hc64 Hc sep_10.
      apply lrd_nos_newline_k. cbn [negb]. apply lrd_ret.
    + repeat (progress (cbn [w_fields flat_map app]; rewrite <- ?app_assoc)). reflexivity.
  - eapply lrd_ext.
    + unfold parse_aheader. eapply lrd_rbnd; [apply lrd_magic|].
      hsp. hfd Hm64 Hm sep_32. hsp. hfd Hi64 Hi sep_32. hsp. hfd Hl64 Hl sep_32. hsp. hfd Ho64 Ho sep_32. hsp. hfd Ha64 Ha sep_32.
      apply lrd_nos_space_k. cbn [negb]. hfd Hb64 Hb sep_32.
      apply lrd_nos_space_k. cbn [negb]. hfd Hc64 Hc sep_32.
      apply lrd_nos_space_k. cbn [negb]. hfd Hj64 Hj sep_10.
      apply lrd_nos_newline_k. cbn [negb]. apply lrd_ret.
    + repeat (progress (cbn [w_fields flat_map app]; rewrite <- ?app_assoc)). reflexivity.
  - eapply lrd_ext.
    + unfold parse_aheader. eapply lrd_rbnd; [apply lrd_magic|].
      hsp. hfd Hm64 Hm sep_32. hsp. hfd Hi64 Hi sep_32. hsp. hfd Hl64 Hl sep_32. hsp. hfd Ho64 Ho sep_32. hsp. hfd Ha64 Ha sep_32.
      apply lrd_nos_space_k. cbn [negb]. hfd Hb64 Hb sep_32.
      apply lrd_nos_space_k. cbn [negb]. hfd Hc64 Hc sep_32.
      apply lrd_nos_space_k. cbn [negb]. hfd Hj64 Hj sep_32.
      apply lrd_nos_space_k. cbn [negb]. hfd Hf64 Hf sep_10.
      apply lrd_newline_k. apply lrd_ret.
    + repeat (progress (cbn [w_fields flat_map app]; rewrite <- ?app_assoc)). reflexivity.
Qed.

(* ---------- the sections between the latches and the and gates ---------- *)
Definition lit_ok (M l : N) : Prop := l <= 2 * M + 1.
(* a literal that is being defined: not a constant, not negated *)
Definition def_ok (M l : N) : Prop := l <= 2 * M + 1 /\ l <> 0 /\ N.land l 1 = 0.

Definition middle_items (a : aig) : list item :=
  List.map IOutput (g_outputs a) ++ List.map IBad (g_bad a) ++ List.map IConstraint (g_constraints a)
  ++ List.map (fun j => IJusticeSize (nlen j)) (g_justice a)
  ++ List.map IJustice (concat (g_justice a))
  ++ List.map IFairness (g_fairness a).

Definition middle_ok (M : N) (a : aig) : Prop :=
  Forall (lit_ok M) (g_outputs a) /\ Forall (lit_ok M) (g_bad a) /\ Forall (lit_ok M) (g_constraints a) /\
  Forall (lit_ok M) (concat (g_justice a)) /\ nlen (concat (g_justice a)) < 2 ^ 64 /\ Forall (lit_ok M) (g_fairness a).

Lemma w_lit_nonempty l : w_lit l <> [].
Proof. unfold w_lit. destruct (decimal_N l); discriminate. Qed.

Section Sections.
Variables maxc M : N.
Hypothesis HM : 2 * M + 1 <= maxc.
Hypothesis Hmc : maxc < 2 ^ 64.
Let max_lit := M * 2 + 1.

Lemma Hml_ : max_lit <= maxc. Proof. unfold max_lit. lia. Qed.
Lemma Hml1_ : 1 <= max_lit. Proof. unfold max_lit. lia. Qed.

Lemma lits_chain {St : Type} (st : St) assigning mk ls :
  Forall (fun l => l <= max_lit /\ asg_ok assigning l) ls ->
  chain (lit_line fuel maxc max_lit assigning mk) st (flat_map w_lit ls) (List.map mk ls) st.
Proof.
  intros H. apply chain_map. intros x Hx. rewrite Forall_forall in H. destruct (H x Hx) as [H1 H2].
  split; [apply w_lit_nonempty|]. apply (lit_line_hit maxc max_lit Hml_ Hmc Hml1_ assigning mk st x H1 H2).
Qed.

Lemma plain_lits ls : Forall (lit_ok M) ls -> Forall (fun l => l <= max_lit /\ asg_ok false l) ls.
Proof.
  intros H. eapply Forall_impl; [|exact H]. intros l Hl. unfold lit_ok in Hl. unfold max_lit.
  split; [lia|discriminate].
Qed.

Lemma lits_sloop {St : Type} (st : St) assigning mk ls :
  Forall (fun l => l <= max_lit /\ asg_ok assigning l) ls ->
  lrd (sloop fuel (lit_line fuel maxc max_lit assigning mk) (nlen ls) st []) (flat_map w_lit ls) (List.map mk ls, st, None).
Proof.
  intros H. replace (nlen ls) with (nlen (List.map mk ls)) by (unfold nlen; rewrite map_length; reflexivity).
  apply sloop_hit. apply lits_chain. exact H.
Qed.

Lemma justice_sizes_chain : forall (js : list (list N)) total,
  total + nlen (concat js) < 2 ^ 64 ->
  chain (justice_size fuel) total (flat_map (fun j => w_lit (nlen j)) js)
        (List.map (fun j => IJusticeSize (nlen j)) js) (total + nlen (concat js)).
Proof.
  induction js as [|j js IH]; intros total Ht; cbn [flat_map List.map concat].
  - change (nlen (@nil N)) with 0. rewrite N.add_0_r. constructor.
  - cbn [concat] in Ht. rewrite nlen_app in Ht. rewrite nlen_app, N.add_assoc.
    apply ch_cons with (st1 := total + nlen j); [apply w_lit_nonempty|apply (justice_size_hit maxc max_lit Hml_ Hmc Hml1_); lia|].
    apply IH. lia.
Qed.

Lemma flat_map_concat {X Y : Type} (f : X -> list Y) (l : list (list X)) :
  flat_map f (concat l) = flat_map (fun j => flat_map f j) l.
Proof. induction l as [|j l IH]; cbn [concat flat_map]; [reflexivity|]. rewrite flat_map_app, IH. reflexivity. Qed.

Lemma middle_lfin {St : Type} h (st : St) (k : St -> PM (list item * final)) a t2 items2 fin :
  a_outputs h = nlen (g_outputs a) -> a_bad h = nlen (g_bad a) -> a_constraints h = nlen (g_constraints a) ->
  a_justice h = nlen (g_justice a) -> a_fairness h = nlen (g_fairness a) ->
  middle_ok M a -> lfin (k st) t2 (items2, fin) ->
  lfin (middle_sections fuel maxc max_lit h st k) (w_middle a ++ t2) (middle_items a ++ items2, fin).
Proof.
  intros Eo Eb Ec Ej Ef (Ho & Hb & Hc & Hjl & Hjn & Hf) Hk.
  unfold middle_sections, w_middle, middle_items. rewrite Eo, Eb, Ec, Ej, Ef. rewrite <- !app_assoc.
  eapply sect_lfin; [apply lits_sloop, plain_lits, Ho|].
  eapply sect_lfin; [apply lits_sloop, plain_lits, Hb|].
  eapply sect_lfin; [apply lits_sloop, plain_lits, Hc|].
  eapply sect_lfin.
  { replace (nlen (g_justice a)) with (nlen (List.map (fun j => IJusticeSize (nlen j)) (g_justice a)))
      by (unfold nlen; rewrite map_length; reflexivity).
    apply sloop_hit. apply (justice_sizes_chain (g_justice a) 0). lia. }
  rewrite N.add_0_l. rewrite <- flat_map_concat.
  eapply sect_lfin; [apply lits_sloop, plain_lits, Hjl|].
  eapply sect_lfin; [apply lits_sloop, plain_lits, Hf|].
  exact Hk.
Qed.

(* ---------- ascii: inputs, latches, and gates ---------- *)
Definition latch_aag_ok (l : option N * N * option bool) : Prop :=
  let '(s, n, _) := l in match s with Some st => def_ok M st /\ lit_ok M n | None => False end.
Definition and_aag_ok (g : option N * N * N) : Prop :=
  let '(o, x, y) := g in match o with Some ov => def_ok M ov /\ lit_ok M x /\ lit_ok M y | None => False end.

Definition latch_item (l : option N * N * option bool) : item := let '(s, n, i) := l in ILatch (unopt s) n i.
Definition and_item (g : option N * N * N) : item := let '(o, x, y) := g in IAnd (unopt o) x y.
Definition latch_text (l : option N * N * option bool) : bytes := let '(s, n, i) := l in w_latch (unopt s) n i.
Definition and_text (g : option N * N * N) : bytes := let '(o, x, y) := g in w_and (unopt o) x y.

Lemma def_lits ls : Forall (def_ok M) ls -> Forall (fun l => l <= max_lit /\ asg_ok true l) ls.
Proof.
  intros H. eapply Forall_impl; [|exact H]. intros l (Hl & H0 & H1). unfold max_lit.
  split; [lia|intros _; split; assumption].
Qed.

Lemma aag_latches_sloop lats :
  Forall latch_aag_ok lats ->
  lrd (sloop fuel (aag_latch fuel maxc max_lit) (nlen lats) tt []) (flat_map latch_text lats) (List.map latch_item lats, tt, None).
Proof.
  intros H. replace (nlen lats) with (nlen (List.map latch_item lats)) by (unfold nlen; rewrite map_length; reflexivity).
  apply sloop_hit. apply chain_map. intros [[s n] i] Hx. rewrite Forall_forall in H. specialize (H _ Hx). cbn [latch_aag_ok] in H.
  destruct s as [st|]; [|contradiction]. destruct H as ((Hs & H0 & H1) & Hn). cbn [latch_text latch_item unopt].
  split; [unfold w_latch; destruct (decimal_N st); discriminate|].
  apply (aag_latch_hit maxc max_lit Hml_ Hmc Hml1_ tt st n i); unfold max_lit, lit_ok in *; try assumption; lia.
Qed.

Lemma aag_ands_sloop ands :
  Forall and_aag_ok ands ->
  lrd (sloop fuel (aag_and fuel maxc max_lit) (nlen ands) tt []) (flat_map and_text ands) (List.map and_item ands, tt, None).
Proof.
  intros H. replace (nlen ands) with (nlen (List.map and_item ands)) by (unfold nlen; rewrite map_length; reflexivity).
  apply sloop_hit. apply chain_map. intros [[o x] y] Hx. rewrite Forall_forall in H. specialize (H _ Hx). cbn [and_aag_ok] in H.
  destruct o as [ov|]; [|contradiction]. destruct H as ((Ho & H0 & H1) & Hxx & Hy). cbn [and_text and_item unopt].
  split; [unfold w_and; destruct (decimal_N ov); discriminate|].
  apply (aag_and_hit maxc max_lit Hml_ Hmc Hml1_ tt ov x y); unfold max_lit, lit_ok in *; try assumption; lia.
Qed.

(* ---------- binary: latches and and gates carry the running code ---------- *)
Definition olatch_ok (l : option N * N * option bool) : Prop := let '(s, n, _) := l in s = None /\ lit_ok M n.
Definition olatch_item (l : option N * N * option bool) : item := let '(_, n, i) := l in IOLatch n i.
Definition oand_item (g : option N * N * N) : item := let '(_, x, y) := g in IOAnd x y.

(* the gates as the writer's assertion and the reader's limits want them: output implicit, inputs in
   the writer's order (larger first), not above the gate's own code, deltas within 8 groups of 7 bits *)
Fixpoint oands_ok (code : N) (gs : list (option N * N * N)) : Prop :=
  match gs with
  | [] => True
  | (o, x, y) :: r => (o = None /\ y <= x /\ x <= code /\ code - x < 2 ^ 56 /\ x - y < 2 ^ 56) /\ oands_ok (code + 2) r
  end.

(* writer and parser step the code in the same way (wrapping addition of 2); a code that is used is below 2^64 *)
Lemma olatches_chain : forall lats st,
  Forall olatch_ok lats -> st < W64 -> (lats <> [] -> 2 <= st /\ st + 2 * nlen lats <= 2 * M + 2) ->
  chain (aig_latch fuel maxc max_lit) st (w_olatches st lats) (List.map olatch_item lats) ((st + 2 * nlen lats) mod W64).
Proof.
  induction lats as [|[[s n] i] lats IH]; intros st Hok Hst Hb.
  - change (nlen (@nil (option N * N * option bool))) with 0. rewrite N.mul_0_r, N.add_0_r, (N.mod_small st W64 Hst). constructor.
  - inversion Hok as [|? ? Hx Hok']; subst. cbn [olatch_ok] in Hx. destruct Hx as [_ Hn].
    destruct (Hb ltac:(discriminate)) as [H2 Hbd]. rewrite nlen_cons in Hbd.
    pose proof Hmc as Hmc'. rewrite <- W64_pow in Hmc'.
    assert (Hlt : (st + 2) mod W64 < W64) by (apply N.mod_lt; unfold W64; lia).
    assert (P1 : lats <> [] -> 2 <= (st + 2) mod W64 /\ (st + 2) mod W64 + 2 * nlen lats <= 2 * M + 2).
    { intros Hne. assert (1 <= nlen lats) by (destruct lats; [congruence|rewrite nlen_cons; lia]).
      rewrite (N.mod_small (st + 2) W64) by lia. lia. }
    pose proof (IH ((st + 2) mod W64) Hok' Hlt P1) as Hch.
    replace ((st + 2 * nlen ((s, n, i) :: lats)) mod W64) with (((st + 2) mod W64 + 2 * nlen lats) mod W64).
    2:{ rewrite nlen_cons. rewrite N.add_mod_idemp_l by (unfold W64; lia). f_equal. lia. }
    cbn [w_olatches List.map olatch_item].
    apply ch_cons with (st1 := (st + 2) mod W64); [pose proof (decimal_N_nonempty n); destruct (decimal_N n); [congruence|discriminate]| |exact Hch].
    apply (aig_latch_hit maxc max_lit Hml_ Hmc Hml1_ st n i); unfold max_lit, lit_ok in *; lia.
Qed.

Lemma oands_chain : forall gs st code,
  oands_ok code gs -> (gs <> [] -> st = code /\ code + 2 * nlen gs <= 2 * M + 2) ->
  exists st', chain (aig_and maxc) st (w_oands st gs) (List.map oand_item gs) st'.
Proof.
  induction gs as [|[[o x] y] gs IH]; intros st code Hok Hst.
  - exists st. constructor.
  - destruct Hok as [(_ & Hyx & Hxc & Hd0 & Hd1) Hok']. destruct (Hst ltac:(discriminate)) as [-> Hb]. rewrite nlen_cons in Hb.
    pose proof Hmc as Hmc'. rewrite <- W64_pow in Hmc'.
    assert (P1 : gs <> [] -> (code + 2) mod W64 = code + 2 /\ code + 2 + 2 * nlen gs <= 2 * M + 2).
    { intros Hne. assert (1 <= nlen gs) by (destruct gs; [congruence|rewrite nlen_cons; lia]).
      split; [apply N.mod_small; lia|lia]. }
    destruct (IH ((code + 2) mod W64) (code + 2) Hok' P1) as (st' & Hch).
    exists st'. cbn [w_oands List.map oand_item].
    apply ch_cons with (st1 := (code + 2) mod W64); [|apply (aig_and_hit maxc max_lit Hml_ Hmc Hml1_ code x y); unfold max_lit; try assumption; lia|exact Hch].
    unfold w_oand. pose proof (enc_groups_nonempty 10 (code - (if x <? y then y else x)) ltac:(lia)) as Hne.
    unfold varint_encode. destruct (enc_groups 10 (code - (if x <? y then y else x))); [congruence|discriminate].
Qed.

End Sections.

(* ---------- the ascii format: the domain and the whole file ---------- *)
Definition aag_items (a : aig) : list item :=
  List.map IInput (g_inputs a) ++ List.map latch_item (g_latches a) ++ middle_items a
  ++ List.map and_item (g_ands a) ++ List.map sym_item (g_symbols a) ++ cmt_items (g_comment a).

(* the counts of the header are the lengths of the vectors (the writer writes the lengths), they fit usize,
   and I + L + A <= M <= (MAX_CODE - 1) / 2 *)
Definition counts_ok (maxc : N) (a : aig) : Prop :=
  let h := g_header a in
  1 <= maxc /\ maxc < 2 ^ 64 /\ a_max_var h <= (maxc - 1) / 2 /\
  a_inputs h + a_latches h + a_ands h <= a_max_var h /\
  a_latches h = nlen (g_latches a) /\ a_outputs h = nlen (g_outputs a) /\ a_ands h = nlen (g_ands a) /\
  a_bad h = nlen (g_bad a) /\ a_constraints h = nlen (g_constraints a) /\ a_justice h = nlen (g_justice a) /\
  a_fairness h = nlen (g_fairness a) /\
  a_outputs h < 2 ^ 64 /\ a_bad h < 2 ^ 64 /\ a_constraints h < 2 ^ 64 /\ a_justice h < 2 ^ 64 /\ a_fairness h < 2 ^ 64.

Definition aag_ok (maxc : N) (a : aig) : Prop :=
  let h := g_header a in let M := a_max_var h in
  counts_ok maxc a /\ a_inputs h = nlen (g_inputs a) /\
  Forall (def_ok M) (g_inputs a) /\ Forall (latch_aag_ok M) (g_latches a) /\ middle_ok M a /\
  Forall (and_aag_ok M) (g_ands a) /\ Forall (sym_ok h) (g_symbols a) /\ cmt_ok (g_comment a).

Lemma max_lit_le maxc M : 1 <= maxc -> M <= (maxc - 1) / 2 -> 2 * M + 1 <= maxc.
Proof. intros H1 H2. lia. Qed.

Lemma parse_aag_lfin maxc a :
  aag_ok maxc a -> lfin (parse_aag fuel maxc) (write_aag a) (Some (g_header a), aag_items a, FOk).
Proof.
  destruct a as [h ins lats outs bad cons jus fair ands syms cm].
  unfold aag_ok, counts_ok. cbn [g_header g_inputs g_latches g_outputs g_bad g_constraints g_justice g_fairness g_ands g_symbols g_comment].
  intros ((Hc1 & Hc64 & HM & Hsum & El & Eo & Ea & Eb & Ec & Ej & Ef & Ho64 & Hb64 & Hcc64 & Hj64 & Hf64) & Ei & Hins & Hlats & Hmid & Hands & Hsyms & Hcm).
  pose proof (max_lit_le maxc (a_max_var h) Hc1 HM) as HML.
  unfold parse_aag, write_aag, aag_items. cbn [g_header g_inputs g_latches g_outputs g_bad g_constraints g_justice g_fairness g_ands g_symbols g_comment].
  assert (Hh : h = mk_header (a_max_var h) (nlen ins) (nlen lats) (nlen outs) (nlen ands) (nlen bad) (nlen cons) (nlen jus) (nlen fair)).
  { destruct h. cbn in *. unfold mk_header. congruence. }
  eapply lfin_pbnd.
  { unfold magic_ascii. apply (header_hit 97 97 103 maxc); try lia. }
  rewrite <- Hh. cbn [finish_parse].
  intros c v s Hat Hle Hf Hs.
  assert (Hbody : lfin
    (sect (sloop fuel (lit_line fuel maxc (a_max_var h * 2 + 1) true IInput) (a_inputs h) tt []) (fun st =>
     sect (sloop fuel (aag_latch fuel maxc (a_max_var h * 2 + 1)) (a_latches h) st []) (fun st0 =>
     middle_sections fuel maxc (a_max_var h * 2 + 1) h st0 (fun st1 =>
     sect (sloop fuel (aag_and fuel maxc (a_max_var h * 2 + 1)) (a_ands h) st1 []) (fun _ =>
     sect (symbols_loop fuel fuel h []) (fun _ => comment_section fuel h))))))
    (flat_map w_lit ins ++ flat_map latch_text lats ++
     w_middle {| g_header := h; g_inputs := ins; g_latches := lats; g_outputs := outs; g_bad := bad; g_constraints := cons;
                 g_justice := jus; g_fairness := fair; g_ands := ands; g_symbols := syms; g_comment := cm |} ++
     flat_map and_text ands ++ flat_map w_symbol syms ++ cmt_text cm)
    (List.map IInput ins ++ List.map latch_item lats ++
     middle_items {| g_header := h; g_inputs := ins; g_latches := lats; g_outputs := outs; g_bad := bad; g_constraints := cons;
                 g_justice := jus; g_fairness := fair; g_ands := ands; g_symbols := syms; g_comment := cm |} ++
     List.map and_item ands ++ List.map sym_item syms ++ cmt_items cm, FOk)).
  { rewrite Ei, El, Ea.
    eapply sect_lfin; [apply (lits_sloop maxc (a_max_var h) HML Hc64 tt true IInput ins (def_lits maxc (a_max_var h) HML Hc64 ins Hins))|].
    eapply sect_lfin; [apply (aag_latches_sloop maxc (a_max_var h) HML Hc64 lats Hlats)|].
    apply (middle_lfin maxc (a_max_var h) HML Hc64 h tt); try assumption.
    eapply sect_lfin; [apply (aag_ands_sloop maxc (a_max_var h) HML Hc64 ands Hands)|].
    apply trailer_hit; assumption. }
  destruct (Hbody c v s Hat Hle Hf Hs) as (s' & v' & R).
  exists s', v'. eapply runs_pbnd; [exact R|]. apply runs_pret.
Qed.

(* ---------- the binary format: the domain and the whole file ---------- *)
Definition aig_items (a : aig) : list item :=
  List.map olatch_item (g_latches a) ++ middle_items a ++ List.map oand_item (g_ands a)
  ++ List.map sym_item (g_symbols a) ++ cmt_items (g_comment a).

(* an OrderedAig: no input list (input_count is the header's I), latches and gates without own literal; gate k has
   the literal 2 (I + L + 1 + k) (the writer and the parser compute it with wrapping arithmetic: up to
   I + L + A = M = 2^63 - 1 no code that is used wraps) *)
Definition aig_ok (maxc : N) (a : aig) : Prop :=
  let h := g_header a in let M := a_max_var h in
  counts_ok maxc a /\ g_inputs a = [] /\
  Forall (olatch_ok M) (g_latches a) /\ middle_ok M a /\
  oands_ok ((a_inputs h + 1) * 2 + 2 * nlen (g_latches a)) (g_ands a) /\
  Forall (sym_ok h) (g_symbols a) /\ cmt_ok (g_comment a).


Lemma parse_aig_lfin maxc a :
  aig_ok maxc a -> lfin (parse_aig fuel maxc) (write_aig a) (Some (g_header a), aig_items a, FOk).
Proof.
  destruct a as [h ins lats outs bad cons jus fair ands syms cm].
  unfold aig_ok, counts_ok. cbn [g_header g_inputs g_latches g_outputs g_bad g_constraints g_justice g_fairness g_ands g_symbols g_comment].
  intros ((Hc1 & Hc64 & HM & Hsum & El & Eo & Ea & Eb & Ec & Ej & Ef & Ho64 & Hb64 & Hcc64 & Hj64 & Hf64) & Ei & Hlats & Hmid & Hands & Hsyms & Hcm).
  pose proof (max_lit_le maxc (a_max_var h) Hc1 HM) as HML.
  unfold parse_aig, write_aig, aig_items, ocode2, ocode1. cbn [g_header g_inputs g_latches g_outputs g_bad g_constraints g_justice g_fairness g_ands g_symbols g_comment].
  assert (Hh : h = mk_header (a_max_var h) (a_inputs h) (nlen lats) (nlen outs) (nlen ands) (nlen bad) (nlen cons) (nlen jus) (nlen fair)).
  { destruct h. cbn in *. unfold mk_header. congruence. }
  eapply lfin_pbnd.
  { unfold magic_binary. apply (header_hit 97 105 103 maxc); try lia. }
  rewrite <- Hh. cbn [finish_parse].
  intros c v s Hat Hle Hf Hs.
  rewrite El, Ea in Hsum.
  destruct (ocode_used h lats ands maxc Hc64 HM Hc1 Hsum) as (Hc1lt & Hc1l & Hc2a).
  set (c1 := ((a_inputs h + 1) mod W64 * 2) mod W64) in *.
  assert (Hch1 := olatches_chain maxc (a_max_var h) HML Hc64 lats c1 Hlats Hc1lt).
  assert (Hpre1 : lats <> [] -> 2 <= c1 /\ c1 + 2 * nlen lats <= 2 * a_max_var h + 2).
  { intros Hne. rewrite (Hc1l Hne). lia. }
  specialize (Hch1 Hpre1).
  destruct (oands_chain maxc (a_max_var h) HML Hc64 ands ((c1 + 2 * nlen lats) mod W64) ((a_inputs h + 1) * 2 + 2 * nlen lats) Hands)
    as (st2 & Hch2).
  { intros Hne. split; [exact (Hc2a Hne)|lia]. }
  assert (Hbody : lfin
    (sect (sloop fuel (aig_latch fuel maxc (a_max_var h * 2 + 1)) (a_latches h) c1 []) (fun code =>
     middle_sections fuel maxc (a_max_var h * 2 + 1) h code (fun code0 =>
     sect (sloop fuel (aig_and maxc) (a_ands h) code0 []) (fun _ =>
     sect (symbols_loop fuel fuel h []) (fun _ => comment_section fuel h)))))
    (w_olatches c1 lats ++
     w_middle {| g_header := h; g_inputs := ins; g_latches := lats; g_outputs := outs; g_bad := bad; g_constraints := cons;
                 g_justice := jus; g_fairness := fair; g_ands := ands; g_symbols := syms; g_comment := cm |} ++
     w_oands ((c1 + 2 * nlen lats) mod W64) ands ++ flat_map w_symbol syms ++ cmt_text cm)
    (List.map olatch_item lats ++
     middle_items {| g_header := h; g_inputs := ins; g_latches := lats; g_outputs := outs; g_bad := bad; g_constraints := cons;
                 g_justice := jus; g_fairness := fair; g_ands := ands; g_symbols := syms; g_comment := cm |} ++
     List.map oand_item ands ++ List.map sym_item syms ++ cmt_items cm, FOk)).
  { rewrite El, Ea.
    eapply sect_lfin.
    { replace (nlen lats) with (nlen (List.map olatch_item lats)) by (unfold nlen; rewrite map_length; reflexivity).
      apply sloop_hit. exact Hch1. }
    apply (middle_lfin maxc (a_max_var h) HML Hc64 h ((c1 + 2 * nlen lats) mod W64)); try assumption.
    eapply sect_lfin.
    { replace (nlen ands) with (nlen (List.map oand_item ands)) by (unfold nlen; rewrite map_length; reflexivity).
      apply sloop_hit. exact Hch2. }
    apply trailer_hit; assumption. }
  destruct (Hbody c v s Hat Hle Hf Hs) as (s' & v' & R).
  exists s', v'. eapply runs_pbnd; [exact R|]. apply runs_pret.
Qed.

End ARt.

(* ------------------------------------------------------------------ *)
(* the value Parser::parse builds from the items                       *)

Lemma sel_app {A} (f : item -> option A) l1 l2 : sel f (l1 ++ l2) = sel f l1 ++ sel f l2.
Proof. unfold sel. apply flat_map_app. Qed.

Lemma sel_map_some {A X} (f : item -> option A) (g : X -> item) (h : X -> A) l :
  (forall x, f (g x) = Some (h x)) -> sel f (List.map g l) = List.map h l.
Proof.
  intros H. induction l as [|x l IH]; [reflexivity|]. cbn [List.map]. unfold sel in *. cbn [flat_map]. rewrite H, IH. reflexivity.
Qed.

Lemma sel_map_none {A X} (f : item -> option A) (g : X -> item) l :
  (forall x, f (g x) = None) -> sel f (List.map g l) = [].
Proof.
  intros H. induction l as [|x l IH]; [reflexivity|]. cbn [List.map]. unfold sel in *. cbn [flat_map]. rewrite H, IH. reflexivity.
Qed.

Lemma sel_map_id {A} (f : item -> option A) (g : A -> item) l :
  (forall x, f (g x) = Some x) -> sel f (List.map g l) = l.
Proof. intros H. rewrite (sel_map_some f g (fun x => x) l H). apply map_id. Qed.

Lemma sel_cmt_none {A} (f : item -> option A) cm : (forall c, f (IComment c) = None) -> sel f (cmt_items cm) = [].
Proof. intros H. destruct cm as [c|]; [|reflexivity]. unfold sel. cbn [cmt_items flat_map]. rewrite H. reflexivity. Qed.

Lemma deal_concat (js : list (list N)) : deal (List.map (fun j => nlen j) js) (concat js) = js.
Proof.
  induction js as [|j js IH]; [reflexivity|]. cbn [List.map concat deal].
  unfold nfirstn, nskipn, nlen. rewrite Nat2N.id.
  rewrite (firstn_app_exact j (concat js) (length j) eq_refl), (skipn_app_exact j (concat js) (length j) eq_refl).
  unfold nlen in IH. rewrite IH. reflexivity.
Qed.

Lemma sel_latches_aag M lats :
  Forall (latch_aag_ok M) lats ->
  sel (fun i => match i with ILatch s n r => Some (Some s, n, r) | IOLatch n r => Some (None, n, r) | _ => None end)
      (List.map latch_item lats) = lats.
Proof.
  induction 1 as [|[[s n] i] lats Hx _ IH]; [reflexivity|]. cbn [latch_aag_ok] in Hx. destruct s as [st|]; [|contradiction].
  cbn [List.map latch_item unopt]. unfold sel in *. cbn [flat_map]. rewrite IH. reflexivity.
Qed.

Lemma sel_ands_aag M ands :
  Forall (and_aag_ok M) ands ->
  sel (fun i => match i with IAnd o a b => Some (Some o, a, b) | IOAnd a b => Some (None, a, b) | _ => None end)
      (List.map and_item ands) = ands.
Proof.
  induction 1 as [|[[o x] y] ands Hx _ IH]; [reflexivity|]. cbn [and_aag_ok] in Hx. destruct o as [ov|]; [|contradiction].
  cbn [List.map and_item unopt]. unfold sel in *. cbn [flat_map]. rewrite IH. reflexivity.
Qed.

Lemma sel_syms syms :
  sel (fun i => match i with ISymbol k x n => Some (k, x, n) | _ => None end) (List.map sym_item syms) = syms.
Proof. apply sel_map_id. intros [[k i] n]. reflexivity. Qed.

Ltac none_for g := rewrite (sel_map_none _ g) by (first [intros [[? ?] ?]; reflexivity | intros ?; reflexivity]).
Ltac id_for g := rewrite (sel_map_id _ g) by reflexivity.
Ltac sel_all :=
  rewrite !sel_app;
  try none_for IInput; try none_for latch_item; try none_for IOutput; try none_for IBad; try none_for IConstraint;
  try none_for (fun j : list N => IJusticeSize (nlen j)); try none_for IJustice; try none_for IFairness;
  try none_for and_item; try none_for sym_item; try (rewrite sel_cmt_none by (intros ?; reflexivity));
  try id_for IInput; try id_for IOutput; try id_for IBad; try id_for IConstraint; try id_for IJustice; try id_for IFairness;
  try (rewrite (sel_map_some _ (fun j : list N => IJusticeSize (nlen j)) (fun j => nlen j)) by reflexivity);
  try rewrite sel_syms.

Lemma aig_of_aag_items maxc a : aag_ok maxc a -> aig_of_items (g_header a) (aag_items a) = a.
Proof.
  destruct a as [h ins lats outs bad cons jus fair ands syms cm].
  unfold aag_ok. cbn [g_header g_inputs g_latches g_outputs g_bad g_constraints g_justice g_fairness g_ands g_symbols g_comment].
  intros (_ & _ & _ & Hlats & _ & Hands & _ & _).
  unfold aig_of_items, aag_items, middle_items.
  cbn [g_header g_inputs g_latches g_outputs g_bad g_constraints g_justice g_fairness g_ands g_symbols g_comment].
  f_equal; try (sel_all; try rewrite (sel_latches_aag _ lats Hlats); try rewrite (sel_ands_aag _ ands Hands);
    cbn [app]; rewrite ?app_nil_r; reflexivity).
  - etransitivity; [|apply (deal_concat jus)]. f_equal; sel_all; cbn [app]; rewrite ?app_nil_r; reflexivity.
  - sel_all. cbn [app]. destruct cm as [c|]; reflexivity.
Qed.

(* ------------------------------------------------------------------ *)
(* C03 for ascii AIGER at the level of the model                        *)

Lemma view_init_at (S : bytes) : at_ S 0 (view_init S None).
Proof. repeat split; unfold WFV; cbn; lia. Qed.

(* the simple run of the whole parser on what ascii::Writer::write_aig wrote for a value of the format's
   domain, delivered by a source that ends cleanly, returns the header, exactly the items of the value, and a
   clean end *)
Theorem aag_roundtrip (fuel : nat) (maxc : N) (a : aig) :
  aag_ok maxc a ->
  Forall (fun b => b < 256) (write_aag a) ->
  (length (write_aag a) < fuel)%nat ->
  exists s' v', srun (parse_aag fuel maxc lrs_init) (view_init (write_aag a) None)
                = ADone ((Some (g_header a), aag_items a, FOk), s') v'.
Proof.
  intros Hok Hb Hf.
  destruct (parse_aag_lfin fuel (write_aag a) Hb Hf maxc a Hok 0 (view_init (write_aag a) None) lrs_init
              (view_init_at _) ltac:(cbn; lia) eq_refl eq_refl) as (s' & v' & R).
  exists s', v'. exact R.
Qed.

(* Parser::parse (the whole-file API) gives the value back *)
Theorem aag_roundtrip_whole (fuel : nat) (maxc : N) (a : aig) :
  aag_ok maxc a ->
  Forall (fun b => b < 256) (write_aag a) ->
  (length (write_aag a) < fuel)%nat ->
  exists r s' v', srun (parse_aag fuel maxc lrs_init) (view_init (write_aag a) None) = ADone (r, s') v' /\
                  whole_file r = Ok a.
Proof.
  intros Hok Hb Hf. destruct (aag_roundtrip fuel maxc a Hok Hb Hf) as (s' & v' & R).
  eexists. exists s', v'. split; [exact R|]. cbn [whole_file]. rewrite (aig_of_aag_items maxc a Hok). reflexivity.
Qed.

(* ------------------------------------------------------------------ *)
(* C03 for binary AIGER at the level of the model                       *)

Lemma sel_latches_aig M lats :
  Forall (olatch_ok M) lats ->
  sel (fun i => match i with ILatch s n r => Some (Some s, n, r) | IOLatch n r => Some (None, n, r) | _ => None end)
      (List.map olatch_item lats) = lats.
Proof.
  induction 1 as [|[[s n] i] lats Hx _ IH]; [reflexivity|]. cbn [olatch_ok] in Hx. destruct Hx as [-> _].
  cbn [List.map olatch_item]. unfold sel in *. cbn [flat_map]. rewrite IH. reflexivity.
Qed.

Lemma sel_ands_aig : forall ands code,
  oands_ok code ands ->
  sel (fun i => match i with IAnd o a b => Some (Some o, a, b) | IOAnd a b => Some (None, a, b) | _ => None end)
      (List.map oand_item ands) = ands.
Proof.
  induction ands as [|[[o x] y] ands IH]; intros code Hok; [reflexivity|]. destruct Hok as [(-> & _) Hok'].
  cbn [List.map oand_item]. unfold sel in *. cbn [flat_map]. rewrite (IH _ Hok'). reflexivity.
Qed.

Ltac sel_all_b :=
  rewrite !sel_app;
  try none_for olatch_item; try none_for IOutput; try none_for IBad; try none_for IConstraint;
  try none_for (fun j : list N => IJusticeSize (nlen j)); try none_for IJustice; try none_for IFairness;
  try none_for oand_item; try none_for sym_item; try (rewrite sel_cmt_none by (intros ?; reflexivity));
  try id_for IOutput; try id_for IBad; try id_for IConstraint; try id_for IJustice; try id_for IFairness;
  try (rewrite (sel_map_some _ (fun j : list N => IJusticeSize (nlen j)) (fun j => nlen j)) by reflexivity);
  try rewrite sel_syms.

Lemma aig_of_aig_items maxc a : aig_ok maxc a -> aig_of_items (g_header a) (aig_items a) = a.
Proof.
  destruct a as [h ins lats outs bad cons jus fair ands syms cm].
  unfold aig_ok. cbn [g_header g_inputs g_latches g_outputs g_bad g_constraints g_justice g_fairness g_ands g_symbols g_comment].
  intros (_ & -> & Hlats & _ & Hands & _ & _).
  unfold aig_of_items, aig_items, middle_items.
  cbn [g_header g_inputs g_latches g_outputs g_bad g_constraints g_justice g_fairness g_ands g_symbols g_comment].
  f_equal; try (sel_all_b; try rewrite (sel_latches_aig _ lats Hlats); try rewrite (sel_ands_aig ands _ Hands);
    cbn [app]; rewrite ?app_nil_r; reflexivity).
  - etransitivity; [|apply (deal_concat jus)]. f_equal; sel_all_b; cbn [app]; rewrite ?app_nil_r; reflexivity.
  - sel_all_b. cbn [app]. destruct cm as [c|]; reflexivity.
Qed.

(* the simple run of the whole binary parser on what binary::Writer::write_ordered_aig wrote for a value of
   the format's domain returns the header, exactly the items of the value, and a clean end *)
Theorem aig_roundtrip (fuel : nat) (maxc : N) (a : aig) :
  aig_ok maxc a ->
  Forall (fun b => b < 256) (write_aig a) ->
  (length (write_aig a) < fuel)%nat ->
  exists s' v', srun (parse_aig fuel maxc lrs_init) (view_init (write_aig a) None)
                = ADone ((Some (g_header a), aig_items a, FOk), s') v'.
Proof.
  intros Hok Hb Hf.
  destruct (parse_aig_lfin fuel (write_aig a) Hb Hf maxc a Hok 0 (view_init (write_aig a) None) lrs_init
              (view_init_at _) ltac:(cbn; lia) eq_refl eq_refl) as (s' & v' & R).
  exists s', v'. exact R.
Qed.

Theorem aig_roundtrip_whole (fuel : nat) (maxc : N) (a : aig) :
  aig_ok maxc a ->
  Forall (fun b => b < 256) (write_aig a) ->
  (length (write_aig a) < fuel)%nat ->
  exists r s' v', srun (parse_aig fuel maxc lrs_init) (view_init (write_aig a) None) = ADone (r, s') v' /\
                  whole_file r = Ok a.
Proof.
  intros Hok Hb Hf. destruct (aig_roundtrip fuel maxc a Hok Hb Hf) as (s' & v' & R).
  eexists. exists s', v'. split; [exact R|]. cbn [whole_file]. rewrite (aig_of_aig_items maxc a Hok). reflexivity.
Qed.

(* in the domain the writer's assertion holds: write_aig_checked is write_aig *)
Lemma oands_ok_check : forall gs code st k,
  oands_ok code gs -> (gs <> [] -> st = code /\ code + 2 * nlen gs <= W64) -> oands_check st gs k = k.
Proof.
  induction gs as [|[[o x] y] gs IH]; intros code st k Hok Hst; [reflexivity|]. destruct Hok as [(_ & Hyx & Hxc & _) Hok'].
  destruct (Hst ltac:(discriminate)) as [-> Hb]. rewrite nlen_cons in Hb.
  cbn [oands_check]. assert ((x <? y) = false) as -> by (apply N.ltb_ge; exact Hyx).
  assert ((x <=? code) = true) as -> by (apply N.leb_le; exact Hxc).
  apply (IH (code + 2)); [exact Hok'|]. intros Hne.
  assert (1 <= nlen gs) by (destruct gs; [congruence|rewrite nlen_cons; lia]).
  split; [apply N.mod_small; lia|lia].
Qed.

Lemma write_aig_checked_ok maxc a : aig_ok maxc a -> write_aig_checked a = WrOk (write_aig a).
Proof.
  intros ((Hc1 & Hc64 & HM & Hsum & El & _ & Ea & _) & _ & _ & _ & Hands & _). unfold write_aig_checked, ocode2, ocode1.
  rewrite El, Ea in Hsum.
  destruct (ocode_used (g_header a) (g_latches a) (g_ands a) maxc Hc64 HM Hc1 Hsum) as (_ & _ & Hc2a).
  apply (oands_ok_check _ _ _ _ Hands). intros Hne. split; [exact (Hc2a Hne)|].
  rewrite W64_pow. lia.
Qed.

(* ------------------------------------------------------------------ *)
(* what the writers write are bytes                                    *)
Definition BOK (l : bytes) : Prop := Forall (fun b => b < 256) l.

Lemma BOK_app a b : BOK a -> BOK b -> BOK (a ++ b).
Proof. intros Ha Hb. apply Forall_app. split; assumption. Qed.
Lemma BOK_cons x l : x < 256 -> BOK l -> BOK (x :: l).
Proof. intros Hx Hl. constructor; assumption. Qed.
Lemma BOK_nil : BOK []. Proof. constructor. Qed.
Lemma BOK_flat_map {X : Type} (f : X -> bytes) l : (forall x, In x l -> BOK (f x)) -> BOK (flat_map f l).
Proof. intros H. apply Forall_flat_map. apply Forall_forall. exact H. Qed.

Lemma BOK_dec n : BOK (decimal_N n).
Proof.
  pose proof (decimal_N_digits n) as H. unfold BOK. induction (decimal_N n) as [|d r IH]; [constructor|].
  cbn [forallb] in H. apply andb_prop in H as [Hd Hr]. constructor; [|apply IH; exact Hr].
  unfold is_dig in Hd. apply andb_prop in Hd as [_ H2]. apply N.leb_le in H2. lia.
Qed.

Lemma in_rng_hi lo hi b : in_rng lo hi b = true -> b <= hi.
Proof. unfold in_rng. intros H. apply andb_prop in H as [_ H]. apply N.leb_le. exact H. Qed.
Lemma is_cont_hi c : is_cont c = true -> c < 256.
Proof. intros H. apply in_rng_hi in H. lia. Qed.
Lemma second3_hi b c : second3 b c = true -> c < 256.
Proof. unfold second3. destruct (b =? 224); [|destruct (b =? 237)]; intros H; apply in_rng_hi in H; lia. Qed.
Lemma second4_hi b c : second4 b c = true -> c < 256.
Proof. unfold second4. destruct (b =? 240); [|destruct (b =? 244)]; intros H; apply in_rng_hi in H; lia. Qed.

Lemma utf8_bytes_gen : forall n l pos, (length l <= n)%nat -> utf8_err l pos = None -> BOK l.
Proof.
  induction n as [|n IH]; intros l pos Hlen H.
  - destruct l; [constructor|cbn [length] in Hlen; lia].
  - destruct l as [|b r]; [constructor|]. cbn [length] in Hlen. cbn [utf8_err] in H.
    destruct (b <? 128) eqn:E1.
    { apply N.ltb_lt in E1. apply BOK_cons; [lia|]. apply (IH r (pos + 1)); [lia|exact H]. }
    destruct (in_rng 194 223 b) eqn:E2.
    { apply in_rng_hi in E2. destruct r as [|c1 r1]; [discriminate|]. destruct (is_cont c1) eqn:C1; [|discriminate].
      cbn [length] in Hlen. apply BOK_cons; [lia|]. apply BOK_cons; [apply is_cont_hi; exact C1|]. apply (IH r1 (pos + 2)); [lia|exact H]. }
    destruct (in_rng 224 239 b) eqn:E3.
    { apply in_rng_hi in E3. destruct r as [|c1 [|c2 r2]]; try discriminate.
      destruct (second3 b c1 && is_cont c2) eqn:C; [|discriminate]. apply andb_prop in C as [C1 C2].
      cbn [length] in Hlen. apply BOK_cons; [lia|]. apply BOK_cons; [exact (second3_hi b c1 C1)|]. apply BOK_cons; [exact (is_cont_hi c2 C2)|].
      apply (IH r2 (pos + 3)); [lia|exact H]. }
    destruct (in_rng 240 244 b) eqn:E4; [|discriminate].
    apply in_rng_hi in E4. destruct r as [|c1 [|c2 [|c3 r3]]]; try discriminate.
    destruct (second4 b c1 && is_cont c2 && is_cont c3) eqn:C; [|discriminate].
    apply andb_prop in C as [C C3]. apply andb_prop in C as [C1 C2].
    cbn [length] in Hlen. apply BOK_cons; [lia|]. apply BOK_cons; [exact (second4_hi b c1 C1)|]. apply BOK_cons; [exact (is_cont_hi c2 C2)|].
    apply BOK_cons; [exact (is_cont_hi c3 C3)|]. apply (IH r3 (pos + 4)); [lia|exact H].
Qed.

Lemma BOK_utf8 l : utf8_ok l -> BOK l.
Proof. intros H. exact (utf8_bytes_gen (length l) l 0 (le_n _) H). Qed.

Lemma BOK_varint n : BOK (varint_encode n).
Proof.
  unfold varint_encode. generalize 10%nat. intros f. revert n. induction f as [|f IH]; intros n; cbn [enc_groups]; [constructor|].
  destruct (n <? 128) eqn:E; [apply N.ltb_lt in E; apply BOK_cons; [lia|constructor]|].
  apply BOK_cons; [|apply IH]. pose proof (N.mod_lt n 128). lia.
Qed.

Lemma BOK_w_lit l : BOK (w_lit l).
Proof. unfold w_lit. apply BOK_app; [apply BOK_dec|apply BOK_cons; [lia|constructor]]. Qed.
Lemma BOK_w_init st i : BOK (w_init st i).
Proof.
  destruct i as [[|]|]; cbn [w_init]; repeat (apply BOK_cons; [lia|]); try apply BOK_nil.
  apply BOK_app; [apply BOK_dec|apply BOK_cons; [lia|constructor]].
Qed.
Lemma BOK_w_latch st n i : BOK (w_latch st n i).
Proof. unfold w_latch. apply BOK_app; [apply BOK_dec|]. apply BOK_cons; [lia|]. apply BOK_app; [apply BOK_dec|apply BOK_w_init]. Qed.
Lemma BOK_w_and o x y : BOK (w_and o x y).
Proof.
  unfold w_and. apply BOK_app; [apply BOK_dec|]. apply BOK_cons; [lia|]. apply BOK_app; [apply BOK_dec|]. apply BOK_cons; [lia|].
  apply BOK_app; [apply BOK_dec|apply BOK_cons; [lia|constructor]].
Qed.
Lemma BOK_w_header x y z m i l o a b c j f : x < 256 -> y < 256 -> z < 256 -> BOK (w_header [x; y; z] m i l o a b c j f).
Proof.
  intros Hx Hy Hz. unfold w_header. apply BOK_app; [repeat (apply BOK_cons; [assumption|]); constructor|].
  apply BOK_app; [|apply BOK_cons; [lia|constructor]]. unfold w_fields. apply BOK_flat_map. intros n _. apply BOK_cons; [lia|apply BOK_dec].
Qed.
Lemma BOK_w_middle a : BOK (w_middle a).
Proof.
  unfold w_middle. repeat apply BOK_app; apply BOK_flat_map; intros; try apply BOK_w_lit.
  apply BOK_flat_map. intros. apply BOK_w_lit.
Qed.
Lemma sym_letter_lt k : sym_letter k < 256. Proof. destruct k; cbn; lia. Qed.
Lemma BOK_w_trailer h a : Forall (sym_ok h) (g_symbols a) -> cmt_ok (g_comment a) -> BOK (w_trailer a).
Proof.
  intros Hs Hc. unfold w_trailer. apply BOK_app.
  - apply BOK_flat_map. intros [[k i] name] Hin. rewrite Forall_forall in Hs. specialize (Hs _ Hin). cbn [sym_ok] in Hs.
    destruct Hs as (_ & _ & _ & Hu). cbn [w_symbol]. apply BOK_cons; [apply sym_letter_lt|]. apply BOK_app; [apply BOK_dec|].
    apply BOK_cons; [lia|]. apply BOK_app; [apply BOK_utf8; exact Hu|apply BOK_cons; [lia|constructor]].
  - destruct (g_comment a) as [c|]; [|constructor]. cbn [cmt_ok] in Hc. unfold w_comment.
    apply BOK_cons; [lia|]. apply BOK_cons; [lia|]. apply BOK_app; [apply BOK_utf8; exact Hc|apply BOK_cons; [lia|constructor]].
Qed.

Lemma BOK_write_aag maxc a : aag_ok maxc a -> BOK (write_aag a).
Proof.
  intros (_ & _ & _ & _ & _ & _ & Hs & Hc). unfold write_aag.
  apply BOK_app; [unfold magic_ascii; apply BOK_w_header; lia|].
  apply BOK_app; [apply BOK_flat_map; intros; apply BOK_w_lit|].
  apply BOK_app; [apply BOK_flat_map; intros [[s n] i] _; apply BOK_w_latch|].
  apply BOK_app; [apply BOK_w_middle|].
  apply BOK_app; [apply BOK_flat_map; intros [[o x] y] _; apply BOK_w_and|].
  exact (BOK_w_trailer _ a Hs Hc).
Qed.

Lemma BOK_w_olatches : forall ls code, BOK (w_olatches code ls).
Proof.
  induction ls as [|[[s n] i] ls IH]; intros code; cbn [w_olatches]; [constructor|].
  apply BOK_app; [apply BOK_app; [apply BOK_dec|apply BOK_w_init]|apply IH].
Qed.
Lemma BOK_w_oands : forall gs code, BOK (w_oands code gs).
Proof.
  induction gs as [|[[o x] y] gs IH]; intros code; cbn [w_oands]; [constructor|].
  apply BOK_app; [unfold w_oand; apply BOK_app; apply BOK_varint|apply IH].
Qed.

Lemma BOK_write_aig maxc a : aig_ok maxc a -> BOK (write_aig a).
Proof.
  intros (_ & _ & _ & _ & _ & Hs & Hc). unfold write_aig.
  apply BOK_app; [unfold magic_binary; apply BOK_w_header; lia|].
  apply BOK_app; [apply BOK_w_olatches|].
  apply BOK_app; [apply BOK_w_middle|].
  apply BOK_app; [apply BOK_w_oands|].
  exact (BOK_w_trailer _ a Hs Hc).
Qed.

(* ------------------------------------------------------------------ *)
(* the final statements: only the domain and the fuel                  *)
Theorem aag_roundtrip_final (fuel : nat) (maxc : N) (a : aig) :
  aag_ok maxc a -> (length (write_aag a) < fuel)%nat ->
  exists s' v',
    srun (parse_aag fuel maxc lrs_init) (view_init (write_aag a) None) = ADone ((Some (g_header a), aag_items a, FOk), s') v' /\
    whole_file (Some (g_header a), aag_items a, FOk) = Ok a.
Proof.
  intros Hok Hf. destruct (aag_roundtrip fuel maxc a Hok (BOK_write_aag maxc a Hok) Hf) as (s' & v' & R).
  exists s', v'. split; [exact R|]. cbn [whole_file]. rewrite (aig_of_aag_items maxc a Hok). reflexivity.
Qed.

Theorem aig_roundtrip_final (fuel : nat) (maxc : N) (a : aig) :
  aig_ok maxc a -> (length (write_aig a) < fuel)%nat ->
  exists s' v',
    srun (parse_aig fuel maxc lrs_init) (view_init (write_aig a) None) = ADone ((Some (g_header a), aig_items a, FOk), s') v' /\
    whole_file (Some (g_header a), aig_items a, FOk) = Ok a /\
    write_aig_checked a = WrOk (write_aig a).
Proof.
  intros Hok Hf. destruct (aig_roundtrip fuel maxc a Hok (BOK_write_aig maxc a Hok) Hf) as (s' & v' & R).
  exists s', v'. split; [exact R|]. split; [|exact (write_aig_checked_ok maxc a Hok)].
  cbn [whole_file]. rewrite (aig_of_aig_items maxc a Hok). reflexivity.
Qed.
Print Assumptions aag_roundtrip_final.
Print Assumptions aig_roundtrip_final.

Print Assumptions aag_roundtrip_whole.
Print Assumptions aig_roundtrip_whole.

(* the premises are satisfiable: a small circuit with every kind of entry (an uninitialised latch, a reset-1
   latch, justice properties of sizes 0 and 2, all kinds of symbols, a two-line comment), both formats *)
Ltac ex_conj :=
  repeat (cbv beta iota zeta delta [latch_aag_ok and_aag_ok sym_ok olatch_ok oands_ok def_ok lit_ok kind_count cmt_ok middle_ok counts_ok];
          match goal with
          | |- _ /\ _ => split
          | |- Forall _ _ => constructor
          | |- True => exact I
          end).
Ltac ex_leaf := first [ reflexivity | discriminate | (vm_compute; reflexivity) | (vm_compute; discriminate) ].

Definition ex_aag : aig :=
  {| g_header := mk_header 7 2 2 1 2 1 1 2 1;
     g_inputs := [2; 4];
     g_latches := [(Some 6, 13, None); (Some 8, 1, Some true)];
     g_outputs := [15]; g_bad := [12]; g_constraints := [3];
     g_justice := [[]; [5; 10]]; g_fairness := [0];
     g_ands := [(Some 10, 2, 7); (Some 12, 11, 4)];
     g_symbols := [(SInput, 1, [120]); (SLatch, 0, [195; 188; 32; 49]); (SOutput, 0, []); (SBad, 0, [98]);
                   (SConstraint, 0, [99; 48]); (SJustice, 1, [106]); (SFairness, 0, [102])];
     g_comment := Some [104; 105; 10; 195; 164] |}.

Example aag_roundtrip_example :
  aag_ok 255 ex_aag /\
  match srun (parse_aag 300 255 lrs_init) (view_init (write_aag ex_aag) None) with
  | ADone (r, _) _ => whole_file r = Ok ex_aag
  | _ => False
  end.
Proof.
  split.
  - unfold aag_ok, ex_aag, mk_header.
    cbn [g_header g_inputs g_latches g_outputs g_bad g_constraints g_justice g_fairness g_ands g_symbols g_comment
         a_max_var a_inputs a_latches a_outputs a_ands a_bad a_constraints a_justice a_fairness].
    ex_conj; ex_leaf.
  - vm_compute. reflexivity.
Qed.

Definition ex_aig : aig :=
  {| g_header := mk_header 7 2 2 1 2 1 1 2 1;
     g_inputs := [];
     g_latches := [(None, 13, None); (None, 1, Some true)];
     g_outputs := [15]; g_bad := [12]; g_constraints := [3];
     g_justice := [[]; [5; 10]]; g_fairness := [0];
     g_ands := [(None, 7, 2); (None, 11, 4)];
     g_symbols := [(SInput, 1, [120]); (SConstraint, 0, [99; 48])];
     g_comment := Some [] |}.

Example aig_roundtrip_example :
  aig_ok 255 ex_aig /\
  match srun (parse_aig 300 255 lrs_init) (view_init (write_aig ex_aig) None) with
  | ADone (r, _) _ => whole_file r = Ok ex_aig
  | _ => False
  end.
Proof.
  split.
  - unfold aig_ok, ex_aig, mk_header.
    cbn [g_header g_inputs g_latches g_outputs g_bad g_constraints g_justice g_fairness g_ands g_symbols g_comment
         a_max_var a_inputs a_latches a_outputs a_ands a_bad a_constraints a_justice a_fairness].
    ex_conj; ex_leaf.
  - vm_compute. reflexivity.
Qed.

(* at the upper end of the domain, I + L + A = M = 2^63 - 1 (literal type usize / u64): the last `code + 2` wraps to 0
   in the writer (D14) and in the parser (D13) alike, behind the last definition *)
Definition ex_aig_max : aig :=
  {| g_header := mk_header 9223372036854775807 9223372036854775805 1 0 1 0 0 0 0;
     g_inputs := []; g_latches := [(None, 0, None)]; g_outputs := []; g_bad := []; g_constraints := [];
     g_justice := []; g_fairness := []; g_ands := [(None, 18446744073709551614, 18446744073709551613)];
     g_symbols := []; g_comment := None |}.

Example aig_roundtrip_example_max :
  aig_ok 18446744073709551615 ex_aig_max /\
  match srun (parse_aig 300 18446744073709551615 lrs_init) (view_init (write_aig ex_aig_max) None) with
  | ADone (r, _) _ => whole_file r = Ok ex_aig_max
  | _ => False
  end.
Proof.
  split.
  - unfold aig_ok, ex_aig_max, mk_header.
    cbn [g_header g_inputs g_latches g_outputs g_bad g_constraints g_justice g_fairness g_ands g_symbols g_comment
         a_max_var a_inputs a_latches a_outputs a_ands a_bad a_constraints a_justice a_fairness].
    ex_conj; ex_leaf.
  - vm_compute. reflexivity.
Qed.
