(* C06 — Accepted input means what it says: exact numbers, enforced limits.
   Pinned statements at the level the model reaches today: every number the scanners return is the value of the
   decimal numeral in the text or the scan reports "does not fit" (None) — never a wrapped or truncated value —
   for every admissible run of the accelerated scanners; 7-bit groups decode to the encoded number; the DIMACS limit
   of every literal type fits the type, so the cast after the range check is lossless.  Enforcement of declared limits
   by the whole parsers is validated by the pa correspondence stream (model = code) and the limits oracle (partial). *)
From Flussab Require Import Base Consts ConstsTie Reader Writer Prog Text TextSpec ProgProofs ScanProofs DigitsProofs Varint.

(* unsigned: (Some value iff the value of the digit run fits the type, offset just past the run) *)
Theorem C06_unsigned_exact : forall fuel t off v r,
  WFV v -> BytesOK v ->
  (length (digit_prefix (rest_at v off)) < fuel)%nat ->
  aruns (ascii_digits_multi fuel t off) v r ->
  exists v', r = ADone (fst (unsigned_spec t (rest_at v off)), off + snd (unsigned_spec t (rest_at v off))) v' /\
             core v' = core_after v (vcur v + off + nlen (digit_prefix (rest_at v off)) + 1).
Proof. exact ascii_digits_multi_spec. Qed.
Print Assumptions C06_unsigned_exact.

Theorem C06_signed_exact : forall fuel t off v r,
  ity_signed t = true -> WFV v -> BytesOK v ->
  (length (digit_prefix (rest_at v off)) < fuel)%nat ->
  (length (digit_prefix (rest_at v (off + 1))) < fuel)%nat ->
  aruns (signed_ascii_digits_multi fuel t off) v r ->
  exists v', r = ADone (fst (signed_spec t (rest_at v off)), off + snd (signed_spec t (rest_at v off))) v' /\
             core v' = core_after v (vcur v + off + signed_look (rest_at v off)).
Proof. exact signed_ascii_digits_multi_spec. Qed.
Print Assumptions C06_signed_exact.

(* what the specification functions say: the unbounded decimal value, or None when it does not fit *)
Theorem C06_spec_is_the_decimal_value : forall t l,
  unsigned_spec t l = (if in_range t (Z.of_N (dec_val (digit_prefix l))) then Some (Z.of_N (dec_val (digit_prefix l))) else None,
                       nlen (digit_prefix l)).
Proof. reflexivity. Qed.
Print Assumptions C06_spec_is_the_decimal_value.

(* the literal-type limits fit the types they are cast to after the range check *)
Theorem C06_dimacs_limits_fit :
  (max_dimacs_i8 <= ity_max I8 /\ max_dimacs_i16 <= ity_max I16 /\ max_dimacs_i32 <= ity_max I32 /\
   max_dimacs_i64 <= ity_max I64 /\ max_dimacs_isize <= ity_max Isize)%Z /\
  (max_dimacs_i8 <= ity_max Isize /\ max_dimacs_i16 <= ity_max Isize /\ max_dimacs_i32 <= ity_max Isize /\
   max_dimacs_i64 <= ity_max Isize)%Z /\
  (0 < max_dimacs_i8 /\ 0 < max_dimacs_i16 /\ 0 < max_dimacs_i32 /\ 0 < max_dimacs_i64 /\ 0 < max_dimacs_isize)%Z.
Proof. exact max_dimacs_fit. Qed.
Print Assumptions C06_dimacs_limits_fit.

(* 7-bit groups *)
Theorem C06_varint_exact : forall n rest,
  n < 2 ^ 56 -> varint_decode (varint_encode n ++ rest) = Some (n, rest).
Proof. exact varint_roundtrip. Qed.
Print Assumptions C06_varint_exact.

(* non-vacuity: 2147483648 does not fit i32: None, not a wrapped value; it fits i64 *)
Example C06_example :
  fst (unsigned_spec I32 [50;49;52;55;52;56;51;54;52;56;32]) = None /\
  fst (unsigned_spec I64 [50;49;52;55;52;56;51;54;52;56;32]) = Some 2147483648%Z.
Proof. vm_compute. split; reflexivity. Qed.

(* ------------------------------------------------------------------ *)
(* Token level, every admissible run from every state satisfying the parsers' invariant K (Hoare.v, CnfSafe.v):
   a number token returns Ok z only if z is exactly the value of the decimal numeral at the cursor and fits the
   type; the count tokens and the literal loops return Ok only within the limit in force. *)
From Flussab Require Import Parsed Cnf CnfProofs Hoare CnfSafe.

Theorem C06_number_token_exact : forall fuel sg t lr v r,
  (sg = true -> ity_signed t = true) -> K fuel lr v -> aruns (number fuel sg t lr) v r ->
  exists a lr' v', r = ADone (a, lr') v' /\
    match a with
    | Res (Ok z) => (ity_min t <= z <= ity_max t)%Z /\ z = num_value sg (rest_at v 0)
    | _ => True
    end.
Proof. exact number_value. Qed.
Print Assumptions C06_number_token_exact.

Theorem C06_var_count_within_type_limit : forall fuel maxd lr v r,
  K fuel lr v -> aruns (var_count fuel maxd lr) v r ->
  exists a lr' v', r = ADone (a, lr') v' /\
    match a with
    | Res (Ok z) => (0 <= z <= maxd)%Z /\ z = Z.of_N (dec_val (digit_prefix (rest_at v 0)))
    | _ => True
    end.
Proof. exact var_count_value. Qed.
Print Assumptions C06_var_count_within_type_limit.

Theorem C06_group_within_limit : forall fuel limit lr v r,
  K fuel lr v -> aruns (clause_group fuel limit lr) v r ->
  exists a lr' v', r = ADone (a, lr') v' /\
    match a with
    | Res (Ok z) => (0 <= z <= limit)%Z /\ z = Z.of_N (dec_val (digit_prefix (rest_at v 1)))
    | _ => True
    end.
Proof. exact clause_group_value. Qed.
Print Assumptions C06_group_within_limit.

Theorem C06_clause_literals_within_limit : forall fuel limit lr v r,
  K fuel lr v -> aruns (clause_lits fuel limit lr) v r ->
  exists a lr' v', r = ADone (a, lr') v' /\
    match a with
    | Res (Ok ls) => Forall (fun z => (- limit <= z <= limit)%Z) ls
    | _ => True
    end.
Proof. exact clause_lits_within_limit. Qed.
Print Assumptions C06_clause_literals_within_limit.

Theorem C06_log_literals_within_limit : forall fuel maxd acc lr v r,
  K fuel lr v -> Forall (fun z => (- maxd <= z <= maxd)%Z) acc -> aruns (value_lits fuel fuel maxd acc lr) v r ->
  exists a lr' v', r = ADone (a, lr') v' /\
    match a with
    | Ok (ls, _) => Forall (fun z => (- maxd <= z <= maxd)%Z) ls
    | _ => True
    end.
Proof. exact value_lits_within_limit. Qed.
Print Assumptions C06_log_literals_within_limit.

(* ------------------------------------------------------------------ *)
(* End to end (CnfLimits.v), every admissible run of the whole DIMACS parsers and of the solver-log parser: the
   returned data respects every limit the input declares — for every item ever handed out, whatever the final
   outcome — and the clean end is reached only with exactly the declared number of clauses.  A declared 0 means
   "unspecified" (as in the code).  lits_within S limit ls: every literal is non-zero, |z| <= limit, and is the value of
   a numeral somewhere in the text; prefix_within: weight within u64 / group within the declared group count. *)
From Flussab Require Import CnfLimits.

Theorem C06_dimacs_declared_limits : forall fuel k maxd S fail h items fin lr' v',
  Forall (fun b => b < 256) S -> nlen S < 2 ^ 62 -> (length S < fuel)%nat ->
  aruns (parse_dimacs fuel k maxd false lrs_init) (view_init S fail) (ADone (Some (Some h), items, fin, lr') v') ->
  (0 <= h_vars h <= maxd)%Z /\ (0 <= h_clauses h <= USIZE_MAX)%Z /\
  match k with KCnf => h_extra h = 0%Z | KWcnf => (0 <= h_extra h <= 18446744073709551615)%Z | KGcnf => (0 <= h_extra h <= USIZE_MAX)%Z end /\
  (h_clauses h <> 0%Z -> (Z.of_nat (length items) <= h_clauses h)%Z /\ (fin = FOk -> Z.of_nat (length items) = h_clauses h)) /\
  Forall (fun it => prefix_within S k (if (h_extra h =? 0)%Z then USIZE_MAX else h_extra h) (fst it) /\
                    lits_within S (if (h_vars h =? 0)%Z then maxd else h_vars h) (snd it)) items.
Proof. exact parse_dimacs_limits_header. Qed.
Print Assumptions C06_dimacs_declared_limits.

(* no header, or a header the caller asked to ignore: only the literal type's own limit is enforced *)
Theorem C06_dimacs_type_limits_only : forall fuel k maxd ignore_header S fail ho items fin lr' v',
  Forall (fun b => b < 256) S -> nlen S < 2 ^ 62 -> (length S < fuel)%nat ->
  aruns (parse_dimacs fuel k maxd ignore_header lrs_init) (view_init S fail) (ADone (Some ho, items, fin, lr') v') ->
  ho = None \/ ignore_header = true ->
  Forall (fun it => prefix_within S k USIZE_MAX (fst it) /\ lits_within S maxd (snd it)) items.
Proof. exact parse_dimacs_limits_type_only. Qed.
Print Assumptions C06_dimacs_type_limits_only.

Theorem C06_log_limits : forall fuel maxd ignore_unknown S fail sat assignment lr' v',
  Forall (fun b => b < 256) S -> nlen S < 2 ^ 62 -> (length S < fuel)%nat ->
  aruns (parse_log fuel maxd ignore_unknown lrs_init) (view_init S fail) (ADone (Ok (sat, assignment), lr') v') ->
  lits_within S maxd assignment.
Proof. exact parse_log_limits. Qed.
Print Assumptions C06_log_limits.

Theorem C06_limit_vocabulary : forall S k glimit limit pre ls,
  (lits_within S limit ls <-> Forall (fun z => z <> 0%Z /\ (Z.abs z <= limit)%Z /\ num_at S true z) ls) /\
  (prefix_within S k glimit pre <->
   match k with
   | KCnf => pre = 0%Z
   | KWcnf => (0 <= pre <= 18446744073709551615)%Z /\ num_at S false pre
   | KGcnf => (0 <= pre <= glimit)%Z /\ num_at S false pre
   end).
Proof. intros. split; [reflexivity|]. destruct k; reflexivity. Qed.
Print Assumptions C06_limit_vocabulary.

(* ------------------------------------------------------------------ *)
(* AIGER and BTOR2, end to end, every admissible run (AigerLimits.v, Btor2Safe.v): an accepted AIGER file has
   M <= (MAX_CODE-1)/2, I+L+A <= M, section sizes equal to the header counts (AagShape / AigShape), every literal
   <= 2M+1, defining literals even and non-zero, binary gate inputs rhs0 <= lhs and rhs1 <= rhs0; every BTOR2 line ever
   handed out is in the format's domain (ids and counts exact decimal values within u64 and non-zero where required,
   positive widths, justice n followed by exactly n >= 1 ids, no leading zeros — line_ok). *)
From Flussab Require Import Aiger AigerProofs AigerSafe AigerLimits Btor2 Btor2Proofs Btor2Rt Btor2Safe.

Theorem C06_aag_limits : forall fuel maxc S fail ohd items lr' v',
  Forall (fun b => b < 256) S -> nlen S < 2 ^ 62 -> (length S < fuel)%nat -> 1 <= maxc ->
  aruns (parse_aag fuel maxc lrs_init) (view_init S fail) (ADone (ohd, items, FOk, lr') v') ->
  exists hd, ohd = Some hd /\
    a_max_var hd <= (maxc - 1) / 2 /\ a_inputs hd + a_latches hd + a_ands hd <= a_max_var hd /\
    AagShape hd items /\
    Forall (LitsLe (a_max_var hd * 2 + 1)) items /\ Forall DefsOk items.
Proof. exact parse_aag_limits. Qed.
Print Assumptions C06_aag_limits.

Theorem C06_aig_limits : forall fuel maxc S fail ohd items lr' v',
  Forall (fun b => b < 256) S -> nlen S < 2 ^ 62 -> (length S < fuel)%nat -> 1 <= maxc ->
  aruns (parse_aig fuel maxc lrs_init) (view_init S fail) (ADone (ohd, items, FOk, lr') v') ->
  exists hd, ohd = Some hd /\
    a_max_var hd <= (maxc - 1) / 2 /\ a_inputs hd + a_latches hd + a_ands hd <= a_max_var hd /\
    AigShape hd items /\
    Forall (LitsLe (a_max_var hd * 2 + 1)) items.
Proof. exact parse_aig_limits. Qed.
Print Assumptions C06_aig_limits.

Theorem C06_btor2_limits : forall fuel S fail items fin lr' v',
  Forall (fun b => b < 256) S -> nlen S < 2 ^ 62 -> (length S < fuel)%nat ->
  aruns (parse_btor2 fuel lrs_init) (view_init S fail) (ADone (items, fin, lr') v') ->
  Forall Btor2Rt.line_ok items.
Proof. exact parse_btor2_limits. Qed.
Print Assumptions C06_btor2_limits.

Theorem C06_btor2_uint_exact : forall fuel lr v r,
  KB fuel lr v -> aruns (uint fuel lr) v r ->
  exists a lr' v', r = ADone (a, lr') v' /\
    match a with
    | Res (Ok x) => UintVal (rest_at v 0) x
    | _ => True
    end.
Proof. exact uint_value. Qed.
Print Assumptions C06_btor2_uint_exact.


(* ------------------------------------------------------------------ *)
(* The AIGER streaming API with early section switches (AigerStream.v, AigerStreamProofs.v): a caller that takes at most
   n entries of every section and then calls the next section-switch method — whose loop
   `while self.xxx_left != 0 { self.next_xxx()?; }` reads, checks and drops the rest — gets, in every admissible run,
   the header and the final outcome (clean end, the same ESyntax l c, the same EIo e) of the exhaustive parse of the
   same view, and exactly the exhaustive parse's items with every section cut to its first n entries: the limits and
   exact values pinned above hold for what is skipped as well as for what is handed out. *)
From Flussab Require Import AigerStream AigerStreamProofs.

Theorem C06_take_sections_vocabulary : forall n l,
  take_sections n l =
    flat_map (fun t => firstn n (filter (fun x => Nat.eqb (sec_of x) t) l)) (seq 0 10)
    ++ filter (fun x => Nat.eqb (sec_of x) 10) l /\
  forall x, sec_of x = match x with
                       | IInput _ => 0 | ILatch _ _ _ | IOLatch _ _ => 1 | IOutput _ => 2 | IBad _ => 3
                       | IConstraint _ => 4 | IJusticeSize _ => 5 | IJustice _ => 6 | IFairness _ => 7
                       | IAnd _ _ _ | IOAnd _ _ => 8 | ISymbol _ _ _ => 9 | IComment _ => 10
                       end%nat.
Proof. intros. split; [reflexivity|]. intros x. destruct x; reflexivity. Qed.
Print Assumptions C06_take_sections_vocabulary.

Theorem C06_aag_take_agrees : forall fuel maxc n S fail r,
  Forall (fun b => b < 256) S -> nlen S < 2 ^ 62 -> (length S < fuel)%nat ->
  aruns (parse_aag_take fuel maxc n lrs_init) (view_init S fail) r ->
  exists ohd items fin lr' v',
    r = ADone (ohd, take_sections n items, fin, lr') v' /\
    aruns (parse_aag fuel maxc lrs_init) (view_init S fail) (ADone (ohd, items, fin, lr') v') /\
    forall r', aruns (parse_aag fuel maxc lrs_init) (view_init S fail) r' ->
               exists v'', r' = ADone (ohd, items, fin, lr') v''.
Proof. exact parse_aag_take_agrees. Qed.
Print Assumptions C06_aag_take_agrees.

Theorem C06_aig_take_agrees : forall fuel maxc n S fail r,
  Forall (fun b => b < 256) S -> nlen S < 2 ^ 62 -> (length S < fuel)%nat ->
  aruns (parse_aig_take fuel maxc n lrs_init) (view_init S fail) r ->
  exists ohd items fin lr' v',
    r = ADone (ohd, take_sections n items, fin, lr') v' /\
    aruns (parse_aig fuel maxc lrs_init) (view_init S fail) (ADone (ohd, items, fin, lr') v') /\
    forall r', aruns (parse_aig fuel maxc lrs_init) (view_init S fail) r' ->
               exists v'', r' = ADone (ohd, items, fin, lr') v''.
Proof. exact parse_aig_take_agrees. Qed.
Print Assumptions C06_aig_take_agrees.
