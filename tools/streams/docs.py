"""Document generators for the seven parsers: abstract values, renderings with layout
choices, expected canonical traces (same format as harness/src/s_pa.rs), mutations,
read schedules."""
import random

DIMACS_TYPES = {"i8": 127, "i16": 32767, "i32": 2 ** 31 - 1, "i64": 2 ** 63 - 1, "isize": 2 ** 63 - 1}
AIGER_TYPES = {"u8": 255, "u16": 65535, "u32": 2 ** 32 - 1, "u64": 2 ** 64 - 1, "usize": 2 ** 64 - 1}
U64 = 2 ** 64 - 1


def hexs(b):
    return bytes(b).hex() if b else "-"


def lits_str(ls):
    return "[" + ",".join(str(x) for x in ls) + "]"


# ------------------------------------------------------------------ schedules
def gen_schedule(rng, n):
    """returns (events, pre, chunk, ctor)"""
    mode = rng.choice(["oneshot", "bytes", "random", "random", "interrupt", "chunky"])
    if mode == "oneshot":
        evs = "-"
    elif mode == "bytes":
        evs = ",".join(["d1"] * (n + 1))
    elif mode == "interrupt":
        evs = ",".join(rng.choice(["i", "d1", "d2", "d5", "i", "d17"]) for _ in range(rng.randrange(1, 2 * n + 4)))
    elif mode == "chunky":
        evs = ",".join("d%d" % rng.choice([7, 8, 9, 16, 33]) for _ in range(n // 7 + 2))
    else:
        evs = ",".join("d%d" % rng.randrange(1, 12) for _ in range(rng.randrange(1, n + 3)))
    chunk = rng.choice([1, 2, 3, 7, 8, 9, 64, 16384, 16384])
    ctor = rng.choice(["r", "r", "b", "f"])
    pre = rng.choice([0, 1, 5, n // 2, n]) if ctor == "f" else 0
    return evs, min(pre, n), chunk, ctor


def setup(parser, ty, flags, data, sched=None):
    evs, pre, chunk, ctor = sched or ("-", 0, 16384, "r")
    return "%s %s %s %s %s %d %d %s" % (parser, ty, flags or "-", hexs(data), evs, pre, chunk, ctor)


# ------------------------------------------------------------------ layout helpers
def blanks(rng, minimum=1):
    k = rng.choice([minimum, minimum, minimum, 2, 3])
    return "".join(rng.choice(" \t") if rng.random() < 0.3 else " " for _ in range(max(k, minimum)))


def opt_blanks(rng):
    return "" if rng.random() < 0.7 else blanks(rng)


def numeral(rng, v, fancy):
    s = str(v)
    if fancy and rng.random() < 0.2:
        z = "0" * rng.choice([1, 2, 8])
        s = ("-" + z + s[1:]) if s.startswith("-") else z + s
    return s


def comment_line(rng, eol):
    body = rng.choice(["", " a comment", " 1 2 0", "c", " p cnf 3 4", "\t tabs", " x" * 20])
    return "c" + body + eol


# ------------------------------------------------------------------ DIMACS family values
def gen_lit(rng, limit):
    x = rng.random()
    if x < 0.2:
        v = rng.choice([1, limit, max(1, limit - 1)])
    else:
        v = rng.randrange(1, min(limit, rng.choice([5, 50, 10 ** 6, limit])) + 1)
    return v if rng.random() < 0.5 else -v


def gen_clauses(rng, limit, n):
    out = []
    for _ in range(n):
        k = rng.choice([0, 1, 2, 3, 3, 8])
        out.append([gen_lit(rng, limit) for _ in range(k)])
    return out


def gen_dimacs_value(rng, fmt, ty, with_header=None, ignored=False):
    """ignored: the header will be ignored by the parser (ignore_header): it need not describe the clause list"""
    tmax = DIMACS_TYPES[ty]
    n = rng.choice([0, 1, 2, 3, 6, 12])
    with_header = rng.random() < 0.7 if with_header is None else with_header
    var_count = rng.choice([0, 3, 10, tmax, min(tmax, 1000)])
    limit = var_count if (with_header and var_count and not ignored) else tmax
    clauses = gen_clauses(rng, limit, n)
    val = {"fmt": fmt, "ty": ty, "header": None, "clauses": clauses}
    if with_header:
        cc = rng.choice([0, n, n]) if not ignored else rng.choice([0, n, n + 1, max(0, n - 1), 1])
        h = {"var_count": var_count, "clause_count": cc}
        if fmt == "wcnf":
            h["top"] = rng.choice([0, 1, 100, U64])
        if fmt == "gcnf":
            h["groups"] = rng.choice([0, 3, 50])
        val["header"] = h
    if fmt == "wcnf":
        val["weights"] = [rng.choice([0, 1, 7, U64, rng.randrange(0, 2 ** 40)]) for _ in clauses]
    if fmt == "gcnf":
        gl = ((val["header"] or {}).get("groups") if not ignored else None) or 2 ** 20
        val["groups"] = [rng.randrange(0, min(gl, 2 ** 62) + 1) for _ in clauses]
    return val


def dimacs_trace(val):
    h = val["header"]
    fmt = val["fmt"]
    if h is None:
        items = ["H-"]
    elif fmt == "cnf":
        items = ["H(%d,%d)" % (h["var_count"], h["clause_count"])]
    elif fmt == "wcnf":
        items = ["H(%d,%d,%d)" % (h["var_count"], h["clause_count"], h["top"])]
    else:
        items = ["H(%d,%d,%d)" % (h["var_count"], h["clause_count"], h["groups"])]
    for i, c in enumerate(val["clauses"]):
        if fmt == "cnf":
            items.append(lits_str(c))
        elif fmt == "wcnf":
            items.append("%d:%s" % (val["weights"][i], lits_str(c)))
        else:
            items.append("{%d}%s" % (val["groups"][i], lits_str(c)))
    return ";".join(items) + " => ok"


def render_dimacs(rng, val, fancy=True):
    """renders with layout choices; returns (bytes, item_ends): item_ends[i] is the byte offset at which
    item i is complete (len+1 when only the end of input completes it)"""
    eol = rng.choice(["\n", "\n", "\r\n"]) if fancy else "\n"
    out = []
    pos = [0]

    def emit(s):
        out.append(s)
        pos[0] += len(s.encode())

    item_lines = []
    fmt = val["fmt"]
    if fancy:
        for _ in range(rng.choice([0, 0, 1, 2])):
            emit(rng.choice([comment_line(rng, eol), eol, blanks(rng) + eol]))
        if rng.random() < 0.2:
            emit(blanks(rng))
    h = val["header"]
    if h is not None:
        fields = [h["var_count"], h["clause_count"]]
        if fmt == "wcnf":
            fields.append(h["top"])
        if fmt == "gcnf":
            fields.append(h["groups"])
        s = "p" + (blanks(rng) if fancy else " ") + fmt
        for f in fields:
            s += (blanks(rng) if fancy else " ") + numeral(rng, f, fancy)
        s += (opt_blanks(rng) if fancy else "") + eol
        emit(s)
    item_lines.append(pos[0] if h is not None else None)
    nclauses = len(val["clauses"])
    unterminated = False
    for i, c in enumerate(val["clauses"]):
        if fancy:
            for _ in range(rng.choice([0, 0, 0, 1, 2])):
                emit(rng.choice([comment_line(rng, eol), eol, blanks(rng) + eol]))
            if rng.random() < 0.15:
                emit(blanks(rng))
        toks = []
        if fmt == "wcnf":
            toks.append(numeral(rng, val["weights"][i], fancy))
        if fmt == "gcnf":
            toks.append("{" + numeral(rng, val["groups"][i], fancy) + "}")
        toks += [numeral(rng, l, fancy) for l in c]
        toks.append("-0" if (fancy and rng.random() < 0.1) else "0")
        s = ""
        for j, t in enumerate(toks):
            if j > 0:
                if fancy and rng.random() < 0.15:
                    # line break inside the clause, maybe followed by comment / blank lines
                    s += opt_blanks(rng) + eol
                    # (several of them, in any order: the gap is `newline (comment | newline)*`)
                    for _ in range(rng.choice([0, 0, 1, 2, 3])):
                        s += rng.choice([comment_line(rng, eol), eol])
                    s += opt_blanks(rng)
                else:
                    s += blanks(rng) if fancy else " "
            s += t
        last = i == nclauses - 1
        if last and fancy and rng.random() < 0.3:
            s += opt_blanks(rng)          # missing final newline
            unterminated = True
            emit(s)
            item_lines.append(pos[0] + 1)  # completed only by the end of input
        else:
            s += (opt_blanks(rng) if fancy else "") + eol
            emit(s)
            item_lines.append(pos[0])
    if fancy and not unterminated:
        # after the last clause: comment lines (also indented), blank and whitespace-only lines, trailing blanks before
        # the end of the input
        for _ in range(rng.choice([0, 0, 1, 2])):
            emit(rng.choice([comment_line(rng, eol), eol, blanks(rng) + eol, blanks(rng) + comment_line(rng, eol)]))
        if rng.random() < 0.15:
            emit(blanks(rng))
    return "".join(out).encode(), item_lines


# ------------------------------------------------------------------ solver log
def gen_log_value(rng, ty):
    tmax = DIMACS_TYPES[ty]
    sat = rng.choice(["T", "F", "N", None])
    n = rng.choice([0, 0, 1, 3, 10]) if sat in ("T", None) else 0
    assign = [gen_lit(rng, tmax) for _ in range(n)]
    has_values = n > 0 or rng.random() < 0.2
    return {"sat": sat, "assign": assign, "has_values": has_values, "ty": ty}


def log_trace(val):
    return "sat=%s a=%s => ok" % (val["sat"] or "N", lits_str(val["assign"]))


def render_log(rng, val, junk=False):
    lines = []
    def comments():
        for _ in range(rng.choice([0, 0, 1, 2])):
            lines.append("c " + rng.choice(["", "hello", "s SATISFIABLE", "v 1 2 0"]))
            if junk and rng.random() < 0.5:
                lines.append(rng.choice(["", "c", "garbage line", "cx", " s SATISFIABLE"]))
    sline = None
    if val["sat"] is not None:
        sline = "s " + {"T": "SATISFIABLE", "F": "UNSATISFIABLE", "N": "UNKNOWN"}[val["sat"]]
    vlines = []
    if val["has_values"]:
        toks = [str(x) for x in val["assign"]] + ["0"]
        while toks:
            k = rng.randrange(1, len(toks) + 1) if len(toks) > 1 else 1
            vlines.append("v " + rng.choice(["", " "]) + " ".join(toks[:k]) if k else "v")
            toks = toks[k:]
    comments()
    first_s = rng.random() < 0.5
    if sline and first_s:
        lines.append(sline); comments()
    for vl in vlines:
        lines.append(vl); comments()
    if sline and not first_s:
        lines.append(sline); comments()
    text = "\n".join(lines) + ("\n" if lines else "")
    return text.encode()


# ------------------------------------------------------------------ AIGER
def gen_aig(rng, ty, small=False):
    """an ordered AIG (inputs 2..2I, latches, ands), usable for both aag and aig"""
    tmax = AIGER_TYPES[ty]
    mlim = (tmax - 1) // 2
    I = rng.choice([0, 1, 2, 4])
    L = rng.choice([0, 0, 1, 3])
    A = rng.choice([0, 1, 3, 8])
    wide = (not small) and mlim >= 200 and (rng.random() < 0.12 or FORCE_WIDE)   # far-apart gate inputs: multi-byte binary deltas
    if wide:
        I = rng.choice([70, 100, 130])
        A = rng.choice([1, 3, 8])
    while I + L + A > mlim:
        A = max(0, A - 1); I = max(0, I - 1) if A == 0 else I; L = max(0, L - 1) if (A == 0 and I == 0) else L
    M = I + L + A
    def anylit():
        return rng.randrange(0, 2 * M + 2)
    ands = []
    for j in range(A):
        code = 2 * (I + L + 1 + j)
        a = rng.randrange(0, code)
        b = rng.randrange(0, a + 1)
        if wide and rng.random() < 0.7:
            a = rng.randrange(0, max(1, code - 128))
            b = rng.randrange(0, max(1, a - 127)) if rng.random() < 0.7 else rng.randrange(0, a + 1)
            if rng.random() < 0.5:     # deltas at the group boundaries of the 7-bit encoding
                d0 = rng.choice([127, 128, 129, 255, 256])
                if code - d0 >= 0:
                    a = code - d0
                    b = rng.randrange(0, a + 1)
                d1 = rng.choice([127, 128, 129])
                if rng.random() < 0.5 and a - d1 >= 0:
                    b = a - d1
        ands.append((code, a, b))
    latches = []
    for j in range(L):
        st = 2 * (I + 1 + j)
        latches.append((st, anylit(), rng.choice(["0", "0", "1", "x"])))
    def cnt():
        return rng.choice([0, 0, 1, 2, 5]) if not small else 0
    O = rng.choice([0, 1, 2])
    B, C, J, F = [cnt() for _ in range(4)]
    val = {"ty": ty, "M": M, "I": I, "latches": latches, "outputs": [anylit() for _ in range(O)],
           "bad": [anylit() for _ in range(B)], "constraints": [anylit() for _ in range(C)],
           "justice": [[anylit() for _ in range(k)] for k in justice_sizes(rng, J)],
           "fairness": [anylit() for _ in range(F)], "ands": ands, "symbols": [], "comment": None}
    # symbols: index below the section's own count
    for kind, count in (("i", I), ("l", L), ("o", O), ("b", B), ("c", C), ("j", J), ("f", F)):
        for idx in range(count):
            if rng.random() < (0.03 if wide else 0.4):
                val["symbols"].append((kind, idx, gen_name(rng)))
    if rng.random() < 0.4:
        val["comment"] = rng.choice(["", "a comment", "two\nlines", "c\nnested c", "utf8 äö ✓"])
    return val


def justice_sizes(rng, J):
    """sizes of the justice properties, empty ones in every position (leading, between, trailing, consecutive)"""
    if J >= 3 and rng.random() < 0.4:
        pat = rng.choice([[1, 0, 2], [0, 0, 1], [2, 0, 0, 1], [0, 1, 0, 1], [1, 1, 0]])
        return (pat + [rng.choice([0, 1, 2]) for _ in range(J)])[:J]
    return [rng.choice([0, 1, 2, 3]) for _ in range(J)]


def gen_name(rng):
    return rng.choice(["x", "in 0", "clk", "a b c", "ä", "name-with-✓", "0", ""])


def aig_header_fields(val):
    f = [val["M"], val["I"], len(val["latches"]), len(val["outputs"]), len(val["ands"]),
         len(val["bad"]), len(val["constraints"]), len(val["justice"]), len(val["fairness"])]
    return f


def render_header(tag, fields):
    f = list(fields)
    while len(f) > 5 and f[-1] == 0:
        f.pop()
    return tag + " " + " ".join(str(x) for x in f) + "\n"


def varint(n):
    out = bytearray()
    while True:
        b = n & 0x7f
        n >>= 7
        if n:
            out.append(b | 0x80)
        else:
            out.append(b)
            return bytes(out)


FORCE_WIDE = False
LAST = {}     # side information about the most recently rendered document (offsets of the binary and-gate section)


def render_aig(val, binary):
    """returns (bytes, item_ends) with item_ends[i] = byte offset at which item i is complete"""
    out = bytearray()
    item_ends = []
    def line(s):
        out.extend(s.encode() + b"\n")
    f = aig_header_fields(val)
    out.extend(render_header("aig" if binary else "aag", f).encode())
    item_ends.append(len(out))
    if not binary:
        for i in range(val["I"]):
            line(str(2 * (i + 1))); item_ends.append(len(out))
    for (st, nx, init) in val["latches"]:
        s = (("%d " % st) if not binary else "") + str(nx)
        if init == "1":
            s += " 1"
        elif init == "x":
            s += " %d" % st
        line(s); item_ends.append(len(out))
    for sec in ("outputs", "bad", "constraints"):
        for l in val[sec]:
            line(str(l)); item_ends.append(len(out))
    for j in val["justice"]:
        line(str(len(j))); item_ends.append(len(out))
    for j in val["justice"]:
        for l in j:
            line(str(l)); item_ends.append(len(out))
    for l in val["fairness"]:
        line(str(l)); item_ends.append(len(out))
    if binary:
        g0 = len(out)
        for (code, a, b) in val["ands"]:
            out.extend(varint(code - a) + varint(a - b)); item_ends.append(len(out))
        LAST["gate_span"] = (g0, len(out))
    else:
        for (code, a, b) in val["ands"]:
            line("%d %d %d" % (code, a, b)); item_ends.append(len(out))
    for (k, idx, name) in val["symbols"]:
        line("%s%d %s" % (k, idx, name)); item_ends.append(len(out))
    if val["comment"] is not None:
        line("c"); line(val["comment"]); item_ends.append(len(out) + 1)   # the comment runs to the end of input
    return bytes(out), item_ends


def aig_trace(val, binary):
    items = ["H(%s)" % ",".join(str(x) for x in aig_header_fields(val))]
    if not binary:
        items += ["i:%d" % (2 * (i + 1)) for i in range(val["I"])]
    for (st, nx, init) in val["latches"]:
        items.append(("l:%d,%d,%s" % (st, nx, init)) if not binary else ("l:%d,%s" % (nx, init)))
    items += ["o:%d" % l for l in val["outputs"]] + ["b:%d" % l for l in val["bad"]] + ["c:%d" % l for l in val["constraints"]]
    items += ["jn:%d" % len(j) for j in val["justice"]]
    items += ["j:%d" % l for j in val["justice"] for l in j]
    items += ["f:%d" % l for l in val["fairness"]]
    for (code, a, b) in val["ands"]:
        items.append(("a:%d,%d,%d" % (code, a, b)) if not binary else ("a:%d,%d" % (a, b)))
    for (k, idx, name) in val["symbols"]:
        items.append("s:%s%d:%s" % (k, idx, hexs(name.encode())))
    if val["comment"] is not None:
        items.append("C:%s" % hexs(val["comment"].encode()))
    return ";".join(items) + " => ok"


def aig_whole_trace(val, binary=False):
    """expected trace of the whole-file API (Parser::parse -> Aig / OrderedAig), in the format of show_aig /
    show_ordered_aig in the harness"""
    c = lambda v: ",".join(str(x) for x in v)
    hdr = "H(%s)" % ",".join(str(x) for x in aig_header_fields(val))
    syms = ",".join("s:%s%d:%s" % (k, idx, hexs(name.encode())) for (k, idx, name) in val["symbols"])
    if binary:
        a = "OAIG(M=%d I=%d L=[%s] O=[%s] B=[%s] C=[%s] J=[%s] F=[%s] A=[%s] S=[%s] c=%s)" % (
            val["M"], val["I"], ",".join("%d/%s" % (nx, init) for (st, nx, init) in val["latches"]),
            c(val["outputs"]), c(val["bad"]), c(val["constraints"]),
            ",".join("(%s)" % c(j) for j in val["justice"]), c(val["fairness"]),
            ",".join("%d&%d" % (g[1], g[2]) for g in val["ands"]), syms,
            hexs(val["comment"].encode()) if val["comment"] is not None else "none")
        return hdr + ";" + a + " => ok"
    a = "AIG(M=%d I=[%s] L=[%s] O=[%s] B=[%s] C=[%s] J=[%s] F=[%s] A=[%s] S=[%s] c=%s)" % (
        val["M"], c(2 * (i + 1) for i in range(val["I"])),
        ",".join("%d/%d/%s" % (st, nx, init) for (st, nx, init) in val["latches"]),
        c(val["outputs"]), c(val["bad"]), c(val["constraints"]),
        ",".join("(%s)" % c(j) for j in val["justice"]), c(val["fairness"]),
        ",".join("%d=%d&%d" % g for g in val["ands"]), syms,
        hexs(val["comment"].encode()) if val["comment"] is not None else "none")
    return hdr + ";" + a + " => ok"


# ------------------------------------------------------------------ BTOR2
def _btor2_names(kind):
    """operator names come from the source (writer tables in flussab-btor2/src/btor2.rs), not from a copy"""
    import re
    src = open("/repo/flussab-btor2/src/btor2.rs").read()
    return re.findall(kind + r'::\w+ => "(\w+)"', src)

BTOR2_UNARY = [n for n in _btor2_names("UnaryOp")] or ["not"]
BTOR2_BINARY = _btor2_names("BinaryOp") or ["and"]
BTOR2_TERNARY = _btor2_names("TernaryOp") or ["ite"]


def gen_btor2_lines(rng, n=None):
    n = rng.choice([0, 1, 3, 8, 15]) if n is None else n
    lines = []
    nid = 0
    for _ in range(n):
        if rng.random() < 0.1:
            lines.append(";" + rng.choice(["", " a comment", " 1 sort bitvec 1"]))
            continue
        nid += rng.choice([1, 1, 1, 5])
        ref = lambda: str(rng.randrange(1, nid + 1))
        k = rng.random()
        if k < 0.15:
            body = rng.choice(["sort bitvec %d" % rng.choice([1, 8, 32, 2 ** 40]), "sort array %s %s" % (ref(), ref())])
        elif k < 0.3:
            body = rng.choice(["input", "state", "one", "ones", "zero"]) + " " + ref()
        elif k < 0.4:
            body = rng.choice(["const %s %s" % (ref(), rng.choice(["0", "1", "0101", "1" * 70])),
                               "constd %s %s" % (ref(), rng.choice(["0", "7", "-12", "1" * 30])),
                               "consth %s %s" % (ref(), rng.choice(["0", "ff", "DEADbeef", "a" * 40]))])
        elif k < 0.5:
            body = "%s %s %s" % (rng.choice(BTOR2_UNARY), ref(), ref())
        elif k < 0.7:
            body = "%s %s %s %s" % (rng.choice(BTOR2_BINARY), ref(), ref(), ref())
        elif k < 0.76:
            body = "%s %s %s %s %s" % (rng.choice(BTOR2_TERNARY), ref(), ref(), ref(), ref())
        elif k < 0.82:
            body = rng.choice(["sext %s %s %d" % (ref(), ref(), rng.choice([0, 1, 24])), "uext %s %s %d" % (ref(), ref(), rng.choice([0, 8])),
                               "slice %s %s %d %d" % (ref(), ref(), rng.choice([7, 31]), rng.choice([0, 3]))])
        elif k < 0.9:
            body = "%s %s %s %s" % (rng.choice(["init", "next"]), ref(), ref(), ref())
        elif k < 0.92:
            body = "%s %s" % (rng.choice(["bad", "constraint", "fair", "output"]), ref())
        else:
            c = rng.choice([1, 2, 3])
            body = "justice %d %s" % (c, " ".join(ref() for _ in range(c)))
        s = "%d %s" % (nid, body)
        r = rng.random()
        if r < 0.2:
            s += " " + rng.choice(["sym", "a_name", "x[3]", "ü", "a;b", "top.a;b", "assert;", "x;;"])
            if rng.random() < 0.3:
                s += " ;" + rng.choice(["", " trailing comment", " a;b ; c"])
        elif r < 0.3:
            s += " ;" + rng.choice(["", " comment", "; double", " x;y"])
        lines.append(s)
    return lines


def _btor2_variants():
    """keyword -> enum variant name (as printed by Debug), from the writer tables of the source"""
    import re
    src = open("/repo/flussab-btor2/src/btor2.rs").read()
    return {kw: var for (_, var, kw) in re.findall(r'(UnaryOp|BinaryOp|TernaryOp)::(\w+)(?:\([^)]*\))? => "(\w+)"', src)}

BTOR2_VARIANT = _btor2_variants()


def gen_btor2_expected(rng, n=None):
    """well-formed BTOR2 lines together with the trace the harness must print for them (value -> text -> value)"""
    n = rng.choice([1, 3, 8, 15]) if n is None else n
    lines, exps = [], []
    nid = 0
    for _ in range(n):
        if rng.random() < 0.1:
            c = rng.choice(["", " a comment", " 1 sort bitvec 1", " x;y"])
            lines.append(";" + c); exps.append("c:" + hexs(c.encode()))
            continue
        nid += rng.choice([1, 1, 1, 5])
        ref = lambda: rng.randrange(1, nid + 1)
        k = rng.random()
        if k < 0.12:
            w = rng.choice([1, 8, 32, 2 ** 40])
            body, v = "sort bitvec %d" % w, "sort.bitvec.%d" % w
        elif k < 0.17:
            a, b = ref(), ref()
            body, v = "sort array %d %d" % (a, b), "sort.array.%d.%d" % (a, b)
        elif k < 0.3:
            kw, so = rng.choice(["input", "state", "one", "ones", "zero"]), ref()
            body, v = "%s %d" % (kw, so), "value.%d.%s" % (so, kw)
        elif k < 0.4:
            so = ref()
            kw, tag, c = rng.choice([("const", "b", rng.choice(["0", "1", "0101", "1" * 70])),
                                     ("constd", "d", rng.choice(["0", "7", "-12", "1" * 30])),
                                     ("consth", "h", rng.choice(["0", "ff", "DEADbeef", "a" * 40]))])
            body, v = "%s %d %s" % (kw, so, c), "value.%d.const.%s.%s" % (so, tag, hexs(c.encode()))
        elif k < 0.5:
            kw, so, a = rng.choice(BTOR2_UNARY), ref(), ref()
            body, v = "%s %d %d" % (kw, so, a), "value.%d.op.%s.%d" % (so, BTOR2_VARIANT[kw], a)
        elif k < 0.68:
            kw, so, a, b = rng.choice(BTOR2_BINARY), ref(), ref(), ref()
            body, v = "%s %d %d %d" % (kw, so, a, b), "value.%d.op.%s.%d.%d" % (so, BTOR2_VARIANT[kw], a, b)
        elif k < 0.74:
            kw, so, a, b, c = rng.choice(BTOR2_TERNARY), ref(), ref(), ref(), ref()
            body, v = "%s %d %d %d %d" % (kw, so, a, b, c), "value.%d.op.%s.%d.%d.%d" % (so, BTOR2_VARIANT[kw], a, b, c)
        elif k < 0.8:
            so, a = ref(), ref()
            if rng.random() < 0.6:
                kw, w = rng.choice(["sext", "uext"]), rng.choice([0, 1, 24, 2 ** 63])
                body, v = "%s %d %d %d" % (kw, so, a, w), "value.%d.op.%s(%d).%d" % (so, BTOR2_VARIANT[kw], w, a)
            else:
                u, l = rng.choice([7, 31, 2 ** 40]), rng.choice([0, 3])
                body, v = "slice %d %d %d %d" % (so, a, u, l), "value.%d.op.%s(%d,%d).%d" % (so, BTOR2_VARIANT["slice"], u, l, a)
        elif k < 0.86:
            kw, so, a, b = rng.choice(["init", "next"]), ref(), ref(), ref()
            body, v = "%s %d %d %d" % (kw, so, a, b), "assign.%s.%d.%d.%d" % (kw.capitalize(), so, a, b)
        elif k < 0.92:
            kw, a = rng.choice(["bad", "constraint", "fair", "output"]), ref()
            body, v = "%s %d" % (kw, a), "output.%s.%d" % (kw.capitalize(), a)
        else:
            cs = [ref() for _ in range(rng.choice([1, 2, 3, 5]))]
            body, v = "justice %d %s" % (len(cs), " ".join(str(c) for c in cs)), "justice.[%s]" % ",".join(str(c) for c in cs)
        line = "%d %s" % (nid, body)
        sym = cmt = None
        r = rng.random()
        if r < 0.25:
            sym = rng.choice(["sym", "a_name", "x[3]", "ü", "a;b", "top.a;b", "assert;"])
            line += " " + sym
            if rng.random() < 0.3:
                cmt = rng.choice(["", " trailing comment", " a;b ; c"])
                line += " ;" + cmt
        elif r < 0.35:
            cmt = rng.choice(["", " comment", "; double", " x;y"])
            line += " ;" + cmt
        o = lambda x: "~" if x is None else "=" + hexs(x.encode())
        lines.append(line); exps.append("n:%d:%s:%s:%s" % (nid, v, o(sym), o(cmt)))
    return lines, ";".join(exps) + " => ok"


def render_btor2(lines, final_newline=True):
    text = "\n".join(lines)
    if lines and final_newline:
        text += "\n"
    return text.encode()


# ------------------------------------------------------------------ mutations
EXTREME = ["0", "-0", "00", "127", "128", "-128", "-129", "255", "256", "32767", "32768", "65535", "65536", "2147483647",
           "2147483648", "-2147483648", "4294967295", "4294967296", "9223372036854775807", "9223372036854775808",
           "-9223372036854775808", "-9223372036854775809", "18446744073709551615", "18446744073709551616",
           "340282366920938463463374607431768211455", "9" * 40, "-" + "9" * 40, "1" * 300]


def mutate(rng, data, binary_ok=False):
    b = bytearray(data)
    k = rng.choice(["flip", "trunc", "insert", "delete", "extreme", "dup", "arbitrary", "space", "nl", "edge", "edge"])
    if not b:
        return bytes(rng.randrange(0, 256) for _ in range(rng.randrange(0, 6)))
    if k == "flip":
        i = rng.randrange(len(b)); b[i] = rng.choice([rng.randrange(0, 256), 0x80, 0xff, ord("x"), ord("-"), ord("0"), 10, 13, 32])
    elif k == "trunc":
        del b[rng.randrange(len(b)):]
    elif k == "insert":
        i = rng.randrange(len(b) + 1); b[i:i] = bytes(rng.choice([rng.randrange(0, 256), 0xc3, 0x80, 32, 10, ord("9")]) for _ in range(rng.choice([1, 1, 2, 9])))
    elif k == "delete":
        i = rng.randrange(len(b)); del b[i:i + rng.choice([1, 1, 3])]
    elif k == "extreme":
        # replace one decimal token by an extreme numeral
        toks = [(i, j) for i, j in _number_spans(b)]
        if toks:
            i, j = rng.choice(toks); b[i:j] = rng.choice(EXTREME).encode()
    elif k == "dup":
        i = rng.randrange(len(b)); j = min(len(b), i + rng.randrange(1, 12)); b[i:i] = b[i:j]
    elif k == "arbitrary":
        return bytes(rng.randrange(0, 256) for _ in range(rng.randrange(0, 40)))
    elif k == "edge":
        # a byte just outside a character class, next to a run of that class (SWAR classifiers: digits, lowercase letters)
        runs = [i for i in range(len(b) + 1) if (i < len(b) and (48 <= b[i] <= 57 or 97 <= b[i] <= 122)) or (i > 0 and (48 <= b[i - 1] <= 57 or 97 <= b[i - 1] <= 122))]
        i = rng.choice(runs) if runs else rng.randrange(len(b) + 1)
        b[i:i] = bytes([rng.choice([0x60, 0x7b, 0x7b, 0x40, 0x5b, 0x2f, 0x3a, 0x7f, 0x80, 0xe1])])
    elif k == "space":
        i = rng.randrange(len(b)); b[i:i] = b" "
    else:
        i = rng.randrange(len(b)); b[i:i] = rng.choice([b"\n", b"\r\n", b"\r"])
    return bytes(b)


def _number_spans(b):
    spans = []
    i = 0
    while i < len(b):
        if 48 <= b[i] <= 57 or (b[i] == 45 and i + 1 < len(b) and 48 <= b[i + 1] <= 57):
            j = i + 1
            while j < len(b) and 48 <= b[j] <= 57:
                j += 1
            spans.append((i, j)); i = j
        else:
            i += 1
    return spans


# ------------------------------------------------------------------ one random document of any format
PARSERS = ["cnf", "cnf", "wcnf", "gcnf", "log", "aag", "aig", "btor2"]


def gen_doc(rng, parser=None, valid_only=False):
    """returns (parser, ty, flags, data, expected_trace_or_None)"""
    parser = parser or rng.choice(PARSERS)
    if parser in ("cnf", "wcnf", "gcnf"):
        ty = rng.choice(list(DIMACS_TYPES))
        flags = "h" if rng.random() < 0.25 else "-"
        # with ignore_header the header need not describe the clause list (counts, variable and group limits are not enforced)
        val = gen_dimacs_value(rng, parser, ty, ignored=(flags == "h" and rng.random() < 0.7))
        data, _ = render_dimacs(rng, val, fancy=rng.random() < 0.7)
        exp = dimacs_trace(val)
    elif parser == "log":
        ty = rng.choice(list(DIMACS_TYPES))
        val = gen_log_value(rng, ty)
        junk = rng.random() < 0.3
        data = render_log(rng, val, junk)
        flags = "u" if junk or rng.random() < 0.2 else "-"
        exp = log_trace(val)
    elif parser in ("aag", "aig"):
        ty = rng.choice(list(AIGER_TYPES))
        val = gen_aig(rng, ty)
        data, _ = render_aig(val, parser == "aig")
        if rng.random() < 0.35:      # the whole-file API (Parser::parse)
            flags = "w"
            exp = aig_whole_trace(val, parser == "aig")
        else:
            flags = "-"
            exp = aig_trace(val, parser == "aig")
    else:
        ty = "-"
        flags = "-"
        if valid_only or rng.random() < 0.5:
            lines, exp = gen_btor2_expected(rng)
            data = render_btor2(lines, True)       # a node line must end with its line break
        else:
            lines = gen_btor2_lines(rng)
            data = render_btor2(lines, rng.random() < 0.8)
            exp = None
    if not valid_only and rng.random() < 0.45:
        for _ in range(rng.choice([1, 1, 2, 3])):
            data = mutate(rng, data)
        exp = None
    return parser, ty, flags, data, exp


def line_schedule(data):
    """one read() result per line (a line ends with LF); returns (events string, list of chunk lengths)"""
    lens = []
    start = 0
    for i, b in enumerate(data):
        if b == 10:
            lens.append(i + 1 - start); start = i + 1
    if start < len(data):
        lens.append(len(data) - start)
    return (",".join("d%d" % n for n in lens) or "-"), lens


def reads_needed(lens, end, total):
    """number of successful reads after which `end` bytes are available; end > total means the end of input
    must have been seen as well (one more read)"""
    if end is None:
        return len(lens) + 1
    acc = 0
    for i, n in enumerate(lens):
        acc += n
        if acc >= min(end, total):
            return i + 1 + (1 if end > total else 0)
    return len(lens) + (1 if end > total else 0)


# ------------------------------------------------------------------ C06: boundary values and declared limits
def limit_cases(rng):
    """yields (parser, ty, flags, data, expectation) with expectation a trace or 'REJECT'"""
    out = []
    def dim(parser, ty, flags, text, exp):
        out.append((parser, ty, flags, text.encode(), exp))
    for ty, tmax in DIMACS_TYPES.items():
        v = rng.choice([1, 5, min(tmax, 1000)])
        # literals against the declared variable count
        dim("cnf", ty, "-", "p cnf %d 1\n%d -%d 0\n" % (v, v, v), "H(%d,1);[%d,-%d] => ok" % (v, v, v))
        dim("cnf", ty, "-", "p cnf %d 1\n%d 0\n" % (v, v + 1), "REJECT")
        dim("cnf", ty, "-", "p cnf %d 1\n-%d 0\n" % (v, v + 1), "REJECT")
        dim("cnf", ty, "h", "p cnf %d 1\n%d 0\n" % (v, min(v + 1, tmax)), "H(%d,1);[%d] => ok" % (v, min(v + 1, tmax)))
        # the type's own limit
        dim("cnf", ty, "-", "%d -%d 0\n" % (tmax, tmax), "H-;[%d,-%d] => ok" % (tmax, tmax))
        dim("cnf", ty, "-", "%d 0\n" % (tmax + 1), "REJECT")
        dim("cnf", ty, "-", "-%d 0\n" % (tmax + 1), "REJECT")
        dim("cnf", ty, "-", "p cnf %d 0\n" % tmax, "H(%d,0) => ok" % tmax)
        dim("cnf", ty, "-", "p cnf %d 0\n" % (tmax + 1), "REJECT")
        dim("cnf", ty, "-", "1 %s 0\n" % ("9" * 40), "REJECT")
        # exactly the declared number of clauses
        c = rng.choice([1, 2, 4])
        body = "".join("%d 0\n" % ((i % v) + 1) for i in range(c))
        items = ";".join("[%d]" % ((i % v) + 1) for i in range(c))
        dim("cnf", ty, "-", "p cnf %d %d\n%s" % (v, c, body), "H(%d,%d);%s => ok" % (v, c, items))
        dim("cnf", ty, "-", "p cnf %d %d\n%s" % (v, c + 1, body), "REJECT")
        dim("cnf", ty, "-", "p cnf %d %d\n%s1 0\n" % (v, c, body), "REJECT")
        dim("cnf", ty, "h", "p cnf %d %d\n%s1 0\n" % (v, c, body), "H(%d,%d);%s;[1] => ok" % (v, c, items))
        dim("cnf", ty, "-", "p cnf %d 0\n%s1 0\n" % (v, body), "H(%d,0);%s;[1] => ok" % (v, items))   # 0 = unspecified
        # wcnf weights and top
        dim("wcnf", ty, "-", "p wcnf %d 1 %d\n%d %d 0\n" % (v, U64, U64, v), "H(%d,1,%d);%d:[%d] => ok" % (v, U64, U64, v))
        dim("wcnf", ty, "-", "p wcnf %d 1 5\n%d %d 0\n" % (v, U64 + 1, v), "REJECT")
        dim("wcnf", ty, "-", "p wcnf %d 1 %d\n1 %d 0\n" % (v, U64 + 1, v), "REJECT")
        dim("wcnf", ty, "-", "p wcnf %d 1 5\n1 %d 0\n" % (v, v + 1), "REJECT")
        # gcnf groups
        g = rng.choice([1, 3])
        dim("gcnf", ty, "-", "p gcnf %d 1 %d\n{%d} %d 0\n" % (v, g, g, v), "H(%d,1,%d);{%d}[%d] => ok" % (v, g, g, v))
        dim("gcnf", ty, "-", "p gcnf %d 1 %d\n{%d} %d 0\n" % (v, g, g + 1, v), "REJECT")
        dim("gcnf", ty, "h", "p gcnf %d 1 %d\n{%d} %d 0\n" % (v, g, g + 1, v), "H(%d,1,%d);{%d}[%d] => ok" % (v, g, g + 1, v))
        dim("gcnf", ty, "-", "p gcnf %d 1 0\n{%d} %d 0\n" % (v, 10 ** 15, v), "H(%d,1,0);{%d}[%d] => ok" % (v, 10 ** 15, v))
        dim("gcnf", ty, "-", "{%d} 1 0\n" % (U64 + 1), "REJECT")
        # solver log
        dim("log", ty, "-", "s SATISFIABLE\nv %d -%d 0\n" % (tmax, tmax), "sat=T a=[%d,-%d] => ok" % (tmax, tmax))
        dim("log", ty, "-", "s SATISFIABLE\nv %d 0\n" % (tmax + 1), "REJECT")
    for ty, cmax in AIGER_TYPES.items():
        mmax = (cmax - 1) // 2
        for tag in ("aag", "aig"):
            binary = tag == "aig"
            out.append((tag, ty, "-", ("%s %d 0 0 1 0\n%d\n" % (tag, mmax, 2 * mmax + 1)).encode(),
                        "H(%d,0,0,1,0,0,0,0,0);o:%d => ok" % (mmax, 2 * mmax + 1)))
            out.append((tag, ty, "-", ("%s %d 0 0 1 0\n%d\n" % (tag, mmax, 2 * mmax + 2)).encode(), "REJECT"))
            out.append((tag, ty, "-", ("%s %d 0 0 0 0\n" % (tag, mmax + 1)).encode(), "REJECT"))
            out.append((tag, ty, "-", ("%s 2 1 1 0 1\n" % tag).encode() + (b"4 1\n" if binary else b"2\n4 1\n") , "REJECT"))   # I+L+A > M
            # the same budget, complete documents, the excess in each of I, L, A (binary literals are implicit: only the header check stops them)
            out.append((tag, ty, "-", ("%s 2 1 1 0 1\n" % tag).encode() + (b"0\n\x02\x02" if binary else b"2\n4 0\n6 4 2\n"), "REJECT"))
            out.append((tag, ty, "-", ("%s 2 1 2 0 0\n" % tag).encode() + (b"0\n0\n" if binary else b"2\n4 0\n6 0\n"), "REJECT"))
            out.append((tag, ty, "-", ("%s 1 2 0 0 0\n" % tag).encode() + (b"" if binary else b"2\n4\n"), "REJECT"))
            out.append((tag, ty, "-", ("%s 3 1 1 0 1\n" % tag).encode() + (b"0\n\x02\x02" if binary else b"2\n4 0\n6 4 2\n"),
                        "H(3,1,1,0,1,0,0,0,0);" + ("l:0,0;a:4,2" if binary else "i:2;l:4,0,0;a:6,4,2") + " => ok"))
            out.append((tag, ty, "-", ("%s 01 0 0 0 0\n" % tag).encode(), "REJECT"))                                            # leading zero
            out.append((tag, ty, "-", ("%s 1 0 0 2 0\n1\n" % tag).encode(), "REJECT"))                                          # fewer outputs than declared
            out.append((tag, ty, "-", ("%s 1 0 0 1 0\n1\n0\n" % tag).encode(), "REJECT"))                                       # more than declared
        out.append(("aag", ty, "-", b"aag 1 1 0 0 0\n3\n", "REJECT"))     # input literal odd
        out.append(("aag", ty, "-", b"aag 1 1 0 0 0\n0\n", "REJECT"))     # input literal constant
        out.append(("aag", ty, "-", b"aag 1 0 0 0 1\n2 0 1\n", "H(1,0,0,0,1,0,0,0,0);a:2,0,1 => ok"))
        out.append(("aig", ty, "-", b"aig 1 0 0 0 1\n\x03\x00", "REJECT"))   # delta 3 > code 2
        out.append(("aig", ty, "-", b"aig 1 0 0 0 1\n\x02\x00", "H(1,0,0,0,1,0,0,0,0);a:0,0 => ok"))
        out.append(("aig", ty, "-", b"aig 1 0 0 0 1\n\x00\x01", "REJECT"))   # second delta 1 > first input 2? (2-0=2, 2-1=1 ok) -> see expectation below
    # fix the last family: delta0 = 0 -> input0 = 2, delta1 = 1 -> input1 = 1: legal
    out = [(p, t, f, d, ("H(1,0,0,0,1,0,0,0,0);a:2,1 => ok" if d == b"aig 1 0 0 0 1\n\x00\x01" else e)) for (p, t, f, d, e) in out]
    # binary deltas: at most 8 groups are read (values below 2^56); longer encodings are rejected, not wrapped
    for ty in ("u64", "usize"):
        out.append(("aig", ty, "-", b"aig 1 0 0 0 1\n" + bytes([0x82] + [0x80] * 7 + [0x00]) + b"\x00", "REJECT"))      # 9 bytes, padded 2
        out.append(("aig", ty, "-", b"aig 1 0 0 0 1\n" + bytes([0x82] + [0x80] * 8 + [0x02]) + b"\x00", "REJECT"))      # 10 bytes, 2^64 + 2
        out.append(("aig", ty, "-", b"aig 1 0 0 0 1\n" + bytes([0x82] + [0x80] * 6 + [0x00]) + b"\x00", "H(1,0,0,0,1,0,0,0,0);a:0,0 => ok"))  # 8 bytes, padded 2
    # a declared group count is enforced also when the clause count is unspecified (0), and vice versa
    out.append(("gcnf", "i32", "-", b"p gcnf 5 0 2\n{3} 1 0\n", "REJECT"))
    out.append(("gcnf", "i32", "-", b"p gcnf 5 0 2\n{2} 1 0\n", "H(5,0,2);{2}[1] => ok"))
    out.append(("gcnf", "i32", "-", b"p gcnf 0 1 2\n{3} 1 0\n", "REJECT"))
    out.append(("gcnf", "i32", "-", b"p gcnf 0 0 0\n{7} 9 0\n{0} -9 0\n", "H(0,0,0);{7}[9];{0}[-9] => ok"))
    # a variable count just beyond the widest literal type, followed by a clause (the limit is used when literals are checked)
    for fmt, pre, extra in (("cnf", "", ""), ("wcnf", "7 ", " 9"), ("gcnf", "{1} ", " 9")):
        for ty in ("i64", "isize"):
            out.append((fmt, ty, "-", ("p %s 9223372036854775808 1%s\n%s1 -1 0\n" % (fmt, extra, pre)).encode(), "REJECT"))
            out.append((fmt, ty, "h", ("p %s 9223372036854775808 1%s\n%s1 -1 0\n" % (fmt, extra, pre)).encode(), "REJECT"))
    # a literal out of range as the first literal of a continuation line of a clause
    for fmt, pre in (("cnf", ""), ("wcnf", "7 "), ("gcnf", "{1} ")):
        extra = "" if fmt == "cnf" else " 9"
        out.append((fmt, "i32", "-", ("p %s 2 1%s\n%s1\n3 0\n" % (fmt, extra, pre)).encode(), "REJECT"))
        out.append((fmt, "i32", "-", ("p %s 2 1%s\n%s1\nc x\n\n-3 0\n" % (fmt, extra, pre)).encode(), "REJECT"))
        out.append((fmt, "i8", "-", ("%s1\n300 0\n" % pre).encode(), "REJECT"))
        out.append((fmt, "i8", "h", ("p %s 2 1%s\n%s1\n-128 0\n" % (fmt, extra, pre)).encode(), "REJECT"))
    for n, exp in ((0, "REJECT"), (U64, None), (U64 + 1, "REJECT")):
        data = ("%d sort bitvec 1\n" % n).encode()
        out.append(("btor2", "-", "-", data, exp))
    return [c for c in out if c[4] is not None]


def hostile_cases():
    """documents whose declared counts are far larger than what follows (C05: resources must follow the bytes
    consumed, not the counts declared); (parser, ty, flags, data)"""
    out = []
    for n in (4000000, 2 ** 32, 2 ** 40, 2 ** 63, U64):
        out.append(("btor2", "-", "-", ("1 sort bitvec 1\n2 input 1\n3 justice %d 2 2\n" % n).encode()))
        out.append(("btor2", "-", "-", ("1 sort bitvec 1\n2 input 1\n3 justice %d" % n).encode()))
        out.append(("btor2", "-", "-", ("1 sort bitvec %d\n2 sort array 1 1\n3 const 1 %s\n" % (n, "1" * 64)).encode()))
        for fmt in ("cnf", "wcnf", "gcnf"):
            extra = "" if fmt == "cnf" else " %d" % min(n, U64)
            out.append((fmt, "i64", "-", ("p %s %d %d%s\n1 -2 0\n" % (fmt, min(n, 2 ** 62), min(n, 2 ** 62), extra)).encode()))
        for tag in ("aag", "aig"):
            for ty in ("u64", "usize"):
                out.append((tag, ty, "w", ("%s %d 0 0 0 0 %d %d %d %d\n" % (tag, min(n, 2 ** 62), n, n, n, n)).encode()))
                out.append((tag, ty, "-", ("%s %d 0 %d %d 0\n1\n" % (tag, min(n, 2 ** 62), min(n, 2 ** 61), n)).encode()))
                out.append((tag, ty, "w", ("%s %d %d 0 0 0\n" % (tag, min(n, 2 ** 62), min(n, 2 ** 62))).encode()))
                # every pre-allocated section on its own (the whole-file parsers reserve per header count)
                out.append((tag, ty, "w", ("%s %d 0 0 0 %d\n" % (tag, min(n, 2 ** 62), min(n, 2 ** 62))).encode()))
                out.append((tag, ty, "w", ("%s %d 0 %d 0 0\n" % (tag, min(n, 2 ** 62), min(n, 2 ** 62))).encode()))
                out.append((tag, ty, "w", ("%s 0 0 0 %d 0\n" % (tag, n)).encode()))
                for k in range(4):
                    cnt = ["0"] * 4; cnt[k] = str(n)
                    if k != 2:      # a hostile justice count needs its size lines: covered below
                        out.append((tag, ty, "w", ("%s 0 0 0 0 0 %s\n" % (tag, " ".join(cnt))).encode()))
                out.append((tag, ty, "w", ("%s 0 0 0 0 0 0 0 %d\n%d\n" % (tag, n, n)).encode()))
                out.append((tag, ty, "w", ("%s 1 1 0 0 0 0 0 1\n%s%d\n2\n" % (tag, "2\n" if tag == "aag" else "", n)).encode()))
                out.append((tag, ty, "w", ("%s 1 1 0 0 0 0 0 2\n%s%d\n1\n2\n" % (tag, "2\n" if tag == "aag" else "", n)).encode()))
                out.append((tag, ty, "-", ("%s 1 1 0 0 0 0 0 2\n%s%d\n%d\n2\n" % (tag, "2\n" if tag == "aag" else "", n, n)).encode()))
    return out


def decorate(rng, lines, target, fillers, indent):
    """insert filler lines (comments, blank lines) before any line and optionally indent lines; returns
    (text, 1-based line number of lines[target], indentation of that line)"""
    out = []
    line_no = ind = 0
    plain = rng.random() < 0.3
    for i, l in enumerate(lines):
        if not plain:
            for _ in range(rng.choice([0, 0, 0, 1, 2, 3])):
                out.append(rng.choice(fillers))
        k = rng.choice([0, 0, 1, 3]) if (indent and not plain) else 0
        out.append(" " * k + l)
        if i == target:
            line_no, ind = len(out), k
    return "\n".join(out) + "\n", line_no, ind


# ------------------------------------------------------------------ C08: single-token corruptions with known position
def aig_lf_corruption(rng):
    """binary AIGER: an and-gate section that contains bytes 0x0A (a delta of 10, or a two-byte delta 1280..1407 whose
    last byte is 0x0A), then one corrupted token in the symbol table or the comment section: every LF byte of the file
    is a line break, so the expected line is 1 + the number of LF bytes before the token"""
    ty = rng.choice(list(AIGER_TYPES))
    mlim = (AIGER_TYPES[ty] - 1) // 2
    big = ty != "u8" and rng.random() < 0.5
    I = rng.choice([640, 700, 5000]) if big else rng.choice([4, 5, 9, 40])    # binary inputs are implicit: no bytes
    L = rng.choice([0, 0, 1, 2])
    A = rng.choice([1, 2, 3, 6])
    M = I + L + A
    assert M <= mlim
    def anylit():
        return rng.randrange(0, 2 * M + 2)
    def delta(code):
        ch = [0, min(1, code), rng.randrange(0, code + 1)]
        if code >= 10:
            ch += [10, 10, 10]
        if code >= 1408:
            ch += [1280 + rng.randrange(0, 128)] * 3
        return rng.choice(ch)
    ands = []
    for j in range(A):
        code = 2 * (I + L + 1 + j)
        a = code - delta(code)
        b = a - delta(a)
        ands.append((code, a, b))
    latches = [(2 * (I + 1 + j), anylit(), rng.choice(["0", "1", "x"])) for j in range(L)]
    O, B, C, F = [rng.choice([0, 0, 1, 2]) for _ in range(4)]
    J = rng.choice([0, 0, 1])
    val = {"ty": ty, "M": M, "I": I, "latches": latches, "outputs": [anylit() for _ in range(O)],
           "bad": [anylit() for _ in range(B)], "constraints": [anylit() for _ in range(C)],
           "justice": [[anylit() for _ in range(k)] for k in justice_sizes(rng, J)],
           "fairness": [anylit() for _ in range(F)], "ands": ands, "symbols": [], "comment": None}
    body, _ = render_aig(val, True)
    g0, g1 = LAST["gate_span"]
    assert g1 == len(body)
    if 10 not in body[g0:g1] and rng.random() < 0.85:
        return None
    counts = {"i": I, "l": L, "o": O, "b": B, "c": C, "j": J, "f": F}
    syms = [(k, rng.randrange(counts[k]), gen_name(rng)) for k in "ilobcjf" if counts[k] and rng.random() < 0.5]
    comment = rng.choice([None, "a comment", "two\nlines", "c\nnested c", "utf8 äö ✓", "x"])
    if not syms and comment is None:
        syms = [("i", rng.randrange(I), "x")]
    lines = [("%s%d %s" % sy).encode() for sy in syms]
    what = rng.choice(["letter", "index", "index", "comment"])
    if what == "comment" and not comment:
        what = "index" if syms else "letter"
    if what != "comment" and not syms:
        what = "comment"
    pos = len(body)
    if what == "comment":
        for l in lines:
            pos += len(l) + 1
        c = bytearray(comment.encode())
        at = rng.choice([i for i in range(len(c) + 1) if i == len(c) or not 0x80 <= c[i] <= 0xbf])   # between characters
        c[at:at] = b"\xff"
        tail = b"".join(l + b"\n" for l in lines) + b"c\n" + bytes(c) + b"\n"
        pos += 2 + at
        width = 1
    else:
        si = rng.randrange(len(syms))
        for l in lines[:si]:
            pos += len(l) + 1
        k, idx, name = syms[si]
        if what == "letter":
            new = b"x"
            lines[si] = new + lines[si][1:]
        else:
            new = rng.choice(["x", "-1", "99999999999999999999999", str(counts[k]), str(counts[k] + 7)]).encode()
            lines[si] = k.encode() + new + b" " + name.encode()
            pos += 1
        width = len(new)
        tail = b"".join(l + b"\n" for l in lines)
        if comment is not None:
            tail += b"c\n" + comment.encode() + b"\n"
    data = body + tail
    line_no = 1 + data[:pos].count(b"\n")
    col = pos - (data.rfind(b"\n", 0, pos) + 1) + 1
    return ("aig", ty, rng.choice(["-", "-", "w"]), data, "ERRAT %d %d %d" % (line_no, col, col + width - 1))


def corruption_cases(rng, n):
    """a well-formed document, one token corrupted; expectation 'ERRAT line col_lo col_hi'"""
    out = []
    while len(out) < n:
        kind = rng.choice(["cnf", "wcnf", "gcnf", "aag", "btor2", "cnf", "cnf", "aig", "log"])
        if kind == "log":
            # a value line with several literals, one of them (any position) out of range for the literal type or garbage
            ty = rng.choice(["i8", "i16", "i32", "i64"])
            tmax = DIMACS_TYPES[ty]
            pre = rng.choice(["", "c a comment\n", "s SATISFIABLE\n", "c x\ns UNKNOWN\n"])
            lines = []
            for _ in range(rng.choice([1, 2, 3])):
                lines.append([str(gen_lit(rng, tmax)) for _ in range(rng.choice([1, 2, 4, 7]))])
            li = rng.randrange(len(lines)); ti = rng.randrange(len(lines[li]))
            new = rng.choice([str(tmax + 1), str(-tmax - 1), "9" * 25, "x", "1x"])
            lines[li][ti] = new
            text = pre + "".join("v " + " ".join(l) + "\n" for l in lines) + "v 0\n"
            line_no = pre.count("\n") + li + 1
            col = 3 + sum(len(t) + 1 for t in lines[li][:ti])
            out.append(("log", ty, "-", text.encode(), "ERRAT %d %d %d" % (line_no, col, col + len(new) - 1 + (1 if new == "1x" else 0))))
            continue
        if kind in ("cnf", "wcnf", "gcnf"):
            ty = rng.choice(list(DIMACS_TYPES))
            val = gen_dimacs_value(rng, kind, ty, with_header=rng.random() < 0.7)
            if not any(val["clauses"]):
                continue
            # plain rendering: one clause per line, single spaces: token positions are easy to compute
            lines = []
            h = val["header"]
            if h is not None:
                extra = [h["top"]] if kind == "wcnf" else ([h["groups"]] if kind == "gcnf" else [])
                lines.append(["p", kind] + [str(x) for x in [h["var_count"], h["clause_count"]] + extra])
            for i, c in enumerate(val["clauses"]):
                toks = []
                if kind == "wcnf": toks.append(str(val["weights"][i]))
                if kind == "gcnf": toks.append("{%d}" % val["groups"][i])
                lines.append(toks + [str(l) for l in c] + ["0"])
            li = rng.randrange(len(lines))
            ti = rng.randrange(len(lines[li]))
            tok = lines[li][ti]
            how = rng.choice(["garbage", "range", "overflow"])
            is_lit = not (li == 0 and h is not None) and not tok.startswith("{") and not (kind == "wcnf" and ti == 0) and tok != "0"
            if how == "garbage" or not is_lit:
                if li == 0 and h is not None and ti < 2:
                    continue
                new = rng.choice(["x", "1x", "--1", "1-", "?"])
            elif how == "range":
                lim = (h["var_count"] if h and h["var_count"] else DIMACS_TYPES[ty])
                if lim >= 2 ** 63 - 1:
                    continue
                new = str(rng.choice([1, -1]) * (lim + 1))
            else:
                new = rng.choice(["", "-"]) + "9" * 30
            lines[li][ti] = new
            col = 1 + sum(len(t) + 1 for t in lines[li][:ti])
            text, line_no, ind = decorate(rng, [" ".join(l) for l in lines], li, ["c a comment", "c", "", "  ", "c 1 2 0"], True)
            col += ind
            out.append((kind, ty, "-", text.encode(), "ERRAT %d %d %d" % (line_no, col, col + len(new) - 1 + (1 if new in ("1x", "1-") else 0))))
        elif kind == "aag":
            ty = rng.choice(list(AIGER_TYPES))
            val = gen_aig(rng, ty)
            data, _ = render_aig(val, False)
            text = data.decode()
            lines = text.split("\n")[:-1]
            nsym = len(val["symbols"]) + (2 if val["comment"] is not None else 0) + (val["comment"].count("\n") if val["comment"] else 0)
            body = len(lines) - nsym
            if body <= 1:
                continue
            li = rng.randrange(1, body)
            toks = lines[li].split(" ")
            ti = rng.randrange(len(toks))
            new = rng.choice(["x", "-1", "99999999999999999999999", str(2 * val["M"] + 2)])
            jn_start = 1 + val["I"] + len(val["latches"]) + len(val["outputs"]) + len(val["bad"]) + len(val["constraints"])
            if jn_start <= li < jn_start + len(val["justice"]):
                new = "x"      # a different count is still a count: only garbage is unambiguous here
            toks[ti] = new
            col = 1 + sum(len(t) + 1 for t in toks[:ti])
            lines[li] = " ".join(toks)
            out.append(("aag", ty, "-", ("\n".join(lines) + "\n").encode(), "ERRAT %d %d %d" % (li + 1, col, col + len(new) - 1)))
        elif kind == "aig":
            case = aig_lf_corruption(rng)
            if case is not None:
                out.append(case)
        else:
            lines = [l for l in gen_btor2_lines(rng, rng.choice([2, 5, 9])) if not l.startswith(";")]
            if not lines:
                continue
            li = rng.randrange(len(lines))
            toks = lines[li].split(" ")
            if ";" in toks or any(t.startswith(";") for t in toks):      # keep comments out of the corrupted range
                toks = toks[:min(i for i, t in enumerate(toks) if t.startswith(";"))]
                if len(toks) < 2:
                    continue
                lines[li] = " ".join(toks)
            nums = [i for i, t in enumerate(toks) if t.isdigit() and not (toks[1].startswith("const") and i >= 3)]   # a constant is not an id
            ti = rng.choice(nums) if (nums and rng.random() < 0.6) else rng.randrange(0, min(len(toks), 3))
            if ti != 1 and toks[ti].isdigit() and ti in nums:
                new = rng.choice(["Xx", "?", "18446744073709551616", "18446744073709551616", "99999999999999999999999"])
            elif ti == 1:
                new = rng.choice(["Xx", "andd", "s0rt"])
            else:
                continue
            if toks[ti] == new:
                continue
            toks[ti] = new
            col = 1 + sum(len(t) + 1 for t in toks[:ti])
            lines[li] = " ".join(toks)
            text, line_no, ind = decorate(rng, lines, li, ["; a comment", ";", "", "", " "], False)
            out.append(("btor2", "-", "-", text.encode(), "ERRAT %d %d %d" % (line_no, col, col + len(new))))
    return out
