"""stream rn: and-inverter graphs for Renumber::renumber_aig.

case:  rn <cfg> <inputs> <latches> <outputs> <bad> <constraints> <justice> <fairness> <gates>
  cfg 0..7 (bit0 trim, bit1 structural_hash, bit2 const_fold); literal codes are decimal;
  latches state:next:init, gates out:in0:in1, justice groups "_" or a.b.c; "-" = empty section.

Well-formed graphs: arbitrary variable numbering with gaps (sometimes huge codes), defining literals of
either polarity, gates listed in arbitrary order, constants / negations / repeated and complementary
inputs, structurally equal gates, shared and unused gates, zero-size sections, all 8 option combinations.
Ill-formed graphs: cycles (self loops, through negated edges, long, behind a finished sub-graph, only
reachable / only unreachable), undefined literals, doubly defined literals (input/input, input/gate,
gate/gate, either polarity, constant), latch state clashes (constant, input, gate output, other latch; either
polarity; at any position in the latch list; also combined with other defects).
Deep graphs: chains of 2000 (thorough: up to 8000) gates entered from the top, acyclic and cyclic."""

CFGS = list(range(8))


def fmt_case(prefix, cfg, g):
    def csv(l):
        return ",".join(str(x) for x in l) or "-"
    jus = ",".join(("_" if not grp else ".".join(str(x) for x in grp)) for grp in g["justice"]) or "-"
    return " ".join([prefix, str(cfg), csv(g["inputs"]),
                     ",".join("%d:%d:%s" % l for l in g["latches"]) or "-",
                     csv(g["outputs"]), csv(g["bad"]), csv(g["constraints"]), jus, csv(g["fairness"]),
                     ",".join("%d:%d:%d" % t for t in g["gates"]) or "-"])


def random_graph(rng, ni=None, nl=None, ng=None):
    ni = rng.choice([0, 1, 2, 3, 5, 8, 12]) if ni is None else ni
    nl = rng.choice([0, 0, 1, 2, 4]) if nl is None else nl
    ng = rng.choice([0, 1, 2, 3, 5, 8, 13, 20, 40, 80]) if ng is None else ng
    ndef = ni + nl + ng
    span = ndef + rng.choice([0, 0, 1, 5, ndef + 3])
    base = rng.choice([0, 0, 0, 0, 100, 1 << 20, 1 << 40])
    vars_ = [base + v for v in rng.sample(range(1, span + 1), ndef)]
    if rng.random() < 0.5:
        vars_.sort()
        if rng.random() < 0.2:
            vars_.reverse()
    oddp = rng.choice([0.0, 0.0, 0.1, 0.5])
    deflit = [2 * v + (1 if rng.random() < oddp else 0) for v in vars_]
    inputs = deflit[:ni]
    lstates = deflit[ni:ni + nl]
    gouts = deflit[ni + nl:]
    avail = list(inputs) + list(lstates)
    gates = []
    constp = rng.choice([0.0, 0.05, 0.2])
    samep = rng.choice([0.0, 0.05, 0.2])
    dupp = rng.choice([0.0, 0.1, 0.3])

    def pick():
        if not avail or rng.random() < constp:
            return rng.choice([0, 1])
        # prefer recent definitions so that depth grows
        l = avail[-1 - min(len(avail) - 1, int(rng.expovariate(0.4)))] if rng.random() < 0.5 else rng.choice(avail)
        return l ^ rng.randrange(2)

    for o in gouts:
        x = rng.random()
        if gates and x < dupp:
            _, a, b = rng.choice(gates)
            if rng.random() < 0.5:
                a, b = b, a
        elif x < dupp + samep:
            a = pick()
            b = a ^ rng.randrange(2)
        else:
            a, b = pick(), pick()
        gates.append((o, a, b))
        avail.append(o)
    everything = avail + [0, 1]
    used_vars = set(vars_)

    def some(k):
        return [rng.choice(everything) ^ rng.randrange(2) for _ in range(k)] if everything else []

    top = [g[0] for g in gates[-3:]]
    g = {
        "inputs": inputs,
        "latches": [(s, (rng.choice(everything) ^ rng.randrange(2)), rng.choice(["0", "1", "x"])) for s in lstates],
        "outputs": some(rng.choice([0, 1, 1, 2, 4])) + (top if rng.random() < 0.6 else []),
        "bad": some(rng.choice([0, 0, 1, 2])),
        "constraints": some(rng.choice([0, 0, 1, 2])),
        "justice": [some(rng.choice([0, 1, 2, 3])) for _ in range(rng.choice([0, 0, 1, 2, 3]))],
        "fairness": some(rng.choice([0, 0, 1, 2])),
        "gates": gates,
        "free": [base + v for v in range(1, span + 8) if base + v not in used_vars],
    }
    order = rng.random()
    if order < 0.4:
        rng.shuffle(g["gates"])
    elif order < 0.6:
        g["gates"].reverse()
    return g


def mutate(rng, g, kind):
    """turn a well-formed graph into an ill-formed one (in place); returns False if not applicable"""
    gates = g["gates"]
    if kind == "cycle":
        if not gates:
            return False
        k = rng.randrange(len(gates))
        how = rng.random()
        o, a, b = gates[k]
        if how < 0.3:      # self loop, maybe negated
            tgt = o ^ rng.randrange(2)
        else:              # to any gate (a real cycle only if that gate depends on this one; often it does)
            tgt = rng.choice(gates)[0] ^ rng.randrange(2)
        gates[k] = (o, tgt, b) if rng.random() < 0.5 else (o, a, tgt)
        if rng.random() < 0.7:
            g["outputs"] = g["outputs"] + [o ^ rng.randrange(2)]
        return True
    if kind == "longcycle":
        n = rng.choice([2, 3, 4, 5, 7, 8, 9, 16, 17, 31, 64])
        free = g["free"]
        if len(free) < n:
            free = [max([x[0] for x in gates] + g["inputs"] + [2]) // 2 + 10 + i for i in range(n)]
        ring = [2 * v for v in free[:n]]
        others = [x[0] for x in gates] + g["inputs"] + [0, 1]
        new = []
        for i, o in enumerate(ring):
            nxt = ring[(i + 1) % n] ^ rng.randrange(2)
            side = rng.choice(others) ^ rng.randrange(2)
            new.append((o, nxt, side) if rng.random() < 0.6 else (o, side, nxt))
        # a tail leading into the ring
        entry = ring[rng.randrange(n)] ^ rng.randrange(2)
        pos = rng.randrange(len(gates) + 1)
        g["gates"] = gates[:pos] + new + gates[pos:]
        if rng.random() < 0.5:
            rng.shuffle(g["gates"])
        if rng.random() < 0.85:
            g["outputs"] = g["outputs"] + [entry]
        return True
    if kind == "undefined":
        v = rng.choice(g["free"]) if g["free"] else 999
        l = 2 * v + rng.randrange(2)
        if gates and rng.random() < 0.6:
            k = rng.randrange(len(gates))
            o, a, b = gates[k]
            gates[k] = (o, l, b) if rng.random() < 0.5 else (o, a, l)
            if rng.random() < 0.6:
                g["outputs"] = g["outputs"] + [o]
        else:
            sec = rng.choice(["outputs", "bad", "constraints", "fairness", "latchnext", "justice"])
            if sec == "latchnext" and g["latches"]:
                k = rng.randrange(len(g["latches"]))
                s, _, i = g["latches"][k]
                g["latches"][k] = (s, l, i)
            elif sec == "justice":
                g["justice"] = g["justice"] + [[l]]
            elif sec != "latchnext":
                g[sec] = g[sec] + [l]
            else:
                g["outputs"] = g["outputs"] + [l]
        return True
    if kind == "redefined":
        how = rng.choice(["gg", "gi", "ii", "const-in", "const-gate", "ig"])
        flip = rng.randrange(2)
        if how == "gg" and gates:
            o, a, b = rng.choice(gates)
            gates.insert(rng.randrange(len(gates) + 1), (o ^ flip, b, a))
        elif how == "gi" and g["inputs"]:
            gates.insert(rng.randrange(len(gates) + 1), (rng.choice(g["inputs"]) ^ flip, 0, 1))
        elif how == "ii" and g["inputs"]:
            g["inputs"] = g["inputs"] + [rng.choice(g["inputs"]) ^ flip]
        elif how == "ig" and gates:
            g["inputs"] = g["inputs"] + [rng.choice(gates)[0] ^ flip]
        elif how == "const-in":
            g["inputs"] = g["inputs"] + [flip]
        else:
            gates.insert(rng.randrange(len(gates) + 1), (flip, 0, 1))
        return True
    if kind == "latchclash":
        # all four kinds (constant, input, gate output, other latch), either polarity, at any position
        kinds = ["const"] + (["input"] if g["inputs"] else []) + (["gate"] if gates else []) \
                + (["latch"] if g["latches"] else [])
        how = rng.choice(kinds)
        flip = rng.randrange(2)
        if how == "input":
            s = rng.choice(g["inputs"]) ^ flip
        elif how == "gate":
            s = rng.choice(gates)[0] ^ flip
        elif how == "latch":
            s = rng.choice(g["latches"])[0] ^ flip
        else:
            s = flip
        nxt = (rng.choice(g["inputs"] + [0, 1]) ^ rng.randrange(2))
        pos = rng.randrange(len(g["latches"]) + 1)
        g["latches"] = g["latches"][:pos] + [(s, nxt, rng.choice(["0", "1", "x"]))] + g["latches"][pos:]
        if rng.random() < 0.7:
            g["outputs"] = g["outputs"] + [s ^ rng.randrange(2)]
        return True
    return False


def chain(rng, n, cyclic=False):
    """a chain of n gates; the top gate is listed first / is the only output, so the stack gets n deep"""
    ni = rng.choice([1, 2, 3])
    inputs = [2 * (i + 1) for i in range(ni)]
    first = ni + 1
    gates = []
    side_first = rng.random() < 0.5
    for k in range(n):
        o = 2 * (first + k)
        below = (2 * (first + k - 1) if k > 0 else inputs[0]) ^ rng.randrange(2)
        side = rng.choice(inputs) ^ rng.randrange(2)
        gates.append((o, side, below) if side_first else (o, below, side))
    if cyclic:  # the bottom gate depends on a gate further up
        o, a, b = gates[0]
        tgt = gates[rng.randrange(n // 2, n)][0] ^ rng.randrange(2)
        gates[0] = (o, a, tgt) if side_first else (o, tgt, b)
    top = gates[-1][0]
    gates.reverse()
    return {"inputs": inputs, "latches": [], "outputs": [top ^ rng.randrange(2)], "bad": [], "constraints": [],
            "justice": [], "fairness": [], "gates": gates, "free": []}


def gen(rng, n, tier, prefix="rn", **kw):
    cases = []
    # fixed small cases first: the empty graph, constants only, latch clashes (the witnesses of the former D10 and
    # one per kind and polarity), the smallest cycles
    fixed = [
        "%s 0 - - - - - - - -", "%s 7 - - 0,1 1 0 _,0.1 1 -", "%s 0 2 - 2,3 - - - - -",
        "%s 0 2 2:2:x 2 - - - - -", "%s 0 2 3:0:0 2 - - - - -", "%s 0 - 0:1:1 0,1 - - - - -", "%s 0 - 1:0:x 0 - - - - -",
        "%s 0 2 4:2:0 4 - - - - 4:2:2", "%s 0 2 4:2:0 5 - - - - 5:2:2", "%s 0 2 6:2:0,7:2:1 6 - - - - -",
        "%s 0 2 7:2:0,6:2:1 6 - - - - -", "%s 0 2 7:2:0 6 - - - - -", "%s 3 2,4 8:2:0 6 - - - - 6:2:4,8:6:6",
        "%s 0 2 4:2:0 4,6 - - - - 4:2:2,6:4:2", "%s 1 - - 2 - - - - 2:2:2", "%s 0 - - 2 - - - - 2:3:3",
        "%s 0 2 - 4 - - - - 4:6:2,6:4:2", "%s 0 2 - 4 - - - - 4:2:7,6:2:5", "%s 4 2 - 4 - - - - 4:2:3",
        "%s 6 2,4 - 6,8,10 - - - - 6:2:4,8:4:2,10:6:8",
    ]
    cases += [f % prefix for f in fixed]
    deep = 2000 if tier != "thorough" else 8000
    ndeep = 6 if tier != "thorough" else 12
    for i in range(ndeep):
        g = chain(rng, deep if i < 2 else rng.choice([300, 700, 1200]), cyclic=(i % 3 == 2))
        cases.append(fmt_case(prefix, rng.choice(CFGS) | (i & 1), g))
    kinds = ["wf"] * 10 + ["cycle"] * 3 + ["longcycle"] * 3 + ["undefined"] * 3 + ["redefined"] * 3 + ["latchclash"] * 4 \
            + ["two"] * 2
    while len(cases) < n:
        kind = rng.choice(kinds)
        g = random_graph(rng)
        if kind == "two":
            mutate(rng, g, rng.choice(["cycle", "longcycle", "undefined", "redefined", "latchclash"]))
            mutate(rng, g, rng.choice(["cycle", "undefined", "redefined", "latchclash"]))
        elif kind != "wf":
            mutate(rng, g, kind)
        cfgs = CFGS if rng.random() < 0.25 else rng.sample(CFGS, rng.choice([1, 2]))
        for c in cfgs:
            cases.append(fmt_case(prefix, c, g))
    return cases[:max(n, len(fixed) + ndeep)]


# ---------------------------------------------------------------- measured distribution

def _parse(case):
    t = case.split()
    lits = lambda s: [] if s == "-" else [int(x) for x in s.split(",")]
    latches = [] if t[3] == "-" else [x.split(":") for x in t[3].split(",")]
    gates = [] if t[9] == "-" else [tuple(int(y) for y in x.split(":")) for x in t[9].split(",")]
    return int(t[1]), lits(t[2]), latches, gates


def category(case):
    cfg, inputs, latches, gates = _parse(case)
    defs = {0: 1}
    for l in inputs:
        defs[l >> 1] = defs.get(l >> 1, 0) + 1
    for o, _, _ in gates:
        defs[o >> 1] = defs.get(o >> 1, 0) + 1
    tags = []
    if any(c > 1 for c in defs.values()):
        tags.append("redefined")
    seen = dict(defs)
    for l in latches:
        v = int(l[0]) >> 1
        if v in seen:
            tags.append("latch-clash")
            break
        seen[v] = 1
    used = set()
    for o, a, b in gates:
        used.add(a >> 1)
        used.add(b >> 1)
    if any(v not in seen for v in used):
        tags.append("undefined-input")
    # cycle among gates (iterative colouring)
    gd = {}
    for o, a, b in gates:
        gd.setdefault(o >> 1, []).extend([a >> 1, b >> 1])
    colour, cyc = {}, False
    for r in gd:
        if r in colour or cyc:
            continue
        stack = [(r, iter(gd[r]))]
        colour[r] = 1
        while stack and not cyc:
            v, it = stack[-1]
            for c in it:
                if colour.get(c) == 1:
                    cyc = True
                    break
                if c in gd and c not in colour:
                    colour[c] = 1
                    stack.append((c, iter(gd[c])))
                    break
            else:
                colour[v] = 2
                stack.pop()
    if cyc:
        tags.append("cycle")
    if not tags:
        tags.append("wf")
    if len(gates) >= 300:
        tags.append("deep")
    return "+".join(tags) + "/cfg%d" % cfg


def nontrivial(case):
    _, inputs, latches, gates = _parse(case)
    return len(gates) >= 2
