(* C11 — The buffered writer delivers exactly the written bytes, in order, once.
   Only pinned statements; proofs are in WriterProofs.v / DecimalProofs.v.

   wrun (writer_init evs) ops   state after an operation history against a sink with result schedule evs
   received (wsink s)           every byte the sink accepted, in order
   g_written s                  concatenation of everything written (slices, decimal text of integers,
                                bytes placed directly into the buffer), in order
   wops_ok ops                  integers are values of their type; direct writes respect the unsafe contract *)
From Flussab Require Import Base Writer WriterProofs DecimalProofs.

(* With a sink that does not fail (any short writes, any Interrupted): after a flush or
   drop the sink holds exactly the written stream. *)
Theorem C11_good_sink_exact : forall (evs : list wevent) (ops : list wop) (o : wop),
  GoodSink evs -> wops_ok ops -> is_sync o = true ->
  let s := fst (wrun (writer_init evs) (ops ++ [o])) in
  received (wsink s) = g_written s /\ werr s = None.
Proof. exact good_sink_exact. Qed.
Print Assumptions C11_good_sink_exact.

(* With any sink at all: at every moment the sink's bytes followed by the buffered bytes
   are an in-order, duplicate-free selection of the written stream; no operation panics,
   runs out of fuel or leaves the buffer's capacity. *)
Theorem C11_any_sink_selection : forall (evs : list wevent) (ops : list wop),
  wops_ok ops ->
  let s := fst (wrun (writer_init evs) ops) in
  subseq (received (wsink s) ++ wbuf s) (g_written s) /\ nlen (wbuf s) <= wcap s /\
  forallb (fun v => negb (wbad v)) (snd (wrun (writer_init evs) ops)) = true.
Proof.
  intros evs ops Hok s. destruct (WInv_run ops _ (WInv_init evs) Hok) as [[H1 H2 H3] H4].
  repeat split; assumption.
Qed.
Print Assumptions C11_any_sink_selection.

(* Write calls always succeed. *)
Theorem C11_writes_succeed : forall s o, WInv s -> wop_ok o ->
  match o with WWrite _ | WDigits _ _ => snd (wstep s o) = WUnit | _ => True end.
Proof. exact writes_always_succeed. Qed.
Print Assumptions C11_writes_succeed.

(* A parked error: the sink is not touched until flush / check_io_error reports it, which
   happens exactly once (it is cleared by the report). *)
Theorem C11_parked_error : forall s o e, WInv s -> werr s = Some e ->
  let '(s', v) := wstep s o in
  wsink s' = wsink s /\
  match o with
  | WFlush | WCheck => v = WRes (Some e) /\ werr s' = None
  | _ => werr s' = Some e
  end.
Proof. exact parked_error. Qed.
Print Assumptions C11_parked_error.

(* Every integer appears as its canonical decimal text: it reads back as the value, digits
   only after an optional '-', '-' exactly for negatives, no leading zero, and it fits the
   space reserved for its type. *)
Theorem C11_decimal_canonical : forall v : Z,
  parse_decimal (decimal v) = v /\
  (forall t, in_range t v = true -> nlen (decimal v) <= max_len t) /\
  ((v < 0)%Z -> hd 0 (decimal v) = 45) /\ ((0 <= v)%Z -> hd 0 (decimal v) <> 45).
Proof. exact decimal_canonical. Qed.
Print Assumptions C11_decimal_canonical.

Theorem C11_decimal_digits : forall n : N,
  undec (decimal_N n) = n /\ forallb is_digit (decimal_N n) = true /\
  (n = 0 -> decimal_N n = [48]) /\ (n <> 0 -> hd 0 (decimal_N n) <> 48) /\
  (forall k, 1 <= k -> n < 10 ^ k -> nlen (decimal_N n) <= k).
Proof. exact decimal_N_canonical. Qed.
Print Assumptions C11_decimal_digits.

(* non-vacuity: a short-writing, interrupted sink; a buffer-overflowing write; an integer *)
Example C11_example :
  let s := fst (wrun (writer_init [Accept 3; WInterrupt; Accept 100000])
                     [WWrite (nrepeat 7 16380); WDigits I64 (-9223372036854775808)%Z; WWrite [1;2;3]; WDrop]) in
  received (wsink s) = nrepeat 7 16380 ++ decimal (-9223372036854775808)%Z ++ [1;2;3]
  /\ wcalls (wsink s) = 4.
Proof. vm_compute. split; reflexivity. Qed.
