(* LayoutWitness.v — the boundaries of the layout / round trip theorems, as concrete runs of the model.
   None of these contradicts C07 / C03 as proved in LayoutProofs.v / LayoutLog.v: they show that each side condition
   of the domain (doc_ok) and of the layout language is needed, i.e. where the model — a transcription of the
   Rust code — returns something else than the value that was written. *)
From Flussab Require Import Base Writer Parsed Prog Text Consts Cnf Layout LayoutLog.

Definition run_written (k : dkind) (maxd : Z) (ih : bool) (d : doc) :=
  match srun (parse_dimacs 400 k maxd ih lrs_init) (view_init (write_doc k d) None) with
  | ADone (h, items, f, _) _ => Some (h, items, f)
  | _ => None
  end.

(* C03 read with the domain "any header and any clause list": with ignore_header = false the writer's output for
   a header that announces one clause followed by two clauses does not parse back (the second clause is an
   unexpected token at line 3); with ignore_header = true it does. *)
Definition w_count : doc :=
  {| d_hdr := Some {| h_vars := 3; h_clauses := 1; h_extra := 0 |}; d_items := [(0, [1]); (0, [2])]%Z |}.
Example clause_count_is_enforced :
  write_doc KCnf w_count = [112; 32; 99; 110; 102; 32; 51; 32; 49; 10; 49; 32; 48; 10; 50; 32; 48; 10] /\
  run_written KCnf max_dimacs_i32 false w_count =
    Some (Some (d_hdr w_count), [(0, [1])]%Z, FErr (ESyntax 3 1)) /\
  run_written KCnf max_dimacs_i32 true w_count = Some (Some (d_hdr w_count), d_items w_count, FOk) /\
  doc_ok false KCnf max_dimacs_i32 w_count = false /\ doc_ok true KCnf max_dimacs_i32 w_count = true.
Proof. vm_compute. repeat split; reflexivity. Qed.

(* a literal beyond the header's variable count *)
Definition w_var : doc :=
  {| d_hdr := Some {| h_vars := 3; h_clauses := 1; h_extra := 0 |}; d_items := [(0, [5])]%Z |}.
Example var_count_is_enforced :
  run_written KCnf max_dimacs_i32 false w_var = Some (Some (d_hdr w_var), [], FErr (ESyntax 2 1)) /\
  run_written KCnf max_dimacs_i32 true w_var = Some (Some (d_hdr w_var), d_items w_var, FOk) /\
  doc_ok false KCnf max_dimacs_i32 w_var = false /\ doc_ok true KCnf max_dimacs_i32 w_var = true.
Proof. vm_compute. repeat split; reflexivity. Qed.

(* a variable count beyond the literal type's maximum is rejected even when the header is ignored *)
Definition w_maxd : doc := {| d_hdr := Some {| h_vars := 200; h_clauses := 0; h_extra := 0 |}; d_items := [] |}.
Example header_var_count_within_type :
  run_written KCnf max_dimacs_i8 false w_maxd = Some (None, [], FErr (ESyntax 1 7)) /\
  run_written KCnf max_dimacs_i8 true w_maxd = Some (None, [], FErr (ESyntax 1 7)) /\
  doc_ok true KCnf max_dimacs_i8 w_maxd = false.
Proof. vm_compute. repeat split; reflexivity. Qed.

(* a group beyond the header's group count *)
Definition w_group : doc :=
  {| d_hdr := Some {| h_vars := 3; h_clauses := 1; h_extra := 2 |}; d_items := [(3, [1])]%Z |}.
Example group_count_is_enforced :
  run_written KGcnf max_dimacs_i32 false w_group = Some (Some (d_hdr w_group), [], FErr (ESyntax 2 1)) /\
  run_written KGcnf max_dimacs_i32 true w_group = Some (Some (d_hdr w_group), d_items w_group, FOk).
Proof. vm_compute. repeat split; reflexivity. Qed.

(* the solver log: lines start in column 1 — "c" LF (no space after the c) is not a comment line, and a value line
   must not be indented; both are unknown lines (errors unless unknown lines are ignored) *)
Example log_bare_c_is_not_a_comment :
  exists v', srun (parse_log 50 max_dimacs_i32 false lrs_init) (view_init [99; 10] None)
             = ADone (Err (ESyntax 1 1), {| l_line := 1; l_start := 0 |}) v'.
Proof. eexists. vm_compute. reflexivity. Qed.

Example log_indented_value_line :
  exists v', srun (parse_log 50 max_dimacs_i32 false lrs_init) (view_init [32; 118; 32; 48; 10] None)
             = ADone (Err (ESyntax 1 1), {| l_line := 1; l_start := 0 |}) v'.
Proof. eexists. vm_compute. reflexivity. Qed.
