"""stream pa (model correspondence): whole parses of the DIMACS family, solver logs and the two AIGER formats
on the reader model, compared with the implementation: items, final outcome incl. error location or I/O error,
number of read calls."""
from streams import docs

BAD_UTF8 = [b"\xff", b"\xc3", b"\xc3\x28", b"\xe2\x82", b"\xed\xa0\x80", b"\xf4\x90\x80\x80", b"\xc0\xaf", b"\xe0\x80\x80",
            b"\xf0\x9f\x98", b"\x80", b"\xf5\x80\x80\x80", b"\xef\xbf\xbd", b"\xf0\x9f\x98\x80", b"\xed\x9f\xbf", b"\xe0\xa0\x80",
            b"\xf0\x8f\x80\x80", b"\xf0\x90\x80\x80", b"\xf4\x8f\xbf\xbf", b"\xe0\x9f\x80", b"\xc1\x80", b"\xc2\x80", b"\xdf\xbf", b"\xf1\x80\x80\x80"]


def aiger_corrupt(rng, data, ty, binary):
    """one targeted corruption of an AIGER document (on top of docs.mutate)"""
    tmax = docs.AIGER_TYPES[ty]
    b = bytearray(data)
    nl = b.find(b"\n")
    k = rng.choice(["varlong", "nofinalnl", "badutf", "hdr", "hdr", "lit", "crlf", "extra", "extra", "delta"])
    if k == "varlong":
        i = rng.randrange(max(nl, 0) + 1, len(b) + 1) if len(b) > nl + 1 else len(b)
        b[i:i] = bytes([rng.choice([0x80, 0xff, 0x81])]) * rng.choice([1, 6, 7, 8, 9]) + bytes([rng.choice([0, 1, 0x7f])])
    elif k == "nofinalnl":
        while b and b[-1] == 10 and rng.random() < 0.8:
            b.pop()
    elif k == "badutf":
        i = rng.randrange(len(b) // 2, len(b) + 1)
        b[i:i] = rng.choice(BAD_UTF8)
    elif k == "hdr" and nl > 0:
        f = bytes(b[:nl]).split(b" ")
        if len(f) > 1:
            j = rng.randrange(1, len(f))
            try:
                old = int(f[j])
            except ValueError:
                old = 0
            f[j] = str(rng.choice([0, old + 1, old + 2, max(old - 1, 0), (tmax - 1) // 2, (tmax - 1) // 2 + 1, tmax, 2 ** 64 - 1,
                                   2 ** 64, 2 ** 63, "00", "0%d" % old, "", "-1", 3, 70000])).encode()
            if rng.random() < 0.2:
                f.append(str(rng.choice([0, 1, 2])).encode())
            if rng.random() < 0.1:
                f = f[:rng.randrange(1, len(f) + 1)]
            b[:nl] = b" ".join(f)
    elif k == "lit":
        spans = [s for s in docs._number_spans(b) if s[0] > nl]
        if spans:
            i, j = rng.choice(spans)
            try:
                old = int(b[i:j])
            except ValueError:
                old = 0
            b[i:j] = str(rng.choice([0, 1, old + 1, old + 2, old | 1, 2 * old, "0%d" % old, 255, 256, 65536, tmax, tmax + 1, 2 ** 64])).encode()
    elif k == "crlf":
        ps = [i for i, x in enumerate(b) if x == 10]
        if ps:
            i = rng.choice(ps)
            b[i:i] = b"\r"
    elif k == "extra":
        b.extend(rng.choice([b"x\n", b"c", b"c\n", b"c\nfoo", b"c\nfoo\n\xff\n", b"i0 name\n", b"o0 \xc3\n", b"l0 n", b"\n", b" ", b"c \n", b"c1 x\n",
                             b"c\nline 1\nline 2\nno newline", b"c\nok\n\nbad \xe2\x82\n", b"j0 j\nf0 f\nb0 b\n", b"i9 x\n", b"i00 x\n"]))
    elif k == "delta" and binary:
        # a delta larger than the code it is subtracted from / bytes with the high bit set
        i = rng.randrange(max(nl, 0) + 1, len(b) + 1) if len(b) > nl + 1 else len(b)
        b[i:i] = docs.varint(rng.choice([1, 127, 128, 300, 2 ** 14, 2 ** 35, 2 ** 56 - 1]))
    return bytes(b)


def faulty(rng, sched, n):
    """a schedule whose source fails or reports an early end somewhere"""
    evs, pre, chunk, ctor = sched
    parts = [] if evs == "-" else evs.split(",")
    if not parts:
        parts = ["d%d" % rng.randrange(1, n + 2) for _ in range(rng.randrange(0, 3))]
    cut = rng.randrange(0, len(parts) + 1)
    parts = parts[:cut] + [rng.choice(["f%d" % rng.randrange(1, 9), "f7", "e"])]
    return ",".join(parts), pre, chunk, ctor


def gen_aiger(rng, parser):
    binary = parser == "aig"
    ty = rng.choice(list(docs.AIGER_TYPES))
    val = docs.gen_aig(rng, ty, small=rng.random() < 0.2)
    data, _ = docs.render_aig(val, binary)
    r = rng.random()
    if r < 0.35:
        pass
    elif r < 0.6:
        for _ in range(rng.choice([1, 1, 2, 3])):
            data = docs.mutate(rng, data)
    else:
        for _ in range(rng.choice([1, 1, 2])):
            data = aiger_corrupt(rng, data, ty, binary)
    if len(data) > 400:
        return None
    flags = "w" if rng.random() < 0.25 else "-"
    sched = docs.gen_schedule(rng, len(data))
    if rng.random() < 0.15:
        sched = faulty(rng, sched, len(data))
    return "pa " + docs.setup(parser, ty, flags, data, sched)


def gen(rng, n, tier, **kw):
    out = []
    while len(out) < n:
        parser = rng.choice(["cnf", "cnf", "wcnf", "gcnf", "log", "aag", "aag", "aig", "aig"])
        if parser in ("aag", "aig"):
            case = gen_aiger(rng, parser)
            if case is not None:
                out.append(case)
            continue
        parser, ty, flags, data, _ = docs.gen_doc(rng, parser=parser)
        if len(data) > 400:
            continue
        out.append("pa " + docs.setup(parser, ty, flags, data, docs.gen_schedule(rng, len(data))))
    return out

def category(case):
    return "pa/" + case.split()[1]

def nontrivial(case):
    return len(case.split()[4]) >= 16
