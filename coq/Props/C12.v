(* C12 — AIG renumbering preserves the circuit and yields a binary-legal order.
   Only pinned statements; proofs are in RenumberProofs.v and RenumberTerm.v (termination).

   renumber_aig cfg a            Renumber::renumber_aig for the options cfg = (trim, structural_hash, const_fold):
                                 RnOk o r (ordered circuit o, final Renumber state r) | RnErr e | RnPanic | RnOutOfFuel
   aig_of_ordered o              Aig::from(ordered)
   lm_get (r_map r) l            renumber.lit_map().get(l)
   eval a ρ n l / evals a ρ l b  value of literal l of graph a under the assignment ρ to inputs and latch states
   same_function a a' l l'       l in a and l' in a' have the same value under every assignment (and are defined)
   wf_defs a                     no variable is defined twice (constant, inputs, latch states, gate outputs)
   check_order a                 0 :: inputs ++ gate outputs ++ latch states: the order in which the code checks definitions
   first_clash xs l              xs = pre ++ l :: post, the variables of pre are distinct, the variable of l is among them
   dep a u v                     some gate defining variable u has variable v as an input *)
From Coq Require Import NArith List Relations.Relation_Operators.
From Flussab Require Import Aig Renumber RenumberProofs RenumberTerm.
Import ListNotations.
Local Open Scope N_scope.

(* ORDER.  For every graph and all 8 option combinations, a successful renumbering has the
   input and latch counts of the original, max_var_index = I + L + #gates, gate j (which
   Aig::from numbers 2(I+L+1+j)) has both inputs below its own code with the larger first,
   and every other literal of the result, and every lit_map value, is at most 2*max_var_index+1. *)
Theorem C12_order : forall cfg a o r,
  renumber_aig cfg a = RnOk o r ->
  let nI := length (a_inputs a) in
  let nL := length (a_latches a) in
  o_input_count o = N.of_nat nI /\
  length (o_latches o) = nL /\
  o_maxvar o = N.of_nat (nI + nL + length (o_gates o)) /\
  (forall j x y, nth_error (o_gates o) j = Some (x, y) ->
     x < 2 * N.of_nat (nI + nL + 1 + j) /\ y <= x) /\
  (forall t, In t (ordered_lits o) -> t <= 2 * o_maxvar o + 1) /\
  (forall l t, lm_get (r_map r) l = Some t -> t <= 2 * o_maxvar o + 1).
Proof. exact renumber_order. Qed.
Print Assumptions C12_order.

(* Aig::from(ordered) numbers the inputs 2..2I, the latches 2(I+1)..2(I+L) and the gates
   2(I+L+1).. consecutively (codes_from v n = [2v; 2(v+1); ..; 2(v+n-1)]) and keeps everything else. *)
Theorem C12_numbering : forall o,
  let a' := aig_of_ordered o in
  let nI := o_input_count o in
  let nL := N.of_nat (length (o_latches o)) in
  a_inputs a' = codes_from 1 (N.to_nat nI) /\
  map l_state (a_latches a') = codes_from (1 + nI) (length (o_latches o)) /\
  map g_out (a_gates a') = codes_from (1 + nI + nL) (length (o_gates o)) /\
  map (fun l => (l_next l, l_init l)) (a_latches a') = o_latches o /\
  map (fun g => (g_in0 g, g_in1 g)) (a_gates a') = o_gates o /\
  a_maxvar a' = o_maxvar o /\ a_outputs a' = o_outputs o /\ a_bad a' = o_bad o /\
  a_constraints a' = o_constraints o /\ a_justice a' = o_justice o /\ a_fairness a' = o_fairness o.
Proof. exact aig_of_ordered_numbering. Qed.
Print Assumptions C12_numbering.

(* SOUNDNESS.  For every graph for which a circuit is returned, all 8 option combinations and all
   assignments: every lit_map entry, every latch next-state (reset values unchanged), output,
   bad-state, constraint, justice and fairness literal has the same value before and after.
   No well-formedness hypothesis: the checks of lit_defs and initialize imply it (C12_ok_wf). *)
Theorem C12_sound : forall cfg a o r,
  renumber_aig cfg a = RnOk o r ->
  let a' := aig_of_ordered o in
  (forall l t, lm_get (r_map r) l = Some t -> same_function a a' l t) /\
  Forall2 (fun l t => same_function a a' (l_next l) (fst t) /\ snd t = l_init l) (a_latches a) (o_latches o) /\
  Forall2 (same_function a a') (a_outputs a) (o_outputs o) /\
  Forall2 (same_function a a') (a_bad a) (o_bad o) /\
  Forall2 (same_function a a') (a_constraints a) (o_constraints o) /\
  Forall2 (Forall2 (same_function a a')) (a_justice a) (o_justice o) /\
  Forall2 (same_function a a') (a_fairness a) (o_fairness o).
Proof. exact renumber_sound. Qed.
Print Assumptions C12_sound.

(* ERRORS.  The unwraps of renumber_aig never panic. *)
Theorem C12_no_panic : forall cfg a, renumber_aig cfg a <> RnPanic.
Proof. exact renumber_never_panics. Qed.
Print Assumptions C12_no_panic.

(* LitNotDefined l: the variable of l is not the constant, no input, no latch state, no gate output. *)
Theorem C12_undefined_is_real : forall cfg a l,
  renumber_aig cfg a = RnErr (LitNotDefined l) -> ~ In (N.div2 l) (defined_vars a).
Proof. exact renumber_undefined_real. Qed.
Print Assumptions C12_undefined_is_real.

(* FoundCycle l: the variable of l depends on itself through one or more gates. *)
Theorem C12_cycle_is_real : forall cfg a l,
  renumber_aig cfg a = RnErr (FoundCycle l) -> clos_trans N (dep a) (N.div2 l) (N.div2 l).
Proof. exact renumber_cycle_real. Qed.
Print Assumptions C12_cycle_is_real.

(* LitAlreadyDefined l: in the order constant, inputs, gate outputs, latch states, l is the first
   literal whose variable (either polarity) was defined before it -- and every graph with such a
   literal is rejected with exactly that literal, under all options. *)
Theorem C12_redefined_iff : forall cfg a l,
  renumber_aig cfg a = RnErr (LitAlreadyDefined l) <-> first_clash (check_order a) l.
Proof. exact renumber_redefined_iff. Qed.
Print Assumptions C12_redefined_iff.

(* No variable is defined twice (latch states included) exactly when LitAlreadyDefined is not returned;
   in particular a returned circuit comes from a graph without double definitions. *)
Theorem C12_wf_iff : forall cfg a,
  wf_defs a <-> forall l, renumber_aig cfg a <> RnErr (LitAlreadyDefined l).
Proof. exact renumber_wf_iff. Qed.
Print Assumptions C12_wf_iff.

Theorem C12_ok_wf : forall cfg a o r, renumber_aig cfg a = RnOk o r -> wf_defs a.
Proof. exact renumber_ok_wf. Qed.
Print Assumptions C12_ok_wf.

(* Latches (former finding D10, fixed in /repo 3b322e7): a latch whose state variable is the constant,
   an input, a gate output or an earlier latch, in either polarity, in a graph without an earlier
   clash, yields LitAlreadyDefined with that latch's state literal as written. *)
Theorem C12_latch_clash_rejected : forall cfg a pre s post,
  map l_state (a_latches a) = pre ++ s :: post ->
  NoDup (map N.div2 ((0 :: a_inputs a ++ map g_out (a_gates a)) ++ pre)) ->
  In (N.div2 s) (map N.div2 ((0 :: a_inputs a ++ map g_out (a_gates a)) ++ pre)) ->
  renumber_aig cfg a = RnErr (LitAlreadyDefined s).
Proof. exact renumber_latch_clash. Qed.
Print Assumptions C12_latch_clash_rejected.

(* Aig::lit_defs on its own: it names the first input or gate output whose variable was already defined
   by the constant, an input or a gate, and succeeds exactly when there is none (latches are checked
   by initialize). *)
Theorem C12_lit_defs_redefined : forall a e, lit_defs a = RErr e ->
  exists pre l post, 0 :: a_inputs a ++ map g_out (a_gates a) = pre ++ l :: post /\
    e = LitAlreadyDefined l /\ pre <> [] /\ NoDup (map N.div2 pre) /\ In (N.div2 l) (map N.div2 pre).
Proof. exact lit_defs_redefined. Qed.
Print Assumptions C12_lit_defs_redefined.

Theorem C12_lit_defs_ok_iff : forall a,
  (exists d, lit_defs a = ROk d) <-> NoDup (checked_vars a).
Proof. exact lit_defs_ok_iff. Qed.
Print Assumptions C12_lit_defs_ok_iff.

(* TERMINATION.  With the fuel supplied by renumber_aig (32 * (#gates + 2) steps per transfer call) no
   graph whatsoever, cyclic or not, of any depth, runs out of fuel: the explicit-stack loop ends with a
   result or an error.  (On a cyclic path the stack literals form an orbit, so the middle-of-the-stack
   test fires before the stack is 4*#gates+2 deep; a potential bounds the steps.  Runs that end in Ok need
   at most 7 steps per gate: RenumberProofs.transfer_big.) *)
Theorem C12_terminates : forall cfg a, renumber_aig cfg a <> RnOutOfFuel.
Proof. exact renumber_terminates. Qed.
Print Assumptions C12_terminates.

(* the two witnesses of the former finding D10 (latch state = constant 0; latch state = an input) and the
   other kinds of clash, on the repaired code *)
Example C12_latch_clash_examples :
  let cfg := Config false false false in
  renumber_aig cfg (Aig 0 [] [Latch 0 0 None] [0] [] [] [] [] []) = RnErr (LitAlreadyDefined 0) /\
  renumber_aig cfg (Aig 1 [2] [Latch 2 2 None] [2] [] [] [] [] []) = RnErr (LitAlreadyDefined 2) /\
  renumber_aig cfg (Aig 1 [2] [Latch 3 2 None] [2] [] [] [] [] []) = RnErr (LitAlreadyDefined 3) /\
  renumber_aig cfg (Aig 2 [2] [Latch 4 2 None] [5] [] [] [] [] [AndGate 2 2 5]) = RnErr (LitAlreadyDefined 4) /\
  renumber_aig cfg (Aig 3 [2] [Latch 6 2 None; Latch 7 2 None] [6] [] [] [] [] []) = RnErr (LitAlreadyDefined 7).
Proof. vm_compute. repeat split. Qed.

(* non-vacuity: (2 & 4) shared by two gates, one of them with swapped inputs, x & 1, under all options on *)
Example C12_example :
  match renumber_aig (Config true true true)
          (Aig 6 [2; 4] [] [13; 10] [] [] [] [] [AndGate 2 4 6; AndGate 4 2 8; AndGate 6 1 10; AndGate 8 11 12]) with
  | RnOk o r => o_gates o = [(4, 2); (7, 6)] /\ o_outputs o = [9; 6] /\ o_maxvar o = 4
  | _ => False
  end.
Proof. vm_compute. repeat split. Qed.

(* The narrower literal types (RenumberFit.v): the code hands every new code to L::from_code with a truncating cast; the
   model uses unbounded codes.  For every odd bound maxc (all Lit::MAX_CODE are 2^k - 1) on the literals of the graph, a
   run that returns a circuit never produces a code above maxc, so the cast never truncates. *)
From stdpp Require Import gmap.
From Flussab Require Import RenumberFit.
Theorem C12_result_codes_fit_the_literal_type : forall cfg a o r maxc,
  renumber_aig cfg a = RnOk o r ->
  N.odd maxc = true ->
  (forall l, In l (aig_lits a) -> (l <= maxc)%N) ->
  (forall t, In t (ordered_all_lits o) -> (t <= maxc)%N) /\
  (forall l t, lm_get (r_map r) l = Some t -> (t <= maxc)%N) /\
  (forall k f, r_map r !! k = Some f -> (f <= maxc)%N) /\
  (r_last r <= maxc)%N /\
  (2 * o_maxvar o + 1 <= maxc)%N.
Proof. exact renumber_codes_fit. Qed.
Print Assumptions C12_result_codes_fit_the_literal_type.


(* COMPLETENESS OF THE ERROR REPORTS (RenumberComplete.v).  "A graph with a combinational cycle or an undefined literal yields
   the corresponding error instead of a wrong circuit": whenever a circuit is returned, everything reachable from a root
   (outputs, latch next-states, bad, constraint, justice, fairness literals — and every gate output when trim is off:
   `roots cfg a`) is defined and lies on no cycle; equivalently a reachable cycle or undefined literal is always rejected
   with a real error (never a panic, never fuel exhaustion), under all 8 option combinations, also behind foldable gates.
   With trim on, gates no root reaches are dropped unvisited (pinned by `complete_unreachable_examples`). *)
From Flussab Require Import RenumberComplete.

Theorem C12_returned_circuit_reaches_only_defined_variables : forall cfg a o r,
  renumber_aig cfg a = RnOk o r ->
  forall root v, In root (roots cfg a) -> clos_refl_trans N (dep a) (N.div2 root) v ->
    In v (defined_vars a).
Proof. exact renumber_ok_reachable_defined. Qed.
Print Assumptions C12_returned_circuit_reaches_only_defined_variables.

Theorem C12_returned_circuit_reaches_no_cycle : forall cfg a o r,
  renumber_aig cfg a = RnOk o r ->
  forall root v, In root (roots cfg a) -> clos_refl_trans N (dep a) (N.div2 root) v ->
    ~ clos_trans N (dep a) v v.
Proof. exact renumber_ok_reachable_acyclic. Qed.
Print Assumptions C12_returned_circuit_reaches_no_cycle.

Theorem C12_reachable_cycle_or_undefined_literal_is_rejected : forall cfg a,
  (exists root v, In root (roots cfg a) /\ clos_refl_trans N (dep a) (N.div2 root) v /\
     (~ In v (defined_vars a) \/ clos_trans N (dep a) v v)) ->
  exists e, renumber_aig cfg a = RnErr e.
Proof. exact renumber_rejects_bad_reachable. Qed.
Print Assumptions C12_reachable_cycle_or_undefined_literal_is_rejected.

Theorem C12_reachable_cycle_or_undefined_literal_error_kind : forall cfg a,
  wf_defs a ->
  (exists root v, In root (roots cfg a) /\ clos_refl_trans N (dep a) (N.div2 root) v /\
     (~ In v (defined_vars a) \/ clos_trans N (dep a) v v)) ->
  exists l, renumber_aig cfg a = RnErr (LitNotDefined l) \/ renumber_aig cfg a = RnErr (FoundCycle l).
Proof. exact renumber_rejects_bad_reachable_wf. Qed.
Print Assumptions C12_reachable_cycle_or_undefined_literal_error_kind.
