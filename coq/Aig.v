(* Aig.v — and-inverter graphs of flussab-aiger/src/aig.rs over [N] literal codes.

   A literal is its code: 2*variable + polarity; code 0 is constant false, 1 constant true.
   [Aig<L>], [Latch<L>], [AndGate<L>], [OrderedAig<L>], [LitDef<L>], [AigStructureError<L>],
   [LitMap<L>] and [Aig::lit_defs] are mirrored here; symbols and the comment are carried
   through [renumber_aig] unchanged by a clone and are not modelled.

   The two hash maps of the Rust code are never iterated, so they are finite maps
   (std++ [gmap]); hashing (zwohash) is outside the model. *)
From stdpp Require Import gmap.
From Coq Require Import NArith List.
Import ListNotations.
Local Open Scope N_scope.

Notation lit := N (only parsing).

(* L::from_code(1 ^ lit.code()) *)
Definition lneg (l : lit) : lit := N.lxor 1 l.
(* key_code & !1 *)
Definition lkey (l : lit) : lit := N.ldiff l 1.
(* key_code & 1 *)
Definition lpol (l : lit) : N := N.land l 1.

Record latch := Latch { l_state : lit; l_next : lit; l_init : option bool }.
Record and_gate := AndGate { g_in0 : lit; g_in1 : lit; g_out : lit }.

Record aig := Aig {
  a_maxvar : N;
  a_inputs : list lit;
  a_latches : list latch;
  a_outputs : list lit;
  a_bad : list lit;
  a_constraints : list lit;
  a_justice : list (list lit);
  a_fairness : list lit;
  a_gates : list and_gate;
}.

(* OrderedAndGate is a pair of inputs; OrderedLatch a next-state literal and the reset value *)
Record ordered_aig := OrderedAig {
  o_maxvar : N;
  o_input_count : N;
  o_latches : list (lit * option bool);
  o_outputs : list lit;
  o_bad : list lit;
  o_constraints : list lit;
  o_justice : list (list lit);
  o_fairness : list lit;
  o_gates : list (lit * lit);
}.

Inductive lit_def := DConstant | DInput (i : N) | DGate (in0 in1 : lit).

Inductive aig_error :=
| LitAlreadyDefined (l : lit)
| LitNotDefined (l : lit)
| FoundCycle (l : lit).

Inductive res (A : Type) := ROk (a : A) | RErr (e : aig_error).
Arguments ROk {A} a.
Arguments RErr {A} e.

Notation defs_t := (gmap N lit_def) (only parsing).

(* one iteration of either loop of [lit_defs]:
     if defs.contains_key(1 ^ lit) || defs.insert(lit, d).is_some() { return Err(LitAlreadyDefined { lit }) } *)
Definition def_insert (defs : defs_t) (l : lit) (d : lit_def) : res defs_t :=
  match defs !! lneg l with
  | Some _ => RErr (LitAlreadyDefined l)
  | None =>
    match defs !! l with
    | Some _ => RErr (LitAlreadyDefined l)
    | None => ROk (<[l := d]> defs)
    end
  end.

Fixpoint defs_inputs (defs : defs_t) (i : N) (ins : list lit) : res defs_t :=
  match ins with
  | [] => ROk defs
  | l :: rest =>
    match def_insert defs l (DInput i) with
    | ROk defs' => defs_inputs defs' (N.succ i) rest
    | RErr e => RErr e
    end
  end.

Fixpoint defs_gates (defs : defs_t) (gs : list and_gate) : res defs_t :=
  match gs with
  | [] => ROk defs
  | g :: rest =>
    match def_insert defs (g_out g) (DGate (g_in0 g) (g_in1 g)) with
    | ROk defs' => defs_gates defs' rest
    | RErr e => RErr e
    end
  end.

(* Aig::lit_defs — latches are not looked at here; Renumber::initialize checks them ([latches_fresh]) *)
Definition lit_defs (a : aig) : res defs_t :=
  match defs_inputs (<[0 := DConstant]> ∅) 0 (a_inputs a) with
  | ROk d => defs_gates d (a_gates a)
  | RErr e => RErr e
  end.

(* LitMap: keyed by the positive literal, the stored value carries the polarity *)
Notation litmap := (gmap N N) (only parsing).

Definition lm_insert (m : litmap) (k v : lit) : litmap :=
  <[lkey k := N.lxor v (lpol k)]> m.

Definition lm_get (m : litmap) (k : lit) : option lit :=
  match m !! lkey k with
  | Some f => Some (N.lxor f (lpol k))
  | None => None
  end.

(* LitMap::contains_key: the low bit of the key is masked *)
Definition lm_contains (m : litmap) (k : lit) : bool :=
  match m !! lkey k with Some _ => true | None => false end.

(* HashMap::contains_key on the definition table: the exact literal *)
Definition defs_contains (d : defs_t) (k : lit) : bool :=
  match d !! k with Some _ => true | None => false end.

(* From<OrderedAig<L>> for Aig<L> *)
Fixpoint number_latches (code : N) (ls : list (lit * option bool)) : list latch :=
  match ls with
  | [] => []
  | (nx, ini) :: rest => Latch code nx ini :: number_latches (code + 2) rest
  end.

Fixpoint number_gates (code : N) (gs : list (lit * lit)) : list and_gate :=
  match gs with
  | [] => []
  | (a, b) :: rest => AndGate a b code :: number_gates (code + 2) rest
  end.

Fixpoint number_inputs (code : N) (n : nat) : list lit :=
  match n with
  | O => []
  | S n' => code :: number_inputs (code + 2) n'
  end.

Definition aig_of_ordered (o : ordered_aig) : aig :=
  let first_latch := 1 + o_input_count o in
  let first_and := first_latch + N.of_nat (length (o_latches o)) in
  Aig (o_maxvar o)
      (number_inputs 2 (N.to_nat (o_input_count o)))
      (number_latches (first_latch * 2) (o_latches o))
      (o_outputs o) (o_bad o) (o_constraints o) (o_justice o) (o_fairness o)
      (number_gates (first_and * 2) (o_gates o)).

(* ---------------------------------------------------------------- semantics

   An assignment gives a value to every input (by position in [a_inputs]) and to every latch
   state (by position in [a_latches]).  The value of a literal is that of its variable
   ([N.div2] of the code), complemented when the polarity differs from the polarity of the
   defining literal.  Variable 0 is the constant false.  A variable is looked up in the
   inputs, then the latches, then the gates; in a graph without double definitions
   ([wf_defs]) the order is irrelevant.  The recursion through gates runs on fuel: [None]
   for an undefined variable or when the fuel does not reach the leaves. *)
Record assignment := Assignment { v_in : nat -> bool; v_latch : nat -> bool }.

Fixpoint find_key {A} (key : A -> lit) (v : N) (l : list A) (i : nat) : option (nat * A) :=
  match l with
  | [] => None
  | x :: r => if N.eqb (N.div2 (key x)) v then Some (i, x) else find_key key v r (S i)
  end.

Fixpoint eval (a : aig) (ρ : assignment) (fuel : nat) (l : lit) : option bool :=
  match fuel with
  | O => None
  | S f =>
    let v := N.div2 l in
    let var_value :=
      if N.eqb v 0 then Some false
      else match find_key (fun x => x) v (a_inputs a) 0 with
           | Some (i, x) => Some (xorb (v_in ρ i) (N.odd x))
           | None =>
             match find_key l_state v (a_latches a) 0 with
             | Some (j, x) => Some (xorb (v_latch ρ j) (N.odd (l_state x)))
             | None =>
               match find_key g_out v (a_gates a) 0 with
               | Some (_, g) =>
                 match eval a ρ f (g_in0 g), eval a ρ f (g_in1 g) with
                 | Some x, Some y => Some (xorb (x && y) (N.odd (g_out g)))
                 | _, _ => None
                 end
               | None => None
               end
             end
           end in
    match var_value with
    | Some b => Some (xorb b (N.odd l))
    | None => None
    end
  end.

(* [l] has the value [b] in [a] under [ρ] *)
Definition evals (a : aig) (ρ : assignment) (l : lit) (b : bool) : Prop :=
  exists n, eval a ρ n l = Some b.

(* two literals of two graphs compute the same (total) function of inputs and latch states *)
Definition same_function (a a' : aig) (l l' : lit) : Prop :=
  forall ρ, exists b, evals a ρ l b /\ evals a' ρ l' b.

(* the variables defined by the graph: the constant, the inputs, the latch states, the gate outputs *)
Definition defined_vars (a : aig) : list N :=
  0 :: map N.div2 (a_inputs a) ++ map (fun l => N.div2 (l_state l)) (a_latches a)
    ++ map (fun g => N.div2 (g_out g)) (a_gates a).

(* no variable is defined twice *)
Definition wf_defs (a : aig) : Prop := NoDup (defined_vars a).

(* [u] depends directly on [v]: some gate defines variable [u] and has variable [v] as an input *)
Definition dep (a : aig) (u v : N) : Prop :=
  exists g, In g (a_gates a) /\ N.div2 (g_out g) = u /\
            (N.div2 (g_in0 g) = v \/ N.div2 (g_in1 g) = v).

(* the gate graph is acyclic: some rank function strictly decreases from every gate to its inputs *)
Definition acyclic (a : aig) : Prop :=
  exists rank : N -> nat, forall g, In g (a_gates a) ->
    (rank (N.div2 (g_in0 g)) < rank (N.div2 (g_out g)))%nat /\
    (rank (N.div2 (g_in1 g)) < rank (N.div2 (g_out g)))%nat.
