(* ParsedProofs.v — C15: exact three-way choice semantics of the combinators.
   [ran m] says that the closure passed to the combinator was executed: every
   closure considered logs at least one entry when it runs ([Logs f]). *)
From Flussab Require Import Base Parsed.

Definition ran {A} (m : M A) : Prop := snd m <> [].
Definition Logs {A B} (f : A -> M B) : Prop := forall a, snd (f a) <> [].

Definition is_ft {T E} (p : parsed T E) : bool :=
  match p with Fallthrough => true | _ => false end.
Definition is_ok {T E} (p : parsed T E) : bool :=
  match p with Res (Ok _) => true | _ => false end.
Definition is_err {T E} (p : parsed T E) : bool :=
  match p with Res (Err _) => true | _ => false end.

Ltac triv :=
  repeat split; intros;
  repeat match goal with H : exists _, _ |- _ => destruct H end;
  try discriminate; try reflexivity; try congruence; try tauto; eauto.

Ltac go :=
  intros; cbn; unfold ran, bindM, ret; cbn;
  repeat split; intros;
  repeat match goal with
         | H : exists _, _ |- _ => destruct H
         | H : Res _ = Res _ |- _ => inversion H; subst; clear H
         | H : Ok _ = Ok _ |- _ => inversion H; subst; clear H
         | H : Err _ = Err _ |- _ => inversion H; subst; clear H
         end;
  try discriminate;
  try match goal with
      | Hf : Logs ?f |- context [?f ?a] =>
          let H := fresh "Hl" in
          pose proof (Hf a) as H; destruct (f a) as [? ?]; cbn in *
      end;
  repeat match goal with
         | x : _ * _ |- _ => destruct x; cbn in *
         end;
  repeat match goal with
         | r : result _ _ |- _ => destruct r; cbn in *
         end;
  rewrite ?app_nil_r in *;
  try discriminate; try reflexivity; try congruence; try tauto; eauto.

Section Alt.
Context {T E : Type}.

(* an alternative runs iff the previous result was a fallthrough, and a
   non-fallthrough input is returned unchanged *)
Lemma or_parse_spec (p : parsed T E) f :
  Logs f ->
  (ran (or_parse p f) <-> is_ft p = true) /\
  (is_ft p = false -> or_parse p f = ret p) /\
  (is_ft p = true -> or_parse p f = f tt).
Proof. intros Hf; destruct p as [[v|e]|]; go. Qed.

Lemma or_always_parse_spec (p : parsed T E) f :
  Logs f ->
  (ran (or_always_parse p f) <-> is_ft p = true) /\
  (forall r, p = Res r -> or_always_parse p f = ret r) /\
  (is_ft p = true -> or_always_parse p f = f tt).
Proof. intros Hf; destruct p as [[v|e]|]; go. Qed.

Lemma or_give_up_spec (p : parsed T E) (f : unit -> M E) :
  Logs f ->
  (ran (or_give_up p f) <-> is_ft p = true) /\
  (forall r, p = Res r -> or_give_up p f = ret r) /\
  (is_ft p = true -> fst (or_give_up p f) = Err (fst (f tt))).
Proof. intros Hf; destruct p as [[v|e]|]; go. Qed.

Lemma optional_spec (p : parsed T E) :
  match p with
  | Res (Ok v) => optional p = Ok (Some v)
  | Res (Err e) => optional p = Err e
  | Fallthrough => optional p = Ok None
  end.
Proof. destruct p as [[?|?]|]; reflexivity. Qed.

Lemma matches_spec (p : parsed T E) :
  match p with
  | Res (Ok v) => matches p = Ok true
  | Res (Err e) => matches p = Err e
  | Fallthrough => matches p = Ok false
  end.
Proof. destruct p as [[?|?]|]; reflexivity. Qed.

Lemma from_result_spec (r : result T E) :
  from_result r = Res r /\ is_ft (from_result r) = false.
Proof. split; reflexivity. Qed.

End Alt.

Section Cont.
Context {T U E E2 : Type}.

(* a continuation runs iff the previous result was a success; its failure is
   committed (Res (Err _)), never a Fallthrough *)
Lemma and_then_spec (p : parsed T E) (f : T -> M (result U E)) :
  Logs f ->
  (ran (and_then p f) <-> is_ok p = true) /\
  (forall v, p = Res (Ok v) -> fst (and_then p f) = Res (fst (f v))) /\
  (forall e, p = Res (Err e) -> and_then p f = ret (Res (Err e))) /\
  (p = Fallthrough -> and_then p f = ret Fallthrough) /\
  (is_ok p = true -> is_ft (fst (and_then p f)) = false).
Proof. intros Hf; destruct p as [[v|e]|]; go. Qed.

Lemma and_also_spec (p : parsed T E) (f : T -> M (T * result unit E)) :
  Logs f ->
  (ran (and_also p f) <-> is_ok p = true) /\
  (forall v, p = Res (Ok v) ->
     fst (and_also p f) =
     match snd (fst (f v)) with
     | Ok _ => Res (Ok (fst (fst (f v))))     (* the possibly mutated original *)
     | Err e => Res (Err e)                   (* committed failure *)
     end) /\
  (is_ok p = false -> and_also p f = ret p).
Proof. intros Hf; destruct p as [[v|e]|]; go. Qed.

Lemma and_do_spec (p : parsed T E) (f : T -> M T) :
  Logs f ->
  (ran (and_do p f) <-> is_ok p = true) /\
  (forall v, p = Res (Ok v) -> fst (and_do p f) = Res (Ok (fst (f v)))) /\
  (is_ok p = false -> and_do p f = ret p).
Proof. intros Hf; destruct p as [[v|e]|]; go. Qed.

(* mapping functions touch only the case they name *)
Lemma map_spec (p : parsed T E) (f : T -> M U) :
  Logs f ->
  (ran (map p f) <-> is_ok p = true) /\
  (forall v, p = Res (Ok v) -> fst (map p f) = Res (Ok (fst (f v)))) /\
  (forall e, p = Res (Err e) -> map p f = ret (Res (Err e))) /\
  (p = Fallthrough -> map p f = ret Fallthrough).
Proof. intros Hf; destruct p as [[v|e]|]; go. Qed.

Lemma map_err_spec (p : parsed T E) (f : E -> M E2) :
  Logs f ->
  (ran (map_err p f) <-> is_err p = true) /\
  (forall v, p = Res (Ok v) -> map_err p f = ret (Res (Ok v))) /\
  (forall e, p = Res (Err e) -> fst (map_err p f) = Res (Err (fst (f e)))) /\
  (p = Fallthrough -> map_err p f = ret Fallthrough).
Proof. intros Hf; destruct p as [[v|e]|]; go. Qed.

Lemma err_into_is_map_err (p : parsed T E) (conv : E -> M E2) :
  err_into conv p = map_err p conv.
Proof. destruct p as [[?|?]|]; reflexivity. Qed.

(* ResultExt *)
Lemma r_err_into_spec (r : result T E) (conv : E -> M E2) :
  Logs conv ->
  (ran (r_err_into conv r) <-> exists e, r = Err e) /\
  (forall v, r = Ok v -> r_err_into conv r = ret (Ok v)) /\
  (forall e, r = Err e -> fst (r_err_into conv r) = Err (fst (conv e))).
Proof. intros Hf; destruct r as [v|e]; go. Qed.

Lemma r_and_also_spec (r : result T E) (f : T -> M (T * result unit E)) :
  Logs f ->
  (ran (r_and_also r f) <-> exists v, r = Ok v) /\
  (forall v, r = Ok v ->
     fst (r_and_also r f) =
     match snd (fst (f v)) with
     | Ok _ => Ok (fst (fst (f v)))
     | Err e => Err e
     end) /\
  (forall e, r = Err e -> r_and_also r f = ret (Err e)).
Proof. intros Hf; destruct r as [v|e]; go. Qed.

Lemma r_and_do_spec (r : result T E) (f : T -> M T) :
  Logs f ->
  (ran (r_and_do r f) <-> exists v, r = Ok v) /\
  (forall v, r = Ok v -> fst (r_and_do r f) = Ok (fst (f v))) /\
  (forall e, r = Err e -> r_and_do r f = ret (Err e)).
Proof. intros Hf; destruct r as [v|e]; go. Qed.

End Cont.
