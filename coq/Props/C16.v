(* C16 — Text scanning helpers pass over exactly what they document, and no further.
   Statements are about every admissible abstract run (aruns) of the scanner programs of
   Text.v on every view (= every input stream, cursor position and buffering state);
   Simulation.v transfers them to every concrete reader state and read schedule.

   rest_at v off      the input from the scan offset on
   peeked_to v v' m   v' differs from v only by peeks; m = highest absolute offset asked for, plus one.
                      In particular the cursor, the mark and the stream are unchanged: nothing is consumed. *)
From Flussab Require Import Base Reader Writer Prog Text TextSpec ProgProofs ScanProofs.

(* a run of spaces and tabs; looks at the run and at the first byte after it, nothing else *)
Theorem C16_tabs_or_spaces : forall fuel off v r,
  (length (blank_prefix (rest_at v off)) < fuel)%nat ->
  aruns (tabs_or_spaces fuel off) v r ->
  exists v', r = ADone (off + nlen (blank_prefix (rest_at v off))) v' /\
             peeked_to v v' (vcur v + off + nlen (blank_prefix (rest_at v off)) + 1).
Proof.
  intros fuel off v r Hf Hr. rewrite (det_aruns _ _ _ Hr (det_tabs_or_spaces fuel off)).
  exact (tabs_or_spaces_spec fuel off v Hf).
Qed.
Print Assumptions C16_tabs_or_spaces.

(* one LF or CR LF (a lone CR, or CR at the end of input, is not a newline); looks at one byte,
   at two only after a CR *)
Theorem C16_newline : forall off v r,
  aruns (newline off) v r ->
  exists v', r = ADone (off + newline_len (rest_at v off)) v' /\
             peeked_to v v' (vcur v + off + newline_look (rest_at v off)).
Proof.
  intros off v r Hr. rewrite (det_aruns _ _ _ Hr (det_newline off)). exact (newline_spec off v).
Qed.
Print Assumptions C16_newline.

(* everything up to and including the next LF, or up to the end of input; looks no further than that LF *)
Theorem C16_next_newline : forall fuel off v r,
  (N.to_nat (before_newline (rest_at v off)) < fuel)%nat ->
  aruns (next_newline fuel off) v r ->
  exists v', r = ADone (off + to_next_newline (rest_at v off)) v' /\
             peeked_to v v' (vcur v + off + before_newline (rest_at v off) + 1).
Proof.
  intros fuel off v r Hf Hr. rewrite (det_aruns _ _ _ Hr (det_next_newline fuel off)).
  exact (next_newline_spec fuel off v Hf).
Qed.
Print Assumptions C16_next_newline.

(* the fixed sequence if fully present, otherwise nothing; stops asking at the first mismatching
   byte, never asks beyond the pattern, asks nothing for the empty pattern *)
Theorem C16_fixed : forall off pat v r,
  aruns (fixed off pat) v r ->
  exists v', r = ADone (if common_prefix pat (rest_at v off) =? nlen pat then off + nlen pat else off) v' /\
             peeked_to v v' (match pat with
                             | [] => 0
                             | _ => vcur v + off + N.min (common_prefix pat (rest_at v off) + 1) (nlen pat)
                             end).
Proof.
  intros off pat v r Hr. rewrite (det_aruns _ _ _ Hr (det_fixed_from pat off 0)). exact (fixed_spec off pat v).
Qed.
Print Assumptions C16_fixed.

(* non-vacuity *)
Example C16_example :
  let v := view_init [32; 9; 13; 10; 120; 10] None in
  srun (tabs_or_spaces 10 0) v = ADone 2 (after_peek (after_peek (after_peek v 0) 1) 2) /\
  (exists v', srun (newline 2) v = ADone 4 v') /\ (exists v', srun (newline 4) v = ADone 4 v') /\
  (exists v', srun (next_newline 10 4) v = ADone 6 v') /\
  (exists v', srun (fixed 2 [13; 10; 121]) v = ADone 2 v' /\ vreq v' = 5).
Proof. cbv zeta. repeat split; try (eexists; vm_compute; reflexivity). eexists. vm_compute. split; reflexivity. Qed.
