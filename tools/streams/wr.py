"""stream wr: operation histories on the DeferredWriter with scripted sinks.
Slice lengths are biased around the free space of the 16 KiB buffer; integers of
all 12 types incl. MIN/MAX; direct buffer writes; sinks: accept-all, short writes,
Interrupted, Ok(0), failing at call k."""
CAP = 16384
TYPES = {"i8": (8, True), "u8": (8, False), "i16": (16, True), "u16": (16, False), "i32": (32, True), "u32": (32, False),
         "i64": (64, True), "u64": (64, False), "i128": (128, True), "u128": (128, False), "isize": (64, True), "usize": (64, False)}
MAXLEN = {"u8": 3, "i8": 4, "u16": 5, "i16": 6, "u32": 10, "i32": 11, "u64": 20, "usize": 20, "i64": 21, "isize": 21, "u128": 39, "i128": 40}

def gen_int(rng):
    ty = rng.choice(list(TYPES))
    bits, signed = TYPES[ty]
    lo, hi = (-(1 << (bits - 1)), (1 << (bits - 1)) - 1) if signed else (0, (1 << bits) - 1)
    x = rng.random()
    if x < 0.25: v = rng.choice([lo, hi, lo + 1, hi - 1])
    elif x < 0.45: v = rng.choice([0, 1, 9, 10, 99, 100, -1 if signed else 7, -10 if signed else 11])
    elif x < 0.7:
        d = rng.randrange(1, 40); v = rng.randrange(10 ** (d - 1), 10 ** d) * (rng.choice([1, -1]) if signed else 1)
        v = max(lo, min(hi, v))
    else: v = rng.randrange(lo, hi + 1)
    return ty, v

def gen_case(rng, prefix):
    evs = []
    mode = rng.choice(["all", "all", "short", "interrupt", "fail", "fail", "mixed", "zero"])
    n_ev = rng.choice([0, 1, 2, 4, 8]) if mode != "all" else 0
    for _ in range(n_ev):
        if mode == "short": evs.append("a%d" % rng.choice([1, 2, 100, 5000, CAP - 1]))
        elif mode == "interrupt": evs.append(rng.choice(["i", "i", "a7", "a20000"]))
        elif mode == "fail": evs.append(rng.choice(["a3", "a100000", "a100000", "i", "f%d" % rng.randrange(1, 9)]))
        elif mode == "zero": evs.append(rng.choice(["a0", "a5", "a100000"]))
        else: evs.append(rng.choice(["a1", "a9000", "i", "f%d" % rng.randrange(1, 9), "a100000"]))
    ops = []
    fill = 0  # estimate of the buffer fill level
    for _ in range(rng.choice([2, 5, 10, 25])):
        x = rng.random()
        if x < 0.4:
            free = CAP - fill
            ln = rng.choice([0, 1, 2, 17, 300, free - 1, free, free + 1, CAP - 1, CAP, CAP + 1, 2 * CAP + 5, 3 * CAP,
                             rng.randrange(0, 3 * CAP)])
            ln = max(0, ln)
            ops.append("w%d:%d" % (ln, rng.randrange(0, 256)))
            fill = (fill + ln) if fill + ln <= CAP else (ln % CAP if ln < CAP else 0)
        elif x < 0.62:
            ty, v = gen_int(rng); ops.append("g%s:%d" % (ty, v)); fill = min(CAP, fill + len(str(v)))
        elif x < 0.7:
            ln = rng.choice([0, 1, 8, 40, CAP - fill, CAP - fill + 1, CAP]); k = rng.randrange(0, ln + 1) if ln else 0
            if rng.random() < 0.12:
                # lengths near usize::MAX: `old_len + len` must not wrap into "fits" (D17)
                ln = rng.choice([2 ** 64 - 1, 2 ** 64 - 1 - fill, 2 ** 64 - fill, 2 ** 64 - fill + 3, 2 ** 63, 2 ** 63 - 1]); ln = min(ln, 2 ** 64 - 1); k = rng.randrange(0, 9)
            ops.append("d%d:%d:%d" % (max(0, ln), min(k, max(0, ln)), rng.randrange(0, 256)))
            if fill + ln <= CAP: fill += k
        elif x < 0.82: ops.append("f"); fill = 0
        elif x < 0.9: ops.append("F"); fill = 0
        else: ops.append("c")
    # near-full buffer then integers: exercises the MAX_LEN fast/cold boundary
    if rng.random() < 0.3:
        ty, v = gen_int(rng)
        room = rng.choice([MAXLEN[ty] - 1, MAXLEN[ty], MAXLEN[ty] + 1, len(str(v)), len(str(v)) - 1])
        ops += ["F", "w%d:%d" % (max(0, CAP - room), rng.randrange(0, 256)), "g%s:%d" % (ty, v)]
    ops.append(rng.choice(["D", "D", "f", "F"]))
    return "%s %s %s" % (prefix, ",".join(evs) or "-", ",".join(ops))

def gen(rng, n, tier, prefix="wr", **kw):
    return [gen_case(rng, prefix) for _ in range(n)]

def category(case):
    t = case.split()
    evs = t[1].split(",")
    tags = []
    if any(e.startswith("f") for e in evs): tags.append("failing-sink")
    if "i" in evs: tags.append("interrupt")
    if any(e.startswith("a") and e != "a0" for e in evs): tags.append("short")
    if "a0" in evs: tags.append("zero")
    ops = t[2].split(",")
    if any(o.startswith("w") and int(o[1:].split(":")[0]) >= CAP for o in ops): tags.append("large-write")
    if any(o.startswith("g") for o in ops): tags.append("digits")
    if any(o.startswith("d") for o in ops): tags.append("direct")
    return "+".join(tags) or "plain"

def nontrivial(case):
    return len(case.split()[2].split(",")) >= 5
