//! stream "c15": one combinator application per case.
//! case:  c15 <comb> <input> <closure>
//! trace: <result> calls=<k>
use flussab::{Parsed, Parsed::*, ResultExt};
use std::cell::Cell;

thread_local! { static CONV_CALLS: Cell<(u64, u64)> = Cell::new((0, 0)); }

/// Error type with a counting `From<u64>`: conversion adds the configured amount.
#[derive(Debug)]
struct E2(u64);
impl From<u64> for E2 {
    fn from(e: u64) -> Self {
        let (calls, add) = CONV_CALLS.with(|c| c.get());
        CONV_CALLS.with(|c| c.set((calls + 1, add)));
        E2(e + add)
    }
}

fn parse_res(s: &str) -> Result<u64, u64> {
    let mut it = s.split(':');
    match (it.next(), it.next()) {
        (Some("ok"), Some(v)) => Ok(v.parse().unwrap()),
        (Some("err"), Some(e)) => Err(e.parse().unwrap()),
        _ => panic!("bad result {s}"),
    }
}
fn parse_parsed(s: &str) -> Parsed<u64, u64> {
    if s == "ft" {
        Fallthrough
    } else {
        Res(parse_res(s))
    }
}
fn addn(s: &str) -> u64 {
    s.strip_prefix('+').expect("bad add").parse().unwrap()
}
fn show_res<T>(r: &Result<T, u64>, f: impl Fn(&T) -> String) -> String {
    match r {
        Ok(v) => format!("ok:{}", f(v)),
        Err(e) => format!("err:{e}"),
    }
}
fn show_parsed<T>(p: &Parsed<T, u64>, f: impl Fn(&T) -> String) -> String {
    match p {
        Fallthrough => "ft".into(),
        Res(r) => show_res(r, f),
    }
}
fn num(v: &u64) -> String {
    v.to_string()
}

pub fn run(toks: &[&str]) -> String {
    let (comb, input, clo) = (toks[0], toks[1], toks[2]);
    let p = parse_parsed(input);
    let as_result = |p: Parsed<u64, u64>| match p {
        Res(r) => r,
        Fallthrough => panic!("result input expected"),
    };
    let calls = Cell::new(0u64);
    let tick = || calls.set(calls.get() + 1);
    let s = match comb {
        "or_parse" => show_parsed(&p.or_parse(|| { tick(); parse_parsed(clo) }), num),
        "or_always_parse" => show_res(&p.or_always_parse(|| { tick(); parse_res(clo) }), num),
        "or_give_up" => show_res(&p.or_give_up(|| { tick(); clo.parse().unwrap() }), num),
        "optional" => show_res(&p.optional(), |o| match o {
            None => "none".into(),
            Some(v) => format!("some({v})"),
        }),
        "matches" => show_res(&p.matches(), |b| b.to_string()),
        "and_then" => {
            let f = |v: u64| -> Result<u64, u64> {
                tick();
                let mut it = clo.split(':');
                match (it.next(), it.next()) {
                    (Some("ok"), Some(k)) => Ok(v + addn(k)),
                    (Some("err"), Some(e)) => Err(e.parse().unwrap()),
                    _ => panic!("bad and_then closure"),
                }
            };
            show_parsed(&p.and_then(f), num)
        }
        "and_also" | "r_and_also" => {
            let f = |v: &mut u64| -> Result<(), u64> {
                tick();
                let parts: Vec<&str> = clo.split(':').collect();
                *v += addn(parts[0]);
                match parts[1] {
                    "ok" => Ok(()),
                    "err" => Err(parts[2].parse().unwrap()),
                    _ => panic!("bad and_also closure"),
                }
            };
            if comb == "and_also" {
                show_parsed(&p.and_also(f), num)
            } else {
                show_res(&ResultExt::and_also(as_result(p), f), num)
            }
        }
        "and_do" | "r_and_do" => {
            let f = |v: &mut u64| { tick(); *v += addn(clo); };
            if comb == "and_do" {
                show_parsed(&p.and_do(f), num)
            } else {
                show_res(&ResultExt::and_do(as_result(p), f), num)
            }
        }
        "map" => show_parsed(&p.map(|v| { tick(); v + addn(clo) }), num),
        "map_err" => show_parsed(&p.map_err(|e| { tick(); e + addn(clo) }), num),
        "err_into" | "r_err_into" => {
            CONV_CALLS.with(|c| c.set((0, addn(clo))));
            let s = if comb == "err_into" {
                let q: Parsed<u64, E2> = p.err_into();
                let q: Parsed<u64, u64> = match q {
                    Fallthrough => Fallthrough,
                    Res(Ok(v)) => Res(Ok(v)),
                    Res(Err(E2(e))) => Res(Err(e)),
                };
                show_parsed(&q, num)
            } else {
                let q: Result<u64, E2> = ResultExt::err_into(as_result(p));
                show_res(&q.map_err(|E2(e)| e), num)
            };
            calls.set(CONV_CALLS.with(|c| c.get().0));
            s
        }
        "from_result" => {
            let q: Parsed<u64, u64> = as_result(p).into();
            show_parsed(&q, num)
        }
        _ => panic!("unknown combinator {comb}"),
    };
    format!("{s} calls={}", calls.get())
}
