"""stream c15: complete enumeration of combinator x input case x closure outcome."""

INPUTS_P = ["ok:0", "ok:5", "err:1", "err:9", "ft"]
INPUTS_R = ["ok:0", "ok:5", "err:1", "err:9"]

def gen(rng, n, tier, **kw):
    cases = []
    def add(comb, inputs, closures):
        for i in inputs:
            for c in closures:
                cases.append("c15 %s %s %s" % (comb, i, c))
    add("or_parse", INPUTS_P, ["ok:3", "err:4", "ft"])
    add("or_always_parse", INPUTS_P, ["ok:3", "err:4"])
    add("or_give_up", INPUTS_P, ["7", "0"])
    add("optional", INPUTS_P, ["-"])
    add("matches", INPUTS_P, ["-"])
    add("and_then", INPUTS_P, ["ok:+0", "ok:+10", "err:4", "err:0"])
    add("and_also", INPUTS_P, ["+0:ok", "+10:ok", "+0:err:4", "+10:err:4"])
    add("and_do", INPUTS_P, ["+0", "+10"])
    add("map", INPUTS_P, ["+0", "+10"])
    add("map_err", INPUTS_P, ["+0", "+10"])
    add("err_into", INPUTS_P, ["+0", "+1000"])
    add("from_result", INPUTS_R, ["-"])
    add("r_err_into", INPUTS_R, ["+0", "+1000"])
    add("r_and_also", INPUTS_R, ["+0:ok", "+10:ok", "+0:err:4", "+10:err:4"])
    add("r_and_do", INPUTS_R, ["+0", "+10"])
    return cases

def category(case):
    t = case.split()
    return t[1] + "/" + t[2].split(":")[0]

def nontrivial(case):
    t = case.split()
    comb, inp = t[1], t[2].split(":")[0]
    runs = {"or_parse": "ft", "or_always_parse": "ft", "or_give_up": "ft", "map_err": "err", "err_into": "err",
            "r_err_into": "err"}
    return inp == runs.get(comb, "ok")

def judge(case, impl, model):
    """Does the implementation's own trace violate C15 (independently of the model)?"""
    t = case.split()
    comb, inp, clo = t[1], t[2], t[3]
    kind = inp.split(":")[0]
    m = impl.rsplit(" calls=", 1)
    if len(m) != 2:
        return "implementation did not return normally: " + impl
    res, calls = m[0], int(m[1])
    runs_on = {"or_parse": "ft", "or_always_parse": "ft", "or_give_up": "ft", "map_err": "err", "err_into": "err",
               "r_err_into": "err", "optional": None, "matches": None, "from_result": None}.get(comb, "ok")
    want = 1 if runs_on == kind else 0
    if calls != want:
        return "%s on %s ran its closure %d times, expected %d" % (comb, inp, calls, want)
    if impl != model:
        return "%s on %s with closure %s returned %s, the documented result is %s" % (comb, inp, clo, res, model.rsplit(" calls=", 1)[0])
    return None
