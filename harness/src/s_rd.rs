//! stream "rd": an operation history on a real DeferredReader.
//! case:  rd <datahex> <events> <prebuffered> <ops>
//! trace: one observation per op, then "| calls=<n>"
use crate::common::*;
use flussab::DeferredReader;
use std::io::{BufRead, BufReader};
use std::panic::{catch_unwind, AssertUnwindSafe};

pub fn make_reader<'a>(data: Vec<u8>, events: Vec<Ev>, pre: usize)
    -> (DeferredReader<'a>, std::rc::Rc<std::cell::RefCell<Stats>>) {
    let pre = pre.min(data.len());
    let (first, rest) = data.split_at(pre);
    let (srcr, stats) = ScriptedSource::new(rest.to_vec(), events);
    let reader = if pre > 0 {
        let mut br = BufReader::with_capacity(pre, Prefill { first: Some(first.to_vec()), rest: srcr });
        let got = br.fill_buf().unwrap().len();
        assert_eq!(got, pre);
        DeferredReader::from_buf_reader(br)
    } else {
        DeferredReader::from_read(srcr)
    };
    (reader, stats)
}

pub fn run(toks: &[&str]) -> String {
    let data = unhex(toks[0]);
    let events = parse_events(toks[1]);
    let pre: usize = toks[2].parse().unwrap();
    let ops: Vec<&str> = if toks[3] == "-" { vec![] } else { toks[3].split(',').collect() };
    let (mut r, stats) = make_reader(data, events, pre);
    let mut out: Vec<String> = vec![];
    for op in ops {
        let arg = || op[1..].parse::<u64>().unwrap() as usize;
        let res = catch_unwind(AssertUnwindSafe(|| -> String {
            match op.as_bytes()[0] {
                b'r' => format!("b{}", hex(r.request(arg()))),
                b'p' => match r.request_byte_at_offset(arg()) {
                    None => "none".into(),
                    Some(b) => format!("{b:02x}"),
                },
                b'm' => if r.request_more() { "T".into() } else { "F".into() },
                b'a' => { r.advance(arg()); ".".into() }
                b'w' => format!("b{}", hex(r.advance_with_buf(arg()))),
                b'k' => { r.set_mark(); ".".into() }
                b't' => { r.set_mark_to_position(arg()); ".".into() }
                b'c' => { r.set_chunk_size(arg()); ".".into() }
                b'b' => format!("b{}", hex(r.buf())),
                b'l' => r.buf_len().to_string(),
                b'P' => r.position().to_string(),
                b'M' => r.mark().to_string(),
                b'C' => if r.is_complete() { "T".into() } else { "F".into() },
                b'E' => if r.is_at_end() { "T".into() } else { "F".into() },
                b'I' => match r.io_error() { None => "ok".into(), Some(e) => err_id(e) },
                b'X' => match r.check_io_error() { Ok(()) => "ok".into(), Err(e) => err_id(&e) },
                _ => panic!("bad op {op}"),
            }
        }));
        match res {
            Ok(s) => out.push(s),
            Err(p) => {
                let k = panic_kind(&*p);
                let broken = k == "!assert";
                // a failed debug_assert in buf()/advance_with_buf stands for the unchecked access
                out.push(if broken { "UB".into() } else { k });
                if broken {
                    // the model does not continue after UB either
                    break;
                }
            }
        }
    }
    let calls = stats.borrow().calls;
    format!("{} | calls={}", out.join(" "), calls)
}

/// stream "o_rd": the same histories checked directly against a Vec+cursor reference
/// (no model involved).  Prints PASS or FAIL <what>.
pub fn oracle(toks: &[&str]) -> String {
    let data = unhex(toks[0]);
    let events = parse_events(toks[1]);
    let pre: usize = toks[2].parse::<usize>().unwrap().min(data.len());
    let ops: Vec<&str> = if toks[3] == "-" { vec![] } else { toks[3].split(',').collect() };
    let prebytes = data[..pre].to_vec();
    let (mut r, stats) = make_reader(data, events, pre);
    let mut consumed: usize = 0;
    let mut abs_mark: usize = 0;
    let mut err_pending = false; // an error was parked and not yet taken
    let mut chunk: usize = 16 << 10;
    let mut max_window: usize = 0;
    for (i, op) in ops.iter().enumerate() {
        let arg = || op[1..].parse::<u64>().unwrap() as usize;
        let calls_before = stats.borrow().effective_calls;
        let all_calls_before = stats.borrow().calls;
        let complete_before = r.is_complete();
        let len_before = r.buf_len();
        let mut fail: Option<String> = None;
        let res = catch_unwind(AssertUnwindSafe(|| -> Option<String> {
            match op.as_bytes()[0] {
                b'r' => {
                    let n = arg();
                    let got = r.request(n).len();
                    if got < n && !r.is_complete() {
                        return Some(format!("request({n}) returned {got} bytes but the source has not ended"));
                    }
                    if len_before >= n && stats.borrow().calls != all_calls_before {
                        return Some("request read from the source although the window already sufficed".into());
                    }
                }
                b'p' => {
                    let k = arg();
                    let b = r.request_byte_at_offset(k);
                    if b.is_none() && !r.is_complete() {
                        return Some(format!("request_byte_at_offset({k}) = None but the source has not ended"));
                    }
                    if b.is_some() && b != r.buf().get(k).copied() {
                        return Some("request_byte_at_offset disagrees with buf()".into());
                    }
                    if len_before > k && stats.borrow().calls != all_calls_before {
                        return Some("request_byte_at_offset read from the source although the byte was buffered".into());
                    }
                }
                b'm' => {
                    let progressed = r.request_more();
                    let made = stats.borrow().effective_calls - calls_before;
                    if complete_before && (progressed || stats.borrow().calls != all_calls_before) {
                        return Some("request_more called the source after completion".into());
                    }
                    if !complete_before && made > 1 {
                        return Some(format!("request_more made {made} non-interrupted reads"));
                    }
                }
                b'a' => { let n = arg(); r.advance(n); consumed += n; }
                b'w' => {
                    let n = arg();
                    let want: Vec<u8> = r.buf().iter().take(n).copied().collect();
                    let got = r.advance_with_buf(n).to_vec();
                    consumed += n;
                    if got != want { return Some("advance_with_buf returned other bytes than the window held".into()); }
                }
                b'k' => { r.set_mark(); abs_mark = consumed; }
                b't' => { let p = arg(); r.set_mark_to_position(p); abs_mark = p; }
                b'c' => { chunk = arg(); r.set_chunk_size(chunk); }
                b'X' => {
                    let e = r.check_io_error();
                    if e.is_err() != err_pending { return Some("check_io_error does not report the parked error exactly once".into()); }
                    err_pending = false;
                }
                _ => {}
            }
            None
        }));
        let panicked = res.is_err();
        if let Ok(Some(f)) = &res { fail = Some(f.clone()); }
        if let Err(p) = &res {
            let k = panic_kind(&**p);
            let legit = match op.as_bytes()[0] {
                b'a' | b'w' => k == "!adv" && arg() > len_before,
                b'r' | b'p' | b'm' => k == "!read",
                _ => false,
            };
            if !legit { fail = Some(format!("unexpected panic {k}")); }
        }
        // ---- state checks after every op, also after a caught panic ----
        if fail.is_none() {
            let chk = catch_unwind(AssertUnwindSafe(|| -> Option<String> {
                let st = stats.borrow();
                if st.failed.is_some() && !err_pending && r.io_error().is_some() { /* first sighting */ }
                let w = r.buf();
                if w.len() != r.buf_len() { return Some("buf().len() != buf_len()".into()); }
                let mut full = prebytes.clone();
                full.extend_from_slice(&st.stream);
                if consumed > full.len() || consumed + w.len() > full.len() || w != &full[consumed..consumed + w.len()] {
                    return Some(format!("window is not the next bytes of the stream (consumed {consumed}, window {} bytes)", w.len()));
                }
                if st.calls > 0 && w.len() != full.len() - consumed {
                    return Some(format!("window holds {} bytes but {} were delivered and not consumed", w.len(), full.len() - consumed));
                }
                if r.position() != consumed { return Some(format!("position() = {} after advancing over {consumed} bytes", r.position())); }
                if r.mark() != abs_mark { return Some(format!("mark() = {} but the mark was set at absolute offset {abs_mark}", r.mark())); }
                if r.is_complete() != st.terminal { return Some(format!("is_complete() = {} but source terminal = {}", r.is_complete(), st.terminal)); }
                if r.is_at_end() != (st.terminal && w.is_empty()) { return Some("is_at_end() wrong".into()); }
                if st.calls_after_terminal != 0 { return Some("the source was called again after it ended or failed".into()); }
                None
            }));
            match chk {
                Ok(f) => fail = f,
                Err(p) => fail = Some(format!("state check panicked: {}", panic_kind(&*p))),
            }
        }
        // error parking: Some exactly from the failing read until check_io_error
        if fail.is_none() && !panicked {
            let st = stats.borrow();
            if st.failed.is_some() && st.effective_calls != calls_before && op.as_bytes()[0] != b'X' { err_pending = true; }
            if r.io_error().is_some() != err_pending { fail = Some("io_error() is not Some exactly between the failing read and check_io_error".into()); }
        }
        max_window = max_window.max(r.buf_len());
        if let Some(f) = fail {
            return format!("FAIL op#{i}({op}): {f}");
        }
    }
    "PASS".into()
}
