#!/usr/bin/env python3
"""pin.py <Prefix> <file.v> name[=PinnedName] ... : prints pinned copies of theorem statements
(Theorem Prefix_name : forall binders, statement.  Proof. exact name. Qed.  Print Assumptions …)
for pasting into coq/Props/*.v.  The statement text is copied verbatim from the source file."""
import re, sys
prefix, path = sys.argv[1], sys.argv[2]
src = open(path).read()
for spec in sys.argv[3:]:
    name, _, pinned = spec.partition("=")
    m = re.search(r"^(?:Theorem|Corollary|Lemma)\s+%s\b(.*?)\n(?:Proof)" % re.escape(name), src, flags=re.S | re.M)
    if not m:
        sys.exit("not found: " + name)
    body = m.group(1)
    # header binders end at the first ':' that is at depth 0 (outside parentheses/braces)
    depth = 0
    cut = None
    for i, ch in enumerate(body):
        if ch in "([{":
            depth += 1
        elif ch in ")]}":
            depth -= 1
        elif ch == ":" and depth == 0 and body[i:i+2] != ":=":
            cut = i
            break
    binders, stmt = body[:cut].strip(), body[cut + 1:].strip()
    assert stmt.endswith(".")
    pn = "%s_%s" % (prefix, pinned or name)
    print("Theorem %s :%s\n  %s\nProof. exact %s%s. Qed.\nPrint Assumptions %s.\n"
          % (pn, (" forall %s," % binders) if binders else "", stmt, "@" if "{" in binders else "", name, pn))
