(* s_rn.ml — stream "rn": Renumber::renumber_aig on the extracted model.
   case:  rn <cfg> <inputs> <latches> <outputs> <bad> <constraints> <justice> <fairness> <gates>
            cfg      0..7: bit0 trim, bit1 structural_hash, bit2 const_fold
            inputs, outputs, bad, constraints, fairness   comma separated literal codes, "-" if empty
            latches  state:next:init (init 0 | 1 | x), comma separated
            justice  groups separated by ",", a group is "_" (empty) or codes joined by "."
            gates    out:in0:in1, comma separated
   trace: ok M=<max_var_index> I=<input_count> L=<next:init,..> O=.. B=.. C=.. J=.. F=.. G=<in0:in1,..>
             A=<inputs>/<latch states>/<gate outputs of Aig::from(ordered)> map=<lit>get(lit),..>
          for every literal occurring in the case, ascending;  or  err redefined|undefined|cycle <lit> *)
open Model_rn
module BZ = Z

(* Model_rn has its own copy of the inductive numbers *)
let rec pos_of_z (z : BZ.t) : positive =
  if BZ.equal z BZ.one then XH
  else if BZ.testbit z 0 then XI (pos_of_z (BZ.shift_right z 1))
  else XO (pos_of_z (BZ.shift_right z 1))
let n_of_z (z : BZ.t) : n = if BZ.sign z <= 0 then N0 else Npos (pos_of_z z)
let rec z_of_pos (p : positive) : BZ.t =
  match p with
  | XH -> BZ.one
  | XO q -> BZ.shift_left (z_of_pos q) 1
  | XI q -> BZ.succ (BZ.shift_left (z_of_pos q) 1)
let z_of_n (x : n) : BZ.t = match x with N0 -> BZ.zero | Npos p -> z_of_pos p
let str_of_n (x : n) : string = BZ.to_string (z_of_n x)
let n_of_str (s : string) : n = n_of_z (BZ.of_string s)
let split_on = Util.split_on

let csv (s : string) : string list = if s = "-" then [] else split_on ',' s
let lits (s : string) : n list = List.map n_of_str (csv s)

let parse_latch (s : string) : latch =
  match String.split_on_char ':' s with
  | [st; nx; ini] ->
      { l_state = n_of_str st; l_next = n_of_str nx;
        l_init = (match ini with "0" -> Some false | "1" -> Some true | _ -> None) }
  | _ -> failwith ("bad latch " ^ s)

let parse_gate (s : string) : and_gate =
  match String.split_on_char ':' s with
  | [o; a; b] -> { g_in0 = n_of_str a; g_in1 = n_of_str b; g_out = n_of_str o }
  | _ -> failwith ("bad gate " ^ s)

let parse_group (s : string) : n list =
  if s = "_" then [] else List.map n_of_str (split_on '.' s)

let show_list (f : 'a -> string) (l : 'a list) : string =
  if l = [] then "-" else String.concat "," (List.map f l)

let show_init (i : bool option) : string =
  match i with Some false -> "0" | Some true -> "1" | None -> "x"

let show_group (g : n list) : string =
  if g = [] then "_" else String.concat "." (List.map str_of_n g)

module IS = Set.Make (struct type t = BZ.t let compare = BZ.compare end)

let run (toks : string list) : string =
  match toks with
  | [cfg; ins; las; outs; bad; cons; jus; fair; gates] ->
      let c = int_of_string cfg in
      let config = { c_trim = c land 1 <> 0; c_strash = c land 2 <> 0; c_fold = c land 4 <> 0 } in
      let a = { a_maxvar = N0; a_inputs = lits ins; a_latches = List.map parse_latch (csv las);
                a_outputs = lits outs; a_bad = lits bad; a_constraints = lits cons;
                a_justice = List.map parse_group (csv jus); a_fairness = lits fair;
                a_gates = List.map parse_gate (csv gates) } in
      begin match renumber_aig config a with
      | RnErr (LitAlreadyDefined l) -> "err redefined " ^ str_of_n l
      | RnErr (LitNotDefined l) -> "err undefined " ^ str_of_n l
      | RnErr (FoundCycle l) -> "err cycle " ^ str_of_n l
      | RnPanic -> "PANIC !unwrap"
      | RnOutOfFuel -> "FUEL"
      | RnOk (o, r) ->
          let all = ref IS.empty in
          let add x = all := IS.add (z_of_n x) !all in
          List.iter add a.a_inputs;
          List.iter (fun l -> add l.l_state; add l.l_next) a.a_latches;
          List.iter add a.a_outputs; List.iter add a.a_bad; List.iter add a.a_constraints;
          List.iter (List.iter add) a.a_justice; List.iter add a.a_fairness;
          List.iter (fun g -> add g.g_out; add g.g_in0; add g.g_in1) a.a_gates;
          let entry z =
            BZ.to_string z ^ ">" ^
            (match lm_get r.r_map (n_of_z z) with Some t -> str_of_n t | None -> "none") in
          let back = aig_of_ordered o in
          Printf.sprintf "ok M=%s I=%s L=%s O=%s B=%s C=%s J=%s F=%s G=%s A=%s/%s/%s map=%s"
            (str_of_n o.o_maxvar) (str_of_n o.o_input_count)
            (show_list (fun (nx, ini) -> str_of_n nx ^ ":" ^ show_init ini) o.o_latches)
            (show_list str_of_n o.o_outputs) (show_list str_of_n o.o_bad)
            (show_list str_of_n o.o_constraints) (show_list show_group o.o_justice)
            (show_list str_of_n o.o_fairness)
            (show_list (fun (x, y) -> str_of_n x ^ ":" ^ str_of_n y) o.o_gates)
            (show_list str_of_n back.a_inputs)
            (show_list (fun l -> str_of_n l.l_state) back.a_latches)
            (show_list (fun g -> str_of_n g.g_out) back.a_gates)
            (show_list entry (IS.elements !all))
      end
  | _ -> failwith "rn: expected 9 fields"
