(* LayoutProofs.v — C07 (layout independence) and C03 (writer / parser round trip) for the DIMACS family:
   on the rendering of a document of the format's domain in any well-formed layout, every admissible run of
   parse_dimacs returns exactly the document and the clean end of the input. *)
From Flussab Require Import Base Reader ListN Writer Parsed Prog Text TextSpec ProgProofs ScanProofs DecimalProofs DigitsProofs RoundTrip.
From Flussab Require Import ReaderProofs Simulation Consts Cnf CnfProofs ErrProofs Hoare CnfSafe Layout LayoutTok LayoutClause.
Ltac Zify.zify_post_hook ::= Z.to_euclidean_division_equations.

(* ================================================================== *)
(* 1. the text after a line-ending token                                *)

Definition cls_ok (k : dkind) (cls : list clause_lay) : Prop := forallb (clause_lay_ok k) cls = true.

Lemma dcl_ok k : clause_lay_ok k dcl = true.
Proof. destruct k; reflexivity. Qed.

Lemma cls_ok_hd k cls : cls_ok k cls -> clause_lay_ok k (hd dcl cls) = true /\ cls_ok k (tl cls).
Proof.
  destruct cls as [|cl cls]; [intros _; split; [apply dcl_ok|reflexivity]|]. unfold cls_ok. cbn [forallb hd tl]. intros H.
  apply andb_prop in H. exact H.
Qed.

(* the line break after a line-ending token, seen from what follows *)
Definition tn_break (items : list (Z * list Z)) (cls : list clause_lay) (fin : fin_lay) : lbreak :=
  match items with
  | [] => match fin with FinEof _ => plain_break | FinNl lb _ => lb end
  | _ :: _ => cl_before (hd dcl cls)
  end.

(* what is left after that line's end *)
Definition tail_R (k : dkind) (items : list (Z * list Z)) (cls : list clause_lay) (fin : fin_lay) : bytes :=
  after_break (tn_break items cls fin) (body_bytes k items cls fin (fin_last fin)).

Lemma fin_ok_inv fin : fin_ok fin = true ->
  last_ok (fin_last fin) = true /\
  match fin with FinEof t => blank_ok t = true | FinNl lb _ => lbreak_ok lb = true end.
Proof.
  destruct fin as [t|lb last]; cbn [fin_ok fin_last last_ok]; [intros H; split; [reflexivity|exact H]|].
  intros H. apply andb_prop in H. destruct H. split; assumption.
Qed.

Lemma tn_break_ok k items cls fin : cls_ok k cls -> fin_ok fin = true -> lbreak_ok (tn_break items cls fin) = true.
Proof.
  intros Hc Hf. destruct items as [|it items]; cbn [tn_break].
  - destruct (fin_ok_inv fin Hf) as [_ H]. destruct fin; [reflexivity|exact H].
  - destruct (cls_ok_hd k cls Hc) as [H _]. apply clause_lay_ok_inv in H. tauto.
Qed.

Lemma break_ending lb (x : bytes) : lbreak_ok lb = true -> ending (lbreak_then lb x) (after_break lb x).
Proof.
  intros H. apply lbreak_ok_inv in H. destruct H as (Ht & _).
  exists (lb_trail lb), (eol_bytes (lb_crlf lb) ++ after_break lb x). split; [reflexivity|].
  destruct (eol_hd (lb_crlf lb) (after_break lb x)) as (h1 & h2 & _).
  split; [split; [exact Ht|split; [exact h2|right; exact h1]]|]. right. exists (lb_crlf lb). reflexivity.
Qed.

Lemma tail_ending k items cls fin :
  cls_ok k cls -> fin_ok fin = true -> ending (tail_bytes k items cls fin) (tail_R k items cls fin).
Proof.
  intros Hc Hf. unfold tail_R. destruct items as [|it items]; cbn [tail_bytes tn_break body_bytes].
  - destruct (fin_ok_inv fin Hf) as [_ H]. destruct fin as [t|lb last]; cbn [fin_bytes fin_last].
    + exists t, []. split; [rewrite app_nil_r; reflexivity|]. split; [split; [exact H|split; [exact I|right; exact I]]|].
      left. split; reflexivity.
    + apply break_ending. exact H.
  - apply break_ending. destruct (cls_ok_hd k cls Hc) as [H _]. apply clause_lay_ok_inv in H. tauto.
Qed.

Lemma optc_nbl last (x : bytes) : nbl x -> nbl (optc last ++ x).
Proof. destruct last; cbn; auto. Qed.

Lemma body_nbl k items cls fin last : nbl (body_bytes k items cls fin last).
Proof.
  destruct items as [|it items]; cbn [body_bytes]; [destruct last; cbn; auto|].
  apply stop_nbl. apply (clausehd_stop _ (clause_bytes_hd k it (hd dcl cls) _)).
Qed.

Lemma items_len k items cls fin last : (length items <= length (body_bytes k items cls fin last))%nat.
Proof.
  assert (Hc : forall it cl (T : bytes), (1 <= length (clause_bytes k it cl ++ T))%nat).
  { intros it cl T. pose proof (clause_bytes_hd k it cl T) as H. destruct (clause_bytes k it cl ++ T); [destruct H|cbn [length]; lia]. }
  assert (Ht : forall its cs, (length its <= length (tail_bytes k its cs fin))%nat).
  { induction its as [|it0 its IH]; intros cs; [cbn; lia|]. cbn [tail_bytes length].
    unfold lbreak_then, after_break. rewrite !app_length. specialize (IH (tl cs)).
    pose proof (numeral_nonempty (fst (cl_term (hd dcl cs))) (snd (cl_term (hd dcl cs))) 0) as Hn.
    assert (1 <= length (clause_bytes k it0 (hd dcl cs)))%nat; [|lia].
    unfold clause_bytes. rewrite !app_length.
    destruct (numeral (fst (cl_term (hd dcl cs))) (snd (cl_term (hd dcl cs))) 0); [congruence|cbn [length]; lia]. }
  destruct items as [|it items]; [cbn; lia|]. cbn [body_bytes length]. rewrite app_length.
  specialize (Ht items (tl cls)).
  pose proof (numeral_nonempty (fst (cl_term (hd dcl cls))) (snd (cl_term (hd dcl cls))) 0) as Hn.
  assert (1 <= length (clause_bytes k it (hd dcl cls)))%nat; [|lia].
  unfold clause_bytes. rewrite !app_length.
  destruct (numeral (fst (cl_term (hd dcl cls))) (snd (cl_term (hd dcl cls))) 0); [congruence|cbn [length]; lia].
Qed.

(* ================================================================== *)
Section Doc.
Variable fuel : nat.
Local Notation At := (At fuel).
Local Notation Yields := (Yields fuel).

(* ================================================================== *)
(* 2. the driving loop                                                  *)

(* when the header's clause count is in force, the clauses still to come are exactly the missing ones *)
Definition count_ok (st : pstate) (m : nat) : Prop :=
  clause_limit_active st = true -> (clause_count st + Z.of_nat m = clause_limit st)%Z.

Lemma count_ok_try st m : count_ok st (S m) -> try_clause st = true.
Proof.
  unfold count_ok, try_clause. intros H. destruct (clause_limit_active st); [|apply orb_true_r].
  specialize (H eq_refl). rewrite orb_false_r. apply negb_true_iff. apply Z.eqb_neq. lia.
Qed.

Lemma count_ok_end st : count_ok st 0 -> may_end st = true.
Proof.
  unfold count_ok, may_end. intros H. destruct (clause_limit_active st); [|reflexivity].
  specialize (H eq_refl). cbn [negb orb]. apply Z.leb_le. lia.
Qed.

Lemma count_ok_step st m : count_ok st (S m) -> count_ok (st_step st) m.
Proof. unfold count_ok, st_step. cbn [clause_limit_active clause_count clause_limit]. intros H Ha. specialize (H Ha). lia. Qed.

Lemma next_clause_item_At k st lead f it cl (T R : bytes) lr v :
  try_clause st = true ->
  (lit_limit st <= ity_max Isize)%Z -> (group_limit st <= USIZE_MAX)%Z ->
  item_ok k (lit_limit st) (group_limit st) it = true -> clause_lay_ok k cl = true -> ending T R ->
  blank_ok lead = true -> filler_ok f = true ->
  At v (lead ++ filler_bytes f ++ clause_bytes k it cl ++ T) ->
  prt (next_clause fuel k st) lr v (Yields (Ok (Some it), st_step st) R).
Proof.
  intros Htry Hlim Hglim Hit Hcl HT Hlead Hf HA. unfold next_clause.
  eapply prt_bind_Y.
  { apply (skip_whitespace_At fuel lead (filler_bytes f ++ clause_bytes k it cl ++ T)); [exact Hlead| |exact HA].
    apply filler_nbl. apply stop_nbl. apply (clausehd_stop _ (clause_bytes_hd k it cl T)). }
  intros lr1 v1 HA1. cbv beta.
  apply (ncl_clause_At fuel k st f it cl T R); try assumption.
  pose proof (At_fuel _ _ _ HA1) as H. rewrite app_length in H. pose proof (filler_len f). lia.
Qed.

Lemma next_clause_end_At k st lead f last lr v :
  may_end st = true -> blank_ok lead = true -> filler_ok f = true -> last_ok last = true ->
  At v (lead ++ filler_bytes f ++ optc last) ->
  prt (next_clause fuel k st) lr v (Yields (Ok None, st) []).
Proof.
  intros Hend Hlead Hf Hlast HA. unfold next_clause.
  eapply prt_bind_Y.
  { apply (skip_whitespace_At fuel lead (filler_bytes f ++ optc last)); [exact Hlead| |exact HA].
    apply filler_nbl. destruct last; cbn; auto. }
  intros lr1 v1 HA1. cbv beta.
  apply (ncl_end_At fuel k st f last); try assumption.
  pose proof (At_fuel _ _ _ HA1) as H. rewrite app_length in H. pose proof (filler_len f).
  destruct last; cbn [optc last_steps length] in *; lia.
Qed.

Lemma drive_At k fin : forall items cls n st acc lead fill last lr v,
  (lit_limit st <= ity_max Isize)%Z -> (group_limit st <= USIZE_MAX)%Z ->
  forallb (item_ok k (lit_limit st) (group_limit st)) items = true ->
  cls_ok k cls -> fin_ok fin = true -> blank_ok lead = true -> filler_ok fill = true -> last_ok last = true ->
  count_ok st (length items) ->
  At v (lead ++ filler_bytes fill ++ body_bytes k items cls fin last) -> (length items < n)%nat ->
  prt (drive fuel n k st acc) lr v (Yields (rev acc ++ items, FOk) []).
Proof.
  induction items as [|it items IH]; intros cls n st acc lead fill last lr v Hlim Hglim Hits Hcls Hfin Hlead Hfill Hlast Hcnt HA Hn;
    (destruct n as [|n]; [lia|]); cbn [drive body_bytes] in *.
  - eapply prt_bind_Y.
    { apply (next_clause_end_At k st lead fill last); try assumption.
      apply count_ok_end. exact Hcnt. }
    intros lr1 v1 HA1. cbv beta iota. rewrite app_nil_r. apply prt_ret_Y. exact HA1.
  - cbn [forallb] in Hits. apply andb_prop in Hits. destruct Hits as [Hit Hits].
    destruct (cls_ok_hd k cls Hcls) as [Hcl Hcls'].
    cbn [length] in Hcnt, Hn.
    eapply prt_bind_Y.
    { apply (next_clause_item_At k st lead fill it (hd dcl cls) (tail_bytes k items (tl cls) fin) (tail_R k items (tl cls) fin));
        try assumption.
      - eapply count_ok_try. exact Hcnt.
      - apply tail_ending; assumption. }
    intros lr1 v1 HA1. cbv beta iota.
    replace (rev acc ++ it :: items) with (rev (it :: acc) ++ items) by (cbn [rev]; rewrite <- app_assoc; reflexivity).
    pose proof (tn_break_ok k items (tl cls) fin Hcls' Hfin) as Hb. apply lbreak_ok_inv in Hb. destruct Hb as (_ & Hb2 & Hb3).
    apply (IH (tl cls) n (st_step st) (it :: acc) (lb_lead (tn_break items (tl cls) fin)) (lb_fill (tn_break items (tl cls) fin))
              (fin_last fin)); try assumption.
    + apply (fin_ok_inv fin Hfin).
    + apply count_ok_step. exact Hcnt.
    + lia.
Qed.

(* ================================================================== *)
(* 3. the header                                                        *)

Lemma hs_unfold n :
  header_skip fuel (S n) =
  (let* c := matches_tok (comment fuel) in
   match c with
   | Err e => pret (Err e)
   | Ok true => header_skip fuel n
   | Ok false =>
       let* nl := matches_tok (tnewline fuel false) in
       match nl with
       | Err e => pret (Err e)
       | Ok true => header_skip fuel n
       | Ok false => pret (Ok tt)
       end
   end).
Proof. reflexivity. Qed.

Lemma hs_filler f : forall n m (X : bytes) (P : result unit perr -> lrs -> view -> Prop) lr v,
  (forall n' lr' v', At v' X -> (m < n')%nat -> prt (header_skip fuel n') lr' v' P) ->
  filler_ok f = true -> nbl X -> At v (filler_bytes f ++ X) -> (length f + m < n)%nat ->
  prt (header_skip fuel n) lr v P.
Proof.
  induction f as [|[l b] f IH]; intros n m X P lr v Hbase Hf HX HA Hn.
  - apply Hbase; [exact HA|cbn [length] in Hn; lia].
  - destruct n as [|n]; [lia|]. rewrite hs_unfold.
    cbn [filler_ok forallb fst snd] in Hf. apply andb_prop in Hf. destruct Hf as [Hlb Hf].
    apply andb_prop in Hlb. destruct Hlb as [Hl Hb].
    cbn [filler_bytes] in HA. rewrite <- !app_assoc in HA.
    pose proof (filler_nbl f X HX) as Hnb. cbn [length] in Hn.
    destruct l as [body|crlf]; cbn [fline_bytes fline_ok] in *.
    + cbn [app] in HA. rewrite <- app_assoc in HA. cbn [app] in HA.
      eapply prt_bind_Y; [eapply matches_At, (comment_At fuel body b (filler_bytes f ++ X)); [exact Hl|exact Hb|exact Hnb|exact HA]|].
      intros lr1 v1 HA1. cbv beta iota.
      apply (IH n m X P); [exact Hbase|exact Hf|exact HX|exact HA1|lia].
    + destruct (eol_hd crlf (b ++ filler_bytes f ++ X)) as (_ & _ & h4 & _).
      eapply prt_bind_Y; [apply matches_ft_At, comment_ft_At; [exact HA|exact h4]|]. intros lr1 v1 HA1. cbv beta iota.
      eapply prt_bind_Y; [eapply matches_At, (tnewline_At fuel crlf b (filler_bytes f ++ X)); [exact Hb|exact Hnb|exact HA1]|].
      intros lr2 v2 HA2. cbv beta iota.
      apply (IH n m X P); [exact Hbase|exact Hf|exact HX|exact HA2|lia].
Qed.

Lemma hs_stop_base (X : bytes) n lr v :
  stop X -> At v X -> (0 < n)%nat -> prt (header_skip fuel n) lr v (Yields (Ok tt) X).
Proof.
  intros HX HA Hn. destruct n as [|n]; [lia|]. rewrite hs_unfold. destruct (stop_nonl X HX) as [h1 h2].
  eapply prt_bind_Y; [apply matches_ft_At, comment_ft_At; [exact HA|exact h2]|]. intros lr1 v1 HA1. cbv beta iota.
  eapply prt_bind_Y; [apply matches_ft_At, tnewline_ft_At; [exact HA1|exact h1]|]. intros lr2 v2 HA2. cbv beta iota.
  apply prt_ret_Y. exact HA2.
Qed.

(* filler lines, then something that is neither a comment nor a line end *)
Lemma header_skip_At f (X : bytes) lr v :
  filler_ok f = true -> stop X -> At v (filler_bytes f ++ X) ->
  prt (header_skip fuel fuel) lr v (Yields (Ok tt) X).
Proof.
  intros Hf HX HA. apply (hs_filler f fuel 0%nat X); [|exact Hf|apply stop_nbl, HX|exact HA|].
  - intros n' lr' v' HA' Hn'. apply hs_stop_base; assumption.
  - pose proof (At_fuel _ _ _ HA) as H. rewrite app_length in H. pose proof (filler_len f). lia.
Qed.

(* filler lines, then a last comment line without LF *)
Lemma header_skip_last_At f (body : bytes) lr v :
  filler_ok f = true -> body_ok body = true -> At v (filler_bytes f ++ 99 :: body) ->
  prt (header_skip fuel fuel) lr v (Yields (Ok tt) []).
Proof.
  intros Hf Hbody HA. apply (hs_filler f fuel 1%nat (99 :: body)); [|exact Hf|reflexivity|exact HA|].
  - intros n' lr' v' HA' Hn'. destruct n' as [|n']; [lia|]. rewrite hs_unfold.
    eapply prt_bind_Y; [eapply matches_At, comment_eof_At; [exact Hbody|exact HA']|]. intros lr1 v1 HA1. cbv beta iota.
    apply hs_stop_base; [exact I|exact HA1|lia].
  - pose proof (At_fuel _ _ _ HA) as H. rewrite app_length in H. pose proof (filler_len f). cbn [length] in H. lia.
Qed.

Lemma sep_tokend (b x : bytes) : sep_ok b = true -> nbl x -> tokend b x.
Proof. intros Hb Hx. apply sep_ok_inv in Hb. destruct Hb as [H1 H2]. split; [exact H2|]. split; [exact Hx|left; exact H1]. Qed.

Lemma header_lay_ok_inv hl : header_lay_ok hl = true ->
  sep_ok (hl_sep1 hl) = true /\ sep_ok (hl_sep2 hl) = true /\ sep_ok (hl_sep3 hl) = true /\ sep_ok (hl_sep4 hl) = true.
Proof.
  unfold header_lay_ok. intros H. apply andb_prop in H. destruct H as [H H4]. apply andb_prop in H. destruct H as [H H3].
  apply andb_prop in H. destruct H as [H1 H2]. auto.
Qed.

Lemma header_ok_inv k maxd h : header_ok k maxd h = true ->
  (0 <= h_vars h)%Z /\ (h_vars h <= maxd)%Z /\ in_range Usize (h_vars h) = true /\
  in_range Usize (h_clauses h) = true /\ extra_ok k (h_extra h) = true.
Proof.
  unfold header_ok. intros H. apply andb_prop in H. destruct H as [H H5]. apply andb_prop in H. destruct H as [H H4].
  apply andb_prop in H. destruct H as [H H3]. apply andb_prop in H. destruct H as [H1 H2].
  apply Z.leb_le in H1, H2. auto.
Qed.

Lemma usize_nonneg z : in_range Usize z = true -> (0 <= z)%Z.
Proof. intros H. apply in_range_iff in H. cbn in H. lia. Qed.

Lemma extra_nonneg k x : extra_ok k x = true -> (0 <= x)%Z.
Proof.
  destruct k; cbn [extra_ok]; intros H; [apply Z.eqb_eq in H; lia|apply in_range_nonneg_u64; exact H|apply usize_nonneg; exact H].
Qed.

(* the text of the header after the clause count: its separator and what follows *)
Definition hdr_b4 (k : dkind) (hl : header_lay) (trail : bytes) : bytes :=
  match k with KCnf => trail | _ => hl_sep4 hl end.
Definition hdr_x4 (k : dkind) (h : header) (hl : header_lay) (trail E : bytes) : bytes :=
  match k with KCnf => E | _ => unum (hl_extra hl) (h_extra h) ++ trail ++ E end.

Lemma header_bytes_split k h hl (trail E : bytes) :
  header_bytes k h hl ++ trail ++ E =
  kw_p ++ hl_sep1 hl ++ kind_word k ++ hl_sep2 hl ++ unum (hl_vars hl) (h_vars h) ++ hl_sep3 hl ++
  unum (hl_clauses hl) (h_clauses h) ++ hdr_b4 k hl trail ++ hdr_x4 k h hl trail E.
Proof. unfold header_bytes. destruct k; cbn [hdr_b4 hdr_x4]; rewrite <- !app_assoc; reflexivity. Qed.

Lemma kind_word_hd k (x : bytes) : nbl (kind_word k ++ x) /\ kind_word k <> [].
Proof. destruct k; cbn; split; auto; discriminate. Qed.

Lemma parse_header_At k maxd h hl lead f (T R : bytes) lr v :
  header_ok k maxd h = true -> header_lay_ok hl = true -> blank_ok lead = true -> filler_ok f = true -> ending T R ->
  At v (lead ++ filler_bytes f ++ header_bytes k h hl ++ T) ->
  prt (parse_header fuel k maxd) lr v (Yields (Ok (Some h)) R).
Proof.
  intros Hh Hhl Hlead Hf (trail & E & -> & Htr & HE) HA.
  destruct (header_ok_inv k maxd h Hh) as (Hv0 & Hvm & Hvr & Hcr & Hex).
  destruct (header_lay_ok_inv hl Hhl) as (Hs1 & Hs2 & Hs3 & Hs4).
  pose proof (usize_nonneg _ Hcr) as Hc0. pose proof (extra_nonneg k _ Hex) as Hx0.
  rewrite header_bytes_split in HA.
  unfold parse_header.
  eapply prt_bind_Y.
  { apply (skip_whitespace_At fuel lead); [exact Hlead| |exact HA]. apply filler_nbl. reflexivity. }
  intros lr1 v1 HA1. cbv beta.
  eapply prt_bind_Y; [apply (header_skip_At f); [exact Hf| |exact HA1]|].
  { unfold kw_p, stop. cbn [app]. split; [reflexivity|lia]. }
  intros lr2 v2 HA2. cbv beta iota.
  destruct (kind_word_hd k (hl_sep2 hl ++ unum (hl_vars hl) (h_vars h) ++ hl_sep3 hl ++
              unum (hl_clauses hl) (h_clauses h) ++ hdr_b4 k hl trail ++ hdr_x4 k h hl trail E)) as [Hkw1 Hkw2].
  eapply prt_bind_Y; [apply (word_At fuel kw_p (hl_sep1 hl)); [discriminate|exact HA2|apply sep_tokend; assumption]|].
  intros lr3 v3 HA3. cbv beta iota.
  eapply prt_bind_Y.
  { apply or_unexpected_At. apply (word_At fuel (kind_word k) (hl_sep2 hl)); [exact Hkw2|exact HA3|].
    apply sep_tokend; [exact Hs2|]. unfold unum. apply numhd_nbl, numeral_numhd. }
  intros lr4 v4 HA4. cbv beta iota.
  eapply prt_bind_Y.
  { apply or_unexpected_At. unfold unum in HA4.
    eapply (var_count_At fuel maxd (hl_vars hl) (Z.to_N (h_vars h)) (hl_sep3 hl)); [exact HA4| | |].
    - apply sep_tokend; [exact Hs3|]. unfold unum. apply numhd_nbl, numeral_numhd.
    - rewrite Z2N.id by exact Hv0. exact Hvr.
    - rewrite Z2N.id by exact Hv0. exact Hvm. }
  intros lr5 v5 HA5. cbv beta iota.
  assert (Htok4 : tokend (hdr_b4 k hl trail) (hdr_x4 k h hl trail E)).
  { destruct k; cbn [hdr_b4 hdr_x4]; [exact Htr| |];
      (apply sep_tokend; [exact Hs4|]; unfold unum; apply numhd_nbl, numeral_numhd). }
  eapply prt_bind_Y.
  { apply or_unexpected_At. unfold unum in HA5.
    eapply (uint_count_At fuel Usize (hl_clauses hl) (Z.to_N (h_clauses h))); [exact HA5|exact Htok4|].
    rewrite Z2N.id by exact Hc0. exact Hcr. }
  intros lr6 v6 HA6. cbv beta iota.
  assert (Hfinal : forall lr' v', At v' E ->
            prt (let* eol := or_unexpected (interactive_end_of_line fuel) in
                 match eol with
                 | Err e => pret (Err e)
                 | Ok _ => pret (Ok (Some {| h_vars := Z.of_N (Z.to_N (h_vars h)); h_clauses := Z.of_N (Z.to_N (h_clauses h));
                                             h_extra := h_extra h |}))
                 end) lr' v' (Yields (Ok (Some h)) R)).
  { intros lr' v' HA'.
    eapply prt_bind_Y; [apply or_unexpected_At, (interactive_end_of_line_At fuel E R); assumption|].
    intros lr8 v8 HA8. cbv beta iota. rewrite !Z2N.id by assumption. destruct h. apply prt_ret_Y. exact HA8. }
  destruct k; cbn [hdr_x4 extra_ok] in *.
  - apply Z.eqb_eq in Hex.
    eapply prt_bind_Y; [apply prt_ret_Y; exact HA6|]. intros lr7 v7 HA7. cbv beta iota.
    rewrite <- Hex. apply Hfinal. exact HA7.
  - eapply prt_bind_Y.
    { apply or_unexpected_At. unfold unum in HA6.
      eapply (uint_count_At fuel U64 (hl_extra hl) (Z.to_N (h_extra h))); [exact HA6|exact Htr|].
      rewrite Z2N.id by exact Hx0. exact Hex. }
    intros lr7 v7 HA7. cbv beta iota. rewrite (Z2N.id (h_extra h)) by exact Hx0. apply Hfinal. exact HA7.
  - eapply prt_bind_Y.
    { apply or_unexpected_At. unfold unum in HA6.
      eapply (uint_count_At fuel Usize (hl_extra hl) (Z.to_N (h_extra h))); [exact HA6|exact Htr|].
      rewrite Z2N.id by exact Hx0. exact Hex. }
    intros lr7 v7 HA7. cbv beta iota. rewrite (Z2N.id (h_extra h)) by exact Hx0. apply Hfinal. exact HA7.
Qed.

(* no header: the filler is followed by the first clause, by the end of the input, or by a last comment line *)
Lemma parse_header_none_At k maxd lead f items cls fin last lr v :
  blank_ok lead = true -> filler_ok f = true -> last_ok last = true ->
  At v (lead ++ filler_bytes f ++ body_bytes k items cls fin last) ->
  prt (parse_header fuel k maxd) lr v (Yields (Ok None) (body_bytes k items cls fin None)).
Proof.
  intros Hlead Hf Hlast HA. unfold parse_header.
  eapply prt_bind_Y.
  { apply (skip_whitespace_At fuel lead); [exact Hlead| |exact HA]. apply filler_nbl. apply body_nbl. }
  intros lr1 v1 HA1. cbv beta.
  destruct items as [|it items]; cbn [body_bytes] in *.
  - destruct last as [body|]; cbn [optc last_ok] in *.
    + eapply prt_bind_Y; [apply (header_skip_last_At f body); assumption|]. intros lr2 v2 HA2. cbv beta iota.
      eapply prt_bind_Y; [apply (word_ft_At fuel 112 [] []); [exact HA2|exact I]|].
      intros lr3 v3 HA3. cbv beta iota. apply prt_ret_Y. exact HA3.
    + eapply prt_bind_Y; [apply (header_skip_At f []); [exact Hf|exact I|exact HA1]|]. intros lr2 v2 HA2. cbv beta iota.
      eapply prt_bind_Y; [apply (word_ft_At fuel 112 [] []); [exact HA2|exact I]|].
      intros lr3 v3 HA3. cbv beta iota. apply prt_ret_Y. exact HA3.
  - destruct (clausehd_stop _ (clause_bytes_hd k it (hd dcl cls) (tail_bytes k items (tl cls) fin))) as [Hst Hnp].
    eapply prt_bind_Y; [apply (header_skip_At f); [exact Hf|exact Hst|exact HA1]|]. intros lr2 v2 HA2. cbv beta iota.
    eapply prt_bind_Y; [apply (word_ft_At fuel 112 []); [exact HA2|exact Hnp]|].
    intros lr3 v3 HA3. cbv beta iota. apply prt_ret_Y. exact HA3.
Qed.


(* ================================================================== *)
(* 4. Parser::new and the whole parse                                   *)

(* the parser state Parser::new derives from the header *)
Definition st_of (ih : bool) (maxd : Z) (oh : option header) : pstate :=
  match oh with
  | None => {| clause_count := 0; clause_limit := 0; clause_limit_active := false; lit_limit := maxd;
               group_limit := USIZE_MAX; phdr := None |}
  | Some hd => {| clause_count := 0;
                  clause_limit := if negb ih && negb (h_clauses hd =? 0)%Z then h_clauses hd else 0%Z;
                  clause_limit_active := negb ih && negb (h_clauses hd =? 0)%Z;
                  lit_limit := if negb ih && negb (h_vars hd =? 0)%Z then h_vars hd else maxd;
                  group_limit := if negb ih && negb (h_extra hd =? 0)%Z then h_extra hd else USIZE_MAX;
                  phdr := Some hd |}
  end.

Lemma parser_new_hdr_At k maxd ih h hl lead f (T R : bytes) lr v :
  header_ok k maxd h = true -> header_lay_ok hl = true -> blank_ok lead = true -> filler_ok f = true -> ending T R ->
  At v (lead ++ filler_bytes f ++ header_bytes k h hl ++ T) ->
  prt (parser_new fuel k maxd ih) lr v (Yields (Ok (st_of ih maxd (Some h))) R).
Proof.
  intros Hh Hhl Hlead Hf HT HA. unfold parser_new.
  eapply prt_bind_Y; [apply (parse_header_At k maxd h hl lead f T R); assumption|].
  intros lr1 v1 HA1. cbv beta iota. apply prt_ret_Y. exact HA1.
Qed.

Lemma At_s_take v r : At v r -> s_take v = None.
Proof.
  intros (_ & Hf & _). unfold s_take, v_err_now. rewrite Hf. destruct (vknown v); [destruct (vtaken v)|]; reflexivity.
Qed.

Lemma parser_new_none_At k maxd ih lead f items cls fin last lr v :
  blank_ok lead = true -> filler_ok f = true -> last_ok last = true ->
  At v (lead ++ filler_bytes f ++ body_bytes k items cls fin last) ->
  prt (parser_new fuel k maxd ih) lr v (Yields (Ok (st_of ih maxd None)) (body_bytes k items cls fin None)).
Proof.
  intros Hlead Hf Hlast HA. unfold parser_new.
  eapply prt_bind_Y; [apply (parse_header_none_At k maxd lead f items cls fin last); assumption|].
  intros lr1 v1 HA1. cbv beta iota.
  apply prt_pbnd, prt_takeerr. rewrite (At_s_take _ _ HA1). apply prt_ret_Y. exact HA1.
Qed.

Lemma lit_limit_st_of ih maxd oh : lit_limit (st_of ih maxd oh) = lit_limit_of ih maxd oh.
Proof. destruct oh; reflexivity. Qed.
Lemma group_limit_st_of ih maxd oh : group_limit (st_of ih maxd oh) = group_limit_of ih oh.
Proof. destruct oh; reflexivity. Qed.
Lemma phdr_st_of ih maxd oh : phdr (st_of ih maxd oh) = oh.
Proof. destruct oh; reflexivity. Qed.

Lemma lay_ok_inv k lay : lay_ok k lay = true ->
  blank_ok (l_lead lay) = true /\ filler_ok (l_fill lay) = true /\ header_lay_ok (l_hdr lay) = true /\
  cls_ok k (l_clauses lay) /\ fin_ok (l_fin lay) = true.
Proof.
  unfold lay_ok. intros H. apply andb_prop in H. destruct H as [H H5]. apply andb_prop in H. destruct H as [H H4].
  apply andb_prop in H. destruct H as [H H3]. apply andb_prop in H. destruct H as [H1 H2]. unfold cls_ok. auto.
Qed.

Lemma limits_ok ih k maxd d :
  (maxd <= ity_max Isize)%Z -> doc_ok ih k maxd d = true ->
  (lit_limit_of ih maxd (d_hdr d) <= ity_max Isize)%Z /\ (group_limit_of ih (d_hdr d) <= USIZE_MAX)%Z.
Proof.
  intros Hm Hd. unfold doc_ok in Hd. apply andb_prop in Hd. destruct Hd as [Hd _].
  destruct (d_hdr d) as [h|]; cbn [lit_limit_of group_limit_of]; [|split; [exact Hm|lia]].
  apply andb_prop in Hd. destruct Hd as [Hh _]. destruct (header_ok_inv k maxd h Hh) as (Hv0 & Hvm & _ & _ & Hex).
  split.
  - destruct (negb ih && negb (h_vars h =? 0)%Z); lia.
  - destruct (negb ih && negb (h_extra h =? 0)%Z); [|lia].
    destruct k; cbn [extra_ok] in Hex.
    + apply Z.eqb_eq in Hex. rewrite Hex. unfold USIZE_MAX. lia.
    + apply in_range_iff in Hex. cbn in Hex. unfold USIZE_MAX. lia.
    + apply in_range_iff in Hex. cbn in Hex. unfold USIZE_MAX. lia.
Qed.

(* THE theorem, from any state in which the rendered document is the unread input *)
Theorem parse_dimacs_render_At k maxd ih d lay lr v :
  (maxd <= ity_max Isize)%Z -> doc_ok ih k maxd d = true -> lay_ok k lay = true ->
  At v (render k d lay) ->
  prt (parse_dimacs fuel k maxd ih) lr v (Yields (Some (d_hdr d), d_items d, FOk) []).
Proof.
  intros Hm Hd Hl HA.
  destruct (limits_ok ih k maxd d Hm Hd) as [Hlim Hglim].
  destruct (lay_ok_inv k lay Hl) as (Hlead & Hfill & Hhl & Hcls & Hfin).
  pose proof Hd as Hd0. unfold doc_ok in Hd. apply andb_prop in Hd. destruct Hd as [Hhd Hits].
  unfold render in HA. unfold parse_dimacs.
  destruct (d_hdr d) as [h|] eqn:Eh.
  - apply andb_prop in Hhd. destruct Hhd as [Hh Hcount].
    eapply prt_bind_Y.
    { apply (parser_new_hdr_At k maxd ih h (l_hdr lay) (l_lead lay) (l_fill lay)
               (tail_bytes k (d_items d) (l_clauses lay) (l_fin lay)) (tail_R k (d_items d) (l_clauses lay) (l_fin lay)));
        try assumption. apply tail_ending; assumption. }
    intros lr1 v1 HA1. cbv beta iota.
    pose proof (tn_break_ok k (d_items d) (l_clauses lay) (l_fin lay) Hcls Hfin) as Hb.
    apply lbreak_ok_inv in Hb. destruct Hb as (_ & Hb2 & Hb3).
    eapply prt_bind_Y.
    { apply (drive_At k (l_fin lay) (d_items d) (l_clauses lay) fuel (st_of ih maxd (Some h)) []
               (lb_lead (tn_break (d_items d) (l_clauses lay) (l_fin lay)))
               (lb_fill (tn_break (d_items d) (l_clauses lay) (l_fin lay))) (fin_last (l_fin lay))); try assumption.
      - apply (fin_ok_inv _ Hfin).
      - unfold count_ok. cbn [st_of clause_limit_active clause_count clause_limit]. intros Hact. rewrite Hact.
        apply andb_prop in Hact. destruct Hact as [Hih Hact]. apply negb_true_iff in Hih, Hact.
        rewrite Hih, Hact in Hcount. cbn [orb] in Hcount. apply Z.eqb_eq in Hcount. lia.
      - pose proof (At_fuel _ _ _ HA1) as H. unfold tail_R, after_break in H. rewrite !app_length in H.
        pose proof (items_len k (d_items d) (l_clauses lay) (l_fin lay) (fin_last (l_fin lay))). lia. }
    intros lr2 v2 HA2. cbv beta iota. cbn [app rev]. apply prt_ret_Y. exact HA2.
  - eapply prt_bind_Y.
    { apply (parser_new_none_At k maxd ih (l_lead lay) (l_fill lay) (d_items d) (l_clauses lay) (l_fin lay) (fin_last (l_fin lay)));
        try assumption. apply (fin_ok_inv _ Hfin). }
    intros lr1 v1 HA1. cbv beta iota.
    eapply prt_bind_Y.
    { apply (drive_At k (l_fin lay) (d_items d) (l_clauses lay) fuel (st_of ih maxd None) [] [] [] None); try assumption;
        try reflexivity.
      - unfold count_ok. cbn [st_of clause_limit_active]. discriminate.
      - pose proof (At_fuel _ _ _ HA1) as H.
        pose proof (items_len k (d_items d) (l_clauses lay) (l_fin lay) None). lia. }
    intros lr2 v2 HA2. cbv beta iota. cbn [app rev]. apply prt_ret_Y. exact HA2.
Qed.

End Doc.

(* ================================================================== *)
(* 5. the rendered text is a byte string                                *)

Definition bok (l : bytes) : Prop := Forall (fun b => b < 256) l.

Lemma bok_app (a b : bytes) : bok a -> bok b -> bok (a ++ b).
Proof. intros Ha Hb. apply Forall_app. split; assumption. Qed.

Lemma blank_bok (b : bytes) : blank_ok b = true -> bok b.
Proof.
  unfold blank_ok, bok. intros H. apply Forall_forall. intros x Hx. rewrite forallb_forall in H. specialize (H x Hx).
  unfold is_blank in H. apply orb_prop in H. destruct H as [H|H]; apply N.eqb_eq in H; lia.
Qed.

Lemma sep_bok (b : bytes) : sep_ok b = true -> bok b.
Proof. intros H. apply blank_bok. apply (sep_ok_inv b H). Qed.

Lemma eol_bok crlf : bok (eol_bytes crlf).
Proof. destruct crlf; repeat constructor; lia. Qed.

Lemma fline_bok l : fline_ok l = true -> bok (fline_bytes l).
Proof.
  destruct l as [body|crlf]; cbn [fline_ok fline_bytes]; [|intros _; apply eol_bok].
  intros H. constructor; [lia|]. apply bok_app; [apply body_ok_bytes; exact H|repeat constructor; lia].
Qed.

Lemma filler_bok f : filler_ok f = true -> bok (filler_bytes f).
Proof.
  induction f as [|[l b] f IH]; cbn [filler_ok forallb filler_bytes fst snd]; intros H; [constructor|].
  apply andb_prop in H. destruct H as [Hlb Hf]. apply andb_prop in Hlb. destruct Hlb as [Hl Hb].
  apply bok_app; [apply fline_bok; exact Hl|]. apply bok_app; [apply blank_bok; exact Hb|apply IH; exact Hf].
Qed.

Lemma lbreak_then_bok lb (x : bytes) : lbreak_ok lb = true -> bok x -> bok (lbreak_then lb x).
Proof.
  intros H Hx. apply lbreak_ok_inv in H. destruct H as (H1 & H2 & H3). unfold lbreak_then, after_break.
  apply bok_app; [apply blank_bok; exact H1|]. apply bok_app; [apply eol_bok|].
  apply bok_app; [apply blank_bok; exact H2|]. apply bok_app; [apply filler_bok; exact H3|exact Hx].
Qed.

Lemma gap_bok strict g : gap_ok strict g = true -> bok (gap_bytes g).
Proof.
  destruct g as [b|lb]; cbn [gap_ok gap_bytes]; intros H.
  - destruct strict; [apply sep_bok|apply blank_bok]; exact H.
  - apply lbreak_then_bok; [exact H|constructor].
Qed.

Lemma lits_bok ls : forall ll, gaps_ok ll -> bok (lits_bytes ls ll).
Proof.
  induction ls as [|l ls IH]; intros ll Hll; cbn [lits_bytes]; [constructor|].
  destruct (gaps_ok_hd ll Hll) as [Hg Hll'].
  apply bok_app; [apply numeral_bytes_ok|]. apply bok_app; [apply (gap_bok true); exact Hg|apply IH; exact Hll'].
Qed.

Lemma clause_bok k it cl : clause_lay_ok k cl = true -> bok (clause_bytes k it cl).
Proof.
  intros H. destruct (clause_lay_ok_inv k cl H) as (_ & Hg & Hll). unfold clause_bytes.
  apply bok_app; [|apply bok_app; [apply lits_bok; exact Hll|apply numeral_bytes_ok]].
  destruct k; cbn [prefix_bytes].
  - constructor.
  - apply bok_app; [apply numeral_bytes_ok|apply (gap_bok true); exact Hg].
  - constructor; [lia|]. apply bok_app; [apply numeral_bytes_ok|]. apply bok_app; [repeat constructor; lia|apply (gap_bok false); exact Hg].
Qed.

Lemma header_bok k h hl : header_lay_ok hl = true -> bok (header_bytes k h hl).
Proof.
  intros H. destruct (header_lay_ok_inv hl H) as (H1 & H2 & H3 & H4). unfold header_bytes.
  apply bok_app; [repeat constructor; lia|]. apply bok_app; [apply sep_bok; exact H1|].
  apply bok_app; [destruct k; repeat constructor; lia|]. apply bok_app; [apply sep_bok; exact H2|].
  apply bok_app; [apply numeral_bytes_ok|]. apply bok_app; [apply sep_bok; exact H3|].
  apply bok_app; [apply numeral_bytes_ok|].
  destruct k; [constructor|apply bok_app; [apply sep_bok; exact H4|apply numeral_bytes_ok]..].
Qed.

Lemma optc_bok last : last_ok last = true -> bok (optc last).
Proof. destruct last as [body|]; cbn [last_ok optc]; intros H; [|constructor]. constructor; [lia|apply body_ok_bytes; exact H]. Qed.

Lemma tail_bok k fin items : forall cls, cls_ok k cls -> fin_ok fin = true -> bok (tail_bytes k items cls fin).
Proof.
  induction items as [|it items IH]; intros cls Hc Hf; cbn [tail_bytes].
  - destruct (fin_ok_inv fin Hf) as [Hl H]. destruct fin as [t|lb last]; cbn [fin_bytes fin_last] in *.
    + apply blank_bok. exact H.
    + apply lbreak_then_bok; [exact H|apply optc_bok; exact Hl].
  - destruct (cls_ok_hd k cls Hc) as [Hcl Hc']. destruct (clause_lay_ok_inv k _ Hcl) as (Hb & _).
    apply lbreak_then_bok; [exact Hb|]. apply bok_app; [apply clause_bok; exact Hcl|apply IH; assumption].
Qed.

Lemma render_bok k d lay : lay_ok k lay = true -> bok (render k d lay).
Proof.
  intros H. destruct (lay_ok_inv k lay H) as (Hlead & Hfill & Hhl & Hcls & Hfin). unfold render.
  apply bok_app; [apply blank_bok; exact Hlead|]. apply bok_app; [apply filler_bok; exact Hfill|].
  destruct (d_hdr d) as [h|].
  - apply bok_app; [apply header_bok; exact Hhl|apply tail_bok; assumption].
  - unfold body_bytes. destruct (d_items d) as [|it items].
    + apply optc_bok. apply (fin_ok_inv _ Hfin).
    + destruct (cls_ok_hd k _ Hcls) as [Hcl Hc']. apply bok_app; [apply clause_bok; exact Hcl|apply tail_bok; assumption].
Qed.

Lemma At_init fuel (S : bytes) :
  bok S -> nlen S < 2 ^ 62 -> (length S < fuel)%nat -> At fuel (view_init S None) S.
Proof.
  intros Hb Hl Hf. change (2 ^ 62) with 4611686018427387904 in Hl. split; [|split; reflexivity].
  unfold VOK, SOK, WFV, BytesOK, view_init; cbn [vS vhwm vcur vtaken].
  split; [lia|]. split; [split; [exact Hb|split; [exact Hf|exact Hl]]|]. split; [lia|reflexivity].
Qed.

(* ================================================================== *)
(* 6. the theorems                                                      *)

(* C07 / C03, for every admissible run (whatever happens to be buffered when the fast paths are tried):
   on the rendering of a document of the domain in a well-formed layout, parse_dimacs returns the document
   and the clean end of the input *)
Theorem parse_render_all_runs fuel k maxd ih d lay r :
  (maxd <= max_dimacs_isize)%Z -> doc_ok ih k maxd d = true -> lay_ok k lay = true ->
  (length (render k d lay) < fuel)%nat -> nlen (render k d lay) < 2 ^ 62 ->
  aruns (parse_dimacs fuel k maxd ih lrs_init) (view_init (render k d lay) None) r ->
  exists lr' v', r = ADone (Some (d_hdr d), d_items d, FOk, lr') v'.
Proof.
  intros Hm Hd Hl Hf Hlen Hr.
  pose proof (At_init fuel _ (render_bok k d lay Hl) Hlen Hf) as HA.
  destruct (prt_elim _ _ _ _ _ (parse_dimacs_render_At fuel k maxd ih d lay lrs_init _ Hm Hd Hl HA) Hr)
    as (a & lr' & v' & -> & -> & _).
  exists lr', v'. reflexivity.
Qed.
Print Assumptions parse_render_all_runs.

(* ... in particular the deterministic simple run *)
Theorem parse_render fuel k maxd ih d lay :
  (maxd <= max_dimacs_isize)%Z -> doc_ok ih k maxd d = true -> lay_ok k lay = true ->
  (length (render k d lay) < fuel)%nat -> nlen (render k d lay) < 2 ^ 62 ->
  exists lr' v', srun (parse_dimacs fuel k maxd ih lrs_init) (view_init (render k d lay) None)
                 = ADone (Some (d_hdr d), d_items d, FOk, lr') v'.
Proof.
  intros Hm Hd Hl Hf Hlen.
  apply (parse_render_all_runs fuel k maxd ih d lay _ Hm Hd Hl Hf Hlen).
  apply srun_aruns. unfold WFV. cbn. lia.
Qed.
Print Assumptions parse_render.

(* C07: two layouts of the same document give the same parse (only the line bookkeeping of the reader differs) *)
Corollary layout_independence fuel k maxd ih d lay1 lay2 :
  (maxd <= max_dimacs_isize)%Z -> doc_ok ih k maxd d = true -> lay_ok k lay1 = true -> lay_ok k lay2 = true ->
  (length (render k d lay1) < fuel)%nat -> nlen (render k d lay1) < 2 ^ 62 ->
  (length (render k d lay2) < fuel)%nat -> nlen (render k d lay2) < 2 ^ 62 ->
  exists a lr1 v1 lr2 v2,
    srun (parse_dimacs fuel k maxd ih lrs_init) (view_init (render k d lay1) None) = ADone (a, lr1) v1 /\
    srun (parse_dimacs fuel k maxd ih lrs_init) (view_init (render k d lay2) None) = ADone (a, lr2) v2 /\
    a = (Some (d_hdr d), d_items d, FOk).
Proof.
  intros Hm Hd Hl1 Hl2 Hf1 Hn1 Hf2 Hn2.
  destruct (parse_render fuel k maxd ih d lay1 Hm Hd Hl1 Hf1 Hn1) as (lr1 & v1 & E1).
  destruct (parse_render fuel k maxd ih d lay2 Hm Hd Hl2 Hf2 Hn2) as (lr2 & v2 & E2).
  exists (Some (d_hdr d), d_items d, FOk), lr1, v1, lr2, v2. auto.
Qed.
Print Assumptions layout_independence.

(* ... and so does every concrete run of the DeferredReader model: any honest source delivering the rendered
   text, in any pieces, read with any chunk size *)
Corollary parse_render_concrete fuel k maxd ih d lay (sr : source) (c : N) :
  (maxd <= max_dimacs_isize)%Z -> doc_ok ih k maxd d = true -> lay_ok k lay = true ->
  (length (render k d lay) < fuel)%nat -> nlen (render k d lay) < 2 ^ 62 ->
  NoLie (events sr) -> 1 <= c -> stream_of sr = (render k d lay, None) ->
  exists lr' s', crun (parse_dimacs fuel k maxd ih lrs_init) (set_chunk (reader_init sr) c)
                 = CDone (Some (d_hdr d), d_items d, FOk, lr') s'.
Proof.
  intros Hm Hd Hl Hf Hlen HN Hc Hs.
  destruct (parse_dimacs_any_chunking fuel k maxd ih sr c HN Hc) as (a & v' & s' & E & C).
  - rewrite Hs. apply render_bok. exact Hl.
  - rewrite Hs. exact Hlen.
  - rewrite Hs. exact Hf.
  - rewrite Hs in E. cbn [fst snd] in E.
    destruct (parse_render fuel k maxd ih d lay Hm Hd Hl Hf Hlen) as (lr' & v1 & E1).
    rewrite E1 in E. inversion E; subst. exists lr', s'. exact C.
Qed.
Print Assumptions parse_render_concrete.

Corollary layout_independence_concrete fuel k maxd ih d lay1 lay2 (sr1 sr2 : source) (c1 c2 : N) :
  (maxd <= max_dimacs_isize)%Z -> doc_ok ih k maxd d = true -> lay_ok k lay1 = true -> lay_ok k lay2 = true ->
  (length (render k d lay1) < fuel)%nat -> nlen (render k d lay1) < 2 ^ 62 ->
  (length (render k d lay2) < fuel)%nat -> nlen (render k d lay2) < 2 ^ 62 ->
  NoLie (events sr1) -> 1 <= c1 -> stream_of sr1 = (render k d lay1, None) ->
  NoLie (events sr2) -> 1 <= c2 -> stream_of sr2 = (render k d lay2, None) ->
  exists a lr1 s1 lr2 s2,
    crun (parse_dimacs fuel k maxd ih lrs_init) (set_chunk (reader_init sr1) c1) = CDone (a, lr1) s1 /\
    crun (parse_dimacs fuel k maxd ih lrs_init) (set_chunk (reader_init sr2) c2) = CDone (a, lr2) s2.
Proof.
  intros Hm Hd Hl1 Hl2 Hf1 Hn1 Hf2 Hn2 HN1 Hc1 Hs1 HN2 Hc2 Hs2.
  destruct (parse_render_concrete fuel k maxd ih d lay1 sr1 c1 Hm Hd Hl1 Hf1 Hn1 HN1 Hc1 Hs1) as (lr1 & s1 & E1).
  destruct (parse_render_concrete fuel k maxd ih d lay2 sr2 c2 Hm Hd Hl2 Hf2 Hn2 HN2 Hc2 Hs2) as (lr2 & s2 & E2).
  exists (Some (d_hdr d), d_items d, FOk), lr1, s1, lr2, s2. auto.
Qed.
Print Assumptions layout_independence_concrete.

(* ================================================================== *)
(* 7. the writer instance (C03)                                         *)

Lemma unum_decimal z : (0 <= z)%Z -> unum 0 z = decimal z.
Proof. intros H. unfold unum, numeral. cbn [repeat app]. destruct z; [reflexivity|reflexivity|lia]. Qed.

Lemma lit_numeral_decimal z : lit_numeral 0 z = decimal z.
Proof. unfold lit_numeral, numeral. destruct z; reflexivity. Qed.

Lemma lits_plain ls : lits_bytes ls [] = flat_map (fun l => decimal l ++ [32]) ls.
Proof.
  induction ls as [|l ls IH]; [reflexivity|]. cbn [lits_bytes flat_map hd tl dgap fst snd gap_bytes].
  rewrite lit_numeral_decimal, IH. rewrite <- app_assoc. reflexivity.
Qed.

Lemma flat_map_shift (ls : list Z) :
  flat_map (fun l => 32 :: decimal l) ls ++ [32] = [32] ++ flat_map (fun l => decimal l ++ [32]) ls.
Proof.
  induction ls as [|l ls IH]; [reflexivity|]. cbn [flat_map app]. rewrite <- !app_assoc. rewrite IH. reflexivity.
Qed.

Lemma write_clause_plain k it :
  (match k with KCnf => True | _ => (0 <= fst it)%Z end) -> write_clause k it = clause_bytes k it dcl ++ [10].
Proof.
  intros Hp. destruct it as [pre ls]. unfold write_clause, clause_bytes. cbn [fst snd dcl cl_pre cl_lits cl_term] in *.
  rewrite lits_plain. change (numeral false 0 0) with [48]. destruct k; cbn [prefix_bytes dgap fst snd gap_bytes].
  - cbn [app]. rewrite <- app_assoc. reflexivity.
  - rewrite (unum_decimal pre Hp). rewrite <- !app_assoc.
    change [32; 48; 10] with ([32] ++ [48; 10]). rewrite (app_assoc _ [32]). rewrite flat_map_shift.
    rewrite <- !app_assoc. reflexivity.
  - rewrite (unum_decimal pre Hp). cbn [app]. rewrite <- !app_assoc. reflexivity.
Qed.

Lemma tail_plain k items :
  tail_bytes k items [] (FinNl plain_break None) = 10 :: flat_map (fun it => clause_bytes k it dcl ++ [10]) items.
Proof.
  induction items as [|it items IH]; [reflexivity|]. cbn [tail_bytes hd tl flat_map].
  rewrite IH. cbn. rewrite <- app_assoc. reflexivity.
Qed.

Lemma fmt_subst_hdr k (a b c : bytes) :
  fmt_subst (hdr_fmt k) [a; b; c] =
  kw_p ++ [32] ++ kind_word k ++ [32] ++ a ++ [32] ++ b ++ match k with KCnf => [] | _ => [32] ++ c end.
Proof. destruct k; [vm_compute; reflexivity|rewrite <- (app_nil_r c) at 2; vm_compute; reflexivity..]. Qed.

Lemma item_ok_prefix_nonneg k limit glimit it :
  item_ok k limit glimit it = true -> match k with KCnf => True | _ => (0 <= fst it)%Z end.
Proof.
  unfold item_ok. intros H. apply andb_prop in H. destruct H as [H _]. destruct k; cbn [prefix_ok] in H; [exact I| |].
  - apply in_range_nonneg_u64. exact H.
  - apply andb_prop in H. destruct H as [H _]. apply Z.leb_le in H. exact H.
Qed.

(* the writer's output is the rendering in the plain layout *)
Theorem write_doc_is_plain_render ih k maxd d : doc_ok ih k maxd d = true -> write_doc k d = render k d plain_layout.
Proof.
  intros Hd. unfold doc_ok in Hd. apply andb_prop in Hd. destruct Hd as [Hh Hits].
  assert (Hgen : forall lim glim items, forallb (item_ok k lim glim) items = true ->
            flat_map (write_clause k) items = flat_map (fun it => clause_bytes k it dcl ++ [10]) items).
  { intros lim glim items. induction items as [|it items IH]; intros Hi; [reflexivity|]. cbn [forallb] in Hi.
    apply andb_prop in Hi. destruct Hi as [Hit Hi]. cbn [flat_map]. rewrite (IH Hi).
    rewrite (write_clause_plain k it (item_ok_prefix_nonneg k lim glim it Hit)). reflexivity. }
  pose proof (Hgen _ _ _ Hits) as Hcl. clear Hgen.
  unfold write_doc, render. cbn [plain_layout l_lead l_fill l_hdr l_clauses l_fin filler_bytes app].
  rewrite Hcl. destruct (d_hdr d) as [h|].
  - apply andb_prop in Hh. destruct Hh as [Hh _]. destruct (header_ok_inv k maxd h Hh) as (Hv0 & _ & _ & Hcr & Hex).
    pose proof (usize_nonneg _ Hcr) as Hc0. pose proof (extra_nonneg k _ Hex) as Hx0.
    rewrite tail_plain. unfold write_header, header_bytes. rewrite fmt_subst_hdr.
    cbn [plain_header_lay hl_sep1 hl_sep2 hl_sep3 hl_sep4 hl_vars hl_clauses hl_extra].
    rewrite !unum_decimal by assumption. destruct k; rewrite <- !app_assoc; reflexivity.
  - unfold body_bytes. cbn [fin_last]. destruct (d_items d) as [|it items]; [reflexivity|].
    cbn [flat_map hd tl optc]. rewrite tail_plain. rewrite <- app_assoc. reflexivity.
Qed.
Print Assumptions write_doc_is_plain_render.

(* C03: parsing what the writer wrote yields the value and the clean end of the input *)
Theorem write_parse_roundtrip fuel k maxd ih d :
  (maxd <= max_dimacs_isize)%Z -> doc_ok ih k maxd d = true ->
  (length (write_doc k d) < fuel)%nat -> nlen (write_doc k d) < 2 ^ 62 ->
  exists lr' v', srun (parse_dimacs fuel k maxd ih lrs_init) (view_init (write_doc k d) None)
                 = ADone (Some (d_hdr d), d_items d, FOk, lr') v'.
Proof.
  intros Hm Hd Hf Hlen. rewrite (write_doc_is_plain_render ih k maxd d Hd) in *.
  apply parse_render; try assumption. apply ex_plain_layout_ok.
Qed.
Print Assumptions write_parse_roundtrip.

Theorem write_parse_roundtrip_all_runs fuel k maxd ih d r :
  (maxd <= max_dimacs_isize)%Z -> doc_ok ih k maxd d = true ->
  (length (write_doc k d) < fuel)%nat -> nlen (write_doc k d) < 2 ^ 62 ->
  aruns (parse_dimacs fuel k maxd ih lrs_init) (view_init (write_doc k d) None) r ->
  exists lr' v', r = ADone (Some (d_hdr d), d_items d, FOk, lr') v'.
Proof.
  intros Hm Hd Hf Hlen Hr. rewrite (write_doc_is_plain_render ih k maxd d Hd) in *.
  eapply parse_render_all_runs; try eassumption. apply ex_plain_layout_ok.
Qed.
Print Assumptions write_parse_roundtrip_all_runs.

Corollary write_parse_roundtrip_concrete fuel k maxd ih d (sr : source) (c : N) :
  (maxd <= max_dimacs_isize)%Z -> doc_ok ih k maxd d = true ->
  (length (write_doc k d) < fuel)%nat -> nlen (write_doc k d) < 2 ^ 62 ->
  NoLie (events sr) -> 1 <= c -> stream_of sr = (write_doc k d, None) ->
  exists lr' s', crun (parse_dimacs fuel k maxd ih lrs_init) (set_chunk (reader_init sr) c)
                 = CDone (Some (d_hdr d), d_items d, FOk, lr') s'.
Proof.
  intros Hm Hd Hf Hlen HN Hc Hs. rewrite (write_doc_is_plain_render ih k maxd d Hd) in *.
  eapply parse_render_concrete; try eassumption. apply ex_plain_layout_ok.
Qed.
Print Assumptions write_parse_roundtrip_concrete.
