(* AigerSafe.v — safety, failing-source behaviour, error locations and limits of the AIGER parsers
   (ascii and binary), for every admissible run.  Hoare.v is the framework, CnfSafe.v the template.

   The line bookkeeping invariant (KM M lr v) says: the stream being read is M, the line start of lr is 0 or just
   behind an LF of M and not behind the cursor, no LF lies between it and the cursor, and the line number is one more
   than the LF bytes of M before the line start.  It is the same for both parsers: since flussab 530b52f the binary
   parser counts a byte 10 that ends a delta code of the and-gate section as a line break (before that fix those
   bytes were skipped: the former known finding K1, now defect D15), so every LF of the input is a line break for
   both, and T3 has the same form for both.

   Sections: 0 what the digit scanner has buffered; 1 list facts, what the limits say (T4 vocabulary);
   2 the invariant and the tokens (binary_uint / delta_code included), header, sections, symbols, comment,
   parse_aag, parse_aig (Section WithM); 3 the theorems
   parse_{aag,aig}_{safe,failing,error_location,error_position,limits_fc,any_chunking}, the triples.
   AigerLimits.v restates T4 without from_code. *)
From Flussab Require Import Base Reader ListN Writer Parsed Prog Text TextSpec ProgProofs ScanProofs DigitsProofs.
From Flussab Require Import ReaderProofs Simulation Consts Cnf CnfProofs ErrProofs Varint Aiger AigerProofs Hoare CnfSafe.
Ltac Zify.zify_post_hook ::= Z.to_euclidean_division_equations.

(* ================================================================== *)
(* 0. what the digit scanner is known to have buffered                  *)

Lemma digits_multi_hwm fuel t off v a o v' :
  WFV v -> BytesOK v -> vcur v + off <= vhwm v ->
  aruns (ascii_digits_multi fuel t off) v (ADone (a, o) v') -> vcur v + o <= vhwm v'.
Proof.
  intros Hw Hb Hh Hr. unfold ascii_digits_multi in Hr. inversion Hr; subst.
  match goal with H : tryload_ok _ _ ?o |- _ => destruct o as [w|]; cbn [tryload_ok] in H; rename H into Hok end.
  - destruct Hok as [Hlen ->].
    match goal with H : aruns _ (v_loaded v off _) _ |- _ => rename H into Hc end.
    set (vL := v_loaded v off (Some (word_at v off))) in *.
    assert (HwL : WFV vL) by (unfold WFV, vL; cbn [v_loaded vhwm vS]; unfold WFV in Hw; lia).
    assert (HhL : vcur vL + (off + 8) <= vhwm vL) by (unfold vL; cbn [v_loaded vhwm vcur]; lia).
    destruct (load8_is_rest v off Hlen) as [Hwin Hl8]. set (l8 := firstn 8 (rest_at v off)) in *.
    assert (Hsm : Forall (fun b => b < 256) l8).
    { apply Forall_firstn. unfold rest_at, nskipn. apply Forall_skipn. exact Hb. }
    unfold word_at in Hc. rewrite Hwin, (SwarProofs.swar_spec _ Hl8 Hsm) in Hc.
    pose proof (digit_prefix_le l8) as Hle. rewrite Hl8 in Hle.
    destruct (nlen (digit_prefix l8) =? 8) eqn:E8.
    + unfold ascii_digits_cont in Hc. pose proof (det_aruns _ _ _ Hc (det_digits_loop _ _ _ _ _ _)) as Hs.
      symmetry in Hs. apply digits_loop_hwm in Hs; [|exact HwL|exact HhL].
      destruct Hs as (_ & H2 & _). exact H2.
    + apply aruns_ret_inv in Hc. inversion Hc; subst. unfold vL. cbn [v_loaded vhwm vcur]. unfold nlen.
      unfold bytes, byte in *. lia.
  - match goal with H : aruns _ (v_loaded v off None) _ |- _ => rename H into Hc end.
    unfold ascii_digits in Hc. pose proof (det_aruns _ _ _ Hc (det_digits_loop _ _ _ _ _ _)) as Hs.
    symmetry in Hs. apply digits_loop_hwm in Hs; [|exact Hw|cbn [v_loaded vhwm vcur]; exact Hh].
    destruct Hs as (_ & H2 & _). exact H2.
Qed.

(* ================================================================== *)
(* 1. list facts for remaining_line_content / remaining_file_content     *)

Lemma nlen_cons {A} (x : A) l : nlen (x :: l) = 1 + nlen l.
Proof. unfold nlen. cbn [length]. lia. Qed.

Lemma nnth_cons_succ {A} (x : A) l i : 0 < i -> nnth (x :: l) i = nnth l (i - 1).
Proof.
  intros Hi. unfold nnth. replace (N.to_nat i) with (S (N.to_nat (i - 1))) by lia. reflexivity.
Qed.

Lemma nskipn_cons_succ {A} (x : A) l i : 0 < i -> nskipn i (x :: l) = nskipn (i - 1) l.
Proof.
  intros Hi. unfold nskipn. replace (N.to_nat i) with (S (N.to_nat (i - 1))) by lia. reflexivity.
Qed.

Lemma count_nl_lf l : count_nl l = count_lf l.
Proof. induction l as [|b r IH]; cbn [count_nl count_lf]; [reflexivity|]. rewrite IH. reflexivity. Qed.

(* from_utf8's valid_up_to lies within the slice *)
Lemma utf8_err_bound : forall n l p q, (length l <= n)%nat -> utf8_err l p = Some q -> p <= q /\ q < p + nlen l.
Proof.
  induction n as [|n IH]; intros l p q Hn H.
  - destruct l; [discriminate|cbn [length] in Hn; lia].
  - destruct l as [|b r]; [discriminate|]. cbn [length] in Hn. rewrite nlen_cons. cbn [utf8_err] in H.
    destruct (b <? 128).
    { apply IH in H; [lia|lia]. }
    destruct (in_rng 194 223 b).
    { destruct r as [|c1 r1]; [inversion H; subst; lia|]. rewrite nlen_cons. cbn [length] in Hn.
      destruct (is_cont c1); [apply IH in H; [lia|lia]|inversion H; subst; lia]. }
    destruct (in_rng 224 239 b).
    { destruct r as [|c1 [|c2 r2]]; [inversion H; subst; lia|inversion H; subst; lia|].
      rewrite !nlen_cons. cbn [length] in Hn.
      destruct (second3 b c1 && is_cont c2); [apply IH in H; [lia|lia]|inversion H; subst; lia]. }
    destruct (in_rng 240 244 b).
    { destruct r as [|c1 [|c2 [|c3 r3]]]; [inversion H; subst; lia..|].
      rewrite !nlen_cons. cbn [length] in Hn.
      destruct (second4 b c1 && is_cont c2 && is_cont c3); [apply IH in H; [lia|lia]|inversion H; subst; lia]. }
    inversion H; subst. lia.
Qed.

Lemma utf8_valid_up_to_lt l q : utf8_valid_up_to l = Some q -> q < nlen l.
Proof. unfold utf8_valid_up_to. intros H. apply (utf8_err_bound (length l)) in H; [lia|lia]. Qed.

(* the index just behind the last LF *)
Lemma after_last_nl_spec l : forall pos found,
  match after_last_nl l pos found with
  | None => found = None /\ Forall (fun x => x <> 10) l
  | Some a => (found = Some a /\ Forall (fun x => x <> 10) l) \/
              (pos < a /\ a <= pos + nlen l /\ nnth l (a - 1 - pos) = Some 10 /\
               Forall (fun x => x <> 10) (nskipn (a - pos) l))
  end.
Proof.
  induction l as [|b r IH]; intros pos found; cbn [after_last_nl].
  - destruct found as [a|]; [left; split; [reflexivity|constructor]|split; [reflexivity|constructor]].
  - specialize (IH (pos + 1) (if b =? 10 then Some (pos + 1) else found)).
    destruct (after_last_nl r (pos + 1) (if b =? 10 then Some (pos + 1) else found)) as [a|].
    + destruct IH as [[Hf Hr]|(h1 & h2 & h3 & h4)].
      * destruct (b =? 10) eqn:Eb.
        -- inversion Hf; subst a. right. rewrite nlen_cons. split; [lia|]. split; [lia|].
           replace (pos + 1 - 1 - pos) with 0 by lia. replace (pos + 1 - pos) with 1 by lia.
           apply N.eqb_eq in Eb. subst b. split; [reflexivity|exact Hr].
        -- left. split; [exact Hf|]. constructor; [apply N.eqb_neq; exact Eb|exact Hr].
      * right. rewrite nlen_cons. split; [lia|]. split; [lia|]. split.
        -- rewrite nnth_cons_succ by lia. replace (a - 1 - pos - 1) with (a - 1 - (pos + 1)) by lia. exact h3.
        -- rewrite nskipn_cons_succ by lia. replace (a - pos - 1) with (a - (pos + 1)) by lia. exact h4.
    + destruct IH as [Hf Hr]. destruct (b =? 10) eqn:Eb; [discriminate|].
      split; [exact Hf|]. constructor; [apply N.eqb_neq; exact Eb|exact Hr].
Qed.

Lemma after_last_nl_none l : after_last_nl l 0 None = None -> Forall (fun x => x <> 10) l.
Proof. intros H. pose proof (after_last_nl_spec l 0 None) as Hs. rewrite H in Hs. exact (proj2 Hs). Qed.

Lemma after_last_nl_some l a : after_last_nl l 0 None = Some a ->
  0 < a /\ a <= nlen l /\ nnth l (a - 1) = Some 10 /\ Forall (fun x => x <> 10) (nskipn a l).
Proof.
  intros H. pose proof (after_last_nl_spec l 0 None) as Hs. rewrite H in Hs.
  destruct Hs as [[Hf _]|(h1 & h2 & h3 & h4)]; [discriminate|].
  rewrite N.sub_0_r in h3, h4. split; [exact h1|]. split; [lia|]. split; assumption.
Qed.

Lemma nfirstn_nfirstn {A} (l : list A) a b : a <= b -> nfirstn a (nfirstn b l) = nfirstn a l.
Proof. intros H. unfold nfirstn. rewrite firstn_firstn. f_equal. lia. Qed.

Lemma nskipn_nfirstn {A} (l : list A) a b : a <= b -> nskipn a (nfirstn b l) = nfirstn (b - a) (nskipn a l).
Proof.
  intros H. unfold nskipn, nfirstn. rewrite skipn_firstn_comm. f_equal. lia.
Qed.


(* ================================================================== *)
(* 1b. what the limits say (T4)                                          *)

(* the header: M within the literal type, I + L + A <= M (checked as I <= M, L <= M - I, A <= M - I - L) *)
Definition HdrOK (maxc : N) (hd : aheader) : Prop :=
  a_max_var hd <= (maxc - 1) / 2 /\ a_inputs hd <= a_max_var hd /\
  a_latches hd <= a_max_var hd - a_inputs hd /\ a_ands hd <= a_max_var hd - a_inputs hd - a_latches hd.


(* a literal within the limit; a defining literal is moreover even and not 0 *)
Definition LitP (limit : N) (assigning : bool) (c : N) : Prop :=
  c <= limit /\ (assigning = true -> c <> 0 /\ N.land c 1 = 0).

(* a section: n items, each satisfying P *)
Definition Sec (n : N) (P : item -> Prop) (l : list item) : Prop := nlen l = n /\ Forall P l.
(* a section followed by the rest of the file (which may depend on it: the justice sizes) *)
Definition SeqD (P : list item -> Prop) (Q : list item -> list item -> Prop) (l : list item) : Prop :=
  exists a b, l = a ++ b /\ P a /\ Q a b.

Definition PLine (maxc ml : N) (asg : bool) (mk : N -> item) (x : item) : Prop :=
  exists c, x = mk (from_code maxc c) /\ LitP ml asg c.
Definition PJs (x : item) : Prop := exists c, x = IJusticeSize c.
Fixpoint jsum (l : list item) : N :=
  match l with
  | [] => 0
  | IJusticeSize c :: r => c + jsum r
  | _ :: r => jsum r
  end.
Definition PLatchA (maxc ml : N) (x : item) : Prop :=
  exists s n i, x = ILatch (from_code maxc s) (from_code maxc n) i /\ LitP ml true s /\ LitP ml false n.
Definition PLatchB (maxc ml : N) (x : item) : Prop :=
  exists n i, x = IOLatch (from_code maxc n) i /\ LitP ml false n.
Definition PAndA (maxc ml : N) (x : item) : Prop :=
  exists o a b, x = IAnd (from_code maxc o) (from_code maxc a) (from_code maxc b) /\
                LitP ml true o /\ LitP ml false a /\ LitP ml false b.
(* binary and gates: the k-th gate defines lhs + 2k; its inputs are delta coded: in0 <= lhs + 2k, in1 <= in0 *)
Fixpoint andsB (maxc lhs : N) (l : list item) : Prop :=
  match l with
  | [] => True
  | x :: r => (exists a b, x = IOAnd (from_code maxc a) (from_code maxc b) /\ a <= lhs /\ b <= a) /\ andsB maxc (lhs + 2) r
  end.

Lemma jsum_app a b : jsum (a ++ b) = jsum a + jsum b.
Proof.
  induction a as [|x a IH]; cbn [app jsum]; [lia|]. destruct x; rewrite ?IH; lia.
Qed.

Lemma andsB_app maxc : forall a lhs b, andsB maxc lhs (a ++ b) <-> andsB maxc lhs a /\ andsB maxc (lhs + 2 * nlen a) b.
Proof.
  induction a as [|x a IH]; intros lhs b; cbn [app andsB].
  - change (nlen (@nil item)) with 0. replace (lhs + 2 * 0) with lhs by lia. tauto.
  - rewrite IH. rewrite nlen_cons. replace (lhs + 2 + 2 * nlen a) with (lhs + 2 * (1 + nlen a)) by lia. tauto.
Qed.

(* symbols and the comment: a symbol's index is below the count of what it names *)
Definition sym_count (h : aheader) (k : symkind) : N :=
  match k with
  | SInput => a_inputs h
  | SOutput => a_outputs h
  | SLatch => a_latches h
  | SBad => a_bad h
  | SConstraint => a_constraints h
  | SJustice => a_justice h
  | SFairness => a_fairness h
  end.
Definition PTail (h : aheader) (x : item) : Prop :=
  (exists k i name, x = ISymbol k i name /\ i < sym_count h k) \/ (exists c, x = IComment c).

(* the sections shared by both formats, between the latches and the and gates *)
Definition MidL (maxc ml : N) (hd : aheader) (K : list item -> Prop) : list item -> Prop :=
  SeqD (Sec (a_outputs hd) (PLine maxc ml false IOutput)) (fun _ =>
  SeqD (Sec (a_bad hd) (PLine maxc ml false IBad)) (fun _ =>
  SeqD (Sec (a_constraints hd) (PLine maxc ml false IConstraint)) (fun _ =>
  SeqD (Sec (a_justice hd) PJs) (fun js =>
  SeqD (Sec (jsum js) (PLine maxc ml false IJustice)) (fun _ =>
  SeqD (Sec (a_fairness hd) (PLine maxc ml false IFairness)) (fun _ => K)))))).

Definition AagL (maxc : N) (hd : aheader) : list item -> Prop :=
  let ml := a_max_var hd * 2 + 1 in
  SeqD (Sec (a_inputs hd) (PLine maxc ml true IInput)) (fun _ =>
  SeqD (Sec (a_latches hd) (PLatchA maxc ml)) (fun _ =>
  MidL maxc ml hd (SeqD (Sec (a_ands hd) (PAndA maxc ml)) (fun _ => Forall (PTail hd))))).

Definition AigL (maxc : N) (hd : aheader) : list item -> Prop :=
  let ml := a_max_var hd * 2 + 1 in
  SeqD (Sec (a_latches hd) (PLatchB maxc ml)) (fun _ =>
  MidL maxc ml hd
    (SeqD (fun l => nlen l = a_ands hd /\ andsB maxc (2 * (a_inputs hd + a_latches hd + 1)) l) (fun _ => Forall (PTail hd)))).


(* ================================================================== *)
(* 2. the invariant: M is the input                                       *)

Section ASafe.
Variable fuel : nat.
Local Notation VOK := (VOK fuel).

(* the line start is 0 or just after an LF, the line number one more than the LFs before it
   (the AIGER tokens never count an unterminated last line) *)
Definition lineS (M : bytes) (ls ln : N) : Prop :=
  (ls = 0 \/ nnth M (ls - 1) = Some 10) /\ ln = 1 + count_lf (nfirstn ls M).

(* the stream the lines are counted in is the input *)
Definition MR (M : bytes) (v : view) : Prop := vS v = M.

Definition LIM (M : bytes) (lr : lrs) (v : view) : Prop :=
  l_start lr <= vcur v /\ nolf M (l_start lr) (vcur v) /\ lineS M (l_start lr) (l_line lr).

Definition KM (M : bytes) (lr : lrs) (v : view) : Prop := VOK v /\ LIM M lr v /\ MR M v.

(* l, c is the (line, column) of a position pos of M (pos = nlen M: the end of the input), the line counted from a
   line start *)
Definition loc_strict (M : bytes) (l c : N) : Prop :=
  exists ls pos, ls <= pos /\ pos <= nlen M /\ nolf M ls pos /\ lineS M ls l /\ c = pos - ls + 1.

Definition EP (M : bytes) (e : perr) (v' : view) : Prop :=
  match e with
  | EIo io => vfail v' = Some io
  | ESyntax l c => (vfail v' = None \/ vknown v' = false) /\ loc_strict M l c
  end.

Lemma lineS_ok M ls ln : lineS M ls ln -> line_ok M ls ln.
Proof. intros H. left. exact H. Qed.

Lemma loc_strict_ok M l c : loc_strict M l c -> loc_ok M l c.
Proof.
  intros (ls & pos & h1 & h2 & h3 & h4 & h5). exists ls, pos.
  split; [exact h1|]. split; [exact h2|]. split; [exact h3|]. split; [apply lineS_ok; exact h4|exact h5].
Qed.

(* ... which is the position's line and column, counted from the start of M *)
Lemma loc_strict_pos M l c : loc_strict M l c -> exists pos, pos <= nlen M /\ (l, c) = line_col_of M pos.
Proof.
  intros H. pose proof (loc_ok_spec M l c (loc_strict_ok M l c H)) as (pos & Hp & [E|(E1 & _ & _ & E2 & _)]).
  - exists pos. split; assumption.
  - exfalso. destruct H as (ls & p & _ & _ & _ & (_ & Hl) & _).
    subst pos. unfold line_col_of in E2. unfold nlen in E2. rewrite Nat2N.id, line_col_fst in E2.
    pose proof (count_lf_prefix_le M ls). lia.
Qed.

(* for the ascii parser: the invariant of Hoare.v *)
Lemma KM_K lr v : KM (vS v) lr v -> K fuel lr v.
Proof.
  intros (Hv & (h1 & h2 & h3) & _). split; [exact Hv|]. split; [exact h1|]. split; [exact h2|apply lineS_ok; exact h3].
Qed.

Lemma MR_self v : MR (vS v) v.
Proof. reflexivity. Qed.

Lemma MR_frame M v v' : MR M v -> frame v v' -> MR M v'.
Proof. intros Hm (a1 & _). unfold MR in *. congruence. Qed.


Section WithM.
Variable M : bytes.
Local Notation KM := (KM M).
Local Notation EP := (EP M).

Definition TP {A} (G : A -> lrs -> view -> Prop) (v : view) (a : parsed A perr) (lr' : lrs) (v' : view) : Prop :=
  frame v v' /\
  match a with
  | Res (Ok x) => G x lr' v'
  | Res (Err e) => EP e v'
  | Fallthrough => KM lr' v'
  end.

Definition RP {A} (G : A -> lrs -> view -> Prop) (v : view) (a : result A perr) (lr' : lrs) (v' : view) : Prop :=
  frame v v' /\
  match a with
  | Ok x => G x lr' v'
  | Err e => EP e v'
  end.

(* an error value: located correctly *)
Definition EPost (v : view) (e : perr) (lr' : lrs) (v' : view) : Prop := frame v v' /\ EP e v'.

Definition Gs {A} (v : view) : A -> lrs -> view -> Prop := fun _ lr' v' => KM lr' v' /\ vcur v < vcur v'.

Lemma KM_VOK lr v : KM lr v -> VOK v.
Proof. intros (H & _). exact H. Qed.

Lemma KM_wf lr v : KM lr v -> WFV v.
Proof. intros H. exact (VOK_WFV _ _ (KM_VOK _ _ H)). Qed.

Lemma KM_fuel lr v : KM lr v -> (length (vS v) < fuel)%nat.
Proof. intros H. exact (VOK_fuel _ _ (KM_VOK _ _ H)). Qed.

Lemma KM_quiet lr v v' : KM lr v -> quiet v v' -> KM lr v'.
Proof.
  intros (Hv & (h1 & h2 & h3) & Hm) Hq. pose proof (VOK_quiet _ _ _ Hv Hq) as Hv'.
  pose proof (MR_frame _ _ _ Hm (quiet_frame _ _ Hq)) as Hm'.
  destruct Hq as (a1 & _ & a3 & _).
  split; [exact Hv'|]. split; [|exact Hm']. unfold LIM. rewrite a3. split; [exact h1|]. split; assumption.
Qed.

Lemma KM_setmark lr v : KM lr v -> KM lr (v_setmark v).
Proof. intros H. exact H. Qed.

(* consuming bytes that are not LF *)
Lemma KM_advance lr v n :
  KM lr v -> vcur v + n <= vhwm v -> nolf (vS v) (vcur v) (vcur v + n) -> KM lr (v_advance v n).
Proof.
  intros (Hv & (h1 & h2 & h3) & Hm) Hn Hnolf. unfold MR in Hm.
  split; [apply VOK_advance; assumption|]. split; [|exact Hm].
  unfold LIM. cbn [v_advance vcur]. split; [lia|]. split; [|exact h3].
  eapply nolf_trans; [exact h2|]. rewrite <- Hm. exact Hnolf.
Qed.

(* consuming up to and including the LF at p *)
Lemma KM_nl lr v v1 p n :
  KM lr v -> quiet v v1 -> vcur v <= p -> nolf (vS v) (vcur v) p -> nnth (vS v) p = Some 10 ->
  vcur v + n = p + 1 -> vcur v + n <= vhwm v1 ->
  KM {| l_line := l_line lr + 1; l_start := p + 1 |} (v_advance v1 n).
Proof.
  intros (Hv & (h1 & h2 & (h3 & h4)) & Hm) Hq Hp Hnolf Hlf Hn Hh. unfold MR in Hm.
  pose proof (VOK_quiet _ _ _ Hv Hq) as Hv1. destruct Hq as (a1 & a2 & a3 & _).
  assert (HM : nolf M (l_start lr) p) by (eapply nolf_trans; [exact h2|rewrite <- Hm; exact Hnolf]).
  assert (HMp : nnth M p = Some 10) by (rewrite <- Hm; exact Hlf).
  split; [apply VOK_advance; [exact Hv1|rewrite a3; exact Hh]|]. split.
  - unfold LIM. cbn [v_advance vcur l_start l_line]. rewrite a3. split; [lia|]. split; [apply nolf_empty; lia|].
    split; [right; replace (p + 1 - 1) with p by lia; exact HMp|].
    rewrite (count_lf_step M p 10 HMp). rewrite (count_lf_nolf M (l_start lr) p HM) by lia. rewrite h4.
    change (10 =? 10) with true. cbv iota. lia.
  - unfold MR. cbn [v_advance vS]. rewrite a1. exact Hm.
Qed.

(* ---------- give_up ---------- *)
(* an error reported at pos, on the line the bookkeeping knows, whatever has been consumed behind pos *)
Lemma prt_give_up_at_gen pos lr v :
  VOK v -> MR M v -> l_start lr <= pos -> pos <= vcur v -> nolf M (l_start lr) pos -> lineS M (l_start lr) (l_line lr) ->
  prt (give_up_at pos) lr v (EPost v).
Proof.
  intros Hv Hm Hp1 Hp2 h2 h3. unfold MR in Hm. pose proof Hv as (Hw & _ & _ & Ht). unfold prt.
  destruct (s_take v) as [io|] eqn:Est.
  - assert (Hpk : err_parked v io).
    { unfold err_parked, s_take in *. destruct (vknown v); [split; [reflexivity|exact Est]|discriminate]. }
    eapply rt_det; [apply det_give_up_at|apply srun_give_up_at_parked; exact Hpk|].
    cbn [fst snd]. split; [unfold frame; cbn [v_take vS vfail vcur]; split; [reflexivity|split; [reflexivity|lia]]|].
    unfold EP. cbn [v_take vfail]. destruct Hpk as [_ He]. unfold v_err_now in He. rewrite Ht in He. exact He.
  - eapply rt_det; [apply det_give_up_at| |].
    + rewrite (srun_give_up_at_clean pos lr v Est).
      assert ((pos <? l_start lr) = false) as -> by (apply N.ltb_ge; exact Hp1). reflexivity.
    + cbn [fst snd]. split; [unfold frame; cbn [v_take vS vfail vcur]; split; [reflexivity|split; [reflexivity|lia]]|].
      unfold EP. cbn [v_take vfail vknown vS]. split.
      * unfold s_take, v_err_now in Est. rewrite Ht in Est. destruct (vknown v); [left; exact Est|right; reflexivity].
      * exists (l_start lr), pos. split; [exact Hp1|]. split; [pose proof (VOK_cur_le _ v Hv); rewrite <- Hm; lia|].
        split; [exact h2|]. split; [exact h3|reflexivity].
Qed.

Lemma prt_give_up_atM pos lr v :
  KM lr v -> l_start lr <= pos -> pos <= vcur v -> prt (give_up_at pos) lr v (EPost v).
Proof.
  intros (Hv & (h1 & h2 & h3) & Hm) Hp1 Hp2.
  apply prt_give_up_at_gen; [exact Hv|exact Hm|exact Hp1|exact Hp2|eapply nolf_weaken; [exact h2|lia|exact Hp2]|exact h3].
Qed.

Lemma prt_give_upM lr v : KM lr v -> prt give_up lr v (EPost v).
Proof.
  intros HK. unfold give_up. apply prt_pbnd, prt_getpos. rewrite (VOK_cur_mod _ v (KM_VOK _ _ HK)).
  pose proof HK as (_ & (h1 & _) & _). apply prt_give_up_atM; [exact HK|exact h1|lia].
Qed.

Definition MarkOK (lr : lrs) (v : view) : Prop := l_start lr <= vmark v /\ vmark v <= vcur v.

Lemma prt_give_up_at_mark_gen lr v :
  VOK v -> MR M v -> l_start lr <= vmark v -> vmark v <= vcur v -> nolf M (l_start lr) (vmark v) ->
  lineS M (l_start lr) (l_line lr) -> prt give_up_at_mark lr v (EPost v).
Proof.
  intros Hv Hm Hm1 Hm2 Hn Hl. unfold give_up_at_mark. apply prt_pbnd, prt_getmark.
  assert (vmark v mod W64 = vmark v) as ->.
  { pose proof (VOK_cur_le _ v Hv). pose proof (VOK_small _ v Hv). apply N.mod_small. unfold W64. lia. }
  apply prt_give_up_at_gen; assumption.
Qed.

Lemma prt_give_up_at_markM lr v : KM lr v -> MarkOK lr v -> prt give_up_at_mark lr v (EPost v).
Proof.
  intros (Hv & (h1 & h2 & h3) & Hm) [Hm1 Hm2].
  apply prt_give_up_at_mark_gen; [exact Hv|exact Hm|exact Hm1|exact Hm2|eapply nolf_weaken; [exact h2|lia|exact Hm2]|exact h3].
Qed.

Lemma MarkOK_setmark lr v : KM lr v -> MarkOK lr (v_setmark v).
Proof. intros (_ & (h1 & _) & _). unfold MarkOK. cbn [v_setmark vmark vcur]. lia. Qed.

Lemma EPost_frame v0 v e lr' v' : frame v0 v -> EPost v e lr' v' -> EPost v0 e lr' v'.
Proof. intros Hf0 [Hf He]. split; [eapply frame_trans; eassumption|exact He]. Qed.

Lemma TP_weaken {A} (G G' : A -> lrs -> view -> Prop) v a lr' v' :
  TP G v a lr' v' -> (forall x, G x lr' v' -> G' x lr' v') -> TP G' v a lr' v'.
Proof. intros [Hf Ha] HG. split; [exact Hf|]. destruct a as [[x|e]|]; [apply HG; exact Ha|exact Ha|exact Ha]. Qed.

Lemma TP_frame {A} (G : A -> lrs -> view -> Prop) v0 v a lr' v' :
  frame v0 v -> TP G v a lr' v' -> TP G v0 a lr' v'.
Proof. intros Hf0 [Hf Ha]. split; [eapply frame_trans; eassumption|exact Ha]. Qed.

Lemma RP_frame {A} (G : A -> lrs -> view -> Prop) v0 v a lr' v' :
  frame v0 v -> RP G v a lr' v' -> RP G v0 a lr' v'.
Proof. intros Hf0 [Hf Ha]. split; [eapply frame_trans; eassumption|exact Ha]. Qed.

Lemma RP_weaken {A} (G G' : A -> lrs -> view -> Prop) v a lr' v' :
  RP G v a lr' v' -> (forall x, G x lr' v' -> G' x lr' v') -> RP G' v a lr' v'.
Proof. intros [Hf Ha] HG. split; [exact Hf|]. destruct a as [x|e]; [apply HG; exact Ha|exact Ha]. Qed.

(* ---------- the `?` operator, fail_with ---------- *)
Lemma prt_rbnd {A B} (m : PM (result A perr)) (f : A -> PM (result B perr))
      (G : A -> lrs -> view -> Prop) (G' : B -> lrs -> view -> Prop) lr v v0 :
  frame v0 v -> prt m lr v (RP G v) ->
  (forall a lr1 v1, frame v0 v1 -> frame v v1 -> G a lr1 v1 -> prt (f a) lr1 v1 (RP G' v0)) ->
  prt (rbnd m f) lr v (RP G' v0).
Proof.
  intros Hf0 Hm Hf. unfold rbnd. apply prt_pbnd. eapply prt_conseq; [exact Hm|].
  intros r lr1 v1 [Hf1 Hr]. pose proof (frame_trans _ _ _ Hf0 Hf1) as Hf01. destruct r as [a|e].
  - apply Hf; assumption.
  - apply prt_pret. split; assumption.
Qed.

Lemma prt_fail_with {A} (err : PM perr) (G : A -> lrs -> view -> Prop) lr v v0 :
  frame v0 v -> prt err lr v (EPost v) -> prt (fail_with err) lr v (RP G v0).
Proof.
  intros Hf0 H. unfold fail_with. apply prt_pbnd. eapply prt_conseq; [exact H|]. intros e lr1 v1 [Hf He].
  apply prt_pret. split; [eapply frame_trans; eassumption|exact He].
Qed.

(* ---------- looking at bytes ---------- *)
Lemma peek_quiet v k : WFV v -> quiet v (after_peek v k).
Proof. intros Hw. eapply peeked_quiet; [exact Hw|apply peeked_after_peek]. Qed.

Lemma KM_peek lr v k : KM lr v -> KM lr (after_peek v k).
Proof. intros HK. eapply KM_quiet; [exact HK|apply peek_quiet; eapply KM_wf; exact HK]. Qed.

Lemma peek_some_hwm v k b : vpeek v k = Some b -> vcur v + k + 1 <= vhwm (after_peek v k).
Proof. intros H. cbn [after_peek vhwm]. rewrite H. lia. Qed.

Lemma vpeek0 v b : vpeek v 0 = Some b -> nnth (vS v) (vcur v) = Some b.
Proof. unfold vpeek. rewrite N.add_0_r. auto. Qed.

(* one byte that is not LF is looked at and consumed *)
Lemma consume1 lr v b :
  KM lr v -> vpeek v 0 = Some b -> b <> 10 ->
  vcur (after_peek v 0) + 1 <= vhwm (after_peek v 0) /\
  KM lr (v_advance (after_peek v 0) 1) /\ frame v (v_advance (after_peek v 0) 1).
Proof.
  intros HK Hp Hb. pose proof (peek_some_hwm v 0 b Hp) as Hh. change (vcur (after_peek v 0)) with (vcur v).
  split; [lia|]. split.
  - apply KM_advance; [apply KM_peek; exact HK|change (vcur (after_peek v 0)) with (vcur v); lia|].
    cbn [after_peek vS vcur]. eapply nolf_one; [apply vpeek0; exact Hp|exact Hb].
  - unfold frame. cbn [v_advance after_peek vS vfail vcur]. split; [reflexivity|]. split; [reflexivity|lia].
Qed.

(* the LF at the cursor is consumed and recorded *)
Lemma consume_lf {A} (k : PM A) (Q : A -> lrs -> view -> Prop) lr v :
  KM lr v -> vpeek v 0 = Some 10 ->
  (forall lr' v', KM lr' v' -> frame v v' -> vcur v' = vcur v + 1 -> prt k lr' v' Q) ->
  prt (padvance 1 ;;;; line_at_offset 0 ;;;; k) lr (after_peek v 0) Q.
Proof.
  intros HK Hp Hk. pose proof (peek_some_hwm v 0 10 Hp) as Hh.
  pose proof (peek_quiet v 0 (KM_wf _ _ HK)) as Hq.
  assert (HKn : KM {| l_line := l_line lr + 1; l_start := vcur v + 1 |} (v_advance (after_peek v 0) 1)).
  { apply (KM_nl lr v (after_peek v 0) (vcur v) 1 HK Hq); [lia|apply nolf_empty; lia|apply vpeek0; exact Hp|lia|lia]. }
  apply prt_pbnd, prt_padvance; [change (vcur (after_peek v 0)) with (vcur v); lia|].
  apply prt_pbnd, (prt_line_at_offset fuel); [exact (KM_VOK _ _ HKn)|].
  cbn [v_advance after_peek vcur]. replace (vcur v + 1 + 0) with (vcur v + 1) by lia.
  apply Hk; [exact HKn| |reflexivity].
  unfold frame. cbn [v_advance after_peek vS vfail vcur]. split; [reflexivity|]. split; [reflexivity|lia].
Qed.

(* ---------- consuming an LF-free span after the peeks that established it ---------- *)
Lemma K_consumeM lr v v1 v2 m n :
  KM lr v -> quiet v v1 -> peeked_to v1 v2 m -> vcur v + n <= m -> span (vS v) (vcur v) n ->
  vcur v2 + n <= vhwm v2 /\ KM lr (v_advance v2 n) /\ frame v (v_advance v2 n) /\ vmark (v_advance v2 n) = vmark v /\
  vcur (v_advance v2 n) = vcur v + n.
Proof.
  intros HK Hq1 Hpk Hm Hsp.
  pose proof (KM_quiet _ _ _ HK Hq1) as HK1.
  pose proof (peeked_quiet _ _ _ (KM_wf _ _ HK1) Hpk) as Hq2.
  pose proof (quiet_trans _ _ _ Hq1 Hq2) as Hq.
  pose proof (KM_quiet _ _ _ HK Hq) as HK2.
  pose proof Hq as (a1 & a2 & a3 & a4 & a5 & a6 & a7).
  pose proof Hq1 as (b1 & b2 & b3 & _).
  pose proof (span_le _ _ _ Hsp (VOK_cur_le _ _ (KM_VOK _ _ HK))) as Hle.
  assert (Hh : vcur v2 + n <= vhwm v2).
  { rewrite a3. eapply peeked_hwm; [exact Hpk|lia|rewrite b1; exact Hle]. }
  split; [exact Hh|]. split.
  - apply KM_advance; [exact HK2|exact Hh|]. rewrite a1, a3. apply span_nolf. exact Hsp.
  - split; [|split; [exact a4|cbn [v_advance vcur]; lia]].
    unfold frame. cbn [v_advance vS vfail vcur]. split; [exact a1|]. split; [exact a2|lia].
Qed.

Lemma tfixed_okM (pat : bytes) lr v : pat <> [] -> ~ In 10 pat -> KM lr v -> prt (tfixed pat) lr v (TP (Gs v) v).
Proof.
  intros Hne H10 HK. pose proof (KM_wf _ _ HK) as Hw.
  unfold tfixed, tok_ft, tok_ok. apply prt_pbnd, prt_fixed; [exact Hne|]. intros v1 Hpk1.
  pose proof (peeked_quiet _ _ _ Hw Hpk1) as Hq1.
  pose proof (KM_quiet _ _ _ HK Hq1) as HK1.
  destruct (common_prefix pat (rest_at v 0) =? nlen pat) eqn:Ec.
  - apply N.eqb_eq in Ec. pose proof (nlen_pos pat Hne) as Hpl.
    cbv iota. assert ((0 + nlen pat =? 0) = false) as -> by (apply N.eqb_neq; lia).
    destruct (K_consumeM lr v v v1 _ (0 + nlen pat) HK (quiet_refl v Hw) Hpk1) as (h1 & h2 & h3 & _ & h5).
    + rewrite Ec. lia.
    + eapply span_eq; [apply (span_pat pat v 0 Hne H10 Ec)|lia|lia].
    + apply prt_pbnd, prt_padvance; [exact h1|]. apply prt_pret.
      split; [exact h3|]. split; [exact h2|lia].
  - change (0 =? 0) with true. cbv iota. apply prt_pret. split; [apply quiet_frame; exact Hq1|exact HK1].
Qed.

Lemma fixed_not_eol_ok (pat : bytes) lr v :
  pat <> [] -> ~ In 10 pat -> KM lr v -> prt (fixed_not_eol pat) lr v (TP (Gs v) v).
Proof.
  intros Hne H10 HK. pose proof (KM_wf _ _ HK) as Hw.
  unfold fixed_not_eol, tok_ft, tok_ok. apply prt_pbnd, prt_fixed; [exact Hne|]. intros v1 Hpk1.
  pose proof (peeked_quiet _ _ _ Hw Hpk1) as Hq1.
  pose proof (KM_quiet _ _ _ HK Hq1) as HK1.
  destruct (common_prefix pat (rest_at v 0) =? nlen pat) eqn:Ec.
  - apply N.eqb_eq in Ec. pose proof (nlen_pos pat Hne) as Hpl.
    cbv iota. assert ((0 + nlen pat =? 0) = false) as -> by (apply N.eqb_neq; lia).
    apply prt_pbnd, prt_ppeek.
    pose proof (peeked_after_peek v1 (0 + nlen pat)) as Hpk2.
    pose proof (peeked_quiet _ _ _ (KM_wf _ _ HK1) Hpk2) as Hq2.
    pose proof (quiet_trans _ _ _ Hq1 Hq2) as Hq12.
    destruct (is_byte (vpeek v1 (0 + nlen pat)) 10).
    + apply prt_pret. split; [apply quiet_frame; exact Hq12|eapply KM_quiet; eassumption].
    + destruct (K_consumeM lr v v1 _ _ (0 + nlen pat) HK Hq1 Hpk2) as (h1 & h2 & h3 & _ & h5).
      * destruct Hq1 as (_ & _ & a3 & _). rewrite a3. lia.
      * eapply span_eq; [apply (span_pat pat v 0 Hne H10 Ec)|lia|lia].
      * apply prt_pbnd, prt_padvance; [exact h1|]. apply prt_pret.
        split; [exact h3|]. split; [exact h2|lia].
  - change (0 =? 0) with true. cbv iota. apply prt_pret. split; [apply quiet_frame; exact Hq1|exact HK1].
Qed.

(* ---------- token::eof, token::unexpected ---------- *)
Lemma teof_okM lr v : KM lr v -> prt teof lr v (TP (fun _ lr' v' => KM lr' v' /\ vfail v' = None) v).
Proof.
  intros HK. unfold teof, tok_ft, tok_ok. apply prt_pbnd, prt_ppeek.
  pose proof (peek_quiet v 0 (KM_wf _ _ HK)) as Hq0.
  pose proof (KM_quiet _ _ _ HK Hq0) as HK0.
  destruct (vpeek v 0) as [b|] eqn:Ep; [apply prt_pret; split; [apply quiet_frame; exact Hq0|exact HK0]|].
  apply prt_pbnd, prt_errparked.
  destruct (s_parked (after_peek v 0)) eqn:Epk; [apply prt_pret; split; [apply quiet_frame; exact Hq0|exact HK0]|].
  apply prt_pret. split; [apply quiet_frame; exact Hq0|]. split; [exact HK0|].
  unfold s_parked, v_err_now in Epk. cbn [after_peek vknown vtaken vfail] in Epk. rewrite Ep in Epk.
  destruct HK as ((_ & _ & _ & Ht) & _). rewrite Ht in Epk. cbn [andb] in Epk.
  cbn [after_peek vfail]. destruct (vfail v); [discriminate|reflexivity].
Qed.

Lemma unexpected_scan_okM n : forall len lr v, KM lr v ->
  prt (unexpected_scan n len) lr v (fun _ lr' v' => lr' = lr /\ quiet v v').
Proof.
  induction n as [|n IH]; intros len lr v HK; cbn [unexpected_scan].
  - apply prt_pret. split; [reflexivity|apply quiet_refl; eapply KM_wf; exact HK].
  - apply prt_pbnd, prt_ppeek.
    pose proof (peek_quiet v len (KM_wf _ _ HK)) as Hq0.
    pose proof (KM_quiet _ _ _ HK Hq0) as HK0.
    destruct (vpeek v len) as [b|]; [|apply prt_pret; split; [reflexivity|exact Hq0]].
    destruct (((b =? 10) || (b =? 13) || (b =? 9) || (b =? 32)) && negb (len =? 0));
      [apply prt_pret; split; [reflexivity|exact Hq0]|].
    eapply prt_conseq; [apply IH; exact HK0|]. intros _ lr' v' [-> Hq]. split; [reflexivity|].
    eapply quiet_trans; eassumption.
Qed.

Lemma unexpected_okM lr v : KM lr v -> prt unexpected lr v (EPost v).
Proof.
  intros HK. unfold unexpected. apply prt_pbnd, prt_newline. intros v1 Hpk1.
  pose proof (peeked_quiet _ _ _ (KM_wf _ _ HK) Hpk1) as Hq1.
  pose proof (KM_quiet _ _ _ HK Hq1) as HK1.
  assert (Hgu : forall v2, quiet v v2 -> prt give_up lr v2 (EPost v)).
  { intros v2 Hq2. eapply prt_conseq; [apply prt_give_upM; exact (KM_quiet _ _ _ HK Hq2)|].
    intros e lr' v' He. eapply EPost_frame; [apply quiet_frame; exact Hq2|exact He]. }
  destruct (negb (0 + newline_len (rest_at v 0) =? 0)); [apply Hgu; exact Hq1|].
  apply prt_pbnd, prt_isatend. destruct (s_atend v1); [apply Hgu; exact Hq1|].
  apply prt_pbnd. eapply prt_conseq; [apply unexpected_scan_okM; exact HK1|].
  intros _ lr' v2 [-> Hq2]. apply Hgu. eapply quiet_trans; eassumption.
Qed.

Lemma or_unexpected_okM {A} (t : tok A) (G : A -> lrs -> view -> Prop) lr v :
  prt t lr v (TP G v) -> prt (or_unexpected t) lr v (RP G v).
Proof.
  intros H. unfold or_unexpected. apply prt_pbnd. eapply prt_conseq; [exact H|].
  intros a lr1 v1 [Hf Ha]. destruct a as [[x|e]|].
  - apply prt_pret. split; assumption.
  - apply prt_pret. split; assumption.
  - apply prt_pbnd. eapply prt_conseq; [apply unexpected_okM; exact Ha|]. intros e lr2 v2 [Hf2 He].
    apply prt_pret. split; [eapply frame_trans; eassumption|exact He].
Qed.

(* ---------- token::space, token::newline ---------- *)
Lemma space_ok lr v : KM lr v -> prt space lr v (TP (Gs v) v).
Proof.
  intros HK. unfold space, tok_ft, tok_ok. apply prt_pbnd, prt_ppeek.
  pose proof (KM_peek _ v 0 HK) as HK0. pose proof (peek_quiet v 0 (KM_wf _ _ HK)) as Hq0.
  destruct (vpeek v 0) as [b|] eqn:Ep; cbn [is_byte]; [destruct (b =? 32) eqn:Eb|];
    [|apply prt_pret; split; [apply quiet_frame; exact Hq0|exact HK0]..].
  apply N.eqb_eq in Eb. subst b.
  destruct (consume1 lr v 32 HK Ep) as (h1 & h2 & h3); [lia|].
  apply prt_pbnd, prt_padvance; [exact h1|]. apply prt_pret. split; [exact h3|]. split; [exact h2|].
  cbn [v_advance after_peek vcur]. lia.
Qed.

Lemma required_space_ok lr v : KM lr v -> prt required_space lr v (RP (Gs v) v).
Proof. intros HK. unfold required_space. apply or_unexpected_okM, space_ok. exact HK. Qed.

Lemma anewline_ok lr v : KM lr v -> prt anewline lr v (TP (Gs v) v).
Proof.
  intros HK. unfold anewline, tok_ft, tok_ok. apply prt_pbnd, prt_ppeek.
  pose proof (KM_peek _ v 0 HK) as HK0. pose proof (peek_quiet v 0 (KM_wf _ _ HK)) as Hq0.
  destruct (vpeek v 0) as [b|] eqn:Ep; cbn [is_byte]; [destruct (b =? 10) eqn:Eb|];
    [|apply prt_pret; split; [apply quiet_frame; exact Hq0|exact HK0]..].
  apply N.eqb_eq in Eb. subst b.
  apply consume_lf; [exact HK|exact Ep|]. intros lr' v' HK' Hf' Hc'.
  apply prt_pret. split; [exact Hf'|]. split; [exact HK'|lia].
Qed.

Lemma required_newline_ok lr v : KM lr v -> prt required_newline lr v (RP (Gs v) v).
Proof. intros HK. unfold required_newline. apply or_unexpected_okM, anewline_ok. exact HK. Qed.

Lemma required_newline_or_space_ok lr v : KM lr v -> prt required_newline_or_space lr v (RP (Gs v) v).
Proof.
  intros HK. unfold required_newline_or_space. apply prt_pbnd, prt_ppeek.
  pose proof (KM_peek _ v 0 HK) as HK0. pose proof (peek_quiet v 0 (KM_wf _ _ HK)) as Hq0.
  assert (Hun : prt (fail_with unexpected) lr (after_peek v 0) (RP (Gs (A:=bool) v) v)).
  { apply prt_fail_with; [apply quiet_frame; exact Hq0|]. apply unexpected_okM. exact HK0. }
  destruct (vpeek v 0) as [b|] eqn:Ep; cbn [is_byte]; [|exact Hun].
  destruct (b =? 10) eqn:Eb.
  - apply N.eqb_eq in Eb. subst b.
    apply consume_lf; [exact HK|exact Ep|]. intros lr' v' HK' Hf' Hc'.
    apply prt_pret. split; [exact Hf'|]. split; [exact HK'|lia].
  - destruct (b =? 32) eqn:Eb2; [|exact Hun]. apply N.eqb_eq in Eb2. subst b.
    destruct (consume1 lr v 32 HK Ep) as (h1 & h2 & h3); [lia|].
    apply prt_pbnd, prt_padvance; [exact h1|]. apply prt_pret. split; [exact h3|]. split; [exact h2|].
    cbn [v_advance after_peek vcur]. lia.
Qed.

(* ---------- token::uint ---------- *)
Lemma prt_digitsH t off lr v (Q : option Z * N -> lrs -> view -> Prop) :
  VOK v -> vcur v + off <= vhwm v ->
  (forall v1, quiet v v1 -> vcur v + (off + snd (unsigned_spec t (rest_at v off))) <= vhwm v1 ->
              Q (fst (unsigned_spec t (rest_at v off)), off + snd (unsigned_spec t (rest_at v off))) lr v1) ->
  prt (lift (ascii_digits_multi fuel t off)) lr v Q.
Proof.
  intros Hv Hh H. apply prt_lift. intros r Hr.
  pose proof Hv as (Hw & (Hb & Hf & _) & _).
  destruct (ascii_digits_multi_spec fuel t off v r Hw Hb) as (v1 & -> & Hc); [pose proof (rest_len' v off); lia|exact Hr|].
  destruct (aruns_wf _ _ _ Hr Hw _ _ eq_refl) as [Hw1 _].
  destruct (aruns_mono _ _ _ Hr Hw _ _ eq_refl) as (Hhm & _).
  pose proof (digits_multi_hwm fuel t off v _ _ v1 Hw Hb Hh Hr) as Hh1.
  eexists _, v1. split; [reflexivity|]. apply H; [eapply core_after_quiet; eassumption|exact Hh1].
Qed.

(* the number token does not touch the line bookkeeping nor the mark, and consumes only on success *)
Definition NumP (lr : lrs) (v : view) (a : parsed N unit) (lr' : lrs) (v' : view) : Prop :=
  lr' = lr /\ KM lr v' /\ frame v v' /\ vmark v' = vmark v /\
  match a with Res (Ok _) => vcur v < vcur v' | _ => vcur v' = vcur v end.

Lemma NumP_quiet lr v v2 (a : parsed N unit) :
  KM lr v -> quiet v v2 -> match a with Res (Ok _) => False | _ => True end -> NumP lr v a lr v2.
Proof.
  intros HK Hq Ha. split; [reflexivity|]. split; [eapply KM_quiet; eassumption|]. split; [apply quiet_frame; exact Hq|].
  destruct Hq as (_ & _ & a3 & a4 & _). split; [exact a4|]. destruct a as [[z|e]|]; [contradiction|exact a3|exact a3].
Qed.

Lemma uint_ok lr v : KM lr v -> prt (uint fuel) lr v (NumP lr v).
Proof.
  intros HK. pose proof (KM_VOK _ _ HK) as Hv. unfold uint.
  apply prt_pbnd, prt_digitsH; [exact Hv|destruct Hv as (_ & _ & Hc & _); lia|]. intros v1 Hq1 Hh1. cbv beta iota.
  pose proof (span_digits v 0) as Hsp.
  unfold unsigned_spec in *. cbn [fst snd] in *.
  set (n := nlen (digit_prefix (rest_at v 0))) in *.
  destruct (0 + n =? 0) eqn:E0; [apply prt_pret; apply NumP_quiet; [exact HK|exact Hq1|exact I]|].
  apply N.eqb_neq in E0. apply prt_pbnd, prt_ppeek.
  pose proof (KM_quiet _ _ _ HK Hq1) as HK1.
  pose proof (peek_quiet v1 0 (KM_wf _ _ HK1)) as Hq2.
  pose proof (quiet_trans _ _ _ Hq1 Hq2) as Hq12.
  pose proof (KM_quiet _ _ _ HK Hq12) as HK2.
  destruct (negb (is_byte (vpeek v1 0) 48) || (0 + n =? 1));
    [|apply prt_pret; apply NumP_quiet; [exact HK|exact Hq12|exact I]].
  destruct (from_prim Usize (Z.of_N (dec_val (digit_prefix (rest_at v 0))))) as [z|];
    [|apply prt_pret; apply NumP_quiet; [exact HK|exact Hq12|exact I]].
  pose proof Hq12 as (a1 & a2 & a3 & a4 & a5 & a6 & a7). pose proof Hq2 as (_ & _ & _ & _ & _ & b6 & _).
  assert (Hh2 : vcur (after_peek v1 0) + (0 + n) <= vhwm (after_peek v1 0)) by (rewrite a3; lia).
  apply prt_pbnd, prt_padvance; [exact Hh2|]. apply prt_pret.
  split; [reflexivity|]. split.
  - apply KM_advance; [exact HK2|exact Hh2|]. rewrite a1, a3. eapply nolf_weaken; [apply span_nolf; exact Hsp|lia|lia].
  - split; [unfold frame; cbn [v_advance vS vfail vcur]; split; [exact a1|split; [exact a2|lia]]|].
    split; [exact a4|]. cbn [v_advance vcur]. lia.
Qed.

(* a number with its error reported at the mark *)
Lemma located_ok (n : PM (parsed N unit)) lr v :
  MarkOK lr v -> prt n lr v (NumP lr v) ->
  prt (located n give_up_at_mark) lr v
      (TP (fun _ lr' v' => lr' = lr /\ KM lr v' /\ vmark v' = vmark v /\ vcur v < vcur v') v).
Proof.
  intros [Hm1 Hm2] Hn. unfold located, tok_ok, tok_err, tok_ft. apply prt_pbnd. eapply prt_conseq; [exact Hn|].
  intros a lr1 v1 (-> & HK1 & Hf & Hm & Ha). destruct a as [[z|[]]|].
  - apply prt_pret. split; [exact Hf|]. split; [reflexivity|]. split; [exact HK1|]. split; assumption.
  - apply prt_pbnd. eapply prt_conseq; [apply prt_give_up_at_markM; [exact HK1|]|].
    + unfold MarkOK. rewrite Hm, Ha. split; assumption.
    + intros e lr2 v2 [Hf2 He]. apply prt_pret. split; [eapply frame_trans; eassumption|exact He].
  - apply prt_pret. split; [exact Hf|exact HK1].
Qed.

Lemma frame_setmark v : frame v (v_setmark v).
Proof. unfold frame. cbn [v_setmark vS vfail vcur]. split; [reflexivity|]. split; [reflexivity|lia]. Qed.

(* success of a count / literal token: the line bookkeeping is untouched, bytes were consumed, the mark is where
   the token started *)
Definition Gnum (lr : lrs) (v : view) (P : N -> Prop) : N -> lrs -> view -> Prop :=
  fun c lr' v' => lr' = lr /\ KM lr v' /\ vcur v < vcur v' /\ vmark v' = vcur v /\ P c.

Lemma Gnum_MarkOK lr v P c lr' v' : KM lr v -> Gnum lr v P c lr' v' -> MarkOK lr' v'.
Proof. intros (_ & (h1 & _) & _) (-> & _ & Hlt & Hm & _). unfold MarkOK. rewrite Hm. lia. Qed.

Lemma Gnum_Gs lr v P c lr' v' : Gnum lr v P c lr' v' -> Gs v c lr' v'.
Proof. intros (-> & HK & Hlt & _). split; assumption. Qed.

Lemma header_field_ok limit lr v : KM lr v ->
  prt (header_field fuel limit) lr v (RP (Gnum lr v (fun c => c <= limit)) v).
Proof.
  intros HK. unfold header_field. apply prt_pbnd, prt_pset_mark.
  pose proof (MarkOK_setmark lr v HK) as HM0. pose proof (KM_setmark lr v HK) as HK0.
  pose proof (frame_setmark v) as Hf0.
  apply prt_pbnd. eapply prt_conseq; [apply located_ok; [exact HM0|apply uint_ok; exact HK0]|].
  intros r lr1 v1 [Hf Hr]. pose proof (frame_trans _ _ _ Hf0 Hf) as Hf1.
  destruct r as [[count|e]|].
  - destruct Hr as (-> & HK1 & Hm & Hlt). cbn [v_setmark vmark vcur] in Hm, Hlt.
    destruct (limit <? count) eqn:El.
    + apply prt_fail_with; [exact Hf1|]. apply prt_give_up_at_markM; [exact HK1|].
      destruct HK as (_ & (h1 & _) & _). unfold MarkOK. rewrite Hm. lia.
    + apply prt_pret. split; [exact Hf1|]. split; [reflexivity|]. split; [exact HK1|]. split; [exact Hlt|].
      split; [exact Hm|]. apply N.ltb_ge. exact El.
  - apply prt_pret. split; assumption.
  - apply prt_fail_with; [exact Hf1|]. apply unexpected_okM. exact Hr.
Qed.

Lemma symbol_index_ok limit lr v : KM lr v ->
  prt (symbol_index fuel limit) lr v (RP (Gnum lr v (fun c => c <= limit)) v).
Proof. apply header_field_ok. Qed.

Lemma lit_ok limit assigning lr v : KM lr v ->
  prt (lit fuel limit assigning) lr v (RP (Gnum lr v (LitP limit assigning)) v).
Proof.
  intros HK. unfold lit. apply prt_pbnd, prt_pset_mark.
  pose proof (MarkOK_setmark lr v HK) as HM0. pose proof (KM_setmark lr v HK) as HK0.
  pose proof (frame_setmark v) as Hf0.
  apply prt_pbnd. eapply prt_conseq; [apply located_ok; [exact HM0|apply uint_ok; exact HK0]|].
  intros r lr1 v1 [Hf Hr]. pose proof (frame_trans _ _ _ Hf0 Hf) as Hf1.
  destruct r as [[count|e]|].
  - destruct Hr as (-> & HK1 & Hm & Hlt). cbn [v_setmark vmark vcur] in Hm, Hlt.
    assert (HM1 : MarkOK lr v1).
    { destruct HK as (_ & (h1 & _) & _). unfold MarkOK. rewrite Hm. lia. }
    destruct (assigning && ((count =? 0) || negb (N.land count 1 =? 0))) eqn:Ea.
    + apply prt_fail_with; [exact Hf1|]. apply prt_give_up_at_markM; assumption.
    + destruct (limit <? count) eqn:El.
      * apply prt_fail_with; [exact Hf1|]. apply prt_give_up_at_markM; assumption.
      * apply prt_pret. split; [exact Hf1|]. split; [reflexivity|]. split; [exact HK1|]. split; [exact Hlt|].
        split; [exact Hm|]. split; [apply N.ltb_ge; exact El|].
        intros ->. cbn [andb] in Ea. apply orb_false_elim in Ea. destruct Ea as [E1 E2].
        apply N.eqb_neq in E1. apply negb_false_iff in E2. apply N.eqb_eq in E2. split; assumption.
  - apply prt_pret. split; assumption.
  - apply prt_fail_with; [exact Hf1|]. apply unexpected_okM. exact Hr.
Qed.

(* ---------- consuming several lines at once ---------- *)
Lemma KM_lines lr v v1 p n :
  KM lr v -> quiet v v1 -> vcur v <= p -> nnth (vS v) p = Some 10 ->
  vcur v + n = p + 1 -> vcur v + n <= vhwm v1 ->
  KM {| l_line := l_line lr + count_lf (nfirstn (p - vcur v) (nskipn (vcur v) (vS v))) + 1; l_start := p + 1 |}
     (v_advance v1 n).
Proof.
  intros (Hv & (h1 & h2 & (h3 & h4)) & Hm) Hq Hp Hlf Hn Hh. unfold MR in Hm.
  pose proof (VOK_quiet _ _ _ Hv Hq) as Hv1. destruct Hq as (a1 & a2 & a3 & _).
  assert (HMp : nnth M p = Some 10) by (rewrite <- Hm; exact Hlf).
  split; [apply VOK_advance; [exact Hv1|rewrite a3; exact Hh]|]. split.
  - unfold LIM. cbn [v_advance vcur l_start l_line]. rewrite a3. split; [lia|]. split; [apply nolf_empty; lia|].
    split; [right; replace (p + 1 - 1) with p by lia; exact HMp|].
    rewrite (count_lf_step M p 10 HMp). rewrite <- (nfirstn_split M (vcur v) p Hp), count_lf_app.
    rewrite (count_lf_nolf M (l_start lr) (vcur v) h2 h1). rewrite Hm. rewrite h4.
    change (10 =? 10) with true. cbv iota. lia.
  - unfold MR. cbn [v_advance vS]. rewrite a1. exact Hm.
Qed.

Lemma KM_take_none lr v : KM lr v -> KM lr (v_take v None).
Proof. intros H. exact H. Qed.

(* ---------- token::remaining_line_content ---------- *)
Lemma line_scan_ok n : forall offset acc lr v v0,
  KM lr v -> quiet v0 v -> (N.to_nat (nlen (vS v) - (vcur v + offset)) < n)%nat ->
  nlen acc = offset -> nolf (vS v) (vcur v) (vcur v + offset) -> vcur v + offset <= vhwm v ->
  prt (line_scan n offset acc) lr v
      (fun r lr' v' => lr' = lr /\ quiet v0 v' /\ nlen (fst r) = snd r /\
                       nolf (vS v) (vcur v) (vcur v + snd r) /\ vcur v + snd r <= vhwm v' /\
                       (nnth (vS v) (vcur v + snd r) = Some 10 \/ nnth (vS v) (vcur v + snd r) = None)).
Proof.
  induction n as [|n IH]; intros offset acc lr v v0 HK Hq0 Hm Hacc Hnolf Hh; [lia|]. cbn [line_scan].
  apply prt_pbnd, prt_ppeek.
  pose proof (peek_quiet v offset (KM_wf _ _ HK)) as Hq1.
  pose proof (quiet_trans _ _ _ Hq0 Hq1) as Hq01.
  destruct (vpeek v offset) as [b|] eqn:Ep.
  - pose proof (peek_some_hwm v offset b Ep) as Hh1. unfold vpeek in Ep.
    destruct (b =? 10) eqn:Eb.
    + apply N.eqb_eq in Eb. subst b. apply prt_pret. cbn [fst snd].
      split; [reflexivity|]. split; [exact Hq01|]. split; [unfold nlen; rewrite rev_length; exact Hacc|].
      split; [exact Hnolf|]. split; [lia|]. left. exact Ep.
    + apply N.eqb_neq in Eb. pose proof (nnth_some_lt _ _ _ Ep) as Hlt.
      eapply prt_conseq; [apply (IH (offset + 1) (b :: acc) lr (after_peek v offset) v0)|].
      * eapply KM_quiet; eassumption.
      * exact Hq01.
      * cbn [after_peek vS vcur]. lia.
      * rewrite nlen_cons. lia.
      * cbn [after_peek vS vcur]. replace (vcur v + (offset + 1)) with (vcur v + offset + 1) by lia.
        eapply nolf_trans; [exact Hnolf|]. eapply nolf_one; [exact Ep|exact Eb].
      * change (vcur (after_peek v offset)) with (vcur v). lia.
      * intros r lr' v' H. exact H.
  - apply prt_pret. cbn [fst snd].
    split; [reflexivity|]. split; [exact Hq01|]. split; [unfold nlen; rewrite rev_length; exact Hacc|].
    split; [exact Hnolf|]. split; [|right; exact Ep].
    destruct Hq1 as (_ & _ & _ & _ & _ & a6 & _). lia.
Qed.

Lemma remaining_line_content_ok lr v : KM lr v -> prt (remaining_line_content fuel) lr v (RP (Gs v) v).
Proof.
  intros HK. unfold remaining_line_content. apply prt_pbnd.
  eapply prt_conseq.
  { apply (line_scan_ok fuel 0 [] lr v v HK (quiet_refl v (KM_wf _ _ HK))).
    - pose proof (KM_fuel _ _ HK). unfold nlen. lia.
    - reflexivity.
    - apply nolf_empty. lia.
    - destruct HK as ((_ & _ & Hc & _) & _). lia. }
  intros [line offset] lr1 v1 (-> & Hq1 & Hlen & Hnolf & Hh & Hend). cbn [fst snd] in *.
  pose proof (KM_quiet _ _ _ HK Hq1) as HK1.
  pose proof Hq1 as (a1 & a2 & a3 & _).
  apply prt_pbnd, prt_ppeek.
  pose proof (peek_quiet v1 offset (KM_wf _ _ HK1)) as Hq2.
  pose proof (quiet_trans _ _ _ Hq1 Hq2) as Hq12.
  pose proof (KM_quiet _ _ _ HK Hq12) as HK2.
  pose proof Hq12 as (b1 & b2 & b3 & _). pose proof Hq2 as (_ & _ & _ & _ & _ & c6 & _).
  assert (Ep : vpeek v1 offset = nnth (vS v) (vcur v + offset)) by (unfold vpeek; rewrite a1, a3; reflexivity).
  assert (Hadv : forall k, k <= offset ->
            prt (padvance k ;;;; fail_with unexpected) lr (after_peek v1 offset) (RP (Gs (A:=bytes) v) v)).
  { intros k Hk. assert (Hhk : vcur (after_peek v1 offset) + k <= vhwm (after_peek v1 offset)) by (rewrite b3; lia).
    apply prt_pbnd, prt_padvance; [exact Hhk|].
    apply prt_fail_with; [unfold frame; cbn [v_advance vS vfail vcur]; split; [exact b1|split; [exact b2|lia]]|].
    apply unexpected_okM. apply KM_advance; [exact HK2|exact Hhk|].
    rewrite b1, b3. eapply nolf_weaken; [exact Hnolf|lia|lia]. }
  destruct (vpeek v1 offset) as [b|] eqn:Epk.
  - destruct Hend as [Hlf|Hnone]; [|rewrite Hnone in Ep; discriminate].
    destruct (utf8_valid_up_to line) as [vut|] eqn:Eu.
    + apply Hadv. apply utf8_valid_up_to_lt in Eu. lia.
    + pose proof (peek_some_hwm v1 offset b Epk) as Hh2. rewrite a3 in Hh2.
      apply prt_pbnd, (prt_line_at_offset fuel); [exact (KM_VOK _ _ HK2)|].
      apply prt_pbnd, prt_padvance; [rewrite b3; lia|]. apply prt_pret.
      split; [unfold frame; cbn [v_advance vS vfail vcur]; split; [exact b1|split; [exact b2|lia]]|].
      split; [|cbn [v_advance vcur]; lia].
      rewrite b3. replace (vcur v + (offset + 1)) with (vcur v + offset + 1) by lia.
      apply (KM_nl lr v (after_peek v1 offset) (vcur v + offset) (offset + 1) HK Hq12); [lia|exact Hnolf|exact Hlf|lia|lia].
  - apply Hadv. lia.
Qed.

(* ---------- token::remaining_file_content ---------- *)
Lemma read_all_ok n : forall k acc lr v v0,
  KM lr v -> quiet v0 v -> (N.to_nat (nlen (vS v) - (vcur v + k)) < n)%nat ->
  rest_at v 0 = rev acc ++ rest_at v k ->
  prt (read_all n k acc) lr v
      (fun r lr' v' => lr' = lr /\ quiet v0 v' /\ r = rest_at v 0 /\ vknown v' = true /\ vhwm v' = nlen (vS v)).
Proof.
  induction n as [|n IH]; intros k acc lr v v0 HK Hq0 Hm Hacc; [lia|]. cbn [read_all].
  apply prt_pbnd, prt_ppeek.
  pose proof (peek_quiet v k (KM_wf _ _ HK)) as Hq1.
  pose proof (quiet_trans _ _ _ Hq0 Hq1) as Hq01.
  pose proof (vpeek_rest v k) as Hvr.
  destruct (vpeek v k) as [b|] eqn:Ep.
  - destruct (rest_at v k) as [|x r] eqn:Er; [discriminate|]. inversion Hvr; subst x.
    unfold vpeek in Ep. pose proof (nnth_some_lt _ _ _ Ep) as Hlt.
    eapply prt_conseq; [apply (IH (k + 1) (b :: acc) lr (after_peek v k) v0)|].
    + eapply KM_quiet; eassumption.
    + exact Hq01.
    + cbn [after_peek vS vcur]. lia.
    + rewrite (rest_at_quiet _ _ 0 Hq1), (rest_at_quiet _ _ (k + 1) Hq1), (rest_at_succ _ _ _ _ Er).
      cbn [rev]. rewrite <- app_assoc. exact Hacc.
    + intros r0 lr' v' (h1 & h2 & h3 & h4 & h5). split; [exact h1|]. split; [exact h2|].
      split; [rewrite h3; apply (rest_at_quiet _ _ 0 Hq1)|]. split; [exact h4|exact h5].
  - apply prt_pret. split; [reflexivity|]. split; [exact Hq01|].
    destruct (rest_at v k) as [|x r] eqn:Er; [|discriminate]. rewrite app_nil_r in Hacc.
    split; [symmetry; exact Hacc|]. cbn [after_peek vknown vhwm vS]. rewrite Ep. split; reflexivity.
Qed.

Lemma bad_file_content_ok lr v vut :
  KM lr v -> vhwm v = nlen (vS v) -> vut <= nlen (rest_at v 0) ->
  prt (bad_file_content (rest_at v 0) vut) lr v (RP (fun (_ : bytes) _ v' => vfail v' = None) v).
Proof.
  intros HK Hh Hvut. unfold bad_file_content.
  assert (Hrest : rest_at v 0 = nskipn (vcur v) (vS v)) by (unfold rest_at; rewrite N.add_0_r; reflexivity).
  pose proof (VOK_cur_le _ _ (KM_VOK _ _ HK)) as Hcl.
  assert (Hrl : nlen (rest_at v 0) = nlen (vS v) - vcur v) by (rewrite Hrest; apply nlen_nskipn).
  set (valid := nfirstn vut (rest_at v 0)).
  assert (Hvl : nlen valid = vut) by (unfold valid; rewrite nlen_nfirstn; lia).
  assert (Hsplit : nskipn (vcur v) (vS v) = valid ++ nskipn vut (rest_at v 0)).
  { unfold valid. rewrite <- Hrest. symmetry. apply nfirstn_nskipn. }
  assert (Hun : forall lr' v', KM lr' v' -> frame v v' ->
            prt (fail_with unexpected) lr' v' (RP (fun (_ : bytes) _ v'' => vfail v'' = None) v)).
  { intros lr' v' HK' Hf'. apply prt_fail_with; [exact Hf'|]. apply unexpected_okM. exact HK'. }
  destruct (after_last_nl valid 0 None) as [adv|] eqn:Ea.
  - destruct (after_last_nl_some valid adv Ea) as (h1 & h2 & h3 & h4).
    unfold add_lines. apply prt_pbnd, prt_pbnd, prt_get_lrs. apply prt_set_lrs.
    apply prt_pbnd, prt_padvance; [lia|].
    apply prt_pbnd, (prt_line_at_offset fuel); [apply VOK_advance; [exact (KM_VOK _ _ HK)|lia]|].
    cbn [l_line l_start v_advance vcur].
    assert (Hp : nnth (vS v) (vcur v + (adv - 1)) = Some 10).
    { eapply nnth_span; [exact Hsplit|exact h3]. }
    assert (HKn : KM {| l_line := l_line lr + count_nl (nfirstn (adv - 1) valid) + 1; l_start := vcur v + adv + 0 |}
                     (v_advance v adv)).
    { replace (vcur v + adv + 0) with (vcur v + (adv - 1) + 1) by lia.
      replace (count_nl (nfirstn (adv - 1) valid))
        with (count_lf (nfirstn (vcur v + (adv - 1) - vcur v) (nskipn (vcur v) (vS v)))).
      - apply (KM_lines lr v v (vcur v + (adv - 1)) adv HK (quiet_refl v (KM_wf _ _ HK))); [lia|exact Hp|lia|lia].
      - change (count_nl (nfirstn (adv - 1) valid)) with (count_lf (nfirstn (adv - 1) valid)).
        replace (vcur v + (adv - 1) - vcur v) with (adv - 1) by lia.
        unfold valid. rewrite nfirstn_nfirstn by lia. rewrite Hrest. reflexivity. }
    assert (Hh2 : vcur (v_advance v adv) + (vut - adv) <= vhwm (v_advance v adv)) by (cbn [v_advance vcur vhwm]; lia).
    apply prt_pbnd, prt_padvance; [exact Hh2|].
    apply Hun; [|unfold frame; cbn [v_advance vS vfail vcur]; split; [reflexivity|split; [reflexivity|lia]]].
    apply KM_advance; [exact HKn|exact Hh2|]. cbn [v_advance vS vcur].
    assert (Hsp2 : nskipn (vcur v + adv) (vS v) = nskipn adv valid ++ nskipn vut (rest_at v 0)).
    { replace (vcur v + adv) with (adv + vcur v) by lia. rewrite <- nskipn_nskipn, Hsplit.
      apply nskipn_app_l. lia. }
    pose proof (nolf_span _ _ _ _ Hsp2 h4) as Hn. rewrite nlen_nskipn in Hn.
    eapply nolf_weaken; [exact Hn|lia|lia].
  - pose proof (after_last_nl_none valid Ea) as Hall.
    apply prt_pbnd, prt_padvance; [lia|].
    apply Hun; [|unfold frame; cbn [v_advance vS vfail vcur]; split; [reflexivity|split; [reflexivity|lia]]].
    apply KM_advance; [exact HK|lia|].
    pose proof (nolf_span _ _ _ _ Hsplit Hall) as Hn. rewrite Hvl in Hn. exact Hn.
Qed.

Lemma remaining_file_content_ok lr v : KM lr v ->
  prt (remaining_file_content fuel) lr v (RP (fun _ _ v' => vfail v' = None) v).
Proof.
  intros HK. unfold remaining_file_content. apply prt_pbnd.
  eapply prt_conseq.
  { apply (read_all_ok fuel 0 [] lr v v HK (quiet_refl v (KM_wf _ _ HK))).
    - pose proof (KM_fuel _ _ HK). unfold nlen. lia.
    - reflexivity. }
  intros content lr1 v1 (-> & Hq1 & -> & Hkn & Hh).
  pose proof (KM_quiet _ _ _ HK Hq1) as HK1. pose proof Hq1 as (a1 & a2 & a3 & _).
  apply prt_pbnd, prt_takeerr.
  assert (Ht : s_take v1 = vfail v1).
  { unfold s_take, v_err_now. rewrite Hkn. destruct HK1 as ((_ & _ & _ & Htk) & _). rewrite Htk. reflexivity. }
  rewrite Ht. case_eq (vfail v1); [intros io Ef|intros Ef].
  - apply prt_pret. split; [unfold frame; cbn [v_take vS vfail vcur]; split; [exact a1|split; [exact a2|lia]]|].
    unfold EP. cbn [v_take vfail]. exact Ef.
  - pose proof (KM_take_none _ _ HK1) as HK2.
    assert (Hf2 : frame v (v_take v1 None)).
    { unfold frame; cbn [v_take vS vfail vcur]; split; [exact a1|split; [exact a2|lia]]. }
    assert (Hr2 : rest_at (v_take v1 None) 0 = rest_at v 0).
    { unfold rest_at. cbn [v_take vS vcur]. rewrite a1, a3. reflexivity. }
    assert (Hbad : forall vut, vut <= nlen (rest_at v 0) ->
              prt (bad_file_content (rest_at v 0) vut) lr (v_take v1 None) (RP (fun (_ : bytes) _ v' => vfail v' = None) v)).
    { intros vut Hvut. rewrite <- Hr2. eapply prt_conseq.
      - apply bad_file_content_ok; [exact HK2|cbn [v_take vhwm vS]; rewrite Hh, a1; reflexivity|rewrite Hr2; exact Hvut].
      - intros a lr' v' Ha. eapply RP_frame; eassumption. }
    destruct (utf8_valid_up_to (rest_at v 0)) as [vut|] eqn:Eu.
    + apply Hbad. apply utf8_valid_up_to_lt in Eu. lia.
    + destruct (match last_byte (rest_at v 0) with Some b => b =? 10 | None => true end); [|apply Hbad; lia].
      assert (Hrl : nlen (rest_at v 0) = nlen (vS v) - vcur v).
      { unfold rest_at. rewrite N.add_0_r. apply nlen_nskipn. }
      pose proof (VOK_cur_le _ _ (KM_VOK _ _ HK)) as Hcl.
      apply prt_pbnd, prt_padvance; [cbn [v_take vcur vhwm]; rewrite Hh, a3; lia|].
      apply prt_pret. split; [unfold frame; cbn [v_advance v_take vS vfail vcur]; split; [exact a1|split; [exact a2|lia]]|].
      cbn [v_advance v_take vfail]. exact Ef.
Qed.

(* ---------- token::binary_uint ---------- *)
(* a byte with the continuation bit is not an LF: only the last byte of a group encoding can be one *)
Lemma cont_not_lf b : (N.land b 128 =? 0) = false -> b <> 10.
Proof. intros H ->. discriminate H. Qed.

(* the first loop: the bytes looked at, last one first; those before the last are not LF *)
Definition ScanPost (lr : lrs) (v0 : view) (acc' : bytes) (lr' : lrs) (v' : view) : Prop :=
  lr' = lr /\ quiet v0 v' /\ vcur v0 + nlen acc' <= vhwm v' /\
  exists b r, acc' = b :: r /\ nolf (vS v0) (vcur v0) (vcur v0 + nlen r) /\ nnth (vS v0) (vcur v0 + nlen r) = Some b.

Lemma varint_scan_ok n : forall byte_len acc lr v v0,
  KM lr v -> quiet v0 v -> N.of_nat n + byte_len = 8 -> byte_len < 8 -> nlen acc = byte_len ->
  vcur v + byte_len <= vhwm v -> nolf (vS v) (vcur v) (vcur v + byte_len) ->
  prt (varint_scan n byte_len acc) lr v (RP (ScanPost lr v0) v0).
Proof.
  induction n as [|n IH]; intros byte_len acc lr v v0 HK Hq0 Hn Hlt Hacc Hh Hnolf; [lia|]. cbn [varint_scan].
  apply prt_pbnd, prt_ppeek.
  pose proof (peek_quiet v byte_len (KM_wf _ _ HK)) as Hq1.
  pose proof (quiet_trans _ _ _ Hq0 Hq1) as Hq01.
  pose proof (KM_quiet _ _ _ HK Hq1) as HK1.
  pose proof Hq0 as (a1 & a2 & a3 & _).
  destruct (vpeek v byte_len) as [b|] eqn:Ep.
  - pose proof (peek_some_hwm v byte_len b Ep) as Hh1. unfold vpeek in Ep.
    destruct (N.land b 128 =? 0) eqn:Eb.
    + apply prt_pret. split; [apply quiet_frame; exact Hq01|]. split; [reflexivity|]. split; [exact Hq01|].
      rewrite nlen_cons. split; [rewrite <- a3; lia|]. exists b, acc. split; [reflexivity|].
      rewrite Hacc, <- a1, <- a3. split; assumption.
    + destruct (byte_len + 1 =? 8) eqn:E8.
      * apply prt_fail_with; [apply quiet_frame; exact Hq01|]. apply prt_give_upM. exact HK1.
      * apply N.eqb_neq in E8. apply (IH (byte_len + 1) (b :: acc) lr (after_peek v byte_len) v0 HK1 Hq01); [lia|lia| | |].
        -- rewrite nlen_cons. lia.
        -- change (vcur (after_peek v byte_len)) with (vcur v). lia.
        -- cbn [after_peek vS vcur]. replace (vcur v + (byte_len + 1)) with (vcur v + byte_len + 1) by lia.
           eapply nolf_trans; [exact Hnolf|]. eapply nolf_one; [exact Ep|apply cont_not_lf; exact Eb].
  - apply prt_fail_with; [apply quiet_frame; exact Hq01|]. apply unexpected_okM. exact HK1.
Qed.

(* on success the bytes of the group encoding are consumed; the flag says whether the last of them is an LF: if so,
   the invariant holds again once the line break is recorded at the cursor (delta_code does that after its range
   check); the mark is where it was *)
Definition UintPost (lr : lrs) (v : view) (r : N * bool) (lr' : lrs) (v' : view) : Prop :=
  lr' = lr /\ vmark v' = vmark v /\ vcur v < vcur v' /\
  KM (if snd r then {| l_line := l_line lr + 1; l_start := vcur v' |} else lr) v'.

Lemma binary_uint_ok lr v : KM lr v -> prt binary_uint lr v (RP (UintPost lr v) v).
Proof.
  intros HK. unfold binary_uint.
  eapply prt_rbnd; [apply frame_refl| |].
  - apply (varint_scan_ok 8 0 [] lr v v HK (quiet_refl v (KM_wf _ _ HK))); [reflexivity|lia|reflexivity| |apply nolf_empty; lia].
    destruct HK as ((_ & _ & Hc & _) & _). lia.
  - intros acc lr1 v1 _ Hf1 (-> & Hq1 & Hh & b & r & -> & Hnolf & Hb). pose proof (KM_quiet _ _ _ HK Hq1) as HK1.
    pose proof Hq1 as (a1 & a2 & a3 & a4 & _). rewrite nlen_cons in Hh.
    destruct (varint_value (b :: r) 0) as [val|].
    + cbv zeta. cbn [hd_error is_byte]. rewrite nlen_cons.
      apply prt_pbnd, prt_padvance; [rewrite a3; exact Hh|]. apply prt_pret.
      split; [unfold frame; cbn [v_advance vS vfail vcur]; split; [exact a1|split; [exact a2|lia]]|].
      split; [reflexivity|]. split; [exact a4|]. split; [cbn [v_advance vcur]; lia|]. cbn [snd].
      destruct (b =? 10) eqn:Eb.
      * apply N.eqb_eq in Eb. subst b.
        replace (vcur (v_advance v1 (1 + nlen r))) with (vcur v + nlen r + 1) by (cbn [v_advance vcur]; lia).
        apply (KM_nl lr v v1 (vcur v + nlen r) (1 + nlen r) HK Hq1); [lia|exact Hnolf|exact Hb|lia|exact Hh].
      * apply N.eqb_neq in Eb. apply KM_advance; [exact HK1|rewrite a3; exact Hh|]. rewrite a1, a3.
        replace (vcur v + (1 + nlen r)) with (vcur v + nlen r + 1) by lia.
        eapply nolf_trans; [exact Hnolf|]. eapply nolf_one; [exact Hb|exact Eb].
    + apply prt_fail_with; [exact Hf1|]. apply prt_give_upM. exact HK1.
Qed.

(* ---------- chaining with `?` ---------- *)
Definition GsP {A} (v : view) (P : A -> Prop) : A -> lrs -> view -> Prop :=
  fun a lr' v' => KM lr' v' /\ vcur v < vcur v' /\ P a.

Lemma Gs_GsP {A} (m : PM (result A perr)) lr v :
  prt m lr v (RP (Gs v) v) -> prt m lr v (RP (GsP v (fun _ => True)) v).
Proof.
  intros H. eapply prt_conseq; [exact H|]. intros a lr' v' Ha. eapply RP_weaken; [exact Ha|].
  intros x [h1 h2]. split; [exact h1|]. split; [exact h2|exact I].
Qed.

Lemma Gnum_GsP (m : PM (result N perr)) P lr v :
  prt m lr v (RP (Gnum lr v P) v) -> prt m lr v (RP (GsP v P) v).
Proof.
  intros H. eapply prt_conseq; [exact H|]. intros a lr' v' Ha. eapply RP_weaken; [exact Ha|].
  intros x (-> & h1 & h2 & _ & h4). split; [exact h1|]. split; [exact h2|exact h4].
Qed.

Lemma rstepQ {A B} (m : PM (result A perr)) (f : A -> PM (result B perr)) (P : A -> Prop)
      (Q : result B perr -> lrs -> view -> Prop) lr v v0 :
  frame v0 v -> KM lr v ->
  (forall e lr1 v1, frame v0 v1 -> EP e v1 -> Q (Err e) lr1 v1) ->
  (KM lr v -> prt m lr v (RP (GsP v P) v)) ->
  (forall a lr1 v1, frame v0 v1 -> vcur v0 < vcur v1 -> KM lr1 v1 -> P a -> prt (f a) lr1 v1 Q) ->
  prt (rbnd m f) lr v Q.
Proof.
  intros Hf0 HK HE Hm Hf. unfold rbnd. apply prt_pbnd. eapply prt_conseq; [exact (Hm HK)|].
  intros r lr1 v1 [Hf1 Hr]. pose proof (frame_trans _ _ _ Hf0 Hf1) as Hf01. destruct r as [a|e].
  - destruct Hr as (h1 & h2 & h3). apply Hf; [exact Hf01| |exact h1|exact h3]. destruct Hf0 as (_ & _ & Hc). lia.
  - apply prt_pret. apply HE; assumption.
Qed.

Lemma required_space_ok' lr v : KM lr v -> prt required_space lr v (RP (GsP v (fun _ => True)) v).
Proof. intros HK. apply Gs_GsP, required_space_ok. exact HK. Qed.
Lemma required_newline_ok' lr v : KM lr v -> prt required_newline lr v (RP (GsP v (fun _ => True)) v).
Proof. intros HK. apply Gs_GsP, required_newline_ok. exact HK. Qed.
Lemma required_newline_or_space_ok' lr v : KM lr v -> prt required_newline_or_space lr v (RP (GsP v (fun _ => True)) v).
Proof. intros HK. apply Gs_GsP, required_newline_or_space_ok. exact HK. Qed.
Lemma header_field_ok' limit lr v : KM lr v -> prt (header_field fuel limit) lr v (RP (GsP v (fun c => c <= limit)) v).
Proof. intros HK. apply Gnum_GsP, header_field_ok. exact HK. Qed.
Lemma lit_ok' limit assigning lr v : KM lr v -> prt (lit fuel limit assigning) lr v (RP (GsP v (LitP limit assigning)) v).
Proof. intros HK. apply Gnum_GsP, lit_ok. exact HK. Qed.
Lemma magic_ok' (pat : bytes) lr v : pat <> [] -> ~ In 10 pat -> KM lr v ->
  prt (or_unexpected (tfixed pat)) lr v (RP (GsP v (fun _ => True)) v).
Proof. intros Hne H10 HK. apply Gs_GsP, or_unexpected_okM, tfixed_okM; assumption. Qed.

Ltac rs tac := eapply rstepQ; [eassumption|eassumption|intros; split; assumption|tac|].

(* ---------- Header::parse ---------- *)
Lemma parse_aheader_ok (magic : bytes) maxc lr v : magic <> [] -> ~ In 10 magic -> KM lr v ->
  prt (parse_aheader fuel magic maxc) lr v (RP (fun hd lr' v' => KM lr' v' /\ HdrOK maxc hd) v).
Proof.
  intros Hne H10 HK. pose proof (frame_refl v) as Hf. unfold parse_aheader.
  rs ltac:(apply magic_ok'; assumption). intros _ lr1 v1 Hf1 _ HK1 _. clear HK Hf.
  rs ltac:(apply required_space_ok'). intros _ lr2 v2 Hf2 _ HK2 _. clear HK1 Hf1.
  rs ltac:(apply header_field_ok'). intros m lr3 v3 Hf3 _ HK3 Hm. clear HK2 Hf2.
  rs ltac:(apply required_space_ok'). intros _ lr4 v4 Hf4 _ HK4 _. clear HK3 Hf3.
  rs ltac:(apply header_field_ok'). intros i lr5 v5 Hf5 _ HK5 Hi. clear HK4 Hf4.
  rs ltac:(apply required_space_ok'). intros _ lr6 v6 Hf6 _ HK6 _. clear HK5 Hf5.
  rs ltac:(apply header_field_ok'). intros l lr7 v7 Hf7 _ HK7 Hl. clear HK6 Hf6.
  rs ltac:(apply required_space_ok'). intros _ lr8 v8 Hf8 _ HK8 _. clear HK7 Hf7.
  rs ltac:(apply header_field_ok'). intros o lr9 v9 Hf9 _ HK9 _. clear HK8 Hf8.
  rs ltac:(apply required_space_ok'). intros _ lr10 v10 Hf10 _ HK10 _. clear HK9 Hf9.
  rs ltac:(apply header_field_ok'). intros a lr11 v11 Hf11 _ HK11 Ha. clear HK10 Hf10.
  assert (Hdone : forall b c j f lrx vx, frame v vx -> KM lrx vx ->
            prt (pret (Ok (mk_header m i l o a b c j f))) lrx vx (RP (fun hd lr' v' => KM lr' v' /\ HdrOK maxc hd) v)).
  { intros b c j f lrx vx Hfx HKx. apply prt_pret. split; [exact Hfx|]. split; [exact HKx|].
    unfold HdrOK, mk_header. cbn [a_max_var a_inputs a_latches a_ands]. split; [exact Hm|]. split; [exact Hi|]. split; assumption. }
  rs ltac:(apply required_newline_or_space_ok'). intros s1 lr12 v12 Hf12 _ HK12 _. clear HK11 Hf11.
  destruct (negb s1); [apply Hdone; assumption|].
  rs ltac:(apply header_field_ok'). intros b lr13 v13 Hf13 _ HK13 _. clear HK12 Hf12.
  rs ltac:(apply required_newline_or_space_ok'). intros s2 lr14 v14 Hf14 _ HK14 _. clear HK13 Hf13.
  destruct (negb s2); [apply Hdone; assumption|].
  rs ltac:(apply header_field_ok'). intros c lr15 v15 Hf15 _ HK15 _. clear HK14 Hf14.
  rs ltac:(apply required_newline_or_space_ok'). intros s3 lr16 v16 Hf16 _ HK16 _. clear HK15 Hf15.
  destruct (negb s3); [apply Hdone; assumption|].
  rs ltac:(apply header_field_ok'). intros j lr17 v17 Hf17 _ HK17 _. clear HK16 Hf16.
  rs ltac:(apply required_newline_or_space_ok'). intros s4 lr18 v18 Hf18 _ HK18 _. clear HK17 Hf17.
  destruct (negb s4); [apply Hdone; assumption|].
  rs ltac:(apply header_field_ok'). intros f lr19 v19 Hf19 _ HK19 _. clear HK18 Hf18.
  rs ltac:(apply required_newline_ok'). intros _ lr20 v20 Hf20 _ HK20 _. clear HK19 Hf19.
  apply Hdone; assumption.
Qed.

(* ---------- loops: the fuel is never exhausted ---------- *)
Lemma meas_initV v : VOK v -> meas v fuel.
Proof. intros Hv. pose proof (VOK_fuel _ _ Hv). unfold meas, nlen. lia. Qed.

Lemma meas_stepV v v' n : meas v (S n) -> frame v v' -> vcur v < vcur v' -> VOK v' -> meas v' n.
Proof.
  intros Hm (Hs & _ & _) Hlt Hv. pose proof (VOK_cur_le _ _ Hv) as Hle.
  unfold meas in *. rewrite Hs in *. lia.
Qed.

(* what one call of next_xxx does: an item (progress made, invariant again) or an error *)
Definition ItPost {St : Type} (Inv : St -> lrs -> view -> Prop) (J : list item -> St -> Prop)
           (E : perr -> view -> Prop) (l : list item) (v : view)
           (r : result (item * St) perr) (lr' : lrs) (v' : view) : Prop :=
  frame v v' /\
  match r with
  | Ok (x, st') => Inv st' lr' v' /\ vcur v < vcur v' /\ J (l ++ [x]) st'
  | Err e => E e v'
  end.

Definition LoopPost {St : Type} (Inv : St -> lrs -> view -> Prop) (J : list item -> St -> Prop)
           (E : perr -> view -> Prop) (total : N) (v : view)
           (r : list item * St * option perr) (lr' : lrs) (v' : view) : Prop :=
  frame v v' /\
  match snd r with
  | None => Inv (snd (fst r)) lr' v' /\ J (fst (fst r)) (snd (fst r)) /\ nlen (fst (fst r)) = total
  | Some e => E e v'
  end.

Lemma sloop_ok {St : Type} (it : St -> PM (result (item * St) perr))
      (Inv : St -> lrs -> view -> Prop) (J : list item -> St -> Prop) (E : perr -> view -> Prop) (total : N) :
  (forall st lr v, Inv st lr v -> VOK v) ->
  (forall st l lr v, Inv st lr v -> J l st -> nlen l < total -> prt (it st) lr v (ItPost Inv J E l v)) ->
  forall n left st acc lr v, Inv st lr v -> J (rev acc) st -> meas v n -> nlen acc + left = total ->
  prt (sloop n it left st acc) lr v (LoopPost Inv J E total v).
Proof.
  intros HIV Hit. induction n as [|n IH]; intros left st acc lr v HI HJ Hm Htot; [exfalso; unfold meas in Hm; lia|].
  cbn [sloop]. assert (Hrl : nlen (rev acc) = nlen acc) by (unfold nlen; rewrite rev_length; reflexivity).
  destruct (left =? 0) eqn:E0.
  - apply N.eqb_eq in E0. apply prt_pret. split; [apply frame_refl|]. cbn [fst snd].
    split; [exact HI|]. split; [exact HJ|]. lia.
  - apply N.eqb_neq in E0. apply prt_pbnd. eapply prt_conseq; [apply (Hit st (rev acc) lr v HI HJ); lia|].
    intros r lr1 v1 [Hf Hr]. destruct r as [[x st']|e].
    + destruct Hr as (HI1 & Hlt & HJ1).
      eapply prt_conseq; [apply (IH (left - 1) st' (x :: acc) lr1 v1 HI1)|].
      * cbn [rev]. exact HJ1.
      * eapply meas_stepV; [exact Hm|exact Hf|exact Hlt|eapply HIV; exact HI1].
      * rewrite nlen_cons. lia.
      * intros r2 lr2 v2 [Hf2 H2]. split; [eapply frame_trans; eassumption|exact H2].
    + apply prt_pret. split; [exact Hf|]. cbn [snd]. exact Hr.
Qed.

(* the outcome of the rest of the file *)
Definition BP (QL : list item -> Prop) (E : perr -> view -> Prop) (v : view)
           (r : list item * final) (lr' : lrs) (v' : view) : Prop :=
  frame v v' /\
  match snd r with
  | FOk => vfail v' = None /\ QL (fst r)
  | FErr e => E e v'
  end.

Lemma sect_ok {St : Type} (m : PM (list item * St * option perr)) (k : St -> PM (list item * final))
      (Inv : St -> lrs -> view -> Prop) (J : list item -> St -> Prop) (Ein Eout : perr -> view -> Prop) (total : N)
      (Pa : list item -> Prop) (Qb : list item -> list item -> Prop) lr v v0 :
  frame v0 v ->
  prt m lr v (LoopPost Inv J Ein total v) ->
  (forall e w, Ein e w -> Eout e w) ->
  (forall items st, J items st -> nlen items = total -> Pa items) ->
  (forall items st lr1 v1, frame v0 v1 -> Inv st lr1 v1 -> J items st -> nlen items = total ->
     prt (k st) lr1 v1 (BP (Qb items) Eout v0)) ->
  prt (sect m k) lr v (BP (SeqD Pa Qb) Eout v0).
Proof.
  intros Hf0 Hm HE HPa Hk. unfold sect. apply prt_pbnd. eapply prt_conseq; [exact Hm|].
  intros [[items st] oe] lr1 v1 [Hf1 Hr]. cbn [fst snd] in Hr. pose proof (frame_trans _ _ _ Hf0 Hf1) as Hf01.
  destruct oe as [e|].
  - apply prt_pret. split; [exact Hf01|]. cbn [snd]. apply HE. exact Hr.
  - destruct Hr as (HI & HJ & Hn). apply prt_pbnd. eapply prt_conseq; [apply (Hk items st lr1 v1 Hf01 HI HJ Hn)|].
    intros [items2 fin] lr2 v2 [Hf2 Hfin]. cbn [fst snd] in Hfin. apply prt_pret. split; [exact Hf2|]. cbn [fst snd].
    destruct fin as [|e]; [|exact Hfin]. destruct Hfin as [Hnone HQ]. split; [exact Hnone|].
    exists items, items2. split; [reflexivity|]. split; [eapply HPa; eassumption|exact HQ].
Qed.

Lemma sect_sloop {St : Type} (it : St -> PM (result (item * St) perr)) (k : St -> PM (list item * final))
      (Inv : St -> lrs -> view -> Prop) (J : list item -> St -> Prop) (Ein Eout : perr -> view -> Prop) (total : N)
      (Pa : list item -> Prop) (Qb : list item -> list item -> Prop) st lr v v0 :
  frame v0 v ->
  (forall st lr v, Inv st lr v -> VOK v) ->
  (forall st l lr v, Inv st lr v -> J l st -> nlen l < total -> prt (it st) lr v (ItPost Inv J Ein l v)) ->
  Inv st lr v -> J [] st ->
  (forall e w, Ein e w -> Eout e w) ->
  (forall items st, J items st -> nlen items = total -> Pa items) ->
  (forall items st' lr1 v1, frame v0 v1 -> Inv st' lr1 v1 -> J items st' -> nlen items = total ->
     prt (k st') lr1 v1 (BP (Qb items) Eout v0)) ->
  prt (sect (sloop fuel it total st []) k) lr v (BP (SeqD Pa Qb) Eout v0).
Proof.
  intros Hf0 HIV Hit HI HJ HE HPa Hk. eapply sect_ok; [exact Hf0| |exact HE|exact HPa|exact Hk].
  apply (sloop_ok it Inv J Ein total HIV Hit fuel total st [] lr v HI HJ); [apply meas_initV; eapply HIV; exact HI|].
  change (nlen (@nil item)) with 0. lia.
Qed.

Lemma ItPost_E {St : Type} (Inv : St -> lrs -> view -> Prop) J (E E' : perr -> view -> Prop) l v r lr' v' :
  (forall e w, E e w -> E' e w) -> ItPost Inv J E l v r lr' v' -> ItPost Inv J E' l v r lr' v'.
Proof. intros HE [Hf Hr]. split; [exact Hf|]. destruct r as [[x st']|e]; [exact Hr|apply HE; exact Hr]. Qed.

Lemma BP_E QL (E E' : perr -> view -> Prop) v r lr' v' :
  (forall e w, E e w -> E' e w) -> BP QL E v r lr' v' -> BP QL E' v r lr' v'.
Proof. intros HE [Hf Hr]. split; [exact Hf|]. destruct (snd r) as [|e]; [exact Hr|apply HE; exact Hr]. Qed.

(* ---------- the items ---------- *)
Definition KI {St : Type} : St -> lrs -> view -> Prop := fun _ lr v => KM lr v.

Lemma KI_VOK {St : Type} (st : St) lr v : KI st lr v -> VOK v.
Proof. apply KM_VOK. Qed.

Ltac rsi tac := eapply rstepQ; [eassumption|eassumption|intros; split; assumption|tac|].

Lemma Forall_snoc {A} (P : A -> Prop) l x : Forall P l -> P x -> Forall P (l ++ [x]).
Proof. intros Hl Hx. apply Forall_app. split; [exact Hl|constructor; [exact Hx|constructor]]. Qed.

(* a section of one literal per line; the state is handed through *)
Lemma lit_line_it {St : Type} maxc ml asg mk (J0 : St -> Prop) (st : St) l lr v :
  KM lr v -> Forall (PLine maxc ml asg mk) l -> J0 st ->
  prt (lit_line fuel maxc ml asg mk st) lr v
      (ItPost KI (fun l st => Forall (PLine maxc ml asg mk) l /\ J0 st) EP l v).
Proof.
  intros HK Hl H0. pose proof (frame_refl v) as Hf. unfold lit_line.
  rsi ltac:(apply lit_ok'). intros c lr1 v1 Hf1 _ HK1 Hc. clear HK Hf.
  rsi ltac:(apply required_newline_ok'). intros _ lr2 v2 Hf2 Hlt HK2 _.
  apply prt_pret. split; [exact Hf2|]. split; [exact HK2|]. split; [exact Hlt|]. split; [|exact H0].
  apply Forall_snoc; [exact Hl|]. exists c. split; [reflexivity|exact Hc].
Qed.

Lemma justice_size_it total l lr v :
  KM lr v -> Forall PJs l -> total = jsum l ->
  prt (justice_size fuel total) lr v (ItPost KI (fun l total => Forall PJs l /\ total = jsum l) EP l v).
Proof.
  intros HK Hl Ht. pose proof (frame_refl v) as Hf. unfold justice_size.
  rsi ltac:(apply header_field_ok'). intros c lr1 v1 Hf1 _ HK1 Hc. clear HK Hf.
  rsi ltac:(apply required_newline_ok'). intros _ lr2 v2 Hf2 Hlt HK2 _.
  apply prt_pret. split; [exact Hf2|]. split; [exact HK2|]. split; [exact Hlt|]. split.
  - apply Forall_snoc; [exact Hl|]. exists c. reflexivity.
  - rewrite jsum_app. cbn [jsum]. lia.
Qed.

Lemma latch_init_ok ml state_code lr v : KM lr v ->
  prt (latch_init fuel ml state_code) lr v (RP (GsP v (fun _ => True)) v).
Proof.
  intros HK. pose proof (frame_refl v) as Hf. unfold latch_init.
  rsi ltac:(apply required_newline_or_space_ok'). intros sp lr1 v1 Hf1 Hlt1 HK1 _. clear HK Hf.
  destruct sp; [|apply prt_pret; split; [exact Hf1|]; split; [exact HK1|]; split; [exact Hlt1|exact I]].
  eapply prt_rbnd; [exact Hf1|apply lit_ok; exact HK1|].
  intros ic lr2 v2 Hf2 _ Hg. pose proof (Gnum_MarkOK _ _ _ _ _ _ HK1 Hg) as HM2. clear Hf1.
  destruct Hg as (-> & HK2 & Hlt2 & _).
  assert (Hnl : forall (o : option bool),
            prt (required_newline ;;? pret (Ok o)) lr1 v2 (RP (GsP v (fun _ => True)) v)).
  { intros o. rsi ltac:(apply required_newline_ok'). intros _ lr3 v3 Hf3 Hlt3 HK3 _.
    apply prt_pret. split; [exact Hf3|]. split; [exact HK3|]. split; [exact Hlt3|exact I]. }
  destruct (ic <? 2); [apply Hnl|]. destruct (ic =? state_code); [apply Hnl|].
  apply prt_fail_with; [exact Hf2|]. apply prt_give_up_at_markM; assumption.
Qed.

Lemma aag_latch_it maxc ml (st : unit) l lr v :
  KM lr v -> Forall (PLatchA maxc ml) l ->
  prt (aag_latch fuel maxc ml st) lr v (ItPost KI (fun l (_ : unit) => Forall (PLatchA maxc ml) l) EP l v).
Proof.
  intros HK Hl. pose proof (frame_refl v) as Hf. unfold aag_latch.
  rsi ltac:(apply lit_ok'). intros s lr1 v1 Hf1 _ HK1 Hs. clear HK Hf.
  rsi ltac:(apply required_space_ok'). intros _ lr2 v2 Hf2 _ HK2 _. clear HK1 Hf1.
  rsi ltac:(apply lit_ok'). intros nx lr3 v3 Hf3 _ HK3 Hnx. clear HK2 Hf2.
  rsi ltac:(apply latch_init_ok). intros init lr4 v4 Hf4 Hlt4 HK4 _.
  apply prt_pret. split; [exact Hf4|]. split; [exact HK4|]. split; [exact Hlt4|].
  apply Forall_snoc; [exact Hl|]. exists s, nx, init. split; [reflexivity|]. split; assumption.
Qed.

Lemma aag_and_it maxc ml (st : unit) l lr v :
  KM lr v -> Forall (PAndA maxc ml) l ->
  prt (aag_and fuel maxc ml st) lr v (ItPost KI (fun l (_ : unit) => Forall (PAndA maxc ml) l) EP l v).
Proof.
  intros HK Hl. pose proof (frame_refl v) as Hf. unfold aag_and.
  rsi ltac:(apply lit_ok'). intros o lr1 v1 Hf1 _ HK1 Ho. clear HK Hf.
  rsi ltac:(apply required_space_ok'). intros _ lr2 v2 Hf2 _ HK2 _. clear HK1 Hf1.
  rsi ltac:(apply lit_ok'). intros a lr3 v3 Hf3 _ HK3 Ha. clear HK2 Hf2.
  rsi ltac:(apply required_space_ok'). intros _ lr4 v4 Hf4 _ HK4 _. clear HK3 Hf3.
  rsi ltac:(apply lit_ok'). intros b lr5 v5 Hf5 _ HK5 Hb. clear HK4 Hf4.
  rsi ltac:(apply required_newline_ok'). intros _ lr6 v6 Hf6 Hlt6 HK6 _.
  apply prt_pret. split; [exact Hf6|]. split; [exact HK6|]. split; [exact Hlt6|].
  apply Forall_snoc; [exact Hl|]. exists o, a, b. split; [reflexivity|]. split; [exact Ho|]. split; assumption.
Qed.

(* binary latches: the state is the code of the latch being defined *)
Definition CodeJ (c0 : N) (P : list item -> Prop) (l : list item) (code : N) : Prop :=
  P l /\ code = (c0 + 2 * nlen l) mod W64.

Lemma CodeJ_step c0 (P : list item -> Prop) l x code :
  CodeJ c0 P l code -> P (l ++ [x]) -> CodeJ c0 P (l ++ [x]) ((code + 2) mod W64).
Proof.
  intros [_ Hc] HP. split; [exact HP|]. rewrite Hc, nlen_app. change (nlen [x]) with 1.
  rewrite N.add_mod_idemp_l by (unfold W64; lia). f_equal. lia.
Qed.

Lemma aig_latch_it maxc ml c0 code l lr v :
  KM lr v -> CodeJ c0 (Forall (PLatchB maxc ml)) l code ->
  prt (aig_latch fuel maxc ml code) lr v (ItPost KI (CodeJ c0 (Forall (PLatchB maxc ml))) EP l v).
Proof.
  intros HK HJ. pose proof (frame_refl v) as Hf. unfold aig_latch.
  rsi ltac:(apply lit_ok'). intros nx lr1 v1 Hf1 _ HK1 Hnx. clear HK Hf.
  rsi ltac:(apply latch_init_ok). intros init lr2 v2 Hf2 Hlt2 HK2 _.
  unfold code_plus_2. apply prt_pret. split; [exact Hf2|]. split; [exact HK2|]. split; [exact Hlt2|].
  apply CodeJ_step; [exact HJ|]. apply Forall_snoc; [exact (proj1 HJ)|]. exists nx, init. split; [reflexivity|exact Hnx].
Qed.

(* ---------- token::delta_code, binary next_and_gate ---------- *)
(* an LF that ends the code is recorded as a line break after the range check; the range error is reported at the
   mark, where the code starts, on the line the bookkeeping still knows *)
Lemma delta_code_ok code lr v : KM lr v -> prt (delta_code code) lr v (RP (GsP v (fun x => x <= code)) v).
Proof.
  intros HK. unfold delta_code. apply prt_pbnd, prt_pset_mark.
  pose proof (KM_setmark lr v HK) as HK0. pose proof (frame_setmark v) as Hf0.
  unfold rbnd. apply prt_pbnd. eapply prt_conseq; [apply (binary_uint_ok lr (v_setmark v)); exact HK0|].
  intros r lr1 v1 [Hf1 Hr]. pose proof (frame_trans _ _ _ Hf0 Hf1) as Hf01.
  destruct r as [[delta ends]|e]; [|apply prt_pret; split; assumption].
  destruct Hr as (-> & Hmk & Hlt & Hends). cbn [v_setmark vcur vmark snd] in Hlt, Hmk, Hends.
  assert (Hv1 : VOK v1 /\ MR M v1) by (destruct Hends as (h1 & _ & h3); split; assumption).
  destruct (code <? delta) eqn:Ec.
  - apply prt_fail_with; [exact Hf01|]. destruct HK as (_ & (h1 & h2 & h3) & _).
    apply prt_give_up_at_mark_gen; [exact (proj1 Hv1)|exact (proj2 Hv1)|rewrite Hmk; exact h1|rewrite Hmk; lia|
                                    rewrite Hmk; exact h2|exact h3].
  - apply N.ltb_ge in Ec. apply prt_pbnd. destruct ends.
    + apply (prt_line_at_offset fuel); [exact (proj1 Hv1)|]. rewrite N.add_0_r. apply prt_pret.
      split; [exact Hf01|]. split; [exact Hends|]. split; [exact Hlt|lia].
    + apply prt_pret. apply prt_pret. split; [exact Hf01|]. split; [exact Hends|]. split; [exact Hlt|lia].
Qed.

(* binary and gates: the state is the code of the gate being defined *)
Lemma aig_and_it maxc lhs0 code l lr v :
  KM lr v -> CodeJ lhs0 (andsB maxc lhs0) l code ->
  prt (aig_and maxc code) lr v (ItPost KI (CodeJ lhs0 (andsB maxc lhs0)) EP l v).
Proof.
  intros HK HJ. pose proof (frame_refl v) as Hf. unfold aig_and.
  rsi ltac:(apply delta_code_ok). intros in0 lr1 v1 Hf1 _ HK1 Hle0. clear HK Hf.
  rsi ltac:(apply delta_code_ok). intros in1 lr2 v2 Hf2 Hlt2 HK2 Hle1.
  unfold code_plus_2. apply prt_pret. split; [exact Hf2|]. split; [exact HK2|]. split; [exact Hlt2|].
  apply CodeJ_step; [exact HJ|]. destruct HJ as [Hl Hc]. apply andsB_app. split; [exact Hl|]. cbn [andsB].
  split; [|exact I]. exists in0, in1. split; [reflexivity|]. split; [|exact Hle1].
  rewrite Hc in Hle0. pose proof (N.mod_le (lhs0 + 2 * nlen l) W64). unfold W64 in *. lia.
Qed.

(* ---------- symbols and comment ---------- *)
Lemma Gs_frame {A} v v1 (x : A) lr' v' : frame v v1 -> Gs v1 x lr' v' -> Gs v x lr' v'.
Proof. intros (_ & _ & Hc) [HK Hlt]. split; [exact HK|lia]. Qed.

(* a symbol target: progress made, the index below the count (a pure property P of the value) *)
Definition GsV {A} (v : view) (P : A -> Prop) : A -> lrs -> view -> Prop :=
  fun x lr' v' => Gs v x lr' v' /\ P x.

Lemma sym_try_ok count letter not_eol k lr v : letter <> 10 -> KM lr v ->
  prt (sym_try fuel count letter not_eol k) lr v (TP (GsV v (fun x => fst x = k /\ snd x < count)) v).
Proof.
  intros Hl HK. unfold sym_try, tok_err, tok_ft.
  destruct (0 <? count) eqn:E0; [|apply prt_pret; split; [apply frame_refl|exact HK]]. apply N.ltb_lt in E0.
  assert (Hne : [letter] <> []) by discriminate.
  assert (H10 : ~ In 10 [letter]) by (intros [H|[]]; congruence).
  apply prt_pbnd. apply (prt_conseq _ _ _ (TP (Gs v) v)).
  { destruct not_eol; [apply fixed_not_eol_ok|apply tfixed_okM]; assumption. }
  intros f lr1 v1 [Hf Hr]. destruct f as [[u|e]|]; [|apply prt_pret; split; assumption..].
  destruct Hr as [HK1 Hlt]. apply prt_pbnd. eapply prt_conseq; [apply symbol_index_ok; exact HK1|].
  intros r lr2 v2 [Hf2 Hr2]. apply prt_pret. split; [eapply frame_trans; eassumption|].
  destruct r as [i|e]; [|exact Hr2]. destruct Hr2 as (-> & HK2 & Hlt2 & _ & Hle).
  split; [split; [exact HK2|lia]|]. cbn [fst snd]. split; [reflexivity|lia].
Qed.

Lemma or_parse_tok_ok {A} (a b : tok A) (P : A -> Prop) lr v :
  prt a lr v (TP (GsV v P) v) -> (forall lr1 v1, KM lr1 v1 -> prt b lr1 v1 (TP (GsV v1 P) v1)) ->
  prt (or_parse_tok a b) lr v (TP (GsV v P) v).
Proof.
  intros Ha Hb. unfold or_parse_tok. apply prt_pbnd. eapply prt_conseq; [exact Ha|].
  intros r lr1 v1 [Hf Hr]. destruct r as [[x|e]|]; [apply prt_pret; split; assumption..|].
  eapply prt_conseq; [apply Hb; exact Hr|]. intros r' lr2 v2 Hr'.
  eapply TP_frame; [exact Hf|]. eapply TP_weaken; [exact Hr'|]. intros x [Hg Hp]. split; [|exact Hp].
  eapply Gs_frame; eassumption.
Qed.

Lemma sym_try_ok' h count letter not_eol k lr v : letter <> 10 -> count = sym_count h k -> KM lr v ->
  prt (sym_try fuel count letter not_eol k) lr v (TP (GsV v (fun x => snd x < sym_count h (fst x))) v).
Proof.
  intros Hl -> HK. eapply prt_conseq; [apply sym_try_ok; assumption|]. intros a lr' v' Ha.
  eapply TP_weaken; [exact Ha|]. intros x [Hg [E1 E2]]. split; [exact Hg|]. rewrite E1. exact E2.
Qed.

Lemma symbol_target_ok h lr v : KM lr v ->
  prt (symbol_target fuel h) lr v (TP (GsV v (fun x => snd x < sym_count h (fst x))) v).
Proof.
  intros HK. unfold symbol_target.
  repeat (apply or_parse_tok_ok; [apply sym_try_ok'; [lia|reflexivity|assumption]|clear lr v HK; intros lr v HK]).
  apply sym_try_ok'; [lia|reflexivity|assumption].
Qed.

Definition SymPost (h : aheader) (v : view) (r : result (option item) perr) (lr' : lrs) (v' : view) : Prop :=
  frame v v' /\
  match r with
  | Ok (Some s) => KM lr' v' /\ vcur v < vcur v' /\ PTail h s
  | Ok None => KM lr' v'
  | Err e => EP e v'
  end.

Lemma next_symbol_ok h lr v : KM lr v -> prt (next_symbol fuel h) lr v (SymPost h v).
Proof.
  intros HK. unfold next_symbol. apply prt_pbnd. eapply prt_conseq; [apply symbol_target_ok; exact HK|].
  intros t lr1 v1 [Hf1 Ht]. destruct t as [[[k i]|e]|]; [|apply prt_pret; split; assumption..].
  destruct Ht as [[HK1 Hlt1] Hi]. cbn [fst snd] in Hi. clear HK.
  rsi ltac:(apply required_space_ok'). intros _ lr2 v2 Hf2 _ HK2 _. clear HK1 Hf1.
  rsi ltac:(intros HKx; apply Gs_GsP, remaining_line_content_ok; exact HKx). intros name lr3 v3 Hf3 Hlt3 HK3 _.
  apply prt_pret. split; [exact Hf3|]. split; [exact HK3|]. split; [exact Hlt3|].
  left. exists k, i, name. split; [reflexivity|exact Hi].
Qed.

Definition SymLoopPost (h : aheader) (v : view) (r : list item * unit * option perr) (lr' : lrs) (v' : view) : Prop :=
  frame v v' /\ match snd r with None => KM lr' v' /\ Forall (PTail h) (fst (fst r)) | Some e => EP e v' end.

Lemma symbols_loop_ok n : forall h acc lr v, KM lr v -> meas v n -> Forall (PTail h) acc ->
  prt (symbols_loop fuel n h acc) lr v (SymLoopPost h v).
Proof.
  induction n as [|n IH]; intros h acc lr v HK Hm Hacc; [exfalso; unfold meas in Hm; lia|]. cbn [symbols_loop].
  apply prt_pbnd. eapply prt_conseq; [apply next_symbol_ok; exact HK|]. intros r lr1 v1 [Hf Hr].
  destruct r as [[s|]|e].
  - destruct Hr as (HK1 & Hlt & Hs).
    eapply prt_conseq; [apply IH; [exact HK1|eapply meas_stepV; [exact Hm|exact Hf|exact Hlt|exact (KM_VOK _ _ HK1)]|]|].
    + constructor; assumption.
    + intros r2 lr2 v2 [Hf2 H2]. split; [eapply frame_trans; eassumption|exact H2].
  - apply prt_pret. split; [exact Hf|]. cbn [fst snd]. split; [exact Hr|apply Forall_rev; exact Hacc].
  - apply prt_pret. split; assumption.
Qed.

Lemma sect_sym h (m : PM (list item * unit * option perr)) (k : unit -> PM (list item * final))
      (E : perr -> view -> Prop) lr v v0 :
  (forall e w, EP e w -> E e w) -> frame v0 v ->
  prt m lr v (SymLoopPost h v) ->
  (forall st lr1 v1, frame v0 v1 -> KM lr1 v1 -> prt (k st) lr1 v1 (BP (Forall (PTail h)) E v0)) ->
  prt (sect m k) lr v (BP (Forall (PTail h)) E v0).
Proof.
  intros HE Hf0 Hm Hk. unfold sect. apply prt_pbnd. eapply prt_conseq; [exact Hm|].
  intros [[items st] oe] lr1 v1 [Hf1 Hr]. cbn [fst snd] in Hr. pose proof (frame_trans _ _ _ Hf0 Hf1) as Hf01.
  destruct oe as [e|].
  - apply prt_pret. split; [exact Hf01|]. cbn [snd]. apply HE. exact Hr.
  - destruct Hr as [HK1 Hit]. apply prt_pbnd. eapply prt_conseq; [apply (Hk st lr1 v1 Hf01 HK1)|].
    intros [items2 fin] lr2 v2 [Hf2 Hfin]. cbn [fst snd] in Hfin. apply prt_pret. split; [exact Hf2|]. cbn [fst snd].
    destruct fin as [|e]; [|exact Hfin]. split; [exact (proj1 Hfin)|]. apply Forall_app. split; [exact Hit|exact (proj2 Hfin)].
Qed.

Lemma comment_section_ok h lr v : KM lr v -> prt (comment_section fuel h) lr v (BP (Forall (PTail h)) EP v).
Proof.
  intros HK. unfold comment_section. apply prt_pbnd.
  eapply prt_conseq; [apply symbols_loop_ok; [exact HK|apply meas_initV; exact (KM_VOK _ _ HK)|constructor]|].
  intros [[items u] oe] lr1 v1 [Hf1 Hr]. cbn [fst snd] in Hr. destruct oe as [e|]; [apply prt_pret; split; assumption|].
  destruct Hr as [Hr _].
  apply prt_pbnd. eapply prt_conseq; [apply (tfixed_okM [99]); [discriminate|intros [H|[]]; discriminate|exact Hr]|].
  intros c lr2 v2 [Hf2 Hc]. pose proof (frame_trans _ _ _ Hf1 Hf2) as Hf12. destruct c as [[u2|e]|].
  - destruct Hc as [HK2 _]. apply prt_pbnd.
    apply (prt_conseq _ _ _ (RP (fun _ _ v' => vfail v' = None) v)).
    { clear HK Hr Hf1 Hf2. rsi ltac:(apply required_newline_ok'). intros _ lr3 v3 Hf3 _ HK3 _.
      eapply prt_conseq; [apply remaining_file_content_ok; exact HK3|]. intros a lr4 v4 Ha. eapply RP_frame; eassumption. }
    intros r2 lr3 v3 [Hf3 Hr3]. destruct r2 as [content|e]; apply prt_pret; (split; [exact Hf3|]); cbn [snd fst].
    + split; [exact Hr3|]. constructor; [right; exists content; reflexivity|constructor].
    + exact Hr3.
  - apply prt_pret. split; assumption.
  - apply prt_pbnd. eapply prt_conseq; [apply or_unexpected_okM, teof_okM; exact Hc|].
    intros r2 lr3 v3 [Hf3 Hr3]. pose proof (frame_trans _ _ _ Hf12 Hf3) as Hf13.
    destruct r2 as [u2|e]; apply prt_pret; (split; [exact Hf13|]); cbn [snd fst].
    + split; [exact (proj2 Hr3)|constructor].
    + exact Hr3.
Qed.

(* ---------- the sections between the latches and the and gates ---------- *)
Lemma lit_section {St : Type} maxc ml asg mk (J0 : St -> Prop) n (st : St) (k : St -> PM (list item * final))
      (E : perr -> view -> Prop) (Qb : list item -> Prop) lr v v0 :
  (forall e w, EP e w -> E e w) -> frame v0 v -> KM lr v -> J0 st ->
  (forall st' lr1 v1, frame v0 v1 -> KM lr1 v1 -> J0 st' -> prt (k st') lr1 v1 (BP Qb E v0)) ->
  prt (sect (sloop fuel (lit_line fuel maxc ml asg mk) n st []) k) lr v
      (BP (SeqD (Sec n (PLine maxc ml asg mk)) (fun _ => Qb)) E v0).
Proof.
  intros HE Hf0 HK H0 Hk.
  eapply (sect_sloop _ k KI (fun l st => Forall (PLine maxc ml asg mk) l /\ J0 st) E E n).
  - exact Hf0.
  - intros st1 lr1 v1. apply KI_VOK.
  - intros st1 l lr1 v1 HI [HJ H01] _. eapply prt_conseq; [apply (lit_line_it maxc ml asg mk J0); [exact HI|exact HJ|exact H01]|].
    intros r lr2 v2 Hr. eapply ItPost_E; eassumption.
  - exact HK.
  - split; [constructor|exact H0].
  - intros; assumption.
  - intros items st1 [HJ _] Hn. split; assumption.
  - intros items st1 lr1 v1 Hf1 HI [_ H01] _. apply Hk; [exact Hf1|exact HI|exact H01].
Qed.

Lemma middle_sections_ok {St : Type} maxc ml h (J0 : St -> Prop) (st : St) (k : St -> PM (list item * final))
      (E : perr -> view -> Prop) (Kt : list item -> Prop) lr v v0 :
  (forall e w, EP e w -> E e w) -> frame v0 v -> KM lr v -> J0 st ->
  (forall st' lr1 v1, frame v0 v1 -> KM lr1 v1 -> J0 st' -> prt (k st') lr1 v1 (BP Kt E v0)) ->
  prt (middle_sections fuel maxc ml h st k) lr v (BP (MidL maxc ml h Kt) E v0).
Proof.
  intros HE Hf0 HK H0 Hk. unfold middle_sections, MidL.
  apply (lit_section maxc ml false IOutput J0); [exact HE|exact Hf0|exact HK|exact H0|].
  intros st1 lr1 v1 Hf1 HK1 H01.
  apply (lit_section maxc ml false IBad J0); [exact HE|exact Hf1|exact HK1|exact H01|].
  intros st2 lr2 v2 Hf2 HK2 H02.
  apply (lit_section maxc ml false IConstraint J0); [exact HE|exact Hf2|exact HK2|exact H02|].
  intros st3 lr3 v3 Hf3 HK3 H03.
  eapply (sect_sloop _ _ KI (fun l total => Forall PJs l /\ total = jsum l) E E (a_justice h)).
  - exact Hf3.
  - intros st4 lr4 v4. apply KI_VOK.
  - intros total l lr4 v4 HI [HJ Ht] _. eapply prt_conseq; [apply justice_size_it; [exact HI|exact HJ|exact Ht]|].
    intros r lr5 v5 Hr. eapply ItPost_E; eassumption.
  - exact HK3.
  - split; [constructor|reflexivity].
  - intros; assumption.
  - intros items total [HJ _] Hn. split; assumption.
  - intros l4 total lr4 v4 Hf4 HK4 [_ Ht] _.
    rewrite <- Ht.
    apply (lit_section maxc ml false IJustice J0); [exact HE|exact Hf4|exact HK4|exact H03|].
    intros st5 lr5 v5 Hf5 HK5 H05.
    apply (lit_section maxc ml false IFairness J0); [exact HE|exact Hf5|exact HK5|exact H05|].
    intros st6 lr6 v6 Hf6 HK6 H06. apply Hk; [exact Hf6|exact HK6|exact H06].
Qed.

(* ---------- the whole parse ---------- *)
Definition APost (maxc : N) (L : aheader -> list item -> Prop) (E : perr -> view -> Prop) (v : view)
           (r : aout) (lr' : lrs) (v' : view) : Prop :=
  frame v v' /\
  match snd r with
  | FOk => vfail v' = None /\ exists hd, fst (fst r) = Some hd /\ HdrOK maxc hd /\ L hd (snd (fst r))
  | FErr e => E e v'
  end.

Lemma finish_parse_ok maxc (h : result aheader perr) (body : aheader -> PM (list item * final))
      (L : aheader -> list item -> Prop) (E : perr -> view -> Prop) lr v v0 :
  frame v0 v ->
  match h with Ok hd => KM lr v /\ HdrOK maxc hd | Err e => E e v end ->
  (forall hd, h = Ok hd -> KM lr v -> HdrOK maxc hd -> prt (body hd) lr v (BP (L hd) E v0)) ->
  prt (finish_parse h body) lr v (APost maxc L E v0).
Proof.
  intros Hf0 Hh Hb. unfold finish_parse. destruct h as [hd|e].
  - destruct Hh as [HK Hhd]. apply prt_pbnd. eapply prt_conseq; [apply Hb; [reflexivity|assumption..]|].
    intros [items fin] lr1 v1 [Hf1 Hfin]. cbn [fst snd] in Hfin. apply prt_pret. split; [exact Hf1|]. cbn [fst snd].
    destruct fin as [|e]; [|exact Hfin]. split; [exact (proj1 Hfin)|]. exists hd. split; [reflexivity|]. split; [exact Hhd|exact (proj2 Hfin)].
  - apply prt_pret. split; [exact Hf0|]. cbn [snd]. exact Hh.
Qed.

Lemma tail_ok h (E : perr -> view -> Prop) lr v v0 :
  (forall e w, EP e w -> E e w) -> frame v0 v -> KM lr v ->
  prt (sect (symbols_loop fuel fuel h []) (fun _ => comment_section fuel h)) lr v (BP (Forall (PTail h)) E v0).
Proof.
  intros HE Hf0 HK.
  apply sect_sym; [exact HE|exact Hf0|apply symbols_loop_ok; [exact HK|apply meas_initV; exact (KM_VOK _ _ HK)|constructor]|].
  intros _ lr1 v1 Hf1 HK1. eapply prt_conseq; [apply comment_section_ok; exact HK1|].
  intros r lr2 v2 Hr. apply (BP_E _ EP E); [exact HE|]. destruct Hr as [Hf2 Hr]. split; [eapply frame_trans; eassumption|exact Hr].
Qed.

Lemma parse_aag_ok maxc lr v : KM lr v -> prt (parse_aag fuel maxc) lr v (APost maxc (AagL maxc) EP v).
Proof.
  intros HK. unfold parse_aag. apply prt_pbnd.
  eapply prt_conseq; [apply (parse_aheader_ok magic_ascii maxc); [discriminate|cbv; intuition discriminate|exact HK]|].
  intros h lr1 v1 [Hf1 Hh]. apply finish_parse_ok; [exact Hf1|destruct h; exact Hh|].
  intros hd _ HK1 Hhd. unfold AagL. cbv zeta. set (ml := a_max_var hd * 2 + 1).
  assert (HE : forall e w, EP e w -> EP e w) by (intros; assumption).
  apply (lit_section maxc ml true IInput (fun _ : unit => True)); [exact HE|exact Hf1|exact HK1|exact I|].
  intros st2 lr2 v2 Hf2 HK2 _.
  eapply (sect_sloop _ _ KI (fun l (_ : unit) => Forall (PLatchA maxc ml) l) EP EP (a_latches hd)).
  - exact Hf2.
  - intros st3 lr3 v3. apply KI_VOK.
  - intros st3 l lr3 v3 HI HJ _. apply aag_latch_it; [exact HI|exact HJ].
  - exact HK2.
  - constructor.
  - intros; assumption.
  - intros items st3 HJ Hn. split; assumption.
  - intros _ st3 lr3 v3 Hf3 HK3 _ _.
    apply (middle_sections_ok maxc ml hd (fun _ : unit => True)); [exact HE|exact Hf3|exact HK3|exact I|].
    intros st4 lr4 v4 Hf4 HK4 _.
    eapply (sect_sloop _ _ KI (fun l (_ : unit) => Forall (PAndA maxc ml) l) EP EP (a_ands hd)).
    + exact Hf4.
    + intros st5 lr5 v5. apply KI_VOK.
    + intros st5 l lr5 v5 HI HJ _. apply aag_and_it; [exact HI|exact HJ].
    + exact HK4.
    + constructor.
    + intros; assumption.
    + intros items st5 HJ Hn. split; assumption.
    + intros _ st5 lr5 v5 Hf5 HK5 _ _. apply tail_ok; assumption.
Qed.

Lemma parse_aig_ok maxc lr v : KM lr v -> prt (parse_aig fuel maxc) lr v (APost maxc (AigL maxc) EP v).
Proof.
  intros HK. unfold parse_aig. apply prt_pbnd.
  eapply prt_conseq; [apply (parse_aheader_ok magic_binary maxc); [discriminate|cbv; intuition discriminate|exact HK]|].
  intros h lr1 v1 [Hf1 Hh]. apply finish_parse_ok; [exact Hf1|destruct h; exact Hh|].
  intros hd _ HK1 Hhd. unfold AigL. cbv zeta. set (ml := a_max_var hd * 2 + 1) in *.
  set (c0 := 2 * (a_inputs hd + 1)).
  assert (HE : forall e w, EP e w -> EP e w) by (intros; assumption).
  eapply (sect_sloop _ _ KI (CodeJ c0 (Forall (PLatchB maxc ml))) EP EP (a_latches hd)).
  - exact Hf1.
  - intros st2 lr2 v2. apply KI_VOK.
  - intros code l lr2 v2 HI HJ _. apply (aig_latch_it maxc ml c0); [exact HI|exact HJ].
  - exact HK1.
  - split; [constructor|]. change (nlen (@nil item)) with 0. unfold c0.
    rewrite N.mul_mod_idemp_l by (unfold W64; lia). f_equal. lia.
  - intros; assumption.
  - intros items st2 [HJ _] Hn. split; assumption.
  - intros lats code lr2 v2 Hf2 HK2 [_ Hc] Hn. rewrite Hn in Hc.
    apply (middle_sections_ok maxc ml hd (fun code => code = (c0 + 2 * a_latches hd) mod W64));
      [exact HE|exact Hf2|exact HK2|exact Hc|].
    intros code' lr3 v3 Hf3 HK3 Hc3.
    set (lhs0 := 2 * (a_inputs hd + a_latches hd + 1)).
    eapply (sect_sloop _ _ KI (CodeJ lhs0 (andsB maxc lhs0)) EP EP (a_ands hd)).
    + exact Hf3.
    + intros st4 lr4 v4. apply KI_VOK.
    + intros code4 l lr4 v4 HI HJ _. apply aig_and_it; assumption.
    + exact HK3.
    + split; [exact I|]. change (nlen (@nil item)) with 0. rewrite Hc3. f_equal. unfold c0, lhs0. lia.
    + intros; assumption.
    + intros items st4 [HJ _] Hn4. split; assumption.
    + intros _ st4 lr4 v4 Hf4 HK4 _ _. apply tail_ok; assumption.
Qed.

End WithM.


End ASafe.

(* ================================================================== *)
(* 3. the theorems                                                       *)

Lemma KM_init fuel S fail :
  Forall (fun b => b < 256) S -> nlen S < 2 ^ 62 -> (length S < fuel)%nat -> KM fuel S lrs_init (view_init S fail).
Proof.
  intros Hb Hl Hf. destruct (K_init fuel S fail Hb Hl Hf) as [Hv _]. split; [exact Hv|]. split.
  - unfold LIM, lrs_init, view_init; cbn [vS vcur l_start l_line]. split; [lia|]. split; [apply nolf_empty; lia|].
    split; [left; reflexivity|reflexivity].
  - apply (MR_self (view_init S fail)).
Qed.

(* ---------- ascii ---------- *)
Lemma parse_aag_all fuel maxc S fail r :
  Forall (fun b => b < 256) S -> nlen S < 2 ^ 62 -> (length S < fuel)%nat ->
  aruns (parse_aag fuel maxc lrs_init) (view_init S fail) r ->
  exists ohd items fin lr' v',
    r = ADone (ohd, items, fin, lr') v' /\ vS v' = S /\ vfail v' = fail /\
    match fin with
    | FOk => fail = None /\ exists hd, ohd = Some hd /\ HdrOK maxc hd /\ AagL maxc hd items
    | FErr e => EP S e v'
    end.
Proof.
  intros Hb Hl Hf Hr. pose proof (KM_init fuel S fail Hb Hl Hf) as HK.
  destruct (prt_elim _ _ _ _ _ (parse_aag_ok fuel S maxc _ _ HK) Hr) as ([[ohd items] fin] & lr' & v' & -> & Hfr & Hfin).
  cbn [fst snd] in Hfin. destruct Hfr as (Hs & Hfl & _). cbn [view_init vS vfail] in Hs, Hfl.
  exists ohd, items, fin, lr', v'. split; [reflexivity|]. split; [exact Hs|]. split; [exact Hfl|].
  destruct fin; [rewrite <- Hfl; exact Hfin|exact Hfin].
Qed.

(* T1: every admissible run finishes normally: never stuck, no panic, never out of fuel *)
Theorem parse_aag_safe fuel maxc S fail r :
  Forall (fun b => b < 256) S -> nlen S < 2 ^ 62 -> (length S < fuel)%nat ->
  aruns (parse_aag fuel maxc lrs_init) (view_init S fail) r ->
  exists out lr' v', r = ADone (out, lr') v'.
Proof.
  intros Hb Hl Hf Hr.
  destruct (parse_aag_all fuel maxc S fail r Hb Hl Hf Hr) as (ohd & items & fin & lr' & v' & -> & _). eauto.
Qed.
Print Assumptions parse_aag_safe.

(* T2: a failing source never yields the clean end; the error is the source's I/O error, or a syntax error found
   before the end of the delivered data had been seen.  A source that does not fail never yields an I/O error. *)
Theorem parse_aag_failing fuel maxc S fail r :
  Forall (fun b => b < 256) S -> nlen S < 2 ^ 62 -> (length S < fuel)%nat ->
  aruns (parse_aag fuel maxc lrs_init) (view_init S fail) r ->
  exists ohd items fin lr' v',
    r = ADone (ohd, items, fin, lr') v' /\
    match fin with
    | FOk => fail = None
    | FErr (EIo e) => fail = Some e
    | FErr (ESyntax _ _) => fail = None \/ vknown v' = false
    end.
Proof.
  intros Hb Hl Hf Hr.
  destruct (parse_aag_all fuel maxc S fail r Hb Hl Hf Hr) as (ohd & items & fin & lr' & v' & -> & Hs & Hfl & Hfin).
  exists ohd, items, fin, lr', v'. split; [reflexivity|].
  destruct fin as [|[l c|e]]; [exact (proj1 Hfin)| |].
  - cbn [EP] in Hfin. rewrite Hfl in Hfin. exact (proj1 Hfin).
  - cbn [EP] in Hfin. rewrite Hfl in Hfin. exact Hfin.
Qed.
Print Assumptions parse_aag_failing.

(* T3: the location of a syntax error *)
Theorem parse_aag_error_location fuel maxc S fail ohd items l c lr' v' :
  Forall (fun b => b < 256) S -> nlen S < 2 ^ 62 -> (length S < fuel)%nat ->
  aruns (parse_aag fuel maxc lrs_init) (view_init S fail) (ADone (ohd, items, FErr (ESyntax l c), lr') v') ->
  loc_ok S l c.
Proof.
  intros Hb Hl Hf Hr.
  destruct (parse_aag_all fuel maxc S fail _ Hb Hl Hf Hr) as (ohd0 & items0 & fin & lr0 & v0 & E & Hs & Hfl & Hfin).
  inversion E; subst. cbn [EP] in Hfin. apply loc_strict_ok. exact (proj2 Hfin).
Qed.
Print Assumptions parse_aag_error_location.

(* ... exactly: the reported (line, column) is that of a position of the input (the end of the input included),
   as counted from the start of the input; the AIGER tokens have no exception for an unterminated last line *)
Theorem parse_aag_error_position fuel maxc S fail ohd items l c lr' v' :
  Forall (fun b => b < 256) S -> nlen S < 2 ^ 62 -> (length S < fuel)%nat ->
  aruns (parse_aag fuel maxc lrs_init) (view_init S fail) (ADone (ohd, items, FErr (ESyntax l c), lr') v') ->
  exists pos, pos <= nlen S /\ (l, c) = line_col_of S pos.
Proof.
  intros Hb Hl Hf Hr.
  destruct (parse_aag_all fuel maxc S fail _ Hb Hl Hf Hr) as (ohd0 & items0 & fin & lr0 & v0 & E & Hs & Hfl & Hfin).
  inversion E; subst. cbn [EP] in Hfin. apply loc_strict_pos. exact (proj2 Hfin).
Qed.
Print Assumptions parse_aag_error_position.

(* T4: the limits (with `code as $t` still written as from_code; AigerLimits.v removes it) *)
Theorem parse_aag_limits_fc fuel maxc S fail ohd items lr' v' :
  Forall (fun b => b < 256) S -> nlen S < 2 ^ 62 -> (length S < fuel)%nat ->
  aruns (parse_aag fuel maxc lrs_init) (view_init S fail) (ADone (ohd, items, FOk, lr') v') ->
  exists hd, ohd = Some hd /\ HdrOK maxc hd /\ AagL maxc hd items.
Proof.
  intros Hb Hl Hf Hr.
  destruct (parse_aag_all fuel maxc S fail _ Hb Hl Hf Hr) as (ohd0 & items0 & fin & lr0 & v0 & E & Hs & Hfl & Hfin).
  inversion E; subst. exact (proj2 Hfin).
Qed.
Print Assumptions parse_aag_limits_fc.

(* ---------- binary ---------- *)
Lemma parse_aig_all fuel maxc S fail r :
  Forall (fun b => b < 256) S -> nlen S < 2 ^ 62 -> (length S < fuel)%nat ->
  aruns (parse_aig fuel maxc lrs_init) (view_init S fail) r ->
  exists ohd items fin lr' v',
    r = ADone (ohd, items, fin, lr') v' /\ vS v' = S /\ vfail v' = fail /\
    match fin with
    | FOk => fail = None /\ exists hd, ohd = Some hd /\ HdrOK maxc hd /\ AigL maxc hd items
    | FErr e => EP S e v'
    end.
Proof.
  intros Hb Hl Hf Hr. pose proof (KM_init fuel S fail Hb Hl Hf) as HK.
  destruct (prt_elim _ _ _ _ _ (parse_aig_ok fuel S maxc _ _ HK) Hr) as ([[ohd items] fin] & lr' & v' & -> & Hfr & Hfin).
  cbn [fst snd] in Hfin. destruct Hfr as (Hs & Hfl & _). cbn [view_init vS vfail] in Hs, Hfl.
  exists ohd, items, fin, lr', v'. split; [reflexivity|]. split; [exact Hs|]. split; [exact Hfl|].
  destruct fin; [rewrite <- Hfl; exact Hfin|exact Hfin].
Qed.

Theorem parse_aig_safe fuel maxc S fail r :
  Forall (fun b => b < 256) S -> nlen S < 2 ^ 62 -> (length S < fuel)%nat ->
  aruns (parse_aig fuel maxc lrs_init) (view_init S fail) r ->
  exists out lr' v', r = ADone (out, lr') v'.
Proof.
  intros Hb Hl Hf Hr.
  destruct (parse_aig_all fuel maxc S fail r Hb Hl Hf Hr) as (ohd & items & fin & lr' & v' & -> & _). eauto.
Qed.
Print Assumptions parse_aig_safe.

Theorem parse_aig_failing fuel maxc S fail r :
  Forall (fun b => b < 256) S -> nlen S < 2 ^ 62 -> (length S < fuel)%nat ->
  aruns (parse_aig fuel maxc lrs_init) (view_init S fail) r ->
  exists ohd items fin lr' v',
    r = ADone (ohd, items, fin, lr') v' /\
    match fin with
    | FOk => fail = None
    | FErr (EIo e) => fail = Some e
    | FErr (ESyntax _ _) => fail = None \/ vknown v' = false
    end.
Proof.
  intros Hb Hl Hf Hr.
  destruct (parse_aig_all fuel maxc S fail r Hb Hl Hf Hr) as (ohd & items & fin & lr' & v' & -> & Hs & Hfl & Hfin).
  exists ohd, items, fin, lr', v'. split; [reflexivity|].
  destruct fin as [|[l c|e]]; [exact (proj1 Hfin)| |].
  - cbn [EP] in Hfin. rewrite Hfl in Hfin. exact (proj1 Hfin).
  - cbn [EP] in Hfin. rewrite Hfl in Hfin. exact Hfin.
Qed.
Print Assumptions parse_aig_failing.

(* T3 for the binary parser: as for the ascii parser.  A byte 10 that ends a delta code of the binary and-gate section
   is a line break like any other LF of the input (flussab 530b52f; before that fix those bytes were not counted:
   the former known finding K1, now defect D15). *)
Theorem parse_aig_error_location fuel maxc S fail ohd items l c lr' v' :
  Forall (fun b => b < 256) S -> nlen S < 2 ^ 62 -> (length S < fuel)%nat ->
  aruns (parse_aig fuel maxc lrs_init) (view_init S fail) (ADone (ohd, items, FErr (ESyntax l c), lr') v') ->
  loc_ok S l c.
Proof.
  intros Hb Hl Hf Hr.
  destruct (parse_aig_all fuel maxc S fail _ Hb Hl Hf Hr) as (ohd0 & items0 & fin & lr0 & v0 & E & Hs & Hfl & Hfin).
  inversion E; subst. cbn [EP] in Hfin. apply loc_strict_ok. exact (proj2 Hfin).
Qed.
Print Assumptions parse_aig_error_location.

(* ... exactly: the reported (line, column) is that of a position of the input, counted from the start of the input
   with every byte 10 a line break *)
Theorem parse_aig_error_position fuel maxc S fail ohd items l c lr' v' :
  Forall (fun b => b < 256) S -> nlen S < 2 ^ 62 -> (length S < fuel)%nat ->
  aruns (parse_aig fuel maxc lrs_init) (view_init S fail) (ADone (ohd, items, FErr (ESyntax l c), lr') v') ->
  exists pos, pos <= nlen S /\ (l, c) = line_col_of S pos.
Proof.
  intros Hb Hl Hf Hr.
  destruct (parse_aig_all fuel maxc S fail _ Hb Hl Hf Hr) as (ohd0 & items0 & fin & lr0 & v0 & E & Hs & Hfl & Hfin).
  inversion E; subst. cbn [EP] in Hfin. apply loc_strict_pos. exact (proj2 Hfin).
Qed.
Print Assumptions parse_aig_error_position.

Theorem parse_aig_limits_fc fuel maxc S fail ohd items lr' v' :
  Forall (fun b => b < 256) S -> nlen S < 2 ^ 62 -> (length S < fuel)%nat ->
  aruns (parse_aig fuel maxc lrs_init) (view_init S fail) (ADone (ohd, items, FOk, lr') v') ->
  exists hd, ohd = Some hd /\ HdrOK maxc hd /\ AigL maxc hd items.
Proof.
  intros Hb Hl Hf Hr.
  destruct (parse_aig_all fuel maxc S fail _ Hb Hl Hf Hr) as (ohd0 & items0 & fin & lr0 & v0 & E & Hs & Hfl & Hfin).
  inversion E; subst. exact (proj2 Hfin).
Qed.
Print Assumptions parse_aig_limits_fc.

(* ---------- C01 completed: the concrete parse does not depend on how the bytes arrive ---------- *)
Theorem parse_aag_any_chunking fuel maxc (sr : source) (c : N) :
  NoLie (events sr) -> 1 <= c ->
  Forall (fun b => b < 256) (fst (stream_of sr)) -> nlen (fst (stream_of sr)) < 2 ^ 62 ->
  (length (fst (stream_of sr)) < fuel)%nat ->
  let p := parse_aag fuel maxc lrs_init in
  exists a v' s', srun p (view_init (fst (stream_of sr)) (snd (stream_of sr))) = ADone a v' /\
                  crun p (set_chunk (reader_init sr) c) = CDone a s'.
Proof.
  intros HN Hc Hb Hl Hf p. apply (any_chunking p fuel sr c HN Hc Hb Hf).
  - exact (PDet_parse_aag fuel maxc lrs_init).
  - intros r Hr. destruct (parse_aag_safe fuel maxc _ _ r Hb Hl Hf Hr) as (out & lr' & v' & ->). eauto.
Qed.
Print Assumptions parse_aag_any_chunking.

Theorem parse_aig_any_chunking fuel maxc (sr : source) (c : N) :
  NoLie (events sr) -> 1 <= c ->
  Forall (fun b => b < 256) (fst (stream_of sr)) -> nlen (fst (stream_of sr)) < 2 ^ 62 ->
  (length (fst (stream_of sr)) < fuel)%nat ->
  let p := parse_aig fuel maxc lrs_init in
  exists a v' s', srun p (view_init (fst (stream_of sr)) (snd (stream_of sr))) = ADone a v' /\
                  crun p (set_chunk (reader_init sr) c) = CDone a s'.
Proof.
  intros HN Hc Hb Hl Hf p. apply (any_chunking p fuel sr c HN Hc Hb Hf).
  - exact (PDet_parse_aig fuel maxc lrs_init).
  - intros r Hr. destruct (parse_aig_safe fuel maxc _ _ r Hb Hl Hf Hr) as (out & lr' & v' & ->). eauto.
Qed.
Print Assumptions parse_aig_any_chunking.

(* ================================================================== *)
(* T2, continued: a syntax error reported on a failing source is reported, identically, on every continuation of the
   delivered data (it was found before the end of the data had been seen) *)
Corollary parse_aag_syntax_error_before_failure fuel maxc S e a v' l c :
  Forall (fun b => b < 256) S -> nlen S < 2 ^ 62 -> (length S < fuel)%nat ->
  srun (parse_aag fuel maxc lrs_init) (view_init S (Some e)) = ADone a v' ->
  snd (fst a) = FErr (ESyntax l c) ->
  forall T fail', exists vx', srun (parse_aag fuel maxc lrs_init) (view_init (S ++ T) fail') = ADone a vx'.
Proof.
  intros Hb Hl Hf Hs Hfin T fail'.
  assert (Hw : WFV (view_init S (Some e))) by (unfold WFV; cbn; lia).
  pose proof (srun_aruns (parse_aag fuel maxc lrs_init) _ Hw) as Hr. rewrite Hs in Hr.
  destruct (parse_aag_failing fuel maxc S (Some e) _ Hb Hl Hf Hr) as (ohd & items & fin & lr' & v0 & E & Hfail).
  inversion E; subst. cbn [fst snd] in Hfin. subst fin.
  destruct Hfail as [Hn|Hk]; [discriminate|].
  destruct (unfailed_prefix _ S e _ _ Hs Hk T fail') as (vx' & Hx & _). exists vx'. exact Hx.
Qed.
Print Assumptions parse_aag_syntax_error_before_failure.

Corollary parse_aig_syntax_error_before_failure fuel maxc S e a v' l c :
  Forall (fun b => b < 256) S -> nlen S < 2 ^ 62 -> (length S < fuel)%nat ->
  srun (parse_aig fuel maxc lrs_init) (view_init S (Some e)) = ADone a v' ->
  snd (fst a) = FErr (ESyntax l c) ->
  forall T fail', exists vx', srun (parse_aig fuel maxc lrs_init) (view_init (S ++ T) fail') = ADone a vx'.
Proof.
  intros Hb Hl Hf Hs Hfin T fail'.
  assert (Hw : WFV (view_init S (Some e))) by (unfold WFV; cbn; lia).
  pose proof (srun_aruns (parse_aig fuel maxc lrs_init) _ Hw) as Hr. rewrite Hs in Hr.
  destruct (parse_aig_failing fuel maxc S (Some e) _ Hb Hl Hf Hr) as (ohd & items & fin & lr' & v0 & E & Hfail).
  inversion E; subst. cbn [fst snd] in Hfin. subst fin.
  destruct Hfail as [Hn|Hk]; [discriminate|].
  destruct (unfailed_prefix _ S e _ _ Hs Hk T fail') as (vx' & Hx & _). exists vx'. exact Hx.
Qed.
Print Assumptions parse_aig_syntax_error_before_failure.

(* ================================================================== *)
(* the parser theorems as Hoare triples: from any state satisfying the invariant, not only the initial one *)
Theorem parse_aag_triple fuel maxc v0 :
  ptriple (fun lr v => v = v0 /\ KM fuel (vS v0) lr v) (parse_aag fuel maxc)
          (APost maxc (AagL maxc) (EP (vS v0)) v0).
Proof. apply ptriple_prt. intros lr v [-> HK]. apply parse_aag_ok. exact HK. Qed.

Theorem parse_aig_triple fuel maxc v0 :
  ptriple (fun lr v => v = v0 /\ KM fuel (vS v0) lr v) (parse_aig fuel maxc)
          (APost maxc (AigL maxc) (EP (vS v0)) v0).
Proof. apply ptriple_prt. intros lr v [-> HK]. apply parse_aig_ok. exact HK. Qed.

(* the and-gate section alone: started in a state satisfying the invariant, it ends -- whatever bytes it consumed,
   the line breaks among them recorded -- in a state satisfying the invariant, or with an error located in the input *)
Theorem aig_and_section_triple fuel maxc n code v0 :
  code < W64 ->
  ptriple (fun lr v => v = v0 /\ KM fuel (vS v0) lr v)
          (sloop fuel (aig_and maxc) n code [])
          (fun r lr' v' => frame v0 v' /\
             match snd r with
             | None => KM fuel (vS v0) lr' v' /\ nlen (fst (fst r)) = n /\ andsB maxc code (fst (fst r))
             | Some e => EP (vS v0) e v'
             end).
Proof.
  intros Hcode. apply ptriple_prt. intros lr v (-> & HK).
  eapply prt_conseq.
  - apply (sloop_ok fuel (aig_and maxc) (KI fuel (vS v0)) (CodeJ code (andsB maxc code)) (EP (vS v0)) n).
    + intros st lr1 v1. apply KI_VOK.
    + intros st l lr1 v1 HI HJ _. apply aig_and_it; assumption.
    + exact HK.
    + split; [exact I|]. cbn [rev]. change (nlen (@nil item)) with 0. replace (code + 2 * 0) with code by lia.
      symmetry. apply N.mod_small. exact Hcode.
    + apply meas_initV. exact (KM_VOK _ _ _ _ HK).
    + change (nlen (@nil item)) with 0. lia.
  - intros [[items st] oe] lr' v' [Hf Hr]. cbn [fst snd] in *. split; [exact Hf|]. destruct oe as [e|]; [exact Hr|].
    destruct Hr as (HK' & [HJ _] & Hn). split; [exact HK'|]. split; [exact Hn|exact HJ].
Qed.
Print Assumptions aig_and_section_triple.
