"""stream pa (model correspondence): whole parses of the DIMACS family and solver logs on the reader model,
compared with the implementation: items, final outcome incl. error location, number of read calls."""
from streams import docs

def gen(rng, n, tier, **kw):
    out = []
    while len(out) < n:
        parser = rng.choice(["cnf", "cnf", "wcnf", "gcnf", "log"])
        parser, ty, flags, data, _ = docs.gen_doc(rng, parser=parser)
        if len(data) > 400:
            continue
        out.append("pa " + docs.setup(parser, ty, flags, data, docs.gen_schedule(rng, len(data))))
    return out

def category(case):
    return "pa/" + case.split()[1]

def nontrivial(case):
    return len(case.split()[4]) >= 16
