(* C08 — Syntax errors point at the offending token.
   Pinned statements at the level the model reaches today: the LineReader primitives.  A give-up without a parked I/O
   error reports the current line number and column = position - line start + 1; line_at_offset moves the line start to
   position + offset and counts one line.  The invariant that ties line start / line number to the LF bytes of the
   input for the whole DIMACS parsers is pinned in the CnfSafe section once proved; AIGER/BTOR2 locations are checked
   by the location oracle (partial; known finding K1 for binary AIGER). *)
From Flussab Require Import Base Parsed Reader Prog Text ProgProofs ScanProofs Cnf CnfProofs ErrProofs.

Theorem C08_give_up_column : forall pos lr v,
  s_take v = None ->
  srun (give_up_at pos lr) v =
  if pos <? l_start lr then APanic POverflow
  else ADone (ESyntax (l_line lr) (pos - l_start lr + 1), lr) (v_take v None).
Proof. exact srun_give_up_at_clean. Qed.
Print Assumptions C08_give_up_column.

(* all three give-ups are free of buffering questions: every admissible run is the run above *)
Theorem C08_give_ups_deterministic : forall pos lr,
  det (give_up_at pos lr) /\ det (give_up lr) /\ det (give_up_at_mark lr).
Proof. intros pos lr. split; [apply det_give_up_at|split; [apply det_give_up|apply det_give_up_at_mark]]. Qed.
Print Assumptions C08_give_ups_deterministic.

(* line_at_offset: one more line, starting offset bytes after the cursor *)
Theorem C08_line_at_offset : forall offset lr v,
  srun (line_at_offset offset lr) v =
  ADone (tt, {| l_line := l_line lr + 1; l_start := vcur v mod W64 + offset |}) v.
Proof. intros offset lr v. reflexivity. Qed.
Print Assumptions C08_line_at_offset.

(* non-vacuity: "p cnf 1 1\n1 x 0\n": the error is at line 2, column 3 *)
Example C08_example :
  exists v' lr', srun (parse_dimacs 40 KCnf 2147483647%Z false lrs_init)
                      (view_init [112;32;99;110;102;32;49;32;49;10;49;32;120;32;48;10] None)
    = ADone (Some (Some {| h_vars := 1; h_clauses := 1; h_extra := 0 |}), [], FErr (ESyntax 2 3), lr') v'.
Proof. do 2 eexists. vm_compute. reflexivity. Qed.
