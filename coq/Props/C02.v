(* C02 — The buffered reader is a loss-free, in-order window onto its source.
   Only pinned statements; proofs are in ReaderProofs.v.

   Vocabulary (Reader.v / ReaderProofs.v):
     run (reader_init sr) h      the state and observations after history h
     g_delivered s               every byte the source handed over so far, in order
     g_consumed s                number of bytes advanced over
     g_mark s                    absolute offset designated by the last set_mark*
     unread s                    = skip g_consumed (g_delivered s)
     Inv s                       the reader invariant (window, position, mark, flags)
     Conserved S0 s              g_delivered s ++ (what the source still holds) = S0 *)
From Flussab Require Import Base Reader ListN ReaderProofs.

(* Every state reachable by any history from any source (short reads, Interrupted,
   EOF/error anywhere, lying sources, BufReader leftovers) satisfies the invariant. *)
Theorem C02_reachable_invariant : forall (sr : source) (h : list rop),
  Inv (fst (run (reader_init sr) h)).
Proof. intros sr h. exact (proj1 (Good_run h _ (Good_init sr))). Qed.
Print Assumptions C02_reachable_invariant.

(* The invariant says: the exposed window is exactly the delivered-but-unconsumed
   bytes; position = bytes advanced over; the mark designates the same absolute
   offset; completeness = the source ended or failed. *)
Theorem C02_invariant_meaning : forall s, Inv s ->
  get_buf s = VBytes (unread s) /\
  valid_len s = nlen (unread s) /\
  g_consumed s + valid_len s = nlen (g_delivered s) /\
  position s = g_consumed s mod W64 /\
  mark s = g_mark s mod W64 /\
  complete s = g_terminal s /\
  is_at_end s = g_terminal s && (g_consumed s =? nlen (g_delivered s)) /\
  (io_error s <> None -> g_terminal s = true).
Proof.
  intros s HI. repeat split.
  - apply get_buf_spec; exact HI.
  - symmetry; apply nlen_unread; exact HI.
  - apply (inv_count s HI).
  - apply (inv_pos s HI).
  - apply (inv_mark s HI).
  - apply (inv_compl s HI).
  - unfold is_at_end. rewrite (inv_compl s HI). f_equal.
    pose proof (inv_count s HI). destruct (valid_len s =? 0) eqn:E1; destruct (g_consumed s =? _) eqn:E2;
      try reflexivity; [apply N.eqb_eq in E1; apply N.eqb_neq in E2 | apply N.eqb_neq in E1; apply N.eqb_eq in E2]; lia.
  - intros H. rewrite <- (inv_compl s HI). apply (inv_err s HI H).
Qed.
Print Assumptions C02_invariant_meaning.

(* With a source that keeps the Read contract, what has been delivered plus what the
   source still holds is always the original stream: nothing lost, duplicated,
   reordered or invented, BufReader leftovers included; so the window is the piece
   of the source stream starting at the number of bytes advanced over. *)
Theorem C02_window_of_source : forall (sr : source) (h : list rop),
  NoLie (events sr) ->
  let s := fst (run (reader_init sr) h) in
  g_delivered s ++ pending (src s) = pending sr /\
  unread s = window (pending sr) (g_consumed s) (valid_len s).
Proof.
  intros sr h HN s.
  pose proof (Conserved_run (pending sr) h _ (Conserved_init sr HN)) as HC.
  pose proof (proj1 (Good_run h _ (Good_init sr))) as HI.
  split; [exact (proj2 HC) | exact (unread_is_source_window _ _ HI HC)].
Qed.
Print Assumptions C02_window_of_source.

(* request(n) returns the whole window and falls short only if the source ended or failed;
   it only appends to the delivered stream. *)
Theorem C02_request : forall s n, Inv s ->
  let '(s', v) := step s (ORequest n) in
  frame s s' /\
  (v = VPanic PReadContract \/
   (v = VBytes (unread s') /\ (nlen (unread s') < n -> g_terminal s' = true))).
Proof. exact request_spec. Qed.
Print Assumptions C02_request.

Theorem C02_request_byte_at_offset : forall s k, Inv s ->
  let '(s', v) := step s (OPeek k) in
  frame s s' /\
  (v = VPanic PReadContract \/
   (v = VOptByte (nnth (unread s') k) /\ (nnth (unread s') k = None -> g_terminal s' = true))).
Proof. exact peek_spec. Qed.
Print Assumptions C02_request_byte_at_offset.

Theorem C02_advance : forall s n, Inv s ->
  let '(s', v) := step s (OAdvance n) in
  if n <=? nlen (unread s)
  then v = VUnit /\ g_consumed s' = g_consumed s + n /\ g_delivered s' = g_delivered s /\ g_mark s' = g_mark s
  else v = VPanic PAdvance /\ s' = s.
Proof. exact advance_spec. Qed.
Print Assumptions C02_advance.

Theorem C02_advance_with_buf : forall s n, Inv s ->
  let '(s', v) := step s (OAdvanceWithBuf n) in
  if n <=? nlen (unread s)
  then v = VBytes (nfirstn n (unread s)) /\ g_consumed s' = g_consumed s + n /\
       g_delivered s' = g_delivered s /\ g_mark s' = g_mark s
  else v = VPanic PAdvance /\ s' = s.
Proof. exact advance_with_buf_spec. Qed.
Print Assumptions C02_advance_with_buf.

Theorem C02_observers : forall s, Inv s ->
  snd (step s OBuf) = VBytes (unread s) /\
  snd (step s OBufLen) = VNum (nlen (unread s)) /\
  snd (step s OPosition) = VNum (g_consumed s mod W64) /\
  snd (step s OMark) = VNum (g_mark s mod W64) /\
  snd (step s OIsComplete) = VBool (g_terminal s) /\
  snd (step s OIsAtEnd) = VBool (g_terminal s && (nlen (unread s) =? 0)).
Proof. exact observers_spec. Qed.
Print Assumptions C02_observers.

Theorem C02_set_mark : forall s,
  g_mark (fst (step s OSetMark)) = g_consumed s /\
  forall p, g_mark (fst (step s (OSetMarkTo p))) = p mod W64.
Proof. exact set_mark_spec. Qed.
Print Assumptions C02_set_mark.

(* a refill (the only thing that talks to the source) keeps cursor and mark and only
   appends to the delivered stream *)
Theorem C02_refill_frame : forall s, frame s (rm_state (request_more s)).
Proof. exact frame_request_more. Qed.
Print Assumptions C02_refill_frame.

(* the parked I/O error stays until check_io_error takes it *)
Theorem C02_io_error_kept : forall s o e,
  io_error s = Some e -> o <> OCheckIoError -> Inv s -> io_error (fst (step s o)) = Some e.
Proof. exact io_error_kept. Qed.
Print Assumptions C02_io_error_kept.

Theorem C02_check_io_error : forall s,
  snd (step s OCheckIoError) = VOptErr (io_error s) /\ io_error (fst (step s OCheckIoError)) = None.
Proof. exact check_io_error_spec. Qed.
Print Assumptions C02_check_io_error.

(* the loops always terminate and nothing but the two documented panics happens *)
Theorem C02_no_stuck : forall (sr : source) (h : list rop),
  forallb (fun v => negb (bad_obs v)) (snd (run (reader_init sr) h)) = true.
Proof. intros sr h. exact (run_safe h _ (Good_init sr)). Qed.
Print Assumptions C02_no_stuck.

(* non-vacuity: a concrete history with short reads, an Interrupted read, a realign
   and a mark, evaluated in the model *)
Example C02_example :
  snd (run (reader_init {| prebuf := [1;2]; data := [3;4;5;6;7;8;9;10;11;12]; events := [Deliver 1; Interrupt; Deliver 3] |})
           [OSetChunk 2; ORequest 3; OAdvance 3; OSetMark; ORequest 6; OAdvance 5; ORequestMore; OMark; OPosition; OBuf])
  = [VUnit; VBytes [1;2;3]; VUnit; VUnit; VBytes [4;5;6;7;8;9;10]; VUnit; VBool true; VNum 3; VNum 8; VBytes [9;10;11;12]].
Proof. vm_compute. reflexivity. Qed.
