"""stream pa (model correspondence): whole parses of the DIMACS family, solver logs, the two AIGER formats and BTOR2
on the reader model, compared with the implementation: items, final outcome incl. error location or I/O error,
number of read calls.  BTOR2: every field of every line (or, flags 'w', the bytes `Line::write_into` writes for every
parsed line), plus `pa b2c` cases for the validating constructors of the constants.  AIGER flags 'w': the whole-file API;
'x': the whole-file API, then the bytes the crate's writers produce for the parsed value (ascii::Writer::write_aig; binary:
binary::Writer::write_ordered_aig, the same with every gate's inputs exchanged, ascii::Writer::write_ordered_aig);
'kN': the streaming API with at most N entries taken per section (the section-switch methods skip the rest).
DIMACS (cnf/wcnf/gcnf) flags 'x': after a clean end, W:<hex of header and clauses written back with write_header / write_clause>."""
import re
import zlib
from streams import docs

def _btor2_keywords():
    """all keywords of the parser's tables, from the source"""
    src = open("/repo/flussab-btor2/src/token.rs").read()
    return re.findall(r'^\s*"([a-z]+)" => ', src, flags=re.M)


KEYWORDS = _btor2_keywords() or ["sort", "and"]
NUMS = ["0", "1", "7", "00", "01", "10", "12345678", "123456789", "18446744073709551615", "18446744073709551616",
        "99999999999999999999", "4294967296", "9" * 30, "1" * 16, "-1", "+1", "1x", ""]


def _b2_token_line(rng, nid):
    """one node line built token by token, with deliberate near misses"""
    r = rng.random()
    kw = rng.choice(KEYWORDS)
    if r < 0.25:
        # a near miss of a keyword: prefix, extension, case, long lowercase runs around the 8-byte steps
        kw = rng.choice([kw[:-1], kw + rng.choice("abxyz"), kw.upper(), kw + kw, kw[:1], "constrain", "constraints",
                         "abcdefgh", "abcdefghi", "abcdefghijklmnop", "abcdefghijklmnopq", "z" * rng.randrange(1, 40),
                         kw + "{", kw + "`", kw + "0", kw + "_"])
    num = lambda: rng.choice(NUMS) if rng.random() < 0.15 else str(rng.randrange(1, 30))
    nargs = rng.choice([0, 1, 2, 3, 4, 5])
    if kw == "sort":
        body = "sort " + rng.choice(["bitvec %s" % num(), "array %s %s" % (num(), num()), "bitvec", "array 1", "bitvecx 1", "bit 1", ""])
    elif kw in ("const", "constd", "consth"):
        c = rng.choice(["0", "1", "0101", "-", "-0", "-12", "--1", "12", "ff", "FF", "fg", "1f", "", "2", "9a", "a-1", "1 1"])
        body = "%s %s %s" % (kw, num(), c)
    elif kw == "justice":
        c = rng.choice([0, 1, 2, 3, 5])
        body = "justice %s %s" % (rng.choice([str(c), str(c), num()]), " ".join(num() for _ in range(c + rng.choice([0, 0, 0, -1, 1]))))
        body = body.rstrip(" ") if rng.random() < 0.8 else body
    else:
        body = kw + "".join(" " + num() for _ in range(nargs))
    s = "%s %s" % (rng.choice([str(nid), str(nid), num()]), body)
    t = rng.random()
    if t < 0.2:
        s += " " + rng.choice(["sym", "a;b", ";", "x y", "\tq", "s\r", "ü", "a" * 20])
    elif t < 0.3:
        s += rng.choice([" ;", " ;c", ";", " ; c ; d", "  ;", " ;\r"])
    elif t < 0.36:
        s += rng.choice([" s ;", " s ;c", " s  ;c", " s ", " s c", " ", "  ", "\t", "\r"])
    return s


def gen_btor2_doc(rng):
    k = rng.random()
    if k < 0.5:
        _, _, _, data, _ = docs.gen_doc(rng, parser="btor2")
        return data
    lines = []
    nid = 0
    for _ in range(rng.choice([1, 1, 2, 4, 8])):
        if rng.random() < 0.12:
            lines.append(rng.choice([";", "; c", ";;", "", " ", "   ; x", ";\r"]))
            continue
        nid += 1
        lines.append(_b2_token_line(rng, nid))
    sep = "\n" if rng.random() < 0.9 else rng.choice(["\r\n", "\n\n", "\n \n", " \n"])
    text = sep.join(lines)
    if rng.random() < 0.75:
        text += "\n"
    data = text.encode("utf-8", "surrogateescape")
    if rng.random() < 0.25:
        data = docs.mutate(rng, data)
    return data


def btor2_schedule(rng, n):
    """as docs.gen_schedule, sometimes with a source that fails or ends early"""
    evs, pre, chunk, ctor = docs.gen_schedule(rng, n)
    r = rng.random()
    if r < 0.22 and n > 0:
        # deliver k bytes in pieces, then fail (or report a premature end)
        k = rng.randrange(0, n + 1)
        parts = []
        left = max(0, k - (pre if ctor == "f" else 0))
        while left > 0:
            d = min(left, rng.choice([1, 2, 5, 8, 9, 40, 400]))
            parts.append("d%d" % d)
            left -= d
            if rng.random() < 0.1:
                parts.append("i")
        parts.append(rng.choice(["f7", "f7", "f3", "e"]))
        evs = ",".join(parts)
        if ctor == "f":
            pre = min(pre, k)
    return evs, pre, chunk, ctor


B2C = {
    "b": ["0", "1", "0101", "", "2", "1" * 70, "0b1", "10a", " 1", "１"],
    "d": ["0", "7", "-12", "1f", "a", "", "-", "12-3", "９", "1" * 30, "--1", "-a", "+1", "1-", "-0"],
    "h": ["0", "ff", "DEADbeef", "g", "", "0x1", "a" * 40, "fG", "ü", "@", "`", "G", "/", ":"],
}



BAD_UTF8 = [b"\xff", b"\xc3", b"\xc3\x28", b"\xe2\x82", b"\xed\xa0\x80", b"\xf4\x90\x80\x80", b"\xc0\xaf", b"\xe0\x80\x80",
            b"\xf0\x9f\x98", b"\x80", b"\xf5\x80\x80\x80", b"\xef\xbf\xbd", b"\xf0\x9f\x98\x80", b"\xed\x9f\xbf", b"\xe0\xa0\x80",
            b"\xf0\x8f\x80\x80", b"\xf0\x90\x80\x80", b"\xf4\x8f\xbf\xbf", b"\xe0\x9f\x80", b"\xc1\x80", b"\xc2\x80", b"\xdf\xbf", b"\xf1\x80\x80\x80"]


def aiger_corrupt(rng, data, ty, binary):
    """one targeted corruption of an AIGER document (on top of docs.mutate)"""
    tmax = docs.AIGER_TYPES[ty]
    b = bytearray(data)
    nl = b.find(b"\n")
    k = rng.choice(["varlong", "nofinalnl", "badutf", "hdr", "hdr", "lit", "crlf", "extra", "extra", "delta"])
    if k == "varlong":
        i = rng.randrange(max(nl, 0) + 1, len(b) + 1) if len(b) > nl + 1 else len(b)
        b[i:i] = bytes([rng.choice([0x80, 0xff, 0x81])]) * rng.choice([1, 6, 7, 8, 9]) + bytes([rng.choice([0, 1, 0x7f])])
    elif k == "nofinalnl":
        while b and b[-1] == 10 and rng.random() < 0.8:
            b.pop()
    elif k == "badutf":
        i = rng.randrange(len(b) // 2, len(b) + 1)
        b[i:i] = rng.choice(BAD_UTF8)
    elif k == "hdr" and nl > 0:
        f = bytes(b[:nl]).split(b" ")
        if len(f) > 1:
            j = rng.randrange(1, len(f))
            try:
                old = int(f[j])
            except ValueError:
                old = 0
            f[j] = str(rng.choice([0, old + 1, old + 2, max(old - 1, 0), (tmax - 1) // 2, (tmax - 1) // 2 + 1, tmax, 2 ** 64 - 1,
                                   2 ** 64, 2 ** 63, "00", "0%d" % old, "", "-1", 3, 70000])).encode()
            if rng.random() < 0.2:
                f.append(str(rng.choice([0, 1, 2])).encode())
            if rng.random() < 0.1:
                f = f[:rng.randrange(1, len(f) + 1)]
            b[:nl] = b" ".join(f)
    elif k == "lit":
        spans = [s for s in docs._number_spans(b) if s[0] > nl]
        if spans:
            i, j = rng.choice(spans)
            try:
                old = int(b[i:j])
            except ValueError:
                old = 0
            b[i:j] = str(rng.choice([0, 1, old + 1, old + 2, old | 1, 2 * old, "0%d" % old, 255, 256, 65536, tmax, tmax + 1, 2 ** 64])).encode()
    elif k == "crlf":
        ps = [i for i, x in enumerate(b) if x == 10]
        if ps:
            i = rng.choice(ps)
            b[i:i] = b"\r"
    elif k == "extra":
        b.extend(rng.choice([b"x\n", b"c", b"c\n", b"c\nfoo", b"c\nfoo\n\xff\n", b"i0 name\n", b"o0 \xc3\n", b"l0 n", b"\n", b" ", b"c \n", b"c1 x\n",
                             b"c\nline 1\nline 2\nno newline", b"c\nok\n\nbad \xe2\x82\n", b"j0 j\nf0 f\nb0 b\n", b"i9 x\n", b"i00 x\n"]))
    elif k == "delta" and binary:
        # a delta larger than the code it is subtracted from / bytes with the high bit set
        i = rng.randrange(max(nl, 0) + 1, len(b) + 1) if len(b) > nl + 1 else len(b)
        b[i:i] = docs.varint(rng.choice([1, 127, 128, 300, 2 ** 14, 2 ** 35, 2 ** 56 - 1]))
    return bytes(b)


def faulty(rng, sched, n):
    """a schedule whose source fails or reports an early end somewhere"""
    evs, pre, chunk, ctor = sched
    parts = [] if evs == "-" else evs.split(",")
    if not parts:
        parts = ["d%d" % rng.randrange(1, n + 2) for _ in range(rng.randrange(0, 3))]
    cut = rng.randrange(0, len(parts) + 1)
    parts = parts[:cut] + [rng.choice(["f%d" % rng.randrange(1, 9), "f7", "e"])]
    return ",".join(parts), pre, chunk, ctor


def gen_aiger(rng, parser):
    binary = parser == "aig"
    ty = rng.choice(list(docs.AIGER_TYPES))
    val = docs.gen_aig(rng, ty, small=rng.random() < 0.2)
    data, _ = docs.render_aig(val, binary)
    r = rng.random()
    if r < 0.35:
        pass
    elif r < 0.6:
        for _ in range(rng.choice([1, 1, 2, 3])):
            data = docs.mutate(rng, data)
    else:
        for _ in range(rng.choice([1, 1, 2])):
            data = aiger_corrupt(rng, data, ty, binary)
    if len(data) > 400:
        return None
    # 'w': whole-file API; 'x': whole-file API, then the value written back with the crate's writer (one draw, as before)
    fr = rng.random()
    flags = "w" if fr < 0.25 else ("x" if fr < 0.45 else "-")
    if flags == "-" and zlib.crc32(data) % 100 < 27:
        # 'kN' (about 15 % of the AIGER cases): streaming API with at most N entries taken per section, the section-switch
        # methods skip the rest (model: AigerStream.parse_aag_take / parse_aig_take); decided from the document, not by a
        # draw: the other cases of the stream stay what they were
        flags = "k%d" % (zlib.crc32(data) // 100 % 4)
    sched = docs.gen_schedule(rng, len(data))
    if rng.random() < 0.15:
        sched = faulty(rng, sched, len(data))
    return "pa " + docs.setup(parser, ty, flags, data, sched)


def gen(rng, n, tier, **kw):
    out = []
    for kind, strs in B2C.items():
        for t in strs:
            out.append("pa b2c %s %s" % (kind, docs.hexs(t.encode())))
    while len(out) < n:
        parser = rng.choice(["cnf", "cnf", "wcnf", "gcnf", "log", "aag", "aag", "aig", "aig", "btor2", "btor2", "btor2"])
        if parser in ("aag", "aig"):
            case = gen_aiger(rng, parser)
            if case is not None:
                out.append(case)
            continue
        if parser == "btor2":
            data = gen_btor2_doc(rng)
            if len(data) > 400:
                continue
            flags = "w" if rng.random() < 0.3 else "-"
            out.append("pa " + docs.setup("btor2", "-", flags, data, btor2_schedule(rng, len(data))))
            continue
        parser, ty, flags, data, _ = docs.gen_doc(rng, parser=parser)
        if len(data) > 400:
            continue
        if parser != "log" and zlib.crc32(data) % 5 == 0:
            # 'x': after a clean end, header and clauses written back with the crate's write_header / write_clause
            # (decided from the document, not by a draw: the other cases of the stream stay what they were)
            flags = "x" if flags == "-" else flags + "x"
        sched = docs.gen_schedule(rng, len(data))
        if rng.random() < 0.12:
            sched = faulty(rng, sched, len(data))
        out.append("pa " + docs.setup(parser, ty, flags, data, sched))
    return out


def category(case):
    t = case.split()
    return ("pa/" + t[1] + ("/w" if t[1] == "btor2" and "w" in t[3] else "")
            + ("/x" if t[1] in ("aag", "aig", "cnf", "wcnf", "gcnf") and "x" in t[3] else "")
            + ("/k" if t[1] in ("aag", "aig") and "k" in t[3] else ""))


def nontrivial(case):
    t = case.split()
    if t[1] == "b2c":
        return True
    return len(t[4]) >= 16
