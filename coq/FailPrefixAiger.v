(* FailPrefixAiger.v — C04, last sentence, for the two AIGER parsers. *)
From Flussab Require Import Base Reader ListN Writer Parsed Prog Text ProgProofs Consts Cnf CnfProofs Hoare CnfSafe.
From Flussab Require Import Varint Aiger AigerProofs AigerSafe FailPrefix FailPrefixCnf.
Local Open Scope N_scope.
#[export] Hint Resolve pq_lift : quietdb.

Lemma pq_add_lines n : pq (add_lines n). Proof. unfold add_lines. pqw. Qed.
#[export] Hint Resolve pq_add_lines : quietdb.

Section F.
Variable fuel : nat.

Lemma pq_fixed_not_eol pat : pq (fixed_not_eol pat). Proof. unfold fixed_not_eol, tok_ok, tok_ft. pqw. Qed.
Lemma pq_space : pq space. Proof. unfold space, tok_ok, tok_ft. pqw. Qed.
Lemma pq_anewline : pq anewline. Proof. unfold anewline, tok_ok, tok_ft. pqw. Qed.
Lemma pq_uint : pq (uint fuel). Proof. unfold uint. pqw. Qed.
Lemma pq_line_scan n : forall offset acc, pq (line_scan n offset acc).
Proof. induction n as [|n IH]; intros; cbn [line_scan]; pqw. Qed.
Lemma pq_read_all n : forall k acc, pq (read_all n k acc).
Proof. induction n as [|n IH]; intros; cbn [read_all]; pqw. Qed.
Hint Resolve pq_fixed_not_eol pq_space pq_anewline pq_uint pq_line_scan pq_read_all : quietdb.

Lemma plv_rbnd {A C} (m : PM (result A perr)) (f : A -> PM (result C perr)) d d0 :
  plv (QR d) d m -> (forall a, plv (QR d0) d (f a)) -> plv (QR d0) d (rbnd m f).
Proof.
  intros H1 H2. unfold rbnd. eapply plv_pbnd; [exact H1|]. intros d1 a HB. pw_hyp HB; [|pw].
  destruct a; [apply H2|pw].
Qed.

Lemma plv_fail_with {A} (err : PM perr) d d0 : plv (QR (A:=A) d0) d (fail_with err).
Proof. unfold fail_with. eapply plv_pbnd; [apply (plv_any d err)|]. intros d1 a HB. pw. Qed.
Hint Resolve plv_fail_with : plvdb.

Ltac pwb :=
  cbn [is_rerr is_tok_err not_tok_ok fst snd] in *; try contradiction;
  lazymatch goal with
  | |- plv _ _ (rbnd _ _) => eapply plv_rbnd; [solve [eauto with plvdb]|intros ?; pwb]
  | |- plv _ _ (pbnd _ _) =>
      eapply plv_pbnd;
      [solve [eauto with plvdb]
      |let d' := fresh "d" in let a := fresh "a" in let HB := fresh "HB" in
       intros d' a HB; pw_hyp HB; pwb]
  | |- plv _ _ (pret _) => apply plv_pret; pfin
  | |- plv _ _ (match ?x with _ => _ end) => destruct x; pwb
  | |- plv _ _ (if ?x then _ else _) => destruct x; pwb
  | |- plv _ _ (pcrash _) => intro; exact I
  | |- plv _ _ pnofuel => intro; exact I
  | |- _ => solve [eauto with plvdb]
  end.

Lemma plv_required_space d : plv (QR d) d required_space.
Proof. unfold required_space. pwb. Qed.
Lemma plv_required_newline d : plv (QR d) d required_newline.
Proof. unfold required_newline. pwb. Qed.
Lemma plv_required_newline_or_space d : plv (QR d) d required_newline_or_space.
Proof. unfold required_newline_or_space. pwb. Qed.
Hint Resolve plv_required_space plv_required_newline plv_required_newline_or_space : plvdb.

Lemma plv_header_field limit d : plv (QR d) d (header_field fuel limit).
Proof. unfold header_field. pwb. Qed.
Hint Resolve plv_header_field : plvdb.
Lemma plv_symbol_index limit d : plv (QR d) d (symbol_index fuel limit).
Proof. apply plv_header_field. Qed.
Lemma plv_lit limit asg d : plv (QR d) d (lit fuel limit asg).
Proof. unfold lit. pwb. Qed.
Hint Resolve plv_symbol_index plv_lit : plvdb.

Lemma plv_varint_scan n : forall byte_len acc d, plv (QR d) d (varint_scan n byte_len acc).
Proof. induction n as [|n IH]; intros; cbn [varint_scan]; pwb. Qed.
Hint Resolve plv_varint_scan : plvdb.
Lemma plv_binary_uint d : plv (QR d) d binary_uint.
Proof. unfold binary_uint. pwb. Qed.
Hint Resolve plv_binary_uint : plvdb.

Lemma plv_delta_code code d : plv (QR d) d (delta_code code).
Proof.
  unfold delta_code.
  eapply plv_pbnd; [solve [eauto with plvdb]|]. intros d1 u HB; pw_hyp HB.
  eapply plv_rbnd; [solve [eauto with plvdb]|]. intros [delta ends_line].
  destruct (code <? delta); [pwb|].
  eapply (plv_pbnd (QN d)); [destruct ends_line; solve [eauto with plvdb]|]. intros d1 u2 HB; pw_hyp HB. pwb.
Qed.
Hint Resolve plv_delta_code : plvdb.

Lemma plv_remaining_line_content d : plv (QR d) d (remaining_line_content fuel).
Proof.
  unfold remaining_line_content.
  eapply plv_pbnd; [solve [eauto with plvdb]|]. intros d1 [line offset] HB; pw_hyp HB. pwb.
Qed.
Hint Resolve plv_remaining_line_content : plvdb.

Lemma plv_bad_file_content content valid_up_to d : plv (QR d) d (bad_file_content content valid_up_to).
Proof. unfold bad_file_content. pwb. Qed.
Hint Resolve plv_bad_file_content : plvdb.

Lemma plv_remaining_file_content d : plv (QR d) d (remaining_file_content fuel).
Proof. unfold remaining_file_content. pwb. Qed.
Hint Resolve plv_remaining_file_content : plvdb.

Lemma plv_parse_aheader magic maxc d : plv (QR d) d (parse_aheader fuel magic maxc).
Proof. unfold parse_aheader. pwb. Qed.

Lemma plv_lit_line {St} maxc max_lit asg mk (st : St) d : plv (QR d) d (lit_line fuel maxc max_lit asg mk st).
Proof. unfold lit_line. pwb. Qed.
Lemma plv_justice_size total d : plv (QR d) d (justice_size fuel total).
Proof. unfold justice_size. pwb. Qed.
Lemma plv_latch_init max_lit sc d : plv (QR d) d (latch_init fuel max_lit sc).
Proof. unfold latch_init. pwb. Qed.
Hint Resolve plv_latch_init : plvdb.
Lemma plv_aag_latch maxc max_lit st d : plv (QR d) d (aag_latch fuel maxc max_lit st).
Proof. unfold aag_latch. pwb. Qed.
Lemma plv_aag_and maxc max_lit st d : plv (QR d) d (aag_and fuel maxc max_lit st).
Proof. unfold aag_and. pwb. Qed.
Lemma plv_aig_latch maxc max_lit code d : plv (QR d) d (aig_latch fuel maxc max_lit code).
Proof. unfold aig_latch, code_plus_2. pwb. Qed.
Lemma plv_aig_and maxc code d : plv (QR d) d (aig_and maxc code).
Proof. unfold aig_and, code_plus_2. pwb. Qed.

Lemma plv_sym_try count letter not_eol k d : plv (QT d) d (sym_try fuel count letter not_eol k).
Proof.
  unfold sym_try, tok_err, tok_ft. destruct (0 <? count); [|pwb].
  eapply (plv_pbnd (QN d)); [destruct not_eol; solve [eauto with plvdb]|]. intros d1 f HB; pw_hyp HB. pwb.
Qed.
Hint Resolve plv_sym_try : plvdb.

Lemma plv_or_parse_tok {A} (a b : tok A) d : plv (QT d) d a -> plv (QT d) d b -> plv (QT d) d (or_parse_tok a b).
Proof. intros Ha Hb. unfold or_parse_tok. pwb. Qed.

Lemma plv_symbol_target h d : plv (QT d) d (symbol_target fuel h).
Proof. unfold symbol_target. repeat (apply plv_or_parse_tok; [apply plv_sym_try|]). apply plv_sym_try. Qed.
Hint Resolve plv_symbol_target : plvdb.

Lemma plv_next_symbol h d : plv (QR d) d (next_symbol fuel h).
Proof. unfold next_symbol. pwb. Qed.

(* ---------- sections: the items before a failure are a prefix ---------- *)
Definition PS {St} (m : PM (list item * St * option perr)) : Prop :=
  forall lr v is1 st1 e1 lr1 v1, srun (m lr) v = ADone ((is1, st1, e1), lr1) v1 ->
    srun (m lr) (nofail v) = ADone ((is1, st1, e1), lr1) (nofail v1) \/
    (e1 <> None /\ forall is2 st2 e2 lr2 v2, srun (m lr) (nofail v) = ADone ((is2, st2, e2), lr2) v2 ->
                                             exists rest, is2 = is1 ++ rest).

Definition PP (m : PM (list item * final)) : Prop :=
  forall lr v is1 f1 lr1 v1, srun (m lr) v = ADone ((is1, f1), lr1) v1 ->
    srun (m lr) (nofail v) = ADone ((is1, f1), lr1) (nofail v1) \/
    ((exists e, f1 = FErr e) /\ forall is2 f2 lr2 v2, srun (m lr) (nofail v) = ADone ((is2, f2), lr2) v2 ->
                                                      exists rest, is2 = is1 ++ rest).

Lemma sloop_items {St} n : forall (it : St -> PM (result (item * St) perr)) lft st acc lr v is st' e lr' v',
  srun (sloop n it lft st acc lr) v = ADone ((is, st', e), lr') v' -> exists rest, is = rev acc ++ rest.
Proof.
  induction n as [|n IH]; intros it lft st acc lr v is st' e lr' v' H; cbn [sloop] in H;
    (destruct (lft =? 0); [unfold pret in H; cbn [srun] in H; inversion H; subst; exists []; symmetry; apply app_nil_r|]);
    [discriminate|].
  unfold pbnd in H. apply srun_bind_inv in H. destruct H as ([r lr1] & v1 & H1 & H2).
  destruct r as [[x st2]|err]; cbv beta iota in H2.
  - destruct (IH _ _ _ _ _ _ _ _ _ _ _ H2) as [rest E]. exists (x :: rest). rewrite E. cbn [rev]. rewrite <- app_assoc. reflexivity.
  - unfold pret in H2. cbn [srun] in H2. inversion H2; subst. exists []. symmetry. apply app_nil_r.
Qed.

Lemma sloop_PS {St} (it : St -> PM (result (item * St) perr)) :
  (forall st d, plv (QR d) d (it st)) -> forall n lft st acc, PS (sloop n it lft st acc).
Proof.
  intros Hit. induction n as [|n IH]; intros lft st acc lr v is1 st1 e1 lr1 v1 H; pose proof H as Hfull; cbn [sloop] in *;
    (destruct (lft =? 0) eqn:El; [left; unfold pret in *; cbn [srun] in *; inversion H; subst; reflexivity|]);
    [discriminate|].
  unfold pbnd in H. apply srun_bind_inv in H. destruct H as ([r lra] & va & Ha & Hb).
  destruct (lv_sound _ _ _ _ _ _ (Hit st false lr) Ha) as [E|E].
  - destruct r as [[x st2]|err]; cbv beta iota in Hb.
    + destruct (IH _ _ _ _ _ _ _ _ _ _ Hb) as [E2|[Hne Hpre]].
      * left. unfold pbnd. rewrite srun_bind_eq, E. exact E2.
      * right. split; [exact Hne|]. intros is2 st3 e2 lr2 v2 H2. unfold pbnd in H2. rewrite srun_bind_eq, E in H2.
        exact (Hpre _ _ _ _ _ H2).
    + left. unfold pbnd. rewrite srun_bind_eq, E. cbv beta iota. unfold pret in *. cbn [srun] in *. inversion Hb; subst. reflexivity.
  - cbn [fst] in E. destruct E as [E|E]; [discriminate|]. destruct r as [?|err]; [contradiction|].
    cbv beta iota in Hb. unfold pret in Hb. cbn [srun] in Hb. inversion Hb; subst.
    right. split; [discriminate|]. intros is2 st3 e2 lr2 v2 H2.
    assert (H3 : srun (sloop (S n) it lft st1 acc lr) (nofail v) = ADone ((is2, st3, e2), lr2) v2).
    { cbn [sloop]. rewrite El. exact H2. }
    exact (sloop_items _ _ _ _ _ _ _ _ _ _ _ _ H3).
Qed.

Lemma symbols_loop_items n : forall h acc lr v is st' e lr' v',
  srun (symbols_loop fuel n h acc lr) v = ADone ((is, st', e), lr') v' -> exists rest, is = rev acc ++ rest.
Proof.
  induction n as [|n IH]; intros h acc lr v is st' e lr' v' H; cbn [symbols_loop] in H; [discriminate|].
  unfold pbnd in H. apply srun_bind_inv in H. destruct H as ([r lr1] & v1 & H1 & H2).
  destruct r as [[x|]|err]; cbv beta iota in H2.
  - destruct (IH _ _ _ _ _ _ _ _ _ H2) as [rest E]. exists (x :: rest). rewrite E. cbn [rev]. rewrite <- app_assoc. reflexivity.
  - unfold pret in H2. cbn [srun] in H2. inversion H2; subst. exists []. symmetry. apply app_nil_r.
  - unfold pret in H2. cbn [srun] in H2. inversion H2; subst. exists []. symmetry. apply app_nil_r.
Qed.

Lemma symbols_loop_PS n : forall h acc, PS (symbols_loop fuel n h acc).
Proof.
  induction n as [|n IH]; intros h acc lr v is1 st1 e1 lr1 v1 H; pose proof H as Hfull; cbn [symbols_loop] in H; [discriminate|].
  unfold pbnd in H. apply srun_bind_inv in H. destruct H as ([r lra] & va & Ha & Hb).
  destruct (lv_sound _ _ _ _ _ _ (plv_next_symbol h false lr) Ha) as [E|E].
  - destruct r as [[x|]|err]; cbv beta iota in Hb.
    + destruct (IH _ _ _ _ _ _ _ _ _ Hb) as [E2|[Hne Hpre]].
      * left. cbn [symbols_loop]. unfold pbnd. rewrite srun_bind_eq, E. exact E2.
      * right. split; [exact Hne|]. intros is2 st3 e2 lr2 v2 H2. cbn [symbols_loop] in H2. unfold pbnd in H2.
        rewrite srun_bind_eq, E in H2. exact (Hpre _ _ _ _ _ H2).
    + left. cbn [symbols_loop]. unfold pbnd. rewrite srun_bind_eq, E. cbv beta iota. unfold pret in *. cbn [srun] in *. inversion Hb; subst. reflexivity.
    + left. cbn [symbols_loop]. unfold pbnd. rewrite srun_bind_eq, E. cbv beta iota. unfold pret in *. cbn [srun] in *. inversion Hb; subst. reflexivity.
  - cbn [fst] in E. destruct E as [E|E]; [discriminate|]. destruct r as [?|err]; [contradiction|].
    cbv beta iota in Hb. unfold pret in Hb. cbn [srun] in Hb. inversion Hb; subst.
    right. split; [discriminate|]. intros is2 st3 e2 lr2 v2 H2.
    exact (symbols_loop_items _ _ _ _ _ _ _ _ _ _ H2).
Qed.

Lemma PP_sect {St} (m : PM (list item * St * option perr)) (k : St -> PM (list item * final)) :
  PS m -> (forall st, PP (k st)) -> PP (sect m k).
Proof.
  intros Hm Hk lr v is1 f1 lr1 v1 H. unfold sect, pbnd in H.
  apply srun_bind_inv in H. destruct H as ([[[items st] e] lra] & va & Ha & Hb).
  destruct (Hm _ _ _ _ _ _ _ Ha) as [E|[Hne Hpre]].
  - destruct e as [err|]; cbv beta iota in Hb.
    + left. unfold sect, pbnd. rewrite srun_bind_eq, E. cbv beta iota. unfold pret in *. cbn [srun] in *. inversion Hb; subst. reflexivity.
    + apply srun_bind_inv in Hb. destruct Hb as ([[items2 fin] lrb] & vb & Hb1 & Hb2).
      unfold pret in Hb2. cbn [srun] in Hb2. inversion Hb2; subst.
      destruct (Hk st _ _ _ _ _ _ Hb1) as [E2|[Hf Hpre2]].
      * left. unfold sect, pbnd. rewrite srun_bind_eq, E. cbv beta iota. rewrite srun_bind_eq, E2. reflexivity.
      * right. split; [exact Hf|]. intros is2 f2 lr2 v2 H2. unfold sect, pbnd in H2. rewrite srun_bind_eq, E in H2.
        cbv beta iota in H2. apply srun_bind_inv in H2. destruct H2 as ([[i2 g2] lrc] & vc & Hc1 & Hc2).
        unfold pret in Hc2. cbn [srun] in Hc2. inversion Hc2; subst.
        destruct (Hpre2 _ _ _ _ Hc1) as [rest ->]. exists rest. rewrite app_assoc. reflexivity.
  - destruct e as [err|]; [|contradiction Hne; reflexivity]. cbv beta iota in Hb.
    unfold pret in Hb. cbn [srun] in Hb. inversion Hb; subst.
    right. split; [eauto|]. intros is2 f2 lr2 v2 H2. unfold sect, pbnd in H2.
    apply srun_bind_inv in H2. destruct H2 as ([[[i2 s2] e2] lrc] & vc & Hc1 & Hc2).
    destruct (Hpre _ _ _ _ _ Hc1) as [rest ->].
    destruct e2 as [err2|]; cbv beta iota in Hc2.
    + unfold pret in Hc2. cbn [srun] in Hc2. inversion Hc2; subst. exists rest. reflexivity.
    + apply srun_bind_inv in Hc2. destruct Hc2 as ([[i3 g3] lrd] & vd & Hd1 & Hd2).
      unfold pret in Hd2. cbn [srun] in Hd2. inversion Hd2; subst. exists (rest ++ i3). rewrite app_assoc. reflexivity.
Qed.

Definition QE (d : bool) : bool -> list item * final -> Prop :=
  fun d' x => d' = d \/ (fst x = [] /\ exists e, snd x = FErr e).

Lemma PP_of_plv (m : PM (list item * final)) : plv (QE false) false m -> PP m.
Proof.
  intros H lr v is1 f1 lr1 v1 Hs. destruct (lv_sound _ _ _ _ _ _ (H lr) Hs) as [E|E]; [left; exact E|].
  right. cbn [fst snd] in E. destruct E as [E|[E1 [e E2]]]; [discriminate|]. cbn [fst snd] in *. subst.
  split; [eauto|]. intros is2 f2 lr2 v2 _. exists is2. reflexivity.
Qed.

Definition QS {St} (d : bool) : bool -> list item * St * option perr -> Prop :=
  fun d' x => d' = d \/ snd x <> None.

Lemma plv_symbols_loop n : forall h acc d, plv (QS d) d (symbols_loop fuel n h acc).
Proof.
  induction n as [|n IH]; intros; cbn [symbols_loop]; [intro; exact I|].
  eapply plv_pbnd; [apply plv_next_symbol|]. intros d1 r HB. pw_hyp HB.
  - destruct r as [[s|]|e]; [apply IH|apply plv_pret; left; reflexivity..].
  - apply plv_pret. right. cbn [snd]. discriminate.
Qed.

Lemma plv_comment_section h : plv (QE false) false (comment_section fuel h).
Proof.
  unfold comment_section.
  eapply plv_pbnd; [apply plv_symbols_loop|]. intros d1 [[its u] e] HB. unfold QS in HB. cbn [snd] in HB.
  destruct HB as [->|HB].
  - destruct e as [err|]; [apply plv_pret; left; reflexivity|].
    eapply plv_pbnd; [solve [eauto with plvdb]|]. intros d1 c HB; pw_hyp HB.
    destruct c as [[u2|err]|]; [| apply plv_pret; left; reflexivity |].
    + eapply (plv_pbnd (QR false)); [pwb|]. intros d1 r2 HB; pw_hyp HB.
      * destruct r2; apply plv_pret; left; reflexivity.
      * apply plv_pret. right. cbn [fst snd]. split; [reflexivity|eauto].
    + eapply (plv_pbnd (QR false)); [pwb|]. intros d1 r2 HB; pw_hyp HB.
      * destruct r2; apply plv_pret; left; reflexivity.
      * apply plv_pret. right. cbn [fst snd]. split; [reflexivity|eauto].
  - destruct e as [err|]; [|contradiction HB; reflexivity].
    apply plv_pret. right. cbn [fst snd]. split; [reflexivity|eauto].
Qed.

Lemma PP_comment_section h : PP (comment_section fuel h).
Proof. apply PP_of_plv. apply plv_comment_section. Qed.

Lemma PP_middle_sections {St} maxc max_lit h (st : St) k :
  (forall st, PP (k st)) -> PP (middle_sections fuel maxc max_lit h st k).
Proof.
  intros Hk. unfold middle_sections.
  apply PP_sect; [apply sloop_PS; intros; apply plv_lit_line|]. intros st1.
  apply PP_sect; [apply sloop_PS; intros; apply plv_lit_line|]. intros st2.
  apply PP_sect; [apply sloop_PS; intros; apply plv_lit_line|]. intros st3.
  apply PP_sect; [apply sloop_PS; intros; apply plv_justice_size|]. intros total.
  apply PP_sect; [apply sloop_PS; intros; apply plv_lit_line|]. intros st4.
  apply PP_sect; [apply sloop_PS; intros; apply plv_lit_line|]. exact Hk.
Qed.

Lemma aiger_final (hdr : PM (result aheader perr)) (body : aheader -> PM (list item * final)) :
  plv (QR false) false hdr -> (forall hd, PP (body hd)) ->
  forall lr v h1 is1 f1 lr1 v1 h2 is2 f2 lr2 v2,
  srun (pbnd hdr (fun h => finish_parse h body) lr) v = ADone ((h1, is1, f1), lr1) v1 ->
  srun (pbnd hdr (fun h => finish_parse h body) lr) (nofail v) = ADone ((h2, is2, f2), lr2) v2 ->
  (exists rest, is2 = is1 ++ rest) /\ (forall h, h1 = Some h -> h2 = Some h).
Proof.
  intros Hh Hbody lr v h1 is1 f1 lr1 v1 h2 is2 f2 lr2 v2 H1 H2. unfold pbnd in H1, H2.
  apply srun_bind_inv in H1. destruct H1 as ([p lra] & va & Ha & Hb).
  apply srun_bind_inv in H2. destruct H2 as ([p2 lrb] & vb & Hc & Hd).
  destruct (lv_sound _ _ _ _ _ _ (Hh lr) Ha) as [E|E].
  - rewrite E in Hc. inversion Hc; subst. destruct p2 as [hd|e]; unfold finish_parse in Hb, Hd.
    + unfold pbnd in Hb, Hd.
      apply srun_bind_inv in Hb. destruct Hb as ([[i1 g1] lrc] & vc & Hb1 & Hb2).
      apply srun_bind_inv in Hd. destruct Hd as ([[i2 g2] lrd] & vd & Hd1 & Hd2).
      unfold pret in Hb2, Hd2. cbn [srun] in Hb2, Hd2. inversion Hb2; inversion Hd2; subst.
      split; [|intros h Hx; exact Hx].
      destruct (Hbody hd _ _ _ _ _ _ Hb1) as [E2|[_ Hpre]].
      * rewrite E2 in Hd1. inversion Hd1; subst. exists []. symmetry. apply app_nil_r.
      * exact (Hpre _ _ _ _ Hd1).
    + unfold pret in Hb, Hd. cbn [srun] in Hb, Hd. inversion Hb; inversion Hd; subst.
      split; [exists []; reflexivity|]. intros h Hx. discriminate.
  - cbn [fst] in E. destruct E as [E|E]; [discriminate|]. destruct p as [?|e]; [contradiction|].
    unfold finish_parse, pret in Hb. cbn [srun] in Hb. inversion Hb; subst.
    split; [exists is2; reflexivity|]. intros h Hx. discriminate.
Qed.

End F.

Lemma safe_pack {A} (p : prog (A * lrs)) v :
  (forall r, aruns p v r -> exists out lr' v', r = ADone (out, lr') v') ->
  forall r, aruns p v r -> exists a v', r = ADone a v'.
Proof. intros H r Hr. destruct (H r Hr) as (out & lr' & v' & E). exists (out, lr'), v'. exact E. Qed.

(* C04, last sentence, ascii AIGER *)
Theorem aag_items_before_failure fuel maxc S e h1 is1 fin1 lr1 v1 h2 is2 fin2 lr2 v2 :
  Forall (fun b => b < 256) S -> nlen S < 2 ^ 62 -> (length S < fuel)%nat ->
  aruns (parse_aag fuel maxc lrs_init) (view_init S (Some e)) (ADone (h1, is1, fin1, lr1) v1) ->
  aruns (parse_aag fuel maxc lrs_init) (view_init S None) (ADone (h2, is2, fin2, lr2) v2) ->
  (exists rest, is2 = is1 ++ rest) /\ (forall h, h1 = Some h -> h2 = Some h).
Proof.
  intros Hb Hl Hf R1 R2.
  destruct (srun_of_aruns _ fuel S (Some e) _ _ Hb Hf (PDet_parse_aag fuel maxc lrs_init)
              (safe_pack _ _ (fun r Hr => parse_aag_safe fuel maxc S (Some e) r Hb Hl Hf Hr)) R1) as [w1 S1].
  destruct (srun_of_aruns _ fuel S None _ _ Hb Hf (PDet_parse_aag fuel maxc lrs_init)
              (safe_pack _ _ (fun r Hr => parse_aag_safe fuel maxc S None r Hb Hl Hf Hr)) R2) as [w2 S2].
  rewrite <- (nofail_init S (Some e)) in S2. unfold parse_aag in S1, S2.
  refine (aiger_final _ _ (plv_parse_aheader fuel _ _ false) _ _ _ _ _ _ _ _ _ _ _ _ _ S1 S2).
  intros hd. cbv zeta.
  apply PP_sect; [apply sloop_PS; intros; apply plv_lit_line|]. intros st1.
  apply PP_sect; [apply sloop_PS; intros; apply plv_aag_latch|]. intros st2.
  apply PP_middle_sections. intros st3.
  apply PP_sect; [apply sloop_PS; intros; apply plv_aag_and|]. intros st4.
  apply PP_sect; [apply symbols_loop_PS|]. intros st5.
  apply PP_comment_section.
Qed.
Print Assumptions aag_items_before_failure.

(* C04, last sentence, binary AIGER *)
Theorem aig_items_before_failure fuel maxc S e h1 is1 fin1 lr1 v1 h2 is2 fin2 lr2 v2 :
  Forall (fun b => b < 256) S -> nlen S < 2 ^ 62 -> (length S < fuel)%nat ->
  aruns (parse_aig fuel maxc lrs_init) (view_init S (Some e)) (ADone (h1, is1, fin1, lr1) v1) ->
  aruns (parse_aig fuel maxc lrs_init) (view_init S None) (ADone (h2, is2, fin2, lr2) v2) ->
  (exists rest, is2 = is1 ++ rest) /\ (forall h, h1 = Some h -> h2 = Some h).
Proof.
  intros Hb Hl Hf R1 R2.
  destruct (srun_of_aruns _ fuel S (Some e) _ _ Hb Hf (PDet_parse_aig fuel maxc lrs_init)
              (safe_pack _ _ (fun r Hr => parse_aig_safe fuel maxc S (Some e) r Hb Hl Hf Hr)) R1) as [w1 S1].
  destruct (srun_of_aruns _ fuel S None _ _ Hb Hf (PDet_parse_aig fuel maxc lrs_init)
              (safe_pack _ _ (fun r Hr => parse_aig_safe fuel maxc S None r Hb Hl Hf Hr)) R2) as [w2 S2].
  rewrite <- (nofail_init S (Some e)) in S2. unfold parse_aig in S1, S2.
  refine (aiger_final _ _ (plv_parse_aheader fuel _ _ false) _ _ _ _ _ _ _ _ _ _ _ _ _ S1 S2).
  intros hd. cbv zeta.
  apply PP_sect; [apply sloop_PS; intros; apply plv_aig_latch|]. intros st1.
  apply PP_middle_sections. intros st3.
  apply PP_sect; [apply sloop_PS; intros; apply plv_aig_and|]. intros st4.
  apply PP_sect; [apply symbols_loop_PS|]. intros st5.
  apply PP_comment_section.
Qed.
Print Assumptions aig_items_before_failure.
