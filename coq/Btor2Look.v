(* Btor2Look.v — C09 for the BTOR2 parser: Parser::next_line hands out a line without having asked for a byte
   beyond the line break that completes it (every admissible run, from any state satisfying the invariant KB);
   whatever the outcome, what a call asked for lies in the line of its final cursor.  In particular the keyword
   scanner (ascii_lowercase_u64, fast path or cold path) asks for nothing beyond the byte that ends the keyword.
   The corollaries for the concrete reader: with a source that delivers its data line by line, when a line is handed
   out the reader holds at most the LF that ends it.
   LookW.v is the framework: the bound is proved over the finished runs (wrt), safety and the invariant are
   Btor2Safe.v. *)
From Flussab Require Import Base Reader ListN Writer Parsed Prog Text TextSpec ProgProofs ScanProofs DigitsProofs.
From Flussab Require Import SwarProofs ReaderProofs Simulation Consts Cnf CnfProofs ErrProofs Btor2 Btor2Proofs Btor2Rt.
From Flussab Require Import Hoare CnfSafe Look LookProofs LookW Btor2Safe.
Ltac Zify.zify_post_hook ::= Z.to_euclidean_division_equations.
Local Open Scope N_scope.

(* ================================================================== *)
(* 1. the keyword scanner: how far it asks, every admissible run        *)

(* one 8-byte step: the fast path asks for nothing, the cold path for the lowercase letters and the byte that
   ends them -- at most 8 positions, and none behind the first byte that is not a lowercase letter *)
Theorem lc_u64_req off v w n v' :
  aruns (ascii_lowercase_u64 off) v (ADone (w, n) v') ->
  vreq v' <= N.max (vreq v) (vcur v + off + lc_look (rest_at v off)).
Proof.
  intros Hr. unfold ascii_lowercase_u64 in Hr. apply aruns_tryload_inv in Hr. destruct Hr as (ow & _ & Hr).
  destruct ow as [word|].
  - apply aruns_ret_inv in Hr. inversion Hr; subst. cbn [v_loaded vreq]. lia.
  - pose proof (det_aruns _ _ _ Hr (det_lc_cold _ _ _ _)) as E.
    destruct (lc_cold_spec 8 off 0 0 (v_loaded v off None)) as (v1 & H1 & H2). rewrite H1 in E. inversion E; subst.
    rewrite (peeked_req _ _ _ H2). replace (off + 0) with off by lia.
    change (rest_at (v_loaded v off None) off) with (rest_at v off). change (vcur (v_loaded v off None)) with (vcur v).
    change (vreq (v_loaded v off None)) with (vreq v). change (N.of_nat 8) with 8. unfold lc_look. lia.
Qed.
Print Assumptions lc_u64_req.

Section BLook.
Variable fuel : nat.

Local Notation Wv := (Wv fuel).
Local Notation wrt := (wrt fuel).
Local Notation wt := (wt fuel).
Local Notation LkP := (LkP fuel).

(* the whole scan: the lowercase letters from the offset on and the byte behind them, nothing else *)
Lemma ascii_lowercase_req n : forall off acc v res v',
  Wv v -> (length (rest_at v off) < n)%nat -> aruns (ascii_lowercase n off acc) v (ADone res v') ->
  vS v' = vS v /\ vcur v' = vcur v /\ nlen res = nlen acc + nlen (lower_prefix (rest_at v off)) /\
  vreq v' <= N.max (vreq v) (vcur v + off + nlen (lower_prefix (rest_at v off)) + 1).
Proof.
  induction n as [|n IH]; intros off acc v res v' HW Hf Hr; [lia|]. cbn [ascii_lowercase] in Hr.
  destruct (aruns_bind_inv _ _ _ _ Hr) as [([w adv] & v1 & H1 & H2)|(r0 & _ & Hab)]; [|destruct r0; cbn in Hab; contradiction].
  pose proof HW as (Hw & Hb & Hfu & Hc). cbv beta iota in H2.
  pose proof (lc_u64_req _ _ _ _ _ H1) as Hq1.
  destruct (lc_u64_spec off v _ Hw Hb H1) as (v1' & E & Hcore).
  assert (Ew : (w, adv) = lc_spec (rest_at v off) /\ v1' = v1) by (inversion E; split; reflexivity).
  destruct Ew as [Ew ->]. clear E. unfold lc_spec in Ew.
  pose proof (f_equal snd Ew) as Eadv. cbn [snd] in Eadv. clear Ew.
  unfold core, core_after in Hcore. injection Hcore as e1 e2 e3 e4 e5 e6.
  pose proof (aruns_Wv fuel _ _ _ H1 HW _ _ eq_refl) as HW1.
  unfold lc_look in Hq1.
  pose proof (lower_prefix_chunk 8 (rest_at v off)) as Hch.
  set (lp8 := lower_prefix (firstn 8 (rest_at v off))) in *. rewrite Eadv in H2. clear Eadv.
  destruct Hch as [[G1 G2]|(G1 & G2 & G3)].
  - assert ((nlen lp8 <? 8) = true) as Elt by (apply N.ltb_lt; unfold nlen; lia). rewrite Elt in H2.
    apply aruns_ret_inv in H2. inversion H2; subst res v'.
    split; [exact e1|]. split; [exact e3|]. split; [rewrite nlen_app, nlen_le_bytes, G2; reflexivity|].
    rewrite G2. lia.
  - assert ((nlen lp8 <? 8) = false) as Elt by (apply N.ltb_ge; unfold nlen; lia). rewrite Elt in H2.
    assert (E8 : nlen lp8 = 8) by (unfold nlen; lia).
    assert (Hrest : rest_at v1 (off + nlen lp8) = skipn 8 (rest_at v off)).
    { rewrite E8. unfold rest_at. rewrite e1, e3.
      change (skipn 8 (nskipn (vcur v + off) (vS v))) with (nskipn 8 (nskipn (vcur v + off) (vS v))).
      rewrite nskipn_nskipn. f_equal. lia. }
    destruct (IH (off + nlen lp8) (acc ++ le_bytes (N.to_nat (nlen lp8)) w) v1 res v' HW1) as (k1 & k2 & k3 & k4);
      [rewrite Hrest, skipn_length; lia|exact H2|].
    rewrite Hrest in k3, k4. rewrite e3 in k4.
    split; [congruence|]. split; [congruence|]. split; [rewrite k3, nlen_app, nlen_le_bytes, G3, nlen_app; lia|].
    rewrite G3, nlen_app. lia.
Qed.

Theorem ascii_lowercase_lookahead off acc v res v' :
  Wv v -> aruns (ascii_lowercase fuel off acc) v (ADone res v') ->
  vreq v' <= N.max (vreq v) (vcur v + off + nlen (lower_prefix (rest_at v off)) + 1).
Proof.
  intros HW Hr. pose proof HW as (_ & _ & Hf & _).
  destruct (ascii_lowercase_req fuel off acc v res v' HW) as (_ & _ & _ & H); [pose proof (rest_at_len v off); lia|exact Hr|exact H].
Qed.

Lemma wrt_lowercase lr v (Q : bytes -> lrs -> view -> Prop) :
  (forall matched v1, Pk v v1 (nlen matched) -> Q matched lr v1) -> wrt (lift (ascii_lowercase fuel 0 [])) lr v Q.
Proof.
  intros H. apply wrt_lift. intros HW res v1 Hr. pose proof HW as (_ & _ & Hf & _).
  destruct (ascii_lowercase_req fuel 0 [] v res v1 HW) as (k1 & k2 & k3 & k4); [pose proof (rest_at_len v 0); lia|exact Hr|].
  change (nlen (@nil byte)) with 0 in k3. apply H.
  pose proof (span_lower v 0) as Hsp. rewrite N.add_0_r in Hsp.
  unfold Pk. rewrite k3. split; [exact k1|]. split; [exact k2|]. split; [lia|]. split.
  - eapply span_nolf. eapply span_eq; [exact Hsp|reflexivity|lia].
  - pose proof (span_le _ _ _ Hsp (Wv_cur_le fuel v HW)). lia.
Qed.

(* ================================================================== *)
(* 2. the tokens                                                        *)

Lemma LkP_rbnd {A B} (m : PM (result A perr)) (f : A -> PM (result B perr)) :
  LkP m -> (forall a, LkP (f a)) -> LkP (rbnd m f).
Proof. intros Hm Hf. unfold rbnd. apply LkP_pbnd; [exact Hm|]. intros [a|e]; [apply Hf|apply LkP_pret]. Qed.

Lemma LkP_one_byte c : LkP (one_byte c).
Proof.
  unfold one_byte, tok_ok, tok_ft. apply LkP_pbnd; [apply LkP_ppeek0|]. intros o.
  destruct (match o with Some b => b =? c | None => false end); [|apply LkP_pret].
  apply LkP_pbnd; [apply LkP_padvance|]. intros _. apply LkP_pret.
Qed.

Lemma LkP_required_space : LkP required_space.
Proof. unfold required_space, space_tok. apply LkP_or_unexpected, LkP_one_byte. Qed.

Lemma LkP_newline_tok : LkP newline_tok.
Proof.
  unfold newline_tok, tok_ok, tok_ft. apply LkP_pbnd; [apply LkP_ppeek0|]. intros o.
  destruct (match o with Some b => b =? 10 | None => false end); [|apply LkP_pret].
  apply LkP_pbnd; [apply LkP_padvance|]. intros _. apply LkP_pbnd; [apply LkP_line_at_offset|]. intros _. apply LkP_pret.
Qed.

(* the newline that ends a node line: consumed, nothing behind it asked for *)
Lemma newline_tok_item lr v : wrt newline_tok lr v (fun a _ v' => forall u, a = Res (Ok u) -> ItemLk v v').
Proof.
  apply wrt_W. intros HW. unfold newline_tok, tok_ok, tok_ft. apply wrt_pbnd, wrt_ppeek.
  pose proof (Pk_peek _ _ _ 0 (Pk_W fuel v HW) (N.le_refl 0)) as HP.
  destruct (vpeek v 0) as [b|] eqn:Ep; [destruct (b =? 10) eqn:Eb|]; [|apply wrt_pret; intros u E; discriminate..].
  apply N.eqb_eq in Eb. subst b.
  apply wrt_pbnd, wrt_padvance. apply wrt_pbnd, wrt_line_at_offset. intros lr1. apply wrt_pret. intros u _.
  eapply (Pk_ItemLk v (after_peek v 0) 0); [exact HP|exact Ep|reflexivity|cbn [v_advance after_peek vcur]; lia].
Qed.

(* token::skip_whitespace: everything it looks at but the last byte is consumed *)
Lemma skip_ws_loop_w n : forall off lr vi v,
  vcur vi = vcur v -> vreq vi <= N.max (vreq v) (vcur v + off) ->
  wrt (skip_ws_loop n off) lr vi (fun off' _ v' => vcur v' = vcur v /\ vreq v' <= N.max (vreq v) (vcur v + off' + 1)).
Proof.
  induction n as [|n IH]; intros off lr vi v Hc Hr; cbn [skip_ws_loop]; [apply wrt_pnofuel|].
  apply wrt_pbnd, wrt_ppeek.
  assert (Hn : vreq (after_peek vi off) <= N.max (vreq v) (vcur v + (off + 1))) by (cbn [after_peek vreq]; lia).
  assert (Hd : vcur (after_peek vi off) = vcur v /\ vreq (after_peek vi off) <= N.max (vreq v) (vcur v + off + 1))
    by (split; [exact Hc|lia]).
  destruct (vpeek vi off) as [b|]; [|apply wrt_pret; exact Hd].
  destruct (b =? 32); [apply IH; [exact Hc|exact Hn]|].
  destruct (b =? 10); [|apply wrt_pret; exact Hd].
  apply wrt_pbnd, wrt_line_at_offset. intros lr1. apply IH; [exact Hc|exact Hn].
Qed.

Lemma LkP_skip_ws : LkP (skip_ws fuel).
Proof.
  apply LkP_upto. intros lr v. unfold skip_ws. apply wrt_pbnd.
  eapply wrt_conseq; [apply (skip_ws_loop_w fuel 0 lr v v); [reflexivity|lia]|].
  intros off' lr1 v1 [Hc Hr]. apply wrt_padvance. cbn [v_advance vreq vcur]. lia.
Qed.

(* token::uint *)
Lemma LkP_uint : LkP (uint fuel).
Proof.
  intros lr v. unfold uint. apply wrt_pbnd, wrt_pset_mark. apply wrt_pbnd, wrt_digits. intros val v1 HP1. cbv beta iota.
  change (rest_at (v_setmark v) 0) with (rest_at v 0) in *.
  assert (HP : Pk v v1 (nlen (digit_prefix (rest_at v 0)))) by exact HP1. clear HP1.
  set (d := nlen (digit_prefix (rest_at v 0))) in *.
  destruct (0 + d =? 0); [apply wrt_pret; eapply Pk_Lk; [exact HP|reflexivity|lia]|].
  apply wrt_pbnd, wrt_ppeek. pose proof (Pk_peek _ _ _ 0 HP (N.le_0_l _)) as HP2.
  destruct (negb (match vpeek v1 0 with Some b => b =? 48 | None => false end) || (0 + d =? 1));
    [|apply wrt_pret; eapply Pk_Lk; [exact HP2|reflexivity|lia]].
  destruct val as [z|]; [|apply wrt_pret; eapply Pk_Lk; [exact HP2|reflexivity|lia]].
  apply wrt_pbnd, wrt_padvance, wrt_pret. eapply Pk_Lk; [exact HP2|reflexivity|cbn [v_advance vcur]; lia].
Qed.

Lemma LkP_nonnegative_int : LkP (nonnegative_int fuel).
Proof. unfold nonnegative_int. apply LkP_located; [apply LkP_uint|apply LkP_give_up_at_mark]. Qed.

Lemma LkP_positive_int : LkP (positive_int fuel).
Proof.
  unfold positive_int, tok_ok, tok_ft. apply LkP_pbnd; [apply LkP_ppeek0|]. intros o.
  destruct (match o with Some b => b =? 48 | None => false end); [apply LkP_pret|].
  apply LkP_pbnd; [apply LkP_located; [apply LkP_uint|apply LkP_give_up_at_mark]|].
  intros [[x|e]|]; [|apply LkP_pret..]. destruct (x =? 0); [apply LkP_pcrash|apply LkP_pret].
Qed.

Lemma LkP_required_id : LkP (or_unexpected (positive_int fuel)).
Proof. apply LkP_or_unexpected, LkP_positive_int. Qed.

Lemma LkP_required_nonnegative_int : LkP (required_nonnegative_int fuel).
Proof. unfold required_nonnegative_int. apply LkP_or_unexpected, LkP_nonnegative_int. Qed.

(* node_token / sort_token: the keyword and the byte that ends it *)
Lemma LkP_keyword {A} (tbl : list (bytes * A)) : LkP (keyword fuel tbl).
Proof.
  intros lr v. unfold keyword, tok_ok, tok_ft. apply wrt_pbnd, wrt_lowercase. intros matched v1 HP.
  destruct (lookup matched tbl) as [t|]; [|apply wrt_pret; eapply Pk_Lk; [exact HP|reflexivity|lia]].
  apply wrt_pbnd, wrt_padvance, wrt_pret. eapply Pk_Lk; [exact HP|reflexivity|cbn [v_advance vcur]; lia].
Qed.

Lemma LkP_required_keyword {A} (tbl : list (bytes * A)) : LkP (or_unexpected (keyword fuel tbl)).
Proof. apply LkP_or_unexpected, LkP_keyword. Qed.

(* scans that collect what they walk over *)
Lemma take_while_pk p off acc v0 v :
  (forall b, p b = true -> b <> 10) -> Pk v0 v off ->
  wt (take_while fuel p off acc) v (fun r v1 =>
    Pk v0 v1 (fst r) /\ fst r = off + nlen (takep p (rest_at v off)) /\ snd r = rev acc ++ takep p (rest_at v off)).
Proof.
  intros Hp HP. apply wt_W. intros HW. pose proof HW as (_ & _ & Hf & _).
  destruct (take_while_peeked fuel p off acc v) as (v1 & Hrun & Hpk).
  { pose proof (takep_le p (rest_at v off)). pose proof (rest_at_len v off). lia. }
  eapply wt_det; [apply det_take_while|exact Hrun|]. cbn [fst snd].
  split; [|split; reflexivity].
  pose proof (span_takep p v off Hp) as Hsp. set (tp := takep p (rest_at v off)) in *.
  destruct HP as (a1 & a2 & a3 & a4 & a5). pose proof Hpk as (b1 & _ & b3 & _ & _ & b6 & _).
  rewrite a1, a2 in Hsp. unfold Pk. split; [congruence|]. split; [congruence|]. split; [rewrite b6, a2; lia|]. split.
  - replace (vcur v0 + (off + nlen tp)) with (vcur v0 + off + nlen tp) by lia.
    eapply nolf_trans; [exact a4|apply span_nolf; exact Hsp].
  - pose proof (span_le _ _ _ Hsp a5). lia.
Qed.

Lemma wrt_take_while p acc lr v (Q : N * bytes -> lrs -> view -> Prop) :
  (forall b, p b = true -> b <> 10) ->
  (forall v1, Pk v v1 (nlen (takep p (rest_at v 0))) ->
              Q (0 + nlen (takep p (rest_at v 0)), rev acc ++ takep p (rest_at v 0)) lr v1) ->
  wrt (lift (take_while fuel p 0 acc)) lr v Q.
Proof.
  intros Hp H. apply wrt_lift. apply wt_W. intros HW.
  eapply wt_conseq; [apply (take_while_pk p 0 acc v v Hp (Pk_W fuel v HW))|].
  intros [o s] v1 (HP & E1 & E2). cbn [fst snd] in *. subst o s. apply H. exact HP.
Qed.

Definition ScanLk (scan : prog (N * bytes)) : Prop := forall v, wt scan v (fun r v1 => Pk v v1 (fst r)).

Lemma ScanLk_take_while p : (forall b, p b = true -> b <> 10) -> ScanLk (take_while fuel p 0 []).
Proof.
  intros Hp v. apply wt_W. intros HW. eapply wt_conseq; [apply (take_while_pk p 0 [] v v Hp (Pk_W fuel v HW))|].
  intros r v1 (HP & _). exact HP.
Qed.

Lemma ScanLk_decimal : ScanLk (decimal_string fuel).
Proof.
  intros v. apply wt_W. intros HW. unfold decimal_string. apply wt_peek.
  pose proof (Pk_peek _ _ _ 0 (Pk_W fuel v HW) (N.le_refl 0)) as HP.
  destruct (vpeek v 0) as [b|] eqn:Ep; [destruct (b =? 45) eqn:Eb|].
  - apply N.eqb_eq in Eb. subst b.
    assert (HP1 : Pk v (after_peek v 0) (0 + 1)) by (apply (Pk_ext _ _ _ 45); [exact HP|exact Ep|lia]).
    eapply wt_conseq; [apply (take_while_pk is_dig 1 [45] v _ is_dig_nolf HP1)|]. intros r v1 (H & _). exact H.
  - eapply wt_conseq; [apply (take_while_pk is_dig 0 [] v _ is_dig_nolf HP)|]. intros r v1 (H & _). exact H.
  - eapply wt_conseq; [apply (take_while_pk is_dig 0 [] v _ is_dig_nolf HP)|]. intros r v1 (H & _). exact H.
Qed.

Lemma LkP_required_constant scan : ScanLk scan -> LkP (required_constant scan).
Proof.
  intros Hs lr v. unfold required_constant. apply wrt_pbnd, wrt_lift.
  eapply wt_conseq; [apply Hs|]. intros [matched s] v1 HP. cbn [fst] in HP.
  destruct (matched =? 0).
  - apply wrt_pbnd. eapply wrt_conseq; [apply (wrt_tail fuel unexpected lr v v1); [|apply LkP_unexpected]|].
    + eapply Pk_Fl; [exact HP|reflexivity|reflexivity|lia].
    + intros e lr2 v2 Hl. apply wrt_pret. exact Hl.
  - apply wrt_pbnd, wrt_padvance, wrt_pret. eapply Pk_Lk; [exact HP|reflexivity|cbn [v_advance vcur]; lia].
Qed.

Lemma LkP_required_binary_constant : LkP (required_binary_constant fuel).
Proof. apply LkP_required_constant, ScanLk_take_while. exact is_bin_nolf. Qed.
Lemma LkP_required_hex_constant : LkP (required_hex_constant fuel).
Proof. apply LkP_required_constant, ScanLk_take_while. exact is_hex_nolf. Qed.
Lemma LkP_required_decimal_constant : LkP (required_decimal_constant fuel).
Proof. apply LkP_required_constant, ScanLk_decimal. Qed.

Lemma LkP_symbol_name : LkP (symbol_name fuel).
Proof.
  intros lr v. unfold symbol_name, tok_ok, tok_ft. apply wrt_pbnd, wrt_take_while.
  { intros b Hb E. subst b. discriminate Hb. }
  intros v1 HP. cbv beta iota.
  destruct (_ =? 0); [apply wrt_pret; eapply Pk_Lk; [exact HP|reflexivity|lia]|].
  apply wrt_pbnd, wrt_padvance, wrt_pret. eapply Pk_Lk; [exact HP|reflexivity|cbn [v_advance vcur]; lia].
Qed.

(* where a comment line has been handed out: the cursor is at the LF that ends it and nothing behind that LF has
   been asked for -- or the input ended *)
Definition AtLF (v v' : view) : Prop :=
  vcur v <= vcur v' /\ nnth (vS v) (vcur v') = Some 10 /\ vreq v' <= N.max (vreq v) (vcur v' + 1).

Definition ItemLkB (v v' : view) : Prop := ItemLk v v' \/ AtLF v v'.

Lemma Fl_ItemLkB v0 v v' : Fl v0 v -> ItemLkB v v' -> ItemLkB v0 v'.
Proof.
  intros Hf [Hi|(b1 & b2 & b3)]; [left; eapply Fl_ItemLk; eassumption|]. right.
  destruct Hf as (a1 & a2 & (e & c1 & c2 & c3)). rewrite a1 in *. split; [lia|]. split; [exact b2|].
  destruct (N.lt_ge_cases (vcur v') e) as [Hlt|Hge]; [|lia].
  exfalso. apply (c2 (vcur v')); [lia|exact Hlt|exact b2].
Qed.

(* token::comment_body: the rest of the line, the LF that ends it looked at but not consumed *)
Lemma comment_body_w lr v :
  wrt (comment_body fuel) lr v (fun a _ v' => Lk v v' /\ forall body, a = Ok body -> ItemLkB v v').
Proof.
  unfold comment_body. apply wrt_pbnd, wrt_take_while.
  { intros b Hb E. subst b. discriminate Hb. }
  intros v1 HP. cbv beta iota.
  pose proof (takep_stop_peek (fun b : byte => negb (b =? 10)) v 0) as Hstop.
  set (tp := takep (fun b : byte => negb (b =? 10)) (rest_at v 0)) in *.
  apply wrt_pbnd, wrt_ppeek.
  assert (Hle : 0 + nlen tp <= nlen tp) by lia.
  pose proof (Pk_peek _ _ _ _ HP Hle) as HP2.
  assert (Epk : vpeek v1 (0 + nlen tp) = vpeek v (0 + nlen tp)) by (rewrite (Pk_vpeek _ _ _ _ HP); reflexivity).
  rewrite Epk. destruct (vpeek v (0 + nlen tp)) as [x|] eqn:Ep.
  - assert (x = 10) by (apply negb_false_iff, N.eqb_eq in Hstop; exact Hstop). subst x.
    apply wrt_pbnd, wrt_pret. apply wrt_pbnd, wrt_padvance, wrt_pret.
    split; [eapply Pk_Lk; [exact HP2|reflexivity|cbn [v_advance vcur]; lia]|]. intros body _. right.
    destruct HP2 as (a1 & a2 & a3 & a4 & a5). unfold AtLF. cbn [v_advance vcur vreq]. rewrite a2.
    split; [lia|]. split; [|lia]. exact Ep.
  - apply wrt_pbnd. apply wrt_pbnd, wrt_takeerr. apply wrt_pret.
    destruct (s_take (after_peek v1 (0 + nlen tp))) as [io|].
    + apply wrt_pret. split; [eapply Pk_Lk; [exact HP2|reflexivity|cbn [v_take vcur]; lia]|]. intros body E. discriminate.
    + apply wrt_pbnd, wrt_padvance, wrt_pret.
      split; [eapply Pk_Lk; [exact HP2|reflexivity|cbn [v_advance v_take vcur]; lia]|]. intros body _. left.
      eapply (Pk_ItemLk_end v _ (nlen tp)); [exact HP2| |reflexivity|cbn [v_advance v_take after_peek vcur]; lia].
      replace (nlen tp) with (0 + nlen tp) by lia. rewrite <- Epk. reflexivity.
Qed.

Lemma LkP_comment_body : LkP (comment_body fuel).
Proof. intros lr v. eapply wrt_conseq; [apply comment_body_w|]. intros a lr' v' [H _]. exact H. Qed.

(* ================================================================== *)
(* 3. parser.rs: whatever the outcome, a call stays in the line of its cursor *)

Ltac lkp_tok :=
  first [ apply LkP_required_space | apply LkP_required_id | apply LkP_required_nonnegative_int
        | apply LkP_required_binary_constant | apply LkP_required_hex_constant | apply LkP_required_decimal_constant
        | apply LkP_required_keyword ].
Ltac lkp_steps := repeat (apply LkP_rbnd; [lkp_tok|intros ?]); try apply LkP_pret.

Lemma LkP_value_body vt : LkP (value_body fuel vt).
Proof.
  destruct vt; cbn [value_body]; unfold required_node_id, required_sort_id, required_positive_int; lkp_steps.
Qed.

Lemma LkP_justice_loop n : forall count acc, LkP (justice_loop fuel n count acc).
Proof.
  induction n as [|n IH]; intros count acc; cbn [justice_loop]; (destruct (count =? 0); [apply LkP_pret|]).
  - apply LkP_pnofuel.
  - apply LkP_rbnd; [apply LkP_required_space|]. intros _. unfold required_node_id.
    apply LkP_rbnd; [apply LkP_required_id|]. intros c. apply IH.
Qed.

Lemma LkP_node_body t : LkP (node_body fuel t).
Proof.
  destruct t as [|k|k| |vt]; cbn [node_body]; unfold required_node_id, required_sort_id, required_positive_int, sort_token.
  - apply LkP_rbnd; [lkp_tok|]. intros _. apply LkP_rbnd; [lkp_tok|]. intros st. destruct st; lkp_steps.
  - lkp_steps.
  - lkp_steps.
  - apply LkP_rbnd; [lkp_tok|]. intros _. apply LkP_rbnd; [lkp_tok|]. intros count.
    apply LkP_rbnd; [apply LkP_justice_loop|]. intros nodes. apply LkP_pret.
  - apply LkP_rbnd; [lkp_tok|]. intros _. apply LkP_rbnd; [lkp_tok|]. intros vsort.
    apply LkP_rbnd; [apply LkP_value_body|]. intros vv. apply LkP_pret.
Qed.

Lemma LkP_err_tail {A} (m : PM perr) : LkP m -> LkP (let* e := m in pret (@Err A perr e)).
Proof. intros H. apply LkP_pbnd; [exact H|]. intros e. apply LkP_pret. Qed.

Lemma LkP_newline_tail (symbol : option bytes) :
  LkP (let* nl := newline_tok in
       match nl with
       | Res (Ok _) => pret (Ok (symbol, false))
       | Res (Err e) => pret (Err e)
       | Fallthrough => let* e := unexpected in pret (Err e)
       end).
Proof.
  apply LkP_pbnd; [apply LkP_newline_tok|]. intros [[u|e]|]; [apply LkP_pret..|]. apply LkP_err_tail, LkP_unexpected.
Qed.

Lemma LkP_node_trailer : LkP (node_trailer fuel).
Proof.
  unfold node_trailer, space_tok, comment_start. apply LkP_pbnd; [apply LkP_one_byte|].
  intros [[u|e]|]; [|apply LkP_pret|apply LkP_newline_tail].
  apply LkP_pbnd; [apply LkP_one_byte|]. intros [[u2|e]|]; [apply LkP_pret..|].
  apply LkP_pbnd; [apply LkP_symbol_name|]. intros [[symbol|e]|]; [|apply LkP_pret|apply LkP_err_tail, LkP_unexpected].
  apply LkP_pbnd; [apply LkP_one_byte|]. intros [[u3|e]|]; [|apply LkP_pret|apply LkP_newline_tail].
  apply LkP_rbnd; [apply LkP_or_unexpected, LkP_one_byte|]. intros _. apply LkP_pret.
Qed.

Lemma LkP_try_node : LkP (try_node fuel).
Proof.
  unfold try_node, tok_err, tok_ft. apply LkP_pbnd; [apply LkP_positive_int|]. intros [[node_id|e]|]; [|apply LkP_pret..].
  apply LkP_pbnd; [|intros r; apply LkP_pret].
  apply LkP_rbnd; [apply LkP_required_space|]. intros _. unfold node_token.
  apply LkP_rbnd; [apply LkP_required_keyword|]. intros nt.
  apply LkP_rbnd; [apply LkP_node_body|]. intros variant.
  apply LkP_rbnd; [apply LkP_node_trailer|]. intros [symbol cmt]. apply LkP_pret.
Qed.

Lemma LkP_next_line : LkP (next_line fuel).
Proof.
  unfold next_line, comment_start. apply LkP_pbnd; [apply LkP_skip_ws|]. intros _.
  apply LkP_pbnd; [apply LkP_try_node|]. intros tn. apply LkP_pbnd.
  - destruct tn as [[nd|e]|]; [apply LkP_pret..|].
    apply LkP_pbnd; [apply LkP_one_byte|]. intros [[u|e]|]; [apply LkP_pret..|].
    apply LkP_pbnd; [apply LkP_teof|]. intros [[u|e]|]; [apply LkP_pret..|]. apply LkP_err_tail, LkP_unexpected.
  - intros [[l|]|e]; [| |apply LkP_pret].
    + destruct (has_comment l); [|apply LkP_pret]. apply LkP_rbnd; [apply LkP_comment_body|]. intros body. apply LkP_pret.
    + apply LkP_pbnd; [apply LkP_takeerr|]. intros io. apply LkP_pret.
Qed.

(* ================================================================== *)
(* 4. a line that is handed out                                         *)

Lemma wrt_rstep {A B} (m : PM (result A perr)) (f : A -> PM (result B perr)) lr v0 v
      (Q : result B perr -> lrs -> view -> Prop) :
  Fl v0 v -> LkP m -> (forall e lr1 v1, Q (Err e) lr1 v1) ->
  (forall a lr1 v1, Fl v0 v1 -> wrt (f a) lr1 v1 Q) -> wrt (rbnd m f) lr v Q.
Proof.
  intros Hf Hm He Hk. unfold rbnd. apply (wrt_step fuel m _ lr v0 v); [exact Hf|exact Hm|].
  intros [a|e] lr1 v1 Hf1; [apply Hk; exact Hf1|apply wrt_pret; apply He].
Qed.

Lemma wrt_err_tail {A} (m : PM perr) lr v (Q : result A perr -> lrs -> view -> Prop) :
  (forall e lr' v', Q (Err e) lr' v') -> wrt (let* e := m in pret (@Err A perr e)) lr v Q.
Proof.
  intros H. apply wrt_pbnd. eapply wrt_conseq; [apply wrt_true|]. intros e lr1 v1 _. apply wrt_pret. apply H.
Qed.

(* newline, or else an error: the tail of node_trailer *)
Lemma newline_tail_item (symbol : option bytes) lr v0 v : Fl v0 v ->
  wrt (let* nl := newline_tok in
       match nl with
       | Res (Ok _) => pret (Ok (symbol, false))
       | Res (Err e) => pret (Err e)
       | Fallthrough => let* e := unexpected in pret (Err e)
       end) lr v (fun a _ v' => forall x, a = Ok x -> ItemLk v0 v').
Proof.
  intros Hf. apply wrt_pbnd. eapply wrt_conseq; [apply newline_tok_item|]. intros nl lr1 v1 Hi.
  destruct nl as [[u|e]|].
  - apply wrt_pret. intros x _. eapply Fl_ItemLk; [exact Hf|apply (Hi u); reflexivity].
  - apply wrt_pret. intros x E. discriminate.
  - apply wrt_err_tail. intros e lr' v' x E. discriminate.
Qed.

(* node_trailer: without a comment the node line ends with its newline *)
Lemma node_trailer_item lr v0 v : Fl v0 v ->
  wrt (node_trailer fuel) lr v (fun a _ v' => forall sy, a = Ok (sy, false) -> ItemLk v0 v').
Proof.
  intros Hf. unfold node_trailer, space_tok, comment_start.
  apply (wrt_step fuel _ _ lr v0 v); [exact Hf|apply LkP_one_byte|]. intros sp lr1 v1 Hf1. destruct sp as [[u|e]|].
  - apply (wrt_step fuel _ _ lr1 v0 v1); [exact Hf1|apply LkP_one_byte|]. intros cs lr2 v2 Hf2. destruct cs as [[u2|e]|].
    + apply wrt_pret. intros sy E. inversion E.
    + apply wrt_pret. intros sy E. discriminate.
    + apply (wrt_step fuel _ _ lr2 v0 v2); [exact Hf2|apply LkP_symbol_name|]. intros sy lr3 v3 Hf3. destruct sy as [[symbol|e]|].
      * apply (wrt_step fuel _ _ lr3 v0 v3); [exact Hf3|apply LkP_one_byte|]. intros sp2 lr4 v4 Hf4. destruct sp2 as [[u4|e]|].
        -- unfold rbnd. apply wrt_pbnd. eapply wrt_conseq; [apply wrt_true|]. intros r lr5 v5 _.
           destruct r as [u5|e]; apply wrt_pret; intros sy E; inversion E.
        -- apply wrt_pret. intros sy E. discriminate.
        -- eapply wrt_conseq; [apply (newline_tail_item (Some symbol) lr4 v0 v4 Hf4)|]. intros a lr5 v5 H sy E. apply (H _ E).
      * apply wrt_pret. intros sy E. discriminate.
      * apply wrt_err_tail. intros e lr' v' sy E. discriminate.
  - apply wrt_pret. intros sy E. discriminate.
  - eapply wrt_conseq; [apply (newline_tail_item None lr1 v0 v1 Hf1)|]. intros a lr5 v5 H sy E. apply (H _ E).
Qed.

(* Parser::try_node: a node without a comment has been read up to and including its newline *)
Lemma try_node_item lr v0 v : Fl v0 v ->
  wrt (try_node fuel) lr v (fun a _ v' => forall nd, a = Res (Ok nd) -> n_comment nd = None -> ItemLk v0 v').
Proof.
  intros Hf. unfold try_node, tok_err, tok_ft.
  apply (wrt_step fuel _ _ lr v0 v); [exact Hf|apply LkP_positive_int|]. intros id lr1 v1 Hf1.
  destruct id as [[node_id|e]|]; [|apply wrt_pret; intros nd E; discriminate..].
  apply wrt_pbnd.
  set (Q := fun (r : result node perr) (lr2 : lrs) (v2 : view) =>
              wrt (pret (Res r)) lr2 v2 (fun a _ v' => forall nd, a = Res (Ok nd) -> n_comment nd = None -> ItemLk v0 v')).
  assert (HE : forall e lr2 v2, Q (Err e) lr2 v2) by (intros e lr2 v2; unfold Q; apply wrt_pret; intros nd E; discriminate).
  change (wrt (required_space ?;;
               let? nt := or_unexpected (node_token fuel) in
               let? variant := node_body fuel nt in
               let? tr := node_trailer fuel in
               let '(symbol, cmt) := tr in
               pret (Ok {| n_id := node_id; n_variant := variant; n_symbol := symbol;
                           n_comment := if cmt then Some [] else None |})) lr1 v1 Q).
  apply (wrt_rstep _ _ lr1 v0 v1 Q Hf1 LkP_required_space HE). intros _ lr2 v2 Hf2.
  apply (wrt_rstep _ _ lr2 v0 v2 Q Hf2 (LkP_required_keyword _) HE). intros nt lr3 v3 Hf3.
  apply (wrt_rstep _ _ lr3 v0 v3 Q Hf3 (LkP_node_body nt) HE). intros variant lr4 v4 Hf4.
  unfold rbnd. apply wrt_pbnd. eapply wrt_conseq; [apply (node_trailer_item lr4 v0 v4 Hf4)|].
  intros [[symbol cmt]|e] lr5 v5 Hi; [|apply wrt_pret; apply HE].
  apply wrt_pret. unfold Q. apply wrt_pret. intros nd E Hc. inversion E; subst nd. cbn [n_comment] in Hc.
  destruct cmt; [discriminate|]. apply (Hi symbol). reflexivity.
Qed.

(* Parser::next_line: a line has been handed out *)
Lemma has_comment_update l body : has_comment (update_comment l body) = true.
Proof. destruct l; reflexivity. Qed.

Lemma next_line_item lr v :
  wrt (next_line fuel) lr v (fun r _ v' => forall l, r = Ok (Some l) -> if has_comment l then ItemLkB v v' else ItemLk v v').
Proof.
  unfold next_line, comment_start.
  apply (wrt_step fuel _ _ lr v v); [apply Fl_refl|apply LkP_skip_ws|]. intros _ lr1 v1 Hf1.
  apply wrt_pbnd. eapply wrt_conseq; [apply wrt_and; [apply (wrt_tail_Fl fuel _ lr1 v v1 Hf1 LkP_try_node)|apply (try_node_item lr1 v v1 Hf1)]|].
  intros tn lr2 v2 [Hf2 Hi2]. apply wrt_pbnd.
  apply (wrt_conseq fuel _ _ _ (fun (first : result (option line) perr) (lr3 : lrs) (v3 : view) =>
           Fl v v3 /\ forall nd, first = Ok (Some (LNode nd)) -> n_comment nd = None -> ItemLk v v3)).
  { destruct tn as [[nd|e]|].
    - apply wrt_pret. split; [exact Hf2|]. intros nd' E Hc. inversion E; subst nd'. apply (Hi2 nd); [reflexivity|exact Hc].
    - apply wrt_pret. split; [exact Hf2|]. intros nd' E. discriminate.
    - apply (wrt_step fuel _ _ lr2 v v2); [exact Hf2|apply LkP_one_byte|]. intros c lr3 v3 Hf3. destruct c as [[u|e]|].
      + apply wrt_pret. split; [exact Hf3|]. intros nd' E. inversion E.
      + apply wrt_pret. split; [exact Hf3|]. intros nd' E. discriminate.
      + apply (wrt_step fuel _ _ lr3 v v3); [exact Hf3|apply LkP_teof|]. intros ef lr4 v4 Hf4. destruct ef as [[u|e]|].
        * apply wrt_pret. split; [exact Hf4|]. intros nd' E. discriminate.
        * apply wrt_pret. split; [exact Hf4|]. intros nd' E. discriminate.
        * apply (wrt_step fuel _ _ lr4 v v4); [exact Hf4|apply LkP_unexpected|]. intros e lr5 v5 Hf5.
          apply wrt_pret. split; [exact Hf5|]. intros nd' E. discriminate. }
  intros first lr3 v3 [Hf3 Hi3]. destruct first as [[l|]|e].
  - destruct (has_comment l) eqn:Hc.
    + unfold rbnd. apply wrt_pbnd. eapply wrt_conseq; [apply comment_body_w|]. intros [body|e] lr4 v4 [_ Hi4].
      * apply wrt_pret. intros l' E. inversion E; subst l'. rewrite has_comment_update.
        eapply Fl_ItemLkB; [exact Hf3|apply (Hi4 body); reflexivity].
      * apply wrt_pret. intros l' E. discriminate.
    + apply wrt_pret. intros l' E. inversion E; subst l'. rewrite Hc. destruct l as [c|nd]; [cbn [has_comment] in Hc; discriminate|].
      apply (Hi3 nd); [reflexivity|]. cbn [has_comment] in Hc. destruct (n_comment nd); [discriminate|reflexivity].
  - apply wrt_pbnd, wrt_takeerr. apply wrt_pret. intros l E. destruct (s_take v3); discriminate.
  - apply wrt_pret. intros l E. discriminate.
Qed.

End BLook.
Print Assumptions ascii_lowercase_lookahead.

(* ================================================================== *)
(* L1: Parser::next_line, one call, every admissible run from any state satisfying KB *)

(* Whatever the outcome, what the call asked for lies in the line of the new cursor (Lk).  When a line is handed out:
   a node line without a comment ends with its required newline, which is consumed and behind which nothing has been
   asked for (ItemLk, first case); a comment (a comment line, or the comment behind a node) extends to the LF that ends
   the line, which has been looked at but not consumed, and nothing behind it has been asked for (AtLF) -- or to the end
   of the input, where the one request beyond the end is the one that discovered it (ItemLk, second case).
   The blank lines, spaces and line breaks before the line are passed by skip_whitespace at the start of the call. *)
Theorem btor2_next_line_lookahead fuel lr v r :
  KB fuel lr v -> aruns (next_line fuel lr) v r ->
  exists res lr' v', r = ADone (res, lr') v' /\ vS v' = vS v /\ vcur v <= vcur v' /\ Lk v v' /\
    match res with
    | Ok (Some l) => KB fuel lr' v' /\ vcur v < vcur v' /\ (if has_comment l then ItemLkB v v' else ItemLk v v')
    | _ => True
    end.
Proof.
  intros HK Hr. pose proof (VOK_Wv fuel v (KB_VOK fuel _ _ HK)) as HW.
  destruct (prt_elim _ _ _ _ _ (next_line_B fuel lr v HK) Hr) as (res & lr' & v' & -> & Hres).
  exists res, lr', v'. split; [reflexivity|].
  pose proof (aruns_frame fuel _ _ _ _ Hr HW) as (a1 & _ & a3).
  split; [exact a1|]. split; [exact a3|]. split; [exact (LkP_next_line fuel lr v HW res lr' v' Hr)|].
  destruct res as [[l|]|e]; [|exact I..]. cbn [NextPostB] in Hres. destruct Hres as ([HK' _] & Hlt & _).
  split; [exact HK'|]. split; [exact Hlt|]. exact (next_line_item fuel lr v HW _ lr' v' Hr l eq_refl).
Qed.
Print Assumptions btor2_next_line_lookahead.

Lemma ItemLk_ItemLkB_if (b : bool) v v' : (if b then ItemLkB v v' else ItemLk v v') -> ItemLkB v v'.
Proof. destruct b; [auto|intros H; left; exact H]. Qed.

(* the same, spelled out *)
Corollary btor2_next_line_lookahead_explicit fuel lr v l lr' v' :
  KB fuel lr v -> aruns (next_line fuel lr) v (ADone (Ok (Some l), lr') v') ->
  (nnth (vS v') (vcur v' - 1) = Some 10 /\ vcur v < vcur v' /\ vreq v' <= N.max (vreq v) (vcur v')) \/
  (vcur v' = nlen (vS v') /\ vreq v' <= N.max (vreq v) (nlen (vS v') + 1)) \/
  (has_comment l = true /\ nnth (vS v') (vcur v') = Some 10 /\ vreq v' <= N.max (vreq v) (vcur v' + 1)).
Proof.
  intros HK Hr. destruct (btor2_next_line_lookahead fuel lr v _ HK Hr) as (res & lr2 & v2 & E & HS & _ & _ & Hres).
  inversion E; subst. destruct Hres as (_ & Hlt & Hi). rewrite HS.
  destruct (has_comment l).
  - destruct Hi as [[(b1 & b2 & b3)|(b1 & b2)]|(b1 & b2 & b3)].
    + left. split; [exact b2|]. split; [exact b1|exact b3].
    + right. left. split; assumption.
    + right. right. split; [reflexivity|]. split; assumption.
  - destruct Hi as [(b1 & b2 & b3)|(b1 & b2)].
    + left. split; [exact b2|]. split; [exact b1|exact b3].
    + right. left. split; assumption.
Qed.
Print Assumptions btor2_next_line_lookahead_explicit.

(* from the start of the input *)
Corollary btor2_next_line_lookahead_init fuel S fail l lr' v' :
  Forall (fun b => b < 256) S -> nlen S < 2 ^ 62 -> (length S < fuel)%nat ->
  aruns (next_line fuel lrs_init) (view_init S fail) (ADone (Ok (Some l), lr') v') ->
  (nnth S (vcur v' - 1) = Some 10 /\ 0 < vcur v' /\ vreq v' <= vcur v') \/
  (vcur v' = nlen S /\ vreq v' <= nlen S + 1) \/
  (has_comment l = true /\ nnth S (vcur v') = Some 10 /\ vreq v' <= vcur v' + 1).
Proof.
  intros Hb Hl Hf Hr. pose proof (KB_init fuel S fail Hb Hl Hf) as HK.
  destruct (btor2_next_line_lookahead fuel _ _ _ HK Hr) as (res & lr2 & v2 & E & HS & _ & _ & _).
  inversion E; subst. cbn [view_init vS] in HS.
  destruct (btor2_next_line_lookahead_explicit fuel _ _ _ _ _ HK Hr) as [(b1 & b2 & b3)|[(b1 & b2)|(b0 & b1 & b2)]];
    rewrite HS in *; cbn [view_init vcur vreq] in *.
  - left. split; [exact b1|]. split; [exact b2|unfold bytes, byte in *; lia].
  - right. left. split; [exact b1|unfold bytes, byte in *; lia].
  - right. right. split; [exact b0|]. split; [exact b1|unfold bytes, byte in *; lia].
Qed.
Print Assumptions btor2_next_line_lookahead_init.

(* ================================================================== *)
(* L2: the concrete reader *)

(* after a line: nothing beyond its LF has been asked for at all *)
Lemma Near_ItemLkB v v' : Near v -> ItemLkB v v' ->
  (vreq v' <= vcur v' /\ nnth (vS v) (vcur v' - 1) = Some 10 /\ 0 < vcur v') \/ vcur v' = nlen (vS v) \/
  (vreq v' <= vcur v' + 1 /\ nnth (vS v) (vcur v') = Some 10).
Proof.
  intros HN [Hi|(b1 & b2 & b3)].
  - destruct (Near_ItemLk v v' HN Hi) as [H|H]; [left; exact H|right; left; exact H].
  - right. right. split; [|exact b2]. destruct HN as (e & a1 & a2 & a3).
    destruct (N.lt_ge_cases (vcur v') e) as [Hlt|Hge]; [|lia].
    exfalso. apply (a2 (vcur v')); [lia|exact Hlt|exact b2].
Qed.

(* ... hence, over a line source, the reader holds at most the LF that ends the line *)
Lemma item_buffer_B s' v v' :
  Rel s' v' -> LineJ s' v' -> vS v' = vS v -> Near v -> ItemLkB v v' ->
  valid_len s' <= 1 /\ (valid_len s' = 1 -> nnth (vS v) (vcur v') = Some 10).
Proof.
  intros HR0 HJ0 HS HN HI. pose proof HR0 as [HR _]. pose proof HJ0 as [_ HJ].
  pose proof (inv_count s' (r_inv _ _ HR)) as Hcnt. pose proof (r_cur _ _ HR) as Hcur. pose proof (r_S _ _ HR) as HSd.
  destruct HI as [Hi|(b1 & b2 & b3)].
  - rewrite (item_buffer_empty s' v v' HR0 HJ0 HS HN Hi). split; [lia|]. intros E. discriminate E.
  - split; [|intros _; exact b2].
    destruct (Near_ItemLkB v v' HN (or_intror (conj b1 (conj b2 b3)))) as [(c1 & _)|[c1|(c1 & _)]].
    + destruct (N.le_gt_cases (valid_len s') 1) as [Hle|Hgt]; [exact Hle|]. exfalso.
      apply (HJ (vcur v')); [lia|lia|]. rewrite <- b2, <- HS, HSd. symmetry. apply nnth_app_l. lia.
    + apply nnth_some_lt in b2. lia.
    + destruct (N.le_gt_cases (valid_len s') 1) as [Hle|Hgt]; [exact Hle|]. exfalso.
      apply (HJ (vcur v')); [lia|lia|]. rewrite <- b2, <- HS, HSd. symmetry. apply nnth_app_l. lia.
Qed.

(* the state between two calls of the parser *)
Definition SessionB (fuel : nat) (lr : lrs) (s : rstate) (v : view) : Prop :=
  Rel s v /\ KB fuel lr v /\ LineJ s v /\ Near v.

Lemma SessionB_init fuel (sr : source) (c : N) :
  NoLie (events sr) -> LineSrc sr -> 1 <= c ->
  Forall (fun b => b < 256) (fst (stream_of sr)) -> nlen (fst (stream_of sr)) < 2 ^ 62 -> (length (fst (stream_of sr)) < fuel)%nat ->
  SessionB fuel lrs_init (set_chunk (reader_init sr) c) (view_init (fst (stream_of sr)) (snd (stream_of sr))).
Proof.
  intros HN HL Hc Hb Hl Hf. destruct (Session_init fuel sr c HN HL Hc Hb Hl Hf) as (h1 & _ & h3 & h4).
  split; [exact h1|]. split; [apply KB_init; assumption|]. split; assumption.
Qed.

(* L2 for Parser::next_line: every concrete run over a line source that hands out a line is an admissible abstract run
   with the bounds of L1; the session invariant holds again; and the reader holds no byte beyond the line: nothing at
   all after a node line without a comment (everything delivered has been consumed), at most the LF that ends it after
   a comment -- no read was issued after the read that delivered the end of the line *)
Theorem btor2_next_line_line_by_line fuel lr s v l lr' s' :
  SessionB fuel lr s v -> crun (next_line fuel lr) s = CDone (Ok (Some l), lr') s' ->
  exists v', aruns (next_line fuel lr) v (ADone (Ok (Some l), lr') v') /\
             SessionB fuel lr' s' v' /\ Lk v v' /\ ItemLkB v v' /\
             nlen (g_delivered s') = vcur v' + valid_len s' /\ valid_len s' <= 1 /\
             (valid_len s' = 1 -> nnth (vS v') (vcur v') = Some 10) /\
             (has_comment l = false -> valid_len s' = 0).
Proof.
  intros (HR & HK & HJ & HN) Hc.
  destruct (simulation_inv LineJ LineJ_peek LineJ_same (next_line fuel lr) s v HR HJ) as (r & Hr & Href).
  destruct (btor2_next_line_lookahead fuel lr v r HK Hr) as (res & lr2 & v' & -> & a1 & a3 & a4 & Hres).
  destruct Href as (s2 & Hc2 & HR' & HJ'). rewrite Hc in Hc2. inversion Hc2; subst res lr2 s2.
  exists v'. split; [exact Hr|]. destruct Hres as (HK' & _ & Hi).
  pose proof (ItemLk_ItemLkB_if _ _ _ Hi) as HiB.
  split; [split; [exact HR'|split; [exact HK'|split; [exact HJ'|eapply Near_Lk; eassumption]]]|]. split; [exact a4|].
  split; [exact HiB|].
  destruct (item_buffer_B s' v v' HR' HJ' a1 HN HiB) as [Hv1 Hv2].
  pose proof HR' as [HR0 _]. pose proof (inv_count s' (r_inv _ _ HR0)) as Hcnt. pose proof (r_cur _ _ HR0) as Hcur.
  split; [lia|]. split; [exact Hv1|]. split; [rewrite a1; exact Hv2|].
  intros Hnc. rewrite Hnc in Hi. exact (item_buffer_empty s' v v' HR' HJ' a1 HN Hi).
Qed.
Print Assumptions btor2_next_line_line_by_line.

(* any honest source, any chunk size: if everything the call asks for (by L1 at most the old vreq or the position
   behind the LF that ends the line) had already been delivered when the call began, the call does not touch the source *)
Theorem btor2_next_line_no_read_when_delivered fuel lr s v l lr' s' :
  Rel s v -> KB fuel lr v -> crun (next_line fuel lr) s = CDone (Ok (Some l), lr') s' ->
  exists v', aruns (next_line fuel lr) v (ADone (Ok (Some l), lr') v') /\ Rel s' v' /\ KB fuel lr' v' /\
             ItemLkB v v' /\
             (vreq v' <= nlen (g_delivered s) -> g_delivered s' = g_delivered s /\ src s' = src s).
Proof.
  intros HR HK Hc.
  destruct (simulation_inv (PQ (g_delivered s) (src s)) (PQ_peek _ _) (PQ_same _ _) (next_line fuel lr) s v HR) as (r & Hr & Href);
    [intros _; split; reflexivity|].
  destruct (btor2_next_line_lookahead fuel lr v r HK Hr) as (res & lr2 & v' & -> & a1 & a3 & a4 & Hres).
  destruct Href as (s2 & Hc2 & HR' & HP'). rewrite Hc in Hc2. inversion Hc2; subst res lr2 s2.
  exists v'. split; [exact Hr|]. destruct Hres as (HK' & _ & Hi).
  split; [exact HR'|]. split; [exact HK'|]. split; [exact (ItemLk_ItemLkB_if _ _ _ Hi)|exact HP'].
Qed.
Print Assumptions btor2_next_line_no_read_when_delivered.

(* L2 from the start of the input: a line source, any chunk size *)
Corollary btor2_first_line_line_by_line fuel (sr : source) (c : N) l lr' s' :
  NoLie (events sr) -> LineSrc sr -> 1 <= c ->
  Forall (fun b => b < 256) (fst (stream_of sr)) -> nlen (fst (stream_of sr)) < 2 ^ 62 -> (length (fst (stream_of sr)) < fuel)%nat ->
  crun (next_line fuel lrs_init) (set_chunk (reader_init sr) c) = CDone (Ok (Some l), lr') s' ->
  exists v', SessionB fuel lr' s' v' /\ vS v' = fst (stream_of sr) /\
    nlen (g_delivered s') = vcur v' + valid_len s' /\ valid_len s' <= 1 /\
    (valid_len s' = 1 -> nnth (fst (stream_of sr)) (vcur v') = Some 10) /\ (has_comment l = false -> valid_len s' = 0).
Proof.
  intros HN HL Hc Hb Hl Hf Hrun.
  pose proof (SessionB_init fuel sr c HN HL Hc Hb Hl Hf) as HS.
  destruct (btor2_next_line_line_by_line fuel _ _ _ _ _ _ HS Hrun) as (v' & Hr & HS' & _ & _ & h1 & h2 & h3 & h4).
  exists v'. split; [exact HS'|].
  assert (E : vS v' = fst (stream_of sr)).
  { destruct HS as (_ & HK & _). pose proof (VOK_Wv fuel _ (KB_VOK fuel _ _ HK)) as HW.
    pose proof (aruns_frame fuel _ _ _ _ Hr HW) as (a1 & _). exact a1. }
  split; [exact E|]. split; [exact h1|]. split; [exact h2|]. split; [rewrite <- E; exact h3|exact h4].
Qed.
Print Assumptions btor2_first_line_line_by_line.

(* ================================================================== *)
(* examples: the bounds are attained, the hypotheses are satisfiable *)

(* "1 sort bitvec 1\n2 input 1 x ; c\n": after the first call the cursor stands behind the LF and nothing more has been
   asked for; after the second (a node with a comment) the cursor stands at the LF, which is the last byte asked for *)
Definition exb_data : bytes :=
  [49; 32; 115; 111; 114; 116; 32; 98; 105; 116; 118; 101; 99; 32; 49; 10;
   50; 32; 105; 110; 112; 117; 116; 32; 49; 32; 120; 32; 59; 32; 99; 10].

Example look_btor2_lines :
  match srun (next_line 100 lrs_init) (view_init exb_data None) with
  | ADone (Ok (Some _), lr) v1 =>
      (vcur v1, vreq v1) = (16, 16) /\
      match srun (next_line 100 lr) v1 with
      | ADone (Ok (Some _), _) v2 => (vcur v2, vreq v2) = (31, 32)
      | _ => False
      end
  | _ => False
  end.
Proof. vm_compute. split; reflexivity. Qed.

(* the keyword scanner's cold path: "2 one 1\n3 ..." -- the keyword "one" is followed by a space; with fewer than 8 bytes
   buffered behind the keyword's start the scanner asks for 'o' 'n' 'e' ' ' and nothing behind the space *)
Example look_keyword_cold :
  let v := view_init [111; 110; 101; 32; 49; 10; 51; 32; 122; 101; 114; 111; 32; 49; 10] None in
  match srun (ascii_lowercase_u64 0) v with
  | ADone (w, n) v1 => (n, vreq v1) = (3, 4)
  | _ => False
  end.
Proof. vm_compute. reflexivity. Qed.

(* one line per read: after each call exactly the lines up to the one handed out have been read; after the node line
   the buffer is empty, after the line with a comment it holds the LF *)
Definition exb_lines : source := {| prebuf := []; data := exb_data; events := [Deliver 16; Deliver 16] |}.

Example exb_lines_LineSrc : LineSrc exb_lines.
Proof.
  split; [reflexivity|]. cbn [exb_lines events data line_sched].
  split; [apply lf_lastb_ok; vm_compute; reflexivity|].
  split; [apply lf_lastb_ok; vm_compute; reflexivity|].
  apply lf_lastb_ok. vm_compute. reflexivity.
Qed.

Example exb_line_by_line :
  match crun (next_line 100 lrs_init) (set_chunk (reader_init exb_lines) 16384) with
  | CDone (Ok (Some _), lr) s1 =>
      (nlen (g_delivered s1), g_calls s1, valid_len s1) = (16, 1, 0) /\
      match crun (next_line 100 lr) s1 with
      | CDone (Ok (Some _), _) s2 => (nlen (g_delivered s2), g_calls s2, valid_len s2) = (32, 2, 1)
      | _ => False
      end
  | _ => False
  end.
Proof. vm_compute. split; reflexivity. Qed.
