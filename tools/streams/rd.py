"""stream rd: random sources x random operation histories on the DeferredReader.
Histories are biased so that realignment (pos_in_buf > 2*chunk), buffer shrink,
short reads, Interrupted, EOF/error at any offset, pre-buffered BufReader data
and (with panics=True) caught panics all occur."""
import random

def hexs(b):
    return b.hex() if b else "-"

def gen_events(rng, n, allow_lie):
    evs = []
    k = rng.choice([0, 0, 1, 2, 4, 8, 16])
    for _ in range(k):
        x = rng.random()
        if x < 0.55:
            evs.append("d%d" % rng.choice([1, 1, 2, 3, 5, 8, 13, 100]))
        elif x < 0.8:
            evs.append("i")
        elif x < 0.87:
            evs.append("f%d" % rng.randrange(1, 9)); break
        elif x < 0.93:
            evs.append("e"); break
        elif allow_lie and x < 0.97:
            evs.append("l%d" % rng.choice([0, 1, 7]))
        else:
            evs.append("d0"); break
    return ",".join(evs) if evs else "-"

def gen_case(rng, panics, maxlen=60):
    n = rng.choice([0, 1, 2, 5, 9, 17, 33, maxlen, rng.randrange(0, maxlen + 1)])
    data = bytes(rng.randrange(1, 256) for _ in range(n))   # non-zero: stale/zero-fill bytes are visible as 00
    evs = gen_events(rng, n, panics)
    pre = rng.choice([0, 0, 0, 1, 3, n // 2, n]) if n else 0
    ops = []
    chunk = rng.choice([1, 1, 2, 3, 4, 7, 8])
    ops.append("c%d" % chunk)
    nops = rng.choice([3, 8, 20, 40])
    avail = 0  # rough estimate of the window, to keep advances mostly legal
    for _ in range(nops):
        x = rng.random()
        if x < 0.22:
            k = rng.choice([0, 1, 2, 3, chunk, 2 * chunk + 1, 9])
            ops.append("r%d" % k); avail = max(avail, k)
        elif x < 0.40:
            k = rng.choice([0, 0, 1, 2, 5, chunk, 3 * chunk])
            ops.append("p%d" % k); avail = max(avail, k + 1)
        elif x < 0.48:
            ops.append("m"); avail += chunk
        elif x < 0.70:
            if panics and rng.random() < 0.15:
                k = avail + rng.choice([1, 2, 50])
            else:
                k = rng.randrange(0, avail + 1) if avail else 0
                if rng.random() < 0.5:
                    k = min(k, rng.choice([0, 1, 2, 3]))
            ops.append(("a%d" if rng.random() < 0.6 else "w%d") % k)
            avail = max(0, avail - k)
        elif x < 0.75:
            ops.append("k")
        elif x < 0.78:
            ops.append("t%d" % rng.choice([0, 3, 1000, 2 ** 64 - 1]))
        elif x < 0.81:
            chunk = rng.choice([1, 2, 3, 5, 8]); ops.append("c%d" % chunk)
        else:
            ops.append(rng.choice(["b", "l", "P", "M", "C", "E", "I", "X", "M", "P", "b"]))
    ops += ["b", "l", "P", "M", "C", "E", "I"]
    return "rd %s %s %d %s" % (hexs(data), evs, pre, ",".join(ops))

def gen(rng, n, tier, panics=False, prefix="rd", **kw):
    return [prefix + gen_case(rng, panics)[2:] for _ in range(n)]

def category(case):
    t = case.split()
    ops = t[4].split(",")
    tags = []
    if t[3] != "0": tags.append("prebuffered")
    if "i" in t[2].split(","): tags.append("interrupt")
    if any(e.startswith("f") for e in t[2].split(",")): tags.append("fail")
    if any(e.startswith("l") for e in t[2].split(",")): tags.append("lie")
    if any(o.startswith("t") for o in ops): tags.append("markto")
    return "+".join(tags) or "plain"

def nontrivial(case):
    t = case.split()
    return len(t[1]) > 8 and len(t[4].split(",")) > 10

def judge(case, impl, model):
    return None
