(* Converse.v — C03, second sentence ("for every text a parser accepts, writing the parsed value and parsing that
   output again yields the same value"), all formats, every admissible run and every concrete run.  The proofs are in
   ConverseBtor2.v, ConverseCnf.v, ConverseAiger.v (ConversePc.v: the partial-correctness logic they share). *)
From Flussab Require ConverseBtor2 ConverseCnf ConverseAiger.

Definition converse_btor2 := ConverseBtor2.btor2_converse_all_runs.
Definition converse_btor2_concrete := ConverseBtor2.btor2_converse_concrete.
Definition converse_dimacs := ConverseCnf.dimacs_converse_all_runs.
Definition converse_dimacs_concrete := ConverseCnf.dimacs_converse_concrete.
Definition converse_aag := ConverseAiger.aag_converse_all_runs.
Definition converse_aag_concrete := ConverseAiger.aag_converse_concrete.
Definition converse_aig := ConverseAiger.aig_converse_all_runs.
Definition converse_aig_concrete := ConverseAiger.aig_converse_concrete.

Print Assumptions converse_btor2.
Print Assumptions converse_btor2_concrete.
Print Assumptions converse_dimacs.
Print Assumptions converse_dimacs_concrete.
Print Assumptions converse_aag.
Print Assumptions converse_aag_concrete.
Print Assumptions converse_aig.
Print Assumptions converse_aig_concrete.
