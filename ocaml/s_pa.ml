(* s_pa.ml — stream "pa": a whole parse on the DeferredReader model (DIMACS family, solver log, AIGER).
   case:  pa <parser> <ty> <flags> <datahex> <events> <pre> <chunk> <ctor>
   trace: <items ';'-separated> => <final> | calls=<n>                                            *)
open Model
open Util

let max_dimacs (ty : string) : z =
  match ty with
  | "i8" -> max_dimacs_i8 | "i16" -> max_dimacs_i16 | "i32" -> max_dimacs_i32
  | "i64" -> max_dimacs_i64 | "isize" -> max_dimacs_isize
  | _ -> failwith ("bad DIMACS type " ^ ty)

let lits (l : z list) : string = "[" ^ String.concat "," (List.map str_of_zz l) ^ "]"

let show_perr (e : perr) : string =
  match e with
  | ESyntax (l, c) -> Printf.sprintf "E(%s,%s)" (str_of_n l) (str_of_n c)
  | EIo e -> "IO(e" ^ str_of_n e ^ ")"

let max_code (ty : string) : n =
  match ty with
  | "u8" -> max_code_u8 | "u16" -> max_code_u16 | "u32" -> max_code_u32
  | "u64" -> max_code_u64 | "usize" -> max_code_usize
  | _ -> failwith ("bad AIGER type " ^ ty)

(* AIGER items, same format as run_aag / run_aig / show_aig / show_ordered_aig in harness/src/s_pa.rs *)
let show_init (i : bool option) : string = match i with Some false -> "0" | Some true -> "1" | None -> "x"
let sym_prefix (k : symkind) : string =
  match k with SInput -> "i" | SOutput -> "o" | SLatch -> "l" | SBad -> "b" | SConstraint -> "c"
             | SJustice -> "j" | SFairness -> "f"
let show_symbol ((k, i), name) : string = Printf.sprintf "s:%s%s:%s" (sym_prefix k) (str_of_n i) (hex_of_bytes name)
let show_aheader (h : aheader) : string =
  Printf.sprintf "H(%s)" (String.concat "," (List.map str_of_n
    [h.a_max_var; h.a_inputs; h.a_latches; h.a_outputs; h.a_ands; h.a_bad; h.a_constraints; h.a_justice; h.a_fairness]))
let show_item (it : item) : string =
  match it with
  | IInput l -> "i:" ^ str_of_n l
  | ILatch (s, nx, i) -> Printf.sprintf "l:%s,%s,%s" (str_of_n s) (str_of_n nx) (show_init i)
  | IOLatch (nx, i) -> Printf.sprintf "l:%s,%s" (str_of_n nx) (show_init i)
  | IOutput l -> "o:" ^ str_of_n l
  | IBad l -> "b:" ^ str_of_n l
  | IConstraint l -> "c:" ^ str_of_n l
  | IJusticeSize k -> "jn:" ^ str_of_n k
  | IJustice l -> "j:" ^ str_of_n l
  | IFairness l -> "f:" ^ str_of_n l
  | IAnd (o, a, b) -> Printf.sprintf "a:%s,%s,%s" (str_of_n o) (str_of_n a) (str_of_n b)
  | IOAnd (a, b) -> Printf.sprintf "a:%s,%s" (str_of_n a) (str_of_n b)
  | ISymbol (k, i, name) -> show_symbol ((k, i), name)
  | IComment c -> "C:" ^ hex_of_bytes c
let show_aig (binary : bool) (a : aig) : string =
  let c l = String.concat "," (List.map str_of_n l) in
  let opt o = match o with Some x -> str_of_n x | None -> "?" in
  Printf.sprintf "%s(M=%s I=%s L=[%s] O=[%s] B=[%s] C=[%s] J=[%s] F=[%s] A=[%s] S=[%s] c=%s)"
    (if binary then "OAIG" else "AIG") (str_of_n a.g_header.a_max_var)
    (if binary then str_of_n a.g_header.a_inputs else "[" ^ c a.g_inputs ^ "]")
    (String.concat "," (List.map (fun ((s, nx), i) ->
       if binary then str_of_n nx ^ "/" ^ show_init i else opt s ^ "/" ^ str_of_n nx ^ "/" ^ show_init i) a.g_latches))
    (c a.g_outputs) (c a.g_bad) (c a.g_constraints)
    (String.concat "," (List.map (fun j -> "(" ^ c j ^ ")") a.g_justice))
    (c a.g_fairness)
    (String.concat "," (List.map (fun ((o, x), y) ->
       if binary then str_of_n x ^ "&" ^ str_of_n y else opt o ^ "=" ^ str_of_n x ^ "&" ^ str_of_n y) a.g_ands))
    (String.concat "," (List.map show_symbol a.g_symbols))
    (match a.g_comment with Some s -> hex_of_bytes s | None -> "none")

let show_final (f : final) : string = match f with FOk -> "ok" | FErr e -> show_perr e

let finish (items : string list) (fin : string) (s : rstate) : string =
  Printf.sprintf "%s => %s | calls=%s" (String.concat ";" items) fin (str_of_n s.g_calls)

let of_cres (r : 'a cres) (k : 'a -> rstate -> string) : string =
  match r with
  | CDone (a, s) -> k a s
  | CPanic (p, s) -> finish [] ("PANIC(" ^ S_rd.show_panic p ^ ")") s
  | CUB -> "UB"
  | CFuel -> "FUEL"

let run (toks : string list) : string =
  match toks with
  | [parser; ty; flags; datahex; evs; pre; chunk; ctor] ->
      let pre = if ctor = "f" then pre else "0" in
      let s0 = reader_init (S_rd.mk_source datahex evs pre) in
      let (s1, _) = step s0 (OSetChunk (n_of_str chunk)) in
      let fuel = nat_of_int (String.length datahex / 2 + 10) in
      let has c = String.contains flags c in
      (match parser with
       | "cnf" | "wcnf" | "gcnf" ->
           let k = (match parser with "cnf" -> KCnf | "wcnf" -> KWcnf | _ -> KGcnf) in
           let maxd = max_dimacs ty in
           let r = crun (parse_dimacs fuel k maxd (has 'h') lrs_init) s1 in
           of_cres r (fun (((hdr, items), fin), _) s ->
             let hitem = (match hdr with
               | None -> []
               | Some None -> ["H-"]
               | Some (Some h) ->
                   (match k with
                    | KCnf -> [Printf.sprintf "H(%s,%s)" (str_of_zz h.h_vars) (str_of_zz h.h_clauses)]
                    | _ -> [Printf.sprintf "H(%s,%s,%s)" (str_of_zz h.h_vars) (str_of_zz h.h_clauses) (str_of_zz h.h_extra)])) in
             let citems = List.map (fun (p, ls) ->
               match k with
               | KCnf -> lits ls
               | KWcnf -> str_of_zz p ^ ":" ^ lits ls
               | KGcnf -> "{" ^ str_of_zz p ^ "}" ^ lits ls) items in
             finish (hitem @ citems) (show_final fin) s)
       | "log" ->
           let maxd = max_dimacs ty in
           let r = crun (parse_log fuel maxd (has 'u') lrs_init) s1 in
           of_cres r (fun (res, _) s ->
             match res with
             | Ok (sat, a) ->
                 finish [Printf.sprintf "sat=%s a=%s" (match sat with Some true -> "T" | Some false -> "F" | None -> "N") (lits a)] "ok" s
             | Err e -> finish [] (show_perr e) s)
       | "aag" | "aig" ->
           let binary = (parser = "aig") in
           let maxc = max_code ty in
           let r = crun ((if binary then parse_aig else parse_aag) fuel maxc lrs_init) s1 in
           of_cres r (fun (res, _) s ->
             let ((hdr, items), fin) = res in
             let hitem = (match hdr with Some h -> [show_aheader h] | None -> []) in
             if has 'w' then
               (* Parser::parse: the whole value or the error *)
               (match whole_file res with
                | Ok a -> finish (hitem @ [show_aig binary a]) "ok" s
                | Err e -> finish hitem (show_perr e) s)
             else finish (hitem @ List.map show_item items) (show_final fin) s)
       | _ -> failwith ("parser not modelled: " ^ parser))
  | _ -> failwith "pa: expected 8 fields"
