(* DigitsProofs.v — C13: the decimal scanners are exact for every integer type,
   and the SWAR-accelerated variants agree with the simple ones. *)
From Flussab Require Import Base Reader ListN Writer Prog Text TextSpec ProgProofs ScanProofs.
Ltac Zify.zify_post_hook ::= Z.to_euclidean_division_equations.

(* ---------- the loop body as a fold ---------- *)
Definition dstep (t : ity) (neg : bool) (st : Z * bool) (d : byte) : Z * bool :=
  let '(value, overflow) := st in
  let '(v1, o1) := ovf t (value * 10) in
  let dz := Z.of_N (d - 48) in
  let '(v2, o2) := ovf t (if neg then v1 - dz else v1 + dz)%Z in
  (v2, overflow || o1 || o2).
Definition dfold (t : ity) (neg : bool) (st : Z * bool) (run : bytes) : Z * bool := fold_left (dstep t neg) run st.
Definition dresult (st : Z * bool) : option Z := let '(x, o) := st in if o then None else Some x.

Lemma digits_loop_spec fuel : forall t neg value overflow off v,
  (length (digit_prefix (rest_at v off)) < fuel)%nat ->
  exists v', srun (digits_loop fuel t neg value overflow off) v =
             ADone (dresult (dfold t neg (value, overflow) (digit_prefix (rest_at v off))),
                    off + nlen (digit_prefix (rest_at v off))) v' /\
             peeked_to v v' (vcur v + off + nlen (digit_prefix (rest_at v off)) + 1).
Proof.
  induction fuel as [|f IH]; intros t neg value overflow off v Hf; [lia|].
  cbn [digits_loop srun]. rewrite vpeek_rest.
  destruct (rest_at v off) as [|x r] eqn:E; cbn [digit_prefix] in *.
  - exists (after_peek v off). change (nlen (@nil byte)) with 0. rewrite !N.add_0_r.
    split; [reflexivity|apply peeked_after_peek].
  - destruct (is_dig x) eqn:Hd.
    + cbn [length] in Hf.
      pose proof (peeked_after_peek v off) as Hp.
      assert (Er : rest_at (after_peek v off) (off + 1) = r).
      { rewrite (rest_at_peeked _ _ _ _ Hp). eapply rest_at_succ; eauto. }
      cbn [dfold fold_left]. unfold dstep at 2.
      destruct (ovf t (value * 10)) as [v1 o1].
      destruct (ovf t (if neg then (v1 - Z.of_N (x - 48))%Z else (v1 + Z.of_N (x - 48))%Z)) as [v2 o2].
      destruct (IH t neg v2 (overflow || o1 || o2) (off + 1) (after_peek v off)) as (v' & Hrun & Hpk);
        [rewrite Er; lia|].
      rewrite Er in Hrun, Hpk. exists v'. split.
      * rewrite Hrun. unfold dfold. f_equal. f_equal. unfold nlen. cbn [length]. lia.
      * eapply peeked_weaken; [eapply peeked_trans; [exact Hp|exact Hpk]|].
        change (vcur (after_peek v off)) with (vcur v). unfold nlen. cbn [length]. lia.
    + exists (after_peek v off). change (nlen (@nil byte)) with 0. rewrite !N.add_0_r.
      split; [reflexivity|apply peeked_after_peek].
Qed.

Lemma det_digits_loop fuel : forall t neg value overflow off, det (digits_loop fuel t neg value overflow off).
Proof.
  induction fuel as [|f IH]; intros t neg value overflow off; cbn [digits_loop det]; [exact I|].
  intros [d|]; [|exact I]. destruct (is_dig d); [|exact I].
  destruct (ovf t (value * 10)) as [v1 o1]. destruct (ovf t _) as [v2 o2]. apply IH.
Qed.

(* ---------- exactness of the fold ---------- *)
Lemma digit_prefix_all_digits l : forallb is_dig (digit_prefix l) = true.
Proof.
  induction l as [|b r IH]; cbn [digit_prefix]; [reflexivity|].
  destruct (is_dig b) eqn:H; [cbn [forallb]; rewrite H, IH; reflexivity|reflexivity].
Qed.

Lemma range_bounds t : (ity_min t <= 0)%Z /\ (0 < ity_max t)%Z /\ (ity_min t <= -128)%Z \/ ity_signed t = false.
Proof. destruct t; cbn; try (left; repeat split; lia); right; reflexivity. Qed.

Lemma ity_min_le0 t : (ity_min t <= 0)%Z.
Proof. destruct t; cbn; lia. Qed.
Lemma ity_max_ge t : (127 <= ity_max t)%Z.
Proof. destruct t; cbn; lia. Qed.

Lemma in_range_iff t x : in_range t x = true <-> (ity_min t <= x <= ity_max t)%Z.
Proof. unfold in_range. rewrite andb_true_iff, !Z.leb_le. tauto. Qed.

(* wrapping is the identity on values of the type *)
Lemma wrapZ_id t x : in_range t x = true -> wrapZ t x = x.
Proof.
  intros H. apply in_range_iff in H. unfold wrapZ.
  assert (Hm : (2 ^ Z.of_N (ity_bits t) = ity_max t - ity_min t + 1)%Z).
  { unfold ity_max, ity_min. destruct t; cbn; lia. }
  assert (Hh : ity_signed t = true -> (2 ^ Z.of_N (ity_bits t) / 2 = - ity_min t)%Z).
  { unfold ity_min. destruct t; cbn; intros; try discriminate; lia. }
  destruct (ity_signed t) eqn:Hs.
  - specialize (Hh eq_refl). rewrite Hh. rewrite Z.mod_small; lia.
  - assert (ity_min t = 0%Z) by (unfold ity_min; rewrite Hs; reflexivity). rewrite Z.mod_small; lia.
Qed.

(* the accumulator invariant, for digits added (neg = false) or subtracted (neg = true):
   x is the exact value so far; while no overflow was flagged the register holds x and x is
   representable; once flagged, x is (and stays) out of range *)
Definition acc_inv (t : ity) (neg : bool) (st : Z * bool) (x : Z) : Prop :=
  (if neg then x <= 0 else 0 <= x)%Z /\
  (snd st = false -> fst st = x /\ in_range t x = true) /\
  (snd st = true -> in_range t x = false).

Definition exact_step (neg : bool) (x : Z) (d : byte) : Z :=
  (if neg then 10 * x - Z.of_N (d - 48) else 10 * x + Z.of_N (d - 48))%Z.

Lemma dstep_inv t neg st x d :
  acc_inv t neg st x -> is_dig d = true -> acc_inv t neg (dstep t neg st d) (exact_step neg x d).
Proof.
  intros (Hsign & Hok & Hbad) Hd. destruct st as [val o]. cbn [fst snd] in *.
  unfold is_dig in Hd. apply andb_prop in Hd. destruct Hd as [Hd1 Hd2]. apply N.leb_le in Hd1, Hd2.
  assert (Hdz : (0 <= Z.of_N (d - 48) <= 9)%Z) by lia.
  set (dz := Z.of_N (d - 48)) in *.
  pose proof (ity_min_le0 t) as Hmin. pose proof (ity_max_ge t) as Hmax.
  unfold dstep, ovf, exact_step. fold dz.
  destruct o.
  - (* already flagged *)
    specialize (Hbad eq_refl). cbn [orb]. unfold acc_inv; cbn [fst snd]. split; [|split].
    + destruct neg; lia.
    + discriminate.
    + intros _. apply not_true_is_false. intros H. apply in_range_iff in H.
      apply not_true_iff_false in Hbad. apply Hbad. apply in_range_iff. destruct neg; lia.
  - destruct (Hok eq_refl) as [-> Hin]. apply in_range_iff in Hin. cbn [orb].
    destruct (in_range t (x * 10)) eqn:H10.
    + rewrite (wrapZ_id t (x * 10) H10). cbn [negb orb].
      destruct (in_range t (if neg then (x * 10 - dz)%Z else (x * 10 + dz)%Z)) eqn:H11.
      * rewrite (wrapZ_id _ _ H11). cbn [negb]. unfold acc_inv; cbn [fst snd]. split; [|split].
        -- destruct neg; lia.
        -- intros _. split; [destruct neg; lia|]. rewrite <- H11. destruct neg; f_equal; lia.
        -- discriminate.
      * cbn [negb]. unfold acc_inv; cbn [fst snd]. split; [|split].
        -- destruct neg; lia.
        -- discriminate.
        -- intros _. rewrite <- H11. destruct neg; f_equal; lia.
    + cbn [negb orb]. unfold acc_inv; cbn [fst snd]. split; [|split].
      * destruct neg; lia.
      * discriminate.
      * intros _. apply not_true_is_false. intros H. apply in_range_iff in H.
        apply not_true_iff_false in H10. apply H10. apply in_range_iff. destruct neg; lia.
Qed.

Definition exact_fold (neg : bool) (x : Z) (run : bytes) : Z := fold_left (exact_step neg) run x.

Lemma dfold_inv t neg run : forall st x,
  acc_inv t neg st x -> forallb is_dig run = true -> acc_inv t neg (dfold t neg st run) (exact_fold neg x run).
Proof.
  induction run as [|d r IH]; intros st x HI Hd; cbn [dfold exact_fold fold_left]; [exact HI|].
  cbn [forallb] in Hd. apply andb_prop in Hd. destruct Hd as [Hd Hr].
  apply IH; [apply dstep_inv; assumption|exact Hr].
Qed.

(* hence: the result is the exact value when it is representable, None exactly when it is not *)
Lemma dfold_exact t neg st x run :
  acc_inv t neg st x -> forallb is_dig run = true ->
  dresult (dfold t neg st run) = from_prim t (exact_fold neg x run).
Proof.
  intros HI Hd. destruct (dfold_inv t neg run st x HI Hd) as (_ & Hok & Hbad).
  unfold dresult, from_prim. destruct (dfold t neg st run) as [val o]. cbn [fst snd] in *.
  destruct o.
  - rewrite (Hbad eq_refl). reflexivity.
  - destruct (Hok eq_refl) as [-> ->]. reflexivity.
Qed.

Lemma exact_fold_pos run : forall a, exact_fold false (Z.of_N a) run = Z.of_N (fold_left dec_step run a).
Proof.
  induction run as [|d r IH]; intros a; cbn [exact_fold fold_left]; [reflexivity|].
  unfold exact_fold in IH. rewrite <- IH. f_equal. unfold exact_step, dec_step. lia.
Qed.

Lemma exact_fold_neg run : forall a, exact_fold true (- Z.of_N a) run = (- Z.of_N (fold_left dec_step run a))%Z.
Proof.
  induction run as [|d r IH]; intros a; cbn [exact_fold fold_left]; [reflexivity|].
  unfold exact_fold in IH. rewrite <- IH. f_equal. unfold exact_step, dec_step. lia.
Qed.

Lemma in_range_0 t : in_range t 0 = true.
Proof. apply in_range_iff. pose proof (ity_min_le0 t). pose proof (ity_max_ge t). lia. Qed.

(* ---------- Theorem 1: the simple scanners are exact ---------- *)
(* unsigned reading of the input at the scan offset *)
Definition unsigned_spec (t : ity) (l : bytes) : option Z * N :=
  (from_prim t (Z.of_N (dec_val (digit_prefix l))), nlen (digit_prefix l)).

(* signed reading: a '-' counts only when a digit follows it *)
Definition signed_spec (t : ity) (l : bytes) : option Z * N :=
  match l with
  | b :: r =>
      if b =? 45 then
        match digit_prefix r with
        | [] => (Some 0%Z, 0)
        | run => (from_prim t (- Z.of_N (dec_val run)), 1 + nlen run)
        end
      else unsigned_spec t l
  | [] => unsigned_spec t l
  end.

Lemma ascii_digits_spec fuel t off v :
  (length (digit_prefix (rest_at v off)) < fuel)%nat ->
  exists v', srun (ascii_digits fuel t off) v =
             ADone (fst (unsigned_spec t (rest_at v off)), off + snd (unsigned_spec t (rest_at v off))) v' /\
             peeked_to v v' (vcur v + off + nlen (digit_prefix (rest_at v off)) + 1).
Proof.
  intros Hf. unfold ascii_digits.
  destruct (digits_loop_spec fuel t false 0 false off v Hf) as (v' & Hrun & Hpk).
  exists v'. split; [|exact Hpk]. rewrite Hrun. unfold unsigned_spec. cbn [fst snd]. f_equal. f_equal.
  rewrite (dfold_exact t false (0%Z, false) 0%Z).
  - change 0%Z with (Z.of_N 0). rewrite exact_fold_pos. reflexivity.
  - unfold acc_inv; cbn [fst snd]. split; [lia|]. split; [intros _; split; [reflexivity|apply in_range_0]|discriminate].
  - apply digit_prefix_all_digits.
Qed.

Lemma is_dig_not_minus d : is_dig d = true -> (d =? 45) = false.
Proof.
  unfold is_dig. intros H. apply andb_prop in H. destruct H as [H _]. apply N.leb_le in H. apply N.eqb_neq. lia.
Qed.

(* what a view looks like after peeks up to absolute offset m - 1 *)
Definition core_after (v : view) (m : N) : bytes * option N * N * N * bool * bool :=
  (vS v, vfail v, vcur v, vmark v, vtaken v, vknown v || (nlen (vS v) <? m)).

Lemma peeked_core v v' m : peeked_to v v' m -> core v' = core_after v m.
Proof.
  intros (a1 & a2 & a3 & a4 & a5 & _ & a7 & _). unfold core, core_after. rewrite a1, a2, a3, a4, a5, a7. reflexivity.
Qed.

Lemma core_after_within v m : m <= nlen (vS v) -> core v = core_after v m.
Proof.
  intros H. unfold core, core_after. assert ((nlen (vS v) <? m) = false) as -> by (apply N.ltb_ge; exact H).
  rewrite orb_false_r. reflexivity.
Qed.

Lemma core_after_basic v v' m : core v' = core_after v m -> vcur v' = vcur v /\ vS v' = vS v.
Proof. unfold core, core_after. intros H. inversion H. split; reflexivity. Qed.

(* how many bytes from the scan offset the signed scanner looks at (terminator included) *)
Definition signed_look (l : bytes) : N :=
  match l with
  | b :: r =>
      if b =? 45 then match digit_prefix r with [] => 2 | run => nlen run + 2 end
      else nlen (digit_prefix l) + 1
  | [] => 1
  end.

Lemma signed_ascii_digits_spec fuel t off v :
  ity_signed t = true ->
  (length (digit_prefix (rest_at v off)) < fuel)%nat ->
  (length (digit_prefix (rest_at v (off + 1))) < fuel)%nat ->
  exists v', srun (signed_ascii_digits fuel t off) v =
             ADone (fst (signed_spec t (rest_at v off)), off + snd (signed_spec t (rest_at v off))) v' /\
             peeked_to v v' (vcur v + off + signed_look (rest_at v off)).
Proof.
  intros Hs Hf Hf1. unfold signed_ascii_digits. cbn [srun]. rewrite vpeek_rest.
  pose proof (peeked_after_peek v off) as Hp.
  destruct (rest_at v off) as [|b r] eqn:E.
  - (* end of input: positive loop *)
    destruct (digits_loop_spec fuel t false 0 false off (after_peek v off)) as (v' & Hrun & Hpk).
    { rewrite (rest_at_peeked _ _ _ _ Hp), E. cbn. lia. }
    rewrite (rest_at_peeked _ _ _ _ Hp), E in Hrun, Hpk. exists v'. split.
    + rewrite Hrun. cbn [signed_spec unsigned_spec digit_prefix fst snd dfold fold_left dresult].
      unfold from_prim. rewrite in_range_0. reflexivity.
    + eapply peeked_weaken; [eapply peeked_trans; [exact Hp|exact Hpk]|].
      change (vcur (after_peek v off)) with (vcur v). cbn [signed_look digit_prefix].
      change (nlen (@nil byte)) with 0. lia.
  - destruct (b =? 45) eqn:Hb.
    + (* '-' *)
      cbn [srun]. rewrite vpeek_rest. rewrite (rest_at_peeked _ _ _ _ Hp). rewrite (rest_at_succ _ _ _ _ E).
      pose proof (peeked_after_peek (after_peek v off) (off + 1)) as Hp1.
      pose proof (peeked_trans _ _ _ _ _ Hp Hp1) as Hp2.
      cbn [signed_spec signed_look]. rewrite Hb.
      destruct r as [|d r'] eqn:Er; cbn [digit_prefix].
      * eexists. cbn [srun fst snd]. rewrite N.add_0_r. split; [reflexivity|].
        eapply peeked_weaken; [exact Hp2|]. change (vcur (after_peek v off)) with (vcur v). lia.
      * destruct (is_dig d) eqn:Hd.
        -- assert (Hin : in_range t (0 - Z.of_N (d - 48)) = true).
           { apply in_range_iff. unfold is_dig in Hd. apply andb_prop in Hd. destruct Hd as [H1 H2].
             apply N.leb_le in H1, H2. pose proof (ity_max_ge t).
             assert (ity_min t <= -128)%Z by (unfold ity_min; rewrite Hs; destruct t; cbn in *; try discriminate; lia).
             lia. }
           rewrite Hin.
           set (v2 := after_peek (after_peek v off) (off + 1)) in *.
           assert (Er2 : rest_at v2 (off + 2) = r').
           { rewrite (rest_at_peeked _ _ _ _ Hp2). replace (off + 2) with (off + 1 + 1) by lia.
             apply (rest_at_succ v (off + 1) d r'). apply (rest_at_succ _ _ _ _ E). }
           destruct (digits_loop_spec fuel t true (0 - Z.of_N (d - 48)) false (off + 2) v2) as (v' & Hrun & Hpk).
           { rewrite Er2. rewrite (rest_at_succ _ _ _ _ E) in Hf1. cbn [digit_prefix] in Hf1. rewrite Hd in Hf1.
             cbn [length] in Hf1. lia. }
           rewrite Er2 in Hrun, Hpk. exists v'. split.
           ++ rewrite Hrun. cbn [fst snd]. f_equal. f_equal.
              ** rewrite (dfold_exact t true _ (- Z.of_N (d - 48))%Z).
                 --- rewrite exact_fold_neg. unfold dec_val. cbn [fold_left].
                     replace (dec_step 0 d) with (d - 48) by (unfold dec_step; lia). reflexivity.
                 --- unfold acc_inv; cbn [fst snd]. split; [lia|]. split; [|discriminate].
                     intros _. split; [lia|]. rewrite <- Hin. f_equal; lia.
                 --- apply digit_prefix_all_digits.
              ** unfold nlen. cbn [length]. lia.
           ++ eapply peeked_weaken; [eapply peeked_trans; [exact Hp2|exact Hpk]|].
              change (vcur v2) with (vcur v). change (vcur (after_peek v off)) with (vcur v).
              unfold nlen. cbn [length]. lia.
        -- eexists. cbn [srun fst snd]. rewrite N.add_0_r. split; [reflexivity|].
           eapply peeked_weaken; [exact Hp2|]. change (vcur (after_peek v off)) with (vcur v). lia.
    + (* no sign *)
      destruct (digits_loop_spec fuel t false 0 false off (after_peek v off)) as (v' & Hrun & Hpk).
      { rewrite (rest_at_peeked _ _ _ _ Hp), E. exact Hf. }
      rewrite (rest_at_peeked _ _ _ _ Hp), E in Hrun, Hpk. exists v'. split.
      * rewrite Hrun. cbn [signed_spec]. rewrite Hb. unfold unsigned_spec. cbn [fst snd]. f_equal. f_equal.
        rewrite (dfold_exact t false (0%Z, false) 0%Z).
        -- change 0%Z with (Z.of_N 0). rewrite exact_fold_pos. reflexivity.
        -- unfold acc_inv; cbn [fst snd]. split; [lia|]. split; [intros _; split; [reflexivity|apply in_range_0]|discriminate].
        -- apply digit_prefix_all_digits.
      * eapply peeked_weaken; [eapply peeked_trans; [exact Hp|exact Hpk]|].
        change (vcur (after_peek v off)) with (vcur v). cbn [signed_look]. rewrite Hb. lia.
Qed.

(* ---------- Theorem 3: the SWAR variants agree with the simple scanners ---------- *)
From Flussab Require SwarProofs ReaderProofs.


Lemma Forall_firstn {A} (P : A -> Prop) n l : Forall P l -> Forall P (firstn n l).
Proof. revert l. induction n; intros l H; cbn; [constructor|]. destruct H; constructor; auto. Qed.
Lemma Forall_skipn {A} (P : A -> Prop) n l : Forall P l -> Forall P (skipn n l).
Proof. revert l. induction n; intros l H; cbn; [exact H|]. destruct H; [constructor|auto]. Qed.

(* the 8 bytes the raw load sees are the first 8 bytes of the rest of the input *)
Lemma load8_is_rest v off :
  vcur v + off + 8 <= nlen (vS v) ->
  window (vS v) (vcur v + off) 8 = firstn 8 (rest_at v off) /\ length (firstn 8 (rest_at v off)) = 8%nat.
Proof.
  intros H. unfold window, rest_at, nfirstn. change (N.to_nat 8) with 8%nat. split; [reflexivity|].
  rewrite firstn_length. unfold nskipn. rewrite skipn_length. unfold nlen in H. lia.
Qed.

Lemma digit_prefix_app_all a b : forallb is_dig a = true -> digit_prefix (a ++ b) = a ++ digit_prefix b.
Proof.
  induction a as [|x a IH]; intros H; cbn [app digit_prefix]; [reflexivity|].
  cbn [forallb] in H. apply andb_prop in H. destruct H as [Hx Ha]. rewrite Hx, IH by exact Ha. reflexivity.
Qed.

Lemma digit_prefix_short n : forall l,
  (length (digit_prefix (firstn n l)) < n)%nat -> digit_prefix l = digit_prefix (firstn n l).
Proof.
  induction n as [|n IH]; intros l H; [cbn in H; lia|].
  destruct l as [|x l]; [reflexivity|]. cbn [firstn digit_prefix] in *.
  destruct (is_dig x); [|reflexivity]. cbn [length] in H. f_equal. apply IH. lia.
Qed.

Lemma digit_prefix_le l : (length (digit_prefix l) <= length l)%nat.
Proof. induction l as [|x l IH]; cbn [digit_prefix length]; [lia|]. destruct (is_dig x); cbn [length]; lia. Qed.

Lemma digit_prefix_full l : length (digit_prefix l) = length l -> digit_prefix l = l.
Proof.
  induction l as [|x l IH]; cbn [digit_prefix length]; [reflexivity|].
  destruct (is_dig x); cbn [length]; intros H; [f_equal; apply IH; lia|lia].
Qed.

Lemma dec_val_app a b : dec_val (a ++ b) = fold_left dec_step b (dec_val a).
Proof. unfold dec_val. apply fold_left_app. Qed.

(* starting state of the continuation loops *)
Definition sign_ok (neg : bool) (x : Z) : Prop := if neg then (x <= 0)%Z else (0 <= x)%Z.

Lemma cont_inv t neg (x : Z) :
  sign_ok neg x ->
  acc_inv t neg (match from_prim t x with Some v => v | None => 0%Z end,
                 match from_prim t x with Some _ => false | None => true end) x.
Proof.
  intros Hs. unfold from_prim, acc_inv. destruct (in_range t x) eqn:E; cbn [fst snd]; split; auto; split;
    try discriminate; auto.
Qed.

Lemma from_prim_dresult t neg x run :
  sign_ok neg x -> forallb is_dig run = true ->
  dresult (dfold t neg (match from_prim t x with Some v => v | None => 0%Z end,
                        match from_prim t x with Some _ => false | None => true end) run)
  = from_prim t (exact_fold neg x run).
Proof. intros Hs Hd. apply dfold_exact; [apply cont_inv; exact Hs|exact Hd]. Qed.

(* the unsigned fast path, once 8 bytes are known to be buffered *)
Lemma multi_fast_unsigned fuel t off v (r : ares (option Z * N)) :
  BytesOK v -> vcur v + off + 8 <= nlen (vS v) ->
  (length (digit_prefix (rest_at v off)) < fuel)%nat ->
  aruns (let '(value, md) := swar (le_value (window (vS v) (vcur v + off) 8)) in
         let value := from_prim t (Z.of_N value) in
         if md =? 8 then ascii_digits_cont fuel t false (off + 8) value else Ret (value, off + md)) v r ->
  exists v', r = ADone (fst (unsigned_spec t (rest_at v off)), off + snd (unsigned_spec t (rest_at v off))) v' /\
             core v' = core_after v (vcur v + off + nlen (digit_prefix (rest_at v off)) + 1).
Proof.
  intros Hb Hlen Hf Hr. destruct (load8_is_rest v off Hlen) as [Hw Hl8].
  set (l := firstn 8 (rest_at v off)) in *.
  assert (Hsm : Forall (fun b => b < 256) l).
  { apply Forall_firstn. unfold rest_at, nskipn. apply Forall_skipn. exact Hb. }
  rewrite Hw, (SwarProofs.swar_spec l Hl8 Hsm) in Hr.
  unfold unsigned_spec. cbn [fst snd].
  destruct (nlen (digit_prefix l) =? 8) eqn:H8.
  - (* eight digits: continue after them *)
    apply N.eqb_eq in H8.
    assert (Hfull : digit_prefix l = l) by (apply digit_prefix_full; unfold nlen in H8; lia).
    assert (Hrest : rest_at v off = l ++ rest_at v (off + 8)).
    { unfold l, rest_at. rewrite <- (firstn_skipn 8 (nskipn (vcur v + off) (vS v))) at 1. f_equal.
      change 8%nat with (N.to_nat 8). fold (nskipn 8 (nskipn (vcur v + off) (vS v))).
      rewrite nskipn_nskipn. f_equal. lia. }
    assert (Hdl : forallb is_dig l = true) by (rewrite <- Hfull; apply digit_prefix_all_digits).
    assert (Hpre : digit_prefix (rest_at v off) = l ++ digit_prefix (rest_at v (off + 8))).
    { rewrite Hrest at 1. apply digit_prefix_app_all. exact Hdl. }
    unfold ascii_digits_cont in Hr. rewrite Hfull in Hr.
    rewrite (det_aruns _ _ _ Hr (det_digits_loop _ _ _ _ _ _)).
    destruct (digits_loop_spec fuel t false
                (match from_prim t (Z.of_N (dec_val l)) with Some v0 => v0 | None => 0%Z end)
                (match from_prim t (Z.of_N (dec_val l)) with Some _ => false | None => true end) (off + 8) v)
      as (v' & Hrun & Hpk).
    { rewrite Hpre, app_length in Hf. lia. }
    exists v'. split.
    + rewrite Hrun. f_equal. f_equal.
      * rewrite from_prim_dresult by (try (unfold sign_ok; lia); apply digit_prefix_all_digits).
        rewrite exact_fold_pos, Hpre, dec_val_app. reflexivity.
      * rewrite Hpre, nlen_app. unfold nlen at 2. rewrite Hl8. change (N.of_nat 8) with 8. lia.
    + rewrite (peeked_core _ _ _ Hpk). f_equal. f_equal. rewrite Hpre, nlen_app. unfold nlen at 2. rewrite Hl8.
      change (N.of_nat 8) with 8. lia.
  - apply N.eqb_neq in H8.
    assert (Hshort : (length (digit_prefix l) < 8)%nat).
    { pose proof (digit_prefix_le l). unfold nlen in H8. lia. }
    pose proof (digit_prefix_short 8 (rest_at v off) Hshort) as Hps. fold l in Hps. rewrite <- Hps in Hr.
    apply aruns_ret_inv in Hr. rewrite Hr. exists v. split; [reflexivity|].
    apply core_after_within. rewrite Hps. unfold nlen in *. lia.
Qed.

Theorem ascii_digits_multi_spec fuel t off v r :
  WFV v -> BytesOK v ->
  (length (digit_prefix (rest_at v off)) < fuel)%nat ->
  aruns (ascii_digits_multi fuel t off) v r ->
  exists v', r = ADone (fst (unsigned_spec t (rest_at v off)), off + snd (unsigned_spec t (rest_at v off))) v' /\
             core v' = core_after v (vcur v + off + nlen (digit_prefix (rest_at v off)) + 1).
Proof.
  intros Hwf Hb Hf Hr. unfold ascii_digits_multi in Hr. inversion Hr; subst.
  match goal with H : tryload_ok _ _ ?o |- _ => destruct o as [w|]; cbn [tryload_ok] in H; rename H into Hok end.
  - (* fast path *)
    destruct Hok as [Hlen ->].
    match goal with H : aruns _ (v_loaded v off _) r |- _ => rename H into Hc end.
    destruct (multi_fast_unsigned fuel t off (v_loaded v off (Some (word_at v off))) r) as (v' & H1 & H2); auto.
    exists v'. split; [exact H1|exact H2].
  - (* cold path: the simple scanner *)
    match goal with H : aruns _ (v_loaded v off None) r |- _ => rename H into Hc end.
    unfold ascii_digits in Hc. rewrite (det_aruns _ _ _ Hc (det_digits_loop _ _ _ _ _ _)).
    destruct (ascii_digits_spec fuel t off (v_loaded v off None)) as (v' & H1 & H2); [exact Hf|].
    unfold ascii_digits in H1. exists v'. split; [exact H1|].
    exact (peeked_core _ _ _ H2).
Qed.

(* ---------- the signed fast path ---------- *)
Lemma le_value_app_zero l : le_value (l ++ [0]) = le_value l.
Proof. induction l as [|b r IH]; cbn [app le_value]; [reflexivity|]. rewrite IH. reflexivity. Qed.

Lemma le_value_head b r : b < 256 -> N.land (le_value (b :: r)) 255 = b /\ N.shiftr (le_value (b :: r)) 8 = le_value r.
Proof.
  intros Hb. cbn [le_value]. split.
  - change 255 with (N.ones 8). rewrite N.land_ones. change (2 ^ 8) with 256. lia.
  - rewrite N.shiftr_div_pow2. change (2 ^ 8) with 256. lia.
Qed.

Lemma digit_prefix_app_zero l : digit_prefix (l ++ [0]) = digit_prefix l.
Proof.
  induction l as [|b r IH]; cbn [app digit_prefix]; [reflexivity|].
  destruct (is_dig b); [rewrite IH|]; reflexivity.
Qed.

Lemma signed_spec_minus t b r :
  (b =? 45) = true ->
  signed_spec t (b :: r) =
  if nlen (digit_prefix r) =? 0 then (Some 0%Z, 0)
  else (from_prim t (- Z.of_N (dec_val (digit_prefix r))), 1 + nlen (digit_prefix r)).
Proof.
  intros H. cbn [signed_spec]. rewrite H. destruct (digit_prefix r) as [|d ds]; [reflexivity|].
  assert ((nlen (d :: ds) =? 0) = false) as -> by (apply N.eqb_neq; unfold nlen; cbn [length]; lia).
  reflexivity.
Qed.

Lemma signed_look_minus b r :
  (b =? 45) = true ->
  signed_look (b :: r) = if nlen (digit_prefix r) =? 0 then 2 else nlen (digit_prefix r) + 2.
Proof.
  intros H. cbn [signed_look]. rewrite H. destruct (digit_prefix r) as [|d ds]; [reflexivity|].
  assert ((nlen (d :: ds) =? 0) = false) as -> by (apply N.eqb_neq; unfold nlen; cbn [length]; lia). reflexivity.
Qed.

Lemma signed_spec_plain t l :
  match l with b :: _ => (b =? 45) = false | [] => True end -> signed_spec t l = unsigned_spec t l.
Proof. destruct l as [|b r]; intros H; cbn [signed_spec]; [reflexivity|]. rewrite H. reflexivity. Qed.

Lemma from_prim_0 t : from_prim t 0 = Some 0%Z.
Proof. unfold from_prim. rewrite in_range_0. reflexivity. Qed.

Lemma multi_fast_signed fuel t off v (r : ares (option Z * N)) :
  BytesOK v -> vcur v + off + 8 <= nlen (vS v) ->
  (length (digit_prefix (rest_at v off)) < fuel)%nat ->
  (length (digit_prefix (rest_at v (off + 1))) < fuel)%nat ->
  aruns (let word := le_value (window (vS v) (vcur v + off) 8) in
         if N.land word 255 =? 45 then
           let '(value, md) := swar (N.shiftr word 8) in
           let value := from_prim t (- Z.of_N value)%Z in
           if md =? 7 then ascii_digits_cont fuel t true (off + 8) value
           else Ret (value, off + (if md =? 0 then 0 else 1) + md)
         else
           let '(value, md) := swar word in
           let value := from_prim t (Z.of_N value) in
           if md =? 8 then ascii_digits_cont fuel t false (off + 8) value
           else Ret (value, off + md)) v r ->
  exists v', r = ADone (fst (signed_spec t (rest_at v off)), off + snd (signed_spec t (rest_at v off))) v' /\
             core v' = core_after v (vcur v + off + signed_look (rest_at v off)).
Proof.
  intros Hb Hlen Hf Hf1 Hr. cbv zeta in Hr.
  destruct (load8_is_rest v off Hlen) as [Hw Hl8].
  assert (Hsm : Forall (fun b => b < 256) (firstn 8 (rest_at v off))).
  { apply Forall_firstn. unfold rest_at, nskipn. apply Forall_skipn. exact Hb. }
  destruct (rest_at v off) as [|b0 rst] eqn:Erest; [cbn in Hl8; (unfold bytes, byte in *; unfold bytes, byte in *; lia)|].
  change (firstn 8 (b0 :: rst)) with (b0 :: firstn 7 rst) in *. inversion Hsm as [|? ? Hb0 Hsm7]; subst.
  destruct (le_value_head b0 (firstn 7 rst) Hb0) as [Hland Hshr].
  rewrite Hw in Hr. unfold bytes, byte in *. rewrite Hland in Hr.
  destruct (b0 =? 45) eqn:H45.
  - (* a minus sign: the seven bytes after it, padded with a zero byte *)
    rewrite Hshr in Hr. rewrite <- (le_value_app_zero (firstn 7 rst)) in Hr.
    set (l := firstn 7 rst ++ [0]) in *.
    assert (Hl : length l = 8%nat) by (unfold l; rewrite app_length; cbn [length] in *; unfold bytes, byte in *; lia).
    assert (Hsl : Forall (fun b => b < 256) l).
    { unfold l. apply Forall_app. split; [exact Hsm7|]. constructor; [(unfold bytes, byte in *; unfold bytes, byte in *; lia)|constructor]. }
    rewrite (SwarProofs.swar_spec l Hl Hsl) in Hr.
    assert (Hdp : digit_prefix l = digit_prefix (firstn 7 rst)) by (unfold l; apply digit_prefix_app_zero).
    rewrite Hdp in Hr.
    assert (H7 : length (firstn 7 rst) = 7%nat) by (cbn [length] in Hl8; unfold bytes, byte in *; lia).
    rewrite (signed_spec_minus t b0 rst H45).
    assert (Er1 : rest_at v (off + 1) = rst) by (eapply rest_at_succ; exact Erest).
    destruct (nlen (digit_prefix (firstn 7 rst)) =? 7) eqn:Hm7.
    + (* seven digits after the sign: continue at off + 8 *)
      apply N.eqb_eq in Hm7.
      assert (Hfull : digit_prefix (firstn 7 rst) = firstn 7 rst).
      { apply digit_prefix_full. unfold nlen in Hm7. (unfold bytes, byte in *; unfold bytes, byte in *; lia). }
      assert (Hd7 : forallb is_dig (firstn 7 rst) = true) by (rewrite <- Hfull; apply digit_prefix_all_digits).
      assert (Hrst : rst = firstn 7 rst ++ rest_at v (off + 8)).
      { rewrite <- (firstn_skipn 7 rst) at 1. f_equal. rewrite <- Er1. unfold rest_at.
        change 7%nat with (N.to_nat 7).
        change (skipn (N.to_nat 7) (nskipn (vcur v + (off + 1)) (vS v))) with (nskipn 7 (nskipn (vcur v + (off + 1)) (vS v))).
        rewrite nskipn_nskipn. f_equal. (unfold bytes, byte in *; unfold bytes, byte in *; lia). }
      assert (Hpre : digit_prefix rst = firstn 7 rst ++ digit_prefix (rest_at v (off + 8))).
      { rewrite Hrst at 1. apply digit_prefix_app_all. exact Hd7. }
      rewrite Hfull in Hr. unfold ascii_digits_cont in Hr.
      rewrite (det_aruns _ _ _ Hr (det_digits_loop _ _ _ _ _ _)).
      destruct (digits_loop_spec fuel t true
                  (match from_prim t (- Z.of_N (dec_val (firstn 7 rst))) with Some v0 => v0 | None => 0%Z end)
                  (match from_prim t (- Z.of_N (dec_val (firstn 7 rst))) with Some _ => false | None => true end)
                  (off + 8) v) as (v' & Hrun & Hpk).
      { rewrite Er1, Hpre, app_length in Hf1. (unfold bytes, byte in *; unfold bytes, byte in *; lia). }
      exists v'. split.
      * rewrite Hrun. rewrite Hpre. unfold bytes, byte in *.
        assert ((nlen (firstn 7 rst ++ digit_prefix (rest_at v (off + 8))) =? 0) = false) as ->.
        { apply N.eqb_neq. rewrite nlen_app. unfold nlen at 1. unfold bytes, byte in *. lia. }
        cbn [fst snd]. f_equal. f_equal.
        -- rewrite from_prim_dresult by (try (unfold sign_ok; unfold bytes, byte in *; lia); apply digit_prefix_all_digits).
           rewrite exact_fold_neg, dec_val_app. reflexivity.
        -- rewrite nlen_app. unfold nlen at 2. rewrite H7. change (N.of_nat 7) with 7. (unfold bytes, byte in *; unfold bytes, byte in *; lia).
      * rewrite (peeked_core _ _ _ Hpk). f_equal. rewrite (signed_look_minus b0 rst H45).
        unfold bytes, byte in *. rewrite Hpre, nlen_app.
        match goal with |- context [if ?c then _ else _] => destruct c eqn:Ec end.
        { apply N.eqb_eq in Ec. unfold nlen in Ec. lia. }
        unfold nlen at 2. lia.
    + apply N.eqb_neq in Hm7.
      assert (Hshort : (length (digit_prefix (firstn 7 rst)) < 7)%nat).
      { pose proof (digit_prefix_le (firstn 7 rst)). unfold nlen in Hm7. (unfold bytes, byte in *; unfold bytes, byte in *; lia). }
      pose proof (digit_prefix_short 7 rst Hshort) as Hps. unfold bytes, byte in *. rewrite <- Hps in Hr.
      apply aruns_ret_inv in Hr. rewrite Hr. exists v. split.
      2: { apply core_after_within. rewrite (signed_look_minus b0 rst H45). unfold bytes, byte in *.
           rewrite Hps. destruct (@nlen N (digit_prefix (firstn 7 rst)) =? 0); unfold nlen in *; lia. }
      unfold bytes, byte in *. destruct (@nlen N (digit_prefix rst) =? 0) eqn:Edp.
      * apply N.eqb_eq in Edp. assert (digit_prefix rst = []) as -> by (apply ReaderProofs.nlen_zero_nil; exact Edp).
        unfold dec_val. cbn [fold_left fst snd]. change (- Z.of_N 0)%Z with 0%Z.
        change (nlen (@nil N)) with 0. cbn [N.eqb]. rewrite from_prim_0, !N.add_0_r. reflexivity.
      * cbn [fst snd]. f_equal. f_equal. lia.
  - (* no sign: as the unsigned fast path *)
    rewrite (signed_spec_plain t (b0 :: rst) H45).
    assert (Hr' : aruns (let '(value, md) := swar (le_value (window (vS v) (vcur v + off) 8)) in
                         let value := from_prim t (Z.of_N value) in
                         if md =? 8 then ascii_digits_cont fuel t false (off + 8) value else Ret (value, off + md)) v r).
    { rewrite Hw. exact Hr. }
    destruct (multi_fast_unsigned fuel t off v r Hb Hlen) as (v' & H1 & H2); [rewrite Erest; exact Hf|exact Hr'|].
    rewrite Erest in H1, H2. exists v'. split; [exact H1|]. rewrite H2. cbn [signed_look]. rewrite H45. f_equal. lia.
Qed.

Theorem signed_ascii_digits_multi_spec fuel t off v r :
  ity_signed t = true -> WFV v -> BytesOK v ->
  (length (digit_prefix (rest_at v off)) < fuel)%nat ->
  (length (digit_prefix (rest_at v (off + 1))) < fuel)%nat ->
  aruns (signed_ascii_digits_multi fuel t off) v r ->
  exists v', r = ADone (fst (signed_spec t (rest_at v off)), off + snd (signed_spec t (rest_at v off))) v' /\
             core v' = core_after v (vcur v + off + signed_look (rest_at v off)).
Proof.
  intros Hs Hwf Hb Hf Hf1 Hr. unfold signed_ascii_digits_multi in Hr. inversion Hr; subst.
  match goal with H : tryload_ok _ _ ?o |- _ => destruct o as [w|]; cbn [tryload_ok] in H; rename H into Hok end.
  - destruct Hok as [Hlen ->].
    match goal with H : aruns _ (v_loaded v off _) r |- _ => rename H into Hc end.
    destruct (multi_fast_signed fuel t off (v_loaded v off (Some (word_at v off))) r) as (v' & H1 & H2); auto.
    exists v'. split; [exact H1|exact H2].
  - (* cold path: the simple signed scanner; it has no buffering question either *)
    match goal with H : aruns _ (v_loaded v off None) r |- _ => rename H into Hc end.
    assert (Hdet : det (signed_ascii_digits fuel t off)).
    { unfold signed_ascii_digits. cbn [det]. intros o.
      destruct (match o with Some b => b =? 45 | None => false end); [|apply det_digits_loop].
      cbn [det]. intros [d|]; [|exact I]. destruct (is_dig d); [|exact I].
      destruct (in_range t (0 - Z.of_N (d - 48))); [apply det_digits_loop|exact I]. }
    rewrite (det_aruns _ _ _ Hc Hdet).
    destruct (signed_ascii_digits_spec fuel t off (v_loaded v off None) Hs Hf Hf1) as (v' & H1 & H2).
    exists v'. split; [exact H1|exact (peeked_core _ _ _ H2)].
Qed.
