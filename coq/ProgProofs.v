(* ProgProofs.v — basic facts about the abstract semantics of parser programs. *)
From Flussab Require Import Base Reader ListN Prog.

(* a view is well formed when what it claims buffered exists *)
Definition WFV (v : view) : Prop := vhwm v <= nlen (vS v).

Lemma nnth_some_lt {A} (l : list A) i x : nnth l i = Some x -> i < nlen l.
Proof.
  unfold nnth, nlen. intros H. assert (N.to_nat i < length l)%nat; [|lia].
  apply nth_error_Some. congruence.
Qed.

Lemma WFV_after_peek v k : WFV v -> WFV (after_peek v k).
Proof.
  unfold WFV, after_peek; cbn [vhwm vS]. intros H. unfold vpeek.
  destruct (nnth (vS v) (vcur v + k)) eqn:E; [|lia].
  apply nnth_some_lt in E. lia.
Qed.

Lemma WFV_loaded v off o : WFV v -> tryload_ok v off o -> WFV (v_loaded v off o).
Proof.
  unfold WFV, v_loaded, tryload_ok; cbn [vhwm vS]. intros H Hok. destruct o as [w|]; [|exact H].
  destruct Hok as [Hlen _]. lia.
Qed.

Lemma s_tryload_ok v off : WFV v -> tryload_ok v off (s_tryload v off).
Proof.
  unfold WFV, tryload_ok, s_tryload. intros H. destruct (vcur v + off + 8 <=? vhwm v) eqn:E.
  - apply N.leb_le in E. split; [lia|reflexivity].
  - apply N.leb_gt in E. exact E.
Qed.

(* the simple run is one of the admissible runs *)
Lemma srun_aruns {A} (p : prog A) : forall v, WFV v -> aruns p v (srun p v).
Proof.
  induction p as [a|k c IH|n c IH|off c IH|c IH|c IH|c IH|c IH|c IH|c IH|k|]; intros v Hv; cbn [srun].
  - constructor.
  - constructor. apply IH. apply WFV_after_peek; exact Hv.
  - destruct (vcur v + n <=? vhwm v) eqn:E.
    + apply N.leb_le in E. apply ar_adv; [exact E|]. apply IH. exact Hv.
    + apply N.leb_gt in E. apply ar_adv_stuck. exact E.
  - pose proof (s_tryload_ok v off Hv) as Hok.
    eapply ar_tryload; [exact Hok|]. apply IH. apply WFV_loaded; assumption.
  - constructor. apply IH. exact Hv.
  - constructor. apply IH. exact Hv.
  - constructor. apply IH. exact Hv.
  - constructor. apply IH. exact Hv.
  - constructor. apply IH. exact Hv.
  - constructor. apply IH. exact Hv.
  - constructor.
  - constructor.
Qed.

(* programs that never ask a buffering question have exactly one run *)
Fixpoint det {A} (p : prog A) : Prop :=
  match p with
  | Ret _ | Crash _ | NoFuel => True
  | Peek _ c => forall o, det (c o)
  | Advance _ c | SetMark c => det c
  | GetMark c | GetPos c => forall m, det (c m)
  | IsAtEnd c | ErrParked c => forall b, det (c b)
  | TakeErr c => forall o, det (c o)
  | TryLoad8 _ _ => False
  end.

Lemma det_aruns {A} (p : prog A) v r : aruns p v r -> det p -> r = srun p v.
Proof.
  induction 1; cbn [det srun]; intros Hd; try contradiction; try reflexivity; auto.
  - assert ((vcur v + n <=? vhwm v) = true) as -> by (apply N.leb_le; assumption). auto.
  - assert ((vcur v + n <=? vhwm v) = false) as -> by (apply N.leb_gt; assumption). reflexivity.
Qed.

(* peeking does not move anything the next peek depends on *)
Lemma vpeek_after_peek v k j : vpeek (after_peek v k) j = vpeek v j.
Proof. reflexivity. Qed.

Lemma nnth_nskipn {A} (l : list A) i j : nnth (nskipn i l) j = nnth l (i + j).
Proof. unfold nnth, nskipn. rewrite nth_error_skipn. f_equal. lia. Qed.

Lemma nskipn_cons_nnth {A} (l : list A) i x r : nskipn i l = x :: r -> nnth l i = Some x /\ nskipn (i + 1) l = r.
Proof.
  intros H. split.
  - replace i with (i + 0) by lia. rewrite <- nnth_nskipn, H. reflexivity.
  - replace (i + 1) with (1 + i) by lia. rewrite <- nskipn_nskipn, H. reflexivity.
Qed.

Lemma nskipn_nil_nnth {A} (l : list A) i : nskipn i l = [] -> nnth l i = None.
Proof.
  intros H. replace i with (i + 0) by lia. rewrite <- nnth_nskipn, H. reflexivity.
Qed.

Lemma aruns_ret_inv {A} (a : A) v r : aruns (Ret a) v r -> r = ADone a v.
Proof. intros H. inversion H; subst. reflexivity. Qed.
