(* s_rd.ml — stream "rd": an operation history on the DeferredReader model.
   case:  rd <datahex> <events> <prebuffered> <ops>
   trace: one observation per op, then "| calls=<n>" *)
open Model
open Util

let parse_event (s : string) : revent =
  let arg () = n_of_str (String.sub s 1 (String.length s - 1)) in
  match s.[0] with
  | 'd' -> Deliver (arg ())
  | 'i' -> Interrupt
  | 'f' -> FailE (arg ())
  | 'e' -> Eof
  | 'l' -> Lie (arg ())
  | _ -> failwith ("bad event " ^ s)

let parse_events (s : string) : revent list =
  if s = "-" then [] else List.map parse_event (split_on ',' s)

let parse_op (s : string) : rop =
  let arg () = n_of_str (String.sub s 1 (String.length s - 1)) in
  match s.[0] with
  | 'r' -> ORequest (arg ())
  | 'p' -> OPeek (arg ())
  | 'm' -> ORequestMore
  | 'a' -> OAdvance (arg ())
  | 'w' -> OAdvanceWithBuf (arg ())
  | 'k' -> OSetMark
  | 't' -> OSetMarkTo (arg ())
  | 'c' -> OSetChunk (arg ())
  | 'b' -> OBuf
  | 'l' -> OBufLen
  | 'P' -> OPosition
  | 'M' -> OMark
  | 'C' -> OIsComplete
  | 'E' -> OIsAtEnd
  | 'I' -> OIoError
  | 'X' -> OCheckIoError
  | _ -> failwith ("bad op " ^ s)

let show_panic (k : panic_kind) : string =
  match k with
  | PAdvance -> "!adv" | PReadContract -> "!read" | POverflow -> "!ovf" | PIndex -> "!idx"
  | PUnwrap -> "!unwrap" | PAssert -> "!assert" | PCapacity -> "!cap"

let show_obs (o : robs) : string =
  match o with
  | VBytes bs -> "b" ^ hex_of_bytes bs
  | VOptByte None -> "none"
  | VOptByte (Some b) -> Printf.sprintf "%02x" (int_of_n b)
  | VBool true -> "T" | VBool false -> "F"
  | VNum n -> str_of_n n
  | VUnit -> "."
  | VOptErr None -> "ok"
  | VOptErr (Some e) -> "e" ^ str_of_n e
  | VPanic k -> show_panic k
  | VUB -> "UB"
  | VFuel -> "FUEL"

let mk_source (datahex : string) (evs : string) (pre : string) : source =
  let d = bytes_of_hex datahex in
  let k = int_of_string pre in
  let rec split i l = if i = 0 then ([], l) else match l with [] -> ([], []) | x :: t ->
    let (a, b) = split (i - 1) t in (x :: a, b) in
  let (p, rest) = split k d in
  { prebuf = p; data = rest; events = parse_events evs }

let run (toks : string list) : string =
  match toks with
  | [datahex; evs; pre; ops] ->
      let s0 = reader_init (mk_source datahex evs pre) in
      let ops = if ops = "-" then [] else List.map parse_op (split_on ',' ops) in
      let (s, obs) = Model.run s0 ops in
      String.concat " " (List.map show_obs obs) ^ " | calls=" ^ str_of_n s.g_calls
  | _ -> failwith "rd: expected <data> <events> <pre> <ops>"
