(* s_wr.ml — stream "wr": an operation history on the DeferredWriter model.
   case:  wr <sink events> <ops>
   trace: one observation per op, then "| rx=<len>:<fnv64> calls=<n> log=<offered lengths>" *)
open Model
open Util

let pattern (seed : int) (len : int) : n list =
  List.init len (fun i -> n_of_int ((seed * 31 + i * 17 + i / 256) land 255))

let parse_wevent (s : string) : wevent =
  let arg () = n_of_str (String.sub s 1 (String.length s - 1)) in
  match s.[0] with
  | 'a' -> Accept (arg ())
  | 'i' -> WInterrupt
  | 'f' -> WFail (arg ())
  | _ -> failwith ("bad sink event " ^ s)

let parse_ity (s : string) : ity =
  match s with
  | "i8" -> I8 | "u8" -> U8 | "i16" -> I16 | "u16" -> U16 | "i32" -> I32 | "u32" -> U32
  | "i64" -> I64 | "u64" -> U64 | "i128" -> I128 | "u128" -> U128 | "isize" -> Isize | "usize" -> Usize
  | _ -> failwith ("bad type " ^ s)

let parse_wop (s : string) : wop =
  let body = String.sub s 1 (String.length s - 1) in
  let parts = String.split_on_char ':' body in
  match s.[0], parts with
  | 'w', [len; seed] -> WWrite (pattern (int_of_string seed) (int_of_string len))
  | 'g', [ty; v] -> WDigits (parse_ity ty, zz_of_str v)
  | 'd', [len; k; seed] -> WDirect (n_of_str len, pattern (int_of_string seed) (int_of_string k))
  | 'f', _ -> WFlush
  | 'F', _ -> WFlushDefer
  | 'c', _ -> WCheck
  | 'D', _ -> WDrop
  | _ -> failwith ("bad writer op " ^ s)

let show_wobs (o : wobs) : string =
  match o with
  | WUnit -> "."
  | WRes None -> "ok"
  | WRes (Some e) -> "e" ^ str_of_n e
  | WNull true -> "null"
  | WNull false -> "ptr"
  | WUB -> "UB"
  | WPanicked k -> S_rd.show_panic k
  | WOutOfFuel -> "FUEL"

let fnv64 (l : n list) : string =
  let h = ref 0xcbf29ce484222325L in
  List.iter (fun b ->
    h := Int64.logxor !h (Int64.of_int (int_of_n b));
    h := Int64.mul !h 0x100000001b3L) l;
  Printf.sprintf "%016Lx" !h

let run (toks : string list) : string =
  match toks with
  | [evs; ops] ->
      let evs = if evs = "-" then [] else List.map parse_wevent (split_on ',' evs) in
      let ops = if ops = "-" then [] else List.map parse_wop (split_on ',' ops) in
      let (s, obs) = wrun (writer_init evs) ops in
      let sk = s.wsink in
      Printf.sprintf "%s | rx=%d:%s calls=%s log=%s"
        (String.concat " " (List.map show_wobs obs))
        (List.length sk.received) (fnv64 sk.received) (str_of_n sk.wcalls)
        (String.concat "," (List.rev_map str_of_n sk.wlog))
  | _ -> failwith "wr: expected <sink events> <ops>"
