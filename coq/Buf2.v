(* Buf2.v — C10 for the BTOR2, AIGER and solver-log parser programs: instances of ProgBuf.crun_buf_window /
   crun_buf_bound (the reader's buffer while a parser program runs), from the look-ahead theorems of Btor2Look.v,
   AigerLook.v, AigLook.v and LookProofs.v, in the way CnfBuf.v does it for the DIMACS parsers.

   The bound of one call: C the chunk size, n the number of bytes the call consumes, L the length of the longest
   line of the input.
     - a call that hands out an item (a BTOR2 line, an AIGER header / section entry / symbol): nothing beyond the item
       was ever asked for (plus one byte: the LF behind a BTOR2 comment, the request that finds the end of the input),
       so every Peek has an offset of at most n and the buffer never exceeds 4C + n + 1; a binary and gate: 4C + n;
     - a call that ends otherwise may have asked for the rest of the line its cursor stops in: 4C + n + L + 1.
   n is what the call consumes, and that is honest: BTOR2's skip_whitespace at the start of next_line looks over the
   whole run of spaces and blank lines before it advances over it, so the reader does hold that whole run -- it is part
   of what the call consumes.  Nothing in the bounds depends on the position in the input or on the number of items
   handed out before: the state left by a call satisfies the hypotheses of the next one.
   The solver log parser is a single call that consumes the whole log: as one call it only has the bound by the length
   of the log plus a line (parse_log_buf_any).  Its loop is therefore taken apart: one iteration (the comment lines it
   passes and the line it reads) is the program [log_iter]; running the loop is running an iteration and then the rest
   of the loop (log_body_iter, an equation between instrumented executions); an iteration has the look-ahead bound of a
   call (log_iter_lookahead, from LogLook.log_body_step); hence log_loop_buf / parse_log_buf_init: if every iteration
   consumes at most n bytes, the buffer never exceeds 4C + n + L + 1, however long the log. *)
From Flussab Require Import Base Reader ListN Writer Parsed Prog Text TextSpec ProgProofs ScanProofs DigitsProofs.
From Flussab Require Import ReaderProofs Simulation Consts Cnf CnfProofs ErrProofs Hoare CnfSafe Look LookProofs ProgBuf CnfBuf.
From Flussab Require Import LookW Btor2 Btor2Proofs Btor2Safe Btor2Look Varint Aiger AigerProofs AigerSafe AigerLook AigLook LogLook.
Ltac Zify.zify_post_hook ::= Z.to_euclidean_division_equations.
Local Open Scope N_scope.

(* ================================================================== *)
(* 1. one call that hands out an item                                   *)

(* [Sel] selects the outcomes "an item was handed out"; for those, every admissible run asked for at most d bytes
   beyond its final cursor.  If such a call consumes at most n bytes, all its peeks have offsets below n + d. *)
Lemma sel_call_buf {A} (p : prog A) (Sel : A -> Prop) s v C n d m :
  Rel s v -> vreq v = vcur v -> BufOK C (n + d) s ->
  (forall r, aruns p v r -> exists a v', r = ADone a v' /\ (Sel a -> vreq v' <= N.max (vreq v) (vcur v' + d))) ->
  forall a s', crun p s = CDone a s' -> Sel a -> g_consumed s' - g_consumed s <= n ->
  PeekBound (n + d) p s /\ snd (crun_buf p s m) <= N.max m (4 * C + (n + d)) /\ BufOK C (n + d) s'.
Proof.
  intros HR Hreq HB Hall a s' Hc Hsel Hn.
  destruct (window_peeks p (fun r => exists a v', r = ADone a v' /\ Sel a /\ vcur v' - vcur v <= n) (n + d) s v HR)
    as (r & Hr & Href & HPB).
  { intros vi r Hvia (a1 & v1 & -> & Hs1 & Hspan). split; [discriminate|].
    destruct (via_mono _ _ _ _ Hvia _ _ eq_refl) as (h1 & h2 & h3 & h4).
    destruct (Hall _ (via_aruns _ _ _ _ Hvia)) as (a2 & v2 & E & Hq). inversion E; subst a2 v2.
    specialize (Hq Hs1). lia. }
  destruct (Hall r Hr) as (a2 & v2 & -> & _). destruct Href as (s2 & Hc2 & HR'). rewrite Hc in Hc2. inversion Hc2; subst a2 s2.
  assert (HP : PeekBound (n + d) p s).
  { apply HPB. exists a, v2. split; [reflexivity|]. split; [exact Hsel|].
    rewrite (r_cur _ _ (proj1 HR')), (r_cur _ _ (proj1 HR)). exact Hn. }
  split; [exact HP|]. destruct (crun_buf_bound p C (n + d) s m HB HP) as (h1 & h2 & _).
  split; [exact h1|exact (h2 _ _ Hc)].
Qed.

(* ================================================================== *)
(* 2. BTOR2: Parser::next_line                                          *)

Lemma KB_reqreset fuel lr v : KB fuel lr v -> KB fuel lr (v_reqreset v).
Proof. intros H. exact H. Qed.

Lemma ItemLkB_upto v v' : ItemLkB v v' -> vreq v' <= N.max (vreq v) (vcur v' + 1).
Proof. intros [[(b1 & b2 & b3)|(b1 & b2)]|(b1 & b2 & b3)]; lia. Qed.

Lemma ItemLk_upto v v' : ItemLk v v' -> vreq v' <= N.max (vreq v) (vcur v' + 1).
Proof. intros [(b1 & b2 & b3)|(b1 & b2)]; lia. Qed.

(* a call that hands out a line and consumes at most n bytes -- the spaces and blank lines before the line (which
   skip_whitespace looks over as a whole before it advances), the line, and the LF of a line without a comment:
   every Peek of the call has an offset of at most n, the buffer never exceeds 4C + n + 1, and the reader is left in a
   state in which the same holds for the next call *)
Theorem btor2_next_line_buf fuel lr s v C n l lr' s' m :
  Rel s v -> KB fuel lr v -> BufOK C (n + 1) s ->
  crun (next_line fuel lr) s = CDone (Ok (Some l), lr') s' ->
  g_consumed s' - g_consumed s <= n ->
  PeekBound (n + 1) (next_line fuel lr) s /\
  snd (crun_buf (next_line fuel lr) s m) <= N.max m (4 * C + n + 1) /\
  BufOK C (n + 1) s' /\
  exists v', Rel s' v' /\ KB fuel lr' v' /\ vS v' = vS v.
Proof.
  intros HR HK HB Hc Hn. set (v0 := v_reqreset v).
  assert (HR0 : Rel s v0) by (apply Rel_reqreset; exact HR).
  assert (HK0 : KB fuel lr v0) by (apply KB_reqreset; exact HK).
  destruct (sel_call_buf (next_line fuel lr) (fun a => exists l1 lr1, a = (Ok (Some l1), lr1)) s v0 C n 1 m HR0 eq_refl HB)
    with (a := (@Ok (option line) perr (Some l), lr')) (s' := s') as (h1 & h2 & h3).
  - intros r Hr. destruct (btor2_next_line_lookahead fuel lr v0 r HK0 Hr) as (res & lr2 & v' & -> & _ & _ & _ & Hres).
    exists (res, lr2), v'. split; [reflexivity|]. intros (l1 & lr1 & E). inversion E; subst res lr2.
    destruct Hres as (_ & _ & Hi). apply ItemLkB_upto. exact (ItemLk_ItemLkB_if _ _ _ Hi).
  - exact Hc.
  - exists l, lr'. reflexivity.
  - exact Hn.
  - split; [exact h1|]. split; [lia|]. split; [exact h3|].
    destruct (simulation (next_line fuel lr) s v HR) as (r & Hr & Href).
    destruct (btor2_next_line_lookahead fuel lr v r HK Hr) as (res & lr2 & v' & -> & HS & _ & _ & Hres).
    destruct Href as (s2 & Hc2 & HR'). rewrite Hc in Hc2. inversion Hc2; subst res lr2 s2.
    destruct Hres as (HK' & _). exists v'. split; [exact HR'|]. split; [exact HK'|exact HS].
Qed.

(* whatever the call returns (a line, the end of the input, an error): the rest of the line the cursor stops in may have
   been asked for *)
Theorem btor2_next_line_buf_any fuel lr s v C n L m :
  Rel s v -> KB fuel lr v -> LinesWithin L (vS v) -> BufOK C (n + L + 1) s ->
  exists res lr' s' v',
    crun (next_line fuel lr) s = CDone (res, lr') s' /\ Rel s' v' /\ vS v' = vS v /\
    match res with Ok (Some _) => KB fuel lr' v' | _ => True end /\
    (g_consumed s' - g_consumed s <= n ->
       snd (crun_buf (next_line fuel lr) s m) <= N.max m (4 * C + (n + L + 1)) /\ BufOK C (n + L + 1) s').
Proof.
  intros HR HK HL HB. set (v0 := v_reqreset v).
  assert (HR0 : Rel s v0) by (apply Rel_reqreset; exact HR).
  assert (HK0 : KB fuel lr v0) by (apply KB_reqreset; exact HK).
  destruct (lk_call_buf (next_line fuel lr) s v0 C n L m HR0 eq_refl HL HB) as (a & s' & v' & Hc & HR' & Hr & Hb).
  { intros r Hr. destruct (btor2_next_line_lookahead fuel lr v0 r HK0 Hr) as (res & lr2 & v' & -> & HS & Hle & HLk & _).
    exists (res, lr2), v'. split; [reflexivity|]. split; [exact HS|]. split; [exact Hle|exact HLk]. }
  destruct (btor2_next_line_lookahead fuel lr v0 _ HK0 Hr) as (res & lr2 & v2 & E & HS & _ & _ & Hres).
  inversion E; subst a v2. exists res, lr2, s', v'.
  split; [exact Hc|]. split; [exact HR'|]. split; [exact HS|]. split; [|exact Hb].
  destruct res as [[l|]|e]; [exact (proj1 Hres)|exact I|exact I].
Qed.

(* ---------- a whole parse: any number of lines ---------- *)

(* every call of the loop [drive_lines] consumes at most n bytes (a statement about the concrete run: the spans of the
   lines of the input as the parser sees them, each with the blank lines before it) *)
Fixpoint LineSpans (fuel : nat) (n : N) (cnt : nat) (lr : lrs) (s : rstate) : Prop :=
  match cnt with
  | O => True
  | S c =>
      match crun (next_line fuel lr) s with
      | CDone (res, lr') s' =>
          g_consumed s' - g_consumed s <= n /\
          match res with
          | Ok (Some _) => LineSpans fuel n c lr' s'
          | _ => True
          end
      | _ => True
      end
  end.

Theorem drive_lines_buf fuel C n L : forall cnt acc lr s v m,
  Rel s v -> KB fuel lr v -> LinesWithin L (vS v) -> BufOK C (n + L + 1) s ->
  LineSpans fuel n cnt lr s ->
  snd (crun_buf (drive_lines fuel cnt acc lr) s m) <= N.max m (4 * C + (n + L + 1)).
Proof.
  induction cnt as [|c IH]; intros acc lr s v m HR HK HL HB Hsp.
  - cbn [drive_lines]. unfold pnofuel. cbn [crun_buf snd]. destruct HB as (_ & _ & _ & Hb). lia.
  - cbn [drive_lines]. unfold pbnd. rewrite crun_buf_pbind.
    destruct (btor2_next_line_buf_any fuel lr s v C n L m HR HK HL HB) as (res & lr' & s' & v' & Hc & HR' & HS & HK' & Hb).
    cbn [LineSpans] in Hsp. rewrite Hc in Hsp. destruct Hsp as [Hn Hrest].
    destruct (Hb Hn) as [Hm HB'].
    pose proof (crun_buf_fst (next_line fuel lr) s m) as Hf.
    destruct (crun_buf (next_line fuel lr) s m) as [cr m']. cbn [fst snd] in Hf, Hm. rewrite Hc in Hf. subst cr.
    destruct res as [[l|]|e].
    + assert (HL' : LinesWithin L (vS v')) by (rewrite HS; exact HL).
      pose proof (IH (l :: acc) lr' s' v' m' HR' HK' HL' HB' Hrest) as I1. lia.
    + unfold pret. cbn [crun_buf snd]. destruct HB' as (_ & _ & _ & b4). lia.
    + unfold pret. cbn [crun_buf snd]. destruct HB' as (_ & _ & _ & b4). lia.
Qed.

Theorem parse_btor2_buf fuel C n L lr s v m :
  Rel s v -> KB fuel lr v -> LinesWithin L (vS v) -> BufOK C (n + L + 1) s ->
  LineSpans fuel n fuel lr s ->
  snd (crun_buf (parse_btor2 fuel lr) s m) <= N.max m (4 * C + (n + L + 1)).
Proof. intros HR HK HL HB Hsp. unfold parse_btor2. eapply drive_lines_buf; eassumption. Qed.

(* from the start of the input: any honest source, any read schedule, any chunk size c >= 1, an input of any length with
   any number of lines.  If every call of next_line consumes at most n bytes and no line is longer than L, no reader
   state of the whole parse holds a buffer of more than 4c + n + L + 1 bytes. *)
Corollary parse_btor2_buf_init fuel (sr : source) (c n L : N) :
  NoLie (events sr) -> 1 <= c ->
  Forall (fun b => b < 256) (fst (stream_of sr)) -> nlen (fst (stream_of sr)) < 2 ^ 62 ->
  (length (fst (stream_of sr)) < fuel)%nat ->
  LinesWithin L (fst (stream_of sr)) ->
  LineSpans fuel n fuel lrs_init (set_chunk (reader_init sr) c) ->
  snd (crun_buf (parse_btor2 fuel lrs_init) (set_chunk (reader_init sr) c) 0) <= 4 * c + (n + L + 1).
Proof.
  intros HN Hc Hb Hl Hf HL Hsp.
  pose proof (parse_btor2_buf fuel c n L lrs_init (set_chunk (reader_init sr) c)
                (view_init (fst (stream_of sr)) (snd (stream_of sr))) 0
                (Rel_init sr c HN Hc) (KB_init fuel _ _ Hb Hl Hf) HL (BufOK_init sr c _) Hsp) as H.
  lia.
Qed.

Print Assumptions btor2_next_line_buf.
Print Assumptions btor2_next_line_buf_any.
Print Assumptions drive_lines_buf.
Print Assumptions parse_btor2_buf_init.

(* ================================================================== *)
(* 3. AIGER: the header and the section entries (text lines)            *)

Lemma KM_reqreset fuel lr v : KM fuel (vS v) lr v -> KM fuel (vS (v_reqreset v)) lr (v_reqreset v).
Proof. intros H. exact H. Qed.

(* any entry reader with the bound of AigerLook.v (EntryLook: lit_line for inputs, outputs, bad, constraints, justice
   literals and fairness; justice_size; the ascii latch and and-gate readers): an entry handed out *)
Theorem aag_entry_buf fuel {St : Type} (m0 : PM (result (item * St) perr)) lr s v C n x lr' s' m :
  EntryLook fuel m0 -> Rel s v -> KM fuel (vS v) lr v -> BufOK C (n + 1) s ->
  crun (m0 lr) s = CDone (Ok x, lr') s' ->
  g_consumed s' - g_consumed s <= n ->
  PeekBound (n + 1) (m0 lr) s /\
  snd (crun_buf (m0 lr) s m) <= N.max m (4 * C + n + 1) /\
  BufOK C (n + 1) s' /\
  exists v', Rel s' v' /\ KM fuel (vS v') lr' v' /\ vS v' = vS v.
Proof.
  intros Hm HR HK HB Hc Hn. set (v0 := v_reqreset v).
  assert (HR0 : Rel s v0) by (apply Rel_reqreset; exact HR).
  assert (HK0 : KM fuel (vS v0) lr v0) by (apply KM_reqreset; exact HK).
  destruct (sel_call_buf (m0 lr) (fun a => exists x1 lr1, a = (Ok x1, lr1)) s v0 C n 1 m HR0 eq_refl HB)
    with (a := (@Ok (item * St) perr x, lr')) (s' := s') as (h1 & h2 & h3).
  - intros r Hr. destruct (Hm lr v0 r HK0 Hr) as (res & lr2 & v' & -> & _ & _ & _ & Hres).
    exists (res, lr2), v'. split; [reflexivity|]. intros (x1 & lr1 & E). inversion E; subst res lr2.
    destruct Hres as (_ & Hi). apply ItemLk_upto. exact Hi.
  - exact Hc.
  - exists x, lr'. reflexivity.
  - exact Hn.
  - split; [exact h1|]. split; [lia|]. split; [exact h3|].
    destruct (simulation (m0 lr) s v HR) as (r & Hr & Href).
    destruct (Hm lr v r HK Hr) as (res & lr2 & v' & -> & HS & _ & _ & Hres).
    destruct Href as (s2 & Hc2 & HR'). rewrite Hc in Hc2. inversion Hc2; subst res lr2 s2.
    destruct Hres as ([HK' _] & _). exists v'. split; [exact HR'|]. rewrite HS. split; [exact HK'|reflexivity].
Qed.

(* whatever the entry reader returns *)
Theorem aag_entry_buf_any fuel {St : Type} (m0 : PM (result (item * St) perr)) lr s v C n L m :
  EntryLook fuel m0 -> Rel s v -> KM fuel (vS v) lr v -> LinesWithin L (vS v) -> BufOK C (n + L + 1) s ->
  exists res lr' s' v',
    crun (m0 lr) s = CDone (res, lr') s' /\ Rel s' v' /\ vS v' = vS v /\
    match res with Ok _ => KM fuel (vS v') lr' v' | Err _ => True end /\
    (g_consumed s' - g_consumed s <= n ->
       snd (crun_buf (m0 lr) s m) <= N.max m (4 * C + (n + L + 1)) /\ BufOK C (n + L + 1) s').
Proof.
  intros Hm HR HK HL HB. set (v0 := v_reqreset v).
  assert (HR0 : Rel s v0) by (apply Rel_reqreset; exact HR).
  assert (HK0 : KM fuel (vS v0) lr v0) by (apply KM_reqreset; exact HK).
  destruct (lk_call_buf (m0 lr) s v0 C n L m HR0 eq_refl HL HB) as (a & s' & v' & Hc & HR' & Hr & Hb).
  { intros r Hr. destruct (Hm lr v0 r HK0 Hr) as (res & lr2 & v' & -> & HS & Hle & HLk & _).
    exists (res, lr2), v'. split; [reflexivity|]. split; [exact HS|]. split; [exact Hle|exact HLk]. }
  destruct (Hm lr v0 _ HK0 Hr) as (res & lr2 & v2 & E & HS & _ & _ & Hres).
  inversion E; subst a v2. exists res, lr2, s', v'.
  split; [exact Hc|]. split; [exact HR'|]. split; [exact HS|]. split; [|exact Hb].
  destruct res as [x|e]; [|exact I]. destruct Hres as ([HK' _] & _). rewrite HS. exact HK'.
Qed.

(* the instances *)
Corollary aag_lit_line_buf fuel {St : Type} maxc ml asg mk (st : St) lr s v C n x lr' s' m :
  Rel s v -> KM fuel (vS v) lr v -> BufOK C (n + 1) s ->
  crun (lit_line fuel maxc ml asg mk st lr) s = CDone (Ok x, lr') s' -> g_consumed s' - g_consumed s <= n ->
  snd (crun_buf (lit_line fuel maxc ml asg mk st lr) s m) <= N.max m (4 * C + n + 1) /\ BufOK C (n + 1) s'.
Proof.
  intros HR HK HB Hc Hn.
  destruct (aag_entry_buf fuel _ lr s v C n x lr' s' m (EntryLook_lit_line fuel maxc ml asg mk st) HR HK HB Hc Hn) as (_ & h2 & h3 & _).
  split; assumption.
Qed.

Corollary aag_latch_buf fuel maxc ml (st : unit) lr s v C n x lr' s' m :
  Rel s v -> KM fuel (vS v) lr v -> BufOK C (n + 1) s ->
  crun (aag_latch fuel maxc ml st lr) s = CDone (Ok x, lr') s' -> g_consumed s' - g_consumed s <= n ->
  snd (crun_buf (aag_latch fuel maxc ml st lr) s m) <= N.max m (4 * C + n + 1) /\ BufOK C (n + 1) s'.
Proof.
  intros HR HK HB Hc Hn.
  destruct (aag_entry_buf fuel _ lr s v C n x lr' s' m (EntryLook_latch fuel maxc ml st) HR HK HB Hc Hn) as (_ & h2 & h3 & _).
  split; assumption.
Qed.

Corollary aag_and_buf fuel maxc ml (st : unit) lr s v C n x lr' s' m :
  Rel s v -> KM fuel (vS v) lr v -> BufOK C (n + 1) s ->
  crun (aag_and fuel maxc ml st lr) s = CDone (Ok x, lr') s' -> g_consumed s' - g_consumed s <= n ->
  snd (crun_buf (aag_and fuel maxc ml st lr) s m) <= N.max m (4 * C + n + 1) /\ BufOK C (n + 1) s'.
Proof.
  intros HR HK HB Hc Hn.
  destruct (aag_entry_buf fuel _ lr s v C n x lr' s' m (EntryLook_and fuel maxc ml st) HR HK HB Hc Hn) as (_ & h2 & h3 & _).
  split; assumption.
Qed.

Lemma EntryLook_aig_latch fuel maxc ml code : code < W64 -> EntryLook fuel (aig_latch fuel maxc ml code).
Proof. intros Hc lr v r. apply aig_entry_lookahead_latch. exact Hc. Qed.

Corollary aig_latch_buf fuel maxc ml code lr s v C n x lr' s' m :
  code < W64 -> Rel s v -> KM fuel (vS v) lr v -> BufOK C (n + 1) s ->
  crun (aig_latch fuel maxc ml code lr) s = CDone (Ok x, lr') s' -> g_consumed s' - g_consumed s <= n ->
  snd (crun_buf (aig_latch fuel maxc ml code lr) s m) <= N.max m (4 * C + n + 1) /\ BufOK C (n + 1) s'.
Proof.
  intros Hcode HR HK HB Hc Hn.
  destruct (aag_entry_buf fuel _ lr s v C n x lr' s' m (EntryLook_aig_latch fuel maxc ml code Hcode) HR HK HB Hc Hn) as (_ & h2 & h3 & _).
  split; assumption.
Qed.

(* Header::parse (either magic word) *)
Theorem aag_header_buf fuel (magic : bytes) maxc lr s v C n hd lr' s' m :
  magic <> [] -> ~ In 10 magic ->
  Rel s v -> KM fuel (vS v) lr v -> BufOK C (n + 1) s ->
  crun (parse_aheader fuel magic maxc lr) s = CDone (Ok hd, lr') s' ->
  g_consumed s' - g_consumed s <= n ->
  snd (crun_buf (parse_aheader fuel magic maxc lr) s m) <= N.max m (4 * C + n + 1) /\ BufOK C (n + 1) s'.
Proof.
  intros Hne H10 HR HK HB Hc Hn. set (v0 := v_reqreset v).
  assert (HR0 : Rel s v0) by (apply Rel_reqreset; exact HR).
  assert (HK0 : KM fuel (vS v0) lr v0) by (apply KM_reqreset; exact HK).
  destruct (sel_call_buf (parse_aheader fuel magic maxc lr) (fun a => exists x1 lr1, a = (Ok x1, lr1)) s v0 C n 1 m HR0 eq_refl HB)
    with (a := (@Ok aheader perr hd, lr')) (s' := s') as (h1 & h2 & h3).
  - intros r Hr. destruct (aag_header_lookahead fuel magic maxc lr v0 r Hne H10 HK0 Hr) as (res & lr2 & v' & -> & _ & _ & _ & Hres).
    exists (res, lr2), v'. split; [reflexivity|]. intros (x1 & lr1 & E). inversion E; subst res lr2.
    destruct Hres as (_ & Hi). apply ItemLk_upto. exact Hi.
  - exact Hc.
  - exists hd, lr'. reflexivity.
  - exact Hn.
  - split; [lia|exact h3].
Qed.

(* ---------- a whole section: any number of entries ---------- *)

(* every call of the entry reader in the section loop consumes at most n bytes (a statement about the concrete run) *)
Fixpoint SectSpans {St : Type} (it : St -> PM (result (item * St) perr)) (n : N) (cnt : nat) (left : N) (st : St)
         (lr : lrs) (s : rstate) : Prop :=
  if left =? 0 then True else
  match cnt with
  | O => True
  | S c =>
      match crun (it st lr) s with
      | CDone (res, lr') s' =>
          g_consumed s' - g_consumed s <= n /\
          match res with
          | Ok (_, st') => SectSpans it n c (left - 1) st' lr' s'
          | Err _ => True
          end
      | _ => True
      end
  end.

(* a section of any of the ascii formats' entries (inputs, latches, outputs, bad, constraints, justice, fairness, and
   gates): however many entries it has, the buffer stays below a bound that depends on the chunk size, the largest span
   of an entry and the longest line only *)
Theorem aag_section_buf fuel {St : Type} (it : St -> PM (result (item * St) perr)) C n L :
  (forall st, EntryLook fuel (it st)) ->
  forall cnt left st acc lr s v m,
  Rel s v -> KM fuel (vS v) lr v -> LinesWithin L (vS v) -> BufOK C (n + L + 1) s ->
  SectSpans it n cnt left st lr s ->
  snd (crun_buf (sloop cnt it left st acc lr) s m) <= N.max m (4 * C + (n + L + 1)) /\
  forall r lr' s', crun (sloop cnt it left st acc lr) s = CDone (r, lr') s' ->
    BufOK C (n + L + 1) s' /\ exists v', Rel s' v' /\ vS v' = vS v /\ (snd r = None -> KM fuel (vS v') lr' v').
Proof.
  intros Hit. induction cnt as [|c IH]; intros left st acc lr s v m HR HK HL HB Hsp; cbn [sloop SectSpans] in *.
  - destruct (left =? 0).
    + unfold pret. cbn [crun crun_buf snd]. split; [destruct HB as (_ & _ & _ & b4); lia|].
      intros r lr' s' E. inversion E; subst. split; [exact HB|]. exists v. split; [exact HR|]. split; [reflexivity|intros _; exact HK].
    + unfold pnofuel. cbn [crun crun_buf snd]. split; [destruct HB as (_ & _ & _ & b4); lia|]. intros r lr' s' E. discriminate E.
  - destruct (left =? 0).
    + unfold pret. cbn [crun crun_buf snd]. split; [destruct HB as (_ & _ & _ & b4); lia|].
      intros r lr' s' E. inversion E; subst. split; [exact HB|]. exists v. split; [exact HR|]. split; [reflexivity|intros _; exact HK].
    + destruct (aag_entry_buf_any fuel (it st) lr s v C n L m (Hit st) HR HK HL HB) as (res & lr1 & s1 & v1 & Hc & HR1 & HS & HK1 & Hb).
      rewrite Hc in Hsp. destruct Hsp as [Hn Hrest]. destruct (Hb Hn) as [Hm HB1].
      assert (Hcr : forall r lr' s', crun (pbnd (it st) (fun r0 => match r0 with
                                                       | Ok (x, st') => sloop c it (left - 1) st' (x :: acc)
                                                       | Err e => pret (rev acc, st, Some e)
                                                       end) lr) s = CDone (r, lr') s' ->
                                      crun (match res with
                                            | Ok (x, st') => sloop c it (left - 1) st' (x :: acc)
                                            | Err e => pret (rev acc, st, Some e)
                                            end lr1) s1 = CDone (r, lr') s').
      { intros r lr' s' E. rewrite <- (crun_buf_fst _ s 0) in E. unfold pbnd in E. rewrite crun_buf_pbind in E.
        pose proof (crun_buf_fst (it st lr) s 0) as Hf0. destruct (crun_buf (it st lr) s 0) as [cr m0]. cbn [fst] in Hf0.
        rewrite Hc in Hf0. subst cr. rewrite crun_buf_fst in E. exact E. }
      unfold pbnd at 1. rewrite crun_buf_pbind.
      pose proof (crun_buf_fst (it st lr) s m) as Hf.
      destruct (crun_buf (it st lr) s m) as [cr m']. cbn [fst snd] in Hf, Hm. rewrite Hc in Hf. subst cr.
      assert (HL1 : LinesWithin L (vS v1)) by (rewrite HS; exact HL).
      destruct res as [[x st1]|e].
      * destruct (IH (left - 1) st1 (x :: acc) lr1 s1 v1 m' HR1 HK1 HL1 HB1 Hrest) as [I1 I2]. split; [lia|].
        intros r lr' s' E. destruct (I2 r lr' s' (Hcr r lr' s' E)) as (j1 & v' & j2 & j3 & j4).
        split; [exact j1|]. exists v'. split; [exact j2|]. split; [congruence|exact j4].
      * unfold pret. cbn [crun_buf snd]. split; [destruct HB1 as (_ & _ & _ & b4); lia|].
        intros r lr' s' E. pose proof (Hcr r lr' s' E) as E1. unfold pret in E1. cbn [crun] in E1. inversion E1; subst.
        split; [exact HB1|]. exists v1. split; [exact HR1|]. split; [exact HS|]. cbn [snd]. intros E2. discriminate E2.
Qed.

Print Assumptions aag_entry_buf.
Print Assumptions aag_entry_buf_any.
Print Assumptions aag_header_buf.
Print Assumptions aag_section_buf.

(* ================================================================== *)
(* 4. AIGER: the binary and-gate reader                                 *)

(* a gate handed out: nothing beyond its last byte was asked for, so the peeks have offsets below the number n of bytes
   of the gate (at most 16), and the buffer never exceeds 4C + n *)
Theorem aig_and_buf fuel maxc code lr s v C n x lr' s' m :
  code < W64 -> Rel s v -> KM fuel (vS v) lr v -> BufOK C n s ->
  crun (aig_and maxc code lr) s = CDone (Ok x, lr') s' ->
  g_consumed s' - g_consumed s <= n ->
  PeekBound n (aig_and maxc code lr) s /\
  snd (crun_buf (aig_and maxc code lr) s m) <= N.max m (4 * C + n) /\
  BufOK C n s' /\
  exists v', Rel s' v' /\ KM fuel (vS v') lr' v' /\ vS v' = vS v.
Proof.
  intros Hcode HR HK HB Hc Hn. set (v0 := v_reqreset v).
  assert (HR0 : Rel s v0) by (apply Rel_reqreset; exact HR).
  assert (HK0 : KM fuel (vS v0) lr v0) by (apply KM_reqreset; exact HK).
  assert (HB0 : BufOK C (n + 0) s) by (rewrite N.add_0_r; exact HB).
  destruct (sel_call_buf (aig_and maxc code lr) (fun a => exists x1 lr1, a = (Ok x1, lr1)) s v0 C n 0 m HR0 eq_refl HB0)
    with (a := (@Ok (item * N) perr x, lr')) (s' := s') as (h1 & h2 & h3).
  - intros r Hr. destruct (aig_and_lookahead fuel maxc code lr v0 r Hcode HK0 Hr) as (res & lr2 & v' & -> & _ & _ & _ & Hres).
    exists (res, lr2), v'. split; [reflexivity|]. intros (x1 & lr1 & E). inversion E; subst res lr2.
    destruct Hres as (_ & Hq). lia.
  - exact Hc.
  - exists x, lr'. reflexivity.
  - exact Hn.
  - rewrite N.add_0_r in h1, h2, h3. split; [exact h1|]. split; [exact h2|]. split; [exact h3|].
    destruct (simulation (aig_and maxc code lr) s v HR) as (r & Hr & Href).
    destruct (aig_and_lookahead fuel maxc code lr v r Hcode HK Hr) as (res & lr2 & v' & -> & HS & _ & _ & Hres).
    destruct Href as (s2 & Hc2 & HR'). rewrite Hc in Hc2. inversion Hc2; subst res lr2 s2.
    destruct Hres as ([HK' _] & _). exists v'. split; [exact HR'|]. rewrite HS. split; [exact HK'|reflexivity].
Qed.

(* whatever the call returns: an error is reported after token::unexpected has looked at the bytes behind the error
   position, within the line (as far as the binary section has lines) the cursor stops in *)
Theorem aig_and_buf_any fuel maxc code lr s v C n L m :
  code < W64 -> Rel s v -> KM fuel (vS v) lr v -> LinesWithin L (vS v) -> BufOK C (n + L + 1) s ->
  exists res lr' s' v',
    crun (aig_and maxc code lr) s = CDone (res, lr') s' /\ Rel s' v' /\ vS v' = vS v /\
    match res with Ok _ => KM fuel (vS v') lr' v' | Err _ => True end /\
    (g_consumed s' - g_consumed s <= n ->
       snd (crun_buf (aig_and maxc code lr) s m) <= N.max m (4 * C + (n + L + 1)) /\ BufOK C (n + L + 1) s').
Proof.
  intros Hcode HR HK HL HB. set (v0 := v_reqreset v).
  assert (HR0 : Rel s v0) by (apply Rel_reqreset; exact HR).
  assert (HK0 : KM fuel (vS v0) lr v0) by (apply KM_reqreset; exact HK).
  destruct (lk_call_buf (aig_and maxc code lr) s v0 C n L m HR0 eq_refl HL HB) as (a & s' & v' & Hc & HR' & Hr & Hb).
  { intros r Hr. destruct (aig_and_lookahead fuel maxc code lr v0 r Hcode HK0 Hr) as (res & lr2 & v' & -> & HS & Hle & HLk & _).
    exists (res, lr2), v'. split; [reflexivity|]. split; [exact HS|]. split; [exact Hle|exact HLk]. }
  destruct (aig_and_lookahead fuel maxc code lr v0 _ Hcode HK0 Hr) as (res & lr2 & v2 & E & HS & _ & _ & Hres).
  inversion E; subst a v2. exists res, lr2, s', v'.
  split; [exact Hc|]. split; [exact HR'|]. split; [exact HS|]. split; [|exact Hb].
  destruct res as [x|e]; [|exact I]. destruct Hres as ([HK' _] & _). rewrite HS. exact HK'.
Qed.

(* the and-gate section, any number of gates: a gate has at most 16 bytes, so a section that runs to its end never
   holds a buffer of more than 4C + 16 bytes -- no hypothesis on the input at all *)
Theorem aig_and_section_buf fuel maxc C : forall cnt left code acc lr s v m items st' lr' s',
  code < W64 -> Rel s v -> KM fuel (vS v) lr v -> BufOK C 16 s ->
  crun (sloop cnt (aig_and maxc) left code acc lr) s = CDone ((items, st', None), lr') s' ->
  snd (crun_buf (sloop cnt (aig_and maxc) left code acc lr) s m) <= N.max m (4 * C + 16) /\ BufOK C 16 s'.
Proof.
  induction cnt as [|c IH]; intros left code acc lr s v m items st' lr' s' Hcode HR HK HB Hc; cbn [sloop] in *.
  - destruct (left =? 0); [|discriminate Hc]. unfold pret in *. cbn [crun crun_buf snd] in *. inversion Hc; subst.
    split; [destruct HB as (_ & _ & _ & b4); lia|exact HB].
  - destruct (left =? 0).
    { unfold pret in *. cbn [crun crun_buf snd] in *. inversion Hc; subst. split; [destruct HB as (_ & _ & _ & b4); lia|exact HB]. }
    rewrite <- (crun_buf_fst _ s m) in Hc. unfold pbnd in *. rewrite crun_buf_pbind in *.
    pose proof (crun_buf_fst (aig_and maxc code lr) s m) as Hf.
    destruct (crun_buf (aig_and maxc code lr) s m) as [[[res lr1] s1|pk s1| |] m1] eqn:E; cbn [fst snd] in *; try discriminate Hc.
    symmetry in Hf. destruct res as [[x code']|e]; [|unfold pret in Hc; cbn [crun_buf fst] in Hc; discriminate Hc].
    assert (Hspan : g_consumed s1 - g_consumed s <= 16 /\ code' < W64).
    { destruct (simulation (aig_and maxc code lr) s v HR) as (r & Hr & Href).
      destruct (aig_and_lookahead fuel maxc code lr v r Hcode HK Hr) as (res & lr2 & v1 & -> & _ & _ & _ & Hres).
      destruct Href as (s2 & Hc2 & HR1). rewrite Hf in Hc2. inversion Hc2; subst res lr2 s2.
      destruct Hres as (_ & _ & h3 & h4). cbn [snd] in h4.
      rewrite <- (r_cur _ _ (proj1 HR1)), <- (r_cur _ _ (proj1 HR)). split; [lia|]. rewrite h4. apply N.mod_lt. discriminate. }
    destruct Hspan as [Hspan Hcode'].
    destruct (aig_and_buf fuel maxc code lr s v C 16 (x, code') lr1 s1 m Hcode HR HK HB Hf Hspan) as (_ & h2 & h3 & v1 & HR1 & HK1 & _).
    rewrite E in h2. cbn [snd] in h2.
    rewrite (crun_buf_fst _ s1 m1) in Hc.
    destruct (IH (left - 1) code' (x :: acc) lr1 s1 v1 m1 items st' lr' s' Hcode' HR1 HK1 h3 Hc) as [I1 I2].
    split; [lia|exact I2].
Qed.

Print Assumptions aig_and_buf.
Print Assumptions aig_and_buf_any.
Print Assumptions aig_and_section_buf.

(* ================================================================== *)
(* 5. the solver log: one call for the whole log                        *)

(* parse_log returns only at the end of the log.  As a single call it consumes the whole log, and the per-call statement
   bounds the buffer by what the call consumes plus a line; the bound that does not depend on the length of the log
   follows below, iteration by iteration. *)
Theorem parse_log_buf_any fuel maxd iu lr s v C n L m :
  Rel s v -> K fuel lr v -> LinesWithin L (vS v) -> BufOK C (n + L + 1) s ->
  exists res lr' s' v',
    crun (parse_log fuel maxd iu lr) s = CDone (res, lr') s' /\ Rel s' v' /\ vS v' = vS v /\
    (g_consumed s' - g_consumed s <= n ->
       snd (crun_buf (parse_log fuel maxd iu lr) s m) <= N.max m (4 * C + (n + L + 1)) /\ BufOK C (n + L + 1) s').
Proof.
  intros HR HK HL HB. set (v0 := v_reqreset v).
  assert (HR0 : Rel s v0) by (apply Rel_reqreset; exact HR).
  assert (HK0 : K fuel lr v0) by (apply K_reqreset; exact HK).
  destruct (lk_call_buf (parse_log fuel maxd iu lr) s v0 C n L m HR0 eq_refl HL HB) as (a & s' & v' & Hc & HR' & Hr & Hb).
  { intros r Hr. destruct (prt_elim _ _ _ _ _ (parse_log_okr fuel maxd iu lr v0 HK0) Hr) as (res & lr2 & v' & -> & (a1 & _ & a3 & a4) & _).
    exists (res, lr2), v'. split; [reflexivity|]. split; [exact a1|]. split; [exact a3|exact a4]. }
  destruct (prt_elim _ _ _ _ _ (parse_log_okr fuel maxd iu lr v0 HK0) Hr) as (res & lr2 & v2 & E & (a1 & _) & _).
  inversion E; subst a v2. exists res, lr2, s', v'.
  split; [exact Hc|]. split; [exact HR'|]. split; [exact a1|exact Hb].
Qed.
Print Assumptions parse_log_buf_any.

(* ---------- the loop inside, iteration by iteration ---------- *)

(* one iteration of the loop as a program of its own: the body (LogLook.log_body) with continuations that return --
   [inl st'] where the loop would go on with the next line, [inr r] where it would be left with the result r *)
Definition log_iter (fuel : nat) (maxd : Z) (iu : bool) (st : logstate)
  : PM (logstate + result (option bool * list Z) perr) :=
  log_body fuel (fun r => pret (inr r)) (fun st' => pret (inl st')) maxd iu st.

(* running the body is running one iteration and then the continuation it selects *)
Definition after_iter {R : Type} (ex : result (option bool * list Z) perr -> PM R) (k : logstate -> PM R)
           (x : cres ((logstate + result (option bool * list Z) perr) * lrs) * N) : cres (R * lrs) * N :=
  match x with
  | (CDone (inl st', lr') s', m') => crun_buf (k st' lr') s' m'
  | (CDone (inr r, lr') s', m') => crun_buf (ex r lr') s' m'
  | (CPanic pk s', m') => (CPanic pk s', m')
  | (CUB, m') => (CUB, m')
  | (CFuel, m') => (CFuel, m')
  end.

Lemma after_iter_pbnd {R A : Type} (ex : result (option bool * list Z) perr -> PM R) (k : logstate -> PM R)
      (p : PM A) (f1 : A -> PM (logstate + result (option bool * list Z) perr)) (f2 : A -> PM R) lr s m :
  (forall a lr1 s1 m1, crun_buf (f2 a lr1) s1 m1 = after_iter ex k (crun_buf (f1 a lr1) s1 m1)) ->
  crun_buf (pbnd p f2 lr) s m = after_iter ex k (crun_buf (pbnd p f1 lr) s m).
Proof.
  intros H. unfold pbnd. rewrite !crun_buf_pbind.
  destruct (crun_buf (p lr) s m) as [[[a lr1] s1|pk s1| |] m1]; [apply H|reflexivity..].
Qed.

Lemma after_iter_ret_l {R : Type} (ex : result (option bool * list Z) perr -> PM R) (k : logstate -> PM R) st' lr s m :
  crun_buf (k st' lr) s m = after_iter ex k (crun_buf (pret (inl st') lr) s m).
Proof. unfold pret. cbn [crun_buf after_iter]. symmetry. apply crun_buf_start. Qed.

Lemma after_iter_ret_r {R : Type} (ex : result (option bool * list Z) perr -> PM R) (k : logstate -> PM R) r lr s m :
  crun_buf (ex r lr) s m = after_iter ex k (crun_buf (pret (inr r) lr) s m).
Proof. unfold pret. cbn [crun_buf after_iter]. symmetry. apply crun_buf_start. Qed.

Lemma log_body_iter fuel {R : Type} (ex : result (option bool * list Z) perr -> PM R) (k : logstate -> PM R) maxd iu st lr s m :
  crun_buf (log_body fuel ex k maxd iu st lr) s m = after_iter ex k (crun_buf (log_iter fuel maxd iu st lr) s m).
Proof.
  unfold log_iter, log_body.
  apply after_iter_pbnd. intros [u|e] lr1 s1 m1; [|apply after_iter_ret_r].
  apply after_iter_pbnd. intros [[|]|e] lr2 s2 m2; [| |apply after_iter_ret_r].
  - apply after_iter_pbnd. intros _ lr3 s3 m3.
    apply after_iter_pbnd. intros [[a fin]|e] lr4 s4 m4; [|apply after_iter_ret_r].
    apply after_iter_pbnd. intros [u5|e] lr5 s5 m5; [apply after_iter_ret_l|apply after_iter_ret_r].
  - apply after_iter_pbnd. intros [[|]|e] lr3 s3 m3; [| |apply after_iter_ret_r].
    + apply after_iter_pbnd. intros [sv|e] lr4 s4 m4; [apply after_iter_ret_l|apply after_iter_ret_r].
    + apply after_iter_pbnd. intros [[|]|e] lr4 s4 m4; [| |apply after_iter_ret_r].
      * destruct (started st && negb (finished st)); [|apply after_iter_ret_r].
        apply after_iter_pbnd. intros e lr5 s5 m5. apply after_iter_ret_r.
      * apply after_iter_pbnd. intros [[|]|e] lr5 s5 m5; [apply after_iter_ret_l| |apply after_iter_ret_r].
        apply after_iter_pbnd. intros e lr6 s6 m6. apply after_iter_ret_r.
Qed.

(* L1 for one iteration: whatever the outcome, what it asked for lies in the line of its final cursor; when the loop
   goes on, a whole line has been consumed and nothing beyond its line break asked for *)
Theorem log_iter_lookahead fuel maxd iu st lr v r :
  K fuel lr v -> aruns (log_iter fuel maxd iu st lr) v r ->
  exists a lr' v', r = ADone (a, lr') v' /\ vS v' = vS v /\ vcur v <= vcur v' /\ Lk v v' /\
    match a with
    | inl st' => K fuel lr' v' /\ vcur v < vcur v' /\ ItemLk v v'
    | inr res => LogExitI v res lr' v'
    end.
Proof.
  intros HK Hr.
  assert (H : prt (log_iter fuel maxd iu st) lr v (fun a lr' v' =>
                framer v v' /\ match a with
                               | inl st' => K fuel lr' v' /\ vcur v < vcur v' /\ ItemLk v v'
                               | inr res => LogExitI v res lr' v'
                               end)).
  { unfold log_iter. apply log_body_step; [exact HK| |].
    - intros st' lr' v' HK' Hf' Hlt' Hi'. apply prt_pret. split; [exact Hf'|]. split; [exact HK'|]. split; assumption.
    - intros res lr' v' He. apply prt_pret. split; [exact (proj1 He)|exact He]. }
  destruct (prt_elim _ _ _ _ _ H Hr) as (a & lr' & v' & -> & (a1 & _ & a3 & a4) & Ha).
  exists a, lr', v'. split; [reflexivity|]. split; [exact a1|]. split; [exact a3|]. split; [exact a4|exact Ha].
Qed.
Print Assumptions log_iter_lookahead.

(* C10 for one iteration *)
Theorem log_iter_buf_any fuel maxd iu st lr s v C n L m :
  Rel s v -> K fuel lr v -> LinesWithin L (vS v) -> BufOK C (n + L + 1) s ->
  exists a lr' s' v',
    crun (log_iter fuel maxd iu st lr) s = CDone (a, lr') s' /\ Rel s' v' /\ vS v' = vS v /\
    match a with inl _ => K fuel lr' v' | inr _ => True end /\
    (g_consumed s' - g_consumed s <= n ->
       snd (crun_buf (log_iter fuel maxd iu st lr) s m) <= N.max m (4 * C + (n + L + 1)) /\ BufOK C (n + L + 1) s').
Proof.
  intros HR HK HL HB. set (v0 := v_reqreset v).
  assert (HR0 : Rel s v0) by (apply Rel_reqreset; exact HR).
  assert (HK0 : K fuel lr v0) by (apply K_reqreset; exact HK).
  destruct (lk_call_buf (log_iter fuel maxd iu st lr) s v0 C n L m HR0 eq_refl HL HB) as (a & s' & v' & Hc & HR' & Hr & Hb).
  { intros r Hr. destruct (log_iter_lookahead fuel maxd iu st lr v0 r HK0 Hr) as (a & lr2 & v' & -> & HS & Hle & HLk & _).
    exists (a, lr2), v'. split; [reflexivity|]. split; [exact HS|]. split; [exact Hle|exact HLk]. }
  destruct (log_iter_lookahead fuel maxd iu st lr v0 _ HK0 Hr) as (a2 & lr2 & v2 & E & HS & _ & _ & Hres).
  inversion E; subst a v2. exists a2, lr2, s', v'.
  split; [exact Hc|]. split; [exact HR'|]. split; [exact HS|]. split; [|exact Hb].
  destruct a2 as [st'|res]; [exact (proj1 Hres)|exact I].
Qed.
Print Assumptions log_iter_buf_any.

(* every iteration of the loop -- the comment lines it passes and the line it reads -- consumes at most n bytes (a
   statement about the concrete run) *)
Fixpoint LogSpans (fuel : nat) (n : N) (maxd : Z) (iu : bool) (cnt : nat) (st : logstate) (lr : lrs) (s : rstate) : Prop :=
  match cnt with
  | O => True
  | S c =>
      match crun (log_iter fuel maxd iu st lr) s with
      | CDone (a, lr') s' =>
          g_consumed s' - g_consumed s <= n /\
          match a with
          | inl st' => LogSpans fuel n maxd iu c st' lr' s'
          | inr _ => True
          end
      | _ => True
      end
  end.

(* the loop, however many lines it reads: the buffer stays below a bound that depends on the chunk size, the largest
   span of an iteration and the longest line only *)
Theorem log_loop_buf fuel C n L maxd iu : forall cnt st lr s v m,
  Rel s v -> K fuel lr v -> LinesWithin L (vS v) -> BufOK C (n + L + 1) s ->
  LogSpans fuel n maxd iu cnt st lr s ->
  snd (crun_buf (log_loop fuel cnt maxd iu st lr) s m) <= N.max m (4 * C + (n + L + 1)).
Proof.
  induction cnt as [|c IH]; intros st lr s v m HR HK HL HB Hsp.
  - cbn [log_loop]. unfold pnofuel. cbn [crun_buf snd]. destruct HB as (_ & _ & _ & Hb). lia.
  - rewrite log_loop_body, log_body_iter.
    destruct (log_iter_buf_any fuel maxd iu st lr s v C n L m HR HK HL HB) as (a & lr' & s' & v' & Hc & HR' & HS & HK' & Hb).
    cbn [LogSpans] in Hsp. rewrite Hc in Hsp. destruct Hsp as [Hn Hrest].
    destruct (Hb Hn) as [Hm HB'].
    pose proof (crun_buf_fst (log_iter fuel maxd iu st lr) s m) as Hf.
    destruct (crun_buf (log_iter fuel maxd iu st lr) s m) as [cr m']. cbn [fst snd] in Hf, Hm. rewrite Hc in Hf. subst cr.
    cbn [after_iter]. destruct a as [st'|res].
    + assert (HL' : LinesWithin L (vS v')) by (rewrite HS; exact HL).
      pose proof (IH st' lr' s' v' m' HR' HK' HL' HB' Hrest) as I1. lia.
    + unfold pret. cbn [crun_buf snd]. destruct HB' as (_ & _ & _ & b4). lia.
Qed.

Theorem parse_log_buf fuel maxd iu C n L lr s v m :
  Rel s v -> K fuel lr v -> LinesWithin L (vS v) -> BufOK C (n + L + 1) s ->
  LogSpans fuel n maxd iu fuel {| sat := None; assignment := []; started := false; finished := false |} lr s ->
  snd (crun_buf (parse_log fuel maxd iu lr) s m) <= N.max m (4 * C + (n + L + 1)).
Proof. intros HR HK HL HB Hsp. unfold parse_log. eapply log_loop_buf; eassumption. Qed.

(* from the start of the input: a log of any length.  If every iteration of the loop consumes at most n bytes and no
   line is longer than L, no reader state of the whole parse holds a buffer of more than 4c + n + L + 1 bytes. *)
Corollary parse_log_buf_init fuel maxd iu (sr : source) (c n L : N) :
  NoLie (events sr) -> 1 <= c ->
  Forall (fun b => b < 256) (fst (stream_of sr)) -> nlen (fst (stream_of sr)) < 2 ^ 62 ->
  (length (fst (stream_of sr)) < fuel)%nat ->
  LinesWithin L (fst (stream_of sr)) ->
  LogSpans fuel n maxd iu fuel {| sat := None; assignment := []; started := false; finished := false |} lrs_init
           (set_chunk (reader_init sr) c) ->
  snd (crun_buf (parse_log fuel maxd iu lrs_init) (set_chunk (reader_init sr) c) 0) <= 4 * c + (n + L + 1).
Proof.
  intros HN Hc Hb Hl Hf HL Hsp.
  pose proof (parse_log_buf fuel maxd iu c n L lrs_init (set_chunk (reader_init sr) c)
                (view_init (fst (stream_of sr)) (snd (stream_of sr))) 0
                (Rel_init sr c HN Hc) (K_init fuel _ _ Hb Hl Hf) HL (BufOK_init sr c _) Hsp) as H.
  lia.
Qed.
Print Assumptions log_loop_buf.
Print Assumptions parse_log_buf_init.

(* ================================================================== *)
(* 6. the hypotheses are satisfiable, the bounds are met: concrete inputs *)

(* "1 sort bitvec 1\n", then cnt lines "2 input 1\n" (BTOR2 does not mind the repeated id: ids are not checked by the parser) *)
Definition exb_l1 : bytes := [49; 32; 115; 111; 114; 116; 32; 98; 105; 116; 118; 101; 99; 32; 49; 10].
Definition exb_l2 : bytes := [50; 32; 105; 110; 112; 117; 116; 32; 49; 10].
Definition exb_src (cnt : nat) : source := {| prebuf := []; data := exb_l1 ++ concat (repeat exb_l2 cnt); events := [] |}.
Definition exb_run (cnt : nat) (c : N) :=
  crun_buf (parse_btor2 2000 lrs_init) (set_chunk (reader_init (exb_src cnt)) c) 0.

(* measured: with chunk size 4 the largest buffer of the whole parse is 16 bytes, for 416 bytes of input as for 1616;
   with chunk size 100 it is 302 *)
Example exb_measured :
  nlen (data (exb_src 40)) = 416 /\ snd (exb_run 40 4) = 16 /\
  nlen (data (exb_src 160)) = 1616 /\ snd (exb_run 160 4) = 16 /\ snd (exb_run 160 100) = 302 /\
  match fst (exb_run 160 4) with
  | CDone (items, fin, _) _ => length items = 161%nat /\ fin = FOk
  | _ => False
  end.
Proof. vm_compute. repeat split. Qed.

(* all hypotheses of parse_btor2_buf_init hold for the first input: chunk size 4, every call consumes at most 16 bytes,
   lines of at most 15 bytes: the theorem gives 4 * 4 + 16 + 15 + 1 = 48 *)
Example exb_bound :
  snd (crun_buf (parse_btor2 2000 lrs_init) (set_chunk (reader_init (exb_src 40)) 4) 0) <= 4 * 4 + (16 + 15 + 1).
Proof.
  apply parse_btor2_buf_init.
  - exact I.
  - lia.
  - apply Forall_ltb. vm_compute. reflexivity.
  - vm_compute. reflexivity.
  - apply Nat.ltb_lt. vm_compute. reflexivity.
  - apply lines_withinb_ok. vm_compute. reflexivity.
  - vm_compute. repeat split; discriminate.
Qed.

(* blank lines are part of what a call consumes: 30 empty lines before a node line are looked over as a whole by
   skip_whitespace before the cursor moves, and the buffer does hold them: with chunk size 1 it reaches 31 bytes (the
   call consumes 46; btor2_next_line_buf gives 4 * 1 + 46 + 1) *)
Example exb_blank_run :
  let sr := {| prebuf := []; data := repeat 10 30 ++ exb_l1; events := [] |} in
  match crun_buf (next_line 2000 lrs_init) (set_chunk (reader_init sr) 1) 0 with
  | (CDone (Ok (Some _), _) s', mx) => (g_consumed s', mx, mx <=? 4 * 1 + 46 + 1) = (46, 31, true)
  | _ => False
  end.
Proof. vm_compute. reflexivity. Qed.

(* the binary and-gate reader: chunk size 4, gates of 2 and 3 bytes: the buffer is 4 bytes during the first gate and 8
   during the second (aig_and_buf gives 4 * 4 + 2 and 4 * 4 + 3) *)
Example exg_measured :
  let sr := {| prebuf := []; data := [2; 2; 129; 0; 1; 2; 2; 2; 2; 2; 2; 2; 2; 2; 2; 2; 2]; events := [] |} in
  match crun_buf (aig_and 255 6 lrs_init) (set_chunk (reader_init sr) 4) 0 with
  | (CDone (Ok _, lr) s1, m1) =>
      m1 = 4 /\
      match crun_buf (aig_and 255 200 lr) s1 m1 with
      | (CDone (Ok _, _) s2, m2) => (g_consumed s2, m2) = (5, 8)
      | _ => False
      end
  | _ => False
  end.
Proof. vm_compute. split; reflexivity. Qed.

(* the solver log: "s SATISFIABLE\n" then cnt value lines "v 1 -2 3\n" and "v 0\n".  The per-call statement bounds the
   buffer by the length of the log; measured, the buffer does not grow with the log: with chunk size 4 it is 16 bytes
   for 10 value lines (108 bytes) as for 100 (918 bytes); with chunk size 100 it is 300 *)
Definition exl_s : bytes := [115; 32; 83; 65; 84; 73; 83; 70; 73; 65; 66; 76; 69; 10].
Definition exl_v : bytes := [118; 32; 49; 32; 45; 50; 32; 51; 10].
Definition exl_end : bytes := [118; 32; 48; 10].
Definition exl_src (cnt : nat) : source :=
  {| prebuf := []; data := exl_s ++ concat (repeat exl_v cnt) ++ exl_end; events := [] |}.
Definition exl_run (cnt : nat) (c : N) :=
  crun_buf (parse_log 2000 max_dimacs_i32 false lrs_init) (set_chunk (reader_init (exl_src cnt)) c) 0.

Example exl_measured :
  nlen (data (exl_src 10)) = 108 /\ nlen (data (exl_src 100)) = 918 /\
  snd (exl_run 10 4) = 16 /\ snd (exl_run 100 4) = 16 /\ snd (exl_run 100 100) = 300 /\
  match fst (exl_run 100 4) with
  | CDone (Ok (Some true, a), _) _ => length a = 300%nat
  | _ => False
  end.
Proof. vm_compute. repeat split. Qed.

(* all hypotheses of parse_log_buf_init hold for the short log: chunk size 4, every iteration consumes at most 14 bytes
   (the status line; a value line has 9), lines of at most 13 bytes: the theorem gives 4 * 4 + 14 + 13 + 1 = 44 *)
Example exl_bound :
  snd (crun_buf (parse_log 2000 max_dimacs_i32 false lrs_init) (set_chunk (reader_init (exl_src 10)) 4) 0)
  <= 4 * 4 + (14 + 13 + 1).
Proof.
  apply parse_log_buf_init.
  - exact I.
  - lia.
  - apply Forall_ltb. vm_compute. reflexivity.
  - vm_compute. reflexivity.
  - apply Nat.ltb_lt. vm_compute. reflexivity.
  - apply lines_withinb_ok. vm_compute. reflexivity.
  - vm_compute. repeat split; discriminate.
Qed.
