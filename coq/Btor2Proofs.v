(* Btor2Proofs.v — the BTOR2 parser programs are answer-insensitive (C01 for BTOR2):
   A. the 8-byte SWAR lowercase test of the keyword scanner, for every 64-bit word;
   B. ascii_lowercase_u64 / ascii_lowercase: the fast and the cold path return the same word, the
      same length and leave the same core of the view, whatever the buffering questions answer;
   C. PDet of every token and of the whole parser. *)
From Flussab Require Import Base Reader ListN Writer Parsed Prog Text TextSpec ProgProofs ScanProofs DigitsProofs.
From Flussab Require Import SwarProofs Consts Cnf CnfProofs Btor2.

Local Open Scope N_scope.

(* ------------------------------------------------------------------ *)
(* A. the SWAR kernel                                                  *)

Fixpoint lower_prefix (l : bytes) : bytes :=
  match l with
  | b :: r => if is_lower b then b :: lower_prefix r else []
  | [] => []
  end.

(* the test on one byte lane *)
Definition gl (b : N) : N :=
  N.land (N.lor (N.lor (N.lxor b 96) (N.lxor (N.land b 31) 31 + 1)) (N.land b 31 + 5)) 224.

Lemma gl_lower b : b < 256 -> is_lower b = true -> gl b = 0.
Proof.
  intros Hb Hd.
  pose proof (byte_forall (fun b => implb (is_lower b) (gl b =? 0))) as H.
  specialize (H ltac:(vm_compute; reflexivity) b Hb). cbv beta in H.
  rewrite Hd in H. apply N.eqb_eq, H.
Qed.

Lemma gl_nlower b : b < 256 -> is_lower b = false -> gl b <> 0.
Proof.
  intros Hb Hd.
  pose proof (byte_forall (fun b => implb (gl b =? 0) (is_lower b))) as H.
  specialize (H ltac:(vm_compute; reflexivity) b Hb). cbv beta in H.
  intros E. rewrite E, Hd in H. discriminate H.
Qed.

Lemma gl_lt b : b < 256 -> gl b < 2 ^ 8.
Proof.
  intros Hb.
  pose proof (byte_forall (fun b => gl b <? 256)) as H.
  specialize (H ltac:(vm_compute; reflexivity) b Hb). apply N.ltb_lt, H.
Qed.

Lemma land31_lt b : N.land b 31 < 32.
Proof. change 31 with (N.ones 5). rewrite N.land_ones. change 32 with (2 ^ 5). apply N.mod_lt, pow2_nz. Qed.

Lemma lxor31_lt a : a < 32 -> N.lxor a 31 < 32.
Proof. intros H. change 32 with (2 ^ 5) in *. apply (op_small N.lxor lxor_mod 5); [exact H|cbn; lia]. Qed.

Lemma lc_matches_lanes l : length l = 8%nat -> small 8 l ->
  lc_matches (lv 8 l) = lv 8 (List.map gl l).
Proof.
  intros Hlen Hs. unfold lc_matches.
  do 8 (destruct l as [|? l]; try discriminate). destruct l; try discriminate. clear Hlen.
  change (REP8 * btor2_lc_high) with (lv 8 [96;96;96;96;96;96;96;96]).
  change (REP8 * btor2_lc_low) with (lv 8 [31;31;31;31;31;31;31;31]).
  change (REP8 * btor2_lc_large) with (lv 8 [5;5;5;5;5;5;5;5]).
  change (REP8 * btor2_lc_mask) with (lv 8 [224;224;224;224;224;224;224;224]).
  change REP8 with (lv 8 [1;1;1;1;1;1;1;1]).
  assert (Hc96 : small 8 [96;96;96;96;96;96;96;96]) by solve_small.
  assert (Hc31 : small 8 [31;31;31;31;31;31;31;31]) by solve_small.
  assert (Hc224 : small 8 [224;224;224;224;224;224;224;224]) by solve_small.
  assert (HL : forall b, N.land b 31 < 2 ^ 8) by (intro b; pose proof (land31_lt b); change (2 ^ 8) with 256; lia).
  assert (HX : forall b, N.lxor (N.land b 31) 31 + 1 < 2 ^ 8)
    by (intro b; pose proof (lxor31_lt _ (land31_lt b)); change (2 ^ 8) with 256; lia).
  assert (HP : forall b, N.land b 31 + 5 < 2 ^ 8) by (intro b; pose proof (land31_lt b); change (2 ^ 8) with 256; lia).
  rewrite lv_land by (assumption || solve_small). cbn [map2].
  match goal with |- context [N.lxor (lv 8 ?L) (lv 8 [31;31;31;31;31;31;31;31])] =>
    assert (Hlow : small 8 L) by (unfold small; repeat (apply Forall_cons || apply Forall_nil); (apply HL || apply HX || apply HP))
  end.
  rewrite (lv_lxor 8 _ [31;31;31;31;31;31;31;31]) by (reflexivity || assumption). cbn [map2].
  rewrite !lv_add by reflexivity. cbn [map2].
  rewrite (lv_lxor 8 _ [96;96;96;96;96;96;96;96]) by (reflexivity || assumption). cbn [map2].
  match goal with |- context [N.lor (N.lor (lv 8 ?A) (lv 8 ?B)) (lv 8 ?C)] =>
    assert (HA : small 8 A) by (apply (small_lxor 8 _ _ Hs Hc96));
    assert (HB : small 8 B) by (unfold small; repeat (apply Forall_cons || apply Forall_nil); (apply HL || apply HX || apply HP));
    assert (HC : small 8 C) by (unfold small; repeat (apply Forall_cons || apply Forall_nil); (apply HL || apply HX || apply HP));
    rewrite (lv_lor 8 A B) by (reflexivity || assumption); cbn [map2];
    pose proof (small_lor 8 _ _ HA HB) as HAB; cbn [map2] in HAB;
    rewrite (lv_lor 8 _ C) by (reflexivity || assumption); cbn [map2];
    pose proof (small_lor 8 _ _ HAB HC) as HABC; cbn [map2] in HABC
  end.
  rewrite lv_land by assumption. reflexivity.
Qed.

Lemma map_gl_lower ds : small 8 ds -> Forall (fun b => is_lower b = true) ds ->
  List.map gl ds = repeat 0 (length ds).
Proof.
  induction ds as [|d ds IH]; intros Hs Hd; cbn [List.map repeat length]; [reflexivity|].
  inversion Hs; inversion Hd; subst. rewrite gl_lower, IH; auto.
Qed.

(* shift = 8 * number of leading lowercase letters *)
Lemma lc_shift_spec ds rest :
  length (ds ++ rest) = 8%nat -> small 8 (ds ++ rest) ->
  Forall (fun b => is_lower b = true) ds ->
  match rest with [] => True | c :: _ => is_lower c = false end ->
  N.land (trailing_zeros64 (lv 8 (List.map gl (ds ++ rest)))) 120 = 8 * nlen ds.
Proof.
  intros Hlen Hs Hd Hr. apply small_app in Hs as [Hs1 Hs2].
  rewrite map_app, lv_app, (map_gl_lower ds Hs1 Hd), lv_repeat0, N.add_0_l.
  replace (nlen (repeat 0 (length ds))) with (nlen ds) by (unfold nlen; rewrite repeat_length; reflexivity).
  rewrite app_length in Hlen.
  destruct rest as [|c r].
  - cbn [List.map lv]. rewrite N.mul_0_r. cbn [length] in Hlen.
    unfold nlen. replace (length ds) with 8%nat by lia. reflexivity.
  - cbn [List.map lv]. cbn [length] in Hlen. inversion Hs2; subst.
    assert (Hg0 : gl c <> 0) by (apply gl_nlower; assumption).
    assert (Hg1 : gl c < 2 ^ 8) by (apply gl_lt; assumption).
    rewrite tz_shift by lia.
    destruct (tz_low (gl c) (lv 8 (List.map gl r)) 8 Hg0 Hg1) as [E1 E2]. rewrite E1.
    apply land120; [unfold nlen; lia | exact E2].
Qed.

Lemma lower_prefix_split l : exists rest,
  l = lower_prefix l ++ rest /\
  Forall (fun b => is_lower b = true) (lower_prefix l) /\
  match rest with [] => True | c :: _ => is_lower c = false end.
Proof.
  induction l as [|b l IH]; cbn [lower_prefix].
  - exists []. repeat split; constructor.
  - destruct (is_lower b) eqn:Hb.
    + destruct IH as (rest & E & Hd & Hr). exists rest. cbn [app].
      rewrite <- E. repeat split; [constructor|]; assumption.
    + exists (b :: l). repeat split; [constructor | exact Hb].
Qed.

(* !((!0u64) << shift) for shift = 8k < 64 is the mask of the low 8k bits *)
Lemma lc_mask k : k < 8 -> lnot64 (wshl M64 (8 * k)) = N.ones (8 * k).
Proof.
  intros Hk.
  pose proof (N_forall_lt (fun k => lnot64 (wshl M64 (8 * k)) =? N.ones (8 * k)) 8) as H.
  specialize (H ltac:(vm_compute; reflexivity) k ltac:(change (N.of_nat 8) with 8; lia)).
  apply N.eqb_eq, H.
Qed.

(* the kernel on every 64-bit word: the lowercase letters at the front of the 8 bytes, as a word
   (the remaining lanes zero), and their number *)
Theorem lc_swar_spec : forall l : bytes,
  length l = 8%nat -> Forall (fun b => b < 256) l ->
  lc_swar (le_value l) = (le_value (lower_prefix l), nlen (lower_prefix l)).
Proof.
  intros l Hlen Hb.
  assert (Hs : small 8 l) by exact Hb.
  unfold lc_swar. rewrite !le_value_lv, (lc_matches_lanes l Hlen Hs).
  destruct (lower_prefix_split l) as (rest & El & Hd & Hr).
  set (ds := lower_prefix l) in *. clearbody ds.
  subst l. cbv zeta. unfold bytes, byte in *.
  rewrite (lc_shift_spec ds rest Hlen Hs Hd Hr).
  apply small_app in Hs as [Hs1 Hs2].
  destruct (N.eqb_spec (8 * nlen ds) 64) as [E|E].
  - (* all eight are letters *)
    assert (Hr0 : rest = []).
    { rewrite app_length in Hlen. unfold nlen in E. destruct rest; [reflexivity|cbn [length] in Hlen; lia]. }
    subst rest. rewrite app_nil_r. f_equal. lia.
  - assert (Hk : nlen ds < 8).
    { rewrite app_length in Hlen. unfold nlen in *. lia. }
    rewrite (lc_mask (nlen ds) Hk), N.land_ones.
    rewrite (lv_mod_app 8 ds rest (8 * nlen ds) Hs1 eq_refl).
    f_equal. rewrite N.mul_comm. apply N.div_mul. lia.
Qed.
Print Assumptions lc_swar_spec.

(* ------------------------------------------------------------------ *)
(* B. ascii_lowercase_u64: cold path, fast path, and their agreement   *)

(* what one 8-byte step returns, and how many bytes from its offset the cold path looks at *)
Definition lc_spec (rest : bytes) : N * N :=
  (le_value (lower_prefix (firstn 8 rest)), nlen (lower_prefix (firstn 8 rest))).
Definition lc_look (rest : bytes) : N := N.min (nlen (lower_prefix (firstn 8 rest)) + 1) 8.

Lemma peeked_refl0 v : peeked_to v v 0.
Proof.
  assert (E0 : (nlen (vS v) <? 0) = false) by (apply N.ltb_ge; lia).
  unfold peeked_to. rewrite E0, orb_false_r. repeat split; lia.
Qed.

Lemma det_lc_cold n : forall off i word, det (lc_cold n off i word).
Proof.
  induction n as [|n IH]; intros off i word; cbn [lc_cold det]; [exact I|].
  intros [c|]; [|exact I]. destruct (is_lower c); [apply IH|exact I].
Qed.

Lemma lc_cold_spec n : forall off i word v,
  exists v', srun (lc_cold n off i word) v =
             ADone (word + 2 ^ (8 * i) * le_value (lower_prefix (firstn n (rest_at v (off + i)))),
                    i + nlen (lower_prefix (firstn n (rest_at v (off + i))))) v' /\
             peeked_to v v' (match n with
                             | O => 0
                             | S _ => vcur v + off + i
                                      + N.min (nlen (lower_prefix (firstn n (rest_at v (off + i)))) + 1) (N.of_nat n)
                             end).
Proof.
  induction n as [|n IH]; intros off i word v.
  - cbn [lc_cold srun firstn lower_prefix le_value]. change (nlen (@nil byte)) with 0.
    rewrite N.mul_0_r, !N.add_0_r. exists v. split; [reflexivity|apply peeked_refl0].
  - cbn [lc_cold srun]. rewrite vpeek_rest.
    pose proof (peeked_after_peek v (off + i)) as Hp.
    destruct (rest_at v (off + i)) as [|x r] eqn:E; cbn [firstn lower_prefix].
    + cbn [le_value]. change (nlen (@nil byte)) with 0. rewrite N.mul_0_r, !N.add_0_r.
      exists (after_peek v (off + i)). split; [reflexivity|].
      eapply peeked_weaken; [exact Hp|]. lia.
    + destruct (is_lower x) eqn:Hx.
      * assert (Er : rest_at (after_peek v (off + i)) (off + (i + 1)) = r).
        { rewrite (rest_at_peeked _ _ _ _ Hp). replace (off + (i + 1)) with (off + i + 1) by lia.
          eapply rest_at_succ; eauto. }
        destruct (IH off (i + 1) (word + x * 2 ^ (8 * i)) (after_peek v (off + i))) as (v' & Hrun & Hpk).
        rewrite Er in Hrun, Hpk. exists v'. split.
        -- rewrite Hrun. f_equal. cbn [le_value]. rewrite nlen_cons. f_equal; [|lia].
           replace (8 * (i + 1)) with (8 * i + 8) by lia. rewrite N.pow_add_r. change (2 ^ 8) with 256. lia.
        -- eapply peeked_weaken; [eapply peeked_trans; [exact Hp|exact Hpk]|].
           change (vcur (after_peek v (off + i))) with (vcur v). rewrite nlen_cons.
           destruct n as [|n']; [cbn [firstn lower_prefix]; change (nlen (@nil byte)) with 0; lia|lia].
      * cbn [le_value srun]. change (nlen (@nil byte)) with 0. rewrite N.mul_0_r, !N.add_0_r.
        exists (after_peek v (off + i)). split; [reflexivity|].
        eapply peeked_weaken; [exact Hp|]. lia.
Qed.

Lemma lower_prefix_le l : (length (lower_prefix l) <= length l)%nat.
Proof. induction l as [|x l IH]; cbn [lower_prefix length]; [lia|]. destruct (is_lower x); cbn [length]; lia. Qed.

(* every admissible run of one 8-byte step: the same word, the same length, the same core *)
Theorem lc_u64_spec off v r :
  WFV v -> BytesOK v ->
  aruns (ascii_lowercase_u64 off) v r ->
  exists v', r = ADone (lc_spec (rest_at v off)) v' /\
             core v' = core_after v (vcur v + off + lc_look (rest_at v off)).
Proof.
  intros Hwf Hb Hr. unfold ascii_lowercase_u64 in Hr. inversion Hr; subst.
  match goal with H : tryload_ok _ _ ?o |- _ => destruct o as [w|]; cbn [tryload_ok] in H; rename H into Hok end.
  - (* fast path: the SWAR kernel on the 8 loaded bytes *)
    destruct Hok as [Hlen ->].
    match goal with H : aruns _ (v_loaded v off _) r |- _ => rename H into Hc end.
    apply aruns_ret_inv in Hc. subst r.
    destruct (load8_is_rest v off Hlen) as [Hw Hl8].
    assert (Hsm : Forall (fun b => b < 256) (firstn 8 (rest_at v off))).
    { apply Forall_firstn. unfold rest_at, nskipn. apply Forall_skipn. exact Hb. }
    exists (v_loaded v off (Some (word_at v off))). split.
    + unfold word_at. rewrite Hw, (lc_swar_spec _ Hl8 Hsm). reflexivity.
    + change (core (v_loaded v off (Some (word_at v off)))) with (core v).
      apply core_after_within. unfold lc_look. lia.
  - (* cold path *)
    match goal with H : aruns _ (v_loaded v off None) r |- _ => rename H into Hc end.
    change (aruns (lc_cold 8 off 0 0) (v_loaded v off None) r) in Hc.
    rewrite (det_aruns _ _ _ Hc (det_lc_cold _ _ _ _)).
    destruct (lc_cold_spec 8 off 0 0 (v_loaded v off None)) as (v' & H1 & H2).
    replace (off + 0) with off in H1, H2 by lia. rewrite ?N.add_0_r in H2. change (rest_at (v_loaded v off None) off) with (rest_at v off) in H1, H2.
    exists v'. split.
    + rewrite H1. unfold lc_spec. rewrite N.mul_0_r, N.pow_0_r, N.mul_1_l, !N.add_0_l. reflexivity.
    + rewrite (peeked_core _ _ _ H2). unfold lc_look.
      change (vcur (v_loaded v off None)) with (vcur v). change (N.of_nat 8) with 8.
      unfold core_after. cbn [vS vfail vcur vmark vtaken vknown v_loaded]. reflexivity.
Qed.
Print Assumptions lc_u64_spec.

Section Det.
Variable fuel : nat.

Lemma CoreDet_lc_u64 off : CoreDet fuel (ascii_lowercase_u64 off).
Proof.
  intros v1 v2 r1 r2 Hc Hw1 Hw2 Hb Hlen H1 H2.
  destruct (core_eq _ _ Hc) as (a1 & _ & a3 & _).
  assert (Hb2 : BytesOK v2) by (unfold BytesOK; rewrite <- a1; exact Hb).
  destruct (lc_u64_spec off v1 r1 Hw1 Hb H1) as (w1 & -> & C1).
  destruct (lc_u64_spec off v2 r2 Hw2 Hb2 H2) as (w2 & -> & C2).
  cbn [agree]. rewrite (rest_at_core v1 v2 off Hc). split; [reflexivity|].
  rewrite C1, C2. apply core_after_core; [exact Hc|]. rewrite (rest_at_core v1 v2 off Hc), a3. reflexivity.
Qed.

(* the keyword scanner's loop: the same matched string and the same core for every admissible run *)
Lemma CoreDet_ascii_lowercase n : forall off acc, CoreDet fuel (ascii_lowercase n off acc).
Proof.
  induction n as [|n IH]; intros off acc; cbn [ascii_lowercase].
  - apply det_CoreDet. exact I.
  - apply CoreDet_bind; [apply CoreDet_lc_u64|]. intros [word adv].
    destruct (adv <? 8); [apply det_CoreDet; exact I|apply IH].
Qed.


(* ------------------------------------------------------------------ *)
(* C. every token and the whole parser                                 *)

Notation PD := (PDet fuel).

Lemma det_take_while n p : forall off acc, det (take_while n p off acc).
Proof.
  induction n as [|n IH]; intros off acc; cbn [take_while det]; [exact I|].
  intros [b|]; [|exact I]. destruct (p b); [apply IH|exact I].
Qed.

Ltac pdet_leaf :=
  first
    [ apply PDet_pret
    | apply PDet_lift_det; first [ apply det_tabs_or_spaces | apply det_newline | apply det_next_newline
                                 | apply det_fixed_from | apply det_take_while | (cbn [det]; intros; exact I) ]
    | (apply PDet_det; intros ?; cbn [det]; intros; exact I) ].

Lemma PDet_rbnd {A B} (m : PM (result A perr)) (f : A -> PM (result B perr)) :
  PD m -> (forall a, PD (f a)) -> PD (rbnd m f).
Proof.
  intros Hm Hf. unfold rbnd. apply PDet_pbnd; [exact Hm|]. intros [a|e]; [apply Hf|apply PDet_pret].
Qed.

Hint Resolve PDet_ppeek PDet_padvance PDet_pset_mark PDet_get_lrs PDet_set_lrs PDet_pcrash PDet_pnofuel
  PDet_line_at_offset PDet_give_up_at PDet_give_up PDet_give_up_at_mark PDet_teof PDet_unexpected : pdet.

Ltac pdet :=
  repeat first
    [ progress intros
    | solve [auto with pdet nocore]
    | pdet_leaf
    | apply PDet_pbnd
    | apply PDet_rbnd
    | apply PDet_or_unexpected
    | match goal with
      | |- PDet _ (match ?x with _ => _ end) => destruct x
      | |- PDet _ (if ?x then _ else _) => destruct x
      | |- PDet _ (let '(_, _) := ?x in _) => destruct x
      end ].
Ltac pd := repeat first [ solve [auto with pdet] | pdet ].

Lemma PDet_one_byte c : PD (one_byte c).
Proof. unfold one_byte, tok_ok, tok_ft. pd. Qed.
Hint Resolve PDet_one_byte : pdet.

Lemma PDet_space_tok : PD space_tok. Proof. unfold space_tok. pd. Qed.
Lemma PDet_comment_start : PD comment_start. Proof. unfold comment_start. pd. Qed.
Lemma PDet_newline_tok : PD newline_tok. Proof. unfold newline_tok, tok_ok, tok_ft. pd. Qed.
Hint Resolve PDet_space_tok PDet_comment_start PDet_newline_tok : pdet.

Lemma PDet_required_space : PD required_space. Proof. unfold required_space. pd. Qed.
Hint Resolve PDet_required_space : pdet.

(* the keyword scanner with its fast path: node_token and sort_token *)
Lemma PDet_keyword {A} (tbl : list (bytes * A)) : PD (keyword fuel tbl).
Proof.
  unfold keyword, tok_ok, tok_ft. apply PDet_pbnd; [apply PDet_lift; apply CoreDet_ascii_lowercase|]. pd.
Qed.
Lemma PDet_node_token : PD (node_token fuel). Proof. apply PDet_keyword. Qed.
Lemma PDet_sort_token : PD (sort_token fuel). Proof. apply PDet_keyword. Qed.
Hint Resolve PDet_node_token PDet_sort_token : pdet.

Lemma PDet_skip_ws_loop n : forall off, PD (skip_ws_loop n off).
Proof. induction n as [|n IH]; intros off; cbn [skip_ws_loop]; pd. Qed.
Hint Resolve PDet_skip_ws_loop : pdet.
Lemma PDet_skip_ws : PD (skip_ws fuel). Proof. unfold skip_ws. pd. Qed.
Hint Resolve PDet_skip_ws : pdet.

(* the integer tokens: uint with the SWAR digit scanner *)
Lemma PDet_uint : PD (uint fuel).
Proof.
  unfold uint. apply PDet_pbnd; [pd|]. intros _.
  apply PDet_pbnd; [apply PDet_lift; apply CoreDet_multi|]. intros [value offset]. pd.
Qed.
Hint Resolve PDet_uint : pdet.

Lemma PDet_nonnegative_int : PD (nonnegative_int fuel).
Proof. unfold nonnegative_int. apply PDet_located; pd. Qed.
Lemma PDet_positive_int : PD (positive_int fuel).
Proof.
  unfold positive_int, tok_ok, tok_ft. apply PDet_pbnd; [pd|]. intros o.
  destruct (match o with Some b => b =? 48 | None => false end); [pd|].
  apply PDet_pbnd; [apply PDet_located; pd|]. pd.
Qed.
Hint Resolve PDet_nonnegative_int PDet_positive_int : pdet.

Lemma PDet_required_positive_int : PD (required_positive_int fuel). Proof. unfold required_positive_int. pd. Qed.
Lemma PDet_required_nonnegative_int : PD (required_nonnegative_int fuel). Proof. unfold required_nonnegative_int. pd. Qed.
Lemma PDet_required_node_id : PD (required_node_id fuel). Proof. unfold required_node_id. pd. Qed.
Lemma PDet_required_sort_id : PD (required_sort_id fuel). Proof. unfold required_sort_id. pd. Qed.
Hint Resolve PDet_required_positive_int PDet_required_nonnegative_int PDet_required_node_id PDet_required_sort_id : pdet.

(* comments, symbols, constants *)
Lemma PDet_comment_body : PD (comment_body fuel).
Proof. unfold comment_body. pd. Qed.
Lemma PDet_symbol_name : PD (symbol_name fuel).
Proof. unfold symbol_name, tok_ok, tok_ft. pd. Qed.
Hint Resolve PDet_comment_body PDet_symbol_name : pdet.

Lemma det_decimal_string : det (decimal_string fuel).
Proof.
  unfold decimal_string. cbn [det]. intros o.
  destruct (match o with Some b => b =? 45 | None => false end); apply det_take_while.
Qed.

Lemma PDet_required_constant scan : det scan -> PD (required_constant scan).
Proof. intros Hd. unfold required_constant. apply PDet_pbnd; [apply PDet_lift_det; exact Hd|]. pd. Qed.
Lemma PDet_required_hex_constant : PD (required_hex_constant fuel).
Proof. apply PDet_required_constant. apply det_take_while. Qed.
Lemma PDet_required_binary_constant : PD (required_binary_constant fuel).
Proof. apply PDet_required_constant. apply det_take_while. Qed.
Lemma PDet_required_decimal_constant : PD (required_decimal_constant fuel).
Proof. apply PDet_required_constant. apply det_decimal_string. Qed.
Hint Resolve PDet_required_hex_constant PDet_required_binary_constant PDet_required_decimal_constant : pdet.

(* parser.rs *)
Lemma PDet_justice_loop n : forall count acc, PD (justice_loop fuel n count acc).
Proof.
  induction n as [|n IH]; intros count acc; cbn [justice_loop]; destruct (count =? 0); pd.
Qed.
Hint Resolve PDet_justice_loop : pdet.

Lemma PDet_value_body vt : PD (value_body fuel vt).
Proof. destruct vt; cbn [value_body]; pd. Qed.
Hint Resolve PDet_value_body : pdet.

Lemma PDet_node_body t : PD (node_body fuel t).
Proof. destruct t; cbn [node_body]; pd. Qed.
Hint Resolve PDet_node_body : pdet.

Lemma PDet_node_trailer : PD (node_trailer fuel).
Proof. unfold node_trailer. pd. Qed.
Hint Resolve PDet_node_trailer : pdet.

Lemma PDet_try_node : PD (try_node fuel).
Proof. unfold try_node, tok_err, tok_ft. pd. Qed.
Hint Resolve PDet_try_node : pdet.

Lemma PDet_next_line : PD (next_line fuel).
Proof. unfold next_line. pd. Qed.
Hint Resolve PDet_next_line : pdet.

Lemma PDet_drive_lines n : forall acc, PD (drive_lines fuel n acc).
Proof.
  induction n as [|n IH]; intros acc; cbn [drive_lines]; [pd|].
  apply PDet_pbnd; [pd|]. intros [[l|]|e]; [apply IH|pd|pd].
Qed.

(* C01 for BTOR2: the whole parse is answer-insensitive *)
Theorem PDet_parse_btor2 : PD (parse_btor2 fuel).
Proof. unfold parse_btor2. apply PDet_drive_lines. Qed.

End Det.
Print Assumptions PDet_parse_btor2.
